import Poulpy.Model.Ckks
/-!
Helper definitions and per-operation lemmas for C16 (`Props/C16.lean` holds the property theorems).
Everything here is about the definitions of `Model/Ckks.lean` that the driver executes.
-/

namespace Ckks

/-! ## `div_ceil` arithmetic -/

theorem le_divCeil_mul (x b : Nat) (hb : 0 < b) : x ≤ divCeil x b * b := by
  unfold divCeil
  have := Nat.lt_div_mul_add (a := x + (b - 1)) hb
  omega

theorem divCeil_mul_lt (x b : Nat) (hb : 0 < b) : divCeil x b * b < x + b := by
  unfold divCeil
  have := Nat.div_mul_le_self (x + (b - 1)) b
  omega

theorem divCeil_le_of_le_mul (x s b : Nat) (hb : 0 < b) (h : x ≤ s * b) : divCeil x b ≤ s := by
  unfold divCeil
  have : x + (b - 1) < (s + 1) * b := by rw [Nat.add_mul]; omega
  have := (Nat.div_lt_iff_lt_mul hb).2 this
  omega

theorem divCeil_mul_self (m b : Nat) (hb : 0 < b) : divCeil (m * b) b = m := by
  unfold divCeil
  have h1 : (m * b + (b - 1)) / b < m + 1 := by
    apply (Nat.div_lt_iff_lt_mul hb).2; rw [Nat.add_mul]; omega
  have h2 : m ≤ (m * b + (b - 1)) / b := by
    apply (Nat.le_div_iff_mul_le hb).2; omega
  omega

theorem divCeil_pos (x b : Nat) (hb : 0 < b) (hx : 0 < x) : 0 < divCeil x b := by
  have := le_divCeil_mul x b hb
  rcases Nat.eq_zero_or_pos (divCeil x b) with h | h
  · rw [h] at this; omega
  · exact h

theorem divCeil_mono (x y b : Nat) (hb : 0 < b) (h : x ≤ y) : divCeil x b ≤ divCeil y b := by
  apply divCeil_le_of_le_mul x _ b hb
  have := le_divCeil_mul y b hb
  omega

theorem cnvHi_le (b cnv s : Nat) (hb : 0 < b) (h : cnv ≤ s * b) : cnvHi b cnv ≤ s := by
  unfold cnvHi
  split
  · omega
  · have : cnv / b ≤ s :=
      (Nat.div_le_iff_le_mul_add_pred hb).2 (show cnv ≤ b * s + (b - 1) by rw [Nat.mul_comm]; omega)
    omega

/-! ## predicates -/

/-- the environment is well formed: positive radix -/
def WF (env : Env) : Prop := 0 < env.base2k

/-- the metadata fits the storage: `log_delta + log_budget ≤ max_k` -/
def Ct.inv (env : Env) (c : Ct) : Prop := c.md.effK ≤ c.size * env.base2k

/-- the limb count is the minimal one: `size = ⌈effective_k / base2k⌉` (what `ckks_compact_limbs` establishes
and what the tensor / mul-plain entry points of poulpy-core assert) -/
def Ct.compact (env : Env) (c : Ct) : Prop := divCeil c.md.effK env.base2k = c.size

def Inv (env : Env) (pool : Pool) : Prop := ∀ c ∈ pool, c.inv env

def Res.isOk {σ : Type} : Res σ → Bool
  | .ok _ => true
  | _ => false
def Res.isErr {σ : Type} : Res σ → Bool
  | .err _ _ => true
  | _ => false
def Res.isPanic {σ : Type} : Res σ → Bool
  | .panic _ => true
  | _ => false

deriving instance DecidableEq for Res

instance (env : Env) : Decidable (WF env) := by unfold WF; infer_instance
instance (env : Env) (c : Ct) : Decidable (c.inv env) := by unfold Ct.inv; infer_instance
instance (env : Env) (c : Ct) : Decidable (c.compact env) := by unfold Ct.compact; infer_instance

theorem compact_inv (env : Env) (c : Ct) (hw : WF env) (h : c.compact env) : c.inv env := by
  unfold Ct.compact at h
  unfold Ct.inv
  have := le_divCeil_mul c.md.effK env.base2k hw
  rw [h] at this
  exact this

/-! ## invariant: every `ok` result fits its storage -/

theorem shiftInto_ok_inv (env : Env) (dst a d' : Ct) (extra : Nat)
    (h : shiftInto env dst a extra = .ok d') : d'.inv env ∧ d'.size = dst.size := by
  simp only [shiftInto, offsetUnary, Ct.maxK] at h
  grind [Ct.inv, Meta.effK]

theorem addCtInto_ok_inv (env : Env) (dst a b d' : Ct)
    (h : addCtInto env dst a b = .ok d') : d'.inv env ∧ d'.size = dst.size := by
  simp only [addCtInto, offsetBinary, Ct.maxK] at h
  grind [Ct.inv, Meta.effK]

theorem addCtAssign_ok_inv (env : Env) (dst a d' : Ct) (hd : dst.inv env)
    (h : addCtAssign env dst a = .ok d') : d'.inv env ∧ d'.size = dst.size := by
  simp only [addCtAssign] at h
  grind [Ct.inv, Meta.effK]

theorem ptAlign_ok (env : Env) (dst d' : Ct) (pt : Pt) (h : ptAlign env dst pt = .ok d') : d' = dst := by
  simp only [ptAlign] at h
  grind

theorem cstAssign_ok (env : Env) (dst d' : Ct) (cst : Cst) (h : cstAssign env dst cst = .ok d') : d' = dst := by
  simp only [cstAssign] at h
  grind

theorem bind_ok {σ : Type} (r : Res σ) (f : σ → Res σ) (s' : σ) (h : r.bind f = .ok s') :
    ∃ s, r = .ok s ∧ f s = .ok s' := by
  cases r <;> simp [Res.bind] at h
  exact ⟨_, rfl, h⟩

theorem addPtZnxInto_ok_inv (env : Env) (dst a d' : Ct) (pt : Pt)
    (h : addPtZnxInto env dst a pt = .ok d') : d'.inv env ∧ d'.size = dst.size := by
  obtain ⟨s, h1, h2⟩ := bind_ok _ _ _ h
  have := ptAlign_ok _ _ _ _ h2
  subst this
  exact shiftInto_ok_inv _ _ _ _ _ h1

theorem addCstZnxInto_ok_inv (env : Env) (dst a d' : Ct) (cst : Cst)
    (h : addCstZnxInto env dst a cst = .ok d') : d'.inv env ∧ d'.size = dst.size := by
  obtain ⟨s, h1, h2⟩ := bind_ok _ _ _ h
  have := cstAssign_ok _ _ _ _ h2
  subst this
  exact shiftInto_ok_inv _ _ _ _ _ h1

theorem withPt_ok (env : Env) (pt : Pt) (dst d' : Ct) (f : Res Ct) (h : withPt env pt dst f = .ok d') : f = .ok d' := by
  simp only [withPt, ptBuild] at h
  grind

theorem addPtRnxInto_ok_inv (env : Env) (dst a d' : Ct) (prec : Meta)
    (h : addPtRnxInto env dst a prec = .ok d') : d'.inv env ∧ d'.size = dst.size := by
  simp only [addPtRnxInto, rnxToZnx] at h
  split at h
  · grind
  · exact addPtZnxInto_ok_inv _ _ _ _ _ h

theorem addPtRnxAssign_ok (env : Env) (dst d' : Ct) (prec : Meta)
    (h : addPtRnxAssign env dst prec = .ok d') : d' = dst := by
  simp only [addPtRnxAssign, rnxToZnx, addPtZnxAssign] at h
  split at h
  · grind
  · exact ptAlign_ok _ _ _ _ h

theorem addCstRnxInto_ok_inv (env : Env) (dst a d' : Ct) (prec : Meta) (re im : Bool)
    (h : addCstRnxInto env dst a prec re im = .ok d') : d'.inv env ∧ d'.size = dst.size := by
  simp only [addCstRnxInto, toZnxAtK] at h
  split at h
  · exact shiftInto_ok_inv _ _ _ _ _ h
  · split at h
    · split at h
      · grind
      · next cst _ => exact addCstZnxInto_ok_inv _ _ _ _ cst h
    · cases h

theorem addCstRnxAssign_ok (env : Env) (dst d' : Ct) (prec : Meta) (re im : Bool)
    (h : addCstRnxAssign env dst prec re im = .ok d') : d' = dst := by
  simp only [addCstRnxAssign, toZnxAtK] at h
  split at h
  · grind
  · split at h
    · grind
    · exact cstAssign_ok _ _ _ _ h

theorem addCstZnxIntoK_ok_inv (env : Env) (dst a d' : Ct) (k ld : Nat) (re im : Bool)
    (h : addCstZnxIntoK env dst a k ld re im = .ok d') : d'.inv env ∧ d'.size = dst.size := by
  simp only [addCstZnxIntoK, toZnxAtK] at h
  split at h
  · grind
  · next cst _ => exact addCstZnxInto_ok_inv _ _ _ _ cst h

theorem addCstZnxAssignK_ok (env : Env) (dst d' : Ct) (k ld : Nat) (re im : Bool)
    (h : addCstZnxAssignK env dst k ld re im = .ok d') : d' = dst := by
  simp only [addCstZnxAssignK, toZnxAtK] at h
  split at h
  · grind
  · exact cstAssign_ok _ _ _ _ h

theorem negInto_ok_inv (env : Env) (dst a d' : Ct)
    (h : negInto env dst a = .ok d') : d'.inv env ∧ d'.size = dst.size := by
  simp only [negInto] at h
  split at h
  · exact shiftInto_ok_inv _ _ _ _ _ h
  · next hz =>
    simp only [offsetUnary, Ct.maxK] at hz
    grind [Ct.inv, Meta.effK]

theorem divPow2Into_ok_inv (env : Env) (dst a d' : Ct) (bits : Nat)
    (h : divPow2Into env dst a bits = .ok d') : d'.inv env ∧ d'.size = dst.size := by
  simp only [divPow2Into, shiftInto, offsetUnary, Ct.maxK, Res.bind] at h
  grind [Ct.inv, Meta.effK]

theorem divPow2Assign_ok_inv (env : Env) (dst d' : Ct) (bits : Nat) (hd : dst.inv env)
    (h : divPow2Assign env dst bits = .ok d') : d'.inv env ∧ d'.size = dst.size := by
  simp only [divPow2Assign] at h
  grind [Ct.inv, Meta.effK]

theorem rotateInto_ok_inv (env : Env) (dst a d' : Ct) (k : Int)
    (h : rotateInto env dst a k = .ok d') : d'.inv env ∧ d'.size = dst.size := by
  simp only [rotateInto] at h
  split at h
  · exact shiftInto_ok_inv _ _ _ _ _ h
  · cases h

theorem rotateAssign_ok (env : Env) (dst d' : Ct) (k : Int) (h : rotateAssign env dst k = .ok d') : d' = dst := by
  simp only [rotateAssign] at h
  grind

theorem rescaleAssign_ok_inv (env : Env) (ct d' : Ct) (k : Nat) (hd : ct.inv env)
    (h : rescaleAssign env ct k = .ok d') : d'.inv env ∧ d'.size = ct.size := by
  simp only [rescaleAssign] at h
  grind [Ct.inv, Meta.effK]

/-- `ckks_rescale_into` (repaired: pays the destination offset) keeps the invariant -/
theorem rescaleInto_ok_inv (env : Env) (dst src d' : Ct) (k : Nat)
    (h : rescaleInto env dst k src = .ok d') : d'.inv env ∧ d'.size = dst.size := by
  simp only [rescaleInto, Ct.maxK] at h
  grind [Ct.inv, Meta.effK]

theorem mulInto_ok_inv (env : Env) (dst a b d' : Ct)
    (h : mulInto env dst a b = .ok d') : d'.inv env ∧ d'.size = dst.size := by
  simp only [mulInto, mulCtParams, finishMul, Ct.maxK] at h
  grind [Ct.inv, Meta.effK]

theorem squareInto_ok_inv (env : Env) (dst a d' : Ct)
    (h : squareInto env dst a = .ok d') : d'.inv env ∧ d'.size = dst.size := by
  simp only [squareInto, mulCtParams, finishMul, Ct.maxK] at h
  grind [Ct.inv, Meta.effK]

theorem mulPtZnxInto_ok_inv (env : Env) (dst a d' : Ct) (pt : Pt)
    (h : mulPtZnxInto env dst a pt = .ok d') : d'.inv env ∧ d'.size = dst.size := by
  simp only [mulPtZnxInto, mulPtParams, finishMul, Ct.maxK] at h
  grind [Ct.inv, Meta.effK]

theorem mulPtRnxInto_ok_inv (env : Env) (dst a d' : Ct) (prec : Meta)
    (h : mulPtRnxInto env dst a prec = .ok d') : d'.inv env ∧ d'.size = dst.size := by
  simp only [mulPtRnxInto, rnxToZnx] at h
  split at h
  · grind
  · exact mulPtZnxInto_ok_inv _ _ _ _ _ h

theorem mulPtParams_ok (env : Env) (res a : Ct) (p : Meta) (base : Nat) (q : MulP)
    (h : mulPtParams env res a p base = .ok q) : q.delta + q.budget ≤ res.size * env.base2k := by
  simp only [mulPtParams, Ct.maxK] at h
  grind

theorem mulCtParams_ok (env : Env) (res a b : Ct) (q : MulP)
    (h : mulCtParams env res a b = .ok q) : q.delta + q.budget ≤ res.size * env.base2k := by
  simp only [mulCtParams, Ct.maxK] at h
  grind

theorem finishMul_ok (dst d' : Ct) (p : MulP) (chk : Option Panic) (h : finishMul dst p chk = .ok d') :
    d' = { dst with md := ⟨p.delta, p.budget⟩ } ∧ chk = none := by
  cases chk <;> simp [finishMul] at h
  exact ⟨h.symm, rfl⟩

theorem mulCstRnx_ok_inv (env : Env) (dst a d' : Ct) (prec : Meta) (re im assign : Bool)
    (h : mulCstRnx env dst a prec re im assign = .ok d') : d'.inv env ∧ d'.size = dst.size := by
  simp only [mulCstRnx] at h
  split at h
  · split at h
    · cases h
    · next q hq =>
      have := mulPtParams_ok _ _ _ _ _ _ hq
      injection h with h; subst h
      exact ⟨by simp only [Ct.inv, Meta.effK]; omega, rfl⟩
  · split at h
    · next r hr =>
      simp only [toZnxAtK] at hr
      grind
    · next cst hc =>
      split at h
      · cases h
      · next q hq =>
        have := mulPtParams_ok _ _ _ _ _ _ hq
        obtain ⟨h1, _⟩ := finishMul_ok _ _ _ _ h
        subst h1
        exact ⟨by simp only [Ct.inv, Meta.effK]; omega, rfl⟩

theorem mulAddWith_ok_inv (env : Env) (dst d' : Ct) (prod : Ct → Res Ct) (hd : dst.inv env)
    (h : mulAddWith env dst prod = .ok d') : d'.inv env ∧ d'.size = dst.size := by
  simp only [mulAddWith] at h
  split at h
  · exact addCtAssign_ok_inv _ _ _ _ hd h
  · cases h
  · cases h

theorem setMeta_ok_inv (env : Env) (ct d' : Ct) (m : Meta)
    (h : setMeta env ct m = .ok d') : d'.inv env ∧ d'.size = ct.size := by
  simp only [setMeta, Ct.maxK] at h
  grind [Ct.inv, Meta.effK]

theorem realloc_ok_inv (env : Env) (hw : WF env) (ct d' : Ct) (size : Nat)
    (h : realloc env ct size = .ok d') : d'.inv env ∧ d'.size = size ∧ d'.md = ct.md := by
  simp only [realloc] at h
  split at h
  · next hs =>
    injection h with h; subst h
    refine ⟨?_, rfl, rfl⟩
    have h1 := le_divCeil_mul ct.md.effK env.base2k hw
    have h2 : divCeil ct.md.effK env.base2k * env.base2k ≤ size * env.base2k := Nat.mul_le_mul_right _ hs
    simp only [Ct.inv]
    omega
  · cases h

theorem compactCopy_ok_inv (env : Env) (hw : WF env) (dst a d' : Ct)
    (h : compactCopy env dst a = .ok d') : d'.inv env ∧ d'.compact env ∧ d'.md = a.md := by
  simp only [compactCopy] at h
  split at h
  · cases h
  · injection h with h; subst h
    exact ⟨le_divCeil_mul _ _ hw, rfl, rfl⟩

theorem encrypt_ok_inv (env : Env) (ct d' : Ct) (k : Nat) (pt : Pt)
    (h : encrypt env ct k pt = .ok d') : d'.inv env ∧ d'.size = ct.size := by
  simp only [encrypt] at h
  split at h
  · cases h
  · split at h
    · obtain ⟨c, h1, h2⟩ := bind_ok _ _ _ h
      have := ptAlign_ok _ _ _ _ h2
      subst this
      exact setMeta_ok_inv _ _ _ _ h1
    · cases h

theorem decrypt_ok (env : Env) (ct d' : Ct) (pt : Pt) (h : decrypt env ct pt = .ok d') : d' = ct := by
  simp only [decrypt] at h
  grind

/-! ## pool plumbing -/

theorem mem_of_get? (pool : Pool) (i : Nat) (c : Ct) (h : pool[i]? = some c) : c ∈ pool :=
  List.mem_of_getElem? h

theorem Inv_set (env : Env) (pool : Pool) (d : Nat) (c : Ct) (h : Inv env pool) (hc : c.inv env) :
    Inv env (pool.set d c) := by
  intro x hx
  rcases List.mem_or_eq_of_mem_set hx with hx | hx
  · exact h x hx
  · exact hx ▸ hc

theorem putRes_ok (pool pool' : Pool) (d : Nat) (r : Res Ct) (h : putRes pool d r = .ok pool') :
    ∃ c, r = .ok c ∧ pool' = pool.set d c := by
  cases r <;> simp [putRes] at h
  exact ⟨_, rfl, h.symm⟩

theorem op1_ok (pool pool' : Pool) (d : Nat) (f : Ct → Res Ct) (h : op1 pool d f = .ok pool') :
    ∃ cd c, pool[d]? = some cd ∧ f cd = .ok c ∧ pool' = pool.set d c := by
  simp only [op1] at h
  split at h
  · next cd hcd =>
    obtain ⟨c, h1, h2⟩ := putRes_ok _ _ _ _ h
    exact ⟨cd, c, hcd, h1, h2⟩
  · cases h

theorem op2_ok (pool pool' : Pool) (d a : Nat) (f : Ct → Ct → Res Ct) (h : op2 pool d a f = .ok pool') :
    ∃ cd ca c, pool[d]? = some cd ∧ pool[a]? = some ca ∧ f cd ca = .ok c ∧ pool' = pool.set d c := by
  simp only [op2] at h
  split at h
  · next cd ca hcd hca =>
    split at h
    · cases h
    · obtain ⟨c, h1, h2⟩ := putRes_ok _ _ _ _ h
      exact ⟨cd, ca, c, hcd, hca, h1, h2⟩
  · cases h

theorem op3_ok (pool pool' : Pool) (d a b : Nat) (f : Ct → Ct → Ct → Res Ct) (h : op3 pool d a b f = .ok pool') :
    ∃ cd ca cb c, pool[d]? = some cd ∧ pool[a]? = some ca ∧ pool[b]? = some cb ∧ f cd ca cb = .ok c ∧ pool' = pool.set d c := by
  simp only [op3] at h
  split at h
  · next cd ca cb hcd hca hcb =>
    split at h
    · cases h
    · obtain ⟨c, h1, h2⟩ := putRes_ok _ _ _ _ h
      exact ⟨cd, ca, cb, c, hcd, hca, hcb, h1, h2⟩
  · cases h

/-! ## panics: which calls cannot panic, and under which hypotheses -/

theorem addShifts_isSome (a b : Meta) (off : Nat) : (addShifts a b off).isSome = true := by
  simp only [addShifts, usub]
  grind

theorem assignShift_isSome (x y : Nat) : (assignShift x y).isSome = true := by
  simp only [assignShift, usub]
  grind

theorem addCtInto_no_panic (env : Env) (dst a b : Ct) : (addCtInto env dst a b).isPanic = false := by
  have := addShifts_isSome a.md b.md (offsetBinary env dst a b)
  simp only [addCtInto]
  grind [Res.isPanic]

theorem addCtAssign_no_panic (env : Env) (dst a : Ct) : (addCtAssign env dst a).isPanic = false := by
  have := assignShift_isSome dst.md.logBudget a.md.logBudget
  simp only [addCtAssign]
  grind [Res.isPanic]

theorem shiftInto_no_panic (env : Env) (dst a : Ct) (extra : Nat) : (shiftInto env dst a extra).isPanic = false := by
  simp only [shiftInto]
  grind [Res.isPanic]

theorem ptAlign_no_panic (env : Env) (dst : Ct) (pt : Pt) : (ptAlign env dst pt).isPanic = false := by
  simp only [ptAlign, usub]
  grind [Res.isPanic]

theorem bind_no_panic {σ : Type} (r : Res σ) (f : σ → Res σ) (hr : r.isPanic = false)
    (hf : ∀ s, r = .ok s → (f s).isPanic = false) : (r.bind f).isPanic = false := by
  cases r <;> simp_all [Res.bind, Res.isPanic]

theorem addPtZnxInto_no_panic (env : Env) (dst a : Ct) (pt : Pt) : (addPtZnxInto env dst a pt).isPanic = false :=
  bind_no_panic _ _ (shiftInto_no_panic _ _ _ _) (fun _ _ => ptAlign_no_panic _ _ _)

theorem withPt_no_panic (env : Env) (pt : Pt) (dst : Ct) (f : Res Ct)
    (hf : f.isPanic = false) : (withPt env pt dst f).isPanic = false := by
  simp only [withPt, ptBuild]
  grind [Res.isPanic]

theorem minK_eq_zero_iff (m : Meta) (b : Nat) (hb : 0 < b) : m.minK b = 0 ↔ m.effK = 0 := by
  unfold Meta.minK
  constructor
  · intro h
    have := le_divCeil_mul m.effK b hb
    omega
  · intro h
    rw [h]
    have : divCeil 0 b = 0 := by
      have := divCeil_mul_self 0 b hb
      simpa using this
    rw [this]; omega

theorem addPtRnxInto_no_panic (env : Env) (dst a : Ct) (prec : Meta) :
    (addPtRnxInto env dst a prec).isPanic = false := by
  have := addPtZnxInto_no_panic env dst a ⟨prec, env.base2k⟩
  simp only [addPtRnxInto, rnxToZnx]
  grind [Res.isPanic]

theorem addPtRnxAssign_no_panic (env : Env) (dst : Ct) (prec : Meta) :
    (addPtRnxAssign env dst prec).isPanic = false := by
  have := ptAlign_no_panic env dst ⟨prec, env.base2k⟩
  simp only [addPtRnxAssign, rnxToZnx, addPtZnxAssign]
  grind [Res.isPanic]

theorem cstAssign_no_panic (env : Env) (dst : Ct) (cst : Cst) : (cstAssign env dst cst).isPanic = false := by
  simp only [cstAssign]
  grind [Res.isPanic]

theorem toZnxAtK_cases (env : Env) (k ld : Nat) (re im : Bool) (dst : Ct) :
    (toZnxAtK env k ld re im dst = .inr (.err .other dst)) ∨
    (ld ≤ env.maxLogDeltaPrec ∧ ¬ ((re || im) = true ∧ k = 0) ∧
      toZnxAtK env k ld re im dst = .inl ⟨⟨ld, k - ld⟩, divCeil k env.base2k, re, im⟩) := by
  simp only [toZnxAtK]
  grind

theorem addCstZnxInto_no_panic (env : Env) (dst a : Ct) (cst : Cst) : (addCstZnxInto env dst a cst).isPanic = false :=
  bind_no_panic _ _ (shiftInto_no_panic _ _ _ _) (fun _ _ => cstAssign_no_panic _ _ _)

theorem addCstRnxAssign_no_panic (env : Env) (dst : Ct) (prec : Meta) (re im : Bool) :
    (addCstRnxAssign env dst prec re im).isPanic = false := by
  simp only [addCstRnxAssign]
  split
  · rfl
  · rcases toZnxAtK_cases env (dst.md.logBudget + prec.logDelta) prec.logDelta re im dst with h | ⟨_, _, h⟩
    · rw [h]; rfl
    · rw [h]; exact cstAssign_no_panic _ _ _

theorem addCstRnxInto_no_panic (env : Env) (dst a : Ct) (prec : Meta) (re im : Bool) :
    (addCstRnxInto env dst a prec re im).isPanic = false := by
  simp only [addCstRnxInto]
  split
  · exact shiftInto_no_panic _ _ _ _
  · split
    · rcases toZnxAtK_cases env (a.md.logBudget - offsetUnary env dst a + prec.logDelta) prec.logDelta re im dst with
        h | ⟨_, _, h⟩
      · rw [h]; rfl
      · rw [h]; exact addCstZnxInto_no_panic _ _ _ _
    · rfl

theorem addCstZnxAssignK_no_panic (env : Env) (dst : Ct) (k ld : Nat) (re im : Bool) :
    (addCstZnxAssignK env dst k ld re im).isPanic = false := by
  simp only [addCstZnxAssignK]
  rcases toZnxAtK_cases env k ld re im dst with h | ⟨_, _, h⟩
  · rw [h]; rfl
  · rw [h]; exact cstAssign_no_panic _ _ _

theorem addCstZnxIntoK_no_panic (env : Env) (dst a : Ct) (k ld : Nat) (re im : Bool) :
    (addCstZnxIntoK env dst a k ld re im).isPanic = false := by
  simp only [addCstZnxIntoK]
  rcases toZnxAtK_cases env k ld re im dst with h | ⟨_, _, h⟩
  · rw [h]; rfl
  · rw [h]; exact addCstZnxInto_no_panic _ _ _ _

theorem negInto_no_panic (env : Env) (dst a : Ct) : (negInto env dst a).isPanic = false := by
  simp only [negInto, shiftInto]
  grind [Res.isPanic]

theorem divPow2Into_no_panic (env : Env) (dst a : Ct) (bits : Nat) : (divPow2Into env dst a bits).isPanic = false := by
  simp only [divPow2Into, shiftInto, Res.bind]
  grind [Res.isPanic]

theorem divPow2Assign_no_panic (env : Env) (dst : Ct) (bits : Nat) : (divPow2Assign env dst bits).isPanic = false := by
  simp only [divPow2Assign]
  grind [Res.isPanic]

theorem rotateInto_no_panic (env : Env) (dst a : Ct) (k : Int) : (rotateInto env dst a k).isPanic = false := by
  simp only [rotateInto, shiftInto]
  grind [Res.isPanic]

theorem rotateAssign_no_panic (env : Env) (dst : Ct) (k : Int) : (rotateAssign env dst k).isPanic = false := by
  simp only [rotateAssign]
  grind [Res.isPanic]

theorem rescaleAssign_no_panic (env : Env) (ct : Ct) (k : Nat) : (rescaleAssign env ct k).isPanic = false := by
  simp only [rescaleAssign]
  grind [Res.isPanic]

theorem rescaleInto_no_panic (env : Env) (dst src : Ct) (k : Nat) : (rescaleInto env dst k src).isPanic = false := by
  simp only [rescaleInto]
  grind [Res.isPanic]

theorem mulCtParams_cnv (env : Env) (res a b : Ct) (q : MulP) (h : mulCtParams env res a b = .ok q) :
    q.cnv ≤ a.md.effK + b.md.effK := by
  simp only [mulCtParams, Ct.maxK, Meta.effK] at h
  grind [Meta.effK]

theorem mulPtParams_cnv (env : Env) (res a : Ct) (p : Meta) (base : Nat) (q : MulP)
    (h : mulPtParams env res a p base = .ok q) : q.cnv ≤ base + a.md.logBudget := by
  simp only [mulPtParams, Ct.maxK] at h
  grind

theorem effLimbs_pos (env : Env) (hw : WF env) (c : Ct) (h : 0 < c.md.effK) : 0 < effLimbs env c :=
  divCeil_pos _ _ hw h

theorem effLimbs_le (env : Env) (hw : WF env) (c : Ct) (h : c.inv env) : effLimbs env c ≤ c.size :=
  divCeil_le_of_le_mul _ _ _ hw h

theorem effLimbs_eq_zero_iff (env : Env) (hw : WF env) (c : Ct) : effLimbs env c = 0 ↔ c.md.effK = 0 := by
  constructor
  · intro h
    have := le_divCeil_mul c.md.effK env.base2k hw
    simp only [effLimbs] at h; rw [h] at this; omega
  · intro h; simp only [effLimbs, h]
    have := divCeil_mul_self 0 env.base2k hw; simpa using this

/-- `ckks_mul_into` cannot panic on initialised operands that fit their storage — compactness is no
longer needed (the core entry points narrow the operands to their effective limbs) -/
theorem mulInto_no_panic (env : Env) (hw : WF env) (dst a b : Ct) (ia : a.inv env) (ib : b.inv env)
    (pa : 0 < a.md.effK) (pb : 0 < b.md.effK) : (mulInto env dst a b).isPanic = false := by
  simp only [mulInto]
  split
  · simp [Res.isPanic]
  · next q hq =>
    have hc := mulCtParams_cnv _ _ _ _ _ hq
    have la := le_divCeil_mul a.md.effK env.base2k hw
    have lb := le_divCeil_mul b.md.effK env.base2k hw
    have hhi : cnvHi env.base2k q.cnv ≤ effLimbs env a + effLimbs env b := by
      apply cnvHi_le _ _ _ hw
      simp only [effLimbs]
      rw [Nat.add_mul]; omega
    have h1 := effLimbs_le env hw a ia
    have h2 := effLimbs_le env hw b ib
    have h3 := effLimbs_pos env hw a pa
    have h4 := effLimbs_pos env hw b pb
    simp only [finishMul, tensorCheck]
    grind [Res.isPanic]

/-- after the repair, the only way a ct×ct multiplication on operands that fit their storage can
still panic is an operand that was never given a value (`effective_k = 0`) -/
theorem mulInto_panic_iff (env : Env) (hw : WF env) (dst a b : Ct) (ia : a.inv env) (ib : b.inv env) :
    (mulInto env dst a b).isPanic = true ↔
      ((∃ q, mulCtParams env dst a b = .ok q) ∧ (a.md.effK = 0 ∨ b.md.effK = 0)) := by
  have ea := effLimbs_eq_zero_iff env hw a
  have eb := effLimbs_eq_zero_iff env hw b
  simp only [mulInto]
  split
  · next e he =>
    simp only [Res.isPanic]
    constructor
    · intro h; cases h
    · rintro ⟨⟨q, hq⟩, _⟩
      rw [he] at hq; cases hq
  · next q hq =>
    have hex : ∃ q, Except.ok q = (Except.ok q : Except Err MulP) := ⟨q, rfl⟩
    have hc := mulCtParams_cnv _ _ _ _ _ hq
    have la := le_divCeil_mul a.md.effK env.base2k hw
    have lb := le_divCeil_mul b.md.effK env.base2k hw
    have hhi : cnvHi env.base2k q.cnv ≤ effLimbs env a + effLimbs env b := by
      apply cnvHi_le _ _ _ hw
      simp only [effLimbs]
      rw [Nat.add_mul]; omega
    have h1 := effLimbs_le env hw a ia
    have h2 := effLimbs_le env hw b ib
    simp only [finishMul, tensorCheck]
    grind [Res.isPanic]

theorem squareInto_no_panic (env : Env) (hw : WF env) (dst a : Ct) (ia : a.inv env) (pa : 0 < a.md.effK) :
    (squareInto env dst a).isPanic = false := by
  simp only [squareInto]
  split
  · simp [Res.isPanic]
  · next q hq =>
    have hc := mulCtParams_cnv _ _ _ _ _ hq
    have la := le_divCeil_mul a.md.effK env.base2k hw
    have hhi : cnvHi env.base2k q.cnv ≤ 2 * effLimbs env a := by
      apply cnvHi_le _ _ _ hw
      simp only [effLimbs]
      rw [Nat.mul_assoc]; omega
    have h1 := effLimbs_le env hw a ia
    have h3 := effLimbs_pos env hw a pa
    simp only [finishMul, squareCheck]
    grind [Res.isPanic]

theorem mulPtZnxInto_no_panic (env : Env) (hw : WF env) (dst a : Ct) (pt : Pt)
    (ia : a.inv env) (pa : 0 < a.md.effK) : (mulPtZnxInto env dst a pt).isPanic = false := by
  simp only [mulPtZnxInto]
  split
  · rfl
  · next hne =>
    have hq : pt.base2k = env.base2k := by omega
    split
    · simp [Res.isPanic]
    · next q hq' =>
      have hc := mulPtParams_cnv _ _ _ _ _ _ hq'
      have la := le_divCeil_mul a.md.effK env.base2k hw
      have hk : pt.maxK = pt.size * env.base2k := by simp [Pt.maxK, hq]
      have h3 : divCeil pt.maxK env.base2k = pt.size := by rw [hk]; exact divCeil_mul_self _ _ hw
      have hhi : cnvHi env.base2k q.cnv ≤ effLimbs env a + divCeil pt.maxK env.base2k := by
        apply cnvHi_le _ _ _ hw
        simp only [effLimbs, Meta.effK] at *
        rw [h3, Nat.add_mul]; omega
      have h1 := effLimbs_le env hw a ia
      have h4 := effLimbs_pos env hw a pa
      simp only [finishMul, plainCheck]
      grind [Res.isPanic]

theorem mulPtRnxInto_no_panic (env : Env) (hw : WF env) (dst a : Ct) (prec : Meta)
    (ia : a.inv env) (pa : 0 < a.md.effK) : (mulPtRnxInto env dst a prec).isPanic = false := by
  have := mulPtZnxInto_no_panic env hw dst a ⟨prec, env.base2k⟩ ia pa
  simp only [mulPtRnxInto, rnxToZnx]
  grind [Res.isPanic]

theorem minK_ge (m : Meta) (b : Nat) (hb : 0 < b) : m.effK ≤ m.minK b := le_divCeil_mul _ _ hb

theorem minK_minK (m : Meta) (b : Nat) (hb : 0 < b) (ld : Nat) (hld : ld ≤ m.minK b) :
    (⟨ld, m.minK b - ld⟩ : Meta).minK b = m.minK b := by
  have he : (⟨ld, m.minK b - ld⟩ : Meta).effK = m.minK b := by simp only [Meta.effK]; omega
  unfold Meta.minK at *
  rw [he]
  rw [divCeil_mul_self _ _ hb]

/-- `ckks_mul_pt_const_rnx_*` cannot panic on ciphertexts that fit their storage -/
theorem mulCstRnx_no_panic (env : Env) (hw : WF env) (dst a : Ct) (prec : Meta) (re im assign : Bool)
    (ia : a.inv env) : (mulCstRnx env dst a prec re im assign).isPanic = false := by
  have hge := minK_ge prec env.base2k hw
  simp only [mulCstRnx]
  split
  · split <;> simp [Res.isPanic]
  · rcases toZnxAtK_cases env (prec.minK env.base2k) prec.logDelta re im dst with h | ⟨_, _, h⟩
    · rw [h]; rfl
    · rw [h]
      simp only
      split
      · simp [Res.isPanic]
      · next q hq =>
        have hld : prec.logDelta ≤ prec.minK env.base2k := by simp only [Meta.effK] at hge; omega
        have hmm := minK_minK prec env.base2k hw prec.logDelta hld
        rw [hmm] at hq
        have hc := mulPtParams_cnv _ _ _ _ _ _ hq
        have hl : divCeil (prec.minK env.base2k) env.base2k * env.base2k = prec.minK env.base2k := by
          unfold Meta.minK; rw [divCeil_mul_self _ _ hw]
        simp only [Ct.inv, Meta.effK] at ia
        have hhi : cnvHi env.base2k q.cnv ≤ a.size + divCeil (prec.minK env.base2k) env.base2k := by
          apply cnvHi_le _ _ _ hw
          rw [Nat.add_mul]; omega
        simp only [finishMul, constCheck]
        grind [Res.isPanic]

theorem mulAddWith_no_panic (env : Env) (dst : Ct) (prod : Ct → Res Ct) (hp : (prod (mulTmp dst)).isPanic = false) :
    (mulAddWith env dst prod).isPanic = false := by
  simp only [mulAddWith]
  split
  · exact addCtAssign_no_panic _ _ _
  · simp [Res.isPanic]
  · next p hpp => rw [hpp] at hp; simp [Res.isPanic] at hp

theorem setMeta_no_panic (env : Env) (ct : Ct) (m : Meta) : (setMeta env ct m).isPanic = false := by
  simp only [setMeta]; grind [Res.isPanic]

theorem realloc_no_panic (env : Env) (ct : Ct) (size : Nat) : (realloc env ct size).isPanic = false := by
  simp only [realloc]; grind [Res.isPanic]

theorem compactCopy_no_panic (env : Env) (hw : WF env) (dst a : Ct) (ia : a.inv env) :
    (compactCopy env dst a).isPanic = false := by
  have := divCeil_le_of_le_mul _ _ _ hw ia
  simp only [compactCopy]
  grind [Res.isPanic]

theorem encrypt_no_panic (env : Env) (ct : Ct) (k : Nat) (pt : Pt) : (encrypt env ct k pt).isPanic = false := by
  simp only [encrypt]
  split
  · rfl
  · split
    · exact bind_no_panic _ _ (setMeta_no_panic _ _ _) (fun _ _ => ptAlign_no_panic _ _ _)
    · rfl

theorem decrypt_no_panic (env : Env) (ct : Ct) (pt : Pt) : (decrypt env ct pt).isPanic = false := by
  simp only [decrypt, usub]
  grind [Res.isPanic]

/-! ## the state an `Err` leaves behind (docs/fixes/08: the budget is checked before `dst` is touched) -/

theorem bind_err {σ : Type} (r : Res σ) (f : σ → Res σ) (e : Err) (s' : σ) (h : r.bind f = .err e s') :
    r = .err e s' ∨ ∃ s, r = .ok s ∧ f s = .err e s' := by
  cases r <;> simp [Res.bind] at h
  · exact Or.inr ⟨_, rfl, h⟩
  · exact Or.inl (by rw [h.1, h.2])

theorem shiftInto_err (env : Env) (dst a s : Ct) (extra : Nat) (e : Err)
    (h : shiftInto env dst a extra = .err e s) : s = dst := by
  simp only [shiftInto] at h; grind

theorem ptAlign_err (env : Env) (dst s : Ct) (pt : Pt) (e : Err) (h : ptAlign env dst pt = .err e s) : s = dst := by
  simp only [ptAlign] at h; grind

theorem cstAssign_err (env : Env) (dst s : Ct) (cst : Cst) (e : Err) (h : cstAssign env dst cst = .err e s) : s = dst := by
  simp only [cstAssign] at h; grind

theorem addCtInto_err (env : Env) (dst a b s : Ct) (e : Err) (h : addCtInto env dst a b = .err e s) : s = dst := by
  simp only [addCtInto] at h; grind

theorem addCtAssign_not_err (env : Env) (dst a s : Ct) (e : Err) : addCtAssign env dst a ≠ .err e s := by
  have := assignShift_isSome dst.md.logBudget a.md.logBudget
  simp only [addCtAssign]; grind

theorem withPt_err (env : Env) (pt : Pt) (dst s : Ct) (f : Res Ct) (e : Err) (h : withPt env pt dst f = .err e s) :
    s = dst ∨ f = .err e s := by
  simp only [withPt, ptBuild] at h; grind

theorem addPtZnxInto_err_inv (env : Env) (dst a s : Ct) (pt : Pt) (e : Err) (hd : dst.inv env)
    (h : addPtZnxInto env dst a pt = .err e s) : s.inv env := by
  rcases bind_err _ _ _ _ h with h1 | ⟨d, h1, h2⟩
  · exact shiftInto_err _ _ _ _ _ _ h1 ▸ hd
  · exact ptAlign_err _ _ _ _ _ h2 ▸ (shiftInto_ok_inv _ _ _ _ _ h1).1

theorem addCstZnxInto_err_inv (env : Env) (dst a s : Ct) (cst : Cst) (e : Err) (hd : dst.inv env)
    (h : addCstZnxInto env dst a cst = .err e s) : s.inv env := by
  rcases bind_err _ _ _ _ h with h1 | ⟨d, h1, h2⟩
  · exact shiftInto_err _ _ _ _ _ _ h1 ▸ hd
  · exact cstAssign_err _ _ _ _ _ h2 ▸ (shiftInto_ok_inv _ _ _ _ _ h1).1

theorem addPtRnxInto_err_inv (env : Env) (dst a s : Ct) (prec : Meta) (e : Err) (hd : dst.inv env)
    (h : addPtRnxInto env dst a prec = .err e s) : s.inv env := by
  simp only [addPtRnxInto, rnxToZnx] at h
  split at h
  · have : s = dst := by grind
    exact this ▸ hd
  · exact addPtZnxInto_err_inv _ _ _ _ _ _ hd h

theorem addPtRnxAssign_err (env : Env) (dst s : Ct) (prec : Meta) (e : Err)
    (h : addPtRnxAssign env dst prec = .err e s) : s = dst := by
  simp only [addPtRnxAssign, rnxToZnx, addPtZnxAssign, ptAlign] at h; grind

theorem addCstRnxAssign_err (env : Env) (dst s : Ct) (prec : Meta) (re im : Bool) (e : Err)
    (h : addCstRnxAssign env dst prec re im = .err e s) : s = dst := by
  simp only [addCstRnxAssign] at h
  split at h
  · cases h
  · rcases toZnxAtK_cases env (dst.md.logBudget + prec.logDelta) prec.logDelta re im dst with h1 | ⟨_, _, h1⟩
    · rw [h1] at h; injection h with _ h; exact h.symm
    · rw [h1] at h; exact cstAssign_err _ _ _ _ _ h

theorem addCstZnxAssignK_err (env : Env) (dst s : Ct) (k ld : Nat) (re im : Bool) (e : Err)
    (h : addCstZnxAssignK env dst k ld re im = .err e s) : s = dst := by
  simp only [addCstZnxAssignK] at h
  rcases toZnxAtK_cases env k ld re im dst with h1 | ⟨_, _, h1⟩
  · rw [h1] at h; injection h with _ h; exact h.symm
  · rw [h1] at h; exact cstAssign_err _ _ _ _ _ h

theorem addCstZnxIntoK_err_inv (env : Env) (dst a s : Ct) (k ld : Nat) (re im : Bool) (e : Err) (hd : dst.inv env)
    (h : addCstZnxIntoK env dst a k ld re im = .err e s) : s.inv env := by
  simp only [addCstZnxIntoK] at h
  rcases toZnxAtK_cases env k ld re im dst with h1 | ⟨_, _, h1⟩
  · rw [h1] at h; injection h with _ h; exact h ▸ hd
  · rw [h1] at h; exact addCstZnxInto_err_inv _ _ _ _ _ _ hd h

theorem addCstRnxInto_err_inv (env : Env) (dst a s : Ct) (prec : Meta) (re im : Bool) (e : Err) (hd : dst.inv env)
    (h : addCstRnxInto env dst a prec re im = .err e s) : s.inv env := by
  simp only [addCstRnxInto] at h
  split at h
  · exact shiftInto_err _ _ _ _ _ _ h ▸ hd
  · split at h
    · rcases toZnxAtK_cases env (a.md.logBudget - offsetUnary env dst a + prec.logDelta) prec.logDelta re im dst with
        h1 | ⟨_, _, h1⟩
      · rw [h1] at h; injection h with _ h; exact h ▸ hd
      · rw [h1] at h; exact addCstZnxInto_err_inv _ _ _ _ _ _ hd h
    · injection h with _ h; exact h ▸ hd

theorem negInto_err (env : Env) (dst a s : Ct) (e : Err) (h : negInto env dst a = .err e s) : s = dst := by
  simp only [negInto, shiftInto] at h; grind

theorem divPow2Into_err (env : Env) (dst a s : Ct) (bits : Nat) (e : Err)
    (h : divPow2Into env dst a bits = .err e s) : s = dst := by
  simp only [divPow2Into, shiftInto, Res.bind] at h; grind

theorem divPow2Assign_err (env : Env) (dst s : Ct) (bits : Nat) (e : Err)
    (h : divPow2Assign env dst bits = .err e s) : s = dst := by
  simp only [divPow2Assign] at h; grind

theorem rotateInto_err (env : Env) (dst a s : Ct) (k : Int) (e : Err) (h : rotateInto env dst a k = .err e s) : s = dst := by
  simp only [rotateInto, shiftInto] at h; grind

theorem rotateAssign_err (env : Env) (dst s : Ct) (k : Int) (e : Err) (h : rotateAssign env dst k = .err e s) : s = dst := by
  simp only [rotateAssign] at h; grind

theorem rescaleAssign_err (env : Env) (ct s : Ct) (k : Nat) (e : Err) (h : rescaleAssign env ct k = .err e s) : s = ct := by
  simp only [rescaleAssign] at h; grind

theorem rescaleInto_err (env : Env) (dst src s : Ct) (k : Nat) (e : Err)
    (h : rescaleInto env dst k src = .err e s) : s = dst := by
  simp only [rescaleInto] at h; grind

theorem finishMul_not_err (dst s : Ct) (p : MulP) (chk : Option Panic) (e : Err) : finishMul dst p chk ≠ .err e s := by
  cases chk <;> simp [finishMul]

theorem mulInto_err (env : Env) (dst a b s : Ct) (e : Err) (h : mulInto env dst a b = .err e s) : s = dst := by
  simp only [mulInto] at h
  split at h
  · injection h with _ h; exact h.symm
  · exact absurd h (finishMul_not_err _ _ _ _ _)

theorem squareInto_err (env : Env) (dst a s : Ct) (e : Err) (h : squareInto env dst a = .err e s) : s = dst := by
  simp only [squareInto] at h
  split at h
  · injection h with _ h; exact h.symm
  · exact absurd h (finishMul_not_err _ _ _ _ _)

theorem mulPtZnxInto_err (env : Env) (dst a s : Ct) (pt : Pt) (e : Err)
    (h : mulPtZnxInto env dst a pt = .err e s) : s = dst := by
  simp only [mulPtZnxInto] at h
  split at h
  · injection h with _ h; exact h.symm
  · split at h
    · injection h with _ h; exact h.symm
    · exact absurd h (finishMul_not_err _ _ _ _ _)

theorem mulPtRnxInto_err (env : Env) (dst a s : Ct) (prec : Meta) (e : Err)
    (h : mulPtRnxInto env dst a prec = .err e s) : s = dst := by
  simp only [mulPtRnxInto, rnxToZnx] at h
  split at h
  · grind
  · exact mulPtZnxInto_err _ _ _ _ _ _ h

theorem mulCstRnx_err (env : Env) (dst a s : Ct) (prec : Meta) (re im assign : Bool) (e : Err)
    (h : mulCstRnx env dst a prec re im assign = .err e s) : s = dst := by
  simp only [mulCstRnx] at h
  split at h
  · split at h
    · injection h with _ h; exact h.symm
    · cases h
  · rcases toZnxAtK_cases env (prec.minK env.base2k) prec.logDelta re im dst with h1 | ⟨_, _, h1⟩
    · rw [h1] at h; injection h with _ h; exact h.symm
    · rw [h1] at h
      simp only at h
      split at h
      · injection h with _ h; exact h.symm
      · exact absurd h (finishMul_not_err _ _ _ _ _)

theorem mulAddWith_err (env : Env) (dst s : Ct) (prod : Ct → Res Ct) (e : Err)
    (h : mulAddWith env dst prod = .err e s) : s = dst := by
  simp only [mulAddWith] at h
  split at h
  · exact absurd h (addCtAssign_not_err _ _ _ _ _)
  · injection h with _ h; exact h.symm
  · cases h

theorem setMeta_err (env : Env) (ct s : Ct) (m : Meta) (e : Err) (h : setMeta env ct m = .err e s) : s = ct := by
  simp only [setMeta] at h; grind

theorem realloc_err (env : Env) (ct s : Ct) (size : Nat) (e : Err) (h : realloc env ct size = .err e s) : s = ct := by
  simp only [realloc] at h; grind

theorem compactCopy_not_err (env : Env) (dst a s : Ct) (e : Err) : compactCopy env dst a ≠ .err e s := by
  simp only [compactCopy]; grind

theorem decrypt_err (env : Env) (ct s : Ct) (pt : Pt) (e : Err) (h : decrypt env ct pt = .err e s) : s = ct := by
  simp only [decrypt] at h; grind

theorem encrypt_err_inv (env : Env) (ct s : Ct) (k : Nat) (pt : Pt) (e : Err) (hd : ct.inv env)
    (h : encrypt env ct k pt = .err e s) : s.inv env := by
  simp only [encrypt] at h
  split at h
  · injection h with _ h; exact h ▸ hd
  · split at h
    · rcases bind_err _ _ _ _ h with h1 | ⟨d, h1, h2⟩
      · exact setMeta_err _ _ _ _ _ h1 ▸ hd
      · exact ptAlign_err _ _ _ _ _ h2 ▸ (setMeta_ok_inv _ _ _ _ h1).1
    · injection h with _ h; exact h ▸ hd

theorem putRes_err (pool pool' : Pool) (d : Nat) (r : Res Ct) (e : Err) (h : putRes pool d r = .err e pool') :
    ∃ c, r = .err e c ∧ pool' = pool.set d c := by
  cases r <;> simp [putRes] at h
  exact ⟨_, by rw [h.1], h.2.symm⟩

theorem op1_err (pool pool' : Pool) (d : Nat) (f : Ct → Res Ct) (e : Err) (h : op1 pool d f = .err e pool') :
    pool' = pool ∨ ∃ cd c, pool[d]? = some cd ∧ f cd = .err e c ∧ pool' = pool.set d c := by
  simp only [op1] at h
  split at h
  · next cd hcd =>
    obtain ⟨c, h1, h2⟩ := putRes_err _ _ _ _ _ h
    exact Or.inr ⟨cd, c, hcd, h1, h2⟩
  · injection h with _ h; exact Or.inl h.symm

theorem op2_err (pool pool' : Pool) (d a : Nat) (f : Ct → Ct → Res Ct) (e : Err) (h : op2 pool d a f = .err e pool') :
    pool' = pool ∨ ∃ cd ca c, pool[d]? = some cd ∧ pool[a]? = some ca ∧ f cd ca = .err e c ∧ pool' = pool.set d c := by
  simp only [op2] at h
  split at h
  · next cd ca hcd hca =>
    split at h
    · injection h with _ h; exact Or.inl h.symm
    · obtain ⟨c, h1, h2⟩ := putRes_err _ _ _ _ _ h
      exact Or.inr ⟨cd, ca, c, hcd, hca, h1, h2⟩
  · injection h with _ h; exact Or.inl h.symm

theorem op3_err (pool pool' : Pool) (d a b : Nat) (f : Ct → Ct → Ct → Res Ct) (e : Err)
    (h : op3 pool d a b f = .err e pool') :
    pool' = pool ∨ ∃ cd ca cb c, pool[d]? = some cd ∧ pool[a]? = some ca ∧ pool[b]? = some cb ∧
      f cd ca cb = .err e c ∧ pool' = pool.set d c := by
  simp only [op3] at h
  split at h
  · next cd ca cb hcd hca hcb =>
    split at h
    · injection h with _ h; exact Or.inl h.symm
    · obtain ⟨c, h1, h2⟩ := putRes_err _ _ _ _ _ h
      exact Or.inr ⟨cd, ca, cb, c, hcd, hca, hcb, h1, h2⟩
  · injection h with _ h; exact Or.inl h.symm

theorem Inv_set_self (env : Env) (pool : Pool) (d : Nat) (cd : Ct) (h : Inv env pool) (hcd : pool[d]? = some cd) :
    Inv env (pool.set d cd) := Inv_set _ _ _ _ h (h _ (mem_of_get? _ _ _ hcd))

theorem alignStep_err_inv (env : Env) (pool pool' : Pool) (a b : Nat) (e : Err) (hI : Inv env pool)
    (h : alignStep env pool a b = .err e pool') : Inv env pool' := by
  simp only [alignStep] at h
  split at h
  · next ca cb hca hcb =>
    split at h
    · injection h with _ h; exact h ▸ hI
    · split at h
      · split at h
        · cases h
        · obtain ⟨c, h1, rfl⟩ := putRes_err _ _ _ _ _ h
          exact rescaleAssign_err _ _ _ _ _ h1 ▸ Inv_set_self _ _ _ _ hI hcb
      · split at h
        · cases h
        · obtain ⟨c, h1, rfl⟩ := putRes_err _ _ _ _ _ h
          exact rescaleAssign_err _ _ _ _ _ h1 ▸ Inv_set_self _ _ _ _ hI hca
  · injection h with _ h; exact h ▸ hI

/-! ## composite operations -/

theorem getAll_mem (pool : Pool) (d : Nat) : ∀ (as : List Nat) (cs : List Ct), getAll pool d as = some cs → ∀ c ∈ cs, c ∈ pool := by
  intro as
  induction as with
  | nil => intro cs h c hc; simp [getAll] at h; subst h; cases hc
  | cons a as ih =>
    intro cs h c hc
    simp only [getAll] at h
    split at h
    · cases h
    · split at h
      · next x xs hx hxs =>
        injection h with h; subst h
        rcases List.mem_cons.1 hc with rfl | hc
        · exact mem_of_get? _ _ _ hx
        · exact ih xs hxs c hc
      · cases h

theorem addCtAssign_total (env : Env) (dst a : Ct) : ∃ d', addCtAssign env dst a = .ok d' := by
  have h1 := addCtAssign_no_panic env dst a
  cases h : addCtAssign env dst a with
  | ok d' => exact ⟨d', rfl⟩
  | err e s => exact absurd h (addCtAssign_not_err _ _ _ _ _)
  | panic p => rw [h] at h1; simp [Res.isPanic] at h1

/-- the loop of `ckks_add_assign_unsafe` over further inputs -/
def foldAssign (env : Env) (cs : List Ct) (r : Res Ct) : Res Ct :=
  cs.foldl (fun r c => r.bind (fun d' => addCtAssign env d' c)) r

theorem foldAssign_ok (env : Env) : ∀ (cs : List Ct) (d : Ct), d.inv env →
    ∃ d', foldAssign env cs (.ok d) = .ok d' ∧ d'.inv env := by
  intro cs
  induction cs with
  | nil => intro d hd; exact ⟨d, rfl, hd⟩
  | cons c cs ih =>
    intro d hd
    obtain ⟨d1, h1⟩ := addCtAssign_total env d c
    obtain ⟨i1, _⟩ := addCtAssign_ok_inv env d c d1 hd h1
    obtain ⟨d2, h2, i2⟩ := ih d1 i1
    refine ⟨d2, ?_, i2⟩
    simp only [foldAssign, List.foldl, Res.bind, h1]
    exact h2

theorem addMany_cases (env : Env) (dst : Ct) (ins : List Ct) :
    (∃ d', addMany env dst ins = .ok d' ∧ d'.inv env) ∨ (∃ e, addMany env dst ins = .err e dst) := by
  match ins with
  | [] => exact Or.inr ⟨_, rfl⟩
  | [a] =>
    simp only [addMany]
    cases h : shiftInto env dst a 0 with
    | ok d' => exact Or.inl ⟨d', rfl, (shiftInto_ok_inv _ _ _ _ _ h).1⟩
    | err e s => exact Or.inr ⟨e, by rw [shiftInto_err _ _ _ _ _ _ h]⟩
    | panic p => have := shiftInto_no_panic env dst a 0; rw [h] at this; simp [Res.isPanic] at this
  | a :: b :: rest =>
    simp only [addMany]
    split
    · exact Or.inr ⟨_, rfl⟩
    · cases h : addCtInto env dst a b with
      | ok d1 =>
        obtain ⟨d2, h2, i2⟩ := foldAssign_ok env rest d1 (addCtInto_ok_inv _ _ _ _ _ h).1
        exact Or.inl ⟨d2, by simp only [Res.bind]; exact h2, i2⟩
      | err e s => exact Or.inr ⟨e, by rw [addCtInto_err _ _ _ _ _ _ h]; rfl⟩
      | panic p => have := addCtInto_no_panic env dst a b; rw [h] at this; simp [Res.isPanic] at this

theorem mulInto_ok_delta (env : Env) (dst a b d' : Ct) (h : mulInto env dst a b = .ok d') :
    d'.md.logDelta = min a.md.logDelta b.md.logDelta := by
  simp only [mulInto, mulCtParams, finishMul] at h
  grind

theorem shiftInto_ok_delta (env : Env) (dst a d' : Ct) (extra : Nat) (h : shiftInto env dst a extra = .ok d') :
    d'.md.logDelta = a.md.logDelta := by
  simp only [shiftInto] at h
  grind

/-- a sub-product of `mul_many_rec`: what the tree needs from the recursive calls -/
structure RecOk (env : Env) (rec : Ct → List Ct → Res Ct) (δ : Nat) (ins : List Ct) : Prop where
  inv : ∀ dst d', rec dst ins = .ok d' → d'.inv env ∧ d'.md.logDelta = δ
  noPanic : ∀ dst, (rec dst ins).isPanic = false

theorem mulTree_spec (env : Env) (hw : WF env) (rec : Ct → List Ct → Res Ct) (dst : Ct) (ins : List Ct) (δ : Nat) :
    (∀ d', mulTree env rec dst ins δ = .ok d' →
      (∀ t l, rec t (ins.take (ins.length / 2)) = .ok l → l.md.logDelta = δ) →
      (∀ t r, rec t (ins.drop (ins.length / 2)) = .ok r → r.md.logDelta = δ) → d'.inv env ∧ d'.md.logDelta = δ) ∧
    (∀ e s, mulTree env rec dst ins δ = .err e s → s = dst) := by
  simp only [mulTree]
  constructor
  · intro d' h hl hr
    split at h
    · cases h
    · cases h
    · next l hlo =>
      split at h
      · cases h
      · cases h
      · next r hro =>
        refine ⟨(mulInto_ok_inv _ _ _ _ _ h).1, ?_⟩
        rw [mulInto_ok_delta _ _ _ _ _ h, hl _ _ hlo, hr _ _ hro]; simp
  · intro e s h
    split at h
    · cases h
    · injection h with _ h; exact h.symm
    · split at h
      · cases h
      · injection h with _ h; exact h.symm
      · exact mulInto_err _ _ _ _ _ _ h

theorem all_delta_eq (ins : List Ct) (δ : Nat) (h : ins.all (fun c => c.md.logDelta == δ) = true) :
    ∀ c ∈ ins, c.md.logDelta = δ := by
  intro c hc
  have := List.all_eq_true.1 h c hc
  simpa using this

theorem mulManyRec_err (env : Env) (hw : WF env) : ∀ (fuel : Nat) (dst s : Ct) (ins : List Ct) (e : Err),
    mulManyRec env fuel dst ins = .err e s → s = dst := by
  intro fuel
  cases fuel with
  | zero => intro dst s ins e h; simp [mulManyRec] at h; exact h.2.symm
  | succ fuel =>
    intro dst s ins e h
    match ins with
    | [] => simp [mulManyRec] at h; exact h.2.symm
    | [x] => simp only [mulManyRec] at h; exact shiftInto_err _ _ _ _ _ _ h
    | [x, y] =>
      simp only [mulManyRec] at h
      split at h
      · exact mulInto_err _ _ _ _ _ _ h
      · injection h with _ h; exact h.symm
    | a :: b :: c :: rest =>
      simp only [mulManyRec] at h
      split at h
      · exact (mulTree_spec env hw _ _ _ _).2 e s h
      · injection h with _ h; exact h.symm

theorem mulManyRec_ok (env : Env) (hw : WF env) : ∀ (fuel : Nat) (dst d' : Ct) (ins : List Ct) (δ : Nat),
    (∀ c ∈ ins, c.md.logDelta = δ) → mulManyRec env fuel dst ins = .ok d' → d'.inv env ∧ d'.md.logDelta = δ := by
  intro fuel
  induction fuel with
  | zero => intro dst d' ins δ _ h; simp [mulManyRec] at h
  | succ fuel ih =>
    intro dst d' ins δ hδ h
    match ins with
    | [] => simp [mulManyRec] at h
    | [x] =>
      simp only [mulManyRec] at h
      exact ⟨(shiftInto_ok_inv _ _ _ _ _ h).1, by rw [shiftInto_ok_delta _ _ _ _ _ h]; exact hδ x (by simp)⟩
    | [x, y] =>
      simp only [mulManyRec] at h
      split at h
      · refine ⟨(mulInto_ok_inv _ _ _ _ _ h).1, ?_⟩
        rw [mulInto_ok_delta _ _ _ _ _ h, hδ x (by simp), hδ y (by simp)]; simp
      · cases h
    | a :: b :: c :: rest =>
      simp only [mulManyRec] at h
      split at h
      · have ha : a.md.logDelta = δ := hδ a (by simp)
        rw [ha] at h
        exact (mulTree_spec env hw _ _ _ _).1 d' h
          (fun t l hl => (ih t l _ δ (fun z hz => hδ z (List.mem_of_mem_take hz)) hl).2)
          (fun t r hr => (ih t r _ δ (fun z hz => hδ z (List.mem_of_mem_drop hz)) hr).2)
      · cases h

/-- the inputs of an accepted `mul_many_rec` level have a common `log_delta` -/
theorem mulManyRec_ok_inv (env : Env) (hw : WF env) : ∀ (fuel : Nat) (dst d' : Ct) (ins : List Ct),
    mulManyRec env fuel dst ins = .ok d' → d'.inv env := by
  intro fuel
  cases fuel with
  | zero => intro dst d' ins h; simp [mulManyRec] at h
  | succ fuel =>
    intro dst d' ins h
    match ins with
    | [] => simp [mulManyRec] at h
    | [x] => simp only [mulManyRec] at h; exact (shiftInto_ok_inv _ _ _ _ _ h).1
    | [x, y] =>
      simp only [mulManyRec] at h
      split at h
      · exact (mulInto_ok_inv _ _ _ _ _ h).1
      · cases h
    | a :: b :: c :: rest =>
      simp only [mulManyRec] at h
      split at h
      · simp only [mulTree] at h
        split at h
        · cases h
        · cases h
        · split at h
          · cases h
          · cases h
          · exact (mulInto_ok_inv _ _ _ _ _ h).1
      · cases h

theorem mulManyRec_no_panic (env : Env) (hw : WF env) : ∀ (fuel : Nat) (dst : Ct) (ins : List Ct),
    (∀ c ∈ ins, c.inv env ∧ 0 < c.md.logDelta) → (mulManyRec env fuel dst ins).isPanic = false := by
  intro fuel
  induction fuel with
  | zero => intro dst ins _; rfl
  | succ fuel ih =>
    intro dst ins hin
    match ins with
    | [] => rfl
    | [x] => simp only [mulManyRec]; exact shiftInto_no_panic _ _ _ _
    | [x, y] =>
      simp only [mulManyRec]
      have hx := hin x (by simp)
      have hy := hin y (by simp)
      split
      · exact mulInto_no_panic _ hw _ _ _ hx.1 hy.1 (by simp only [Meta.effK]; omega) (by simp only [Meta.effK]; omega)
      · rfl
    | a :: b :: c :: rest =>
      simp only [mulManyRec]
      split
      · next hall =>
        have hδ := all_delta_eq _ _ hall
        have ha := hin a (by simp)
        simp only [mulTree]
        have hl := fun (t : Ct) => ih t (List.take ((a :: b :: c :: rest).length / 2) (a :: b :: c :: rest))
          (fun z hz => hin z (List.mem_of_mem_take hz))
        have hr := fun (t : Ct) => ih t (List.drop ((a :: b :: c :: rest).length / 2) (a :: b :: c :: rest))
          (fun z hz => hin z (List.mem_of_mem_drop hz))
        split
        · next p hp => have := congrArg Res.isPanic hp; rw [hl] at this; simp [Res.isPanic] at this
        · rfl
        · next l hlo =>
          split
          · next p hp => have := congrArg Res.isPanic hp; rw [hr] at this; simp [Res.isPanic] at this
          · rfl
          · next r hro =>
            have ol := mulManyRec_ok env hw _ _ _ _ a.md.logDelta (fun z hz => hδ z (List.mem_of_mem_take hz)) hlo
            have or := mulManyRec_ok env hw _ _ _ _ a.md.logDelta (fun z hz => hδ z (List.mem_of_mem_drop hz)) hro
            exact mulInto_no_panic _ hw _ _ _ ol.1 or.1 (by simp only [Meta.effK]; omega) (by simp only [Meta.effK]; omega)
      · rfl

theorem accumulate_err_fold (env : Env) : ∀ (ts : List (Ct → Res Ct)) (e : Err) (s : Ct),
    ts.foldl (accStep env) (Res.err e s) = Res.err e s := by
  intro ts
  induction ts with
  | nil => intro e s; rfl
  | cons t ts ih => intro e s; simp only [List.foldl, accStep, Res.bind]; exact ih e s

/-- `accumulate_unnormalized` -/
theorem accumulate_spec (env : Env) : ∀ (terms : List (Ct → Res Ct)) (d : Ct), d.inv env →
    (∀ t ∈ terms, ∀ x, (t x).isPanic = false) →
    ((accumulate env d terms).isPanic = false) ∧
    (∀ d', accumulate env d terms = .ok d' → d'.inv env) ∧
    (∀ e s, accumulate env d terms = .err e s → s.inv env) := by
  intro terms
  induction terms with
  | nil =>
    intro d hd _
    refine ⟨rfl, ?_, ?_⟩
    · intro d' h; simp [accumulate] at h; exact h ▸ hd
    · intro e s h; simp [accumulate] at h
  | cons t ts ih =>
    intro d hd hp
    have hpt := hp t (by simp) (mulTmp d)
    have hstep : accumulate env d (t :: ts) = ts.foldl (accStep env) (accStep env (.ok d) t) := rfl
    rw [hstep]
    cases ht : t (mulTmp d) with
    | panic p => rw [ht] at hpt; simp [Res.isPanic] at hpt
    | err e x =>
      have hs : accStep env (.ok d) t = .err e d := by simp only [accStep, Res.bind, ht]
      rw [hs, accumulate_err_fold]
      refine ⟨rfl, ?_, ?_⟩
      · intro d' h; cases h
      · intro e2 s2 h; injection h with _ h; exact h ▸ hd
    | ok tmp =>
      obtain ⟨d1, h1⟩ := addCtAssign_total env d tmp
      have i1 := (addCtAssign_ok_inv env d tmp d1 hd h1).1
      have hs : accStep env (.ok d) t = .ok d1 := by simp only [accStep, Res.bind, ht, h1]
      rw [hs]
      exact ih d1 i1 (fun t' ht' => hp t' (List.mem_cons_of_mem _ ht'))

theorem dotWith_spec (env : Env) (dst : Ct) (n : Nat) (first : Ct → Res Ct) (others : List (Ct → Res Ct))
    (hd : dst.inv env)
    (hf1 : (first dst).isPanic = false) (hf2 : ∀ d', first dst = .ok d' → d'.inv env) (hf3 : ∀ e s, first dst = .err e s → s = dst)
    (hp : ∀ t ∈ others, ∀ x, (t x).isPanic = false) :
    ((dotWith env dst n first others).isPanic = false) ∧
    (∀ d', dotWith env dst n first others = .ok d' → d'.inv env) ∧
    (∀ e s, dotWith env dst n first others = .err e s → s.inv env) := by
  have herr : ∀ (e0 : Err), ((Res.err e0 dst : Res Ct).isPanic = false) ∧
      (∀ d', (Res.err e0 dst : Res Ct) = .ok d' → d'.inv env) ∧
      (∀ e s, (Res.err e0 dst : Res Ct) = .err e s → s.inv env) := by
    intro e0
    refine ⟨rfl, ?_, ?_⟩
    · intro d' h; cases h
    · intro e s h; injection h with _ h; exact h ▸ hd
  simp only [dotWith]
  split
  · exact herr _
  · split
    · exact herr _
    · cases hfd : first dst with
      | panic p => rw [hfd] at hf1; simp [Res.isPanic] at hf1
      | err e s =>
        simp only [Res.bind]
        rw [hf3 e s hfd]
        exact herr _
      | ok d1 =>
        simp only [Res.bind]
        exact accumulate_spec env others d1 (hf2 d1 hfd) hp

theorem alignStep_ok_inv (env : Env) (pool pool' : Pool) (a b : Nat) (hI : Inv env pool)
    (h : alignStep env pool a b = .ok pool') : Inv env pool' := by
  simp only [alignStep] at h
  split at h
  · next ca cb hca hcb =>
    split at h
    · cases h
    · split at h
      · split at h
        · cases h
        · obtain ⟨c, h1, rfl⟩ := putRes_ok _ _ _ _ h
          exact Inv_set _ _ _ _ hI (rescaleAssign_ok_inv _ _ _ _ (hI _ (mem_of_get? _ _ _ hcb)) h1).1
      · split at h
        · cases h
        · obtain ⟨c, h1, rfl⟩ := putRes_ok _ _ _ _ h
          exact Inv_set _ _ _ _ hI (rescaleAssign_ok_inv _ _ _ _ (hI _ (mem_of_get? _ _ _ hca)) h1).1
  · cases h

/-! ## the hypothesis under which a call cannot panic -/

/-- all listed source slots hold a ciphertext with positive `log_delta` (resp. a value) -/
def allAt (pool : Pool) (as : List Nat) (P : Ct → Prop) : Prop := ∀ a ∈ as, ∀ c, pool[a]? = some c → P c

/-- the ciphertext in slot `i` holds a value: `effective_k > 0` (it was produced by an encryption or
an evaluation, not merely allocated) -/
def initAt (pool : Pool) (i : Nat) : Prop := ∀ c, pool[i]? = some c → 0 < c.md.effK

/-- `Initialised env pool op`: the ciphertext operands of a ct×ct / ct×plaintext-vector multiplication
have been given a value.  A merely allocated buffer has `effective_k = 0` and narrows to zero limbs,
which the FFT64 convolution rejects with a panic (NTT120 accepts it). -/
def Initialised (_env : Env) (pool : Pool) : Op → Prop
  | .mul _ a b => initAt pool a ∧ initAt pool b
  | .mulAssign d a => initAt pool d ∧ initAt pool a
  | .square _ a => initAt pool a
  | .squareAssign d => initAt pool d
  | .mulPtZnx _ a _ => initAt pool a
  | .mulPtZnxAssign d _ => initAt pool d
  | .mulPtRnx _ a _ => initAt pool a
  | .mulPtRnxAssign d _ => initAt pool d
  | .mulAddCt _ a b => initAt pool a ∧ initAt pool b
  | .mulAddPtZnx _ a _ => initAt pool a
  | .mulAddPtRnx _ a _ => initAt pool a
  | .mulMany _ as => allAt pool as (fun c => 0 < c.md.logDelta)
  | .dotCt _ as bs => allAt pool as (fun c => 0 < c.md.logDelta) ∧ allAt pool bs (fun c => 0 < c.md.logDelta)
  | .dotPtZnx _ as _ => allAt pool as (fun c => 0 < c.md.effK)
  | .dotPtRnx _ as _ => allAt pool as (fun c => 0 < c.md.effK)
  | _ => True

theorem putRes_no_panic (pool : Pool) (d : Nat) (r : Res Ct) (h : r.isPanic = false) : (putRes pool d r).isPanic = false := by
  cases r <;> simp_all [putRes, Res.isPanic]

theorem op1_no_panic (pool : Pool) (d : Nat) (f : Ct → Res Ct)
    (h : ∀ cd, pool[d]? = some cd → (f cd).isPanic = false) : (op1 pool d f).isPanic = false := by
  simp only [op1]
  split
  · next cd hcd => exact putRes_no_panic _ _ _ (h cd hcd)
  · simp [Res.isPanic]

theorem op2_no_panic (pool : Pool) (d a : Nat) (f : Ct → Ct → Res Ct)
    (h : ∀ cd ca, pool[d]? = some cd → pool[a]? = some ca → (f cd ca).isPanic = false) :
    (op2 pool d a f).isPanic = false := by
  simp only [op2]
  split
  · next cd ca hcd hca =>
    split
    · simp [Res.isPanic]
    · exact putRes_no_panic _ _ _ (h cd ca hcd hca)
  · simp [Res.isPanic]

theorem op3_no_panic (pool : Pool) (d a b : Nat) (f : Ct → Ct → Ct → Res Ct)
    (h : ∀ cd ca cb, pool[d]? = some cd → pool[a]? = some ca → pool[b]? = some cb → (f cd ca cb).isPanic = false) :
    (op3 pool d a b f).isPanic = false := by
  simp only [op3]
  split
  · next cd ca cb hcd hca hcb =>
    split
    · simp [Res.isPanic]
    · exact putRes_no_panic _ _ _ (h cd ca cb hcd hca hcb)
  · simp [Res.isPanic]

/-- the three facts the step theorems need of one call on the destination -/
def Good (env : Env) (r : Res Ct) : Prop :=
  r.isPanic = false ∧ (∀ d', r = .ok d' → d'.inv env) ∧ (∀ e s, r = .err e s → s.inv env)

theorem Good_err (env : Env) (dst : Ct) (e0 : Err) (hd : dst.inv env) : Good env (.err e0 dst) := by
  refine ⟨rfl, ?_, ?_⟩
  · intro d' h; cases h
  · intro e s h; injection h with _ h; exact h ▸ hd

theorem Good_of (env : Env) (dst : Ct) (r : Res Ct) (hd : dst.inv env) (h1 : r.isPanic = false)
    (h2 : ∀ d', r = .ok d' → d'.inv env) (h3 : ∀ e s, r = .err e s → s = dst) : Good env r :=
  ⟨h1, h2, fun e s h => h3 e s h ▸ hd⟩

theorem withPt_good (env : Env) (pt : Pt) (dst : Ct) (f : Res Ct) (hd : dst.inv env) (hf : Good env f) :
    Good env (withPt env pt dst f) := by
  simp only [withPt, ptBuild]
  split
  · next r hr =>
    split at hr
    · injection hr with hr; subst hr; exact Good_err env dst _ hd
    · split at hr
      · injection hr with hr; subst hr; exact Good_err env dst _ hd
      · cases hr
  · exact hf

theorem addMany_good (env : Env) (dst : Ct) (ins : List Ct) (hd : dst.inv env) : Good env (addMany env dst ins) := by
  rcases addMany_cases env dst ins with ⟨d', h, hi⟩ | ⟨e, h⟩
  · rw [h]
    refine ⟨rfl, ?_, ?_⟩
    · intro d2 h2; injection h2 with h2; exact h2 ▸ hi
    · intro e s h2; cases h2
  · rw [h]; exact Good_err env dst e hd

theorem mulMany_good (env : Env) (hw : WF env) (dst : Ct) (ins : List Ct) (hd : dst.inv env)
    (hin : ∀ c ∈ ins, c.inv env ∧ 0 < c.md.logDelta) : Good env (mulMany env dst ins) :=
  Good_of env dst _ hd (mulManyRec_no_panic env hw _ _ _ hin)
    (fun d' h => mulManyRec_ok_inv env hw _ _ _ _ h) (fun e s h => mulManyRec_err env hw _ _ _ _ _ h)

theorem mulInto_good (env : Env) (hw : WF env) (dst a b : Ct) (hd : dst.inv env) (ia : a.inv env) (ib : b.inv env)
    (pa : 0 < a.md.effK) (pb : 0 < b.md.effK) : Good env (mulInto env dst a b) :=
  Good_of env dst _ hd (mulInto_no_panic env hw dst a b ia ib pa pb)
    (fun d' h => (mulInto_ok_inv _ _ _ _ _ h).1) (fun e s h => mulInto_err _ _ _ _ _ _ h)

theorem dotWith_good (env : Env) (dst : Ct) (n : Nat) (first : Ct → Res Ct) (others : List (Ct → Res Ct))
    (hd : dst.inv env)
    (hf1 : (first dst).isPanic = false) (hf2 : ∀ d', first dst = .ok d' → d'.inv env) (hf3 : ∀ e s, first dst = .err e s → s = dst)
    (hp : ∀ t ∈ others, ∀ x, (t x).isPanic = false) : Good env (dotWith env dst n first others) :=
  dotWith_spec env dst n first others hd hf1 hf2 hf3 hp

theorem dotPtZnx_good (env : Env) (hw : WF env) (dst : Ct) (as : List Ct) (pt : Pt) (hd : dst.inv env)
    (hin : ∀ c ∈ as, c.inv env ∧ 0 < c.md.effK) : Good env (dotPtZnx env dst as pt) := by
  match as with
  | [] => exact Good_err env dst _ hd
  | a0 :: rest =>
    simp only [dotPtZnx]
    have h0 := hin a0 (by simp)
    refine dotWith_good env dst _ _ _ hd (mulPtZnxInto_no_panic env hw _ _ _ h0.1 h0.2)
      (fun d' h => (mulPtZnxInto_ok_inv _ _ _ _ _ h).1) (fun e s h => mulPtZnxInto_err _ _ _ _ _ _ h) ?_
    intro t ht x
    obtain ⟨a, ha, rfl⟩ := List.mem_map.1 ht
    have h1 := hin a (List.mem_cons_of_mem _ ha)
    exact mulPtZnxInto_no_panic env hw _ _ _ h1.1 h1.2

theorem dotPtRnx_good (env : Env) (hw : WF env) (dst : Ct) (as : List Ct) (prec : Meta) (hd : dst.inv env)
    (hin : ∀ c ∈ as, c.inv env ∧ 0 < c.md.effK) : Good env (dotPtRnx env dst as prec) := by
  match as with
  | [] => exact Good_err env dst _ hd
  | a0 :: rest =>
    simp only [dotPtRnx]
    have h0 := hin a0 (by simp)
    refine dotWith_good env dst _ _ _ hd (mulPtRnxInto_no_panic env hw _ _ _ h0.1 h0.2)
      (fun d' h => (mulPtRnxInto_ok_inv _ _ _ _ _ h).1) (fun e s h => mulPtRnxInto_err _ _ _ _ _ _ h) ?_
    intro t ht x
    obtain ⟨a, ha, rfl⟩ := List.mem_map.1 ht
    have h1 := hin a (List.mem_cons_of_mem _ ha)
    exact mulPtRnxInto_no_panic env hw _ _ _ h1.1 h1.2

theorem dotCstRnx_good (env : Env) (hw : WF env) (dst : Ct) (as : List Ct) (prec : Meta) (re im : Bool) (hd : dst.inv env)
    (hin : ∀ c ∈ as, c.inv env) : Good env (dotCstRnx env dst as prec re im) := by
  match as with
  | [] => exact Good_err env dst _ hd
  | a0 :: rest =>
    simp only [dotCstRnx]
    refine dotWith_good env dst _ _ _ hd (mulCstRnx_no_panic env hw _ _ _ _ _ _ (hin a0 (by simp)))
      (fun d' h => (mulCstRnx_ok_inv _ _ _ _ _ _ _ _ h).1) (fun e s h => mulCstRnx_err _ _ _ _ _ _ _ _ _ h) ?_
    intro t ht x
    obtain ⟨a, ha, rfl⟩ := List.mem_map.1 ht
    exact mulCstRnx_no_panic env hw _ _ _ _ _ _ (hin a (List.mem_cons_of_mem _ ha))

/-- the operand handed to the tensor product in the aligned path has `effective_k = target` and fits -/
theorem dotOperand_ok (env : Env) (hw : WF env) (aligned : Bool) (l : List Ct) (ld minB : Nat) (c : Ct) (hc : c ∈ l)
    (hall : aligned = true → l.all (fun z => z.md.logBudget == minB && z.md.logDelta == ld) = true)
    (hi : c.inv env) (hpos : 0 < ld) :
    (dotOperand env aligned (minB + ld) ld minB c).md.effK = minB + ld ∧
    effLimbs env (dotOperand env aligned (minB + ld) ld minB c) ≤ (dotOperand env aligned (minB + ld) ld minB c).size ∧
    0 < effLimbs env (dotOperand env aligned (minB + ld) ld minB c) := by
  have key : (dotOperand env aligned (minB + ld) ld minB c).md.effK = minB + ld ∧
      (dotOperand env aligned (minB + ld) ld minB c).inv env := by
    cases aligned with
    | true =>
      have := List.all_eq_true.1 (hall rfl) c hc
      simp only [Bool.and_eq_true, beq_iff_eq] at this
      simp only [dotOperand, if_true, Meta.effK]
      exact ⟨by omega, hi⟩
    | false =>
      simp only [dotOperand, Bool.false_eq_true, if_false, Meta.effK, Ct.inv]
      exact ⟨by omega, by have := le_divCeil_mul (minB + ld) env.base2k hw; omega⟩
  refine ⟨key.1, effLimbs_le env hw _ key.2, effLimbs_pos env hw _ (by rw [key.1]; omega)⟩

theorem dotCt_good (env : Env) (hw : WF env) (dst : Ct) (as bs : List Ct) (hd : dst.inv env)
    (ha : ∀ c ∈ as, c.inv env ∧ 0 < c.md.logDelta) (hb : ∀ c ∈ bs, c.inv env ∧ 0 < c.md.logDelta) :
    Good env (dotCt env dst as bs) := by
  cases as with
  | nil => simp only [dotCt]; repeat' split
           all_goals exact Good_err env dst _ hd
  | cons a0 ta =>
    cases bs with
    | nil => simp only [dotCt]; repeat' split
             all_goals exact Good_err env dst _ hd
    | cons b0 tb =>
      have h1 := ha a0 (by simp)
      have h2 := hb b0 (by simp)
      have g0 := mulInto_good env hw dst a0 b0 hd h1.1 h2.1 (by simp only [Meta.effK]; omega) (by simp only [Meta.effK]; omega)
      simp only [dotCt]
      split
      · exact Good_err env dst _ hd
      · split
        · exact Good_err env dst _ hd
        · split
          · exact Good_err env dst _ hd
          · split
            · exact g0
            · split
              · -- deltas not uniform: product of the first pair, the others accumulated
                cases hm : mulInto env dst a0 b0 with
                | panic p => rw [hm] at g0; simp [Good, Res.isPanic] at g0
                | err e s => simp only [Res.bind]; rw [hm] at g0; exact g0
                | ok d1 =>
                  simp only [Res.bind]
                  refine accumulate_spec env _ d1 ((mulInto_ok_inv _ _ _ _ _ hm).1) ?_
                  intro t ht x
                  obtain ⟨ab, hab, rfl⟩ := List.mem_map.1 ht
                  have hz := List.of_mem_zip (List.mem_of_mem_drop hab)
                  have i1 := ha ab.1 hz.1
                  have i2 := hb ab.2 hz.2
                  exact mulInto_no_panic env hw _ _ _ i1.1 i2.1 (by simp only [Meta.effK]; omega) (by simp only [Meta.effK]; omega)
              · split
                · split
                  · -- aligned path: every tensor check passes
                    have hchk : (List.zip (a0 :: ta) (b0 :: tb)).findSome? (fun (ab : Ct × Ct) =>
                        tensorCheck env
                          (dotOperand env ((a0 :: ta).all (fun c => c.md.logBudget == minBudget (a0 :: ta) && c.md.logDelta == a0.md.logDelta))
                            (minBudget (a0 :: ta) + a0.md.logDelta) a0.md.logDelta (minBudget (a0 :: ta)) ab.1)
                          (dotOperand env ((b0 :: tb).all (fun c => c.md.logBudget == minBudget (b0 :: tb) && c.md.logDelta == b0.md.logDelta))
                            (minBudget (b0 :: tb) + b0.md.logDelta) b0.md.logDelta (minBudget (b0 :: tb)) ab.2)
                          (max (minBudget (a0 :: ta)) (minBudget (b0 :: tb)) + max a0.md.logDelta b0.md.logDelta +
                            (min (minBudget (a0 :: ta)) (minBudget (b0 :: tb)) - max a0.md.logDelta b0.md.logDelta +
                              min a0.md.logDelta b0.md.logDelta - dst.maxK env))) = none := by
                      rw [List.findSome?_eq_none_iff]
                      intro ab hab
                      have hz := List.of_mem_zip hab
                      obtain ⟨e1, l1, p1⟩ := dotOperand_ok env hw _ (a0 :: ta) a0.md.logDelta (minBudget (a0 :: ta)) ab.1 hz.1
                        (fun h => h) (ha _ hz.1).1 h1.2
                      obtain ⟨e2, l2, p2⟩ := dotOperand_ok env hw _ (b0 :: tb) b0.md.logDelta (minBudget (b0 :: tb)) ab.2 hz.2
                        (fun h => h) (hb _ hz.2).1 h2.2
                      have la := le_divCeil_mul (minBudget (a0 :: ta) + a0.md.logDelta) env.base2k hw
                      have lb := le_divCeil_mul (minBudget (b0 :: tb) + b0.md.logDelta) env.base2k hw
                      simp only [tensorCheck]
                      have hhi : cnvHi env.base2k (max (minBudget (a0 :: ta)) (minBudget (b0 :: tb)) + max a0.md.logDelta b0.md.logDelta +
                            (min (minBudget (a0 :: ta)) (minBudget (b0 :: tb)) - max a0.md.logDelta b0.md.logDelta +
                              min a0.md.logDelta b0.md.logDelta - dst.maxK env)) ≤
                          effLimbs env (dotOperand env ((a0 :: ta).all (fun c => c.md.logBudget == minBudget (a0 :: ta) && c.md.logDelta == a0.md.logDelta))
                            (minBudget (a0 :: ta) + a0.md.logDelta) a0.md.logDelta (minBudget (a0 :: ta)) ab.1) +
                          effLimbs env (dotOperand env ((b0 :: tb).all (fun c => c.md.logBudget == minBudget (b0 :: tb) && c.md.logDelta == b0.md.logDelta))
                            (minBudget (b0 :: tb) + b0.md.logDelta) b0.md.logDelta (minBudget (b0 :: tb)) ab.2) := by
                        apply cnvHi_le _ _ _ hw
                        simp only [effLimbs, e1, e2]
                        rw [Nat.add_mul]
                        omega
                      grind
                    simp only [hchk, finishMul]
                    refine ⟨rfl, ?_, ?_⟩
                    · intro d' h; injection h with h; subst h
                      simp only [Ct.inv, Meta.effK, Ct.maxK] at *
                      omega
                    · intro e s h; cases h
                  · exact Good_err env dst _ hd
                · exact Good_err env dst _ hd

/-! ### pool plumbing for list operands -/

theorem opN_good (env : Env) (pool : Pool) (d : Nat) (as : List Nat) (f : Ct → List Ct → Res Ct) (hI : Inv env pool)
    (hf : ∀ cd cs, pool[d]? = some cd → getAll pool d as = some cs → Good env (f cd cs)) :
    (opN pool d as f).isPanic = false ∧ (∀ pool', opN pool d as f = .ok pool' → Inv env pool') ∧
    (∀ e pool', opN pool d as f = .err e pool' → Inv env pool') := by
  simp only [opN]
  split
  · next cd cs hcd hcs =>
    obtain ⟨g1, g2, g3⟩ := hf cd cs hcd hcs
    refine ⟨putRes_no_panic _ _ _ g1, ?_, ?_⟩
    · intro pool' h
      obtain ⟨c, h1, rfl⟩ := putRes_ok _ _ _ _ h
      exact Inv_set _ _ _ _ hI (g2 c h1)
    · intro e pool' h
      obtain ⟨c, h1, rfl⟩ := putRes_err _ _ _ _ _ h
      exact Inv_set _ _ _ _ hI (g3 e c h1)
  · refine ⟨rfl, ?_, ?_⟩
    · intro pool' h; cases h
    · intro e pool' h; injection h with _ h; exact h ▸ hI

theorem opNN_good (env : Env) (pool : Pool) (d : Nat) (as bs : List Nat) (f : Ct → List Ct → List Ct → Res Ct) (hI : Inv env pool)
    (hf : ∀ cd ca cb, pool[d]? = some cd → getAll pool d as = some ca → getAll pool d bs = some cb → Good env (f cd ca cb)) :
    (opNN pool d as bs f).isPanic = false ∧ (∀ pool', opNN pool d as bs f = .ok pool' → Inv env pool') ∧
    (∀ e pool', opNN pool d as bs f = .err e pool' → Inv env pool') := by
  simp only [opNN]
  split
  · next cd ca cb hcd hca hcb =>
    obtain ⟨g1, g2, g3⟩ := hf cd ca cb hcd hca hcb
    refine ⟨putRes_no_panic _ _ _ g1, ?_, ?_⟩
    · intro pool' h
      obtain ⟨c, h1, rfl⟩ := putRes_ok _ _ _ _ h
      exact Inv_set _ _ _ _ hI (g2 c h1)
    · intro e pool' h
      obtain ⟨c, h1, rfl⟩ := putRes_err _ _ _ _ _ h
      exact Inv_set _ _ _ _ hI (g3 e c h1)
  · refine ⟨rfl, ?_, ?_⟩
    · intro pool' h; cases h
    · intro e pool' h; injection h with _ h; exact h ▸ hI

theorem getAll_prop (pool : Pool) (d : Nat) (P : Ct → Prop) : ∀ (as : List Nat) (cs : List Ct),
    getAll pool d as = some cs → allAt pool as P → ∀ c ∈ cs, P c := by
  intro as
  induction as with
  | nil => intro cs h _ c hc; simp [getAll] at h; subst h; cases hc
  | cons a as ih =>
    intro cs h hall c hc
    simp only [getAll] at h
    split at h
    · cases h
    · split at h
      · next x xs hx hxs =>
        injection h with h; subst h
        rcases List.mem_cons.1 hc with rfl | hc
        · exact hall a (by simp) _ hx
        · exact ih xs hxs (fun a' ha' => hall a' (List.mem_cons_of_mem _ ha')) c hc
      · cases h

/-! ### hypothesis-free part: whatever a composite call returns (Ok or Err) fits its storage -/

def Good2 (env : Env) (r : Res Ct) : Prop :=
  (∀ d', r = .ok d' → d'.inv env) ∧ (∀ e s, r = .err e s → s.inv env)

theorem Good2_err (env : Env) (dst : Ct) (e0 : Err) (hd : dst.inv env) : Good2 env (.err e0 dst) := by
  refine ⟨?_, ?_⟩
  · intro d' h; cases h
  · intro e s h; injection h with _ h; exact h ▸ hd

theorem Good2_panic (env : Env) (p : Panic) : Good2 env (.panic p) := by
  refine ⟨?_, ?_⟩
  · intro d' h; cases h
  · intro e s h; cases h

theorem Good2_of (env : Env) (dst : Ct) (r : Res Ct) (hd : dst.inv env)
    (h2 : ∀ d', r = .ok d' → d'.inv env) (h3 : ∀ e s, r = .err e s → s = dst) : Good2 env r :=
  ⟨h2, fun e s h => h3 e s h ▸ hd⟩

theorem Good.to2 {env : Env} {r : Res Ct} (h : Good env r) : Good2 env r := ⟨h.2.1, h.2.2⟩

theorem accumulate_panic_fold (env : Env) : ∀ (ts : List (Ct → Res Ct)) (p : Panic),
    ts.foldl (accStep env) (Res.panic p) = Res.panic p := by
  intro ts
  induction ts with
  | nil => intro p; rfl
  | cons t ts ih => intro p; simp only [List.foldl, accStep, Res.bind]; exact ih p

theorem accumulate_good2 (env : Env) : ∀ (terms : List (Ct → Res Ct)) (d : Ct), d.inv env →
    Good2 env (accumulate env d terms) := by
  intro terms
  induction terms with
  | nil =>
    intro d hd
    refine ⟨?_, ?_⟩
    · intro d' h; simp [accumulate] at h; exact h ▸ hd
    · intro e s h; simp [accumulate] at h
  | cons t ts ih =>
    intro d hd
    have hstep : accumulate env d (t :: ts) = ts.foldl (accStep env) (accStep env (.ok d) t) := rfl
    rw [hstep]
    cases ht : t (mulTmp d) with
    | panic p =>
      have hs : accStep env (.ok d) t = .panic p := by simp only [accStep, Res.bind, ht]
      rw [hs, accumulate_panic_fold]; exact Good2_panic env p
    | err e x =>
      have hs : accStep env (.ok d) t = .err e d := by simp only [accStep, Res.bind, ht]
      rw [hs, accumulate_err_fold]; exact Good2_err env d e hd
    | ok tmp =>
      obtain ⟨d1, h1⟩ := addCtAssign_total env d tmp
      have i1 := (addCtAssign_ok_inv env d tmp d1 hd h1).1
      have hs : accStep env (.ok d) t = .ok d1 := by simp only [accStep, Res.bind, ht, h1]
      rw [hs]
      exact ih d1 i1

theorem dotWith_good2 (env : Env) (dst : Ct) (n : Nat) (first : Ct → Res Ct) (others : List (Ct → Res Ct))
    (hd : dst.inv env) (hf2 : ∀ d', first dst = .ok d' → d'.inv env) (hf3 : ∀ e s, first dst = .err e s → s = dst) :
    Good2 env (dotWith env dst n first others) := by
  simp only [dotWith]
  split
  · exact Good2_err env dst _ hd
  · split
    · exact Good2_err env dst _ hd
    · cases hfd : first dst with
      | panic p => simp only [Res.bind]; exact Good2_panic env p
      | err e s => simp only [Res.bind]; rw [hf3 e s hfd]; exact Good2_err env dst e hd
      | ok d1 => simp only [Res.bind]; exact accumulate_good2 env others d1 (hf2 d1 hfd)

theorem addMany_good2 (env : Env) (dst : Ct) (ins : List Ct) (hd : dst.inv env) : Good2 env (addMany env dst ins) :=
  (addMany_good env dst ins hd).to2

theorem mulMany_good2 (env : Env) (hw : WF env) (dst : Ct) (ins : List Ct) (hd : dst.inv env) :
    Good2 env (mulMany env dst ins) :=
  Good2_of env dst _ hd (fun d' h => mulManyRec_ok_inv env hw _ _ _ _ h) (fun e s h => mulManyRec_err env hw _ _ _ _ _ h)

theorem dotPtZnx_good2 (env : Env) (dst : Ct) (as : List Ct) (pt : Pt) (hd : dst.inv env) :
    Good2 env (dotPtZnx env dst as pt) := by
  match as with
  | [] => exact Good2_err env dst _ hd
  | a0 :: rest =>
    simp only [dotPtZnx]
    exact dotWith_good2 env dst _ _ _ hd (fun d' h => (mulPtZnxInto_ok_inv _ _ _ _ _ h).1)
      (fun e s h => mulPtZnxInto_err _ _ _ _ _ _ h)

theorem dotPtRnx_good2 (env : Env) (dst : Ct) (as : List Ct) (prec : Meta) (hd : dst.inv env) :
    Good2 env (dotPtRnx env dst as prec) := by
  match as with
  | [] => exact Good2_err env dst _ hd
  | a0 :: rest =>
    simp only [dotPtRnx]
    exact dotWith_good2 env dst _ _ _ hd (fun d' h => (mulPtRnxInto_ok_inv _ _ _ _ _ h).1)
      (fun e s h => mulPtRnxInto_err _ _ _ _ _ _ h)

theorem dotCstRnx_good2 (env : Env) (dst : Ct) (as : List Ct) (prec : Meta) (re im : Bool) (hd : dst.inv env) :
    Good2 env (dotCstRnx env dst as prec re im) := by
  match as with
  | [] => exact Good2_err env dst _ hd
  | a0 :: rest =>
    simp only [dotCstRnx]
    exact dotWith_good2 env dst _ _ _ hd (fun d' h => (mulCstRnx_ok_inv _ _ _ _ _ _ _ _ h).1)
      (fun e s h => mulCstRnx_err _ _ _ _ _ _ _ _ _ h)

theorem finishMul_good2 (env : Env) (dst : Ct) (p : MulP) (chk : Option Panic)
    (h : p.delta + p.budget ≤ dst.size * env.base2k) : Good2 env (finishMul dst p chk) := by
  cases chk with
  | some pn => exact Good2_panic env pn
  | none =>
    refine ⟨?_, ?_⟩
    · intro d' hh; simp only [finishMul] at hh; injection hh with hh; subst hh
      simp only [Ct.inv, Meta.effK]; omega
    · intro e s hh; simp [finishMul] at hh

theorem withPt_good2 (env : Env) (pt : Pt) (dst : Ct) (f : Res Ct) (hd : dst.inv env) (hf : Good2 env f) :
    Good2 env (withPt env pt dst f) := by
  simp only [withPt, ptBuild]
  split
  · next r hr =>
    split at hr
    · injection hr with hr; subst hr; exact Good2_err env dst _ hd
    · split at hr
      · injection hr with hr; subst hr; exact Good2_err env dst _ hd
      · cases hr
  · exact hf

theorem dotCt_good2 (env : Env) (dst : Ct) (as bs : List Ct) (hd : dst.inv env) : Good2 env (dotCt env dst as bs) := by
  have gm : ∀ a b, Good2 env (mulInto env dst a b) := fun a b =>
    Good2_of env dst _ hd (fun d' h => (mulInto_ok_inv _ _ _ _ _ h).1) (fun e s h => mulInto_err _ _ _ _ _ _ h)
  cases as with
  | nil => simp only [dotCt]; repeat' split
           all_goals exact Good2_err env dst _ hd
  | cons a0 ta =>
    cases bs with
    | nil => simp only [dotCt]; repeat' split
             all_goals exact Good2_err env dst _ hd
    | cons b0 tb =>
      simp only [dotCt]
      split
      · exact Good2_err env dst _ hd
      · split
        · exact Good2_err env dst _ hd
        · split
          · exact Good2_err env dst _ hd
          · split
            · exact gm a0 b0
            · split
              · cases hm : mulInto env dst a0 b0 with
                | panic p => simp only [Res.bind]; exact Good2_panic env p
                | err e s => simp only [Res.bind]; have := gm a0 b0; rw [hm] at this; exact this
                | ok d1 => simp only [Res.bind]; exact accumulate_good2 env _ d1 ((mulInto_ok_inv _ _ _ _ _ hm).1)
              · split
                · split
                  · apply finishMul_good2
                    simp only [Ct.maxK] at *
                    omega
                  · exact Good2_err env dst _ hd
                · exact Good2_err env dst _ hd

theorem opN_good2 (env : Env) (pool : Pool) (d : Nat) (as : List Nat) (f : Ct → List Ct → Res Ct) (hI : Inv env pool)
    (hf : ∀ cd cs, pool[d]? = some cd → getAll pool d as = some cs → Good2 env (f cd cs)) :
    (∀ pool', opN pool d as f = .ok pool' → Inv env pool') ∧
    (∀ e pool', opN pool d as f = .err e pool' → Inv env pool') := by
  simp only [opN]
  split
  · next cd cs hcd hcs =>
    obtain ⟨g2, g3⟩ := hf cd cs hcd hcs
    refine ⟨?_, ?_⟩
    · intro pool' h
      obtain ⟨c, h1, rfl⟩ := putRes_ok _ _ _ _ h
      exact Inv_set _ _ _ _ hI (g2 c h1)
    · intro e pool' h
      obtain ⟨c, h1, rfl⟩ := putRes_err _ _ _ _ _ h
      exact Inv_set _ _ _ _ hI (g3 e c h1)
  · refine ⟨?_, ?_⟩
    · intro pool' h; cases h
    · intro e pool' h; injection h with _ h; exact h ▸ hI

theorem opNN_good2 (env : Env) (pool : Pool) (d : Nat) (as bs : List Nat) (f : Ct → List Ct → List Ct → Res Ct) (hI : Inv env pool)
    (hf : ∀ cd ca cb, pool[d]? = some cd → getAll pool d as = some ca → getAll pool d bs = some cb → Good2 env (f cd ca cb)) :
    (∀ pool', opNN pool d as bs f = .ok pool' → Inv env pool') ∧
    (∀ e pool', opNN pool d as bs f = .err e pool' → Inv env pool') := by
  simp only [opNN]
  split
  · next cd ca cb hcd hca hcb =>
    obtain ⟨g2, g3⟩ := hf cd ca cb hcd hca hcb
    refine ⟨?_, ?_⟩
    · intro pool' h
      obtain ⟨c, h1, rfl⟩ := putRes_ok _ _ _ _ h
      exact Inv_set _ _ _ _ hI (g2 c h1)
    · intro e pool' h
      obtain ⟨c, h1, rfl⟩ := putRes_err _ _ _ _ _ h
      exact Inv_set _ _ _ _ hI (g3 e c h1)
  · refine ⟨?_, ?_⟩
    · intro pool' h; cases h
    · intro e pool' h; injection h with _ h; exact h ▸ hI

/-- the six composite operations: Ok and Err states fit their storage, no hypothesis -/
theorem composite_inv (env : Env) (hw : WF env) (pool : Pool) (hI : Inv env pool) (op : Op) :
    (match op with
     | .addMany .. | .mulMany .. | .dotCt .. | .dotPtZnx .. | .dotPtRnx .. | .dotCstRnx .. => True
     | _ => False) →
    (∀ pool', stepR env pool op = .ok pool' → Inv env pool') ∧
    (∀ e pool', stepR env pool op = .err e pool' → Inv env pool') := by
  have inv : ∀ (i : Nat) (c : Ct), pool[i]? = some c → c.inv env := fun i c h => hI _ (mem_of_get? _ _ _ h)
  intro hop
  cases op <;> simp only at hop <;> simp only [stepR]
  case addMany d as => exact opN_good2 env pool d as _ hI (fun cd cs hcd _ => addMany_good2 env cd cs (inv _ _ hcd))
  case mulMany d as => exact opN_good2 env pool d as _ hI (fun cd cs hcd _ => mulMany_good2 env hw cd cs (inv _ _ hcd))
  case dotCt d as bs => exact opNN_good2 env pool d as bs _ hI (fun cd ca cb hcd _ _ => dotCt_good2 env cd ca cb (inv _ _ hcd))
  case dotPtZnx d as pt =>
    exact opN_good2 env pool d as _ hI (fun cd cs hcd _ => withPt_good2 env pt cd _ (inv _ _ hcd) (dotPtZnx_good2 env cd cs pt (inv _ _ hcd)))
  case dotPtRnx d as prec => exact opN_good2 env pool d as _ hI (fun cd cs hcd _ => dotPtRnx_good2 env cd cs prec (inv _ _ hcd))
  case dotCstRnx d as prec re im =>
    exact opN_good2 env pool d as _ hI (fun cd cs hcd _ => dotCstRnx_good2 env cd cs prec re im (inv _ _ hcd))

/-- one `ok` API call preserves `log_delta + log_budget ≤ max_k` on every ciphertext of the pool -/
theorem stepR_ok_inv (env : Env) (hw : WF env) (pool pool' : Pool) (op : Op) (hI : Inv env pool)
    (h : stepR env pool op = .ok pool') : Inv env pool' := by
  cases op <;> simp only [stepR] at h
  case enc d k pt =>
    obtain ⟨cd, c, hcd, hf, rfl⟩ := op1_ok _ _ _ _ h
    exact Inv_set _ _ _ _ hI (encrypt_ok_inv _ _ _ _ _ (withPt_ok _ _ _ _ _ hf)).1
  case addCt d a b =>
    obtain ⟨cd, ca, cb, c, hcd, hca, hcb, hf, rfl⟩ := op3_ok _ _ _ _ _ _ h
    exact Inv_set _ _ _ _ hI (addCtInto_ok_inv _ _ _ _ _ hf).1
  case addCtAssign d a =>
    obtain ⟨cd, ca, c, hcd, hca, hf, rfl⟩ := op2_ok _ _ _ _ _ h
    exact Inv_set _ _ _ _ hI (addCtAssign_ok_inv _ _ _ _ (hI _ (mem_of_get? _ _ _ hcd)) hf).1
  case addPtZnx d a pt =>
    obtain ⟨cd, ca, c, hcd, hca, hf, rfl⟩ := op2_ok _ _ _ _ _ h
    exact Inv_set _ _ _ _ hI (addPtZnxInto_ok_inv _ _ _ _ _ (withPt_ok _ _ _ _ _ hf)).1
  case addPtZnxAssign d pt =>
    obtain ⟨cd, c, hcd, hf, rfl⟩ := op1_ok _ _ _ _ h
    have := ptAlign_ok _ _ _ _ (withPt_ok _ _ _ _ _ hf)
    exact Inv_set _ _ _ _ hI (this ▸ hI _ (mem_of_get? _ _ _ hcd))
  case addPtRnx d a prec =>
    obtain ⟨cd, ca, c, hcd, hca, hf, rfl⟩ := op2_ok _ _ _ _ _ h
    exact Inv_set _ _ _ _ hI (addPtRnxInto_ok_inv _ _ _ _ _ hf).1
  case addPtRnxAssign d prec =>
    obtain ⟨cd, c, hcd, hf, rfl⟩ := op1_ok _ _ _ _ h
    have := addPtRnxAssign_ok _ _ _ _ hf
    exact Inv_set _ _ _ _ hI (this ▸ hI _ (mem_of_get? _ _ _ hcd))
  case addCstRnx d a prec re im =>
    obtain ⟨cd, ca, c, hcd, hca, hf, rfl⟩ := op2_ok _ _ _ _ _ h
    exact Inv_set _ _ _ _ hI (addCstRnxInto_ok_inv _ _ _ _ _ _ _ hf).1
  case addCstRnxAssign d prec re im =>
    obtain ⟨cd, c, hcd, hf, rfl⟩ := op1_ok _ _ _ _ h
    have := addCstRnxAssign_ok _ _ _ _ _ _ hf
    exact Inv_set _ _ _ _ hI (this ▸ hI _ (mem_of_get? _ _ _ hcd))
  case addCstZnx d a k ld re im =>
    obtain ⟨cd, ca, c, hcd, hca, hf, rfl⟩ := op2_ok _ _ _ _ _ h
    exact Inv_set _ _ _ _ hI (addCstZnxIntoK_ok_inv _ _ _ _ _ _ _ _ hf).1
  case addCstZnxAssign d k ld re im =>
    obtain ⟨cd, c, hcd, hf, rfl⟩ := op1_ok _ _ _ _ h
    have := addCstZnxAssignK_ok _ _ _ _ _ _ _ hf
    exact Inv_set _ _ _ _ hI (this ▸ hI _ (mem_of_get? _ _ _ hcd))
  case neg d a =>
    obtain ⟨cd, ca, c, hcd, hca, hf, rfl⟩ := op2_ok _ _ _ _ _ h
    exact Inv_set _ _ _ _ hI (negInto_ok_inv _ _ _ _ hf).1
  case negAssign d =>
    obtain ⟨cd, c, hcd, hf, rfl⟩ := op1_ok _ _ _ _ h
    injection hf with hf
    exact Inv_set _ _ _ _ hI (hf ▸ hI _ (mem_of_get? _ _ _ hcd))
  case mul d a b =>
    obtain ⟨cd, ca, cb, c, hcd, hca, hcb, hf, rfl⟩ := op3_ok _ _ _ _ _ _ h
    exact Inv_set _ _ _ _ hI (mulInto_ok_inv _ _ _ _ _ hf).1
  case mulAssign d a =>
    obtain ⟨cd, ca, c, hcd, hca, hf, rfl⟩ := op2_ok _ _ _ _ _ h
    exact Inv_set _ _ _ _ hI (mulInto_ok_inv _ _ _ _ _ hf).1
  case square d a =>
    obtain ⟨cd, ca, c, hcd, hca, hf, rfl⟩ := op2_ok _ _ _ _ _ h
    exact Inv_set _ _ _ _ hI (squareInto_ok_inv _ _ _ _ hf).1
  case squareAssign d =>
    obtain ⟨cd, c, hcd, hf, rfl⟩ := op1_ok _ _ _ _ h
    exact Inv_set _ _ _ _ hI (squareInto_ok_inv _ _ _ _ hf).1
  case mulPtZnx d a pt =>
    obtain ⟨cd, ca, c, hcd, hca, hf, rfl⟩ := op2_ok _ _ _ _ _ h
    exact Inv_set _ _ _ _ hI (mulPtZnxInto_ok_inv _ _ _ _ _ (withPt_ok _ _ _ _ _ hf)).1
  case mulPtZnxAssign d pt =>
    obtain ⟨cd, c, hcd, hf, rfl⟩ := op1_ok _ _ _ _ h
    exact Inv_set _ _ _ _ hI (mulPtZnxInto_ok_inv _ _ _ _ _ (withPt_ok _ _ _ _ _ hf)).1
  case mulPtRnx d a prec =>
    obtain ⟨cd, ca, c, hcd, hca, hf, rfl⟩ := op2_ok _ _ _ _ _ h
    exact Inv_set _ _ _ _ hI (mulPtRnxInto_ok_inv _ _ _ _ _ hf).1
  case mulPtRnxAssign d prec =>
    obtain ⟨cd, c, hcd, hf, rfl⟩ := op1_ok _ _ _ _ h
    exact Inv_set _ _ _ _ hI (mulPtRnxInto_ok_inv _ _ _ _ _ hf).1
  case mulCstRnx d a prec re im =>
    obtain ⟨cd, ca, c, hcd, hca, hf, rfl⟩ := op2_ok _ _ _ _ _ h
    exact Inv_set _ _ _ _ hI (mulCstRnx_ok_inv _ _ _ _ _ _ _ _ hf).1
  case mulCstRnxAssign d prec re im =>
    obtain ⟨cd, c, hcd, hf, rfl⟩ := op1_ok _ _ _ _ h
    exact Inv_set _ _ _ _ hI (mulCstRnx_ok_inv _ _ _ _ _ _ _ _ hf).1
  case mulAddCt d a b =>
    obtain ⟨cd, ca, cb, c, hcd, hca, hcb, hf, rfl⟩ := op3_ok _ _ _ _ _ _ h
    exact Inv_set _ _ _ _ hI (mulAddWith_ok_inv _ _ _ _ (hI _ (mem_of_get? _ _ _ hcd)) hf).1
  case mulAddPtZnx d a pt =>
    obtain ⟨cd, ca, c, hcd, hca, hf, rfl⟩ := op2_ok _ _ _ _ _ h
    exact Inv_set _ _ _ _ hI (mulAddWith_ok_inv _ _ _ _ (hI _ (mem_of_get? _ _ _ hcd)) (withPt_ok _ _ _ _ _ hf)).1
  case mulAddPtRnx d a prec =>
    obtain ⟨cd, ca, c, hcd, hca, hf, rfl⟩ := op2_ok _ _ _ _ _ h
    exact Inv_set _ _ _ _ hI (mulAddWith_ok_inv _ _ _ _ (hI _ (mem_of_get? _ _ _ hcd)) hf).1
  case mulAddCstRnx d a prec re im =>
    obtain ⟨cd, ca, c, hcd, hca, hf, rfl⟩ := op2_ok _ _ _ _ _ h
    simp only [mulAddCstRnx] at hf
    split at hf
    · injection hf with hf
      exact Inv_set _ _ _ _ hI (hf ▸ hI _ (mem_of_get? _ _ _ hcd))
    · exact Inv_set _ _ _ _ hI (mulAddWith_ok_inv _ _ _ _ (hI _ (mem_of_get? _ _ _ hcd)) hf).1
  case mulPow2 d a bits =>
    obtain ⟨cd, ca, c, hcd, hca, hf, rfl⟩ := op2_ok _ _ _ _ _ h
    exact Inv_set _ _ _ _ hI (shiftInto_ok_inv _ _ _ _ _ hf).1
  case mulPow2Assign d bits =>
    obtain ⟨cd, c, hcd, hf, rfl⟩ := op1_ok _ _ _ _ h
    injection hf with hf
    exact Inv_set _ _ _ _ hI (hf ▸ hI _ (mem_of_get? _ _ _ hcd))
  case divPow2 d a bits =>
    obtain ⟨cd, ca, c, hcd, hca, hf, rfl⟩ := op2_ok _ _ _ _ _ h
    exact Inv_set _ _ _ _ hI (divPow2Into_ok_inv _ _ _ _ _ hf).1
  case divPow2Assign d bits =>
    obtain ⟨cd, c, hcd, hf, rfl⟩ := op1_ok _ _ _ _ h
    exact Inv_set _ _ _ _ hI (divPow2Assign_ok_inv _ _ _ _ (hI _ (mem_of_get? _ _ _ hcd)) hf).1
  case rot d a k =>
    obtain ⟨cd, ca, c, hcd, hca, hf, rfl⟩ := op2_ok _ _ _ _ _ h
    exact Inv_set _ _ _ _ hI (rotateInto_ok_inv _ _ _ _ _ hf).1
  case rotAssign d k =>
    obtain ⟨cd, c, hcd, hf, rfl⟩ := op1_ok _ _ _ _ h
    have := rotateAssign_ok _ _ _ _ hf
    exact Inv_set _ _ _ _ hI (this ▸ hI _ (mem_of_get? _ _ _ hcd))
  case conj d a =>
    obtain ⟨cd, ca, c, hcd, hca, hf, rfl⟩ := op2_ok _ _ _ _ _ h
    exact Inv_set _ _ _ _ hI (shiftInto_ok_inv _ _ _ _ _ hf).1
  case conjAssign d =>
    obtain ⟨cd, c, hcd, hf, rfl⟩ := op1_ok _ _ _ _ h
    injection hf with hf
    exact Inv_set _ _ _ _ hI (hf ▸ hI _ (mem_of_get? _ _ _ hcd))
  case rescale d k a =>
    obtain ⟨cd, ca, c, hcd, hca, hf, rfl⟩ := op2_ok _ _ _ _ _ h
    exact Inv_set _ _ _ _ hI (rescaleInto_ok_inv _ _ _ _ _ hf).1
  case rescaleAssign d k =>
    obtain ⟨cd, c, hcd, hf, rfl⟩ := op1_ok _ _ _ _ h
    exact Inv_set _ _ _ _ hI (rescaleAssign_ok_inv _ _ _ _ (hI _ (mem_of_get? _ _ _ hcd)) hf).1
  case align a b => exact alignStep_ok_inv _ _ _ _ _ hI h
  case compact d =>
    obtain ⟨cd, c, hcd, hf, rfl⟩ := op1_ok _ _ _ _ h
    exact Inv_set _ _ _ _ hI (realloc_ok_inv _ hw _ _ _ hf).1
  case realloc d size =>
    obtain ⟨cd, c, hcd, hf, rfl⟩ := op1_ok _ _ _ _ h
    exact Inv_set _ _ _ _ hI (realloc_ok_inv _ hw _ _ _ hf).1
  case compactCopy d a =>
    obtain ⟨cd, ca, c, hcd, hca, hf, rfl⟩ := op2_ok _ _ _ _ _ h
    exact Inv_set _ _ _ _ hI (compactCopy_ok_inv _ hw _ _ _ hf).1
  case setMeta d m =>
    obtain ⟨cd, c, hcd, hf, rfl⟩ := op1_ok _ _ _ _ h
    exact Inv_set _ _ _ _ hI (setMeta_ok_inv _ _ _ _ hf).1
  case dec a pt =>
    obtain ⟨cd, c, hcd, hf, rfl⟩ := op1_ok _ _ _ _ h
    have := decrypt_ok _ _ _ _ hf
    exact Inv_set _ _ _ _ hI (this ▸ hI _ (mem_of_get? _ _ _ hcd))
  case addMany d as => exact (composite_inv env hw pool hI (.addMany d as) trivial).1 pool' (by simpa only [stepR] using h)
  case mulMany d as => exact (composite_inv env hw pool hI (.mulMany d as) trivial).1 pool' (by simpa only [stepR] using h)
  case dotCt d as bs => exact (composite_inv env hw pool hI (.dotCt d as bs) trivial).1 pool' (by simpa only [stepR] using h)
  case dotPtZnx d as pt => exact (composite_inv env hw pool hI (.dotPtZnx d as pt) trivial).1 pool' (by simpa only [stepR] using h)
  case dotPtRnx d as prec => exact (composite_inv env hw pool hI (.dotPtRnx d as prec) trivial).1 pool' (by simpa only [stepR] using h)
  case dotCstRnx d as prec re im =>
    exact (composite_inv env hw pool hI (.dotCstRnx d as prec re im) trivial).1 pool' (by simpa only [stepR] using h)

theorem alignStep_no_panic (env : Env) (pool : Pool) (a b : Nat) : (alignStep env pool a b).isPanic = false := by
  simp only [alignStep, usub]
  split
  · next ca cb hca hcb =>
    split
    · simp [Res.isPanic]
    · split
      · split
        · next h => split at h <;> simp_all <;> omega
        · exact putRes_no_panic _ _ _ (rescaleAssign_no_panic _ _ _)
      · split
        · next h => split at h <;> simp_all <;> omega
        · exact putRes_no_panic _ _ _ (rescaleAssign_no_panic _ _ _)
  · simp [Res.isPanic]

theorem ok_no_panic {σ : Type} (s : σ) : (Res.ok s : Res σ).isPanic = false := rfl

/-- one API call does not panic when the state fits its storage and multiplication operands hold a value -/
theorem stepR_no_panic (env : Env) (hw : WF env) (pool : Pool) (op : Op) (hI : Inv env pool)
    (hs : Initialised env pool op) : (stepR env pool op).isPanic = false := by
  have inv : ∀ (i : Nat) (c : Ct), pool[i]? = some c → c.inv env := fun i c h => hI _ (mem_of_get? _ _ _ h)
  cases op <;> simp only [stepR] <;> simp only [Initialised] at hs
  case enc d k pt => exact op1_no_panic _ _ _ (fun _ _ => withPt_no_panic _ _ _ _ (encrypt_no_panic _ _ _ _))
  case addCt d a b => exact op3_no_panic _ _ _ _ _ (fun _ _ _ _ _ _ => addCtInto_no_panic _ _ _ _)
  case addCtAssign d a => exact op2_no_panic _ _ _ _ (fun _ _ _ _ => addCtAssign_no_panic _ _ _)
  case addPtZnx d a pt =>
    exact op2_no_panic _ _ _ _ (fun _ _ _ _ => withPt_no_panic _ _ _ _ (addPtZnxInto_no_panic _ _ _ _))
  case addPtZnxAssign d pt =>
    exact op1_no_panic _ _ _ (fun _ _ => withPt_no_panic _ _ _ _ (ptAlign_no_panic _ _ _))
  case addPtRnx d a prec => exact op2_no_panic _ _ _ _ (fun _ _ _ _ => addPtRnxInto_no_panic _ _ _ _)
  case addPtRnxAssign d prec => exact op1_no_panic _ _ _ (fun _ _ => addPtRnxAssign_no_panic _ _ _)
  case addCstRnx d a prec re im => exact op2_no_panic _ _ _ _ (fun _ _ _ _ => addCstRnxInto_no_panic _ _ _ _ _ _)
  case addCstRnxAssign d prec re im => exact op1_no_panic _ _ _ (fun _ _ => addCstRnxAssign_no_panic _ _ _ _ _)
  case addCstZnx d a k ld re im => exact op2_no_panic _ _ _ _ (fun _ _ _ _ => addCstZnxIntoK_no_panic _ _ _ _ _ _ _)
  case addCstZnxAssign d k ld re im => exact op1_no_panic _ _ _ (fun _ _ => addCstZnxAssignK_no_panic _ _ _ _ _ _)
  case neg d a => exact op2_no_panic _ _ _ _ (fun _ _ _ _ => negInto_no_panic _ _ _)
  case negAssign d => exact op1_no_panic _ _ _ (fun _ _ => ok_no_panic _)
  case mul d a b =>
    exact op3_no_panic _ _ _ _ _ (fun _ ca cb _ hca hcb =>
      mulInto_no_panic _ hw _ _ _ (inv _ _ hca) (inv _ _ hcb) (hs.1 ca hca) (hs.2 cb hcb))
  case mulAssign d a =>
    exact op2_no_panic _ _ _ _ (fun cd ca hcd hca =>
      mulInto_no_panic _ hw _ _ _ (inv _ _ hcd) (inv _ _ hca) (hs.1 cd hcd) (hs.2 ca hca))
  case square d a =>
    exact op2_no_panic _ _ _ _ (fun _ ca _ hca => squareInto_no_panic _ hw _ _ (inv _ _ hca) (hs ca hca))
  case squareAssign d =>
    exact op1_no_panic _ _ _ (fun cd hcd => squareInto_no_panic _ hw _ _ (inv _ _ hcd) (hs cd hcd))
  case mulPtZnx d a pt =>
    exact op2_no_panic _ _ _ _ (fun _ ca _ hca =>
      withPt_no_panic _ _ _ _ (mulPtZnxInto_no_panic _ hw _ _ _ (inv _ _ hca) (hs ca hca)))
  case mulPtZnxAssign d pt =>
    exact op1_no_panic _ _ _ (fun cd hcd =>
      withPt_no_panic _ _ _ _ (mulPtZnxInto_no_panic _ hw _ _ _ (inv _ _ hcd) (hs cd hcd)))
  case mulPtRnx d a prec =>
    exact op2_no_panic _ _ _ _ (fun _ ca _ hca => mulPtRnxInto_no_panic _ hw _ _ _ (inv _ _ hca) (hs ca hca))
  case mulPtRnxAssign d prec =>
    exact op1_no_panic _ _ _ (fun cd hcd => mulPtRnxInto_no_panic _ hw _ _ _ (inv _ _ hcd) (hs cd hcd))
  case mulCstRnx d a prec re im =>
    exact op2_no_panic _ _ _ _ (fun _ ca _ hca => mulCstRnx_no_panic _ hw _ _ _ _ _ _ (inv _ _ hca))
  case mulCstRnxAssign d prec re im =>
    exact op1_no_panic _ _ _ (fun cd hcd => mulCstRnx_no_panic _ hw _ _ _ _ _ _ (inv _ _ hcd))
  case mulAddCt d a b =>
    exact op3_no_panic _ _ _ _ _ (fun _ ca cb _ hca hcb =>
      mulAddWith_no_panic _ _ _ (mulInto_no_panic _ hw _ _ _ (inv _ _ hca) (inv _ _ hcb) (hs.1 ca hca) (hs.2 cb hcb)))
  case mulAddPtZnx d a pt =>
    exact op2_no_panic _ _ _ _ (fun _ ca _ hca =>
      withPt_no_panic _ _ _ _ (mulAddWith_no_panic _ _ _ (mulPtZnxInto_no_panic _ hw _ _ _ (inv _ _ hca) (hs ca hca))))
  case mulAddPtRnx d a prec =>
    exact op2_no_panic _ _ _ _ (fun _ ca _ hca =>
      mulAddWith_no_panic _ _ _ (mulPtRnxInto_no_panic _ hw _ _ _ (inv _ _ hca) (hs ca hca)))
  case mulAddCstRnx d a prec re im =>
    refine op2_no_panic _ _ _ _ (fun cd ca _ hca => ?_)
    simp only [mulAddCstRnx]
    split
    · rfl
    · exact mulAddWith_no_panic _ _ _ (mulCstRnx_no_panic _ hw _ _ _ _ _ _ (inv _ _ hca))
  case mulPow2 d a bits => exact op2_no_panic _ _ _ _ (fun _ _ _ _ => shiftInto_no_panic _ _ _ _)
  case mulPow2Assign d bits => exact op1_no_panic _ _ _ (fun _ _ => ok_no_panic _)
  case divPow2 d a bits => exact op2_no_panic _ _ _ _ (fun _ _ _ _ => divPow2Into_no_panic _ _ _ _)
  case divPow2Assign d bits => exact op1_no_panic _ _ _ (fun _ _ => divPow2Assign_no_panic _ _ _)
  case rot d a k => exact op2_no_panic _ _ _ _ (fun _ _ _ _ => rotateInto_no_panic _ _ _ _)
  case rotAssign d k => exact op1_no_panic _ _ _ (fun _ _ => rotateAssign_no_panic _ _ _)
  case conj d a => exact op2_no_panic _ _ _ _ (fun _ _ _ _ => shiftInto_no_panic _ _ _ _)
  case conjAssign d => exact op1_no_panic _ _ _ (fun _ _ => ok_no_panic _)
  case rescale d k a => exact op2_no_panic _ _ _ _ (fun _ _ _ _ => rescaleInto_no_panic _ _ _ _)
  case rescaleAssign d k => exact op1_no_panic _ _ _ (fun _ _ => rescaleAssign_no_panic _ _ _)
  case align a b => exact alignStep_no_panic _ _ _ _
  case compact d => exact op1_no_panic _ _ _ (fun _ _ => realloc_no_panic _ _ _)
  case realloc d size => exact op1_no_panic _ _ _ (fun _ _ => realloc_no_panic _ _ _)
  case compactCopy d a => exact op2_no_panic _ _ _ _ (fun _ ca _ hca => compactCopy_no_panic _ hw _ _ (inv _ _ hca))
  case setMeta d m => exact op1_no_panic _ _ _ (fun _ _ => setMeta_no_panic _ _ _)
  case dec a pt => exact op1_no_panic _ _ _ (fun _ _ => decrypt_no_panic _ _ _)
  case addMany d as => exact (opN_good env pool d as _ hI (fun cd cs hcd _ => addMany_good env cd cs (inv _ _ hcd))).1
  case mulMany d as =>
    refine (opN_good env pool d as _ hI (fun cd cs hcd hcs => mulMany_good env hw cd cs (inv _ _ hcd) ?_)).1
    intro c hc
    exact ⟨hI c (getAll_mem pool d as cs hcs c hc), getAll_prop pool d _ as cs hcs hs c hc⟩
  case dotCt d as bs =>
    refine (opNN_good env pool d as bs _ hI (fun cd ca cb hcd hca hcb => dotCt_good env hw cd ca cb (inv _ _ hcd) ?_ ?_)).1
    · intro c hc; exact ⟨hI c (getAll_mem pool d as ca hca c hc), getAll_prop pool d _ as ca hca hs.1 c hc⟩
    · intro c hc; exact ⟨hI c (getAll_mem pool d bs cb hcb c hc), getAll_prop pool d _ bs cb hcb hs.2 c hc⟩
  case dotPtZnx d as pt =>
    refine (opN_good env pool d as _ hI (fun cd cs hcd hcs =>
      withPt_good env pt cd _ (inv _ _ hcd) (dotPtZnx_good env hw cd cs pt (inv _ _ hcd) ?_))).1
    intro c hc; exact ⟨hI c (getAll_mem pool d as cs hcs c hc), getAll_prop pool d _ as cs hcs hs c hc⟩
  case dotPtRnx d as prec =>
    refine (opN_good env pool d as _ hI (fun cd cs hcd hcs => dotPtRnx_good env hw cd cs prec (inv _ _ hcd) ?_)).1
    intro c hc; exact ⟨hI c (getAll_mem pool d as cs hcs c hc), getAll_prop pool d _ as cs hcs hs c hc⟩
  case dotCstRnx d as prec re im =>
    refine (opN_good env pool d as _ hI (fun cd cs hcd hcs => dotCstRnx_good env hw cd cs prec re im (inv _ _ hcd) ?_)).1
    intro c hc; exact hI c (getAll_mem pool d as cs hcs c hc)

/-! ## programs -/

/-- `P` holds at every state the run reaches (as long as the calls return Ok) -/
def Along (P : Env → Pool → Op → Prop) (env : Env) : Pool → List Op → Prop
  | _, [] => True
  | s, op :: rest => P env s op ∧ ∀ s', stepR env s op = .ok s' → Along P env s' rest

theorem run_ok_inv (env : Env) (hw : WF env) (prog : List Op) :
    ∀ (s s' : Pool), Inv env s → run env s prog = .ok s' → Inv env s' := by
  induction prog with
  | nil => intro s s' hI h; simp only [run] at h; injection h with h; exact h ▸ hI
  | cons op rest ih =>
    intro s s' hI h
    simp only [run] at h
    split at h
    · next s1 hs1 => exact ih s1 s' (stepR_ok_inv env hw s s1 op hI hs1) h
    · next r hne =>
      cases hr : stepR env s op with
      | ok s1 => exact absurd hr (hne s1)
      | err e s1 => rw [hr] at h; cases h
      | panic p => rw [hr] at h; cases h

theorem run_no_panic (env : Env) (hw : WF env) (prog : List Op) :
    ∀ (s : Pool), Inv env s → Along Initialised env s prog → (run env s prog).isPanic = false := by
  induction prog with
  | nil => intro s _ _; rfl
  | cons op rest ih =>
    intro s hI hA
    obtain ⟨h1, h2⟩ := hA
    have hp := stepR_no_panic env hw s op hI h1
    simp only [run]
    split
    · next s1 hs1 => exact ih s1 (stepR_ok_inv env hw s s1 op hI hs1) (h2 s1 hs1)
    · next r hne =>
      cases hr : stepR env s op with
      | ok s1 => exact absurd hr (hne s1)
      | err e s1 => rfl
      | panic p => rw [hr] at hp; simp [Res.isPanic] at hp

/-- an `Err` call also leaves every ciphertext of the pool within its storage -/
theorem stepR_err_inv (env : Env) (hw : WF env) (pool pool' : Pool) (op : Op) (e : Err) (hI : Inv env pool)
    (h : stepR env pool op = .err e pool') : Inv env pool' := by
  have inv : ∀ (i : Nat) (c : Ct), pool[i]? = some c → c.inv env := fun i c h => hI _ (mem_of_get? _ _ _ h)
  cases op <;> simp only [stepR] at h
  case enc d k pt =>
    rcases op1_err _ _ _ _ _ h with rfl | ⟨cd, c, hcd, hf, rfl⟩
    · exact hI
    · rcases withPt_err _ _ _ _ _ _ hf with h1 | h1
      · exact h1 ▸ Inv_set_self _ _ _ _ hI hcd
      · exact Inv_set _ _ _ _ hI (encrypt_err_inv _ _ _ _ _ _ (inv _ _ hcd) h1)
  case addCt d a b =>
    rcases op3_err _ _ _ _ _ _ _ h with rfl | ⟨cd, ca, cb, c, hcd, hca, hcb, hf, rfl⟩
    · exact hI
    · exact addCtInto_err _ _ _ _ _ _ hf ▸ Inv_set_self _ _ _ _ hI hcd
  case addCtAssign d a =>
    rcases op2_err _ _ _ _ _ _ h with rfl | ⟨cd, ca, c, hcd, hca, hf, rfl⟩
    · exact hI
    · exact absurd hf (addCtAssign_not_err _ _ _ _ _)
  case addPtZnx d a pt =>
    rcases op2_err _ _ _ _ _ _ h with rfl | ⟨cd, ca, c, hcd, hca, hf, rfl⟩
    · exact hI
    · rcases withPt_err _ _ _ _ _ _ hf with h1 | h1
      · exact h1 ▸ Inv_set_self _ _ _ _ hI hcd
      · exact Inv_set _ _ _ _ hI (addPtZnxInto_err_inv _ _ _ _ _ _ (inv _ _ hcd) h1)
  case addPtZnxAssign d pt =>
    rcases op1_err _ _ _ _ _ h with rfl | ⟨cd, c, hcd, hf, rfl⟩
    · exact hI
    · rcases withPt_err _ _ _ _ _ _ hf with h1 | h1
      · exact h1 ▸ Inv_set_self _ _ _ _ hI hcd
      · exact ptAlign_err _ _ _ _ _ h1 ▸ Inv_set_self _ _ _ _ hI hcd
  case addPtRnx d a prec =>
    rcases op2_err _ _ _ _ _ _ h with rfl | ⟨cd, ca, c, hcd, hca, hf, rfl⟩
    · exact hI
    · exact Inv_set _ _ _ _ hI (addPtRnxInto_err_inv _ _ _ _ _ _ (inv _ _ hcd) hf)
  case addPtRnxAssign d prec =>
    rcases op1_err _ _ _ _ _ h with rfl | ⟨cd, c, hcd, hf, rfl⟩
    · exact hI
    · exact addPtRnxAssign_err _ _ _ _ _ hf ▸ Inv_set_self _ _ _ _ hI hcd
  case addCstRnx d a prec re im =>
    rcases op2_err _ _ _ _ _ _ h with rfl | ⟨cd, ca, c, hcd, hca, hf, rfl⟩
    · exact hI
    · exact Inv_set _ _ _ _ hI (addCstRnxInto_err_inv _ _ _ _ _ _ _ _ (inv _ _ hcd) hf)
  case addCstRnxAssign d prec re im =>
    rcases op1_err _ _ _ _ _ h with rfl | ⟨cd, c, hcd, hf, rfl⟩
    · exact hI
    · exact addCstRnxAssign_err _ _ _ _ _ _ _ hf ▸ Inv_set_self _ _ _ _ hI hcd
  case addCstZnx d a k ld re im =>
    rcases op2_err _ _ _ _ _ _ h with rfl | ⟨cd, ca, c, hcd, hca, hf, rfl⟩
    · exact hI
    · exact Inv_set _ _ _ _ hI (addCstZnxIntoK_err_inv _ _ _ _ _ _ _ _ _ (inv _ _ hcd) hf)
  case addCstZnxAssign d k ld re im =>
    rcases op1_err _ _ _ _ _ h with rfl | ⟨cd, c, hcd, hf, rfl⟩
    · exact hI
    · exact addCstZnxAssignK_err _ _ _ _ _ _ _ _ hf ▸ Inv_set_self _ _ _ _ hI hcd
  case neg d a =>
    rcases op2_err _ _ _ _ _ _ h with rfl | ⟨cd, ca, c, hcd, hca, hf, rfl⟩
    · exact hI
    · exact negInto_err _ _ _ _ _ hf ▸ Inv_set_self _ _ _ _ hI hcd
  case negAssign d =>
    rcases op1_err _ _ _ _ _ h with rfl | ⟨cd, c, hcd, hf, rfl⟩
    · exact hI
    · cases hf
  case mul d a b =>
    rcases op3_err _ _ _ _ _ _ _ h with rfl | ⟨cd, ca, cb, c, hcd, hca, hcb, hf, rfl⟩
    · exact hI
    · exact mulInto_err _ _ _ _ _ _ hf ▸ Inv_set_self _ _ _ _ hI hcd
  case mulAssign d a =>
    rcases op2_err _ _ _ _ _ _ h with rfl | ⟨cd, ca, c, hcd, hca, hf, rfl⟩
    · exact hI
    · exact mulInto_err _ _ _ _ _ _ hf ▸ Inv_set_self _ _ _ _ hI hcd
  case square d a =>
    rcases op2_err _ _ _ _ _ _ h with rfl | ⟨cd, ca, c, hcd, hca, hf, rfl⟩
    · exact hI
    · exact squareInto_err _ _ _ _ _ hf ▸ Inv_set_self _ _ _ _ hI hcd
  case squareAssign d =>
    rcases op1_err _ _ _ _ _ h with rfl | ⟨cd, c, hcd, hf, rfl⟩
    · exact hI
    · exact squareInto_err _ _ _ _ _ hf ▸ Inv_set_self _ _ _ _ hI hcd
  case mulPtZnx d a pt =>
    rcases op2_err _ _ _ _ _ _ h with rfl | ⟨cd, ca, c, hcd, hca, hf, rfl⟩
    · exact hI
    · rcases withPt_err _ _ _ _ _ _ hf with h1 | h1
      · exact h1 ▸ Inv_set_self _ _ _ _ hI hcd
      · exact mulPtZnxInto_err _ _ _ _ _ _ h1 ▸ Inv_set_self _ _ _ _ hI hcd
  case mulPtZnxAssign d pt =>
    rcases op1_err _ _ _ _ _ h with rfl | ⟨cd, c, hcd, hf, rfl⟩
    · exact hI
    · rcases withPt_err _ _ _ _ _ _ hf with h1 | h1
      · exact h1 ▸ Inv_set_self _ _ _ _ hI hcd
      · exact mulPtZnxInto_err _ _ _ _ _ _ h1 ▸ Inv_set_self _ _ _ _ hI hcd
  case mulPtRnx d a prec =>
    rcases op2_err _ _ _ _ _ _ h with rfl | ⟨cd, ca, c, hcd, hca, hf, rfl⟩
    · exact hI
    · exact mulPtRnxInto_err _ _ _ _ _ _ hf ▸ Inv_set_self _ _ _ _ hI hcd
  case mulPtRnxAssign d prec =>
    rcases op1_err _ _ _ _ _ h with rfl | ⟨cd, c, hcd, hf, rfl⟩
    · exact hI
    · exact mulPtRnxInto_err _ _ _ _ _ _ hf ▸ Inv_set_self _ _ _ _ hI hcd
  case mulCstRnx d a prec re im =>
    rcases op2_err _ _ _ _ _ _ h with rfl | ⟨cd, ca, c, hcd, hca, hf, rfl⟩
    · exact hI
    · exact mulCstRnx_err _ _ _ _ _ _ _ _ _ hf ▸ Inv_set_self _ _ _ _ hI hcd
  case mulCstRnxAssign d prec re im =>
    rcases op1_err _ _ _ _ _ h with rfl | ⟨cd, c, hcd, hf, rfl⟩
    · exact hI
    · exact mulCstRnx_err _ _ _ _ _ _ _ _ _ hf ▸ Inv_set_self _ _ _ _ hI hcd
  case mulAddCt d a b =>
    rcases op3_err _ _ _ _ _ _ _ h with rfl | ⟨cd, ca, cb, c, hcd, hca, hcb, hf, rfl⟩
    · exact hI
    · exact mulAddWith_err _ _ _ _ _ hf ▸ Inv_set_self _ _ _ _ hI hcd
  case mulAddPtZnx d a pt =>
    rcases op2_err _ _ _ _ _ _ h with rfl | ⟨cd, ca, c, hcd, hca, hf, rfl⟩
    · exact hI
    · rcases withPt_err _ _ _ _ _ _ hf with h1 | h1
      · exact h1 ▸ Inv_set_self _ _ _ _ hI hcd
      · exact mulAddWith_err _ _ _ _ _ h1 ▸ Inv_set_self _ _ _ _ hI hcd
  case mulAddPtRnx d a prec =>
    rcases op2_err _ _ _ _ _ _ h with rfl | ⟨cd, ca, c, hcd, hca, hf, rfl⟩
    · exact hI
    · exact mulAddWith_err _ _ _ _ _ hf ▸ Inv_set_self _ _ _ _ hI hcd
  case mulAddCstRnx d a prec re im =>
    rcases op2_err _ _ _ _ _ _ h with rfl | ⟨cd, ca, c, hcd, hca, hf, rfl⟩
    · exact hI
    · simp only [mulAddCstRnx] at hf
      split at hf
      · cases hf
      · exact mulAddWith_err _ _ _ _ _ hf ▸ Inv_set_self _ _ _ _ hI hcd
  case mulPow2 d a bits =>
    rcases op2_err _ _ _ _ _ _ h with rfl | ⟨cd, ca, c, hcd, hca, hf, rfl⟩
    · exact hI
    · exact shiftInto_err _ _ _ _ _ _ hf ▸ Inv_set_self _ _ _ _ hI hcd
  case mulPow2Assign d bits =>
    rcases op1_err _ _ _ _ _ h with rfl | ⟨cd, c, hcd, hf, rfl⟩
    · exact hI
    · cases hf
  case divPow2 d a bits =>
    rcases op2_err _ _ _ _ _ _ h with rfl | ⟨cd, ca, c, hcd, hca, hf, rfl⟩
    · exact hI
    · exact divPow2Into_err _ _ _ _ _ _ hf ▸ Inv_set_self _ _ _ _ hI hcd
  case divPow2Assign d bits =>
    rcases op1_err _ _ _ _ _ h with rfl | ⟨cd, c, hcd, hf, rfl⟩
    · exact hI
    · exact divPow2Assign_err _ _ _ _ _ hf ▸ Inv_set_self _ _ _ _ hI hcd
  case rot d a k =>
    rcases op2_err _ _ _ _ _ _ h with rfl | ⟨cd, ca, c, hcd, hca, hf, rfl⟩
    · exact hI
    · exact rotateInto_err _ _ _ _ _ _ hf ▸ Inv_set_self _ _ _ _ hI hcd
  case rotAssign d k =>
    rcases op1_err _ _ _ _ _ h with rfl | ⟨cd, c, hcd, hf, rfl⟩
    · exact hI
    · exact rotateAssign_err _ _ _ _ _ hf ▸ Inv_set_self _ _ _ _ hI hcd
  case conj d a =>
    rcases op2_err _ _ _ _ _ _ h with rfl | ⟨cd, ca, c, hcd, hca, hf, rfl⟩
    · exact hI
    · exact shiftInto_err _ _ _ _ _ _ hf ▸ Inv_set_self _ _ _ _ hI hcd
  case conjAssign d =>
    rcases op1_err _ _ _ _ _ h with rfl | ⟨cd, c, hcd, hf, rfl⟩
    · exact hI
    · cases hf
  case rescale d k a =>
    rcases op2_err _ _ _ _ _ _ h with rfl | ⟨cd, ca, c, hcd, hca, hf, rfl⟩
    · exact hI
    · exact rescaleInto_err _ _ _ _ _ _ hf ▸ Inv_set_self _ _ _ _ hI hcd
  case rescaleAssign d k =>
    rcases op1_err _ _ _ _ _ h with rfl | ⟨cd, c, hcd, hf, rfl⟩
    · exact hI
    · exact rescaleAssign_err _ _ _ _ _ hf ▸ Inv_set_self _ _ _ _ hI hcd
  case align a b => exact alignStep_err_inv _ _ _ _ _ _ hI h
  case compact d =>
    rcases op1_err _ _ _ _ _ h with rfl | ⟨cd, c, hcd, hf, rfl⟩
    · exact hI
    · exact realloc_err _ _ _ _ _ hf ▸ Inv_set_self _ _ _ _ hI hcd
  case realloc d size =>
    rcases op1_err _ _ _ _ _ h with rfl | ⟨cd, c, hcd, hf, rfl⟩
    · exact hI
    · exact realloc_err _ _ _ _ _ hf ▸ Inv_set_self _ _ _ _ hI hcd
  case compactCopy d a =>
    rcases op2_err _ _ _ _ _ _ h with rfl | ⟨cd, ca, c, hcd, hca, hf, rfl⟩
    · exact hI
    · exact absurd hf (compactCopy_not_err _ _ _ _ _)
  case setMeta d m =>
    rcases op1_err _ _ _ _ _ h with rfl | ⟨cd, c, hcd, hf, rfl⟩
    · exact hI
    · exact setMeta_err _ _ _ _ _ hf ▸ Inv_set_self _ _ _ _ hI hcd
  case dec a pt =>
    rcases op1_err _ _ _ _ _ h with rfl | ⟨cd, c, hcd, hf, rfl⟩
    · exact hI
    · exact decrypt_err _ _ _ _ _ hf ▸ Inv_set_self _ _ _ _ hI hcd
  case addMany d as => exact (composite_inv env hw pool hI (.addMany d as) trivial).2 e pool' (by simpa only [stepR] using h)
  case mulMany d as => exact (composite_inv env hw pool hI (.mulMany d as) trivial).2 e pool' (by simpa only [stepR] using h)
  case dotCt d as bs => exact (composite_inv env hw pool hI (.dotCt d as bs) trivial).2 e pool' (by simpa only [stepR] using h)
  case dotPtZnx d as pt => exact (composite_inv env hw pool hI (.dotPtZnx d as pt) trivial).2 e pool' (by simpa only [stepR] using h)
  case dotPtRnx d as prec => exact (composite_inv env hw pool hI (.dotPtRnx d as prec) trivial).2 e pool' (by simpa only [stepR] using h)
  case dotCstRnx d as prec re im =>
    exact (composite_inv env hw pool hI (.dotCstRnx d as prec re im) trivial).2 e pool' (by simpa only [stepR] using h)

/-- the run of a caller that handles errors and goes on: an `Err` call is skipped, the state it
leaves is kept; only a panic ends the run -/
theorem runC_inv (env : Env) (hw : WF env) (prog : List Op) :
    ∀ (s s' : Pool), Inv env s → runC env s prog = .ok s' → Inv env s' := by
  induction prog with
  | nil => intro s s' hI h; simp only [runC] at h; injection h with h; exact h ▸ hI
  | cons op rest ih =>
    intro s s' hI h
    simp only [runC] at h
    split at h
    · next s1 hs1 => exact ih s1 s' (stepR_ok_inv env hw s s1 op hI hs1) h
    · next e s1 hs1 => exact ih s1 s' (stepR_err_inv env hw s s1 op e hI hs1) h
    · cases h

/-- `P` holds at every state the error-tolerant run reaches -/
def AlongC (P : Env → Pool → Op → Prop) (env : Env) : Pool → List Op → Prop
  | _, [] => True
  | s, op :: rest => P env s op ∧ ∀ s', (stepR env s op = .ok s' ∨ ∃ e, stepR env s op = .err e s') → AlongC P env s' rest

theorem runC_no_panic (env : Env) (hw : WF env) (prog : List Op) :
    ∀ (s : Pool), Inv env s → AlongC Initialised env s prog → (runC env s prog).isPanic = false := by
  induction prog with
  | nil => intro s _ _; rfl
  | cons op rest ih =>
    intro s hI hA
    obtain ⟨h1, h2⟩ := hA
    have hp := stepR_no_panic env hw s op hI h1
    simp only [runC]
    split
    · next s1 hs1 => exact ih s1 (stepR_ok_inv env hw s s1 op hI hs1) (h2 s1 (Or.inl hs1))
    · next e s1 hs1 => exact ih s1 (stepR_err_inv env hw s s1 op e hI hs1) (h2 s1 (Or.inr ⟨e, hs1⟩))
    · next p hs1 => rw [hs1] at hp; simp [Res.isPanic] at hp


end Ckks
