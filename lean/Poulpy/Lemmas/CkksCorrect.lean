import Poulpy.Lemmas.CkksSize
import Poulpy.Lemmas.CkksRelin
import Poulpy.Lemmas.CkksAutNumeric
import Poulpy.Lemmas.CkksShape
/-!
# C16: `ckks_program_correct` — every admissibility side condition of a program discharged from numeric parameters

A *parameter set* fixes the radix, the ring degree, the accumulator width and the common limb count `S` of the ciphertexts.  From the
numeric well-formedness of the evaluation keys (`TskNum`, `AtkNum`: the key relation with noise at most `Emax`, digits at most `Kb`,
coverage of `S` limbs — statements C01/C03 make about generated keys) and numeric head-room inequalities (decided for concrete
parameters), every call the metadata model accepts is admissible (`xadm_numeric`), so `xrun_sem` applies to every accepted program.
-/

namespace Ckks
open Hal Core Core.Ops C02L Ckks.Sem Ckks.CoreSem KsDec AutoMul

/-- numeric well-formedness of the tensor key for ciphertexts of `S` limbs -/
structure TskNum (env : Env) (N S : Nat) (mk : MulKey) (s : List Poly) (Kb Emax : Int) : Prop where
  hgb : mk.tsk.base2k = env.base2k
  hgn : mk.tsk.n = N
  hci : mk.tsk.colsIn = 1
  hco : mk.tsk.colsOut = 2
  hd1 : mk.tsk.dsize = 1
  hM : ∀ j q, (mk.tsk.toPMat.entry j q).length = N
  hS : mk.tsk.dnum ≤ mk.tsk.size
  hcov1 : S ≤ mk.tsk.size
  hcov2 : S ≤ mk.tsk.dnum
  hs : s ≠ []
  hs1 : (s.getD 0 []).length = N
  hkey : ∃ EL KL : ℕ → ℕ → Poly, (∀ i r, (EL i r).length = N) ∧ (∀ i r, (KL i r).length = N) ∧
    (∀ i, i < 1 → ∀ r, r < mk.tsk.dnum →
      Gadget.val (Ks.radix N env.base2k) mk.tsk.size (Ks.keyPhase N s mk.tsk.toPMat i r) =
        Ks.ι N (([Hal.negMul (s.getD 0 []) (s.getD 0 [])] : List Poly).getD i []) * Ks.radix N env.base2k ^ (mk.tsk.size - (r + 1) * mk.tsk.dsize)
          + Ks.ι N (EL i r) + Ks.radix N env.base2k ^ mk.tsk.size * Ks.ι N (KL i r)) ∧
    (∀ i r, Hal.normInf (EL i r) ≤ Emax)
  hK0 : 0 ≤ Kb
  hK : ∀ j q, ∀ x ∈ mk.tsk.toPMat.entry j q, |x| ≤ Kb
  hE0 : 0 ≤ Emax
  hroomK : ((1 * mk.tsk.dnum : Nat) : Int) * (N * 2 ^ (env.base2k - 1) * Kb) + 3 * 2 ^ (env.base2k - 1) + 8 ≤ 2 ^ (bitsOf mk.big - 2)
  hroomMul : 2 ^ env.base2k * (4 * (S : Int) * N * 2 ^ env.base2k) + 8 ≤ 2 ^ (bitsOf mk.big - 2)

/-- the error constant of a ct × ct product between ciphertexts of `S` limbs, in units of the last limb of the result -/
def UcOf (env : Env) (N S : Nat) (mk : MulKey) (s : List Poly) (Emax : Int) : ℚ :=
  ((mulCtU N env.base2k S S S (s.getD 0 [])
    (relinU env.base2k S mk.tsk.size s ((1 : Nat) * ((mk.tsk.dnum : Nat) * (N * 2 ^ (env.base2k - 1) * Emax))) 0) : Int) : ℚ)

theorem tensorU_mono (N b : Nat) {L L' : Nat} (h : L ≤ L') (s1 : Poly) : tensorU N b L s1 ≤ tensorU N b L' s1 := by
  have hn := Hal.norm1_nonneg s1
  have hL : (L : Int) ≤ L' := by exact_mod_cast h
  have h1 : (1 : Int) + 2 * (4 * (L : Int) * N * 2 ^ b) ≤ 1 + 2 * (4 * (L' : Int) * N * 2 ^ b) := by
    have : (0 : Int) ≤ (N : Int) * 2 ^ b := by positivity
    nlinarith
  have h0 : (0 : Int) ≤ 1 + 2 * (4 * (L : Int) * N * 2 ^ b) := by positivity
  unfold tensorU
  have h2 := mul_le_mul_of_nonneg_left (mul_le_mul_of_nonneg_left h1 (show (0 : Int) ≤ 3 by norm_num)) hn
  have h3 := mul_le_mul_of_nonneg_left (mul_le_mul_of_nonneg_left h1 hn) hn
  linarith

theorem effK_pos_of_limbs {env : Env} (hb : 1 ≤ env.base2k) {c : Ct} (h : effLimbs env c ≠ 0) : 1 ≤ c.md.effK := by
  rcases Nat.eq_zero_or_pos c.md.effK with h0 | h0
  · exfalso; apply h
    unfold effLimbs divCeil
    rw [h0]
    exact Nat.div_eq_of_lt (by omega)
  · exact h0

/-- **the product contract between ciphertexts of `S` limbs, from the numeric key hypotheses** -/
theorem mulAdm_S {env : Env} (he : EnvOK env) {N S : Nat} (hN : 0 < N) {mk : MulKey} {s : List Poly} {Kb Emax : Int}
    (hp : TskNum env N S mk s Kb Emax) {dst a b : DCt} {Hd : Int} (hd : GB N env.base2k 1 Hd dst.g) (hdS : dst.g.size = S)
    (ha : DOK env N 1 a) (haS : a.g.size = S) (hb : DOK env N 1 b) (hbS : b.g.size = S) {m : Ct}
    (hm : mulInto env dst.ct a.ct b.ct = .ok m) {q : MulP} (hq : mulCtParams env dst.ct a.ct b.ct = .ok q) :
    MulAdm env N 1 s (UcOf env N S mk s Emax) dst a b (dMulInto env N mk dst a b) q := by
  obtain ⟨q', hq', _, hl1, hl2⟩ := mulInto_lims hm
  have hLb : divCeil b.md.effK env.base2k ≤ S := by
    have := hl2.1
    simp only [effLimbs, DCt.ct] at this
    omega
  have ha1 : 1 ≤ a.md.effK := effK_pos_of_limbs he.lo hl1.2
  have hhi := mulCt_hhi he.lo hq ha1
  have hroom : 2 ^ env.base2k * (4 * (divCeil b.md.effK env.base2k : Int) * N * 2 ^ env.base2k) + 8 ≤ 2 ^ (bitsOf mk.big - 2) := by
    refine le_trans ?_ hp.hroomMul
    have hL : ((divCeil b.md.effK env.base2k : Nat) : Int) ≤ S := by exact_mod_cast hLb
    have h0 : (0 : Int) ≤ (N : Int) * 2 ^ env.base2k := by positivity
    have h1 : (0 : Int) ≤ 2 ^ env.base2k := by positivity
    have h2 := mul_le_mul_of_nonneg_right hL h0
    have e1 : 4 * ((divCeil b.md.effK env.base2k : Nat) : Int) * N * 2 ^ env.base2k
        = 4 * (((divCeil b.md.effK env.base2k : Nat) : Int) * ((N : Int) * 2 ^ env.base2k)) := by ring
    have e2 : 4 * (S : Int) * N * 2 ^ env.base2k = 4 * ((S : Int) * ((N : Int) * 2 ^ env.base2k)) := by ring
    rw [e1, e2]
    have h3 := mul_le_mul_of_nonneg_left (show 4 * (((divCeil b.md.effK env.base2k : Nat) : Int) * ((N : Int) * 2 ^ env.base2k))
      ≤ 4 * ((S : Int) * ((N : Int) * 2 ^ env.base2k)) by linarith) h1
    linarith
  obtain ⟨EL, KL, hEL, hKL, hkey, hE⟩ := hp.hkey
  have hmax : max a.g.size b.g.size = S := by rw [haS, hbS]; exact Nat.max_self S
  have h := mulAdm_numeric he hN hd ha hb hm hq hhi hroom hp.hgb hp.hgn hp.hci hp.hco hp.hd1 hp.hM hp.hS
    (by rw [hmax]; exact hp.hcov1) (by rw [hmax]; exact hp.hcov2) hp.hs hp.hs1 hEL hKL hkey hp.hK0 hp.hK hp.hE0 hE hp.hroomK
  refine h.mono ?_
  unfold UcOf
  rw [hmax, hdS]
  have := tensorU_mono N env.base2k hLb (s.getD 0 [])
  have : mulCtU N env.base2k (divCeil b.md.effK env.base2k) S S (s.getD 0 [])
      (relinU env.base2k S mk.tsk.size s ((1 : Nat) * ((mk.tsk.dnum : Nat) * (N * 2 ^ (env.base2k - 1) * Emax))) 0)
      ≤ mulCtU N env.base2k S S S (s.getD 0 [])
      (relinU env.base2k S mk.tsk.size s ((1 : Nat) * ((mk.tsk.dnum : Nat) * (N * 2 ^ (env.base2k - 1) * Emax))) 0) := by
    unfold mulCtU
    have h2 : (0 : Int) ≤ 2 ^ (env.base2k * (S - S)) := by positivity
    nlinarith
  exact_mod_cast this

/-- the product contract between ciphertexts of at most `S` limbs (the temporaries of a product tree) -/
theorem mulAdm_leS {env : Env} (he : EnvOK env) {N S : Nat} (hN : 0 < N) {mk : MulKey} {s : List Poly} {Kb Emax : Int}
    (hp : TskNum env N S mk s Kb Emax) {dst a b : DCt} {Hd : Int} (hd : GB N env.base2k 1 Hd dst.g) (hdS : dst.g.size ≤ S)
    (ha : DOK env N 1 a) (haS : a.g.size ≤ S) (hb : DOK env N 1 b) (hbS : b.g.size ≤ S) {m : Ct}
    (hm : mulInto env dst.ct a.ct b.ct = .ok m) {q : MulP} (hq : mulCtParams env dst.ct a.ct b.ct = .ok q) :
    MulAdm env N 1 s (UcScaled env (UcOf env N S mk s Emax) dst.ct a.ct b.ct) dst a b (dMulInto env N mk dst a b) q := by
  obtain ⟨q', hq', _, hl1, hl2⟩ := mulInto_lims hm
  have hLb : divCeil b.md.effK env.base2k ≤ S := by
    have := hl2.1
    simp only [effLimbs, DCt.ct] at this
    omega
  have ha1 : 1 ≤ a.md.effK := effK_pos_of_limbs he.lo hl1.2
  have hhi := mulCt_hhi he.lo hq ha1
  have hroom : 2 ^ env.base2k * (4 * (divCeil b.md.effK env.base2k : Int) * N * 2 ^ env.base2k) + 8 ≤ 2 ^ (bitsOf mk.big - 2) := by
    refine le_trans ?_ hp.hroomMul
    have hL : ((divCeil b.md.effK env.base2k : Nat) : Int) ≤ S := by exact_mod_cast hLb
    have h0 : (0 : Int) ≤ (N : Int) * 2 ^ env.base2k := by positivity
    have h1 : (0 : Int) ≤ 2 ^ env.base2k := by positivity
    have h2 := mul_le_mul_of_nonneg_right hL h0
    have e1 : 4 * ((divCeil b.md.effK env.base2k : Nat) : Int) * N * 2 ^ env.base2k
        = 4 * (((divCeil b.md.effK env.base2k : Nat) : Int) * ((N : Int) * 2 ^ env.base2k)) := by ring
    have e2 : 4 * (S : Int) * N * 2 ^ env.base2k = 4 * ((S : Int) * ((N : Int) * 2 ^ env.base2k)) := by ring
    rw [e1, e2]
    have h3 := mul_le_mul_of_nonneg_left (show 4 * (((divCeil b.md.effK env.base2k : Nat) : Int) * ((N : Int) * 2 ^ env.base2k))
      ≤ 4 * ((S : Int) * ((N : Int) * 2 ^ env.base2k)) by linarith) h1
    linarith
  obtain ⟨EL, KL, hEL, hKL, hkey, hE⟩ := hp.hkey
  have hmax : max a.g.size b.g.size ≤ S := Nat.max_le.mpr ⟨haS, hbS⟩
  have h := mulAdm_numeric he hN hd ha hb hm hq hhi hroom hp.hgb hp.hgn hp.hci hp.hco hp.hd1 hp.hM hp.hS
    (hmax.trans hp.hcov1) (hmax.trans hp.hcov2) hp.hs hp.hs1 hEL hKL hkey hp.hK0 hp.hK hp.hE0 hE hp.hroomK
  refine h.mono ?_
  unfold UcScaled UcOf mulCtU relinU
  have e1 : dst.g.size - mk.tsk.size = 0 := by have := hp.hcov1; omega
  have e2 : S - mk.tsk.size = 0 := by have := hp.hcov1; omega
  have e3 : S - S = 0 := Nat.sub_self S
  simp only [e1, e2, e3, Nat.mul_zero, pow_zero, mul_one, add_zero, DCt.ct]
  have ht := tensorU_mono N env.base2k hLb (s.getD 0 [])
  have ht0 := tensorU_nonneg N env.base2k (divCeil b.md.effK env.base2k) (s.getD 0 [])
  have hs0 := snorm_nonneg 1 s
  have hG : (0 : Int) ≤ ((1 : Nat) : Int) * ((mk.tsk.dnum : Int) * ((N : Int) * 2 ^ (env.base2k - 1) * Emax)) := by
    have := hp.hE0; positivity
  have hX : (1 : Int) ≤ 2 ^ (env.base2k * (dst.g.size - max a.g.size b.g.size)) := one_le_pow₀ (by norm_num)
  have key : tensorU N env.base2k (divCeil b.md.effK env.base2k) (s.getD 0 []) * 2 ^ (env.base2k * (dst.g.size - max a.g.size b.g.size))
      + (((1 : Nat) : Int) * ((mk.tsk.dnum : Int) * ((N : Int) * 2 ^ (env.base2k - 1) * Emax)) + (1 + snorm 1 s))
      ≤ (tensorU N env.base2k S (s.getD 0 []) + (((1 : Nat) : Int) * ((mk.tsk.dnum : Int) * ((N : Int) * 2 ^ (env.base2k - 1) * Emax)) + (1 + snorm 1 s)))
        * 2 ^ (env.base2k * (dst.g.size - max a.g.size b.g.size)) := by
    have hX0 : (0 : Int) ≤ 2 ^ (env.base2k * (dst.g.size - max a.g.size b.g.size)) := by positivity
    have h1 := mul_le_mul_of_nonneg_right ht hX0
    have hR : (0 : Int) ≤ ((1 : Nat) : Int) * ((mk.tsk.dnum : Int) * ((N : Int) * 2 ^ (env.base2k - 1) * Emax)) + (1 + snorm 1 s) := by linarith
    have h2 := mul_le_mul_of_nonneg_left hX hR
    nlinarith
  exact_mod_cast key

theorem UcOf_nonneg {env : Env} {N S : Nat} {mk : MulKey} {s : List Poly} {Emax : Int} (hE : 0 ≤ Emax) : 0 ≤ UcOf env N S mk s Emax := by
  unfold UcOf mulCtU relinU
  have h1 := tensorU_nonneg N env.base2k S (s.getD 0 [])
  have h2 := snorm_nonneg 1 s
  have : (0 : Int) ≤ tensorU N env.base2k S (s.getD 0 []) * 2 ^ (env.base2k * (S - S))
      + (((1 : Nat) * ((mk.tsk.dnum : Nat) * (N * 2 ^ (env.base2k - 1) * Emax)) + 0) * 2 ^ (env.base2k * (S - mk.tsk.size)) + (1 + snorm 1 s)) := by
    positivity
  exact_mod_cast this

/-! ### automorphism keys -/

/-- numeric well-formedness of the automorphism keys for ciphertexts of `S` limbs, with one error constant `Ua` -/
structure AtkNum (env : Env) (N S : Nat) (big : Bool) (ak : AutKeys) (s : List Poly) (Kb Emax : Int) (Ua : ℚ) : Prop where
  hrot : ∀ k, env.rotKeys.contains k = true → ∃ key, ak.get k = some key
  hkeys : ∀ key, ((∃ k, ak.get k = some key) ∨ ak.conj = some key) → ∃ (gInv : Int) (EL KL : ℕ → ℕ → Poly),
    AutKeyNum env N 1 big key s gInv EL KL Kb Emax ∧ S ≤ key.mat.size ∧ S ≤ key.mat.rows ∧
    (((key.mat.colsIn * (key.mat.rows * (N * 2 ^ (env.base2k - 1) * Emax)) : Int) : ℚ)
      + ((1 + snorm (min 1 (s.map (σ gInv)).length) (s.map (σ gInv)) : Int) : ℚ)) ≤ Ua

theorem AutIntoAdm.mono {env : Env} {N : Nat} {big : Bool} {s : List Poly} {U U' : ℚ} {key : Ks.Key} {dst a : DCt}
    (h : AutIntoAdm env N big s U key dst a) (hU : U ≤ U') : AutIntoAdm env N big s U' key dst a := by
  obtain ⟨h1, gInv, EL, KL, Hin, Hp, h2, h3⟩ := h
  exact ⟨h1, gInv, EL, KL, Hin, Hp, fun h0 => ⟨(h2 h0).1, (h2 h0).2.trans hU⟩, fun g1 hg => ⟨(h3 g1 hg).1, (h3 g1 hg).2.trans hU⟩⟩

theorem AutAssignAdm.mono {env : Env} {N : Nat} {big : Bool} {s : List Poly} {U U' : ℚ} {key : Ks.Key} {c : DCt}
    (h : AutAssignAdm env N big s U key c) (hU : U ≤ U') : AutAssignAdm env N big s U' key c := by
  obtain ⟨h1, gInv, EL, KL, Hin, Hp, h2, h3⟩ := h
  exact ⟨h1, gInv, EL, KL, Hin, Hp, h2, h3.trans hU⟩

theorem autIntoAdm_S {env : Env} (he : EnvOK env) {N S : Nat} {big : Bool} {ak : AutKeys} {s : List Poly} {Kb Emax : Int} {Ua : ℚ}
    (hk : AtkNum env N S big ak s Kb Emax Ua) {key : Ks.Key} (hkey : (∃ k, ak.get k = some key) ∨ ak.conj = some key)
    {dst a : DCt} (hd : DOK env N 1 dst) (hdS : dst.g.size = S) (ha : DOK env N 1 a) (haS : a.g.size = S) {m : Ct}
    (hm : shiftInto env dst.ct a.ct 0 = .ok m) : AutIntoAdm env N big s Ua key dst a := by
  obtain ⟨gInv, EL, KL, hnum, hc1, hc2, hU⟩ := hk.hkeys key hkey
  have h := autIntoAdm_numeric he hd ha hm hnum (by rw [haS]; exact hc1) (by rw [haS]; exact hc2) (by rw [hdS]; exact hc1) (by rw [hdS]; exact hc2)
  refine h.mono ?_
  have e0 : dst.g.size - key.mat.size = 0 := by rw [hdS]; omega
  rw [e0, Nat.mul_zero, pow_zero, mul_one]
  exact hU

theorem autAssignAdm_S {env : Env} (he : EnvOK env) {N S : Nat} {big : Bool} {ak : AutKeys} {s : List Poly} {Kb Emax : Int} {Ua : ℚ}
    (hk : AtkNum env N S big ak s Kb Emax Ua) {key : Ks.Key} (hkey : (∃ k, ak.get k = some key) ∨ ak.conj = some key)
    {c : DCt} (hc : DOK env N 1 c) (hcS : c.g.size = S) : AutAssignAdm env N big s Ua key c := by
  obtain ⟨gInv, EL, KL, hn, hc1, hc2, hU⟩ := hk.hkeys key hkey
  have h := autAssignAdm_numeric he hc hn.hkb hn.hd hn.hg hn.hsk hn.hinv (by rw [hc.rk, hn.hrin]) (by rw [hc.rk, hn.hrout]) hn.hc0 hn.hM hn.hS hn.hs
    hn.hEL hn.hKL hn.hkey (by rw [hcS]; exact hc1) (by rw [hcS]; exact hc2) hn.hK0 hn.hK hn.hE0 hn.hE hn.hroom
  refine h.mono ?_
  rw [hc.rk]
  exact hU

/-! ### the calls -/

/-- what a call needs of its plaintext operands (for `ckks_dot_product_ct`: that it does not take the fused path; for a conjugation: that
the conjugation key was supplied — the Rust call takes it as an argument) -/
def OpOK (env : Env) (N S : Nat) (ak : AutKeys) (P : Pool) : XOp → Prop
  | .lin op => op.PtsOK env N
  | .mulPt _ _ pt pg => PtOK env N pt pg ∧ pt.size ≤ S
  | .mulPtAssign _ pt pg => PtOK env N pt pg ∧ pt.size ≤ S
  | .mulAddPt _ _ _ pt pg => PtOK env N pt pg ∧ pt.size ≤ S
  | .dotPt _ as pt pgs => pgs.length = as.length ∧ (∀ pg ∈ pgs, PtOK env N pt pg) ∧ pt.size ≤ S
  | .dotCt d as bs => ∀ cs ds, getAll P d as = some cs → getAll P d bs = some ds → cs.length = 1 ∨ dotUniform cs ds = false
  | .conj _ _ => ∃ key, ak.conj = some key
  | .conjAssign _ => ∃ key, ak.conj = some key
  | _ => True

theorem getAll_of_dgetAll (pool : DPool) (d : Nat) : ∀ (as : List Nat) (xs : List DCt), dgetAll pool d as = some xs →
    getAll (DPool.cts pool) d as = some (xs.map DCt.ct)
  | [], xs, h => by
    simp only [dgetAll] at h; injection h with h; subst h; rfl
  | a :: as, xs, h => by
    simp only [dgetAll] at h
    split at h
    · cases h
    · next had =>
      cases hpa : pool[a]? with
      | none => simp [hpa] at h
      | some c =>
        cases hr : dgetAll pool d as with
        | none => simp [hpa, hr] at h
        | some cs =>
          simp only [hpa, hr] at h
          injection h with h; subst h
          simp only [getAll, had, if_false, cts_getElem?, hpa, Option.map_some, getAll_of_dgetAll pool d as cs hr, List.map_cons]

theorem getAll_has {P : Pool} {d : Nat} : ∀ {as : List Nat} {cs : List Ct}, getAll P d as = some cs →
    ∀ a ∈ as, ∀ c, P[a]? = some c → c ∈ cs
  | [], _, _, a, ha, _, _ => by simp at ha
  | a0 :: as, cs, h, a, ha, c, hc => by
    simp only [getAll] at h
    split at h
    · cases h
    · cases hpa : P[a0]? with
      | none => simp [hpa] at h
      | some c0 =>
        cases hr : getAll P d as with
        | none => simp [hpa, hr] at h
        | some cs0 =>
          simp only [hpa, hr] at h
          injection h with h; subst h
          rcases List.mem_cons.mp ha with rfl | ha'
          · rw [hpa] at hc; injection hc with hc; subst hc; simp
          · exact List.mem_cons_of_mem _ (getAll_has hr a ha' c hc)

theorem getAll_length {P : Pool} {d : Nat} : ∀ {as : List Nat} {cs : List Ct}, getAll P d as = some cs → cs.length = as.length
  | [], _, h => by simp only [getAll] at h; injection h with h; subst h; rfl
  | a0 :: as, cs, h => by
    simp only [getAll] at h
    split at h
    · cases h
    · cases hpa : P[a0]? with
      | none => simp [hpa] at h
      | some c0 =>
        cases hr : getAll P d as with
        | none => simp [hpa, hr] at h
        | some cs0 =>
          simp only [hpa, hr] at h
          injection h with h; subst h
          simp [getAll_length hr]

/-- every term of an accumulation that succeeded returned `Ok` on some temporary -/
theorem accumulate_terms_ok {env : Env} : ∀ (ts : List (Ct → Res Ct)) {d m : Ct}, ts.foldl (accStep env) (.ok d) = .ok m →
    ∀ t ∈ ts, ∃ d' mt, t d' = .ok mt
  | [], _, _, _, t, ht => by simp at ht
  | t0 :: ts, d, m, h, t, ht => by
    simp only [List.foldl_cons] at h
    cases h1 : accStep env (.ok d) t0 with
    | ok d1 =>
      rw [h1] at h
      rcases List.mem_cons.mp ht with rfl | ht'
      · simp only [accStep, Res.bind] at h1
        cases h2 : t (mulTmp d) with
        | ok mt => exact ⟨_, mt, h2⟩
        | err e x => rw [h2] at h1; cases h1
        | panic p => rw [h2] at h1; cases h1
      · exact accumulate_terms_ok ts h t ht'
    | err e x => rw [h1] at h; exact absurd h (accumulate_not_ok env ts (r := .err e x) (by simp) m)
    | panic p => rw [h1] at h; exact absurd h (accumulate_not_ok env ts (r := .panic p) (by simp) m)

theorem dotPtZnx_terms_ok {env : Env} {dst m : Ct} : ∀ {as : List Ct} {pt : Pt}, dotPtZnx env dst as pt = .ok m →
    ∀ a ∈ as, ∃ d' mt, mulPtZnxInto env d' a pt = .ok mt
  | [], _, h => by simp [dotPtZnx] at h
  | a0 :: rest, pt, h => by
    simp only [dotPtZnx, dotWith] at h
    split at h
    · cases h
    · split at h
      · cases h
      · cases h1 : mulPtZnxInto env dst a0 pt with
        | ok d0 =>
          rw [h1] at h
          simp only [Res.bind, accumulate] at h
          intro a ha
          rcases List.mem_cons.mp ha with rfl | ha'
          · exact ⟨dst, d0, h1⟩
          · exact accumulate_terms_ok _ h (fun t => mulPtZnxInto env t a pt) (List.mem_map.mpr ⟨a, ha', rfl⟩)
        | err e x => rw [h1] at h; simp [Res.bind] at h
        | panic p => rw [h1] at h; simp [Res.bind] at h

theorem mulPtZnx_facts {env : Env} (hb : 1 ≤ env.base2k) {dst a m : Ct} {pt : Pt} (h : mulPtZnxInto env dst a pt = .ok m) :
    env.base2k = pt.base2k ∧ 1 ≤ a.md.effK := by
  obtain ⟨h1, q, _, hchk, _⟩ := mulPtZnx_ok h
  refine ⟨h1, ?_⟩
  unfold plainCheck at hchk
  split at hchk
  · cases hchk
  · split at hchk
    · cases hchk
    · split at hchk
      · cases hchk
      · next h3 => exact effK_pos_of_limbs hb h3

theorem roomPt_mono {env : Env} {N S : Nat} {big : Bool} {pt : Pt} (h : pt.size ≤ S)
    (hroom : (S : Int) * (N * 2 ^ env.base2k * 2 ^ env.base2k) + 8 ≤ 2 ^ (bitsOf big - 2)) :
    (pt.size : Int) * (N * 2 ^ env.base2k * 2 ^ env.base2k) + 8 ≤ 2 ^ (bitsOf big - 2) := by
  refine le_trans ?_ hroom
  have h1 : (pt.size : Int) ≤ S := by exact_mod_cast h
  have h0 : (0 : Int) ≤ (N : Int) * 2 ^ env.base2k * 2 ^ env.base2k := by positivity
  have := mul_le_mul_of_nonneg_right h1 h0
  linarith

theorem pool_ct {pool : DPool} {j : Nat} {x : DCt} {c : Ct} (hx : pool[j]? = some x) (hc : (DPool.cts pool)[j]? = some c) : c = x.ct := by
  rw [cts_getElem?, hx] at hc
  injection hc with hc
  exact hc.symm

/-- **every call the metadata model accepts is admissible**, for ciphertexts of `S` limbs and numerically well-formed keys -/
theorem xadm_numeric {env : Env} (he : EnvOK env) {N S : Nat} (hN : 0 < N) {mk : MulKey} {ak : AutKeys} {s : List Poly} {Kb Emax : Int}
    {Ua : ℚ} (ht : TskNum env N S mk s Kb Emax) (hk : AtkNum env N S mk.big ak s Kb Emax Ua)
    (hroomPt : (S : Int) * (N * 2 ^ env.base2k * 2 ^ env.base2k) + 8 ≤ 2 ^ (bitsOf mk.big - 2))
    {pool : DPool} (hp : AllOK env N 1 pool) (hS : ∀ c ∈ pool, c.g.size = S) (hI : Inv env (DPool.cts pool))
    (op : XOp) (hop : OpOK env N S ak (DPool.cts pool) op)
    {mp : Pool} (hm : stepR env (DPool.cts pool) op.toOp = .ok mp) :
    XAdm env N 1 mk ak s (UcOf env N S mk s Emax) Ua pool op := by
  have sz : ∀ {j : Nat} {c : DCt}, pool[j]? = some c → c.g.size = S := fun h => hS _ (List.mem_of_getElem? h)
  cases op with
  | lin op => exact hop
  | mul d a b =>
    intro cd ca cb hd ha hb m hmi q hq
    exact mulAdm_S he hN ht (hp.get hd) (sz hd) (hp.get ha) (sz ha) (hp.get hb) (sz hb) hmi hq
  | mulAssign d a =>
    intro cd ca hd ha m hmi q hq
    exact mulAdm_S he hN ht (hp.get hd) (sz hd) (hp.get hd) (sz hd) (hp.get ha) (sz ha) hmi hq
  | square d a =>
    intro cd ca hd ha m hsq q hq
    rw [dSquareInto_eq_mul he.lo hsq]
    exact mulAdm_S he hN ht (hp.get hd) (sz hd) (hp.get ha) (sz ha) (hp.get ha) (sz ha) (mulInto_of_squareInto hsq) hq
  | squareAssign d =>
    intro cd hd m hsq q hq
    rw [dSquareInto_eq_mul he.lo hsq]
    exact mulAdm_S he hN ht (hp.get hd) (sz hd) (hp.get hd) (sz hd) (hp.get hd) (sz hd) (mulInto_of_squareInto hsq) hq
  | mulPt d a pt pg =>
    obtain ⟨cd0, ca0, m, hd0, ha0, _, hf, _⟩ := op2_ok' (show op2 _ d a (fun cd ca => withPt env pt cd (mulPtZnxInto env cd ca pt)) = .ok mp from hm)
    refine ⟨hop.1, fun cd ca hd ha q hq => ?_, roomPt_mono hop.2 hroomPt⟩
    have e2 := pool_ct ha ha0
    subst e2
    obtain ⟨hbk, ha1⟩ := mulPtZnx_facts he.lo (withPt_ok2 hf).2
    exact mulPt_hhi he.lo hbk hq ha1
  | mulPtAssign d pt pg =>
    obtain ⟨cd0, m, hd0, hf, _⟩ := op1_ok' (show op1 _ d (fun cd => withPt env pt cd (mulPtZnxInto env cd cd pt)) = .ok mp from hm)
    refine ⟨hop.1, fun cd hd q hq => ?_, roomPt_mono hop.2 hroomPt⟩
    have e2 := pool_ct hd hd0
    subst e2
    obtain ⟨hbk, ha1⟩ := mulPtZnx_facts he.lo (withPt_ok2 hf).2
    exact mulPt_hhi he.lo hbk hq ha1
  | mulAdd sub d a b =>
    intro cd ca cb hd ha hb mt hmi q hq
    have hcd := hp.get hd
    exact mulAdm_S he hN ht (tmpLike_gb hcd).1 ((tmpLike_gb hcd).2.trans (sz hd)) (hp.get ha) (sz ha) (hp.get hb) (sz hb) hmi hq
  | mulAddPt sub d a pt pg =>
    obtain ⟨cd0, ca0, m, hd0, ha0, _, hf, _⟩ := op2_ok' (show op2 _ d a (fun cd ca => withPt env pt cd (mulAddPtZnx env cd ca pt)) = .ok mp from hm)
    refine ⟨hop.1, fun cd ca hd ha q hq => ?_, roomPt_mono hop.2 hroomPt⟩
    have e2 := pool_ct ha ha0
    subst e2
    obtain ⟨mt, hpm, _⟩ := mulAddWith_ok (show mulAddWith env cd0 (fun t => mulPtZnxInto env t ca.ct pt) = .ok m from (withPt_ok2 hf).2)
    obtain ⟨hbk, ha1⟩ := mulPtZnx_facts he.lo hpm
    exact mulPt_hhi he.lo hbk hq ha1
  | addMany d as => trivial
  | mulMany d as =>
    refine ⟨S, ⟨UcScaled_nonneg (UcOf_nonneg ht.hE0), fun dd a b hdd ha hb hds has hbs mt hmi q hq => ?_⟩,
      fun cd hd => le_of_eq (sz hd), fun a _ ca hca => ⟨le_of_eq (sz hca), ?_⟩⟩
    · exact mulAdm_leS he hN ht hdd hds ha has hb hbs hmi hq
    · have hmem : ca.ct ∈ DPool.cts pool := List.mem_map.mpr ⟨ca, List.mem_of_getElem? hca, rfl⟩
      have := hI ca.ct hmem
      unfold Ct.inv at this
      have e : ca.ct.size = S := sz hca
      rw [e] at this
      exact this
  | dotCt d as bs =>
    refine ⟨fun xs ys hxs hys => ?_, fun cd hd ab hab ca cb ha hb dd hdd hds mt hmi q hq => ?_⟩
    · have := hop (xs.map DCt.ct) (ys.map DCt.ct) (getAll_of_dgetAll pool d as xs hxs) (getAll_of_dgetAll pool d bs ys hys)
      simpa using this
    · exact mulAdm_S he hN ht hdd (hds.trans (sz hd)) (hp.get ha) (sz ha) (hp.get hb) (sz hb) hmi hq
  | dotPt d as pt pgs =>
    obtain ⟨cd0, cs, m, hd0, hg, hf, _⟩ := opN_ok' (show opN _ d as (fun cd cs => withPt env pt cd (dotPtZnx env cd cs pt)) = .ok mp from hm)
    refine ⟨hop.1, hop.2.1, fun cd hd a ha ca hca res hres q hq => ?_, roomPt_mono hop.2.2 hroomPt⟩
    have hmem : ca.ct ∈ cs := getAll_has hg a ha ca.ct (by rw [cts_getElem?, hca]; rfl)
    obtain ⟨d', mt, hok⟩ := dotPtZnx_terms_ok (withPt_ok2 hf).2 ca.ct hmem
    obtain ⟨hbk, ha1⟩ := mulPtZnx_facts he.lo hok
    exact mulPt_hhi he.lo hbk hq ha1
  | rot d a k =>
    obtain ⟨cd0, ca0, m, hd0, ha0, _, hf, _⟩ := op2_ok' (show op2 _ d a (fun cd ca => rotateInto env cd ca k) = .ok mp from hm)
    have hc : env.rotKeys.contains k = true := by
      simp only [rotateInto] at hf
      split at hf
      · assumption
      · cases hf
    obtain ⟨key, hkey⟩ := hk.hrot k hc
    refine ⟨key, hkey, fun cd ca hd ha => ?_⟩
    have e1 := pool_ct hd hd0
    have e2 := pool_ct ha ha0
    subst e1; subst e2
    have hm' : shiftInto env cd.ct ca.ct 0 = .ok m := by
      simp only [rotateInto, hc, if_true] at hf
      exact hf
    exact autIntoAdm_S he hk (Or.inl ⟨k, hkey⟩) (hp.get hd) (sz hd) (hp.get ha) (sz ha) hm'
  | rotAssign d k =>
    obtain ⟨cd0, m, hd0, hf, _⟩ := op1_ok' (show op1 _ d (fun cd => rotateAssign env cd k) = .ok mp from hm)
    have hc : env.rotKeys.contains k = true := by
      simp only [rotateAssign] at hf
      split at hf
      · assumption
      · cases hf
    obtain ⟨key, hkey⟩ := hk.hrot k hc
    exact ⟨key, hkey, fun cd hd => autAssignAdm_S he hk (Or.inl ⟨k, hkey⟩) (hp.get hd) (sz hd)⟩
  | conj d a =>
    obtain ⟨cd0, ca0, m, hd0, ha0, _, hf, _⟩ := op2_ok' (show op2 _ d a (fun cd ca => mulPow2Into env cd ca 0) = .ok mp from hm)
    obtain ⟨key, hkey⟩ := (hop : ∃ key, ak.conj = some key)
    refine ⟨key, hkey, fun cd ca hd ha => ?_⟩
    have e1 := pool_ct hd hd0
    have e2 := pool_ct ha ha0
    subst e1; subst e2
    exact autIntoAdm_S he hk (Or.inr hkey) (hp.get hd) (sz hd) (hp.get ha) (sz ha) (show shiftInto env cd.ct ca.ct 0 = .ok m from hf)
  | conjAssign d =>
    obtain ⟨key, hkey⟩ := (hop : ∃ key, ak.conj = some key)
    exact ⟨key, hkey, fun cd hd => autAssignAdm_S he hk (Or.inr hkey) (hp.get hd) (sz hd)⟩

/-! ### programs -/

/-- the plaintext operands of every call are well formed where the call is executed -/
def OpsOK (env : Env) (N S : Nat) (ak : AutKeys) : Pool → List XOp → Prop
  | _, [] => True
  | P, op :: rest => OpOK env N S ak P op ∧ ∀ P', stepR env P op.toOp = .ok P' → OpsOK env N S ak P' rest

theorem sizes_all {pool : DPool} {S : Nat} : (∀ c ∈ pool, c.g.size = S) ↔ ∀ x ∈ sizes (DPool.cts pool), x = S := by
  simp only [sizes, DPool.cts, List.map_map, List.mem_map, Function.comp_def, DCt.ct]
  constructor
  · rintro h x ⟨c, hc, rfl⟩; exact h c hc
  · intro h c hc; exact h _ ⟨c, hc, rfl⟩

/-- **every accepted program is admissible** -/
theorem runAdm_numeric {env : Env} (he : EnvOK env) {N S : Nat} (hN : 0 < N) {mk : MulKey} {ak : AutKeys} {s : List Poly} {Kb Emax : Int}
    {Ua : ℚ} (hUa : 0 ≤ Ua) (ht : TskNum env N S mk s Kb Emax) (hk : AtkNum env N S mk.big ak s Kb Emax Ua)
    (hroomPt : (S : Int) * (N * 2 ^ env.base2k * 2 ^ env.base2k) + 8 ≤ 2 ^ (bitsOf mk.big - 2)) :
    ∀ (ops : List XOp) {pool : DPool}, AllOK env N 1 pool → (∀ c ∈ pool, c.g.size = S) → Inv env (DPool.cts pool) →
      OpsOK env N S ak (DPool.cts pool) ops →
      ∀ {mp : Pool}, run env (DPool.cts pool) (ops.map XOp.toOp) = .ok mp →
        RunAdm env N 1 mk ak s (UcOf env N S mk s Emax) Ua pool ops
  | [], _, _, _, _, _, _, _ => trivial
  | op :: rest, pool, hp, hS, hI, hops, mp, hm => by
    simp only [List.map_cons, run] at hm
    cases h1 : stepR env (DPool.cts pool) op.toOp with
    | ok P' =>
      rw [h1] at hm
      have hadm := xadm_numeric he hN ht hk hroomPt hp hS hI op hops.1 h1
      refine ⟨hadm, fun pool' hx => ?_⟩
      obtain ⟨pool1, e1, c1, ok1, _⟩ := xstep_sem he hN hp s (UcOf_nonneg ht.hE0) hUa op hadm h1
      have : pool1 = pool' := by
        have := e1.symm.trans hx
        injection this
      subst this
      have hS' : ∀ c ∈ pool1, c.g.size = S := by
        rw [sizes_all, c1, stepR_sizes op h1, ← sizes_all]
        exact hS
      have hI' : Inv env (DPool.cts pool1) := by rw [c1]; exact stepR_ok_inv env he.lo _ _ _ hI h1
      exact runAdm_numeric he hN hUa ht hk hroomPt rest ok1 hS' hI' (by rw [c1]; exact hops.2 P' h1) (by rw [c1]; exact hm)
    | err e P' => rw [h1] at hm; cases hm
    | panic p => rw [h1] at hm; cases hm

/-- **`ckks_program_correct`, generic form**: for ciphertexts of `S` limbs, numerically well-formed keys and the numeric head-room
of the parameter set, every program the metadata model accepts runs on the data path to the same metadata, keeps every ciphertext well
formed with balanced digits, and its tracked state (plaintext coefficients, error budget, magnitude bound) follows `xspecRun` with the
explicit constants `UcOf` and `Ua`. -/
theorem program_correct_numeric {env : Env} (he : EnvOK env) {N S : Nat} (hN : 0 < N) {mk : MulKey} {ak : AutKeys} {s : List Poly} {Kb Emax : Int}
    {Ua : ℚ} (hUa : 0 ≤ Ua) (ht : TskNum env N S mk s Kb Emax) (hk : AtkNum env N S mk.big ak s Kb Emax Ua)
    (hroomPt : (S : Int) * (N * 2 ^ env.base2k * 2 ^ env.base2k) + 8 ≤ 2 ^ (bitsOf mk.big - 2))
    (ops : List XOp) {pool : DPool} (hp : AllOK env N 1 pool) (hS : ∀ c ∈ pool, c.g.size = S) (hI : Inv env (DPool.cts pool))
    (hops : OpsOK env N S ak (DPool.cts pool) ops)
    {mp : Pool} (hm : run env (DPool.cts pool) (ops.map XOp.toOp) = .ok mp) :
    ∃ pool', xrun env N mk ak pool ops = .ok pool' ∧ DPool.cts pool' = mp ∧ AllOK env N 1 pool' ∧ (∀ c ∈ pool', c.g.size = S) ∧
      ∀ τ, TracksB s N pool τ → TracksB s N pool' (xspecRun env N ak (sn 1 s) (UcOf env N S mk s Emax) Ua (DPool.cts pool) τ ops) := by
  obtain ⟨pool', h1, h2, h3, h4⟩ := xrun_sem he hN s (UcOf_nonneg ht.hE0) hUa ops hp
    (runAdm_numeric he hN hUa ht hk hroomPt ops hp hS hI hops hm) hm
  refine ⟨pool', h1, h2, h3, ?_, h4⟩
  rw [sizes_all, h2]
  -- the metadata run keeps the limb counts
  have key : ∀ (ops : List XOp) (P : Pool) {mp : Pool}, run env P (ops.map XOp.toOp) = .ok mp → sizes mp = sizes P := by
    intro ops
    induction ops with
    | nil => intro P mp h; simp only [List.map_nil, run] at h; injection h with h; rw [h]
    | cons op rest ih =>
      intro P mp h
      simp only [List.map_cons, run] at h
      cases h1 : stepR env P op.toOp with
      | ok P' => rw [h1] at h; rw [ih P' h, stepR_sizes op h1]
      | err e P' => rw [h1] at h; cases h
      | panic p => rw [h1] at h; cases h
  rw [key ops _ hm, ← sizes_all]
  exact hS

/-! ### parameter sets: the numeric side conditions are decided -/

/-- a CKKS parameter set: radix, accumulator family (`big`: 128-bit accumulators of NTT120, else the 64-bit ones of FFT64), ring degree,
limbs per ciphertext, rows of the evaluation keys -/
structure ParamSet where
  b : Nat
  big : Bool
  N : Nat
  S : Nat
  D : Nat
deriving Repr, DecidableEq

/-- the numeric side conditions of a parameter set: radix range, and the head-room of the convolution accumulators (tensor product,
plaintext product) and of the gadget-product accumulators (relinearisation, automorphisms) for balanced key digits -/
def ParamSet.Room (p : ParamSet) : Prop :=
  1 ≤ p.b ∧ p.b ≤ 61 ∧ 0 < p.N ∧
  (2 : Int) ^ p.b * (4 * (p.S : Int) * p.N * 2 ^ p.b) + 8 ≤ 2 ^ (bitsOf p.big - 2) ∧
  (p.D : Int) * (p.N * 2 ^ (p.b - 1) * 2 ^ (p.b - 1)) + 3 * 2 ^ (p.b - 1) + 8 ≤ 2 ^ (bitsOf p.big - 2) ∧
  (p.D : Int) * (p.N * 2 ^ (p.b - 1) * 2 ^ (p.b - 1)) + (2 ^ (p.b - 1) + 2 ^ p.b) + 8 ≤ 2 ^ (bitsOf p.big - 2) ∧
  (p.S : Int) * (p.N * 2 ^ p.b * 2 ^ p.b) + 8 ≤ 2 ^ (bitsOf p.big - 2)

instance (p : ParamSet) : Decidable p.Room := by unfold ParamSet.Room; infer_instance

/-- the parameter sets of the crate's CKKS test suite (`poulpy-ckks/src/leveled/tests/test_suite/mod.rs`, `n = 256`, rank 1, `dsize = 1`):
`NTT120_PARAMS_F64` (`base2k = 52`, `k = 320`: 7 limbs, keys of 8 rows), `NTT120_PARAMS_F128` (`k = 640`: 13 limbs, 14 rows),
`FFT64_PARAMS_F64` (`base2k = 19`, `k = 152`: 8 limbs, 9 rows), and the radix 17 of the reproductions (9 limbs, 10 rows) -/
def ntt120F64 : ParamSet := ⟨52, true, 256, 7, 8⟩
def ntt120F128 : ParamSet := ⟨52, true, 256, 13, 14⟩
def fft64R19 : ParamSet := ⟨19, false, 256, 8, 9⟩
def fft64R17 : ParamSet := ⟨17, false, 256, 9, 10⟩

theorem ntt120F64_room : ntt120F64.Room := by decide
theorem ntt120F128_room : ntt120F128.Room := by decide
theorem fft64R19_room : fft64R19.Room := by decide
theorem fft64R17_room : fft64R17.Room := by decide

/-- well-formedness of the tensor key (no numeric head-room): shape, coverage of `S` limbs, at most `D` rows, balanced digits, the key
relation `Σ_j K[r][j]·s' = (s²)·2^(…) + EL r + 2^(…)·KL r` with `‖EL r‖∞ ≤ Emax` — what C01/C03 state about generated keys -/
structure TskWF (env : Env) (N S D : Nat) (mk : MulKey) (s : List Poly) (Emax : Int) : Prop where
  hgb : mk.tsk.base2k = env.base2k
  hgn : mk.tsk.n = N
  hci : mk.tsk.colsIn = 1
  hco : mk.tsk.colsOut = 2
  hd1 : mk.tsk.dsize = 1
  hM : ∀ j q, (mk.tsk.toPMat.entry j q).length = N
  hS : mk.tsk.dnum ≤ mk.tsk.size
  hD : mk.tsk.dnum ≤ D
  hcov1 : S ≤ mk.tsk.size
  hcov2 : S ≤ mk.tsk.dnum
  hs : s ≠ []
  hs1 : (s.getD 0 []).length = N
  hkey : ∃ EL KL : ℕ → ℕ → Poly, (∀ i r, (EL i r).length = N) ∧ (∀ i r, (KL i r).length = N) ∧
    (∀ i, i < 1 → ∀ r, r < mk.tsk.dnum →
      Gadget.val (Ks.radix N env.base2k) mk.tsk.size (Ks.keyPhase N s mk.tsk.toPMat i r) =
        Ks.ι N (([Hal.negMul (s.getD 0 []) (s.getD 0 [])] : List Poly).getD i []) * Ks.radix N env.base2k ^ (mk.tsk.size - (r + 1) * mk.tsk.dsize)
          + Ks.ι N (EL i r) + Ks.radix N env.base2k ^ mk.tsk.size * Ks.ι N (KL i r)) ∧
    (∀ i r, Hal.normInf (EL i r) ≤ Emax)
  hK : ∀ j q, ∀ x ∈ mk.tsk.toPMat.entry j q, |x| ≤ 2 ^ (env.base2k - 1)
  hE0 : 0 ≤ Emax

/-- well-formedness of one automorphism key (no numeric head-room) -/
structure AutKeyWF (env : Env) (N : Nat) (key : Ks.Key) (s : List Poly) (gInv : Int) (EL KL : ℕ → ℕ → Poly) (Emax : Int) : Prop where
  hkb : key.base2k = env.base2k
  hd : key.dsize = 1
  hg : GalOk key.p N
  hsk : Ks.AllLen N s
  hinv : ∀ p ∈ s, σ key.p (σ gInv p) = p
  hrin : key.rankIn = 1
  hrout : key.rankOut = 1
  hc0 : 0 < key.mat.colsOut
  hci : key.mat.colsIn = 1
  hM : ∀ j q, (key.mat.entry j q).length = N
  hS : key.mat.rows ≤ key.mat.size
  hs : key.mat.colsIn ≤ s.length
  hEL : ∀ i r, (EL i r).length = N
  hKL : ∀ i r, (KL i r).length = N
  hkey : ∀ i, i < key.mat.colsIn → ∀ r, r < key.mat.rows →
    Gadget.val (Ks.radix N key.base2k) key.mat.size (Ks.keyPhase N (s.map (σ gInv)) key.mat i r) =
      Ks.ι N (s.getD i []) * Ks.radix N key.base2k ^ (key.mat.size - (r + 1) * key.dsize) + Ks.ι N (EL i r)
        + Ks.radix N key.base2k ^ key.mat.size * Ks.ι N (KL i r)
  hK : ∀ j q, ∀ x ∈ key.mat.entry j q, |x| ≤ 2 ^ (env.base2k - 1)
  hE0 : 0 ≤ Emax
  hE : ∀ i r, Hal.normInf (EL i r) ≤ Emax

/-- well-formedness of the automorphism keys of a run: a key for every rotation the metadata model knows, each key (the conjugation key included)
well formed, of at most `D` rows, covering `S` limbs, with error constant at most `Ua` -/
structure AtkWF (env : Env) (N S D : Nat) (ak : AutKeys) (s : List Poly) (Emax : Int) (Ua : ℚ) : Prop where
  hrot : ∀ k, env.rotKeys.contains k = true → ∃ key, ak.get k = some key
  hkeys : ∀ key, ((∃ k, ak.get k = some key) ∨ ak.conj = some key) → ∃ (gInv : Int) (EL KL : ℕ → ℕ → Poly),
    AutKeyWF env N key s gInv EL KL Emax ∧ key.mat.rows ≤ D ∧ S ≤ key.mat.size ∧ S ≤ key.mat.rows ∧
    (((key.mat.colsIn * (key.mat.rows * (N * 2 ^ (env.base2k - 1) * Emax)) : Int) : ℚ)
      + ((1 + snorm (min 1 (s.map (σ gInv)).length) (s.map (σ gInv)) : Int) : ℚ)) ≤ Ua

theorem TskWF.toNum {env : Env} {p : ParamSet} (hr : p.Room) (hb : env.base2k = p.b) {mk : MulKey} (hbig : mk.big = p.big) {s : List Poly}
    {Emax : Int} (h : TskWF env p.N p.S p.D mk s Emax) : TskNum env p.N p.S mk s (2 ^ (env.base2k - 1)) Emax := by
  obtain ⟨_, _, _, r1, r2, _, _⟩ := hr
  refine ⟨h.hgb, h.hgn, h.hci, h.hco, h.hd1, h.hM, h.hS, h.hcov1, h.hcov2, h.hs, h.hs1, h.hkey, by positivity, h.hK, h.hE0, ?_, ?_⟩
  · rw [hb, hbig]
    refine le_trans ?_ r2
    have hD : (((1 * mk.tsk.dnum : Nat)) : Int) ≤ p.D := by have := h.hD; push_cast; omega
    have h0 : (0 : Int) ≤ (p.N : Int) * 2 ^ (p.b - 1) * 2 ^ (p.b - 1) := by positivity
    have := mul_le_mul_of_nonneg_right hD h0
    linarith
  · rw [hb, hbig]; exact r1

theorem AutKeyWF.toNum {env : Env} {p : ParamSet} (hr : p.Room) (hb : env.base2k = p.b) {key : Ks.Key} {s : List Poly} {gInv : Int}
    {EL KL : ℕ → ℕ → Poly} {Emax : Int} (h : AutKeyWF env p.N key s gInv EL KL Emax) (hD : key.mat.rows ≤ p.D) :
    AutKeyNum env p.N 1 p.big key s gInv EL KL (2 ^ (env.base2k - 1)) Emax := by
  obtain ⟨_, _, _, _, _, r3, _⟩ := hr
  refine ⟨h.hkb, h.hd, h.hg, h.hsk, h.hinv, h.hrin, h.hrout, h.hc0, h.hM, h.hS, h.hs, h.hEL, h.hKL, h.hkey, by positivity, h.hK, h.hE0, h.hE, ?_⟩
  rw [hb]
  refine le_trans ?_ r3
  have hD' : (((key.mat.colsIn * key.mat.rows : Nat)) : Int) ≤ p.D := by rw [h.hci]; push_cast; omega
  have h0 : (0 : Int) ≤ (p.N : Int) * 2 ^ (p.b - 1) * 2 ^ (p.b - 1) := by positivity
  have := mul_le_mul_of_nonneg_right hD' h0
  linarith

theorem AtkWF.toNum {env : Env} {p : ParamSet} (hr : p.Room) (hb : env.base2k = p.b) {ak : AutKeys} {s : List Poly} {Emax : Int} {Ua : ℚ}
    (h : AtkWF env p.N p.S p.D ak s Emax Ua) : AtkNum env p.N p.S p.big ak s (2 ^ (env.base2k - 1)) Emax Ua := by
  refine ⟨h.hrot, fun key hkey => ?_⟩
  obtain ⟨gInv, EL, KL, hwf, hD, c1, c2, hU⟩ := h.hkeys key hkey
  exact ⟨gInv, EL, KL, hwf.toNum hr hb hD, c1, c2, hU⟩

/-- **`ckks_program_correct`**: for a parameter set whose numeric side conditions hold (`ParamSet.Room`, decided for the crate's test
parameter sets: `ntt120F64_room`, `ntt120F128_room`, `fft64R19_room`, `fft64R17_room`), ciphertexts of `S` limbs and well-formed evaluation
keys, every program the metadata model accepts returns — on the data path — the metadata of the model, well-formed ciphertexts of balanced
digits, and decoded coefficients within the explicit budget `xspecRun` (constants `UcOf`, `Ua`).

What is left as hypothesis: key well-formedness (`TskWF`, `AtkWF`), well-formed plaintext operands of at most `S` limbs (`OpsOK`: the output
of the float → integer conversion and `encode`), the initial ciphertexts (`AllOK`: balanced digits; `Inv`: `log_delta + log_budget ≤ max_k`, the
invariant of §1; their tracking `TracksB` is what encryption provides), and that `ckks_dot_product_ct` is not on its fused path. -/
theorem ckks_program_correct (p : ParamSet) (hr : p.Room) {env : Env} (hb : env.base2k = p.b) {mk : MulKey} (hbig : mk.big = p.big)
    {ak : AutKeys} {s : List Poly} {Emax : Int} {Ua : ℚ} (hUa : 0 ≤ Ua)
    (ht : TskWF env p.N p.S p.D mk s Emax) (hk : AtkWF env p.N p.S p.D ak s Emax Ua)
    (ops : List XOp) {pool : DPool} (hp : AllOK env p.N 1 pool) (hS : ∀ c ∈ pool, c.g.size = p.S) (hI : Inv env (DPool.cts pool))
    (hops : OpsOK env p.N p.S ak (DPool.cts pool) ops) {mp : Pool} (hm : run env (DPool.cts pool) (ops.map XOp.toOp) = .ok mp) :
    ∃ pool', xrun env p.N mk ak pool ops = .ok pool' ∧ DPool.cts pool' = mp ∧ AllOK env p.N 1 pool' ∧ (∀ c ∈ pool', c.g.size = p.S) ∧
      ∀ τ, TracksB s p.N pool τ →
        TracksB s p.N pool' (xspecRun env p.N ak (sn 1 s) (UcOf env p.N p.S mk s Emax) Ua (DPool.cts pool) τ ops) := by
  have he : EnvOK env := ⟨by rw [hb]; exact hr.1, by rw [hb]; exact hr.2.1⟩
  have hroomPt : (p.S : Int) * (p.N * 2 ^ env.base2k * 2 ^ env.base2k) + 8 ≤ 2 ^ (bitsOf mk.big - 2) := by
    rw [hb, hbig]; exact hr.2.2.2.2.2.2
  have hkn := hk.toNum hr hb
  rw [← hbig] at hkn
  exact program_correct_numeric he hr.2.2.1 hUa (ht.toNum hr hb hbig) hkn hroomPt ops hp hS hI hops hm

end Ckks
