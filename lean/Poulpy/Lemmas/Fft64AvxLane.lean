import Poulpy.Lemmas.Fft64AvxVmpNumeric
import Poulpy.Lemmas.Fft64CnvTop

open Complex

namespace Fft64Avx
open F64 Fft64 NttMath

/-! ## the fused two-operation accumulate `re = fmsub(ar, br, fmsub(ai, bi, re))`, `im = fmadd(ai, br, fmadd(ar, bi, im))`
(`reim4_convolution_{1,2}coeffs_avx`, `reim4_vec_mat2cols(_2ndcol)_product_avx`, `reim_addmul_avx2_fma`) -/

/-- accumulator relation per slot: both components within `g` of the exact complex partial sum `S`, `‖S‖ ≤ A` -/
def Rel2 (g A : ℝ) (s : C64) (S : ℂ) : Prop :=
  CFin s ∧ |val s.1 - S.re| ≤ g ∧ |val s.2 - S.im| ≤ g ∧ ‖S‖ ≤ A

/-- accumulator recursion with a general rounding weight `ν` (`accStep` is `ν = u`) -/
noncomputable def accStepN (ν ep ap : ℝ) (x : ℝ × ℝ) : ℝ × ℝ := (x.1 + ep + ν * ((x.2 + x.1) + (ap + ep)), x.2 + ap)

noncomputable def accIterN (ν ep ap : ℝ) : Nat → ℝ × ℝ → ℝ × ℝ
  | 0, x => x
  | r + 1, x => accIterN ν ep ap r (accStepN ν ep ap x)

/-- weight of the two fused operations -/
noncomputable def ν2 : ℝ := 2 * u + u ^ 2

theorem lane_step (g A Ea Aa Eb Ab : ℝ) (hAa : 1 ≤ Aa) (hAb : 1 ≤ Ab) (hEa : 0 ≤ Ea) (hEb : 0 ≤ Eb) (hg : 0 ≤ g) (hA : 0 ≤ A)
    (hbig : (accStepN ν2 (2 * qOf Ea Aa Eb Ab + u * (Aa * Ab)) (Aa * Ab) (g, A)).2 +
      (accStepN ν2 (2 * qOf Ea Aa Eb Ab + u * (Aa * Ab)) (Aa * Ab) (g, A)).1 ≤ (2:ℝ) ^ (1000:Int))
    (s : C64) (S : ℂ) (uc vc : C64) (x y : ℂ) (hs : Rel2 g A s S)
    (hu : CFin uc ∧ ‖cval uc - x‖ ≤ Ea ∧ ‖x‖ ≤ Aa) (hv : CFin vc ∧ ‖cval vc - y‖ ≤ Eb ∧ ‖y‖ ≤ Ab) :
    Rel2 (accStepN ν2 (2 * qOf Ea Aa Eb Ab + u * (Aa * Ab)) (Aa * Ab) (g, A)).1
         (accStepN ν2 (2 * qOf Ea Aa Eb Ab + u * (Aa * Ab)) (Aa * Ab) (g, A)).2
      (caddmulLaneAvx s uc vc) (S + x * y) := by
  obtain ⟨⟨f1, f2⟩, g1, g2, an⟩ := hs
  obtain ⟨fu, eu, nu⟩ := hu
  obtain ⟨fv, ev, nv⟩ := hv
  have hu0 := u_pos
  set q := qOf Ea Aa Eb Ab with hq
  have hq0 : 0 ≤ q := by
    rw [hq]; unfold qOf
    have h1 : 0 ≤ Aa + Ea := by linarith
    have h3 : 0 ≤ Ab := by linarith
    positivity
  set ap := Aa * Ab with hap
  have hap0 : 0 ≤ ap := by rw [hap]; positivity
  have ur := le_trans (abs_re_le_norm (cval uc - x)) eu
  have ui := le_trans (abs_im_le_norm (cval uc - x)) eu
  have vr := le_trans (abs_re_le_norm (cval vc - y)) ev
  have vi := le_trans (abs_im_le_norm (cval vc - y)) ev
  simp only [Complex.sub_re, Complex.sub_im, cval_re, cval_im] at ur ui vr vi
  have nur := le_trans (abs_re_le_norm x) nu
  have nui := le_trans (abs_im_le_norm x) nu
  have nvr := le_trans (abs_re_le_norm y) nv
  have nvi := le_trans (abs_im_le_norm y) nv
  have are := le_trans (abs_re_le_norm S) an
  have aim := le_trans (abs_im_le_norm S) an
  -- first fused operation of each component
  set G1 := g + q + u * ((A + g) + (ap + q)) with hG1
  have hG10 : 0 ≤ G1 := by rw [hG1]; positivity
  set G2 := G1 + q + u * ((A + ap + G1) + (ap + q)) with hG2
  have hle : G2 ≤ (accStepN ν2 (2 * q + u * ap) ap (g, A)).1 := by
    unfold accStepN ν2; simp only
    rw [hG2, hG1]
    have t1 : 0 ≤ u * q := by positivity
    have t2 : 0 ≤ u ^ 2 * ap := by positivity
    have t3 : 0 ≤ u ^ 2 * q := by positivity
    have t4 : 0 ≤ u ^ 3 * ap := by positivity
    nlinarith
  have hsum : A + ap + G2 ≤ (2:ℝ) ^ (1000:Int) := by
    have : (accStepN ν2 (2 * q + u * ap) ap (g, A)).2 = A + ap := rfl
    rw [this] at hbig; linarith
  have hb1 : (A + g) + (ap + q) ≤ (2:ℝ) ^ (1001:Int) := by
    have h0 : (A + g) + (ap + q) ≤ A + ap + G2 := by
      rw [hG2, hG1]
      have : 0 ≤ u * ((A + g) + (ap + q)) := by positivity
      have : 0 ≤ u * ((A + ap + (g + q + u * ((A + g) + (ap + q)))) + (ap + q)) := by positivity
      linarith
    exact le_trans (le_trans h0 hsum) (two_pow_le _ _ (by norm_num))
  have hb2 : (A + ap + G1) + (ap + q) ≤ (2:ℝ) ^ (1001:Int) := by
    have h0 : (A + ap + G1) + (ap + q) ≤ 2 * (A + ap + G2) := by
      rw [hG2]
      have : 0 ≤ u * ((A + ap + G1) + (ap + q)) := by positivity
      nlinarith
    have e : (2:ℝ) ^ (1001:Int) = 2 * (2:ℝ) ^ (1000:Int) := by
      rw [show (1001:Int) = 1 + 1000 by norm_num, zpow_add₀ (by norm_num : (2:ℝ) ≠ 0)]; norm_num
    rw [e]; linarith
  -- real part
  obtain ⟨fn1, vn1⟩ := neg_spec s.1 f1
  obtain ⟨k1, e1, b1⟩ := facc_step (neg s.1) uc.2 vc.2 (-S.re) x.im y.im g A Ea Aa Eb Ab fn1 fu.2 fv.2
    (by rw [vn1]; have : -val s.1 - -S.re = -(val s.1 - S.re) := by ring
        rw [this, abs_neg]; exact g1) (by rw [abs_neg]; exact are) ui nui vi nvi hAa hAb hg hA hEa hEb hb1
  obtain ⟨fn2, vn2⟩ := neg_spec _ k1
  have hAap : 0 ≤ A + ap := by linarith
  obtain ⟨k2, e2, _⟩ := facc_step (neg (fma uc.2 vc.2 (neg s.1))) uc.1 vc.1 (-(-S.re + x.im * y.im)) x.re y.re G1 (A + ap) Ea Aa Eb Ab fn2 fu.1 fv.1
    (by rw [vn2]
        have : -val (fma uc.2 vc.2 (neg s.1)) - -(-S.re + x.im * y.im) = -(val (fma uc.2 vc.2 (neg s.1)) - (-S.re + x.im * y.im)) := by ring
        rw [this, abs_neg]; exact e1) (by rw [abs_neg]; exact b1) ur nur vr nvr hAa hAb hG10 hAap hEa hEb hb2
  -- imaginary part
  obtain ⟨k3, e3, b3⟩ := facc_step s.2 uc.1 vc.2 S.im x.re y.im g A Ea Aa Eb Ab f2 fu.1 fv.2 g2 aim ur nur vi nvi hAa hAb hg hA hEa hEb hb1
  obtain ⟨k4, e4, _⟩ := facc_step (fma uc.1 vc.2 s.2) uc.2 vc.1 (S.im + x.re * y.im) x.im y.re G1 (A + ap) Ea Aa Eb Ab k3 fu.2 fv.1
    e3 b3 ui nui vr nvr hAa hAb hG10 hAap hEa hEb hb2
  refine ⟨⟨k2, k4⟩, ?_, ?_, ?_⟩
  · refine le_trans ?_ hle
    show |val (fmsub uc.1 vc.1 (fmsub uc.2 vc.2 s.1)) - (S + x * y).re| ≤ G2
    have : (S + x * y).re = -(-S.re + x.im * y.im) + x.re * y.re := by simp [Complex.mul_re]; ring
    rw [this]; exact e2
  · refine le_trans ?_ hle
    show |val (fma uc.2 vc.1 (fma uc.1 vc.2 s.2)) - (S + x * y).im| ≤ G2
    have : (S + x * y).im = S.im + x.re * y.im + x.im * y.re := by simp [Complex.mul_im]; ring
    rw [this]; exact e4
  · show ‖S + x * y‖ ≤ A + ap
    refine le_trans (norm_add_le _ _) ?_
    rw [Complex.norm_mul]
    have : ‖x‖ * ‖y‖ ≤ Aa * Ab := mul_le_mul nu nv (norm_nonneg _) (by linarith)
    linarith

theorem ν2_nonneg : 0 ≤ ν2 := by unfold ν2; have := u_pos; positivity

theorem accStepN_mono (ν ep ap : ℝ) (hν : 0 ≤ ν) (hep : 0 ≤ ep) (hap : 0 ≤ ap) (x : ℝ × ℝ) (h1 : 0 ≤ x.1) (h2 : 0 ≤ x.2) :
    0 ≤ (accStepN ν ep ap x).1 ∧ 0 ≤ (accStepN ν ep ap x).2 ∧
    (x.2 + x.1) + (ap + ep) ≤ (accStepN ν ep ap x).2 + (accStepN ν ep ap x).1 := by
  unfold accStepN; simp only
  have : 0 ≤ ν * ((x.2 + x.1) + (ap + ep)) := by positivity
  refine ⟨by linarith, by linarith, by linarith⟩

theorem accIterN_mono (ν ep ap : ℝ) (hν : 0 ≤ ν) (hep : 0 ≤ ep) (hap : 0 ≤ ap) : ∀ (r : Nat) (x : ℝ × ℝ), 0 ≤ x.1 → 0 ≤ x.2 →
    0 ≤ (accIterN ν ep ap r x).1 ∧ 0 ≤ (accIterN ν ep ap r x).2 ∧ x.2 + x.1 ≤ (accIterN ν ep ap r x).2 + (accIterN ν ep ap r x).1 := by
  intro r
  induction r with
  | zero => intro x h1 h2; exact ⟨h1, h2, le_rfl⟩
  | succ r ih =>
    intro x h1 h2
    obtain ⟨s1, s2, s3⟩ := accStepN_mono ν ep ap hν hep hap x h1 h2
    obtain ⟨i1, i2, i3⟩ := ih (accStepN ν ep ap x) s1 s2
    refine ⟨i1, i2, ?_⟩
    show x.2 + x.1 ≤ (accIterN ν ep ap r (accStepN ν ep ap x)).2 + (accIterN ν ep ap r (accStepN ν ep ap x)).1
    linarith

theorem accIterN_snd (ν ep ap : ℝ) : ∀ (r : Nat) (x : ℝ × ℝ), (accIterN ν ep ap r x).2 = x.2 + r * ap := by
  intro r
  induction r with
  | zero => intro x; simp [accIterN]
  | succ r ih => intro x; simp only [accIterN]; rw [ih]; simp only [accStepN]; push_cast; ring

/-- slot vectors -/
def CloseL (g A : ℝ) (sc : List C64) (se : List ℂ) : Prop := List.Forall₂ (Rel2 g A) sc se

/-- per-product error of the fused lane: two product input errors and one rounding of a product-sized quantity -/
noncomputable def epL (Ea Aa Eb Ab : ℝ) : ℝ := 2 * qOf Ea Aa Eb Ab + u * (Aa * Ab)

theorem epL_nonneg (Ea Aa Eb Ab : ℝ) (hAa : 1 ≤ Aa) (hAb : 1 ≤ Ab) (hEa : 0 ≤ Ea) (hEb : 0 ≤ Eb) : 0 ≤ epL Ea Aa Eb Ab := by
  unfold epL qOf
  have := u_pos
  have h1 : 0 ≤ Aa + Ea := by linarith
  have h3 : 0 ≤ Ab := by linarith
  have h4 : 0 ≤ Aa := by linarith
  positivity

theorem closeL_row (g A Ea Aa Eb Ab : ℝ) (hAa : 1 ≤ Aa) (hAb : 1 ≤ Ab) (hEa : 0 ≤ Ea) (hEb : 0 ≤ Eb) (hg : 0 ≤ g) (hA : 0 ≤ A)
    (hbig : (accStepN ν2 (epL Ea Aa Eb Ab) (Aa * Ab) (g, A)).2 + (accStepN ν2 (epL Ea Aa Eb Ab) (Aa * Ab) (g, A)).1 ≤ (2:ℝ) ^ (1000:Int)) :
    ∀ {sc : List C64} {se : List ℂ}, CloseL g A sc se → ∀ {uc vc : List C64} {x y : List ℂ}, Close Ea Aa uc x → Close Eb Ab vc y →
    CloseL (accStepN ν2 (epL Ea Aa Eb Ab) (Aa * Ab) (g, A)).1 (accStepN ν2 (epL Ea Aa Eb Ab) (Aa * Ab) (g, A)).2
      (List.zipWith (fun s uv => caddmulLaneAvx s uv.1 uv.2) sc (uc.zip vc)) (List.zipWith (fun s uv => s + uv.1 * uv.2) se (x.zip y)) := by
  intro sc se hs
  induction hs with
  | nil => intro _ _ _ _ _ _; simp [CloseL]
  | @cons s0 e0 _ _ h0 _ ih =>
    intro uc vc x y hu hv
    cases hu with
    | nil => simp [CloseL]
    | @cons u0c u0 _ _ hu0 hut =>
      cases hv with
      | nil => simp [CloseL]
      | @cons v0c v0 _ _ hv0 hvt =>
        simp only [List.zip_cons_cons, List.zipWith_cons_cons]
        exact List.Forall₂.cons (lane_step g A Ea Aa Eb Ab hAa hAb hEa hEb hg hA hbig s0 e0 u0c v0c u0 v0 h0 hu0 hv0) (ih hut hvt)

theorem fold_closeL (Ea Aa Eb Ab : ℝ) (hAa : 1 ≤ Aa) (hAb : 1 ≤ Ab) (hEa : 0 ≤ Ea) (hEb : 0 ≤ Eb) :
    ∀ {rowsC : List (List C64 × List C64)} {rowsE : List (List ℂ × List ℂ)},
      List.Forall₂ (fun rc re => Close Ea Aa rc.1 re.1 ∧ Close Eb Ab rc.2 re.2) rowsC rowsE →
    ∀ (g A : ℝ) (sc : List C64) (se : List ℂ), 0 ≤ g → 0 ≤ A → CloseL g A sc se →
      (accIterN ν2 (epL Ea Aa Eb Ab) (Aa * Ab) rowsC.length (g, A)).2 + (accIterN ν2 (epL Ea Aa Eb Ab) (Aa * Ab) rowsC.length (g, A)).1
        ≤ (2:ℝ) ^ (1000:Int) →
      CloseL (accIterN ν2 (epL Ea Aa Eb Ab) (Aa * Ab) rowsC.length (g, A)).1 (accIterN ν2 (epL Ea Aa Eb Ab) (Aa * Ab) rowsC.length (g, A)).2
        (rowsC.foldl (fun S r => List.zipWith (fun s uv => caddmulLaneAvx s uv.1 uv.2) S (r.1.zip r.2)) sc)
        (rowsE.foldl (fun s r => List.zipWith (fun s uv => s + uv.1 * uv.2) s (r.1.zip r.2)) se) := by
  have hq := epL_nonneg Ea Aa Eb Ab hAa hAb hEa hEb
  have hap : 0 ≤ Aa * Ab := by positivity
  have hν := ν2_nonneg
  intro rowsC rowsE hrows
  induction hrows with
  | nil => intro g A sc se _ _ hc _; simpa [accIterN] using hc
  | @cons rc re _ _ hr _ ih =>
    intro g A sc se hg hA hc hfin
    simp only [List.foldl_cons, List.length_cons, accIterN]
    simp only [List.length_cons, accIterN] at hfin
    obtain ⟨s1, s2, s3⟩ := accStepN_mono ν2 _ _ hν hq hap (g, A) hg hA
    obtain ⟨_, _, i3⟩ := accIterN_mono ν2 _ _ hν hq hap _ (accStepN ν2 (epL Ea Aa Eb Ab) (Aa * Ab) (g, A)) s1 s2
    have step := closeL_row g A Ea Aa Eb Ab hAa hAb hEa hEb hg hA (le_trans i3 hfin) hc hr.1 hr.2
    exact ih _ _ _ _ s1 s2 step hfin

theorem closeL_close (g A : ℝ) (hg : 0 ≤ g) : ∀ {sc : List C64} {se : List ℂ}, CloseL g A sc se → Close (3 / 2 * g) A sc se := by
  intro sc se h
  unfold Close
  refine List.Forall₂.imp ?_ h
  intro s e ⟨f, g1, g2, an⟩
  refine ⟨f, ?_, an⟩
  apply norm_le_of_comp_abs _ _ hg
  · simpa only [Complex.sub_re, cval_re] using g1
  · simpa only [Complex.sub_im, cval_im] using g2

theorem closeL_zero (n : Nat) : CloseL 0 0 (List.replicate n ((0:Nat), (0:Nat))) (List.replicate n (0:ℂ)) := by
  have f0 : Fin64 0 := ⟨⟨false, 0, -1074⟩, by decide⟩
  have v0 : val 0 = 0 := by rw [val_of_decode (by decide : decode 0 = some ⟨false, 0, -1074⟩)]; simp [Dy.val]
  unfold CloseL
  induction n with
  | zero => simp
  | succ n ih =>
    rw [List.replicate_succ, List.replicate_succ]
    exact List.Forall₂.cons ⟨⟨f0, f0⟩, by simp [v0], by simp [v0], by simp⟩ ih

end Fft64Avx
