import Poulpy.Lemmas.NoiseAlg

/-!
The blind-rotation machine with INVARIANTS and an atomic block step: what the executed block-binary loop provides
(`BlindMachine.bbBlock_spec`).  `BrMachine` of `NoiseAlg.lean` composes a block out of `ep` / `mulXm1` / `add` / `norm` with unconditional
contracts; the executed code accumulates a block in the DFT domain and normalises once, and its contract holds for well-formed
accumulators and good key elements only.  The algebra of the run (`1 + Σ_j s_j (X^{a_j} − 1) = X^{Σ a_j s_j}` for a one-hot block, isometry
of the monomials, linear growth) is the same.
-/

namespace Noise

variable {R : Type} [CommRing R]

/-- `step c blk` = one block `acc ← normalize(acc + Σ_j (X^{a_j} − 1)·(acc ⊡ BRK_j))`; `inv` the invariant of the accumulators (shape, digit
bound), `good` what is asked of an element `(a_j, BRK_j)` of a block, `maxLen` the block length the head-room was sized for. -/
structure BlkMachine (R : Type) [CommRing R] (S : Size R) (M : Mono R S) (C G : Type) where
  ph : C → R
  step : C → List (ℤ × G) → C
  inv : C → Prop
  good : ℤ × G → Prop
  bit : G → Bool
  maxLen : ℕ
  B : ℤ
  U : ℤ
  step_spec : ∀ c blk, inv c → blk.length ≤ maxLen → (∀ x ∈ blk, good x) →
    inv (step c blk) ∧
    S.ν (ph (step c blk) - (1 + (blk.map fun x => (bitR (bit x.2) : R) * (M.X x.1 - 1)).sum) * ph c) ≤ 2 * (blk.length * B) + U

namespace BlkMachine
variable {S : Size R} {M : Mono R S} {C G : Type} (m : BlkMachine R S M C G)

def exec (acc : C) (blocks : List (List (ℤ × G))) : C := blocks.foldl m.step acc

def rotOf (blk : List (ℤ × G)) : ℤ := blkRot (blk.map fun p => (p.1, m.bit p.2))

def totalRot (blocks : List (List (ℤ × G))) : ℤ := (blocks.map m.rotOf).sum

def nBits {G : Type} (blocks : List (List (ℤ × G))) : ℕ := (blocks.map List.length).sum

/-- one block of a one-hot key multiplies the phase by `X^{Σ a_j s_j}` up to `2·len·B + U` -/
theorem blockStep_spec (acc : C) (blk : List (ℤ × G)) (hinv : m.inv acc) (hlen : blk.length ≤ m.maxLen) (hgood : ∀ x ∈ blk, m.good x)
    (h1 : OneHot (blk.map fun p => m.bit p.2)) :
    m.inv (m.step acc blk) ∧ S.ν (m.ph (m.step acc blk) - M.X (m.rotOf blk) * m.ph acc) ≤ 2 * (blk.length * m.B) + m.U := by
  obtain ⟨hi, hν⟩ := m.step_spec acc blk hinv hlen hgood
  refine ⟨hi, ?_⟩
  have hsel : 1 + (blk.map fun p => (bitR (m.bit p.2) : R) * (M.X p.1 - 1)).sum = M.X (m.rotOf blk) := by
    have := sel_onehot M (blk.map fun p => (p.1, m.bit p.2)) (by rw [List.map_map]; exact h1)
    rw [List.map_map] at this
    exact this
  rw [hsel] at hν
  exact hν

/-- **the run**: invariant kept, phase multiplied by `X^{Σ a_i s_i}` up to `2·n_lwe·B + (#blocks)·U` -/
theorem exec_spec (blocks : List (List (ℤ × G))) (acc : C) (hinv : m.inv acc)
    (hlen : ∀ blk ∈ blocks, blk.length ≤ m.maxLen) (hgood : ∀ blk ∈ blocks, ∀ x ∈ blk, m.good x)
    (hkey : ∀ blk ∈ blocks, OneHot (blk.map fun p => m.bit p.2)) :
    m.inv (m.exec acc blocks) ∧
    S.ν (m.ph (m.exec acc blocks) - M.X (m.totalRot blocks) * m.ph acc) ≤ 2 * (nBits blocks * m.B) + blocks.length * m.U := by
  induction blocks generalizing acc with
  | nil => exact ⟨hinv, by simp [exec, totalRot, nBits, M.X_zero, S.zero]⟩
  | cons blk rest ih =>
    obtain ⟨hi1, h1⟩ := m.blockStep_spec acc blk hinv (hlen blk (by simp)) (hgood blk (by simp)) (hkey blk (by simp))
    obtain ⟨hi2, h2⟩ := ih (m.step acc blk) hi1 (fun b hb => hlen b (by simp [hb])) (fun b hb => hgood b (by simp [hb]))
      (fun b hb => hkey b (by simp [hb]))
    have e : m.exec acc (blk :: rest) = m.exec (m.step acc blk) rest := rfl
    refine ⟨by rw [e]; exact hi2, ?_⟩
    have hrot : m.totalRot (blk :: rest) = m.totalRot rest + m.rotOf blk := by simp [totalRot]; ring
    have hn : (nBits (blk :: rest) : ℤ) = blk.length + nBits rest := by simp [nBits]
    rw [e, hrot, M.X_add, hn]
    have hsplit : m.ph (m.exec (m.step acc blk) rest) - M.X (m.totalRot rest) * M.X (m.rotOf blk) * m.ph acc =
        (m.ph (m.exec (m.step acc blk) rest) - M.X (m.totalRot rest) * m.ph (m.step acc blk)) +
        M.X (m.totalRot rest) * (m.ph (m.step acc blk) - M.X (m.rotOf blk) * m.ph acc) := by ring
    rw [hsplit]
    have h3 := S.add_le (m.ph (m.exec (m.step acc blk) rest) - M.X (m.totalRot rest) * m.ph (m.step acc blk))
      (M.X (m.totalRot rest) * (m.ph (m.step acc blk) - M.X (m.rotOf blk) * m.ph acc))
    rw [M.isom] at h3
    simp only [List.length_cons]
    push_cast
    nlinarith

/-- **`cbt_gives_ggsw` with noise over the block machine** (the form of `C15Noise.cbt_gives_ggsw_noise` whose blind rotation is a machine with
invariants): row `i` of the bootstrapped GGSW is the trace `T` of the blind-rotation output up to `Bt`, the cells of the columns `≥ 1` are
`s_c·row + η`, `ν η ≤ Bx`; with `msg = T(X^K·phase(acc₀))` the row is `msg` up to `Ebr + Bt` and every cell is `s_c·msg` up to
`S1·(Ebr + Bt) + Bx`, `Ebr = 2·n_lwe·B + q·U`. -/
theorem cbt_row_cell (blocks : List (List (ℤ × G))) (acc : C) (hinv : m.inv acc)
    (hlen : ∀ blk ∈ blocks, blk.length ≤ m.maxLen) (hgood : ∀ blk ∈ blocks, ∀ x ∈ blk, m.good x)
    (hkey : ∀ blk ∈ blocks, OneHot (blk.map fun p => m.bit p.2))
    (T : R → R) (hTadd : ∀ x y, T (x + y) = T x + T y) (hTle : ∀ x, S.ν (T x) ≤ S.ν x)
    (row cell s : R) (Bt Bx S1 : ℤ) (hS1 : 0 ≤ S1) (hs : ∀ x, S.ν (s * x) ≤ S1 * S.ν x)
    (hrow : S.ν (row - T (m.ph (m.exec acc blocks))) ≤ Bt) (hcell : S.ν (cell - s * row) ≤ Bx) :
    S.ν (row - T (M.X (m.totalRot blocks) * m.ph acc)) ≤ (2 * (nBits blocks * m.B) + blocks.length * m.U) + Bt ∧
    S.ν (cell - s * T (M.X (m.totalRot blocks) * m.ph acc)) ≤ S1 * ((2 * (nBits blocks * m.B) + blocks.length * m.U) + Bt) + Bx := by
  have h := (m.exec_spec blocks acc hinv hlen hgood hkey).2
  have hrowm : S.ν (row - T (M.X (m.totalRot blocks) * m.ph acc)) ≤ (2 * (nBits blocks * m.B) + blocks.length * m.U) + Bt := by
    have e : row - T (M.X (m.totalRot blocks) * m.ph acc)
        = (row - T (m.ph (m.exec acc blocks))) + T (m.ph (m.exec acc blocks) - M.X (m.totalRot blocks) * m.ph acc) := by
      have : T (m.ph (m.exec acc blocks))
          = T (M.X (m.totalRot blocks) * m.ph acc) + T (m.ph (m.exec acc blocks) - M.X (m.totalRot blocks) * m.ph acc) := by
        rw [← hTadd]; congr 1; ring
      rw [this]; ring
    rw [e]
    have h1 := S.add_le (row - T (m.ph (m.exec acc blocks))) (T (m.ph (m.exec acc blocks) - M.X (m.totalRot blocks) * m.ph acc))
    have h2 := hTle (m.ph (m.exec acc blocks) - M.X (m.totalRot blocks) * m.ph acc)
    linarith
  exact ⟨hrowm, cbt_cell_error row cell _ s _ Bt Bx S1 hS1 hs hrowm hcell⟩

end BlkMachine
end Noise
