import Poulpy.Lemmas.Lut

namespace Lut

/-- a polynomial of `n` coefficient vectors of `size` limbs -/
def Shaped (n size : Nat) (p : List Vec) : Prop := p.length = n ∧ ∀ v ∈ p, v.length = size

theorem zipV_add_sub (x y : Vec) (h : x.length = y.length) : List.zipWith (· + ·) x (List.zipWith (· - ·) y x) = y := by
  induction x generalizing y with
  | nil => cases y with
    | nil => rfl
    | cons _ _ => simp at h
  | cons a t ih => cases y with
    | nil => simp at h
    | cons c u =>
      simp only [List.zipWith_cons_cons, List.cons.injEq]
      exact ⟨by omega, ih u (by simpa using h)⟩

theorem addP_subP_aux (size : Nat) : ∀ (x y : List Vec), x.length = y.length → (∀ v ∈ x, v.length = size) →
    (∀ v ∈ y, v.length = size) → addP x (subP y x) = y := by
  intro x
  induction x with
  | nil => intro y h _ _; cases y with
    | nil => rfl
    | cons _ _ => simp at h
  | cons a t ih =>
    intro y h hx2 hy2
    cases y with
    | nil => simp at h
    | cons c u =>
      unfold addP subP at ih ⊢
      simp only [List.zipWith_cons_cons, List.cons.injEq]
      refine ⟨zipV_add_sub a c ?_, ih u (by simpa using h) (fun v hv => hx2 v (List.mem_cons_of_mem _ hv))
        (fun v hv => hy2 v (List.mem_cons_of_mem _ hv))⟩
      rw [hx2 a List.mem_cons_self, hy2 c List.mem_cons_self]

theorem addP_subP {n size : Nat} (x y : List Vec) (hx : Shaped n size x) (hy : Shaped n size y) : addP x (subP y x) = y :=
  addP_subP_aux size x y (by rw [hx.1, hy.1]) hx.2 hy.2

theorem zipV_add_zero (x : Vec) : List.zipWith (· + ·) x (List.replicate x.length 0) = x := by
  induction x with
  | nil => rfl
  | cons a t ih => simp only [List.length_cons, List.replicate_succ, List.zipWith_cons_cons, ih, Int.add_zero]

theorem addP_zero {n size : Nat} (x : List Vec) (hx : Shaped n size x) : addP x (zeroP n size) = x := by
  obtain ⟨hx1, hx2⟩ := hx
  unfold addP zeroP
  subst hx1
  induction x with
  | nil => rfl
  | cons a t ih =>
    simp only [List.length_cons, List.replicate_succ, List.zipWith_cons_cons, List.cons.injEq]
    refine ⟨?_, ih (fun v hv => hx2 v (List.mem_cons_of_mem _ hv))⟩
    rw [← hx2 a List.mem_cons_self]; exact zipV_add_zero a

theorem zipV_zero_add (x : Vec) : List.zipWith (· + ·) (List.replicate x.length 0) x = x := by
  induction x with
  | nil => rfl
  | cons a t ih => simp only [List.length_cons, List.replicate_succ, List.zipWith_cons_cons, ih, Int.zero_add]

theorem zero_addP {n size : Nat} (x : List Vec) (hx : Shaped n size x) : addP (zeroP n size) x = x := by
  obtain ⟨hx1, hx2⟩ := hx
  unfold addP zeroP
  subst hx1
  induction x with
  | nil => rfl
  | cons a t ih =>
    simp only [List.length_cons, List.replicate_succ, List.zipWith_cons_cons, List.cons.injEq]
    refine ⟨?_, ih (fun v hv => hx2 v (List.mem_cons_of_mem _ hv))⟩
    rw [← hx2 a List.mem_cons_self]; exact zipV_zero_add a

theorem zipV_sub_self (x : Vec) : List.zipWith (· - ·) x x = List.replicate x.length 0 := by
  induction x with
  | nil => rfl
  | cons a t ih => simp only [List.zipWith_cons_cons, List.length_cons, List.replicate_succ, ih, Int.sub_self]

theorem subP_self {n size : Nat} (x : List Vec) (hx : Shaped n size x) : subP x x = zeroP n size := by
  obtain ⟨hx1, hx2⟩ := hx
  unfold subP zeroP
  subst hx1
  induction x with
  | nil => rfl
  | cons a t ih =>
    simp only [List.zipWith_cons_cons, List.length_cons, List.replicate_succ, List.cons.injEq]
    refine ⟨?_, ih (fun v hv => hx2 v (List.mem_cons_of_mem _ hv))⟩
    rw [← hx2 a List.mem_cons_self]; exact zipV_sub_self a

theorem zeroP_shaped (n size : Nat) : Shaped n size (zeroP n size) := by
  unfold zeroP Shaped
  refine ⟨by simp, ?_⟩
  intro v hv
  rw [List.mem_replicate] at hv
  rw [hv.2]; simp

theorem negV_length (v : Vec) : (negV v).length = v.length := by simp [negV]

theorem rotate_shaped {n size : Nat} (r : Int) (p : List Vec) (h : Shaped n size p) : Shaped n size (rotate r p) := by
  obtain ⟨h1, h2⟩ := h
  refine ⟨by rw [rotate_length]; exact h1, ?_⟩
  intro v hv
  unfold rotate at hv
  by_cases h0 : p.length = 0
  · simp only [h0, if_true] at hv; exact h2 v hv
  · simp only [h0, if_false] at hv
    split at hv
    · rcases List.mem_append.1 hv with hv | hv
      · obtain ⟨w, hw, rfl⟩ := List.mem_map.1 hv
        rw [negV_length]; exact h2 w (List.mem_of_mem_drop hw)
      · exact h2 v (List.mem_of_mem_take hv)
    · rcases List.mem_append.1 hv with hv | hv
      · exact h2 v (List.mem_of_mem_drop hv)
      · obtain ⟨w, hw, rfl⟩ := List.mem_map.1 hv
        rw [negV_length]; exact h2 w (List.mem_of_mem_take hw)

theorem scaleP_one (x : List Vec) : scaleP 1 x = x := by
  unfold scaleP
  conv => rhs; rw [← List.map_id x]
  apply List.map_congr_left
  intro v _
  conv => rhs; rw [id, ← List.map_id v]
  apply List.map_congr_left
  intro a _
  simp

theorem scaleP_zero {n size : Nat} (x : List Vec) (hx : Shaped n size x) : scaleP 0 x = zeroP n size := by
  obtain ⟨hx1, hx2⟩ := hx
  unfold scaleP zeroP
  subst hx1
  induction x with
  | nil => rfl
  | cons a t ih =>
    simp only [List.map_cons, List.length_cons, List.replicate_succ, List.cons.injEq]
    refine ⟨?_, ih (fun v hv => hx2 v (List.mem_cons_of_mem _ hv))⟩
    rw [← hx2 a List.mem_cons_self]
    clear hx2 ih
    induction a with
    | nil => rfl
    | cons c u ihu => simp [List.replicate_succ, ihu]

theorem rotate_zeroP (r : Int) (n size : Nat) : rotate r (zeroP n size) = zeroP n size := by
  have hneg : negV (List.replicate size 0) = List.replicate size 0 := by
    simp [negV, w64]
  unfold rotate zeroP
  by_cases h0 : n = 0
  · subst h0; simp
  · simp only [List.length_replicate, h0, if_false, List.take_replicate, List.drop_replicate, List.map_replicate, hneg]
    split <;> rw [List.replicate_append_replicate] <;> congr 1 <;> omega

/-- all digits strictly inside the balanced range (closed under negation) -/
def SymV (b : Nat) (v : Vec) : Prop := ∀ x ∈ v, -(2:Int) ^ (b - 1) < x ∧ x < 2 ^ (b - 1)
def SymP (b : Nat) (p : List Vec) : Prop := ∀ v ∈ p, SymV b v

theorem getDigit_id (b : Nat) (hb : 1 ≤ b) (x : Int) (h : -(2:Int) ^ (b - 1) ≤ x ∧ x < 2 ^ (b - 1)) : getDigit b x = x := by
  unfold getDigit
  have e : (2:Int) ^ b = 2 * 2 ^ (b - 1) := by
    have : b = (b - 1) + 1 := by omega
    conv => lhs; rw [this, pow_succ]
    ring
  rw [e]
  generalize (2:Int) ^ (b - 1) = P at *
  rw [Int.emod_eq_of_lt (by omega) (by omega)]; omega

theorem getCarry_self (b : Nat) (x : Int) : getCarry b x x = 0 := by
  unfold getCarry w64; simp

theorem normRev_id (b : Nat) (hb : 1 ≤ b) (hb2 : b ≤ 63) : ∀ (l : List Int) (first : Bool),
    (∀ x ∈ l, -(2:Int) ^ (b - 1) ≤ x ∧ x < 2 ^ (b - 1)) → normRev b first 0 l = l := by
  have hpow : (2:Int) ^ (b - 1) ≤ 2 ^ 62 := pow_le_pow_right₀ (by norm_num) (by omega)
  have w0 : ∀ x : Int, (-(2:Int) ^ (b - 1) ≤ x ∧ x < 2 ^ (b - 1)) → w64 (x + 0) = x := by
    intro x hx; rw [Int.add_zero]; unfold w64; omega
  intro l
  induction l with
  | nil => intro first _; cases first <;> rfl
  | cons x rest ih =>
    intro first h
    have hx := h x List.mem_cons_self
    have hr : ∀ y ∈ rest, -(2:Int) ^ (b - 1) ≤ y ∧ y < 2 ^ (b - 1) := fun y hy => h y (List.mem_cons_of_mem _ hy)
    cases rest with
    | nil =>
      cases first
      · simp only [normRev, getDigit_id b hb x hx, w0 x hx]
      · simp only [normRev, getDigit_id b hb x hx]
    | cons y rest' =>
      cases first
      · simp only [normRev, getDigit_id b hb x hx, w0 x hx, getCarry_self]
        have : w64 (0 + 0) = 0 := by decide
        rw [this, ih false hr]
      · simp only [normRev, getDigit_id b hb x hx, getCarry_self]
        rw [ih false hr]

theorem normVec_id (b : Nat) (hb : 1 ≤ b) (hb2 : b ≤ 63) (v : Vec) (h : SymV b v) : normVec b v = v := by
  unfold normVec
  rw [normRev_id b hb hb2 v.reverse true (fun x hx => by
    have := h x (List.mem_reverse.1 hx); exact ⟨by omega, this.2⟩)]
  exact List.reverse_reverse v

theorem negV_sym (b : Nat) (hb2 : b ≤ 63) (v : Vec) (h : SymV b v) : SymV b (negV v) := by
  have hpow : (2:Int) ^ (b - 1) ≤ 2 ^ 62 := pow_le_pow_right₀ (by norm_num) (by omega)
  intro x hx
  simp only [negV, List.mem_map] at hx
  obtain ⟨y, hy, rfl⟩ := hx
  have := h y hy
  unfold w64; omega

theorem rotate_sym (b : Nat) (hb2 : b ≤ 63) (r : Int) (p : List Vec) (h : SymP b p) : SymP b (rotate r p) := by
  intro v hv
  unfold rotate at hv
  by_cases h0 : p.length = 0
  · simp only [h0, if_true] at hv; exact h v hv
  · simp only [h0, if_false] at hv
    split at hv
    · rcases List.mem_append.1 hv with hv | hv
      · obtain ⟨w, hw, rfl⟩ := List.mem_map.1 hv
        exact negV_sym b hb2 w (h w (List.mem_of_mem_drop hw))
      · exact h v (List.mem_of_mem_take hv)
    · rcases List.mem_append.1 hv with hv | hv
      · exact h v (List.mem_of_mem_drop hv)
      · obtain ⟨w, hw, rfl⟩ := List.mem_map.1 hv
        exact negV_sym b hb2 w (h w (List.mem_of_mem_take hw))

theorem symP_inRange (b : Nat) (hb2 : b ≤ 63) (p : List Vec) (h : SymP b p) : InRange p := by
  have hpow : (2:Int) ^ (b - 1) ≤ 2 ^ 62 := pow_le_pow_right₀ (by norm_num) (by omega)
  intro v hv x hx
  have := h v hv x hx
  constructor <;> omega


end Lut
