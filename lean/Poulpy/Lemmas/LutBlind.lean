import Poulpy.Lemmas.Lut
import Mathlib.Tactic.LinearCombination

namespace Lut

/-- a polynomial of `n` coefficient vectors of `size` limbs -/
def Shaped (n size : Nat) (p : List Vec) : Prop := p.length = n ∧ ∀ v ∈ p, v.length = size

theorem zipV_add_sub (x y : Vec) (h : x.length = y.length) : List.zipWith (· + ·) x (List.zipWith (· - ·) y x) = y := by
  induction x generalizing y with
  | nil => cases y with
    | nil => rfl
    | cons _ _ => simp at h
  | cons a t ih => cases y with
    | nil => simp at h
    | cons c u =>
      simp only [List.zipWith_cons_cons, List.cons.injEq]
      exact ⟨by omega, ih u (by simpa using h)⟩

theorem addP_subP_aux (size : Nat) : ∀ (x y : List Vec), x.length = y.length → (∀ v ∈ x, v.length = size) →
    (∀ v ∈ y, v.length = size) → addP x (subP y x) = y := by
  intro x
  induction x with
  | nil => intro y h _ _; cases y with
    | nil => rfl
    | cons _ _ => simp at h
  | cons a t ih =>
    intro y h hx2 hy2
    cases y with
    | nil => simp at h
    | cons c u =>
      unfold addP subP at ih ⊢
      simp only [List.zipWith_cons_cons, List.cons.injEq]
      refine ⟨zipV_add_sub a c ?_, ih u (by simpa using h) (fun v hv => hx2 v (List.mem_cons_of_mem _ hv))
        (fun v hv => hy2 v (List.mem_cons_of_mem _ hv))⟩
      rw [hx2 a List.mem_cons_self, hy2 c List.mem_cons_self]

theorem addP_subP {n size : Nat} (x y : List Vec) (hx : Shaped n size x) (hy : Shaped n size y) : addP x (subP y x) = y :=
  addP_subP_aux size x y (by rw [hx.1, hy.1]) hx.2 hy.2

theorem zipV_add_zero (x : Vec) : List.zipWith (· + ·) x (List.replicate x.length 0) = x := by
  induction x with
  | nil => rfl
  | cons a t ih => simp only [List.length_cons, List.replicate_succ, List.zipWith_cons_cons, ih, Int.add_zero]

theorem addP_zero {n size : Nat} (x : List Vec) (hx : Shaped n size x) : addP x (zeroP n size) = x := by
  obtain ⟨hx1, hx2⟩ := hx
  unfold addP zeroP
  subst hx1
  induction x with
  | nil => rfl
  | cons a t ih =>
    simp only [List.length_cons, List.replicate_succ, List.zipWith_cons_cons, List.cons.injEq]
    refine ⟨?_, ih (fun v hv => hx2 v (List.mem_cons_of_mem _ hv))⟩
    rw [← hx2 a List.mem_cons_self]; exact zipV_add_zero a

theorem zipV_zero_add (x : Vec) : List.zipWith (· + ·) (List.replicate x.length 0) x = x := by
  induction x with
  | nil => rfl
  | cons a t ih => simp only [List.length_cons, List.replicate_succ, List.zipWith_cons_cons, ih, Int.zero_add]

theorem zero_addP {n size : Nat} (x : List Vec) (hx : Shaped n size x) : addP (zeroP n size) x = x := by
  obtain ⟨hx1, hx2⟩ := hx
  unfold addP zeroP
  subst hx1
  induction x with
  | nil => rfl
  | cons a t ih =>
    simp only [List.length_cons, List.replicate_succ, List.zipWith_cons_cons, List.cons.injEq]
    refine ⟨?_, ih (fun v hv => hx2 v (List.mem_cons_of_mem _ hv))⟩
    rw [← hx2 a List.mem_cons_self]; exact zipV_zero_add a

theorem zipV_sub_self (x : Vec) : List.zipWith (· - ·) x x = List.replicate x.length 0 := by
  induction x with
  | nil => rfl
  | cons a t ih => simp only [List.zipWith_cons_cons, List.length_cons, List.replicate_succ, ih, Int.sub_self]

theorem subP_self {n size : Nat} (x : List Vec) (hx : Shaped n size x) : subP x x = zeroP n size := by
  obtain ⟨hx1, hx2⟩ := hx
  unfold subP zeroP
  subst hx1
  induction x with
  | nil => rfl
  | cons a t ih =>
    simp only [List.zipWith_cons_cons, List.length_cons, List.replicate_succ, List.cons.injEq]
    refine ⟨?_, ih (fun v hv => hx2 v (List.mem_cons_of_mem _ hv))⟩
    rw [← hx2 a List.mem_cons_self]; exact zipV_sub_self a

theorem zeroP_shaped (n size : Nat) : Shaped n size (zeroP n size) := by
  unfold zeroP Shaped
  refine ⟨by simp, ?_⟩
  intro v hv
  rw [List.mem_replicate] at hv
  rw [hv.2]; simp

theorem negV_length (v : Vec) : (negV v).length = v.length := by simp [negV]

theorem rotate_shaped {n size : Nat} (r : Int) (p : List Vec) (h : Shaped n size p) : Shaped n size (rotate r p) := by
  obtain ⟨h1, h2⟩ := h
  refine ⟨by rw [rotate_length]; exact h1, ?_⟩
  intro v hv
  unfold rotate at hv
  by_cases h0 : p.length = 0
  · simp only [h0, if_true] at hv; exact h2 v hv
  · simp only [h0, if_false] at hv
    split at hv
    · rcases List.mem_append.1 hv with hv | hv
      · obtain ⟨w, hw, rfl⟩ := List.mem_map.1 hv
        rw [negV_length]; exact h2 w (List.mem_of_mem_drop hw)
      · exact h2 v (List.mem_of_mem_take hv)
    · rcases List.mem_append.1 hv with hv | hv
      · exact h2 v (List.mem_of_mem_drop hv)
      · obtain ⟨w, hw, rfl⟩ := List.mem_map.1 hv
        rw [negV_length]; exact h2 w (List.mem_of_mem_take hw)

theorem scaleP_one (x : List Vec) : scaleP 1 x = x := by
  unfold scaleP
  conv => rhs; rw [← List.map_id x]
  apply List.map_congr_left
  intro v _
  conv => rhs; rw [id, ← List.map_id v]
  apply List.map_congr_left
  intro a _
  simp

theorem scaleP_zero {n size : Nat} (x : List Vec) (hx : Shaped n size x) : scaleP 0 x = zeroP n size := by
  obtain ⟨hx1, hx2⟩ := hx
  unfold scaleP zeroP
  subst hx1
  induction x with
  | nil => rfl
  | cons a t ih =>
    simp only [List.map_cons, List.length_cons, List.replicate_succ, List.cons.injEq]
    refine ⟨?_, ih (fun v hv => hx2 v (List.mem_cons_of_mem _ hv))⟩
    rw [← hx2 a List.mem_cons_self]
    clear hx2 ih
    induction a with
    | nil => rfl
    | cons c u ihu => simp [List.replicate_succ, ihu]

theorem rotate_zeroP (r : Int) (n size : Nat) : rotate r (zeroP n size) = zeroP n size := by
  have hneg : negV (List.replicate size 0) = List.replicate size 0 := by
    simp [negV, w64]
  unfold rotate zeroP
  by_cases h0 : n = 0
  · subst h0; simp
  · simp only [List.length_replicate, h0, if_false, List.take_replicate, List.drop_replicate, List.map_replicate, hneg]
    split <;> rw [List.replicate_append_replicate] <;> congr 1 <;> omega

/-- all digits strictly inside the balanced range (closed under negation) -/
def SymV (b : Nat) (v : Vec) : Prop := ∀ x ∈ v, -(2:Int) ^ (b - 1) < x ∧ x < 2 ^ (b - 1)
def SymP (b : Nat) (p : List Vec) : Prop := ∀ v ∈ p, SymV b v

theorem getDigit_id (b : Nat) (hb : 1 ≤ b) (x : Int) (h : -(2:Int) ^ (b - 1) ≤ x ∧ x < 2 ^ (b - 1)) : getDigit b x = x := by
  unfold getDigit
  have e : (2:Int) ^ b = 2 * 2 ^ (b - 1) := by
    have : b = (b - 1) + 1 := by omega
    conv => lhs; rw [this, pow_succ]
    ring
  rw [e]
  generalize (2:Int) ^ (b - 1) = P at *
  rw [Int.emod_eq_of_lt (by omega) (by omega)]; omega

theorem getCarry_self (b : Nat) (x : Int) : getCarry b x x = 0 := by
  unfold getCarry w64; simp

theorem normRev_id (b : Nat) (hb : 1 ≤ b) (hb2 : b ≤ 63) : ∀ (l : List Int) (first : Bool),
    (∀ x ∈ l, -(2:Int) ^ (b - 1) ≤ x ∧ x < 2 ^ (b - 1)) → normRev b first 0 l = l := by
  have hpow : (2:Int) ^ (b - 1) ≤ 2 ^ 62 := pow_le_pow_right₀ (by norm_num) (by omega)
  have w0 : ∀ x : Int, (-(2:Int) ^ (b - 1) ≤ x ∧ x < 2 ^ (b - 1)) → w64 (x + 0) = x := by
    intro x hx; rw [Int.add_zero]; unfold w64; omega
  intro l
  induction l with
  | nil => intro first _; cases first <;> rfl
  | cons x rest ih =>
    intro first h
    have hx := h x List.mem_cons_self
    have hr : ∀ y ∈ rest, -(2:Int) ^ (b - 1) ≤ y ∧ y < 2 ^ (b - 1) := fun y hy => h y (List.mem_cons_of_mem _ hy)
    cases rest with
    | nil =>
      cases first
      · simp only [normRev, getDigit_id b hb x hx, w0 x hx]
      · simp only [normRev, getDigit_id b hb x hx]
    | cons y rest' =>
      cases first
      · simp only [normRev, getDigit_id b hb x hx, w0 x hx, getCarry_self]
        have : w64 (0 + 0) = 0 := by decide
        rw [this, ih false hr]
      · simp only [normRev, getDigit_id b hb x hx, getCarry_self]
        rw [ih false hr]

theorem normVec_id (b : Nat) (hb : 1 ≤ b) (hb2 : b ≤ 63) (v : Vec) (h : SymV b v) : normVec b v = v := by
  unfold normVec
  rw [normRev_id b hb hb2 v.reverse true (fun x hx => by
    have := h x (List.mem_reverse.1 hx); exact ⟨by omega, this.2⟩)]
  exact List.reverse_reverse v

theorem negV_sym (b : Nat) (hb2 : b ≤ 63) (v : Vec) (h : SymV b v) : SymV b (negV v) := by
  have hpow : (2:Int) ^ (b - 1) ≤ 2 ^ 62 := pow_le_pow_right₀ (by norm_num) (by omega)
  intro x hx
  simp only [negV, List.mem_map] at hx
  obtain ⟨y, hy, rfl⟩ := hx
  have := h y hy
  unfold w64; omega

theorem rotate_sym (b : Nat) (hb2 : b ≤ 63) (r : Int) (p : List Vec) (h : SymP b p) : SymP b (rotate r p) := by
  intro v hv
  unfold rotate at hv
  by_cases h0 : p.length = 0
  · simp only [h0, if_true] at hv; exact h v hv
  · simp only [h0, if_false] at hv
    split at hv
    · rcases List.mem_append.1 hv with hv | hv
      · obtain ⟨w, hw, rfl⟩ := List.mem_map.1 hv
        exact negV_sym b hb2 w (h w (List.mem_of_mem_drop hw))
      · exact h v (List.mem_of_mem_take hv)
    · rcases List.mem_append.1 hv with hv | hv
      · exact h v (List.mem_of_mem_drop hv)
      · obtain ⟨w, hw, rfl⟩ := List.mem_map.1 hv
        exact negV_sym b hb2 w (h w (List.mem_of_mem_take hw))

theorem symP_inRange (b : Nat) (hb2 : b ≤ 63) (p : List Vec) (h : SymP b p) : InRange p := by
  have hpow : (2:Int) ^ (b - 1) ≤ 2 ^ 62 := pow_le_pow_right₀ (by norm_num) (by omega)
  intro v hv x hx
  have := h v hv x hx
  constructor <;> omega


/-- invariant of the accumulators: `ext` polynomials of `n` coefficient vectors of `size` limbs, digits strictly
inside the balanced range -/
def AccOK (n ext size b : Nat) (acc : List (List Vec)) : Prop :=
  acc.length = ext ∧ ∀ p ∈ acc, Shaped n size p ∧ SymP b p

theorem rotate_zero' (p : List Vec) (h : InRange p) : rotate 0 p = p := by
  have := iterRotate p h 0
  simpa using this.symm

theorem posMod_eq (a : Int) (n ext : Nat) (hD : 0 < n * ext) (hd2 : 2 * ((n * ext : Nat) : Int) < 2 ^ 62)
    (hk1 : -(2 * ((n * ext : Nat) : Int)) ≤ a) (hk2 : a ≤ 2 * ((n * ext : Nat) : Int)) :
    posMod a (2 * n * ext) = ((a + 2 * ((n * ext : Nat) : Int)) % (2 * ((n * ext : Nat) : Int))).toNat := by
  unfold posMod
  have hT : ((2 * n * ext : Nat) : Int) = 2 * ((n * ext : Nat) : Int) := by push_cast; ring
  rw [hT]
  have : w64 (a + 2 * ((n * ext : Nat) : Int)) = a + 2 * ((n * ext : Nat) : Int) := by unfold w64; omega
  rw [this]

theorem subP_shaped {n size : Nat} (x y : List Vec) (hx : Shaped n size x) (hy : Shaped n size y) : Shaped n size (subP x y) := by
  unfold subP Shaped
  refine ⟨by simp [hx.1, hy.1], ?_⟩
  intro v hv
  obtain ⟨i, hi, rfl⟩ := List.getElem_of_mem hv
  simp only [List.getElem_zipWith, List.length_zipWith]
  simp only [List.length_zipWith] at hi
  rw [hx.2 _ (List.getElem_mem (by omega)), hy.2 _ (List.getElem_mem (by omega))]; simp


theorem getD_map_scale (s : Int) (acc : List (List Vec)) (j : Nat) (hj : j < acc.length) :
    (acc.map (scaleP s)).getD j [] = scaleP s acc[j] := by
  rw [List.getD_eq_getElem?_getD, List.getElem?_map, List.getElem?_eq_getElem hj]; rfl

/-- a coefficient whose key bit is 0 contributes nothing -/
theorem extTerm_zero (n ext size b : Nat) (acc add : List (List Vec)) (hacc : AccOK n ext size b acc)
    (hadd : add.length = ext ∧ ∀ p ∈ add, Shaped n size p) (a : Int) :
    extTerm n ext acc a 0 add = add := by
  obtain ⟨hl, hp⟩ := hacc
  apply List.ext_getElem?
  intro i
  unfold extTerm
  simp only [List.getElem?_mapIdx]
  cases hi : add[i]? with
  | none => rfl
  | some addi =>
    have hilt : i < add.length := by
      by_contra hc; rw [List.getElem?_eq_none (by omega)] at hi; simp at hi
    have hsh : Shaped n size addi := hadd.2 addi (List.mem_of_getElem? hi)
    simp only [Option.map_some, Option.some.injEq]
    have hz : ∀ j, j < acc.length → (acc.map (scaleP 0)).getD j [] = zeroP n size := by
      intro j hj
      rw [getD_map_scale 0 acc j hj]
      exact scaleP_zero _ (hp _ (List.getElem_mem hj)).1
    have key : ∀ r, addP addi (subP (rotate r (zeroP n size)) (zeroP n size)) = addi := by
      intro r
      rw [rotate_zeroP, subP_self _ (zeroP_shaped n size), addP_zero _ hsh]
    have hext : 0 < ext := by rw [← hadd.1]; omega
    have hlo : posMod a (2 * n * ext) % ext < ext := Nat.mod_lt _ hext
    have hi' : i < acc.length := by rw [hl, ← hadd.1]; exact hilt
    split
    · split
      · rw [hz i hi']; exact key _
      · rfl
    · split
      · rw [hz i hi', hz _ (by rw [hl]; rw [hadd.1] at hilt; omega)]; exact key _
      · rw [hz i hi', hz _ (by rw [hl]; rw [hadd.1] at hilt; omega)]; exact key _


/-- the coefficient whose key bit is 1 contributes `X^a·acc − acc` (as `lookup_table_rotate(a)` of the accumulators) -/
theorem extTerm_one (n ext size b : Nat) (hn : 0 < n) (hb2 : b ≤ 63) (acc : List (List Vec)) (hacc : AccOK n ext size b acc) (hext : 0 < ext)
    (a : Int) (hd2 : 2 * ((n * ext : Nat) : Int) < 2 ^ 62) (hk1 : -(2 * ((n * ext : Nat) : Int)) ≤ a)
    (hk2 : a ≤ 2 * ((n * ext : Nat) : Int)) :
    extTerm n ext acc a 1 (List.replicate ext (zeroP n size)) = List.zipWith subP (lutRotate n a acc) acc := by
  obtain ⟨hl, hp⟩ := hacc
  have hD : 0 < n * ext := Nat.mul_pos hn hext
  have hκ := posMod_eq a n ext hD hd2 hk1 hk2
  have hLl := lutRotate_length n a acc (by omega)
  apply List.ext_getElem?
  intro i
  by_cases hi : i < ext
  · have hiacc : i < acc.length := by omega
    have hg := lutRotate_get n a acc (by omega) (by rw [hl]; exact hd2) (by rw [hl]; exact hk1) (by rw [hl]; omega) hn i hiacc
    simp only [hl] at hg
    rw [← hκ] at hg
    unfold extTerm
    simp only [List.getElem?_mapIdx, List.getElem?_replicate, hi, if_true, Option.map_some]
    rw [List.getElem?_zipWith, List.getElem?_eq_getElem hiacc, hg]
    have hone : ∀ j (hj : j < acc.length), (acc.map (scaleP 1)).getD j [] = acc[j] := by
      intro j hj; rw [getD_map_scale 1 acc j hj, scaleP_one]
    have hshi : Shaped n size acc[i] := (hp _ (List.getElem_mem hiacc)).1
    generalize hpos : posMod a (2 * n * ext) = κ at *
    have hlo : κ % ext < ext := Nat.mod_lt _ hext
    rw [hone i hiacc]
    by_cases hlt : i < κ % ext
    · have hj : ext - κ % ext + i < acc.length := by omega
      have h0 : ¬ (κ % ext = 0) := by omega
      simp only [h0, hlt, if_true, if_false]
      rw [hone _ hj, List.getElem?_eq_getElem hj]
      simp only [Option.map_some, Option.map₂_some_some]
      have hshj : Shaped n size acc[ext - κ % ext + i] := (hp _ (List.getElem_mem hj)).1
      rw [zero_addP _ (subP_shaped _ _ (rotate_shaped _ _ hshj) hshi)]
      congr 2
      apply rotate_congr
      rw [hshj.1]
      push_cast
      rw [Int.emod_emod_of_dvd _ (dvd_refl _)]
    · have hj : i - κ % ext < acc.length := by omega
      simp only [hlt, if_false]
      rw [List.getElem?_eq_getElem hj]
      simp only [Option.map_some, Option.map₂_some_some]
      have hshj : Shaped n size acc[i - κ % ext] := (hp _ (List.getElem_mem hj)).1
      by_cases h0 : κ % ext = 0
      · rw [if_pos h0]
        have hij : acc[i - κ % ext] = acc[i] := by congr 1; omega
        rw [hij]
        by_cases hhi : κ / ext = 0
        · have hne : ¬ (κ / ext ≠ 0) := by omega
          rw [if_neg hne, hhi]
          simp only [Nat.cast_zero]
          rw [rotate_zero' _ (symP_inRange b hb2 _ (hp _ (List.getElem_mem hiacc)).2), subP_self _ hshi]
        · rw [if_pos hhi, zero_addP _ (subP_shaped _ _ (rotate_shaped _ _ hshi) hshi)]
      · rw [if_neg h0, hone _ hj, zero_addP _ (subP_shaped _ _ (rotate_shaped _ _ hshj) hshi)]
  · rw [List.getElem?_eq_none (by unfold extTerm; simp; omega), List.getElem?_eq_none (by simp [hLl]; omega)]


theorem foldl_extTerm_zeros (n ext size b : Nat) (acc : List (List Vec)) (hacc : AccOK n ext size b acc) :
    ∀ (blk : List (Int × Int)) (add : List (List Vec)), (add.length = ext ∧ ∀ p ∈ add, Shaped n size p) →
      (∀ p ∈ blk, p.2 = 0) →
      blk.foldl (fun add (as : Int × Int) => extTerm n ext acc as.1 as.2 add) add = add := by
  intro blk
  induction blk with
  | nil => intro add _ _; rfl
  | cons p rest ih =>
    intro add hadd hz
    simp only [List.foldl_cons]
    rw [hz p List.mem_cons_self, extTerm_zero n ext size b acc add hacc hadd]
    exact ih add hadd (fun q hq => hz q (List.mem_cons_of_mem _ hq))

theorem zeros_ok (n ext size : Nat) :
    (List.replicate ext (zeroP n size)).length = ext ∧ ∀ p ∈ List.replicate ext (zeroP n size), Shaped n size p := by
  refine ⟨by simp, ?_⟩
  intro p hp
  rw [(List.mem_replicate.1 hp).2]; exact zeroP_shaped n size

theorem map_normVec_id (b : Nat) (hb : 1 ≤ b) (hb2 : b ≤ 63) (p : List Vec) (h : SymP b p) : p.map (normVec b) = p := by
  conv => rhs; rw [← List.map_id p]
  apply List.map_congr_left
  intro v hv
  exact normVec_id b hb hb2 v (h v hv)

theorem lutRotate_accOK (n ext size b : Nat) (hb2 : b ≤ 63) (acc : List (List Vec)) (hacc : AccOK n ext size b acc) (hext : 0 < ext)
    (a : Int) : AccOK n ext size b (lutRotate n a acc) := by
  obtain ⟨hl, hp⟩ := hacc
  refine ⟨by rw [lutRotate_length _ _ _ (by omega), hl], ?_⟩
  intro p hpm
  obtain ⟨r, q, hq, rfl⟩ := lutRotate_mem _ _ _ _ hpm
  exact ⟨rotate_shaped r q (hp q hq).1, rotate_sym b hb2 r q (hp q hq).2⟩

/-- a block whose key bits are all 0 leaves the accumulators unchanged -/
theorem extBlock_none (n ext size b : Nat) (hb : 1 ≤ b) (hb2 : b ≤ 63) (acc : List (List Vec)) (hacc : AccOK n ext size b acc)
    (blk : List (Int × Int)) (hz : ∀ p ∈ blk, p.2 = 0) : extBlock n ext b size acc blk = acc := by
  unfold extBlock
  rw [foldl_extTerm_zeros n ext size b acc hacc blk _ (zeros_ok n ext size) hz]
  obtain ⟨hl, hp⟩ := hacc
  apply List.ext_getElem?
  intro i
  rw [List.getElem?_zipWith]
  by_cases hi : i < acc.length
  · rw [List.getElem?_eq_getElem hi, List.getElem?_replicate, if_pos (by omega)]
    simp only [Option.map₂_some_some]
    have := hp _ (List.getElem_mem hi)
    rw [addP_zero _ this.1, map_normVec_id b hb hb2 _ this.2]
  · rw [List.getElem?_eq_none (by omega)]

/-- a block with exactly one key bit 1, at coefficient `a`: the accumulators become `lookup_table_rotate(a)` of themselves -/
theorem extBlock_sel (n ext size b : Nat) (hn : 0 < n) (hb : 1 ≤ b) (hb2 : b ≤ 63) (acc : List (List Vec))
    (hacc : AccOK n ext size b acc) (hext : 0 < ext) (pre post : List (Int × Int)) (a : Int)
    (hpre : ∀ p ∈ pre, p.2 = 0) (hpost : ∀ p ∈ post, p.2 = 0)
    (hd2 : 2 * ((n * ext : Nat) : Int) < 2 ^ 62) (hk1 : -(2 * ((n * ext : Nat) : Int)) ≤ a)
    (hk2 : a ≤ 2 * ((n * ext : Nat) : Int)) :
    extBlock n ext b size acc (pre ++ (a, 1) :: post) = lutRotate n a acc := by
  have hR := lutRotate_accOK n ext size b hb2 acc hacc hext a
  unfold extBlock
  rw [List.foldl_append, foldl_extTerm_zeros n ext size b acc hacc pre _ (zeros_ok n ext size) hpre]
  simp only [List.foldl_cons]
  rw [extTerm_one n ext size b hn hb2 acc hacc hext a hd2 hk1 hk2]
  obtain ⟨hl, hp⟩ := hacc
  obtain ⟨hRl, hRp⟩ := hR
  have hZ : (List.zipWith subP (lutRotate n a acc) acc).length = ext ∧
      ∀ p ∈ List.zipWith subP (lutRotate n a acc) acc, Shaped n size p := by
    refine ⟨by simp [hRl, hl], ?_⟩
    intro p hpm
    obtain ⟨i, hi, rfl⟩ := List.getElem_of_mem hpm
    simp only [List.length_zipWith] at hi
    rw [List.getElem_zipWith]
    exact subP_shaped _ _ (hRp _ (List.getElem_mem (by omega))).1 (hp _ (List.getElem_mem (by omega))).1
  rw [foldl_extTerm_zeros n ext size b acc ⟨hl, hp⟩ post _ hZ hpost]
  apply List.ext_getElem?
  intro i
  rw [List.getElem?_zipWith, List.getElem?_zipWith]
  by_cases hi : i < ext
  · have h1 : i < acc.length := by omega
    have h2 : i < (lutRotate n a acc).length := by omega
    rw [List.getElem?_eq_getElem h1, List.getElem?_eq_getElem h2]
    simp only [Option.map₂_some_some]
    have hs1 := hp _ (List.getElem_mem h1)
    have hs2 := hRp _ (List.getElem_mem h2)
    rw [addP_subP _ _ hs1.1 hs2.1, map_normVec_id b hb hb2 _ hs2.2]
  · rw [List.getElem?_eq_none (by omega), List.getElem?_eq_none (show (lutRotate n a acc).length ≤ i by omega)]


/-- phase contribution of a block: `Σ a_i·s_i` -/
def blkPhase (blk : List (Int × Int)) : Int := (blk.map fun p => p.1 * p.2).sum

/-- a block of a binary block key: all key bits 0, or exactly one key bit 1 (the others 0) -/
def BinBlock (blk : List (Int × Int)) : Prop :=
  (∀ p ∈ blk, p.2 = 0) ∨ ∃ pre a post, blk = pre ++ (a, 1) :: post ∧ (∀ p ∈ pre, p.2 = 0) ∧ (∀ p ∈ post, p.2 = 0)

theorem blkPhase_zero (blk : List (Int × Int)) (h : ∀ p ∈ blk, p.2 = 0) : blkPhase blk = 0 := by
  unfold blkPhase
  induction blk with
  | nil => rfl
  | cons p rest ih =>
    simp only [List.map_cons, List.sum_cons]
    rw [h p List.mem_cons_self, ih (fun q hq => h q (List.mem_cons_of_mem _ hq))]; simp

theorem blkPhase_sel (pre post : List (Int × Int)) (a : Int) (hpre : ∀ p ∈ pre, p.2 = 0) (hpost : ∀ p ∈ post, p.2 = 0) :
    blkPhase (pre ++ (a, 1) :: post) = a := by
  have h1 := blkPhase_zero pre hpre
  have h2 := blkPhase_zero post hpost
  unfold blkPhase at *
  simp only [List.map_append, List.map_cons, List.sum_append, List.sum_cons, h1, h2]; simp

theorem accOK_facts (n ext size b : Nat) (hb2 : b ≤ 63) (acc : List (List Vec)) (h : AccOK n ext size b acc) :
    (∀ p ∈ acc, p.length = n) ∧ (∀ p ∈ acc, InRange p) :=
  ⟨fun p hp => (h.2 p hp).1.1, fun p hp => symP_inRange b hb2 p (h.2 p hp).2⟩

/-- the block loop: every block multiplies the interleaved accumulator by `Y^{Σ_{block} a_i s_i}` -/
theorem fold_blocks (n ext size b : Nat) (hn : 0 < n) (hext : 0 < ext) (hb : 1 ≤ b) (hb2 : b ≤ 63)
    (hd2 : 2 * ((n * ext : Nat) : Int) < 2 ^ 62) (I : List Vec) (hI : InRange I) :
    ∀ (chunks : List (List (Int × Int))) (acc : List (List Vec)) (K : Int),
      AccOK n ext size b acc → interleave n acc = rotate K I →
      (∀ blk ∈ chunks, BinBlock blk ∧ ∀ p ∈ blk, -(2 * ((n * ext : Nat) : Int)) ≤ p.1 ∧ p.1 ≤ 2 * ((n * ext : Nat) : Int)) →
      AccOK n ext size b (chunks.foldl (extBlock n ext b size) acc) ∧
      interleave n (chunks.foldl (extBlock n ext b size) acc) = rotate (K + (chunks.map blkPhase).sum) I := by
  intro chunks
  induction chunks with
  | nil => intro acc K h1 h2 _; exact ⟨h1, by simpa using h2⟩
  | cons blk rest ih =>
    intro acc K hacc hint hblk
    obtain ⟨hbin, hbnd⟩ := hblk blk List.mem_cons_self
    have hrest := fun q hq => hblk q (List.mem_cons_of_mem _ hq)
    simp only [List.foldl_cons, List.map_cons, List.sum_cons]
    rcases hbin with hz | ⟨pre, a, post, rfl, hpre, hpost⟩
    · rw [extBlock_none n ext size b hb hb2 acc hacc blk hz, blkPhase_zero blk hz]
      have := ih acc K hacc hint hrest
      simpa using this
    · have ha := hbnd (a, 1) (by simp)
      rw [extBlock_sel n ext size b hn hb hb2 acc hacc hext pre post a hpre hpost hd2 ha.1 ha.2,
        blkPhase_sel pre post a hpre hpost]
      have hacc' := lutRotate_accOK n ext size b hb2 acc hacc hext a
      have hf := accOK_facts n ext size b hb2 acc hacc
      have hl := hacc.1
      have hint' : interleave n (lutRotate n a acc) = rotate (a + K) I := by
        rw [lutRotate_interleave n a acc (by omega) hn hf.1 hf.2 (by rw [hl]; exact hd2) (by rw [hl]; exact ha.1)
          (by rw [hl]; omega), hint, rotate_rotate _ _ _ hI]
      have := ih _ (a + K) hacc' hint' hrest
      refine ⟨this.1, ?_⟩
      rw [this.2]; congr 1; ring


/-- the initial accumulators of the extended loop are `lookup_table_rotate(b)` of the table -/
theorem extInit_eq (n ext : Nat) (hn : 0 < n) (data : List (List Vec)) (hl : data.length = ext) (hext : 0 < ext) (b0 : Int)
    (hd2 : 2 * ((n * ext : Nat) : Int) < 2 ^ 62) (hk1 : -(2 * ((n * ext : Nat) : Int)) ≤ b0)
    (hk2 : b0 ≤ 2 * ((n * ext : Nat) : Int)) :
    extInit ext (posMod b0 (2 * n * ext)) data = lutRotate n b0 data := by
  have hD : 0 < n * ext := Nat.mul_pos hn hext
  have hκ := posMod_eq b0 n ext hD hd2 hk1 hk2
  apply List.ext_getElem?
  intro i
  by_cases hi : i < ext
  · have hg := lutRotate_get n b0 data (by omega) (by rw [hl]; exact hd2) (by rw [hl]; exact hk1) (by rw [hl]; omega) hn i (by omega)
    simp only [hl] at hg
    rw [← hκ] at hg
    rw [hg]
    unfold extInit
    rw [List.getElem?_map, List.getElem?_range hi]
    simp only [Option.map_some]
    generalize posMod b0 (2 * n * ext) = κ
    have hlo : κ % ext < ext := Nat.mod_lt _ hext
    by_cases hlt : i < κ % ext
    · have hj : ext - κ % ext + i < data.length := by omega
      simp only [hlt, if_true]
      rw [List.getD_eq_getElem?_getD, List.getElem?_eq_getElem hj]; rfl
    · have hj : i - κ % ext < data.length := by omega
      simp only [hlt, if_false]
      rw [List.getD_eq_getElem?_getD, List.getElem?_eq_getElem hj]; rfl
  · rw [List.getElem?_eq_none (by simp [extInit]; omega),
        List.getElem?_eq_none (by rw [lutRotate_length _ _ _ (by omega)]; omega)]

theorem chunksExact_flatten {α : Type} (block : Nat) (hb : 0 < block) : ∀ (q : Nat) (l : List α) (fuel : Nat),
    l.length = block * q → l.length ≤ fuel → (chunksExact block fuel l).flatten = l := by
  intro q
  induction q with
  | zero =>
    intro l fuel h _
    have : l = [] := List.eq_nil_of_length_eq_zero (by simpa using h)
    subst this
    cases fuel <;> simp [chunksExact]
  | succ q ih =>
    intro l fuel h hf
    have hlen : block ≤ l.length := by rw [h, Nat.mul_succ]; omega
    cases fuel with
    | zero => omega
    | succ f =>
      unfold chunksExact
      have hc : ¬ (block = 0 ∨ l.length < block) := by omega
      rw [if_neg hc]
      simp only [List.flatten_cons]
      rw [ih (l.drop block) f (by rw [List.length_drop, h, Nat.mul_succ]; omega) (by rw [List.length_drop]; omega)]
      exact List.take_append_drop block l

theorem sum_flatten_phase (chunks : List (List (Int × Int))) :
    (chunks.map blkPhase).sum = blkPhase chunks.flatten := by
  unfold blkPhase
  induction chunks with
  | nil => rfl
  | cons c rest ih => simp only [List.map_cons, List.sum_cons, List.flatten_cons, List.map_append, List.sum_append, ih]


theorem normRev_length (b : Nat) : ∀ (l : List Int) (first : Bool) (c : Int), (normRev b first c l).length = l.length := by
  intro l
  induction l with
  | nil => intro first c; cases first <;> rfl
  | cons x rest ih =>
    intro first c
    cases rest with
    | nil => cases first <;> rfl
    | cons y r => cases first <;> simp [normRev, ih]

theorem normVec_length (b : Nat) (v : Vec) : (normVec b v).length = v.length := by
  unfold normVec; rw [List.length_reverse, normRev_length, List.length_reverse]

theorem tableF_vec_length (b size limbs step : Nat) (scale : Int) (f : List Int) :
    ∀ v ∈ tableF b size limbs step scale f, v.length = size := by
  intro v hv
  simp only [tableF, List.mem_flatMap, List.mem_replicate] at hv
  obtain ⟨fi, _, _, rfl⟩ := hv
  unfold enc
  rw [normVec_length]; simp

/-- **the accumulators handed to the blind rotation by `lookup_table_set`** (extension factor > 1): `ext`
polynomials of degree `n` whose interleaving is the table polynomial `F'` pre-rotated by `-drift`; every
coefficient vector is a vector of `F'` or its negation. -/
theorem lutSet_extN_facts (n ext b kLut k step : Nat) (f : List Int) (hpow : isPow2 ext = true) (hext : 1 < ext) (hn : 0 < n)
    (hn2 : 2 * ((n * ext : Nat) : Int) < 2 ^ 62) (hb : 1 ≤ b) (hb2 : b ≤ 63) (hlen : 1 ≤ f.length) (hfn : f.length ≤ n)
    (hdiv : n * ext = f.length * step)
    (hbits : maxBitSize f + k % b < 64) (hl1 : 1 ≤ (k + b - 1) / b) (hl2 : (k + b - 1) / b ≤ (kLut + b - 1) / b)
    (hsym : SymP b (tableF b ((kLut + b - 1) / b) ((k + b - 1) / b) step (if k % b ≠ 0 then 2 ^ (b - k % b) else 1) f)) :
    ∃ T, lutSet n ext b kLut f k = .ok T ∧ T.drift = step / 2 ∧
      AccOK n ext ((kLut + b - 1) / b) b T.data ∧
      interleave n T.data = rotate (-((step / 2 : Nat) : Int))
        (tableF b ((kLut + b - 1) / b) ((k + b - 1) / b) step (if k % b ≠ 0 then 2 ^ (b - k % b) else 1) f) := by
  have hset := lutSet_extN n ext b kLut k step f hpow hext hb hlen hfn hdiv hbits hl1 hl2
  have hstep : 0 < step := by
    rcases Nat.eq_zero_or_pos step with h | h
    · subst h; have : 0 < n * ext := Nat.mul_pos hn (by omega); omega
    · exact h
  have hsd : step ≤ n * ext := by rw [hdiv]; exact Nat.le_mul_of_pos_left step (by omega)
  generalize hsz : (kLut + b - 1) / b = size at *
  generalize hlm : (k + b - 1) / b = limbs at *
  generalize hsc : (if k % b ≠ 0 then (2:Int) ^ (b - k % b) else 1) = scale at *
  set F := lutFullOf size limbs step scale f with hFdef
  have hFlen : F.length = n * ext := by rw [lutFullOf_length, hdiv]
  have hFr : InRange F := lutFullOf_inRange _ _ _ _ _
  set D1 : List (List Vec) := (List.range ext).map fun i =>
      (switchDown ext n ((List.range i).foldl (fun p _ => rotate (-1) p) F)).map (normVec b) with hD1
  have hD1len : D1.length = ext := by simp [hD1]
  have hD1n : ∀ p ∈ D1, p.length = n := by
    intro p hp
    simp only [hD1, List.mem_map, List.mem_range] at hp
    obtain ⟨i, _, rfl⟩ := hp
    rw [List.length_map, switchDown_length n ext (by omega) _ (by rw [iterRotate F hFr, rotate_length, hFlen])]
  set F' := tableF b size limbs step scale f with hF'
  have hI1 : interleave n D1 = F' := by
    rw [hD1, interleave_split n ext (by omega) F hFr hFlen (normVec b), hFdef, lutFullOf_norm]
  -- every vector of a D1 polynomial is a vector of F'
  have hD1v : ∀ p ∈ D1, ∀ v ∈ p, v ∈ F' := by
    intro p hp v hv
    obtain ⟨i, hi, rfl⟩ := List.getElem_of_mem hp
    obtain ⟨x, hx, rfl⟩ := List.getElem_of_mem hv
    have hxn : x < n := by rw [← hD1n _ (List.getElem_mem hi)]; exact hx
    have hg := interleave_get n D1 x i hxn hi
    rw [List.getElem?_eq_getElem hi, Option.getD_some, List.getElem?_eq_getElem hx, Option.getD_some, hI1] at hg
    exact List.mem_of_getElem? hg
  have hD1ok : AccOK n ext size b D1 := by
    refine ⟨hD1len, fun p hp => ⟨⟨hD1n p hp, fun v hv => tableF_vec_length _ _ _ _ _ _ v (hD1v p hp v hv)⟩,
      fun v hv => hsym v (hD1v p hp v hv)⟩⟩
  have hf := accOK_facts n ext size b hb2 D1 hD1ok
  refine ⟨_, hset, rfl, lutRotate_accOK n ext size b hb2 D1 hD1ok (by omega) _, ?_⟩
  rw [lutRotate_interleave n _ D1 (by omega) hn hf.1 hf.2 (by rw [hD1len]; exact hn2) (by rw [hD1len]; omega)
    (by rw [hD1len]; omega), hI1]


theorem map_zero_eq {n size : Nat} (x : List Vec) (hx : Shaped n size x) : x.map (·.map fun _ => (0:Int)) = zeroP n size := by
  obtain ⟨hx1, hx2⟩ := hx
  unfold zeroP
  subst hx1
  induction x with
  | nil => rfl
  | cons a t ih =>
    simp only [List.map_cons, List.length_cons, List.replicate_succ, List.cons.injEq]
    refine ⟨?_, ih (fun v hv => hx2 v (List.mem_cons_of_mem _ hv))⟩
    rw [← hx2 a List.mem_cons_self]
    clear hx2 ih
    induction a with
    | nil => rfl
    | cons c u ihu => simp [List.replicate_succ, ihu]

/-- one block of `execute_standard` / `execute_block_binary` -/
def plainBlock (b : Nat) (acc : List Vec) (blk : List (Int × Int)) : List Vec :=
  let add := blk.foldl (fun add (as : Int × Int) => addP add (scaleP as.2 (subP (rotate as.1 acc) acc))) (acc.map (·.map fun _ => 0))
  (addP acc add).map (normVec b)

theorem blindPlain_eq (b block : Nat) (lut0 : List Vec) (b0 : Int) (a sk : List Int) :
    blindPlain b block lut0 (b0 :: a) sk =
      (chunksExact block (List.zip a sk).length (List.zip a sk)).foldl (plainBlock b) (rotate b0 lut0) := rfl

theorem plain_fold_zero {n size : Nat} (acc : List Vec) (hacc : Shaped n size acc) :
    ∀ (blk : List (Int × Int)) (add : List Vec), Shaped n size add → (∀ p ∈ blk, p.2 = 0) →
      blk.foldl (fun add (as : Int × Int) => addP add (scaleP as.2 (subP (rotate as.1 acc) acc))) add = add := by
  intro blk
  induction blk with
  | nil => intro add _ _; rfl
  | cons p rest ih =>
    intro add hadd hz
    simp only [List.foldl_cons]
    rw [hz p List.mem_cons_self, scaleP_zero _ (subP_shaped _ _ (rotate_shaped _ _ hacc) hacc), addP_zero _ hadd]
    exact ih add hadd (fun q hq => hz q (List.mem_cons_of_mem _ hq))

theorem plainBlock_none {n size : Nat} (b : Nat) (hb : 1 ≤ b) (hb2 : b ≤ 63) (acc : List Vec) (hacc : Shaped n size acc)
    (hsym : SymP b acc) (blk : List (Int × Int)) (hz : ∀ p ∈ blk, p.2 = 0) : plainBlock b acc blk = acc := by
  unfold plainBlock
  simp only
  rw [map_zero_eq acc hacc, plain_fold_zero acc hacc blk _ (zeroP_shaped n size) hz, addP_zero _ hacc,
    map_normVec_id b hb hb2 acc hsym]

theorem plainBlock_sel {n size : Nat} (b : Nat) (hb : 1 ≤ b) (hb2 : b ≤ 63) (acc : List Vec) (hacc : Shaped n size acc)
    (hsym : SymP b acc) (pre post : List (Int × Int)) (a : Int) (hpre : ∀ p ∈ pre, p.2 = 0) (hpost : ∀ p ∈ post, p.2 = 0) :
    plainBlock b acc (pre ++ (a, 1) :: post) = rotate a acc := by
  unfold plainBlock
  simp only
  have hR := rotate_shaped (n := n) (size := size) a acc hacc
  rw [map_zero_eq acc hacc, List.foldl_append, plain_fold_zero acc hacc pre _ (zeroP_shaped n size) hpre]
  simp only [List.foldl_cons]
  rw [scaleP_one, zero_addP _ (subP_shaped _ _ hR hacc), plain_fold_zero acc hacc post _ (subP_shaped _ _ hR hacc) hpost,
    addP_subP _ _ hacc hR, map_normVec_id b hb hb2 _ (rotate_sym b hb2 a acc hsym)]

theorem plain_fold_blocks {n size : Nat} (b : Nat) (hb : 1 ≤ b) (hb2 : b ≤ 63) (L : List Vec) (hL : InRange L) :
    ∀ (chunks : List (List (Int × Int))) (acc : List Vec) (K : Int),
      Shaped n size acc → SymP b acc → acc = rotate K L → (∀ blk ∈ chunks, BinBlock blk) →
      chunks.foldl (plainBlock b) acc = rotate (K + (chunks.map blkPhase).sum) L := by
  intro chunks
  induction chunks with
  | nil => intro acc K _ _ h _; simpa using h
  | cons blk rest ih =>
    intro acc K hsh hsy hK hblk
    have hrest := fun q hq => hblk q (List.mem_cons_of_mem _ hq)
    simp only [List.foldl_cons, List.map_cons, List.sum_cons]
    rcases hblk blk List.mem_cons_self with hz | ⟨pre, a, post, rfl, hpre, hpost⟩
    · rw [plainBlock_none b hb hb2 acc hsh hsy blk hz, blkPhase_zero blk hz]
      have := ih acc K hsh hsy hK hrest
      simpa using this
    · rw [plainBlock_sel b hb hb2 acc hsh hsy pre post a hpre hpost, blkPhase_sel pre post a hpre hpost]
      have h' : rotate a acc = rotate (a + K) L := by rw [hK, rotate_rotate _ _ _ hL]
      have := ih (rotate a acc) (a + K) (rotate_shaped a acc hsh) (rotate_sym b hb2 a acc hsy) h' hrest
      rw [this]; congr 1; ring


/-- the mod-switch of one (sign-applied) top-limb digit: `⌊(x + 2^{d-1}) / 2^d⌋` -/
def msRound (d : Nat) (x : Int) : Int := (x + 2 ^ (d - 1)) / 2 ^ d
/-- its rounding remainder `(x + 2^{d-1}) mod 2^d ∈ [0, 2^d)` -/
def msRem (d : Nat) (x : Int) : Int := (x + 2 ^ (d - 1)) % 2 ^ d

theorem msRound_mul (d : Nat) (x : Int) : msRound d x * 2 ^ d = x + (2 ^ (d - 1) - msRem d x) := by
  unfold msRound msRem
  have := Int.emod_add_mul_ediv (x + 2 ^ (d - 1)) (2 ^ d)
  have hc : (x + 2 ^ (d - 1)) / 2 ^ d * 2 ^ d = 2 ^ d * ((x + 2 ^ (d - 1)) / 2 ^ d) := by ring
  omega

theorem msErr_bound (d : Nat) (hd : 1 ≤ d) (x : Int) :
    -(2:Int) ^ (d - 1) < 2 ^ (d - 1) - msRem d x ∧ 2 ^ (d - 1) - msRem d x ≤ 2 ^ (d - 1) := by
  unfold msRem
  have hp : (0:Int) < 2 ^ d := by positivity
  have e : (2:Int) ^ d = 2 * 2 ^ (d - 1) := by
    have : d = (d - 1) + 1 := by omega
    conv => lhs; rw [this, pow_succ]
    ring
  have h0 := Int.emod_nonneg (x + 2 ^ (d - 1)) (ne_of_gt hp)
  have h1 := Int.emod_lt_of_pos (x + 2 ^ (d - 1)) hp
  constructor <;> omega

/-- exact error of the index: per-coefficient rounding errors of the selected coefficients -/
theorem phase_error_sum (d : Nat) : ∀ (xs sk : List Int),
    blkPhase (List.zip (xs.map (msRound d)) sk) * 2 ^ d =
      blkPhase (List.zip xs sk) + blkPhase (List.zip (xs.map fun x => 2 ^ (d - 1) - msRem d x) sk) := by
  intro xs
  induction xs with
  | nil => intro sk; simp [blkPhase]
  | cons x t ih =>
    intro sk
    cases sk with
    | nil => simp [blkPhase]
    | cons s u =>
      have := ih u
      unfold blkPhase at this ⊢
      simp only [List.map_cons, List.zip_cons_cons, List.sum_cons]
      have hm := msRound_mul d x
      linear_combination s * hm + this

theorem phase_error_bound (d : Nat) (hd : 1 ≤ d) : ∀ (xs sk : List Int), (∀ s ∈ sk, s = 0 ∨ s = 1) →
    (blkPhase (List.zip (xs.map fun x => 2 ^ (d - 1) - msRem d x) sk)).natAbs ≤ (sk.sum).natAbs * 2 ^ (d - 1) ∧ 0 ≤ sk.sum := by
  intro xs
  induction xs with
  | nil => intro sk hs
           refine ⟨by simp [blkPhase], ?_⟩
           induction sk with
           | nil => simp
           | cons s u ihu =>
             simp only [List.sum_cons]
             have := ihu (fun q hq => hs q (List.mem_cons_of_mem _ hq))
             rcases hs s List.mem_cons_self with h | h <;> omega
  | cons x t ih =>
    intro sk hs
    cases sk with
    | nil => simp [blkPhase]
    | cons s u =>
      have hu := ih u (fun q hq => hs q (List.mem_cons_of_mem _ hq))
      have hb := msErr_bound d hd x
      unfold blkPhase at hu ⊢
      simp only [List.map_cons, List.zip_cons_cons, List.sum_cons]
      have hp : (0:Int) < 2 ^ (d - 1) := by positivity
      generalize (List.map (fun p : Int × Int => p.1 * p.2) (List.zip (List.map (fun x => 2 ^ (d - 1) - msRem d x) t) u)).sum = E at *
      generalize u.sum = S at *
      generalize (2:Int) ^ (d - 1) - msRem d x = e at *
      have hpn : ((2:Nat) ^ (d - 1) : Int) = (2:Int) ^ (d - 1) := by push_cast; rfl
      rcases hs s List.mem_cons_self with h | h
      · subst h; simp only [Int.mul_zero, Int.zero_add]; exact hu
      · subst h
        refine ⟨?_, by omega⟩
        have h1 : (e * 1 + E).natAbs ≤ e.natAbs + E.natAbs := by rw [Int.mul_one]; exact Int.natAbs_add_le e E
        have h2 : e.natAbs ≤ 2 ^ (d - 1) := by
          zify; rw [abs_le]; constructor <;> omega
        have h3 : (1 + S).natAbs = 1 + S.natAbs := by omega
        rw [h3, Nat.add_mul, Nat.one_mul]
        omega


theorem blindPlain_rotates {n size : Nat} (b block q : Nat) (hb : 1 ≤ b) (hb2 : b ≤ 63) (hblock : 0 < block)
    (lut0 : List Vec) (hsh : Shaped n size lut0) (hsym : SymP b lut0) (b0 : Int) (a sk : List Int)
    (hq : (List.zip a sk).length = block * q)
    (hkey : ∀ blk ∈ chunksExact block (List.zip a sk).length (List.zip a sk), BinBlock blk) :
    blindPlain b block lut0 (b0 :: a) sk = rotate (b0 + blkPhase (List.zip a sk)) lut0 := by
  have hflat := chunksExact_flatten block hblock q (List.zip a sk) _ hq (Nat.le_refl _)
  rw [blindPlain_eq, plain_fold_blocks b hb hb2 lut0 (symP_inRange b hb2 lut0 hsym) _ _ b0
    (rotate_shaped b0 lut0 hsh) (rotate_sym b hb2 b0 lut0 hsym) rfl hkey, sum_flatten_phase, hflat]

end Lut
