import Poulpy.Lemmas.NttFinal

/-!
Sums of products through the NTT120 back end (the arithmetic of `vmp_apply_dft_to_dft` for one
output column): `bbc` with `ell < 10 000` rows accumulates the slot-wise products of all rows, the
forward transform is additive, hence the pipeline returns `Σ_j p_j ⋆ x_j` exactly whenever every
coefficient of the exact sum is at most `(Q−1)/2` in absolute value.
-/

namespace NttMath
variable {R : Type*} [CommRing R]

def zeros (n : Nat) : List R := List.replicate n 0

/-- coefficient-wise sum of a list of vectors of length `n` -/
def psum (n : Nat) : List (List R) → List R
  | [] => zeros n
  | l :: ls => addL l (psum n ls)

theorem psum_length (n : Nat) (ls : List (List R)) (h : ∀ l ∈ ls, l.length = n) : (psum n ls).length = n := by
  induction ls with
  | nil => simp [psum, zeros]
  | cons l ls ih =>
    simp only [psum, addL_length]
    rw [h l (by simp), ih (fun l' hl' => h l' (by simp [hl']))]; simp

theorem ev_zeros (n : Nat) (x : R) : ev (zeros n : List R) x = 0 := by
  induction n with
  | zero => rfl
  | succ n ih => simp [zeros, List.replicate_succ, ev] at *; rw [ih]; simp

theorem nttM_zeros (ω : R) (k : Nat) (hω : ω ^ 2 ^ k = -1) : nttM ω k (zeros (2 ^ k)) = zeros (2 ^ k) := by
  rw [nttM_eval ω k _ (by simp [zeros]) hω]
  have : (pts (ω * ω) k).map (fun x => ev (zeros (2 ^ k) : List R) (ω * x)) = (pts (ω * ω) k).map (fun _ => (0 : R)) := by
    apply List.map_congr_left; intro x _; exact ev_zeros _ _
  rw [this]
  unfold zeros
  rw [List.map_const', pts_length]

/-- **the forward transform is additive over arbitrary sums** -/
theorem nttM_psum (ω : R) (k : Nat) (hω : ω ^ 2 ^ k = -1) (ls : List (List R)) (h : ∀ l ∈ ls, l.length = 2 ^ k) :
    nttM ω k (psum (2 ^ k) ls) = psum (2 ^ k) (ls.map (nttM ω k)) := by
  induction ls with
  | nil => simpa [psum] using nttM_zeros ω k hω
  | cons l ls ih =>
    have hl := h l (by simp)
    have hls : ∀ l' ∈ ls, l'.length = _ := fun l' hl' => h l' (by simp [hl'])
    simp only [psum, List.map_cons]
    rw [nttM_add ω k _ _ hl (psum_length _ _ hls) hω, ih hls]

theorem addL_assoc (a b c : List R) : addL (addL a b) c = addL a (addL b c) := by
  unfold addL
  induction a generalizing b c with
  | nil => simp
  | cons x xs ih => cases b with
    | nil => simp
    | cons y ys => cases c with
      | nil => simp
      | cons z zs => simp [ih, add_assoc]

theorem addL_zeros (a : List R) : addL a (zeros a.length) = a := by
  unfold addL zeros
  induction a with
  | nil => simp
  | cons x xs ih => simp [List.replicate_succ, ih]

theorem zeros_addL (a : List R) : addL (zeros a.length) a = a := by
  unfold addL zeros
  induction a with
  | nil => simp
  | cons x xs ih => simp [List.replicate_succ, ih]

/-- a left fold of additions from the zero vector is the coefficient-wise sum -/
theorem foldl_addL (n : Nat) (ls : List (List R)) (acc : List R) (hacc : acc.length = n) (h : ∀ l ∈ ls, l.length = n) :
    ls.foldl addL acc = addL acc (psum n ls) := by
  induction ls generalizing acc with
  | nil => simp only [List.foldl_nil, psum]; rw [← hacc, addL_zeros]
  | cons l ls ih =>
    have hl := h l (by simp)
    simp only [List.foldl_cons, psum]
    rw [ih (addL acc l) (by simp [hacc, hl]) (fun l' hl' => h l' (by simp [hl'])), addL_assoc]

theorem getD_addL (a b : List R) (i : Nat) (ha : i < a.length) (hb : i < b.length) :
    (addL a b).getD i 0 = a.getD i 0 + b.getD i 0 := by
  simp [addL, List.getD, ha, hb]

theorem getD_mulL (a b : List R) (i : Nat) (ha : i < a.length) (hb : i < b.length) :
    (mulL a b).getD i 0 = a.getD i 0 * b.getD i 0 := by
  simp [mulL, List.getD, ha, hb]

theorem getD_psum (n : Nat) (ls : List (List R)) (h : ∀ l ∈ ls, l.length = n) (i : Nat) (hi : i < n) :
    (psum n ls).getD i 0 = (ls.map (fun l => l.getD i 0)).sum := by
  induction ls with
  | nil => simp [psum, zeros, List.getD, hi]
  | cons l ls ih =>
    have hl := h l (by simp)
    have hls : ∀ l' ∈ ls, l'.length = _ := fun l' hl' => h l' (by simp [hl'])
    simp only [psum, List.map_cons, List.sum_cons]
    rw [getD_addL _ _ i (by omega) (by rw [psum_length _ _ hls]; exact hi), ih hls]

end NttMath

namespace Ntt120
open NttMath

/-! ### one slot of a sum of products -/

theorem term_modEq (q a b : Nat) :
    a % 2 ^ 32 * (b % q) + a / 2 ^ 32 * (b % q * 2 ^ 32 % q) ≡ a * b [MOD q] := by
  have hs : a = a % 2 ^ 32 + 2 ^ 32 * (a / 2 ^ 32) := (Nat.mod_add_div a (2 ^ 32)).symm
  have t2 : a / 2 ^ 32 * (b % q * 2 ^ 32 % q) ≡ a / 2 ^ 32 * (b % q * 2 ^ 32) [MOD q] :=
    Nat.ModEq.mul_left _ (Nat.mod_modEq _ _)
  have := Nat.ModEq.add_left (a % 2 ^ 32 * (b % q)) t2
  refine this.trans ?_
  have e : a % 2 ^ 32 * (b % q) + a / 2 ^ 32 * (b % q * 2 ^ 32) = (a % 2 ^ 32 + 2 ^ 32 * (a / 2 ^ 32)) * (b % q) := by ring
  rw [e, ← hs]
  exact Nat.ModEq.mul_left _ (Nat.mod_modEq _ _)

/-- the `bbc` terms of a list of `(lazy residue, lazy residue to be prepared)` pairs -/
def pairTerms (q : Nat) (pairs : List (Nat × Nat)) : List Term :=
  pairs.map (fun p => ((u32Pair p.1).1, (u32Pair p.1).2, (cFromBK q p.2).getD 0 0, (cFromBK q p.2).getD 1 0))

theorem pairTerms_spec (q : Nat) (hq : 1 < q) (hq31 : q < 2 ^ 31) (pairs : List (Nat × Nat)) (hu : ∀ p ∈ pairs, p.1 < 2 ^ 64) :
    (∀ t ∈ pairTerms q pairs, Term.u32 t) ∧ cz q (dot (pairTerms q pairs)) = (pairs.map (fun p => cz q p.1 * cz q p.2)).sum := by
  induction pairs with
  | nil => simp [pairTerms, dot, cz]
  | cons p ps ih =>
    obtain ⟨i1, i2⟩ := ih (fun p' hp' => hu p' (by simp [hp']))
    have hp := hu p (by simp)
    have hr : p.2 % q < q := Nat.mod_lt _ (by omega)
    have hr2 : p.2 % q * 2 ^ 32 % q < q := Nat.mod_lt _ (by omega)
    have ec : cFromBK q p.2 = [p.2 % q, p.2 % q * 2 ^ 32 % q] := cFromBK_eq q (by omega) (by omega) p.2
    refine ⟨?_, ?_⟩
    · intro t ht
      simp only [pairTerms, List.map_cons, List.mem_cons] at ht
      rcases ht with rfl | ht
      · rw [ec]
        simp only [u32Pair, land_m32, shr_eq, List.getD_cons_zero, List.getD_cons_succ]
        refine ⟨Nat.mod_lt _ (by decide), ?_, ?_, ?_⟩
        · show p.1 / 2 ^ 32 < 2 ^ 32; omega
        · show p.2 % q < 2 ^ 32; omega
        · show p.2 % q * 2 ^ 32 % q < 2 ^ 32; omega
      · exact i1 t ht
    · have hd : dot (pairTerms q (p :: ps)) =
          (p.1 % 2 ^ 32 * (p.2 % q) + p.1 / 2 ^ 32 * (p.2 % q * 2 ^ 32 % q)) + dot (pairTerms q ps) := by
        simp only [pairTerms, dot, List.map_cons, List.sum_cons, List.map_map]
        rw [ec]
        simp only [Term.prod, u32Pair, land_m32, shr_eq, List.getD_cons_zero, List.getD_cons_succ]
      rw [hd]
      simp only [List.map_cons, List.sum_cons]
      rw [← i2]
      have := cz_eq_of_modEq (term_modEq q p.1 p.2)
      unfold cz at *
      push_cast at *
      rw [this]

/-- **one slot of `vmp`**: `bbc` over fewer than 10 000 rows is, modulo the prime, the sum of the
products of the rows' residues, without any 64-bit wrap -/
theorem slotDotK_spec (q h : Nat) (hq : 1 < q) (hq31 : q < 2 ^ 31) (hh : 16 ≤ h) (hh2 : h < 32) (pairs : List (Nat × Nat))
    (hell : pairs.length < 10000) (hu : ∀ p ∈ pairs, p.1 < 2 ^ 64) :
    cz q (slotDotK q h pairs) = (pairs.map (fun p => cz q p.1 * cz q p.2)).sum ∧ slotDotK q h pairs ≤ 2 ^ 64 - 1 := by
  obtain ⟨hu32, hdot⟩ := pairTerms_spec q hq hq31 pairs hu
  have hp1 := pow2Mod_lt 32 q hq
  have hp2 := pow2Mod_lt (32 + h) q hq
  have he1 : (32 : Nat) < 2 ^ 64 := by omega
  have he2 : 32 + h < 2 ^ 64 := by omega
  obtain ⟨_, hlt, hm⟩ := bbcK_spec q h (pow2Mod 32 q) (pow2Mod (32 + h) q) (pairTerms q pairs) hu32
    (by simp [pairTerms]; exact hell) hh hh2 (by omega) (by omega) (pow2Mod_spec 32 q hq he1) (pow2Mod_spec (32 + h) q hq he2)
  unfold slotDotK
  refine ⟨?_, ?_⟩
  · have : cz q (bbcK h (pow2Mod 32 q) (pow2Mod (32 + h) q) (pairTerms q pairs)) = cz q (dot (pairTerms q pairs)) := cz_eq_of_modEq hm
    unfold pairTerms at this hdot
    rw [this, hdot]
  · unfold pairTerms at hlt; omega

/-! ### the lane and the pipeline of a sum of products -/

theorem getD_map_cz (q : Nat) (l : List Nat) (i : Nat) (hi : i < l.length) : (l.map (cz q)).getD i 0 = cz q (l.getD i 0) := by
  simp [List.getD, hi]

theorem map_sumPolys (q n : Nat) (polys : List Poly) (h : ∀ a ∈ polys, a.length = n) :
    (Hal.sumPolys n polys).map (ci q) = psum n (polys.map (fun a => a.map (ci q))) := by
  unfold Hal.sumPolys
  have gen : ∀ (acc : Poly), (polys.foldl Hal.polyAdd acc).map (ci q) = (polys.map (fun a => a.map (ci q))).foldl addL (acc.map (ci q)) := by
    induction polys with
    | nil => intro acc; rfl
    | cons a as ih =>
      intro acc
      simp only [List.foldl_cons, List.map_cons]
      rw [ih (fun a' ha' => h a' (by simp [ha'])), map_polyAdd]
  rw [gen, foldl_addL n _ _ (by simp [Hal.zeroP]) (by
    intro l hl
    simp only [List.mem_map] at hl
    obtain ⟨a, ha, rfl⟩ := hl
    simp [h a ha])]
  have hz : (Hal.zeroP n).map (ci q) = (zeros n : List (ZMod q)) := by simp [Hal.zeroP, zeros, ci]
  rw [hz]
  have hl : (psum n (polys.map (fun a => a.map (ci q))) : List (ZMod q)).length = n := psum_length _ _ (by
    intro l hl
    simp only [List.mem_map] at hl
    obtain ⟨a, ha, rfl⟩ := hl
    simp [h a ha])
  have := zeros_addL (psum n (polys.map (fun a => a.map (ci q))) : List (ZMod q))
  rw [hl] at this
  exact this

/-- **one lane of the real sum-of-products pipeline** -/
theorem laneSumK_slots (P : PrimeSet) (k j h : Nat) (g : LaneFwd P k) (gi : LaneInv P k) (hj1 : 1 ≤ j) (hj : j ≤ 16)
    (hh : 16 ≤ h) (hh2 : h < 32) (t ti : TableK) (ht : nttTableK P k (2 ^ j) = .ok t) (hti : inttTableK P k (2 ^ j) = .ok ti)
    (rows : List (Poly × Poly)) (hell : rows.length < 10000)
    (hlen : ∀ r ∈ rows, r.1.length = 2 ^ j ∧ r.2.length = 2 ^ j)
    (hrng : ∀ r ∈ rows, (∀ c ∈ r.1, -(2 ^ 63) ≤ c ∧ c < 2 ^ 63) ∧ (∀ c ∈ r.2, -(2 ^ 63) ≤ c ∧ c < 2 ^ 63)) :
    (laneSumK (P.qs.getD k 1) h (2 ^ j) (nttK t) (inttK ti) rows).map (cz (P.qs.getD k 1)) =
      inttM (omegaInvZ P k j) (nInvZ P k j) j (psum (2 ^ j) (rows.map (fun r =>
        mulL (nttM (omegaZ P k j) j (r.2.map (ci (P.qs.getD k 1)))) (nttM (omegaZ P k j) j (r.1.map (ci (P.qs.getD k 1))))))) := by
  set q := P.qs.getD k 1 with hq
  set n := 2 ^ j with hn
  have hqg := g.q_gt
  have hql := g.q_lt
  have hω := omegaZ_pow P k j g hj
  set bf := fun (a : Poly) => a.map (fun c => bFromU64K q (asU64 c)) with hbf
  -- facts about each transformed row
  have rowfacts : ∀ r ∈ rows,
      (nttK t (bf r.2)).map (cz q) = nttM (omegaZ P k j) j (r.2.map (ci q)) ∧ (nttK t (bf r.2)).length = n ∧ AllLe (2 ^ 64 - 1) (nttK t (bf r.2)) ∧
      (nttK t (bf r.1)).map (cz q) = nttM (omegaZ P k j) j (r.1.map (ci q)) ∧ (nttK t (bf r.1)).length = n := by
    intro r hr
    obtain ⟨l1, l2⟩ := hlen r hr
    obtain ⟨r1, r2⟩ := hrng r hr
    obtain ⟨bp, up⟩ := map_bFrom q (by omega) (by omega) r.1 r1
    obtain ⟨bx, ux⟩ := map_bFrom q (by omega) (by omega) r.2 r2
    obtain ⟨ep, np, _⟩ := nttK_real P k j g hj1 hj t ht (bf r.1) (by simpa [hbf] using l1) up
    obtain ⟨ex, nx, uux⟩ := nttK_real P k j g hj1 hj t ht (bf r.2) (by simpa [hbf] using l2) ux
    rw [bp] at ep; rw [bx] at ex
    exact ⟨ex, nx, uux, ep, np⟩
  set tr := rows.map (fun r => (nttK t (bf r.2), nttK t (bf r.1))) with htr
  set slots := (List.range n).map (fun i => slotDotK q h (tr.map (fun r => (r.1.getD i 0, r.2.getD i 0)))) with hslots
  have hslen : slots.length = n := by simp [hslots]
  -- every slot
  have hslot : ∀ i, i < n → cz q (slots.getD i 0) =
      ((psum n (rows.map (fun r => mulL (nttM (omegaZ P k j) j (r.2.map (ci q))) (nttM (omegaZ P k j) j (r.1.map (ci q)))))).getD i 0) ∧
      slots.getD i 0 ≤ 2 ^ 64 - 1 := by
    intro i hi
    have e0 : slots.getD i 0 = slotDotK q h (tr.map (fun r => (r.1.getD i 0, r.2.getD i 0))) := by
      simp [hslots, List.getD, hi]
    rw [e0]
    obtain ⟨e1, e2⟩ := slotDotK_spec q h (by omega) hql hh hh2 (tr.map (fun r => (r.1.getD i 0, r.2.getD i 0)))
      (by simpa [htr] using hell) (by
        intro p hp
        simp only [htr, List.map_map, List.mem_map, Function.comp] at hp
        obtain ⟨r, hr, rfl⟩ := hp
        obtain ⟨_, nx, uux, _, _⟩ := rowfacts r hr
        have : (nttK t (bf r.2)).getD i 0 ∈ nttK t (bf r.2) := by
          rw [List.getD_eq_getElem?_getD, List.getElem?_eq_getElem (by omega)]; simp
        have := uux _ this
        simp only []; omega)
    refine ⟨?_, e2⟩
    rw [e1, getD_psum n _ (by
      intro l hl
      simp only [List.mem_map] at hl
      obtain ⟨r, hr, rfl⟩ := hl
      obtain ⟨ex, nx, _, ep, np⟩ := rowfacts r hr
      have l1 : (nttM (omegaZ P k j) j (r.2.map (ci q))).length = n := by rw [← ex]; simpa using nx
      have l2 : (nttM (omegaZ P k j) j (r.1.map (ci q))).length = n := by rw [← ep]; simpa using np
      simp [mulL, l1, l2]) i hi]
    simp only [htr, List.map_map]
    congr 1
    apply List.map_congr_left
    intro r hr
    obtain ⟨ex, nx, _, ep, np⟩ := rowfacts r hr
    simp only [Function.comp]
    have l1 : (nttM (omegaZ P k j) j (r.2.map (ci q))).length = n := by rw [← ex]; simpa using nx
    have l2 : (nttM (omegaZ P k j) j (r.1.map (ci q))).length = n := by rw [← ep]; simpa using np
    rw [getD_mulL _ _ i (by omega) (by omega), ← ex, ← ep, getD_map_cz q _ i (by omega), getD_map_cz q _ i (by omega)]
  have hsu : AllLe (2 ^ 64 - 1) slots := by
    intro x hx
    rw [List.mem_iff_getElem] at hx
    obtain ⟨i, hi, rfl⟩ := hx
    have := (hslot i (by omega)).2
    rwa [List.getD_eq_getElem?_getD, List.getElem?_eq_getElem hi] at this
  have hplen : (psum n (rows.map (fun r => mulL (nttM (omegaZ P k j) j (r.2.map (ci q))) (nttM (omegaZ P k j) j (r.1.map (ci q)))))).length = n :=
    psum_length _ _ (by
      intro l hl
      simp only [List.mem_map] at hl
      obtain ⟨r, hr, rfl⟩ := hl
      obtain ⟨ex, nx, _, ep, np⟩ := rowfacts r hr
      have l1 : (nttM (omegaZ P k j) j (r.2.map (ci q))).length = n := by rw [← ex]; simpa using nx
      have l2 : (nttM (omegaZ P k j) j (r.1.map (ci q))).length = n := by rw [← ep]; simpa using np
      simp [mulL, l1, l2])
  have hS : slots.map (cz q) = psum n (rows.map (fun r => mulL (nttM (omegaZ P k j) j (r.2.map (ci q))) (nttM (omegaZ P k j) j (r.1.map (ci q))))) := by
    apply List.ext_getElem
    · simp [hslen, hplen]
    · intro i h1 h2
      have hi : i < n := by simpa [hslen] using h1
      have := (hslot i hi).1
      rw [List.getD_eq_getElem?_getD, List.getElem?_eq_getElem (by omega),
        List.getD_eq_getElem?_getD, List.getElem?_eq_getElem h2] at this
      simpa using this
  obtain ⟨ei, _⟩ := inttK_real P k j g gi hj1 hj ti hti slots hslen hsu
  unfold laneSumK
  simp only []
  rw [ei, hS]

/-- finishing step: `Σ_j ntt(u_j) ⊙ ntt(v_j)` is the transform of `Σ_j u_j ⋆ v_j`, which `intt` returns -/
theorem inttM_psum_products (P : PrimeSet) (k j : Nat) (g : LaneFwd P k) (gi : LaneInv P k) (hj : j ≤ 16)
    (pairs : List (Poly × Poly)) (hlen : ∀ r ∈ pairs, r.1.length = 2 ^ j ∧ r.2.length = 2 ^ j) :
    inttM (omegaInvZ P k j) (nInvZ P k j) j (psum (2 ^ j) (pairs.map (fun r =>
      mulL (nttM (omegaZ P k j) j (r.1.map (ci (P.qs.getD k 1)))) (nttM (omegaZ P k j) j (r.2.map (ci (P.qs.getD k 1))))))) =
    (Hal.sumPolys (2 ^ j) (pairs.map (fun r => Hal.negMul r.1 r.2))).map (ci (P.qs.getD k 1)) := by
  set q := P.qs.getD k 1 with hq
  have hω := omegaZ_pow P k j g hj
  have hprod : pairs.map (fun r => mulL (nttM (omegaZ P k j) j (r.1.map (ci q))) (nttM (omegaZ P k j) j (r.2.map (ci q)))) =
      (pairs.map (fun r => negMulR (r.1.map (ci q)) (r.2.map (ci q)))).map (nttM (omegaZ P k j) j) := by
    rw [List.map_map]
    apply List.map_congr_left
    intro r hr
    obtain ⟨l1, l2⟩ := hlen r hr
    simp only [Function.comp]
    rw [← nttM_mul _ j _ _ (by simpa using l1) (by simpa using l2) hω]
  have hnl : ∀ l ∈ pairs.map (fun r => negMulR (r.1.map (ci q)) (r.2.map (ci q))), l.length = 2 ^ j := by
    intro l hl
    simp only [List.mem_map] at hl
    obtain ⟨r, hr, rfl⟩ := hl
    rw [negMulR_length]; simpa using (hlen r hr).2
  rw [hprod, ← nttM_psum _ j hω _ hnl,
    inttM_nttM _ _ _ j (omegaInv_spec P k j g gi hj).1 (nInv_spec P k j g gi hj).1 _ (psum_length _ _ hnl)]
  rw [map_sumPolys q (2 ^ j) _ (by
    intro a ha
    simp only [List.mem_map] at ha
    obtain ⟨r, hr, rfl⟩ := ha
    rw [Hal.negMul_length]; exact (hlen r hr).2)]
  rw [List.map_map]
  congr 1
  apply List.map_congr_left
  intro r _
  simp only [Function.comp]
  exact (map_negMul q r.1 r.2).symm

/-- **one lane of the real sum-of-products pipeline**, both orientations of the (commutative) product:
`Σ_j p_j ⋆ x_j` and `Σ_j x_j ⋆ p_j` -/
theorem laneSumK_real (P : PrimeSet) (k j h : Nat) (g : LaneFwd P k) (gi : LaneInv P k) (hj1 : 1 ≤ j) (hj : j ≤ 16)
    (hh : 16 ≤ h) (hh2 : h < 32) (t ti : TableK) (ht : nttTableK P k (2 ^ j) = .ok t) (hti : inttTableK P k (2 ^ j) = .ok ti)
    (rows : List (Poly × Poly)) (hell : rows.length < 10000)
    (hlen : ∀ r ∈ rows, r.1.length = 2 ^ j ∧ r.2.length = 2 ^ j)
    (hrng : ∀ r ∈ rows, (∀ c ∈ r.1, -(2 ^ 63) ≤ c ∧ c < 2 ^ 63) ∧ (∀ c ∈ r.2, -(2 ^ 63) ≤ c ∧ c < 2 ^ 63)) :
    (laneSumK (P.qs.getD k 1) h (2 ^ j) (nttK t) (inttK ti) rows).map (cz (P.qs.getD k 1)) =
      (Hal.sumPolys (2 ^ j) (rows.map (fun r => Hal.negMul r.1 r.2))).map (ci (P.qs.getD k 1)) ∧
    (laneSumK (P.qs.getD k 1) h (2 ^ j) (nttK t) (inttK ti) rows).map (cz (P.qs.getD k 1)) =
      (Hal.sumPolys (2 ^ j) (rows.map (fun r => Hal.negMul r.2 r.1))).map (ci (P.qs.getD k 1)) := by
  have e := laneSumK_slots P k j h g gi hj1 hj hh hh2 t ti ht hti rows hell hlen hrng
  refine ⟨?_, ?_⟩
  · rw [e]
    have := inttM_psum_products P k j g gi hj rows hlen
    rw [← this]
    congr 2
    apply List.map_congr_left
    intro r _
    exact mulL_comm _ _
  · rw [e]
    have := inttM_psum_products P k j g gi hj (rows.map (fun r => (r.2, r.1))) (by
      intro r hr
      simp only [List.mem_map] at hr
      obtain ⟨r', hr', rfl⟩ := hr
      exact ⟨(hlen r' hr').2, (hlen r' hr').1⟩)
    simp only [List.map_map, Function.comp] at this
    exact this

/-- CRT step shared by both orientations -/
theorem vmpPipeline_of_lanes (P : PrimeSet) (g : P.Good) (j : Nat) (rows : List (Poly × Poly)) (tgt : Poly) (hl : tgt.length = 2 ^ j)
    (lane : ∀ k, k < 4 → (laneSumK (P.qs.getD k 1) (bbcH P) (2 ^ j) (realNtt P (2 ^ j) k) (realIntt P (2 ^ j) k) rows).map (cz (P.qs.getD k 1)) =
      tgt.map (ci (P.qs.getD k 1)))
    (hbound : ∀ i, i < 2 ^ j → -(((bigQ P : Int) - 1) / 2) ≤ tgt.getD i 0 ∧ tgt.getD i 0 ≤ ((bigQ P : Int) - 1) / 2) :
    vmpPipeline P (2 ^ j) rows = tgt := by
  unfold vmpPipeline
  simp only []
  apply List.ext_getElem
  · simp [hl]
  · intro i h1 h2
    simp only [List.length_map, List.length_range] at h1
    rw [List.getElem_map, List.getElem_range]
    have hb := hbound i h1
    have e : tgt[i] = tgt.getD i 0 := by
      rw [List.getD_eq_getElem?_getD, List.getElem?_eq_getElem h2]; rfl
    rw [e]
    exact bToZnx128Core_exact P g _ _ _ _ _ hb.1 hb.2
      (getD_of_map_eq _ _ _ (lane 0 (by omega)) i (by omega)) (getD_of_map_eq _ _ _ (lane 1 (by omega)) i (by omega))
      (getD_of_map_eq _ _ _ (lane 2 (by omega)) i (by omega)) (getD_of_map_eq _ _ _ (lane 3 (by omega)) i (by omega))

theorem sumPolys_length (q : Nat) (n : Nat) (polys : List Poly) (h : ∀ a ∈ polys, a.length = n) : (Hal.sumPolys n polys).length = n := by
  have h1 := congrArg List.length (map_sumPolys q n polys h)
  rw [List.length_map, psum_length _ _ (by
    intro l hl
    simp only [List.mem_map] at hl
    obtain ⟨a, ha, rfl⟩ := hl
    rw [List.length_map]; exact h a ha)] at h1
  exact h1

/-- **`vmp` on the NTT120 back end is exact below `Q/2`**: for `n = 2^j`, `1 ≤ j ≤ 16`, fewer than
10 000 rows of `i64` limbs, if every coefficient of the exact sum `Σ_j p_j ⋆ x_j` is at most `(Q−1)/2` in
absolute value, the pipeline (`vmp_prepare`, `dft_apply`, `vmp_apply_dft_to_dft`, `idft_apply`) returns it exactly -/
theorem vmpPipeline_exact (P : PrimeSet) (g : P.Good) (ng : P.NttGood) (j : Nat) (hj1 : 1 ≤ j) (hj : j ≤ 16)
    (rows : List (Poly × Poly)) (hell : rows.length < 10000)
    (hlen : ∀ r ∈ rows, r.1.length = 2 ^ j ∧ r.2.length = 2 ^ j)
    (hrng : ∀ r ∈ rows, (∀ c ∈ r.1, -(2 ^ 63) ≤ c ∧ c < 2 ^ 63) ∧ (∀ c ∈ r.2, -(2 ^ 63) ≤ c ∧ c < 2 ^ 63))
    (hbound : ∀ i, i < 2 ^ j →
      -(((bigQ P : Int) - 1) / 2) ≤ (Hal.sumPolys (2 ^ j) (rows.map (fun r => Hal.negMul r.1 r.2))).getD i 0 ∧
      (Hal.sumPolys (2 ^ j) (rows.map (fun r => Hal.negMul r.1 r.2))).getD i 0 ≤ ((bigQ P : Int) - 1) / 2) :
    vmpPipeline P (2 ^ j) rows = Hal.sumPolys (2 ^ j) (rows.map (fun r => Hal.negMul r.1 r.2)) := by
  obtain ⟨hh, hh2⟩ := bbcH_range P
  apply vmpPipeline_of_lanes P g j rows _ (sumPolys_length 2 _ _ (by
    intro a ha
    simp only [List.mem_map] at ha
    obtain ⟨r, hr, rfl⟩ := ha
    rw [Hal.negMul_length]; exact (hlen r hr).2)) _ hbound
  intro k hk
  obtain ⟨gf, gi⟩ := ng k hk
  obtain ⟨t, ht⟩ := nttTableK_ok P k j gf hj1 hj
  obtain ⟨ti, hti⟩ := inttTableK_ok P k j gi hj1 hj
  rw [realNtt_eq P _ k t ht, realIntt_eq P _ k ti hti]
  exact (laneSumK_real P k j (bbcH P) gf gi hj1 hj hh hh2 t ti ht hti rows hell hlen hrng).1

/-- the same with the product written input-limb first (`Σ_j x_j ⋆ p_j`, the order of `Hal.vmpFlat`) -/
theorem vmpPipeline_exact_swapped (P : PrimeSet) (g : P.Good) (ng : P.NttGood) (j : Nat) (hj1 : 1 ≤ j) (hj : j ≤ 16)
    (rows : List (Poly × Poly)) (hell : rows.length < 10000)
    (hlen : ∀ r ∈ rows, r.1.length = 2 ^ j ∧ r.2.length = 2 ^ j)
    (hrng : ∀ r ∈ rows, (∀ c ∈ r.1, -(2 ^ 63) ≤ c ∧ c < 2 ^ 63) ∧ (∀ c ∈ r.2, -(2 ^ 63) ≤ c ∧ c < 2 ^ 63))
    (hbound : ∀ i, i < 2 ^ j →
      -(((bigQ P : Int) - 1) / 2) ≤ (Hal.sumPolys (2 ^ j) (rows.map (fun r => Hal.negMul r.2 r.1))).getD i 0 ∧
      (Hal.sumPolys (2 ^ j) (rows.map (fun r => Hal.negMul r.2 r.1))).getD i 0 ≤ ((bigQ P : Int) - 1) / 2) :
    vmpPipeline P (2 ^ j) rows = Hal.sumPolys (2 ^ j) (rows.map (fun r => Hal.negMul r.2 r.1)) := by
  obtain ⟨hh, hh2⟩ := bbcH_range P
  apply vmpPipeline_of_lanes P g j rows _ (sumPolys_length 2 _ _ (by
    intro a ha
    simp only [List.mem_map] at ha
    obtain ⟨r, hr, rfl⟩ := ha
    rw [Hal.negMul_length]; exact (hlen r hr).1)) _ hbound
  intro k hk
  obtain ⟨gf, gi⟩ := ng k hk
  obtain ⟨t, ht⟩ := nttTableK_ok P k j gf hj1 hj
  obtain ⟨ti, hti⟩ := inttTableK_ok P k j gi hj1 hj
  rw [realNtt_eq P _ k t ht, realIntt_eq P _ k ti hti]
  exact (laneSumK_real P k j (bbcH P) gf gi hj1 hj hh hh2 t ti ht hti rows hell hlen hrng).2

end Ntt120
