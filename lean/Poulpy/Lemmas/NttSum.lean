import Poulpy.Lemmas.NttFinal

/-!
Sums of products through the NTT120 back end (the arithmetic of `vmp_apply_dft_to_dft` for one
output column): `bbc` with `ell < 10 000` rows accumulates the slot-wise products of all rows, the
forward transform is additive, hence the pipeline returns `Σ_j p_j ⋆ x_j` exactly whenever every
coefficient of the exact sum is at most `(Q−1)/2` in absolute value.
-/

namespace NttMath
variable {R : Type*} [CommRing R]

def zeros (n : Nat) : List R := List.replicate n 0

/-- coefficient-wise sum of a list of vectors of length `n` -/
def psum (n : Nat) : List (List R) → List R
  | [] => zeros n
  | l :: ls => addL l (psum n ls)

theorem psum_length (n : Nat) (ls : List (List R)) (h : ∀ l ∈ ls, l.length = n) : (psum n ls).length = n := by
  induction ls with
  | nil => simp [psum, zeros]
  | cons l ls ih =>
    simp only [psum, addL_length]
    rw [h l (by simp), ih (fun l' hl' => h l' (by simp [hl']))]; simp

theorem ev_zeros (n : Nat) (x : R) : ev (zeros n : List R) x = 0 := by
  induction n with
  | zero => rfl
  | succ n ih => simp [zeros, List.replicate_succ, ev] at *; rw [ih]; simp

theorem nttM_zeros (ω : R) (k : Nat) (hω : ω ^ 2 ^ k = -1) : nttM ω k (zeros (2 ^ k)) = zeros (2 ^ k) := by
  rw [nttM_eval ω k _ (by simp [zeros]) hω]
  have : (pts (ω * ω) k).map (fun x => ev (zeros (2 ^ k) : List R) (ω * x)) = (pts (ω * ω) k).map (fun _ => (0 : R)) := by
    apply List.map_congr_left; intro x _; exact ev_zeros _ _
  rw [this]
  unfold zeros
  rw [List.map_const', pts_length]

/-- **the forward transform is additive over arbitrary sums** -/
theorem nttM_psum (ω : R) (k : Nat) (hω : ω ^ 2 ^ k = -1) (ls : List (List R)) (h : ∀ l ∈ ls, l.length = 2 ^ k) :
    nttM ω k (psum (2 ^ k) ls) = psum (2 ^ k) (ls.map (nttM ω k)) := by
  induction ls with
  | nil => simpa [psum] using nttM_zeros ω k hω
  | cons l ls ih =>
    have hl := h l (by simp)
    have hls : ∀ l' ∈ ls, l'.length = _ := fun l' hl' => h l' (by simp [hl'])
    simp only [psum, List.map_cons]
    rw [nttM_add ω k _ _ hl (psum_length _ _ hls) hω, ih hls]

theorem addL_assoc (a b c : List R) : addL (addL a b) c = addL a (addL b c) := by
  unfold addL
  induction a generalizing b c with
  | nil => simp
  | cons x xs ih => cases b with
    | nil => simp
    | cons y ys => cases c with
      | nil => simp
      | cons z zs => simp [ih, add_assoc]

theorem addL_zeros (a : List R) : addL a (zeros a.length) = a := by
  unfold addL zeros
  induction a with
  | nil => simp
  | cons x xs ih => simp [List.replicate_succ, ih]

theorem zeros_addL (a : List R) : addL (zeros a.length) a = a := by
  unfold addL zeros
  induction a with
  | nil => simp
  | cons x xs ih => simp [List.replicate_succ, ih]

/-- a left fold of additions from the zero vector is the coefficient-wise sum -/
theorem foldl_addL (n : Nat) (ls : List (List R)) (acc : List R) (hacc : acc.length = n) (h : ∀ l ∈ ls, l.length = n) :
    ls.foldl addL acc = addL acc (psum n ls) := by
  induction ls generalizing acc with
  | nil => simp only [List.foldl_nil, psum]; rw [← hacc, addL_zeros]
  | cons l ls ih =>
    have hl := h l (by simp)
    simp only [List.foldl_cons, psum]
    rw [ih (addL acc l) (by simp [hacc, hl]) (fun l' hl' => h l' (by simp [hl'])), addL_assoc]

theorem getD_addL (a b : List R) (i : Nat) (ha : i < a.length) (hb : i < b.length) :
    (addL a b).getD i 0 = a.getD i 0 + b.getD i 0 := by
  simp [addL, List.getD, ha, hb]

theorem getD_mulL (a b : List R) (i : Nat) (ha : i < a.length) (hb : i < b.length) :
    (mulL a b).getD i 0 = a.getD i 0 * b.getD i 0 := by
  simp [mulL, List.getD, ha, hb]

theorem getD_psum (n : Nat) (ls : List (List R)) (h : ∀ l ∈ ls, l.length = n) (i : Nat) (hi : i < n) :
    (psum n ls).getD i 0 = (ls.map (fun l => l.getD i 0)).sum := by
  induction ls with
  | nil => simp [psum, zeros, List.getD, hi]
  | cons l ls ih =>
    have hl := h l (by simp)
    have hls : ∀ l' ∈ ls, l'.length = _ := fun l' hl' => h l' (by simp [hl'])
    simp only [psum, List.map_cons, List.sum_cons]
    rw [getD_addL _ _ i (by omega) (by rw [psum_length _ _ hls]; exact hi), ih hls]

end NttMath

namespace Ntt120
open NttMath

/-! ### one slot of a sum of products -/

theorem term_modEq (q a b : Nat) :
    a % 2 ^ 32 * (b % q) + a / 2 ^ 32 * (b % q * 2 ^ 32 % q) ≡ a * b [MOD q] := by
  have hs : a = a % 2 ^ 32 + 2 ^ 32 * (a / 2 ^ 32) := (Nat.mod_add_div a (2 ^ 32)).symm
  have t2 : a / 2 ^ 32 * (b % q * 2 ^ 32 % q) ≡ a / 2 ^ 32 * (b % q * 2 ^ 32) [MOD q] :=
    Nat.ModEq.mul_left _ (Nat.mod_modEq _ _)
  have := Nat.ModEq.add_left (a % 2 ^ 32 * (b % q)) t2
  refine this.trans ?_
  have e : a % 2 ^ 32 * (b % q) + a / 2 ^ 32 * (b % q * 2 ^ 32) = (a % 2 ^ 32 + 2 ^ 32 * (a / 2 ^ 32)) * (b % q) := by ring
  rw [e, ← hs]
  exact Nat.ModEq.mul_left _ (Nat.mod_modEq _ _)

/-- the `bbc` terms of a list of `(lazy residue, lazy residue to be prepared)` pairs -/
def pairTerms (q : Nat) (pairs : List (Nat × Nat)) : List Term :=
  pairs.map (fun p => ((u32Pair p.1).1, (u32Pair p.1).2, (cFromBK q p.2).getD 0 0, (cFromBK q p.2).getD 1 0))

theorem pairTerms_spec (q : Nat) (hq : 1 < q) (hq31 : q < 2 ^ 31) (pairs : List (Nat × Nat)) (hu : ∀ p ∈ pairs, p.1 < 2 ^ 64) :
    (∀ t ∈ pairTerms q pairs, Term.u32 t) ∧ cz q (dot (pairTerms q pairs)) = (pairs.map (fun p => cz q p.1 * cz q p.2)).sum := by
  induction pairs with
  | nil => simp [pairTerms, dot, cz]
  | cons p ps ih =>
    obtain ⟨i1, i2⟩ := ih (fun p' hp' => hu p' (by simp [hp']))
    have hp := hu p (by simp)
    have hr : p.2 % q < q := Nat.mod_lt _ (by omega)
    have hr2 : p.2 % q * 2 ^ 32 % q < q := Nat.mod_lt _ (by omega)
    have ec : cFromBK q p.2 = [p.2 % q, p.2 % q * 2 ^ 32 % q] := cFromBK_eq q (by omega) (by omega) p.2
    refine ⟨?_, ?_⟩
    · intro t ht
      simp only [pairTerms, List.map_cons, List.mem_cons] at ht
      rcases ht with rfl | ht
      · rw [ec]
        simp only [u32Pair, land_m32, shr_eq, List.getD_cons_zero, List.getD_cons_succ]
        refine ⟨Nat.mod_lt _ (by decide), ?_, ?_, ?_⟩
        · show p.1 / 2 ^ 32 < 2 ^ 32; omega
        · show p.2 % q < 2 ^ 32; omega
        · show p.2 % q * 2 ^ 32 % q < 2 ^ 32; omega
      · exact i1 t ht
    · have hd : dot (pairTerms q (p :: ps)) =
          (p.1 % 2 ^ 32 * (p.2 % q) + p.1 / 2 ^ 32 * (p.2 % q * 2 ^ 32 % q)) + dot (pairTerms q ps) := by
        simp only [pairTerms, dot, List.map_cons, List.sum_cons, List.map_map]
        rw [ec]
        simp only [Term.prod, u32Pair, land_m32, shr_eq, List.getD_cons_zero, List.getD_cons_succ]
      rw [hd]
      simp only [List.map_cons, List.sum_cons]
      rw [← i2]
      have := cz_eq_of_modEq (term_modEq q p.1 p.2)
      unfold cz at *
      push_cast at *
      rw [this]

/-- **one slot of `vmp`**: `bbc` over fewer than 10 000 rows is, modulo the prime, the sum of the
products of the rows' residues, without any 64-bit wrap -/
theorem slotDotK_spec (q h : Nat) (hq : 1 < q) (hq31 : q < 2 ^ 31) (hh : 16 ≤ h) (hh2 : h < 32) (pairs : List (Nat × Nat))
    (hell : pairs.length < 10000) (hu : ∀ p ∈ pairs, p.1 < 2 ^ 64) :
    cz q (slotDotK q h pairs) = (pairs.map (fun p => cz q p.1 * cz q p.2)).sum ∧ slotDotK q h pairs ≤ 2 ^ 64 - 1 := by
  obtain ⟨hu32, hdot⟩ := pairTerms_spec q hq hq31 pairs hu
  have hp1 := pow2Mod_lt 32 q hq
  have hp2 := pow2Mod_lt (32 + h) q hq
  have he1 : (32 : Nat) < 2 ^ 64 := by omega
  have he2 : 32 + h < 2 ^ 64 := by omega
  obtain ⟨_, hlt, hm⟩ := bbcK_spec q h (pow2Mod 32 q) (pow2Mod (32 + h) q) (pairTerms q pairs) hu32
    (by simp [pairTerms]; exact hell) hh hh2 (by omega) (by omega) (pow2Mod_spec 32 q hq he1) (pow2Mod_spec (32 + h) q hq he2)
  unfold slotDotK
  refine ⟨?_, ?_⟩
  · have : cz q (bbcK h (pow2Mod 32 q) (pow2Mod (32 + h) q) (pairTerms q pairs)) = cz q (dot (pairTerms q pairs)) := cz_eq_of_modEq hm
    unfold pairTerms at this hdot
    rw [this, hdot]
  · unfold pairTerms at hlt; omega

end Ntt120
