import Poulpy.Lemmas.CkksMulMany
/-!
# C16: programs with products, rescales, rotations, plaintext operations and sums

`xrun_sem`: if the metadata model runs the program to `Ok mp` and every call is admissible at the pool where it is executed
(`RunAdm`), the data-path model runs it to `Ok pool'` with `pool'.cts = mp`, every ciphertext stays well formed with balanced
digits, and the tracked state (plaintext coefficients, error budget, magnitude bound) follows `xspecRun`.

Admissibility per call (`XAdm`):
* linear calls, `ckks_add_many`: nothing beyond well-formed plaintext operands — **discharged**;
* `ckks_mul_pt_vec_znx_*`: covered offset regime + numeric accumulator head-room — **discharged** (C05 + C08);
* rotations / conjugation: C03's hypotheses on the executed key switch (`AutAdm`: key relation, noise, head-room) — **discharged** from
  `glwe_automorphism_decrypts`;
* ct × ct products: the product contract `MulAdm` (discharged for rank 1 by `mulAdm_discharged` / `mulAdm_numeric`);
* `ckks_mul_{add,sub}_ct_into` / `…_pt_vec_znx_into`: the product into the temporary (same conditions as the plain product, on
  `take_mul_tmp(dst)`), then the in-place sum — nothing more;
* `ckks_dot_product_pt_vec_znx`: per operand the covered offset regime, once the accumulator head-room — **discharged**;
* `ckks_dot_product_ct`: the single pair and the un-fused path (`accumulate_unnormalized`, the sides do not have one `log_delta` each)
  under the product contract of every pair (`DotAdm`); the fused path (tensor accumulation, one relinearisation) is not admitted;
* `ckks_mul_many`: the product contract on the triples of the product tree (`MulAdmAll`; the temporaries have their own limb counts,
  the constant scales with the limbs the operands lack: `UcScaled`).
-/

namespace Ckks
open Hal Core Core.Ops C02L Ckks.Sem Ckks.CoreSem KsDec

def XOp.toOp : XOp → Op
  | .lin op => op.toOp
  | .mul d a b => .mul d a b
  | .mulAssign d a => .mulAssign d a
  | .square d a => .square d a
  | .squareAssign d => .squareAssign d
  | .mulPt d a pt _ => .mulPtZnx d a pt
  | .mulPtAssign d pt _ => .mulPtZnxAssign d pt
  | .mulAdd _ d a b => .mulAddCt d a b
  | .mulAddPt _ d a pt _ => .mulAddPtZnx d a pt
  | .addMany d as => .addMany d as
  | .mulMany d as => .mulMany d as
  | .dotCt d as bs => .dotCt d as bs
  | .dotPt d as pt _ => .dotPtZnx d as pt
  | .rot d a k => .rot d a k
  | .rotAssign d k => .rotAssign d k
  | .conj d a => .conj d a
  | .conjAssign d => .conjAssign d

/-- the tracked state after one call: `σ = 1 + Σ‖sᵢ‖₁`, `Uc` / `Ua` the error constants of the ct × ct products and of the
automorphisms (units of the result's last limb), `P` / `mp` the metadata pools before / after -/
def xspec (env : Env) (N : Nat) (ak : AutKeys) (σ Uc Ua : ℚ) (P mp : Pool) (τ : TS) : XOp → TS
  | .lin op => ⟨specM τ.M op, specE σ (ulpAt env mp op.dst) τ.E op, specB N τ.B op⟩
  | .mul d a b => specMul N σ Uc (ulpAt env mp d) (mdAt P a).logDelta (mdAt P b).logDelta τ d a b
  | .mulAssign d a => specMul N σ Uc (ulpAt env mp d) (mdAt P d).logDelta (mdAt P a).logDelta τ d d a
  | .square d a => specMul N σ Uc (ulpAt env mp d) (mdAt P a).logDelta (mdAt P a).logDelta τ d a a
  | .squareAssign d => specMul N σ Uc (ulpAt env mp d) (mdAt P d).logDelta (mdAt P d).logDelta τ d d d
  | .mulPt d a pt pg => specMulPt env N σ (ulpAt env mp d) (mdAt P a).logDelta τ d a pt pg
  | .mulPtAssign d pt pg => specMulPt env N σ (ulpAt env mp d) (mdAt P d).logDelta τ d d pt pg
  | .mulAdd sub d a b => specMulAdd N σ Uc (ulpAt env mp d) (tmpUlp env P d (prodCt env P a b)) (mdAt P a).logDelta (mdAt P b).logDelta sub τ d a b
  | .mulAddPt sub d a pt pg => specMulAddPt env N σ (ulpAt env mp d) (tmpUlp env P d (prodPt env P a pt)) (mdAt P a).logDelta sub τ d a pt pg
  | .addMany d as => specAddMany env σ P mp τ d as
  | .rot d a k => match ak.get k with
    | some key => specAut N key.p ((Ua + σ) * ulpAt env mp d) τ d a
    | none => τ
  | .rotAssign d k => match ak.get k with
    | some key => specAut N key.p (Ua * ulpAt env mp d) τ d d
    | none => τ
  | .conj d a => match ak.conj with
    | some key => specAut N key.p ((Ua + σ) * ulpAt env mp d) τ d a
    | none => τ
  | .conjAssign d => match ak.conj with
    | some key => specAut N key.p (Ua * ulpAt env mp d) τ d d
    | none => τ
  | .mulMany d as => specMulMany env N σ Uc P τ d as
  | .dotCt d as bs => specDotCt env N σ Uc P mp τ d as bs
  | .dotPt d as pt pgs => specDotPt env N σ P mp τ d as pt pgs

/-- the shape conditions of a plaintext product with destination `cd`, operand `ca` -/
def MulPtShape (env : Env) (N : Nat) (big : Bool) (cd ca : DCt) (pt : Pt) : Prop :=
  ∀ q, mulPtParams env cd.ct ca.ct pt.md pt.maxK = .ok q →
    (cnvOffsetSplit env.base2k q.cnv).1 ≤ divCeil ca.md.effK env.base2k + pt.size - 1

/-- what a call needs beyond the metadata run, at the pool where it is executed -/
def XAdm (env : Env) (N r : Nat) (mk : MulKey) (ak : AutKeys) (s : List Poly) (Uc Ua : ℚ) (pool : DPool) : XOp → Prop
  | .lin op => op.PtsOK env N
  | .mul d a b => ∀ cd ca cb, pool[d]? = some cd → pool[a]? = some ca → pool[b]? = some cb → ∀ m, mulInto env cd.ct ca.ct cb.ct = .ok m →
      ∀ q, mulCtParams env cd.ct ca.ct cb.ct = .ok q → MulAdm env N r s Uc cd ca cb (dMulInto env N mk cd ca cb) q
  | .mulAssign d a => ∀ cd ca, pool[d]? = some cd → pool[a]? = some ca → ∀ m, mulInto env cd.ct cd.ct ca.ct = .ok m →
      ∀ q, mulCtParams env cd.ct cd.ct ca.ct = .ok q → MulAdm env N r s Uc cd cd ca (dMulInto env N mk cd cd ca) q
  | .square d a => ∀ cd ca, pool[d]? = some cd → pool[a]? = some ca → ∀ m, squareInto env cd.ct ca.ct = .ok m →
      ∀ q, mulCtParams env cd.ct ca.ct ca.ct = .ok q → MulAdm env N r s Uc cd ca ca (dSquareInto env N mk cd ca) q
  | .squareAssign d => ∀ cd, pool[d]? = some cd → ∀ m, squareInto env cd.ct cd.ct = .ok m →
      ∀ q, mulCtParams env cd.ct cd.ct cd.ct = .ok q → MulAdm env N r s Uc cd cd cd (dSquareInto env N mk cd cd) q
  | .mulPt d a pt pg => PtOK env N pt pg ∧ (∀ cd ca, pool[d]? = some cd → pool[a]? = some ca → MulPtShape env N mk.big cd ca pt) ∧
      (pt.size : Int) * (N * 2 ^ env.base2k * 2 ^ env.base2k) + 8 ≤ 2 ^ (bitsOf mk.big - 2)
  | .mulPtAssign d pt pg => PtOK env N pt pg ∧ (∀ cd, pool[d]? = some cd → MulPtShape env N mk.big cd cd pt) ∧
      (pt.size : Int) * (N * 2 ^ env.base2k * 2 ^ env.base2k) + 8 ≤ 2 ^ (bitsOf mk.big - 2)
  | .mulAdd _ d a b => ∀ cd ca cb, pool[d]? = some cd → pool[a]? = some ca → pool[b]? = some cb →
      ∀ mt, mulInto env (tmpLike N cd).ct ca.ct cb.ct = .ok mt → ∀ q, mulCtParams env (tmpLike N cd).ct ca.ct cb.ct = .ok q →
        MulAdm env N r s Uc (tmpLike N cd) ca cb (dMulInto env N mk (tmpLike N cd) ca cb) q
  | .mulAddPt _ d a pt pg => PtOK env N pt pg ∧
      (∀ cd ca, pool[d]? = some cd → pool[a]? = some ca → MulPtShape env N mk.big (tmpLike N cd) ca pt) ∧
      (pt.size : Int) * (N * 2 ^ env.base2k * 2 ^ env.base2k) + 8 ≤ 2 ^ (bitsOf mk.big - 2)
  | .addMany _ _ => True
  | .mulMany d as => ∃ S, MulAdmAll env N r mk s S (UcScaled env Uc) ∧ (∀ cd, pool[d]? = some cd → cd.g.size ≤ S) ∧
      (∀ a ∈ as, ∀ ca, pool[a]? = some ca → ca.g.size ≤ S ∧ ca.md.effK ≤ S * env.base2k)
  | .rot d a k => ∃ key, ak.get k = some key ∧ ∀ cd ca, pool[d]? = some cd → pool[a]? = some ca → AutIntoAdm env N mk.big s Ua key cd ca
  | .rotAssign d k => ∃ key, ak.get k = some key ∧ ∀ cd, pool[d]? = some cd → AutAssignAdm env N mk.big s Ua key cd
  | .conj d a => ∃ key, ak.conj = some key ∧ ∀ cd ca, pool[d]? = some cd → pool[a]? = some ca → AutIntoAdm env N mk.big s Ua key cd ca
  | .conjAssign d => ∃ key, ak.conj = some key ∧ ∀ cd, pool[d]? = some cd → AutAssignAdm env N mk.big s Ua key cd
  | .dotCt d as bs =>
      (∀ xs ys, dgetAll pool d as = some xs → dgetAll pool d bs = some ys → xs.length = 1 ∨ dotUniform (xs.map DCt.ct) (ys.map DCt.ct) = false) ∧
      (∀ cd, pool[d]? = some cd → ∀ ab ∈ as.zip bs, ∀ ca cb, pool[ab.1]? = some ca → pool[ab.2]? = some cb →
        DotAdm env N r mk s Uc cd.g.size ca cb)
  | .dotPt d as pt pgs => pgs.length = as.length ∧ (∀ pg ∈ pgs, PtOK env N pt pg) ∧
      (∀ cd, pool[d]? = some cd → ∀ a ∈ as, ∀ ca, pool[a]? = some ca → ∀ res : Ct, res.size = cd.g.size →
        ∀ q, mulPtParams env res ca.ct pt.md pt.maxK = .ok q →
          (cnvOffsetSplit env.base2k q.cnv).1 ≤ divCeil ca.md.effK env.base2k + pt.size - 1) ∧
      (pt.size : Int) * (N * 2 ^ env.base2k * 2 ^ env.base2k) + 8 ≤ 2 ^ (bitsOf mk.big - 2)

/-- **one call of a program** -/
theorem xstep_sem {env : Env} (he : EnvOK env) {N r : Nat} (hN : 0 < N) {mk : MulKey} {ak : AutKeys} {pool : DPool}
    (hp : AllOK env N r pool) (s : List Poly) {Uc Ua : ℚ} (hUc : 0 ≤ Uc) (hUa : 0 ≤ Ua) (op : XOp)
    (hadm : XAdm env N r mk ak s Uc Ua pool op) {mp : Pool} (hm : stepR env (DPool.cts pool) op.toOp = .ok mp) :
    XGoal env N r mk ak s pool op mp (fun τ => xspec env N ak (sn r s) Uc Ua (DPool.cts pool) mp τ op) := by
  cases op with
  | lin op => exact xstep_lin he hp op hadm hm s
  | mul d a b => exact xstep_mul he hp hm s hUc hadm
  | mulAssign d a => exact xstep_mulAssign he hp hm s hUc hadm
  | square d a => exact xstep_square he hp hm s hUc hadm
  | squareAssign d => exact xstep_squareAssign he hp hm s hUc hadm
  | mulPt d a pt pg => exact xstep_mulPt he hN hp hadm.1 hm hadm.2.1 hadm.2.2 s
  | mulPtAssign d pt pg => exact xstep_mulPtAssign he hN hp hadm.1 hm hadm.2.1 hadm.2.2 s
  | mulAdd sub d a b => exact xstep_mulAdd he hp hm s hUc hadm
  | mulAddPt sub d a pt pg => exact xstep_mulAddPt he hN hp hadm.1 hm hadm.2.1 hadm.2.2 s
  | addMany d as => exact xstep_addMany he hp hm s
  | mulMany d as =>
    obtain ⟨S, h1, h2, h3⟩ := hadm
    exact xstep_mulMany he hp hm s h1 h2 h3
  | dotCt d as bs => exact xstep_dotCt he hN hp hm s hUc hadm.1 hadm.2
  | dotPt d as pt pgs => exact xstep_dotPt he hN hp hadm.1 hadm.2.1 hm hadm.2.2.1 hadm.2.2.2 s
  | rot d a k =>
    obtain ⟨key, hk, h⟩ := hadm
    have := xstep_rot he hN hp hk hm s hUa h
    simpa only [xspec, hk] using this
  | rotAssign d k =>
    obtain ⟨key, hk, h⟩ := hadm
    have := xstep_rotAssign he hN hp hk hm s hUa h
    simpa only [xspec, hk] using this
  | conj d a =>
    obtain ⟨key, hk, h⟩ := hadm
    have := xstep_conj he hN hp hk hm s hUa h
    simpa only [xspec, hk] using this
  | conjAssign d =>
    obtain ⟨key, hk, h⟩ := hadm
    have := xstep_conjAssign he hN hp hk hm s hUa h
    simpa only [xspec, hk] using this

/-! ### programs -/

/-- the data-path run of a program -/
def xrun (env : Env) (N : Nat) (mk : MulKey) (ak : AutKeys) : DPool → List XOp → Outcome DPool
  | pool, [] => .ok pool
  | pool, op :: rest => Core.Ops.bind (xstep env N mk ak pool op) (fun p => xrun env N mk ak p rest)

/-- every call is admissible at the pool where it is executed -/
def RunAdm (env : Env) (N r : Nat) (mk : MulKey) (ak : AutKeys) (s : List Poly) (Uc Ua : ℚ) : DPool → List XOp → Prop
  | _, [] => True
  | pool, op :: rest => XAdm env N r mk ak s Uc Ua pool op ∧
      ∀ pool', xstep env N mk ak pool op = .ok pool' → RunAdm env N r mk ak s Uc Ua pool' rest

/-- the tracked state along the metadata run -/
def xspecRun (env : Env) (N : Nat) (ak : AutKeys) (σ Uc Ua : ℚ) : Pool → TS → List XOp → TS
  | _, τ, [] => τ
  | P, τ, op :: rest =>
    match stepR env P op.toOp with
    | .ok P' => xspecRun env N ak σ Uc Ua P' (xspec env N ak σ Uc Ua P P' τ op) rest
    | _ => τ

/-- **programs with products, rescales, rotations, plaintext operations and sums.** -/
theorem xrun_sem {env : Env} (he : EnvOK env) {N r : Nat} (hN : 0 < N) {mk : MulKey} {ak : AutKeys} (s : List Poly) {Uc Ua : ℚ}
    (hUc : 0 ≤ Uc) (hUa : 0 ≤ Ua) (ops : List XOp) {pool : DPool} (hp : AllOK env N r pool)
    (hadm : RunAdm env N r mk ak s Uc Ua pool ops) {mp : Pool} (hm : run env (DPool.cts pool) (ops.map XOp.toOp) = .ok mp) :
    ∃ pool', xrun env N mk ak pool ops = .ok pool' ∧ DPool.cts pool' = mp ∧ AllOK env N r pool' ∧
      ∀ τ, TracksB s N pool τ → TracksB s N pool' (xspecRun env N ak (sn r s) Uc Ua (DPool.cts pool) τ ops) := by
  induction ops generalizing pool with
  | nil =>
    simp only [List.map_nil, run] at hm
    injection hm with hm
    exact ⟨pool, rfl, hm, hp, fun τ hτ => hτ⟩
  | cons op rest ih =>
    simp only [List.map_cons, run] at hm
    cases h1 : stepR env (DPool.cts pool) op.toOp with
    | ok P' =>
      rw [h1] at hm
      obtain ⟨pool1, e1, c1, ok1, t1⟩ := xstep_sem he hN hp s hUc hUa op hadm.1 h1
      subst c1
      obtain ⟨pool', e2, c2, ok2, t2⟩ := ih ok1 (hadm.2 pool1 e1) hm
      refine ⟨pool', by simp only [xrun, e1, Core.Ops.bind]; exact e2, c2, ok2, fun τ hτ => ?_⟩
      simp only [xspecRun, h1]
      exact t2 _ (t1 τ hτ)
    | err e P' => rw [h1] at hm; cases hm
    | panic p => rw [h1] at hm; cases hm

end Ckks
