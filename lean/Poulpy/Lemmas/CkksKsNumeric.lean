import Poulpy.Lemmas.KsDecrypt
import Poulpy.Lemmas.CkksAccBound
/-!
# C16: the data-dependent hypotheses of C03's key switch as numeric shape conditions (`dsize = 1`)

For keys with one limb per gadget digit (`dsize = 1`: the keys of the CKKS layer), the three data-dependent hypotheses of
`glwe_keyswitch_decrypts` / `glwe_automorphism_decrypts` / `RelinAdm` follow from digit bounds:
* `prodOf_bound_d1`: the product accumulators are within `colsIn·rows·N·A·K` (`A`, `K`: digit bounds of the input mask and of the key);
* `gadgetBound_d1`: C03's gadget-noise term is within `colsIn·rows·N·A·Emax` (`‖EL i r‖∞ ≤ Emax`);
* `dropBound_d1`: the dropped-limb term is zero.
-/

namespace Ckks.KsNum
open Hal Core Core.Ops C02L KsDec

theorem hal_norm1_le (p : Poly) (H : Int) (h : ∀ x ∈ p, |x| ≤ H) : Hal.norm1 p ≤ p.length * H := by
  induction p with
  | nil => simp
  | cons x xs ih =>
    rw [Hal.norm1_cons, List.length_cons]
    have h1 := h x (by simp)
    have h2 := ih (fun y hy => h y (by simp [hy]))
    push_cast
    linarith

theorem limbOr0_entries (N : Nat) (c : Col) (A : Int) (hA : 0 ≤ A) (h : ∀ l ∈ c, ∀ x ∈ l, |x| ≤ A) (j : Nat) :
    ∀ x ∈ limbOr0 N c j, |x| ≤ A := AccBound.limbOr0_bound N c A hA h j

/-- `dsize = 1`: the gadget digit `r` of column `i` is limb `r` of that column (or zero) -/
theorem digitL_norm1_d1 (N b : Nat) (a : Buf) (key : Ks.Key) (hd : key.dsize = 1) (i r : Nat) (A : Int) (hA : 0 ≤ A)
    (hlen : ∀ c l, (limbOr0 N (a.act c) l).length = N) (hb : ∀ l ∈ a.act i, ∀ x ∈ l, |x| ≤ A) :
    Hal.norm1 (Ks.digitL N b a key i r) ≤ N * A := by
  unfold Ks.digitL
  rw [hd]
  simp only [List.range_one, List.foldl_cons, List.foldl_nil, Nat.mul_zero, pow_zero]
  have hnn : (0 : Int) ≤ N * A := by positivity
  split
  · refine (Ks.norm1_polyAdd_le _ _).trans ?_
    rw [Hal.norm1_zeroP, Ks.norm1_polyScale, zero_add, abs_one, one_mul]
    have := hal_norm1_le _ A (limbOr0_entries N (a.act i) A hA hb (Gadget.limbIdx 1 r 0))
    rw [hlen] at this
    exact this
  · rw [Hal.norm1_zeroP]; exact hnn

theorem sum_le_card_mul {ι : Type} (s : Finset ι) (f : ι → Int) (B : Int) (h : ∀ i ∈ s, f i ≤ B) : ∑ i ∈ s, f i ≤ s.card * B := by
  calc ∑ i ∈ s, f i ≤ ∑ _i ∈ s, B := Finset.sum_le_sum h
    _ = s.card * B := by rw [Finset.sum_const]; simp

/-- **gadget noise, `dsize = 1`** -/
theorem gadgetBound_d1 (N b : Nat) (a : Buf) (key : Ks.Key) (hd : key.dsize = 1) (EL : ℕ → ℕ → Poly) (A Emax : Int) (hA : 0 ≤ A)
    (hE0 : 0 ≤ Emax) (hlen : ∀ c l, (limbOr0 N (a.act c) l).length = N) (hb : ∀ i, ∀ l ∈ a.act i, ∀ x ∈ l, |x| ≤ A)
    (hE : ∀ i r, Hal.normInf (EL i r) ≤ Emax) :
    gadgetBound N b a key EL ≤ key.mat.colsIn * (key.mat.rows * (N * A * Emax)) := by
  unfold gadgetBound
  have := sum_le_card_mul (Finset.range key.mat.colsIn)
    (fun i => ∑ r ∈ Finset.range key.mat.rows, Hal.norm1 (Ks.digitL N b a key i r) * Hal.normInf (EL i r)) (key.mat.rows * (N * A * Emax))
    (fun i _ => by
      have := sum_le_card_mul (Finset.range key.mat.rows)
        (fun r => Hal.norm1 (Ks.digitL N b a key i r) * Hal.normInf (EL i r)) (N * A * Emax)
        (fun r _ => by
          have h1 := digitL_norm1_d1 N b a key hd i r A hA hlen (hb i)
          have h2 := hE i r
          have h3 := Hal.norm1_nonneg (Ks.digitL N b a key i r)
          have h4 := Hal.normInf_nonneg (EL i r)
          calc Hal.norm1 (Ks.digitL N b a key i r) * Hal.normInf (EL i r) ≤ (N * A) * Emax := mul_le_mul h1 h2 h4 (by positivity)
            _ = _ := by ring)
      simpa using this)
  simpa using this

/-- **dropped limbs, `dsize = 1`**: nothing is dropped -/
theorem dropBound_d1 (N b : Nat) (sk : List Poly) (a : Buf) (key : Ks.Key) (hd : key.dsize = 1) : dropBound N b sk a key = 0 := by
  unfold dropBound
  apply Finset.sum_eq_zero; intro i _
  apply Finset.sum_eq_zero; intro di hdi
  apply Finset.sum_eq_zero; intro r _
  apply Finset.sum_eq_zero; intro l hl
  rw [hd] at hdi ⊢
  have hdi0 : di = 0 := by simpa using hdi
  subst hdi0
  rw [if_neg]
  simp only [Gadget.szOf]
  have := Finset.mem_range.mp hl
  omega

theorem getD_cases {α : Type} (L : List α) (j : Nat) (d : α) : L.getD j d = d ∨ L.getD j d ∈ L := by
  by_cases h : j < L.length
  · right; rw [List.getD_eq_getElem?_getD, List.getElem?_eq_getElem h]; exact List.getElem_mem h
  · left; rw [List.getD_eq_getElem?_getD, List.getElem?_eq_none (by omega)]; rfl

theorem zeroP_entries (n : Nat) (B : Int) (hB : 0 ≤ B) : ∀ x ∈ zeroP n, |x| ≤ B := by
  intro x hx; simp [zeroP] at hx; rw [hx.2]; simpa using hB

/-- **product accumulators, `dsize = 1`**: every coefficient of `gglwe_product_dft(0, a_dft, key)` is within
`colsIn·rows·N·A·K` -/
theorem prodOf_bound_d1 (N rout : Nat) (a : Ks.Ct) (key : Ks.Key) (hd : key.dsize = 1) (ha : GWF N a)
    (A Kb : Int) (hA0 : 0 ≤ A) (hK0 : 0 ≤ Kb)
    (hA : ∀ c ∈ a.cols, ∀ l ∈ c, ∀ x ∈ l, |x| ≤ A) (hK : ∀ j q, ∀ x ∈ key.mat.entry j q, |x| ≤ Kb) (c : Nat) (hc : c < rout + 1) :
    ∀ l ∈ (prodOf rout a key).act c, ∀ x ∈ l, |x| ≤ ((key.mat.colsIn * key.mat.rows : Nat) : Int) * (N * A * Kb) := by
  obtain ⟨dwf, dcols, dsz, dn, dact, dA⟩ := aDft_spec a ha
  have hn : a.n = N := ha.1
  have z_wf := Ks.zeroBuf_WF a.n (rout + 1) key.size
  have e : prodOf rout a key = opVmp (Ks.zeroBuf a.n (rout + 1) key.size) (aDftOf a) key.mat 0 := by
    unfold prodOf Ks.gglweProductDft; rw [if_pos hd]
  obtain ⟨s1, s2, s3, s4, _, s6⟩ := Ks.opVmp_spec (Ks.zeroBuf a.n (rout + 1) key.size) (aDftOf a) key.mat 0 z_wf
  rw [e]
  set R := opVmp (Ks.zeroBuf a.n (rout + 1) key.size) (aDftOf a) key.mat 0 with hR
  have hzc : (Ks.zeroBuf a.n (rout + 1) key.size).cols = rout + 1 := rfl
  have hzs : (Ks.zeroBuf a.n (rout + 1) key.size).size = key.size := rfl
  have hB0 : (0 : Int) ≤ ((key.mat.colsIn * key.mat.rows : Nat) : Int) * (N * A * Kb) := by positivity
  -- the flat input
  have hflatmem : ∀ p ∈ (aDftOf a).flat, (∀ x ∈ p, |x| ≤ A) ∧ p.length = N := by
    intro p hp
    unfold Buf.flat at hp
    obtain ⟨r, hr, rfl⟩ := List.mem_map.mp hp
    have hrr := List.mem_range.mp hr
    rw [dn]
    refine ⟨AccBound.limbOr0_bound N _ A hA0 ?_ _, dA _ _⟩
    intro l hl y hy
    have hcpos : 0 < (aDftOf a).cols := by
      rcases Nat.eq_zero_or_pos (aDftOf a).cols with h0 | h0
      · rw [h0] at hrr; simp at hrr
      · exact h0
    have hcl : r % (aDftOf a).cols < a.rank := by rw [← dcols]; exact Nat.mod_lt _ hcpos
    rw [dact _ hcl] at hl
    have hmem : a.cols.getD (r % (aDftOf a).cols + 1) [] ∈ a.cols := col_mem _ (by rw [ha.len]; omega)
    exact hA _ hmem l hl y hy
  have hflat : ∀ j, (∀ x ∈ (aDftOf a).flat.getD j (zeroP N), |x| ≤ A) ∧ ((aDftOf a).flat.getD j (zeroP N)).length = N := by
    intro j
    rcases getD_cases (aDftOf a).flat j (zeroP N) with h | h
    · rw [h]; exact ⟨zeroP_entries N A hA0, by simp [zeroP]⟩
    · exact hflatmem _ h
  -- the entries of the flat product
  have hvmp : ∀ p ∈ vmpFlat N (aDftOf a).flat key.mat 0 (key.size * (rout + 1)), ∀ x ∈ p,
      |x| ≤ ((key.mat.colsIn * key.mat.rows : Nat) : Int) * (N * A * Kb) := by
    intro p hp x hx
    unfold vmpFlat at hp
    obtain ⟨r, _, rfl⟩ := List.mem_map.mp hp
    split at hx
    · have hb := AccBound.sumPolys_bound N _ (N * A * Kb) (by
        intro q hq y hy
        obtain ⟨t, _, rfl⟩ := List.mem_map.mp hq
        have h2 := CoreEnc.negMul_bound _ _ (hK t (r + 0 * key.mat.colsOut)) y hy
        have h3 := AccBound.norm1_le _ A (hflat t).1
        rw [(hflat t).2] at h3
        exact h2.trans (mul_le_mul_of_nonneg_right h3 hK0)) x hx
      refine hb.trans (mul_le_mul_of_nonneg_right ?_ (by positivity))
      simp only [List.length_map, List.length_range]
      have : min (key.mat.colsIn * key.mat.rows) (aDftOf a).flat.length ≤ key.mat.colsIn * key.mat.rows := Nat.min_le_left _ _
      exact_mod_cast this
    · exact zeroP_entries N _ hB0 x hx
  intro l hl x hx
  obtain ⟨j, hj, rfl⟩ := List.getElem_of_mem hl
  have hlen : (R.act c).length = key.size := by
    rw [Buf.act_length _ s1 c (by rw [s2, hzc]; exact hc), s3, hzs]
  have hj' : j < key.size := by rw [← hlen]; exact hj
  have e2 : (R.act c)[j] = Ks.rawLimb a.n R c j := by
    have h1 : (R.act c)[j] = (R.act c).getD j (zeroP a.n) := by
      simp [List.getD_eq_getElem?_getD, List.getElem?_eq_getElem hj]
    rw [h1]
    unfold Ks.rawLimb limbOr0 Buf.act
    exact Ks.getD_take' _ _ j _ (by rw [s3, hzs]; exact hj')
  have hs6 := s6 c j (by rw [hzc]; exact hc)
  rw [if_pos (by rw [hzs]; exact hj')] at hs6
  have hzn' : (Ks.zeroBuf a.n (rout + 1) key.size).n = a.n := rfl
  rw [hzn'] at hs6
  rw [e2, hs6, hn] at hx
  have hx : x ∈ (vmpFlat N (aDftOf a).flat key.mat 0 (key.size * (rout + 1))).getD (j * (rout + 1) + c) (zeroP N) := hx
  rcases getD_cases (vmpFlat N (aDftOf a).flat key.mat 0 (key.size * (rout + 1))) (j * (rout + 1) + c) (zeroP N) with h | h
  · rw [h] at hx; exact zeroP_entries N _ hB0 x hx
  · exact hvmp _ h x hx

end Ckks.KsNum
