import Poulpy.Model.AvxNtt
import Poulpy.Lemmas.Ntt120Acc
import Poulpy.Lemmas.Ntt120Crt
import Std.Tactic.BVDecide
import Poulpy.Lemmas.NttRefine
import Poulpy.Lemmas.AvxQ120
/-
C10: the integer AVX2 kernels of the NTT120 back end, lane by lane, equal the reference kernels modelled in
`Model/Ntt120.lean` (C07) for all operands in the documented ranges.
Method: every intrinsic has a `toNat` law; a lane equation `(avx …).toNat = Ntt120.f (….toNat)` is then a statement
about `Nat` with explicit `% 2^64`, closed with the range hypotheses.
-/
namespace Avx.Ntt
open Avx Ntt120

/-! ### `toNat` laws of the intrinsics -/

theorem toNat_add (a b : W) : (add_epi64 a b).toNat = wu64 (a.toNat + b.toNat) := by
  simp [add_epi64, wu64, BitVec.toNat_add]

theorem toNat_sub (a b : W) : (sub_epi64 a b).toNat = subU64 a.toNat b.toNat := by
  unfold sub_epi64 subU64
  rw [BitVec.toNat_sub, Nat.mod_eq_of_lt b.isLt, Nat.add_comm]

theorem toNat_and (a b : W) : (and_si256 a b).toNat = a.toNat &&& b.toNat := by simp [and_si256]

theorem toNat_srl (a c : W) : (srl_epi64 a c).toNat = a.toNat >>> c.toNat := by
  unfold srl_epi64
  by_cases h : c < 64#64
  · simp [h]
  · simp only [h, if_false]
    have hc : 64 ≤ c.toNat := by
      have : ¬ (c.toNat < 64) := by simpa [BitVec.lt_def] using h
      omega
    have : a.toNat >>> c.toNat = 0 := by
      rw [Nat.shiftRight_eq_div_pow]
      apply Nat.div_eq_of_lt
      calc a.toNat < 2 ^ 64 := a.isLt
        _ ≤ 2 ^ c.toNat := Nat.pow_le_pow_right (by decide) hc
    simp [this]

theorem toNat_srli32 (a : W) : (srli_epi64 a 32).toNat = a.toNat >>> 32 := by simp [srli_epi64]

theorem toNat_mul_epu32 (a b : W) : (mul_epu32 a b).toNat = (a.toNat % 2 ^ 32) * (b.toNat % 2 ^ 32) := by
  unfold mul_epu32
  have ha : (a &&& 0xFFFFFFFF#64).toNat = a.toNat % 2 ^ 32 := by
    rw [BitVec.toNat_and]; exact Nat.and_two_pow_sub_one_eq_mod _ 32
  have hb : (b &&& 0xFFFFFFFF#64).toNat = b.toNat % 2 ^ 32 := by
    rw [BitVec.toNat_and]; exact Nat.and_two_pow_sub_one_eq_mod _ 32
  rw [BitVec.toNat_mul, ha, hb]
  apply Nat.mod_eq_of_lt
  exact mul_u32_lt _ _ (Nat.mod_lt _ (by decide)) (Nat.mod_lt _ (by decide))

/-! ### `split_precompmul_si256`, `modq_red_si256` -/

/-- `split_precompmul_si256` = `split_precompmul` whenever both multiplicands handed to `_mm256_mul_epu32` fit in 32 bits
(`inp & mask < 2^32`, `inp >> half_bs < 2^32`): the reference multiplies full `u64` words -/
theorem splitPrecompmul_eq (inp po h mask : W) (h1 : inp.toNat &&& mask.toNat < 2 ^ 32) (h2 : inp.toNat >>> h.toNat < 2 ^ 32) :
    (splitPrecompmulSi256 inp po h mask).toNat = splitPrecompmul inp.toNat po.toNat h.toNat mask.toNat := by
  unfold splitPrecompmulSi256 splitPrecompmul
  simp only [toNat_add, toNat_mul_epu32, toNat_and, toNat_srl, toNat_srli32]
  have e : (0xFFFFFFFF : Nat) = 2 ^ 32 - 1 := by norm_num
  have hp : po.toNat >>> 32 < 2 ^ 32 := by
    rw [Nat.shiftRight_eq_div_pow]
    exact Nat.div_lt_of_lt_mul (by have := po.isLt; omega)
  rw [e, Nat.and_two_pow_sub_one_eq_mod, Nat.mod_eq_of_lt h1, Nat.mod_eq_of_lt h2, Nat.mod_eq_of_lt hp]
  have m1 := mul_u32_lt _ _ h1 (Nat.mod_lt po.toNat (by decide : 0 < 2 ^ 32))
  have m2 := mul_u32_lt _ _ h2 hp
  rw [wu64_of_lt _ m1, wu64_of_lt _ m2]

/-- outside that range they differ (here `half_bs = 33`: the low part has 33 bits) -/
theorem splitPrecompmul_differs_outside :
    (splitPrecompmulSi256 (1#64 <<< 32) 1#64 33#64 ((1#64 <<< 33) - 1#64)).toNat
      ≠ splitPrecompmul (2 ^ 32) 1 33 (2 ^ 33 - 1) := by decide

/-- `modq_red_si256` = `modq_red` whenever `x >> h` and the reduction constant fit in 32 bits -/
theorem modqRed_eq (x h mask cst : W) (h1 : x.toNat >>> h.toNat < 2 ^ 32) (h2 : cst.toNat < 2 ^ 32) :
    (modqRedSi256 x h mask cst).toNat = modqRed x.toNat h.toNat mask.toNat cst.toNat := by
  unfold modqRedSi256 modqRed
  simp only [toNat_add, toNat_mul_epu32, toNat_and, toNat_srl]
  rw [Nat.mod_eq_of_lt h1, Nat.mod_eq_of_lt h2, wu64_of_lt _ (mul_u32_lt _ _ h1 h2)]

theorem modqRed_differs_outside :
    (modqRedSi256 (1#64 <<< 40) 4#64 15#64 3#64).toNat ≠ modqRed (2 ^ 40) 4 15 3 := by decide

/-! ### butterfly lanes of `ntt_iter[_red]`, `intt_iter[_red]`, `ntt_iter_first[_red]` -/

/-- the reference metadata a lane's constants stand for -/
def stepOf (m : StepC) (bs : Nat) : StepMeta :=
  { q2bs := m.q2bs.toNat, bs := bs, halfBs := m.halfBs.toNat, mask := m.mask.toNat, reduce := m.reduce }
def redOf (r : RedC) : ReducK := { h := r.h.toNat, mask := r.mask.toNat, cst := r.cst.toNat }

/-- operand range of the lazy reduction (only needed when the level reduces) -/
def RedRange (r : RedC) (m : StepC) (x : W) : Prop := m.reduce = true → x.toNat >>> r.h.toNat < 2 ^ 32 ∧ r.cst.toNat < 2 ^ 32
/-- operand range of the twiddle multiplication -/
def SpmRange (m : StepC) (v : Nat) : Prop := v &&& m.mask.toNat < 2 ^ 32 ∧ v >>> m.halfBs.toNat < 2 ^ 32

theorem redIf_eq (r : RedC) (m : StepC) (bs : Nat) (x : W) (hx : RedRange r m x) :
    (Ntt.redIf r m x).toNat = Ntt120.redIf (redOf r) (stepOf m bs) x.toNat := by
  unfold Ntt.redIf Ntt120.redIf stepOf redOf
  by_cases h : m.reduce = true
  · simp only [h, if_true]; exact modqRed_eq x r.h r.mask r.cst (hx h).1 (hx h).2
  · have h' : m.reduce = false := by cases hm : m.reduce <;> simp_all
    simp [h']

/-- butterfly `i = 0` (forward and inverse): AVX lane pair = `bfly` of the reference -/
theorem bfly0_eq (r : RedC) (m : StepC) (bs : Nat) (a b : W) (ha : RedRange r m a) (hb : RedRange r m b) :
    ((bfly0 r m a b).1.toNat, (bfly0 r m a b).2.toNat) = Ntt120.bfly (redOf r) (stepOf m bs) a.toNat b.toNat := by
  unfold bfly0 Ntt120.bfly
  simp only [toNat_add, toNat_sub, redIf_eq r m bs a ha, redIf_eq r m bs b hb]
  rfl

/-- forward butterfly `i ≥ 1` = one step of `fwdTail`: `(x, split_precompmul(y, po))` with `(x, y) = bfly(a, b)` -/
theorem fwdBflyI_eq (r : RedC) (m : StepC) (bs : Nat) (a b po : W) (ha : RedRange r m a) (hb : RedRange r m b)
    (hd : SpmRange m (Ntt120.bfly (redOf r) (stepOf m bs) a.toNat b.toNat).2) :
    ((fwdBflyI r m a b po).1.toNat, (fwdBflyI r m a b po).2.toNat) =
      ((Ntt120.bfly (redOf r) (stepOf m bs) a.toNat b.toNat).1,
       splitPrecompmul (Ntt120.bfly (redOf r) (stepOf m bs) a.toNat b.toNat).2 po.toNat m.halfBs.toNat m.mask.toNat) := by
  have hb0 := bfly0_eq r m bs a b ha hb
  unfold bfly0 at hb0
  have h1 := congrArg Prod.fst hb0
  have h2 := congrArg Prod.snd hb0
  simp only [] at h1 h2
  unfold fwdBflyI
  simp only []
  rw [← h2] at hd
  rw [splitPrecompmul_eq _ po m.halfBs m.mask hd.1 hd.2, h1, h2]

/-- inverse butterfly `i ≥ 1` = one step of `invTail` -/
theorem invBflyI_eq (r : RedC) (m : StepC) (bs : Nat) (a b po : W) (ha : RedRange r m a) (hb : RedRange r m b)
    (hd : SpmRange m (Ntt120.redIf (redOf r) (stepOf m bs) b.toNat)) :
    ((invBflyI r m a b po).1.toNat, (invBflyI r m a b po).2.toNat) =
      (let a' := Ntt120.redIf (redOf r) (stepOf m bs) a.toNat
       let bo := splitPrecompmul (Ntt120.redIf (redOf r) (stepOf m bs) b.toNat) po.toNat m.halfBs.toNat m.mask.toNat
       (wu64 (a' + bo), subU64 (wu64 (a' + m.q2bs.toNat)) bo)) := by
  unfold invBflyI
  simp only []
  rw [← redIf_eq r m bs b hb] at hd
  simp only [toNat_add, toNat_sub, splitPrecompmul_eq _ po m.halfBs m.mask hd.1 hd.2, redIf_eq r m bs a ha, redIf_eq r m bs b hb]

/-- first / last pass -/
theorem iterFirst_eq (r : RedC) (m : StepC) (bs : Nat) (x po : W) (hx : RedRange r m x)
    (hd : SpmRange m (Ntt120.redIf (redOf r) (stepOf m bs) x.toNat)) :
    (iterFirst r m x po).toNat = splitPrecompmul (Ntt120.redIf (redOf r) (stepOf m bs) x.toNat) po.toNat m.halfBs.toNat m.mask.toNat := by
  unfold iterFirst
  rw [← redIf_eq r m bs x hx] at hd
  rw [splitPrecompmul_eq _ po m.halfBs m.mask hd.1 hd.2, redIf_eq r m bs x hx]

/-- the ranges follow from C07's table invariants: `ReducOK` gives the reduction range for every `u64` -/
theorem redRange_of_ok (q : Nat) (r : RedC) (m : StepC) (x : W) (ok : ReducOK q (redOf r)) : RedRange r m x := by
  intro _
  have h33 := ok.h_ge
  have hc := ok.cst_lt
  simp only [redOf] at h33 hc
  refine ⟨?_, by omega⟩
  rw [Nat.shiftRight_eq_div_pow]
  have h1 : 2 ^ 33 ≤ 2 ^ r.h.toNat := Nat.pow_le_pow_right (by decide) h33
  have h2 : x.toNat / 2 ^ r.h.toNat ≤ x.toNat / 2 ^ 33 := Nat.div_le_div_left h1 (by decide)
  have := x.isLt
  omega

/-- … and `SpmOK` (mask `= 2^half_bs − 1`, `half_bs ≤ 32`, operand below `2^(2·half_bs)`) gives the multiplication range -/
theorem spmRange_of_ok (q : Nat) (m : StepC) (bs D v : Nat) (ok : SpmOK q (stepOf m bs) D) (hv : v ≤ D) : SpmRange m v := by
  have hm := ok.mask_eq
  have hb := ok.hb_le
  have hD := ok.inp_lt
  simp only [stepOf] at hm hb hD
  have hpos : 0 < 2 ^ m.halfBs.toNat := Nat.two_pow_pos _
  have hle : 2 ^ m.halfBs.toNat ≤ 2 ^ 32 := Nat.pow_le_pow_right (by decide) hb
  constructor
  · rw [hm, Nat.and_two_pow_sub_one_eq_mod]
    have := Nat.mod_lt v hpos
    omega
  · rw [Nat.shiftRight_eq_div_pow]
    have : v / 2 ^ m.halfBs.toNat < 2 ^ m.halfBs.toNat := by
      rw [Nat.div_lt_iff_lt_mul hpos, ← pow_add]
      have e : m.halfBs.toNat + m.halfBs.toNat = 2 * m.halfBs.toNat := by ring
      rw [e]; omega
    omega

/-! ### `prim.rs`: lazy q120b add / sub / negate -/

/-- `lazy_reduce`: the `xor msb` + signed `cmpgt` + `andnot` + `sub` sequence is one unsigned conditional subtraction,
for ALL 64-bit lanes -/
theorem lazyReduce_bv (x qs : W) : lazyReduce x qs = if qs ≤ x then x - qs else x := by
  simp only [lazyReduce, msbC, xor_si256, cmpgt_epi64, andnot_si256, sub_epi64, allOnes]
  bv_decide

theorem lazyReduce_toNat (q : Nat) (x qs : W) (hq : qs.toNat = qShifted q) :
    (lazyReduce x qs).toNat = lazyReduceAvx q x.toNat := by
  rw [lazyReduce_bv]
  unfold lazyReduceAvx
  rw [← hq]
  by_cases h : qs ≤ x
  · have h' : x.toNat ≥ qs.toNat := by simpa [BitVec.le_def] using h
    rw [if_pos h, if_pos h']
    have := toNat_sub x qs
    unfold sub_epi64 at this
    exact this
  · have h' : ¬ x.toNat ≥ qs.toNat := by simpa [BitVec.le_def] using h
    rw [if_neg h, if_neg h']

/-- the seven lazy kernels, one lane, every `u64` input: AVX intrinsic sequence = C07's arithmetic twin -/
theorem nttAdd_toNat (q : Nat) (qs a b : W) (hq : qs.toNat = qShifted q) :
    (nttAdd qs a b).toNat = addBbbAvxK q a.toNat b.toNat := by
  unfold nttAdd addBbbAvxK
  rw [toNat_add, lazyReduce_toNat q a qs hq, lazyReduce_toNat q b qs hq]
theorem nttSub_toNat (q : Nat) (qs a b : W) (hq : qs.toNat = qShifted q) :
    (nttSub qs a b).toNat = subBbbAvxK q a.toNat b.toNat := by
  unfold nttSub subBbbAvxK
  rw [toNat_add, toNat_sub, lazyReduce_toNat q a qs hq, lazyReduce_toNat q b qs hq, hq]
theorem nttNegate_toNat (q : Nat) (qs a : W) (hq : qs.toNat = qShifted q) :
    (nttNegate qs a).toNat = negBAvxK q a.toNat := by
  unfold nttNegate negBAvxK
  rw [toNat_sub, lazyReduce_toNat q a qs hq, hq]

/-- … hence equal to the reference kernels (`%` by `Q_SHIFTED`) on the documented lazy range `x < 2·Q_SHIFTED` -/
theorem nttAdd_eq_ref (q : Nat) (qs a b : W) (hq : qs.toNat = qShifted q) (hq0 : 0 < q) (hq30 : q < 2 ^ 30)
    (ha : a.toNat < 2 * (q * 2 ^ 33)) (hb : b.toNat < 2 * (q * 2 ^ 33)) : (nttAdd qs a b).toNat = addBbbK q a.toNat b.toNat := by
  rw [nttAdd_toNat q qs a b hq, addBbbAvxK_eq q _ _ hq0 hq30 ha hb]
theorem nttSub_eq_ref (q : Nat) (qs a b : W) (hq : qs.toNat = qShifted q) (hq0 : 0 < q) (hq30 : q < 2 ^ 30)
    (ha : a.toNat < 2 * (q * 2 ^ 33)) (hb : b.toNat < 2 * (q * 2 ^ 33)) : (nttSub qs a b).toNat = subBbbK q a.toNat b.toNat := by
  rw [nttSub_toNat q qs a b hq, subBbbAvxK_eq q _ _ hq0 hq30 ha hb]
theorem nttNegate_eq_ref (q : Nat) (qs a : W) (hq : qs.toNat = qShifted q) (hq0 : 0 < q) (hq30 : q < 2 ^ 30)
    (ha : a.toNat < 2 * (q * 2 ^ 33)) : (nttNegate qs a).toNat = negBK q a.toNat := by
  rw [nttNegate_toNat q qs a hq, negBAvxK_eq q _ hq0 hq30 ha]

/-! ### `arithmetic_avx.rs`: the BitVec lanes equal the `u64`-as-`Nat` lanes of `Model/AvxQ120.lean` for ALL inputs -/

theorem toNat_srli (a : W) (k : Nat) (hk : k < 64) : (srli_epi64 a k).toNat = a.toNat >>> k := by simp [srli_epi64, hk]

theorem toNat_cmpgt (a b : W) : (cmpgt_epi64 a b).toNat = Q120.cmpgt_epi64 a.toNat b.toNat := by
  unfold cmpgt_epi64 Q120.cmpgt_epi64 Q120.sgn Q120.ones allOnes
  have ha : a.toInt = if a.toNat < 2 ^ 63 then (a.toNat : Int) else (a.toNat : Int) - 2 ^ 64 := by
    rw [BitVec.toInt_eq_toNat_cond]; split <;> split <;> simp_all <;> omega
  have hb : b.toInt = if b.toNat < 2 ^ 63 then (b.toNat : Int) else (b.toNat : Int) - 2 ^ 64 := by
    rw [BitVec.toInt_eq_toNat_cond]; split <;> split <;> simp_all <;> omega
  rw [BitVec.slt, ← ha, ← hb]
  by_cases h : b.toInt < a.toInt
  · simp [h]
  · simp [h]

theorem toNat_andnot (a b : W) : (andnot_si256 a b).toNat = Q120.andnot_si256 a.toNat b.toNat := by
  unfold andnot_si256 Q120.andnot_si256 Q120.ones
  rw [BitVec.toNat_and, BitVec.toNat_not]

theorem toNat_sub_q (a b : W) : (sub_epi64 a b).toNat = Q120.sub_epi64 a.toNat b.toNat := by
  unfold Q120.sub_epi64 Q120.wrap
  rw [toNat_sub]; unfold subU64
  rw [Nat.mod_eq_of_lt b.isLt]
  congr 1
  have := b.isLt; omega

theorem toNat_add_q (a b : W) : (add_epi64 a b).toNat = Q120.add_epi64 a.toNat b.toNat := by
  rw [toNat_add]; rfl

theorem toNat_mul_q (a b : W) : (mul_epu32 a b).toNat = Q120.mul_epu32 a.toNat b.toNat := toNat_mul_epu32 a b

theorem toNat_mask32 : mask32.toNat = Q120.mask32 := by decide

theorem condSub_toNat (x q : W) : (condSub x q).toNat = Q120.condSub x.toNat q.toNat := by
  unfold condSub Q120.condSub
  rw [toNat_sub_q, toNat_andnot, toNat_cmpgt]

theorem barrett_toNat (tmp q mu : W) : (barrett tmp q mu).toNat = Q120.barrett tmp.toNat q.toNat mu.toNat := by
  unfold barrett Q120.barrett
  simp only [condSub_toNat, toNat_sub_q, toNat_add_q, toNat_mul_q, toNat_srli _ _ (by decide : 32 < 64),
    toNat_srli _ _ (by decide : 29 < 64), toNat_srli _ _ (by decide : 61 < 64), toNat_and, toNat_mask32]

theorem reduceB_toNat (x q mu pow32 : W) :
    (reduceBToCanonical x q mu pow32).toNat = Q120.reduceBToCanonical x.toNat q.toNat mu.toNat pow32.toNat := by
  unfold reduceBToCanonical Q120.reduceBToCanonical
  simp only [barrett_toNat, condSub_toNat, toNat_add_q, toNat_mul_q, toNat_srli _ _ (by decide : 32 < 64), toNat_and, toNat_mask32]

theorem bFromZnx64_toNat (xv oq : W) : (bFromZnx64 xv oq).toNat = Q120.bFromZnx64Lane xv.toNat oq.toNat := by
  unfold bFromZnx64 Q120.bFromZnx64Lane
  simp only [toNat_add_q, toNat_and, toNat_cmpgt, setzero_si256]
  rfl

/-! ### … and therefore equal the reference functions of `Model/Ntt120.lean` on the documented ranges -/

/-- the hypotheses shared by the Barrett-based lanes: a Primes30-shaped modulus with its derived constants -/
structure ModC (q mu pow32 : W) : Prop where
  q_gt : 2 ^ 29 < q.toNat
  q_lt : q.toNat < 2 ^ 30
  mu_eq : mu.toNat = 2 ^ 61 / q.toNat
  pow_eq : pow32.toNat = 2 ^ 32 % q.toNat

/-- `barrett_reduce` lane = `% q` for `tmp < 2^61` -/
theorem barrett_eq_mod (tmp q mu pow32 : W) (c : ModC q mu pow32) (ht : tmp.toNat < 2 ^ 61) :
    (barrett tmp q mu).toNat = tmp.toNat % q.toNat := by
  rw [barrett_toNat]; exact Q120.barrett_eq _ _ _ c.q_gt c.q_lt c.mu_eq ht

/-- `reduce_b_to_canonical` lane (also the lane of `pack_left_1blk_x2_avx2`) = `x % q`, the reference's `a[idx] % q`,
for `x < q·2^33` -/
theorem reduceB_eq_mod (x q mu pow32 : W) (c : ModC q mu pow32) (hx : x.toNat < q.toNat * 2 ^ 33) :
    (reduceBToCanonical x q mu pow32).toNat = x.toNat % q.toNat := by
  rw [reduceB_toNat]; exact Q120.reduceB_eq _ _ _ _ c.q_gt c.q_lt c.mu_eq c.pow_eq hx

theorem toNat_or_shl32 (r s : W) (hr : r.toNat < 2 ^ 32) (hs : s.toNat < 2 ^ 32) :
    (or_si256 r (slli_epi64 s 32)).toNat = r.toNat + s.toNat * 2 ^ 32 := by
  have hr' : r < 0x100000000#64 := by simpa [BitVec.lt_def] using hr
  have hs' : s < 0x100000000#64 := by simpa [BitVec.lt_def] using hs
  have e : or_si256 r (slli_epi64 s 32) = r + s * 0x100000000#64 := by
    simp only [or_si256, slli_epi64]
    bv_decide
  rw [e, BitVec.toNat_add, BitVec.toNat_mul]
  simp only [BitVec.toNat_ofNat]
  have h1 : s.toNat * 4294967296 < 2 ^ 64 := by omega
  have h2 : (4294967296 : Nat) % 2 ^ 64 = 4294967296 := by decide
  rw [h2, Nat.mod_eq_of_lt h1, Nat.mod_eq_of_lt (by omega)]
  norm_num

/-- `c_from_b_avx2` lane: the stored `u64` is the q120c pair `[r, (r << 32) % q]` of `c_from_b_ref` (`cFromBK`) -/
theorem cFromB_eq_ref (x q mu pow32 : W) (c : ModC q mu pow32) (hx : x.toNat < q.toNat * 2 ^ 33) :
    [(cFromB x q mu pow32).toNat % 2 ^ 32, (cFromB x q mu pow32).toNat / 2 ^ 32] = cFromBK q.toNat x.toNat := by
  have hq0 : 0 < q.toNat := by have := c.q_gt; omega
  have hr := reduceB_eq_mod x q mu pow32 c hx
  have hrl : x.toNat % q.toNat < q.toNat := Nat.mod_lt _ hq0
  have hq30 := c.q_lt
  have hpl : pow32.toNat < q.toNat := by rw [c.pow_eq]; exact Nat.mod_lt _ hq0
  have hprod : (mul_epu32 (reduceBToCanonical x q mu pow32) pow32).toNat = x.toNat % q.toNat * pow32.toNat := by
    rw [toNat_mul_epu32, hr, Nat.mod_eq_of_lt (show x.toNat % q.toNat < 2 ^ 32 by omega),
      Nat.mod_eq_of_lt (show pow32.toNat < 2 ^ 32 by omega)]
  have hp60 : x.toNat % q.toNat * pow32.toNat < 2 ^ 61 := by
    calc x.toNat % q.toNat * pow32.toNat < 2 ^ 30 * 2 ^ 30 := Nat.mul_lt_mul'' (by omega) (by omega)
      _ < 2 ^ 61 := by norm_num
  have hs : (barrett (mul_epu32 (reduceBToCanonical x q mu pow32) pow32) q mu).toNat = (x.toNat % q.toNat * pow32.toNat) % q.toNat := by
    rw [barrett_eq_mod _ q mu pow32 c (by rw [hprod]; exact hp60), hprod]
  have hsl : (x.toNat % q.toNat * pow32.toNat) % q.toNat < q.toNat := Nat.mod_lt _ hq0
  unfold cFromB
  simp only []
  rw [toNat_or_shl32 _ _ (by rw [hr]; omega) (by rw [hs]; omega), hr, hs]
  unfold cFromBK cPair wu32 wu64
  have e1 : (x.toNat % q.toNat + x.toNat % q.toNat * pow32.toNat % q.toNat * 2 ^ 32) % 2 ^ 32 = x.toNat % q.toNat := by
    rw [Nat.add_mul_mod_self_right]; exact Nat.mod_eq_of_lt (by omega)
  have e2 : (x.toNat % q.toNat + x.toNat % q.toNat * pow32.toNat % q.toNat * 2 ^ 32) / 2 ^ 32 = x.toNat % q.toNat * pow32.toNat % q.toNat := by
    rw [Nat.add_mul_div_right _ _ (by positivity), Nat.div_eq_of_lt (by omega), Nat.zero_add]
  rw [e1, e2, Nat.mod_eq_of_lt (show x.toNat % q.toNat < 2 ^ 32 by omega)]
  have e3 : x.toNat % q.toNat * 2 ^ 32 % 2 ^ 64 = x.toNat % q.toNat * 2 ^ 32 := Nat.mod_eq_of_lt (by
    calc x.toNat % q.toNat * 2 ^ 32 < 2 ^ 30 * 2 ^ 32 := Nat.mul_lt_mul_of_pos_right (by omega) (by positivity)
      _ < 2 ^ 64 := by norm_num)
  have e4 : x.toNat % q.toNat * pow32.toNat % q.toNat = x.toNat % q.toNat * 2 ^ 32 % q.toNat := by
    rw [c.pow_eq]; simp [Nat.mul_mod, Nat.mod_mod]
  rw [e3, e4, Nat.mod_eq_of_lt (show x.toNat % q.toNat * 2 ^ 32 % q.toNat < 2 ^ 32 by
    have := Nat.mod_lt (x.toNat % q.toNat * 2 ^ 32) hq0; omega)]

/-- `b_from_znx64[_masked]_avx2` lane = `bFromU64K` (inner statement of `b_from_znx64_ref`) for EVERY `i64` pattern -/
theorem bFromZnx64_eq_ref (xv oqv : W) (q : Nat) (ho : oqv.toNat = oq q) :
    (bFromZnx64 xv oqv).toNat = bFromU64K q xv.toNat := by
  rw [bFromZnx64_toNat, Q120.bFromZnx64_eq _ _ xv.isLt oqv.isLt, ho]
  unfold Q120.bFromZnx64Ref bFromU64K maskLo Q120.wrap wu64
  simp only [decide_eq_true_eq]

/-! ### `mat_vec_avx.rs`: BBC kernels, and `vec_mat1col_product_bbb_avx2` -/

theorem wu64_add_l (a b : Nat) : wu64 (wu64 a + b) = wu64 (a + b) := by unfold wu64; omega
theorem wu64_add_r (a b : Nat) : wu64 (a + wu64 b) = wu64 (a + b) := by unfold wu64; omega

theorem toNat_mask32' : mask32.toNat = m32 := by decide

theorem half_lt (x : Nat) : x % 2 ^ 32 < 2 ^ 32 := Nat.mod_lt _ (by decide)
theorem hi_lt (x : W) : x.toNat >>> 32 < 2 ^ 32 := by
  rw [Nat.shiftRight_eq_div_pow]; exact Nat.div_lt_of_lt_mul (by have := x.isLt; omega)

/-- the `_mm256_mul_epu32` of two already-split halves is the reference's `u64` product of the `u32` halves -/
theorem mul_halves (a b : W) (ha : a.toNat < 2 ^ 32) (hb : b.toNat < 2 ^ 32) :
    (mul_epu32 a b).toNat = wu64 (a.toNat * b.toNat) := by
  rw [toNat_mul_epu32, Nat.mod_eq_of_lt ha, Nat.mod_eq_of_lt hb, wu64_of_lt _ (mul_u32_lt _ _ ha hb)]

theorem and_m32_lt (x : W) : (and_si256 x mask32).toNat < 2 ^ 32 := by
  rw [toNat_and, toNat_mask32', land_m32]; exact half_lt _

theorem srli32_lt (x : W) : (srli_epi64 x 32).toNat < 2 ^ 32 := by rw [toNat_srli32]; exact hi_lt x

/-- loop body of the three BBC kernels = `accum_mul_q120_bc` (`accumMulBcK`) on the `u32` halves, for ALL lane values
(the two kernels add the four 32-bit pieces in a different order; `u64` addition is associative) -/
theorem bbcStep_eq (s : W × W) (xv yv : W) :
    ((bbcStep s xv yv).1.toNat, (bbcStep s xv yv).2.toNat)
      = accumMulBcK (s.1.toNat, s.2.toNat) (xv.toNat &&& m32) (xv.toNat >>> 32) (yv.toNat &&& m32) (yv.toNat >>> 32) := by
  unfold bbcStep accumMulBcK
  simp only [toNat_add, toNat_and, toNat_srli32, toNat_mask32',
    mul_halves _ _ (and_m32_lt xv) (and_m32_lt yv), mul_halves _ _ (srli32_lt xv) (srli32_lt yv),
    wu64_add_l, wu64_add_r, Nat.add_assoc]

/-- `reduce_bbc` = `accum_to_q120b` (`accumToQ120bK`) when the split point is at most 32 and the high accumulator is below
`2^(32+h)` (both `_mm256_mul_epu32` operands then fit in 32 bits) -/
theorem reduceBbc_eq (sLo sHi maskH h2 s2l s2h : W) (hh : h2.toNat ≤ 32) (hm : maskH.toNat = maskOf h2.toNat)
    (hs : sHi.toNat < 2 ^ (32 + h2.toNat)) (h1 : s2l.toNat < 2 ^ 32) (h2' : s2h.toNat < 2 ^ 32) :
    (reduceBbc sLo sHi maskH h2 s2l s2h).toNat = accumToQ120bK h2.toNat s2l.toNat s2h.toNat (sLo.toNat, sHi.toNat) := by
  unfold reduceBbc accumToQ120bK
  have hlo : sHi.toNat &&& maskOf h2.toNat < 2 ^ 32 := by
    rw [land_maskOf _ _ (by omega)]
    calc sHi.toNat % 2 ^ h2.toNat < 2 ^ h2.toNat := Nat.mod_lt _ (by positivity)
      _ ≤ 2 ^ 32 := Nat.pow_le_pow_right (by decide) hh
  have hhi : sHi.toNat >>> h2.toNat < 2 ^ 32 := by
    rw [Nat.shiftRight_eq_div_pow]
    apply Nat.div_lt_of_lt_mul
    rw [← pow_add, Nat.add_comm]; exact hs
  simp only [toNat_add, toNat_and, toNat_srl, toNat_mul_epu32, hm]
  rw [Nat.mod_eq_of_lt hlo, Nat.mod_eq_of_lt hhi, Nat.mod_eq_of_lt h1, Nat.mod_eq_of_lt h2',
    wu64_of_lt _ (mul_u32_lt _ _ hlo h1), wu64_of_lt _ (mul_u32_lt _ _ hhi h2')]

/-- outside (`h = 33`): the masked part has 33 bits, `_mm256_mul_epu32` drops bit 32, the reference does not -/
theorem reduceBbc_differs_outside :
    (reduceBbc 0#64 (1#64 <<< 32) ((1#64 <<< 33) - 1#64) 33#64 1#64 1#64).toNat
      ≠ accumToQ120bK 33 1 1 (0, 2 ^ 32) := by decide

/-- loop body of `vec_mat1col_product_bbb_avx2` = loop body of `vec_mat1col_product_bbb_ref` (`bbbAccK`), ALL lane values -/
theorem bbbStep_eq (s : W × W × W × W) (xv yv : W) :
    ((bbbStep s xv yv).1.toNat, (bbbStep s xv yv).2.1.toNat, (bbbStep s xv yv).2.2.1.toNat, (bbbStep s xv yv).2.2.2.toNat)
      = bbbAccK (s.1.toNat, s.2.1.toNat, s.2.2.1.toNat, s.2.2.2.toNat) xv.toNat yv.toNat := by
  unfold bbbStep bbbAccK
  simp only [toNat_add, toNat_and, toNat_srli32, toNat_mask32',
    mul_halves _ _ (and_m32_lt xv) (and_m32_lt yv), mul_halves _ _ (and_m32_lt xv) (srli32_lt yv),
    mul_halves _ _ (srli32_lt xv) (and_m32_lt yv), mul_halves _ _ (srli32_lt xv) (srli32_lt yv),
    wu64_add_l, wu64_add_r, Nat.add_assoc]

/-- the seven `mask/shift · constant` products of the BBB final reduction -/
structure BbbRange (h : Nat) (s : W × W × W × W) (c : List W) : Prop where
  h_le : h ≤ 32
  s1 : s.1.toNat < 2 ^ (32 + h)
  s2 : s.2.1.toNat < 2 ^ (32 + h)
  s3 : s.2.2.1.toNat < 2 ^ (32 + h)
  s4 : s.2.2.2.toNat < 2 ^ (32 + h)
  cs : ∀ x ∈ c, x.toNat < 2 ^ 32

/-- final reduction of `vec_mat1col_product_bbb_avx2` = `bbbFinalK` when `h ≤ 32` and every accumulator is below `2^(32+h)` -/
theorem bbbFinal_eq (maskH h2 c1 c2 c3 c4 c5 c6 c7 : W) (s : W × W × W × W)
    (hm : maskH.toNat = maskOf h2.toNat) (r : BbbRange h2.toNat s [c1, c2, c3, c4, c5, c6, c7]) :
    (bbbFinal maskH h2 c1 c2 c3 c4 c5 c6 c7 s).toNat
      = bbbFinalK h2.toNat c1.toNat c2.toNat c3.toNat c4.toNat c5.toNat c6.toNat c7.toNat
          (s.1.toNat, s.2.1.toNat, s.2.2.1.toNat, s.2.2.2.toNat) := by
  have hh := r.h_le
  have lo : ∀ x : Nat, x &&& maskOf h2.toNat < 2 ^ 32 := fun x => by
    rw [land_maskOf _ _ (by omega)]
    calc x % 2 ^ h2.toNat < 2 ^ h2.toNat := Nat.mod_lt _ (by positivity)
      _ ≤ 2 ^ 32 := Nat.pow_le_pow_right (by decide) hh
  have hi : ∀ x : Nat, x < 2 ^ (32 + h2.toNat) → x >>> h2.toNat < 2 ^ 32 := fun x hx => by
    rw [Nat.shiftRight_eq_div_pow]
    apply Nat.div_lt_of_lt_mul
    rw [← pow_add, Nat.add_comm]; exact hx
  have k1 := r.cs c1 (by simp); have k2 := r.cs c2 (by simp); have k3 := r.cs c3 (by simp)
  have k4 := r.cs c4 (by simp); have k5 := r.cs c5 (by simp); have k6 := r.cs c6 (by simp); have k7 := r.cs c7 (by simp)
  unfold bbbFinal bbbFinalK
  simp only [toNat_add, toNat_and, toNat_srl, toNat_mul_epu32, hm]
  rw [Nat.mod_eq_of_lt (hi _ r.s1), Nat.mod_eq_of_lt (hi _ r.s2), Nat.mod_eq_of_lt (hi _ r.s3), Nat.mod_eq_of_lt (hi _ r.s4),
    Nat.mod_eq_of_lt (lo s.2.1.toNat), Nat.mod_eq_of_lt (lo s.2.2.1.toNat), Nat.mod_eq_of_lt (lo s.2.2.2.toNat),
    Nat.mod_eq_of_lt k1, Nat.mod_eq_of_lt k2, Nat.mod_eq_of_lt k3, Nat.mod_eq_of_lt k4, Nat.mod_eq_of_lt k5,
    Nat.mod_eq_of_lt k6, Nat.mod_eq_of_lt k7,
    wu64_of_lt _ (mul_u32_lt _ _ (hi _ r.s1) k1), wu64_of_lt _ (mul_u32_lt _ _ (lo _) k2),
    wu64_of_lt _ (mul_u32_lt _ _ (hi _ r.s2) k3), wu64_of_lt _ (mul_u32_lt _ _ (lo _) k4),
    wu64_of_lt _ (mul_u32_lt _ _ (hi _ r.s3) k5), wu64_of_lt _ (mul_u32_lt _ _ (lo _) k6),
    wu64_of_lt _ (mul_u32_lt _ _ (hi _ r.s4) k7)]

/-! ### `b_to_znx128_avx2`: the fused reduce-and-CRT lane and the 32-bit-limb accumulation -/

theorem subU64_of_le (a b : Nat) (hb : b ≤ a) (ha : a < 2 ^ 64) : subU64 a b = a - b := by
  unfold subU64
  rw [Nat.mod_eq_of_lt (show b < 2 ^ 64 by omega)]
  have : a + (2 ^ 64 - b) = (a - b) + 2 ^ 64 := by omega
  rw [this, Nat.add_mod_right]; exact Nat.mod_eq_of_lt (by omega)

/-- the scalar Barrett of `compact_all_blocks_scalar` (`barrettU61`, C07 model) is `% q` below `2^61` -/
theorem barrettU61_eq (x q mu : Nat) (hq1 : 2 ^ 29 < q) (hq2 : q < 2 ^ 30) (hmu : mu = 2 ^ 61 / q) (hx : x < 2 ^ 61) :
    barrettU61 x q mu = x % q := by
  have hq0 : 0 < q := by omega
  have hmu1 : mu * q ≤ 2 ^ 61 := by rw [hmu]; exact Nat.div_mul_le_self _ _
  have hmu2 : 2 ^ 61 < (mu + 1) * q := by
    have := Nat.lt_mul_div_succ (2 ^ 61) hq0
    rw [hmu, Nat.mul_comm]; exact this
  unfold barrettU61
  simp only [Nat.shiftRight_eq_div_pow]
  generalize hqa : x * mu / 2 ^ 61 = qa
  have a1 : qa * 2 ^ 61 ≤ x * mu := by rw [← hqa]; exact Nat.div_mul_le_self _ _
  have a2 : x * mu < (qa + 1) * 2 ^ 61 := by
    have := Nat.lt_mul_div_succ (x * mu) (show 0 < 2 ^ 61 by positivity)
    rw [hqa] at this; linarith
  have c1 : qa * q ≤ x := by
    have h1 : qa * q * 2 ^ 61 ≤ x * 2 ^ 61 := by
      calc qa * q * 2 ^ 61 = qa * 2 ^ 61 * q := by ring
        _ ≤ x * mu * q := Nat.mul_le_mul_right q a1
        _ = x * (mu * q) := by ring
        _ ≤ x * 2 ^ 61 := Nat.mul_le_mul_left x hmu1
    exact Nat.le_of_mul_le_mul_right h1 (by positivity)
  have c2 : x < (qa + 2) * q := by
    have h1 : x * 2 ^ 61 ≤ x * ((mu + 1) * q) := Nat.mul_le_mul_left x (Nat.le_of_lt hmu2)
    have h2 : x * mu * q < (qa + 1) * 2 ^ 61 * q := Nat.mul_lt_mul_of_pos_right a2 hq0
    have h3 : x * q ≤ 2 ^ 61 * q := Nat.mul_le_mul_right q (by omega)
    have h4 : x * 2 ^ 61 < (qa + 2) * q * 2 ^ 61 := by
      have e1 : x * ((mu + 1) * q) = x * mu * q + x * q := by ring
      have e2 : (qa + 2) * q * 2 ^ 61 = (qa + 1) * 2 ^ 61 * q + 2 ^ 61 * q := by ring
      linarith
    exact Nat.lt_of_mul_lt_mul_right h4
  have hqa64 : qa < 2 ^ 64 := by
    have : qa * q < 2 ^ 61 := by omega
    by_contra hc
    have : 2 ^ 64 * 1 ≤ qa * q := Nat.mul_le_mul (by omega) hq0
    omega
  rw [wu64_of_lt _ hqa64, wu64_of_lt _ (show qa * q < 2 ^ 64 by omega), subU64_of_le _ _ c1 (by omega)]
  generalize hr : x - qa * q = r
  have hr2 : r < 2 * q := by
    have : (qa + 2) * q = qa * q + 2 * q := by ring
    omega
  have hdec : x = qa * q + r := by omega
  have key : ∀ y, y < q → x = (x / q) * q + y → x % q = y := fun y hy e => by
    have : x % q = (y + (x / q) * q) % q := by rw [Nat.add_comm, ← e]
    rw [this, Nat.add_mul_mod_self_right, Nat.mod_eq_of_lt hy]
  by_cases h1 : r ≥ q
  · simp only [h1, if_true]
    rw [subU64_of_le _ _ h1 (by omega)]
    have h2 : ¬ (r - q ≥ q) := by omega
    simp only [h2, if_false]
    rw [hdec]
    have : qa * q + r = (r - q) + (qa + 1) * q := by
      have : (qa + 1) * q = qa * q + q := by ring
      omega
    rw [this, Nat.add_mul_mod_self_right, Nat.mod_eq_of_lt (by omega)]
  · simp only [h1, if_false]
    rw [hdec, Nat.add_comm, Nat.add_mul_mod_self_right, Nat.mod_eq_of_lt (by omega)]

/-- the constants of the fused lane: Primes30-shaped modulus, `mu`, and three multipliers below `q` -/
structure CrtC (q mu p32 p16 crt : W) : Prop where
  q_gt : 2 ^ 29 < q.toNat
  q_lt : q.toNat < 2 ^ 30
  mu_eq : mu.toNat = 2 ^ 61 / q.toNat
  p32_lt : p32.toNat < q.toNat
  p16_lt : p16.toNat < q.toNat
  crt_lt : crt.toNat < q.toNat

theorem crt_tmp_lt (x q a b c : Nat) (hq2 : q < 2 ^ 30) (ha : a < q) (hb : b < q) (hc : c < q) (hx : x < q * 2 ^ 33) :
    (if q ≤ x / 2 ^ 32 then x / 2 ^ 32 - q else x / 2 ^ 32) * a + x % 2 ^ 32 / 2 ^ 16 * b + x % 2 ^ 32 % 2 ^ 16 * c < 2 ^ 61 := by
  have h1 : x / 2 ^ 32 < 2 * q := Nat.div_lt_of_lt_mul (by linarith)
  have h2 : (if q ≤ x / 2 ^ 32 then x / 2 ^ 32 - q else x / 2 ^ 32) < q := by split <;> omega
  have h3 : x % 2 ^ 32 / 2 ^ 16 < 2 ^ 16 := Nat.div_lt_of_lt_mul (by have := Nat.mod_lt x (show 0 < 2 ^ 32 by decide); omega)
  have h4 : x % 2 ^ 32 % 2 ^ 16 < 2 ^ 16 := Nat.mod_lt _ (by decide)
  have m1 : (if q ≤ x / 2 ^ 32 then x / 2 ^ 32 - q else x / 2 ^ 32) * a < 2 ^ 30 * 2 ^ 30 := Nat.mul_lt_mul'' (by omega) (by omega)
  have m2 : x % 2 ^ 32 / 2 ^ 16 * b < 2 ^ 16 * 2 ^ 30 := Nat.mul_lt_mul'' h3 (by omega)
  have m3 : x % 2 ^ 32 % 2 ^ 16 * c < 2 ^ 16 * 2 ^ 30 := Nat.mul_lt_mul'' h4 (by omega)
  norm_num at m1 m2 m3 ⊢
  omega

/-- `reduce_b_and_apply_crt` (AVX2) = `reduce_q120b_crt` (the scalar twin, C07 `reduceQ120bCrt`) for every q120b lane in the
documented range `x < q·2^33`; both are `tmp % q` of the same three-piece sum -/
theorem reduceBAndApplyCrt_eq (x q mu p32 p16 crt : W) (c : CrtC q mu p32 p16 crt) (hx : x.toNat < q.toNat * 2 ^ 33) :
    (reduceBAndApplyCrt x q mu p32 p16 crt).toNat
      = reduceQ120bCrt x.toNat q.toNat mu.toNat p32.toNat p16.toNat crt.toNat := by
  have hq1 := c.q_gt; have hq2 := c.q_lt
  have hxhi : x.toNat / 2 ^ 32 < 2 * q.toNat := Nat.div_lt_of_lt_mul (by linarith)
  have hcs : (condSub (srli_epi64 x 32) q).toNat = if q.toNat ≤ x.toNat / 2 ^ 32 then x.toNat / 2 ^ 32 - q.toNat else x.toNat / 2 ^ 32 := by
    rw [condSub_toNat, toNat_srli32, Nat.shiftRight_eq_div_pow, Q120.condSub_eq _ _ (by omega) (by omega)]
  have hcs_lt : (condSub (srli_epi64 x 32) q).toNat < q.toNat := by rw [hcs]; split <;> omega
  have hlohi : (srli_epi64 (and_si256 x mask32) 16).toNat = x.toNat % 2 ^ 32 / 2 ^ 16 := by
    rw [toNat_srli _ _ (by decide), toNat_and, toNat_mask32', land_m32, Nat.shiftRight_eq_div_pow]
  have hlolo : (and_si256 (and_si256 x mask32) 0xFFFF#64).toNat = x.toNat % 2 ^ 32 % 2 ^ 16 := by
    rw [toNat_and, toNat_and, toNat_mask32', land_m32]
    exact Nat.and_two_pow_sub_one_eq_mod _ 16
  have h3 : x.toNat % 2 ^ 32 / 2 ^ 16 < 2 ^ 16 := Nat.div_lt_of_lt_mul (by have := Nat.mod_lt x.toNat (show 0 < 2 ^ 32 by decide); omega)
  have h4 : x.toNat % 2 ^ 32 % 2 ^ 16 < 2 ^ 16 := Nat.mod_lt _ (by decide)
  have hp32 := c.p32_lt; have hp16 := c.p16_lt; have hcrt := c.crt_lt
  have htmp := crt_tmp_lt x.toNat q.toNat p32.toNat p16.toNat crt.toNat hq2 hp32 hp16 hcrt hx
  have e1 : (mul_epu32 (condSub (srli_epi64 x 32) q) p32).toNat = (condSub (srli_epi64 x 32) q).toNat * p32.toNat := by
    rw [toNat_mul_epu32, Nat.mod_eq_of_lt (by omega), Nat.mod_eq_of_lt (by omega)]
  have e2 : (mul_epu32 (srli_epi64 (and_si256 x mask32) 16) p16).toNat = x.toNat % 2 ^ 32 / 2 ^ 16 * p16.toNat := by
    rw [toNat_mul_epu32, hlohi, Nat.mod_eq_of_lt (show x.toNat % 2 ^ 32 / 2 ^ 16 < 2 ^ 32 by omega), Nat.mod_eq_of_lt (show p16.toNat < 2 ^ 32 by omega)]
  have e3 : (mul_epu32 (and_si256 (and_si256 x mask32) 0xFFFF#64) crt).toNat = x.toNat % 2 ^ 32 % 2 ^ 16 * crt.toNat := by
    rw [toNat_mul_epu32, hlolo, Nat.mod_eq_of_lt (show x.toNat % 2 ^ 32 % 2 ^ 16 < 2 ^ 32 by omega), Nat.mod_eq_of_lt (show crt.toNat < 2 ^ 32 by omega)]
  have esum : (add_epi64 (add_epi64 (mul_epu32 (condSub (srli_epi64 x 32) q) p32) (mul_epu32 (srli_epi64 (and_si256 x mask32) 16) p16))
      (mul_epu32 (and_si256 (and_si256 x mask32) 0xFFFF#64) crt)).toNat
      = (if q.toNat ≤ x.toNat / 2 ^ 32 then x.toNat / 2 ^ 32 - q.toNat else x.toNat / 2 ^ 32) * p32.toNat
        + x.toNat % 2 ^ 32 / 2 ^ 16 * p16.toNat + x.toNat % 2 ^ 32 % 2 ^ 16 * crt.toNat := by
    rw [toNat_add, toNat_add, e1, e2, e3, hcs, wu64_add_l, wu64_of_lt _ (by omega)]
  unfold reduceBAndApplyCrt
  simp only []
  rw [barrett_toNat, Q120.barrett_eq _ _ _ hq1 hq2 c.mu_eq (by rw [esum]; exact htmp), esum]
  unfold reduceQ120bCrt
  simp only [Nat.shiftRight_eq_div_pow, ge_iff_le]
  have em : x.toNat &&& 0xFFFFFFFF = x.toNat % 2 ^ 32 := Nat.and_two_pow_sub_one_eq_mod _ 32
  have em2 : x.toNat % 2 ^ 32 &&& 0xFFFF = x.toNat % 2 ^ 32 % 2 ^ 16 := Nat.and_two_pow_sub_one_eq_mod _ 16
  rw [em, em2]
  have hsub : (if q.toNat ≤ x.toNat / 2 ^ 32 then subU64 (x.toNat / 2 ^ 32) q.toNat else x.toNat / 2 ^ 32)
      = (if q.toNat ≤ x.toNat / 2 ^ 32 then x.toNat / 2 ^ 32 - q.toNat else x.toNat / 2 ^ 32) := by
    split
    · rename_i h; exact subU64_of_le _ _ h (by omega)
    · rfl
  rw [hsub]
  have h61 : (2 : Nat) ^ 61 < 2 ^ 64 := by norm_num
  have m1 : (if q.toNat ≤ x.toNat / 2 ^ 32 then x.toNat / 2 ^ 32 - q.toNat else x.toNat / 2 ^ 32) * p32.toNat < 2 ^ 64 :=
    lt_of_le_of_lt ((Nat.le_add_right _ _).trans (Nat.le_add_right _ _)) (htmp.trans h61)
  have m2 : x.toNat % 2 ^ 32 / 2 ^ 16 * p16.toNat < 2 ^ 64 :=
    lt_of_le_of_lt ((Nat.le_add_left _ _).trans (Nat.le_add_right _ _)) (htmp.trans h61)
  have m3 : x.toNat % 2 ^ 32 % 2 ^ 16 * crt.toNat < 2 ^ 64 := lt_of_le_of_lt (Nat.le_add_left _ _) (htmp.trans h61)
  have m12 := lt_of_le_of_lt (Nat.le_add_right _ (x.toNat % 2 ^ 32 % 2 ^ 16 * crt.toNat)) (htmp.trans h61)
  rw [wu64_of_lt _ m1, wu64_of_lt _ m2, wu64_of_lt _ m3, wu64_of_lt _ m12, wu64_of_lt _ (htmp.trans h61)]
  exact (barrettU61_eq _ _ _ hq1 hq2 c.mu_eq htmp).symm

/-- … and its value is the reference's CRT digit `(x mod q)·crt mod q` of `b_to_znx128_ref` (`crtStep`), given that the two
precomputed multipliers are what their names say -/
theorem reduceBAndApplyCrt_value (x q mu p32 p16 crt : W) (c : CrtC q mu p32 p16 crt) (hx : x.toNat < q.toNat * 2 ^ 33)
    (e32 : p32.toNat ≡ 2 ^ 32 * crt.toNat [MOD q.toNat]) (e16 : p16.toNat ≡ 2 ^ 16 * crt.toNat [MOD q.toNat]) :
    (reduceBAndApplyCrt x q mu p32 p16 crt).toNat = (x.toNat % q.toNat * crt.toNat) % q.toNat := by
  have hq1 := c.q_gt; have hq2 := c.q_lt
  have hcs : (condSub (srli_epi64 x 32) q).toNat = if q.toNat ≤ x.toNat / 2 ^ 32 then x.toNat / 2 ^ 32 - q.toNat else x.toNat / 2 ^ 32 := by
    have hxhi : x.toNat / 2 ^ 32 < 2 * q.toNat := Nat.div_lt_of_lt_mul (by linarith)
    rw [condSub_toNat, toNat_srli32, Nat.shiftRight_eq_div_pow, Q120.condSub_eq _ _ (by omega) (by omega)]
  rw [reduceBAndApplyCrt_eq x q mu p32 p16 crt c hx]
  unfold reduceQ120bCrt
  simp only [Nat.shiftRight_eq_div_pow, ge_iff_le]
  have em : x.toNat &&& 0xFFFFFFFF = x.toNat % 2 ^ 32 := Nat.and_two_pow_sub_one_eq_mod _ 32
  have em2 : x.toNat % 2 ^ 32 &&& 0xFFFF = x.toNat % 2 ^ 32 % 2 ^ 16 := Nat.and_two_pow_sub_one_eq_mod _ 16
  rw [em, em2]
  have hxhi : x.toNat / 2 ^ 32 < 2 * q.toNat := Nat.div_lt_of_lt_mul (by linarith)
  have hsub : (if q.toNat ≤ x.toNat / 2 ^ 32 then subU64 (x.toNat / 2 ^ 32) q.toNat else x.toNat / 2 ^ 32)
      = (if q.toNat ≤ x.toNat / 2 ^ 32 then x.toNat / 2 ^ 32 - q.toNat else x.toNat / 2 ^ 32) := by
    split
    · rename_i h; exact subU64_of_le _ _ h (by omega)
    · rfl
  rw [hsub]
  have htmp := crt_tmp_lt x.toNat q.toNat p32.toNat p16.toNat crt.toNat hq2 c.p32_lt c.p16_lt c.crt_lt hx
  have hp32 := c.p32_lt; have hp16 := c.p16_lt; have hcrt := c.crt_lt
  have h3 : x.toNat % 2 ^ 32 / 2 ^ 16 < 2 ^ 16 := Nat.div_lt_of_lt_mul (by have := Nat.mod_lt x.toNat (show 0 < 2 ^ 32 by decide); omega)
  have h4 : x.toNat % 2 ^ 32 % 2 ^ 16 < 2 ^ 16 := Nat.mod_lt _ (by decide)
  have h61 : (2 : Nat) ^ 61 < 2 ^ 64 := by norm_num
  have m1 : (if q.toNat ≤ x.toNat / 2 ^ 32 then x.toNat / 2 ^ 32 - q.toNat else x.toNat / 2 ^ 32) * p32.toNat < 2 ^ 64 :=
    lt_of_le_of_lt ((Nat.le_add_right _ _).trans (Nat.le_add_right _ _)) (htmp.trans h61)
  have m2 : x.toNat % 2 ^ 32 / 2 ^ 16 * p16.toNat < 2 ^ 64 :=
    lt_of_le_of_lt ((Nat.le_add_left _ _).trans (Nat.le_add_right _ _)) (htmp.trans h61)
  have m3 : x.toNat % 2 ^ 32 % 2 ^ 16 * crt.toNat < 2 ^ 64 := lt_of_le_of_lt (Nat.le_add_left _ _) (htmp.trans h61)
  have m12 := lt_of_le_of_lt (Nat.le_add_right _ (x.toNat % 2 ^ 32 % 2 ^ 16 * crt.toNat)) (htmp.trans h61)
  rw [wu64_of_lt _ m1, wu64_of_lt _ m2, wu64_of_lt _ m3, wu64_of_lt _ m12, wu64_of_lt _ (htmp.trans h61),
    barrettU61_eq _ _ _ hq1 hq2 c.mu_eq htmp]
  -- congruence: tmp ≡ x·crt (mod q)
  change _ ≡ _ [MOD q.toNat]
  have hhi : (if q.toNat ≤ x.toNat / 2 ^ 32 then x.toNat / 2 ^ 32 - q.toNat else x.toNat / 2 ^ 32) ≡ x.toNat / 2 ^ 32 [MOD q.toNat] := by
    split
    · rename_i h
      have : x.toNat / 2 ^ 32 = (x.toNat / 2 ^ 32 - q.toNat) + q.toNat := by omega
      conv_rhs => rw [this]
      exact (Nat.ModEq.refl _).symm.trans (by simp [Nat.ModEq])
    · exact Nat.ModEq.refl _
  have hx_split : x.toNat = x.toNat / 2 ^ 32 * 2 ^ 32 + (x.toNat % 2 ^ 32 / 2 ^ 16 * 2 ^ 16 + x.toNat % 2 ^ 32 % 2 ^ 16) := by
    have a := (Nat.div_add_mod' x.toNat (2 ^ 32)).symm
    have b := (Nat.div_add_mod' (x.toNat % 2 ^ 32) (2 ^ 16)).symm
    omega
  have step1 : (if q.toNat ≤ x.toNat / 2 ^ 32 then x.toNat / 2 ^ 32 - q.toNat else x.toNat / 2 ^ 32) * p32.toNat
      + x.toNat % 2 ^ 32 / 2 ^ 16 * p16.toNat + x.toNat % 2 ^ 32 % 2 ^ 16 * crt.toNat
      ≡ x.toNat / 2 ^ 32 * (2 ^ 32 * crt.toNat) + x.toNat % 2 ^ 32 / 2 ^ 16 * (2 ^ 16 * crt.toNat) + x.toNat % 2 ^ 32 % 2 ^ 16 * crt.toNat [MOD q.toNat] :=
    ((hhi.mul e32).add ((Nat.ModEq.refl _).mul e16)).add (Nat.ModEq.refl _)
  have step2 : x.toNat / 2 ^ 32 * (2 ^ 32 * crt.toNat) + x.toNat % 2 ^ 32 / 2 ^ 16 * (2 ^ 16 * crt.toNat) + x.toNat % 2 ^ 32 % 2 ^ 16 * crt.toNat
      = x.toNat * crt.toNat := by
    conv_rhs => rw [hx_split]
    ring
  rw [step2] at step1
  exact step1.trans ((Nat.mod_modEq _ _).symm.mul_right _)

/-- `hadd64` does not wrap when the four lanes are below `2^62` -/
theorem hadd64_toNat (v : V4) (h0 : v.l0.toNat < 2 ^ 62) (h1 : v.l1.toNat < 2 ^ 62) (h2 : v.l2.toNat < 2 ^ 62) (h3 : v.l3.toNat < 2 ^ 62) :
    (hadd64 v).toNat = v.l0.toNat + v.l1.toNat + v.l2.toNat + v.l3.toNat := by
  unfold hadd64
  simp only [BitVec.toNat_add]
  omega

theorem mul_lane (a b : W) (ha : a.toNat < 2 ^ 30) (hb : b.toNat < 2 ^ 32) :
    (mul_epu32 a b).toNat = a.toNat * b.toNat ∧ (mul_epu32 a b).toNat < 2 ^ 62 := by
  rw [toNat_mul_epu32, Nat.mod_eq_of_lt (by omega), Nat.mod_eq_of_lt hb]
  refine ⟨rfl, ?_⟩
  calc a.toNat * b.toNat < 2 ^ 30 * 2 ^ 32 := Nat.mul_lt_mul'' ha hb
    _ = 2 ^ 62 := by norm_num

/-- the four CRT digits and the three 32-bit limbs of the four multipliers `Q/q_k` -/
structure AccRange (t hi mid lo : V4) : Prop where
  t0 : t.l0.toNat < 2 ^ 30
  t1 : t.l1.toNat < 2 ^ 30
  t2 : t.l2.toNat < 2 ^ 30
  t3 : t.l3.toNat < 2 ^ 30
  hi0 : hi.l0.toNat < 2 ^ 26
  hi1 : hi.l1.toNat < 2 ^ 26
  hi2 : hi.l2.toNat < 2 ^ 26
  hi3 : hi.l3.toNat < 2 ^ 26
  mid0 : mid.l0.toNat < 2 ^ 32
  mid1 : mid.l1.toNat < 2 ^ 32
  mid2 : mid.l2.toNat < 2 ^ 32
  mid3 : mid.l3.toNat < 2 ^ 32
  lo0 : lo.l0.toNat < 2 ^ 32
  lo1 : lo.l1.toNat < 2 ^ 32
  lo2 : lo.l2.toNat < 2 ^ 32
  lo3 : lo.l3.toNat < 2 ^ 32

/-- `crt_accumulate_avx2` is the exact `Σ_k t_k · (Q/q_k)` with `Q/q_k = hi_k·2^64 + mid_k·2^32 + lo_k`: no lane sum and no `u128`
addition wraps (this is the `u128` sum `Σ t_k·qm_k` formed by `compact_all_blocks_scalar` / `compactCrt`) -/
theorem crtAccumulate_eq (t hi mid lo : V4) (r : AccRange t hi mid lo) :
    (crtAccumulate t hi mid lo).toNat
      = t.l0.toNat * (hi.l0.toNat * 2 ^ 64 + mid.l0.toNat * 2 ^ 32 + lo.l0.toNat)
      + t.l1.toNat * (hi.l1.toNat * 2 ^ 64 + mid.l1.toNat * 2 ^ 32 + lo.l1.toNat)
      + t.l2.toNat * (hi.l2.toNat * 2 ^ 64 + mid.l2.toNat * 2 ^ 32 + lo.l2.toNat)
      + t.l3.toNat * (hi.l3.toNat * 2 ^ 64 + mid.l3.toNat * 2 ^ 32 + lo.l3.toNat) := by
  have w26 : ∀ x : Nat, x < 2 ^ 26 → x < 2 ^ 32 := fun x h => by omega
  obtain ⟨a0, b0⟩ := mul_lane t.l0 hi.l0 r.t0 (w26 _ r.hi0); obtain ⟨a1, b1⟩ := mul_lane t.l1 hi.l1 r.t1 (w26 _ r.hi1)
  obtain ⟨a2, b2⟩ := mul_lane t.l2 hi.l2 r.t2 (w26 _ r.hi2); obtain ⟨a3, b3⟩ := mul_lane t.l3 hi.l3 r.t3 (w26 _ r.hi3)
  obtain ⟨c0, d0⟩ := mul_lane t.l0 mid.l0 r.t0 r.mid0; obtain ⟨c1, d1⟩ := mul_lane t.l1 mid.l1 r.t1 r.mid1
  obtain ⟨c2, d2⟩ := mul_lane t.l2 mid.l2 r.t2 r.mid2; obtain ⟨c3, d3⟩ := mul_lane t.l3 mid.l3 r.t3 r.mid3
  obtain ⟨e0, f0⟩ := mul_lane t.l0 lo.l0 r.t0 r.lo0; obtain ⟨e1, f1⟩ := mul_lane t.l1 lo.l1 r.t1 r.lo1
  obtain ⟨e2, f2⟩ := mul_lane t.l2 lo.l2 r.t2 r.lo2; obtain ⟨e3, f3⟩ := mul_lane t.l3 lo.l3 r.t3 r.lo3
  have hh : ∀ (a b : Nat), a < 2 ^ 30 → b < 2 ^ 26 → a * b < 2 ^ 56 := fun a b ha hb => by
    calc a * b < 2 ^ 30 * 2 ^ 26 := Nat.mul_lt_mul'' ha hb
      _ = 2 ^ 56 := by norm_num
  have g0 := hh _ _ r.t0 r.hi0; have g1 := hh _ _ r.t1 r.hi1; have g2 := hh _ _ r.t2 r.hi2; have g3 := hh _ _ r.t3 r.hi3
  unfold crtAccumulate
  simp only []
  rw [BitVec.toNat_add, BitVec.toNat_add, BitVec.toNat_shiftLeft, BitVec.toNat_shiftLeft]
  simp only [BitVec.toNat_setWidth, BitVec.truncate_eq_setWidth]
  rw [hadd64_toNat _ b0 b1 b2 b3, hadd64_toNat _ d0 d1 d2 d3, hadd64_toNat _ f0 f1 f2 f3]
  simp only [a0, a1, a2, a3, c0, c1, c2, c3, e0, e1, e2, e3, Nat.shiftLeft_eq]
  have key : ∀ K M N : Nat, K < 2 ^ 58 → M < 2 ^ 64 → N < 2 ^ 64 →
      ((K % 2 ^ 128 * 2 ^ 64 % 2 ^ 128 + M % 2 ^ 128 * 2 ^ 32 % 2 ^ 128) % 2 ^ 128 + N % 2 ^ 128) % 2 ^ 128
        = K * 2 ^ 64 + M * 2 ^ 32 + N := by intro K M N _ _ _; omega
  rw [a0] at b0; rw [a1] at b1; rw [a2] at b2; rw [a3] at b3
  rw [c0] at d0; rw [c1] at d1; rw [c2] at d2; rw [c3] at d3
  rw [e0] at f0; rw [e1] at f1; rw [e2] at f2; rw [e3] at f3
  rw [key _ _ _ (by omega) (by omega) (by omega)]
  ring

/-! ### pack kernels -/

/-- `pack_left_1blk_x2_avx2`: the stored `u64` lane, read as the two `u32` the reference writes, is `[a % q, 0]` -/
theorem packLeft_eq_ref (x q mu pow32 : W) (c : ModC q mu pow32) (hx : x.toNat < q.toNat * 2 ^ 33) :
    [(reduceBToCanonical x q mu pow32).toNat % 2 ^ 32, (reduceBToCanonical x q mu pow32).toNat / 2 ^ 32] = [x.toNat % q.toNat, 0] := by
  rw [reduceB_eq_mod x q mu pow32 c hx]
  have hq := c.q_lt
  have : x.toNat % q.toNat < q.toNat := Nat.mod_lt _ (by have := c.q_gt; omega)
  rw [Nat.mod_eq_of_lt (by omega), Nat.div_eq_of_lt (by omega)]

/-- `pairwise_pack_left_1blk_x2_avx2` lane = the reference's `sum = a % q + b % q; if sum >= q { sum -= q }` -/
theorem pairwisePackLeft_eq_ref (a b q mu pow32 : W) (c : ModC q mu pow32)
    (ha : a.toNat < q.toNat * 2 ^ 33) (hb : b.toNat < q.toNat * 2 ^ 33) :
    (pairwisePackLeft a b q mu pow32).toNat
      = if q.toNat ≤ a.toNat % q.toNat + b.toNat % q.toNat then a.toNat % q.toNat + b.toNat % q.toNat - q.toNat
        else a.toNat % q.toNat + b.toNat % q.toNat := by
  have hq := c.q_lt
  have hq0 : 0 < q.toNat := by have := c.q_gt; omega
  have h1 : a.toNat % q.toNat < q.toNat := Nat.mod_lt _ hq0
  have h2 : b.toNat % q.toNat < q.toNat := Nat.mod_lt _ hq0
  unfold pairwisePackLeft
  rw [condSub_toNat, toNat_add, reduceB_eq_mod a q mu pow32 c ha, reduceB_eq_mod b q mu pow32 c hb,
    wu64_of_lt _ (by omega), Q120.condSub_eq _ _ (by omega) (by omega)]

/-- `pairwise_pack_right_1blk_x2_avx2` (`_mm256_add_epi32`) = the reference's `u32` addition: wrapping (release build) … -/
theorem add_epi32_toNat (a b : BitVec 32) : (add_epi32 a b).toNat = (a.toNat + b.toNat) % 2 ^ 32 := by
  simp [add_epi32, BitVec.toNat_add]

/-- … and exact on q120c operands (both `< 2^31`): the reference's `a + b` does not overflow there (it would panic in a
debug build, which is the only observable difference between the two) -/
theorem add_epi32_exact (a b : BitVec 32) (ha : a.toNat < 2 ^ 31) (hb : b.toNat < 2 ^ 31) :
    (add_epi32 a b).toNat = a.toNat + b.toNat := by
  rw [add_epi32_toNat]; exact Nat.mod_eq_of_lt (by omega)

/-- the lazy AVX kernels subtract `Q_SHIFTED` at most once, the reference takes `% Q_SHIFTED`: beyond `2·Q_SHIFTED` they differ -/
theorem nttAdd_differs_outside :
    (nttAdd (BitVec.ofNat 64 (qShifted 1073479681)) (BitVec.ofNat 64 (2 ^ 64 - 1)) 0#64).toNat
      ≠ addBbbK 1073479681 (2 ^ 64 - 1) 0 := by decide

end Avx.Ntt
