import Poulpy.Model.AvxNtt
import Poulpy.Lemmas.Ntt120Acc
import Poulpy.Lemmas.Ntt120Crt
import Std.Tactic.BVDecide
import Poulpy.Lemmas.NttRefine
import Poulpy.Lemmas.AvxQ120
/-
C10: the integer AVX2 kernels of the NTT120 back end, lane by lane, equal the reference kernels modelled in
`Model/Ntt120.lean` (C07) for all operands in the documented ranges.
Method: every intrinsic has a `toNat` law; a lane equation `(avx …).toNat = Ntt120.f (….toNat)` is then a statement
about `Nat` with explicit `% 2^64`, closed with the range hypotheses.
-/
namespace Avx.Ntt
open Avx Ntt120

/-! ### `toNat` laws of the intrinsics -/

theorem toNat_add (a b : W) : (add_epi64 a b).toNat = wu64 (a.toNat + b.toNat) := by
  simp [add_epi64, wu64, BitVec.toNat_add]

theorem toNat_sub (a b : W) : (sub_epi64 a b).toNat = subU64 a.toNat b.toNat := by
  unfold sub_epi64 subU64
  rw [BitVec.toNat_sub, Nat.mod_eq_of_lt b.isLt, Nat.add_comm]

theorem toNat_and (a b : W) : (and_si256 a b).toNat = a.toNat &&& b.toNat := by simp [and_si256]

theorem toNat_srl (a c : W) : (srl_epi64 a c).toNat = a.toNat >>> c.toNat := by
  unfold srl_epi64
  by_cases h : c < 64#64
  · simp [h]
  · simp only [h, if_false]
    have hc : 64 ≤ c.toNat := by
      have : ¬ (c.toNat < 64) := by simpa [BitVec.lt_def] using h
      omega
    have : a.toNat >>> c.toNat = 0 := by
      rw [Nat.shiftRight_eq_div_pow]
      apply Nat.div_eq_of_lt
      calc a.toNat < 2 ^ 64 := a.isLt
        _ ≤ 2 ^ c.toNat := Nat.pow_le_pow_right (by decide) hc
    simp [this]

theorem toNat_srli32 (a : W) : (srli_epi64 a 32).toNat = a.toNat >>> 32 := by simp [srli_epi64]

theorem toNat_mul_epu32 (a b : W) : (mul_epu32 a b).toNat = (a.toNat % 2 ^ 32) * (b.toNat % 2 ^ 32) := by
  unfold mul_epu32
  have ha : (a &&& 0xFFFFFFFF#64).toNat = a.toNat % 2 ^ 32 := by
    rw [BitVec.toNat_and]; exact Nat.and_two_pow_sub_one_eq_mod _ 32
  have hb : (b &&& 0xFFFFFFFF#64).toNat = b.toNat % 2 ^ 32 := by
    rw [BitVec.toNat_and]; exact Nat.and_two_pow_sub_one_eq_mod _ 32
  rw [BitVec.toNat_mul, ha, hb]
  apply Nat.mod_eq_of_lt
  exact mul_u32_lt _ _ (Nat.mod_lt _ (by decide)) (Nat.mod_lt _ (by decide))

/-! ### `split_precompmul_si256`, `modq_red_si256` -/

/-- `split_precompmul_si256` = `split_precompmul` whenever both multiplicands handed to `_mm256_mul_epu32` fit in 32 bits
(`inp & mask < 2^32`, `inp >> half_bs < 2^32`): the reference multiplies full `u64` words -/
theorem splitPrecompmul_eq (inp po h mask : W) (h1 : inp.toNat &&& mask.toNat < 2 ^ 32) (h2 : inp.toNat >>> h.toNat < 2 ^ 32) :
    (splitPrecompmulSi256 inp po h mask).toNat = splitPrecompmul inp.toNat po.toNat h.toNat mask.toNat := by
  unfold splitPrecompmulSi256 splitPrecompmul
  simp only [toNat_add, toNat_mul_epu32, toNat_and, toNat_srl, toNat_srli32]
  have e : (0xFFFFFFFF : Nat) = 2 ^ 32 - 1 := by norm_num
  have hp : po.toNat >>> 32 < 2 ^ 32 := by
    rw [Nat.shiftRight_eq_div_pow]
    exact Nat.div_lt_of_lt_mul (by have := po.isLt; omega)
  rw [e, Nat.and_two_pow_sub_one_eq_mod, Nat.mod_eq_of_lt h1, Nat.mod_eq_of_lt h2, Nat.mod_eq_of_lt hp]
  have m1 := mul_u32_lt _ _ h1 (Nat.mod_lt po.toNat (by decide : 0 < 2 ^ 32))
  have m2 := mul_u32_lt _ _ h2 hp
  rw [wu64_of_lt _ m1, wu64_of_lt _ m2]

/-- outside that range they differ (here `half_bs = 33`: the low part has 33 bits) -/
theorem splitPrecompmul_differs_outside :
    (splitPrecompmulSi256 (1#64 <<< 32) 1#64 33#64 ((1#64 <<< 33) - 1#64)).toNat
      ≠ splitPrecompmul (2 ^ 32) 1 33 (2 ^ 33 - 1) := by decide

/-- `modq_red_si256` = `modq_red` whenever `x >> h` and the reduction constant fit in 32 bits -/
theorem modqRed_eq (x h mask cst : W) (h1 : x.toNat >>> h.toNat < 2 ^ 32) (h2 : cst.toNat < 2 ^ 32) :
    (modqRedSi256 x h mask cst).toNat = modqRed x.toNat h.toNat mask.toNat cst.toNat := by
  unfold modqRedSi256 modqRed
  simp only [toNat_add, toNat_mul_epu32, toNat_and, toNat_srl]
  rw [Nat.mod_eq_of_lt h1, Nat.mod_eq_of_lt h2, wu64_of_lt _ (mul_u32_lt _ _ h1 h2)]

theorem modqRed_differs_outside :
    (modqRedSi256 (1#64 <<< 40) 4#64 15#64 3#64).toNat ≠ modqRed (2 ^ 40) 4 15 3 := by decide

/-! ### butterfly lanes of `ntt_iter[_red]`, `intt_iter[_red]`, `ntt_iter_first[_red]` -/

/-- the reference metadata a lane's constants stand for -/
def stepOf (m : StepC) (bs : Nat) : StepMeta :=
  { q2bs := m.q2bs.toNat, bs := bs, halfBs := m.halfBs.toNat, mask := m.mask.toNat, reduce := m.reduce }
def redOf (r : RedC) : ReducK := { h := r.h.toNat, mask := r.mask.toNat, cst := r.cst.toNat }

/-- operand range of the lazy reduction (only needed when the level reduces) -/
def RedRange (r : RedC) (m : StepC) (x : W) : Prop := m.reduce = true → x.toNat >>> r.h.toNat < 2 ^ 32 ∧ r.cst.toNat < 2 ^ 32
/-- operand range of the twiddle multiplication -/
def SpmRange (m : StepC) (v : Nat) : Prop := v &&& m.mask.toNat < 2 ^ 32 ∧ v >>> m.halfBs.toNat < 2 ^ 32

theorem redIf_eq (r : RedC) (m : StepC) (bs : Nat) (x : W) (hx : RedRange r m x) :
    (Ntt.redIf r m x).toNat = Ntt120.redIf (redOf r) (stepOf m bs) x.toNat := by
  unfold Ntt.redIf Ntt120.redIf stepOf redOf
  by_cases h : m.reduce = true
  · simp only [h, if_true]; exact modqRed_eq x r.h r.mask r.cst (hx h).1 (hx h).2
  · have h' : m.reduce = false := by cases hm : m.reduce <;> simp_all
    simp [h']

/-- butterfly `i = 0` (forward and inverse): AVX lane pair = `bfly` of the reference -/
theorem bfly0_eq (r : RedC) (m : StepC) (bs : Nat) (a b : W) (ha : RedRange r m a) (hb : RedRange r m b) :
    ((bfly0 r m a b).1.toNat, (bfly0 r m a b).2.toNat) = Ntt120.bfly (redOf r) (stepOf m bs) a.toNat b.toNat := by
  unfold bfly0 Ntt120.bfly
  simp only [toNat_add, toNat_sub, redIf_eq r m bs a ha, redIf_eq r m bs b hb]
  rfl

/-- forward butterfly `i ≥ 1` = one step of `fwdTail`: `(x, split_precompmul(y, po))` with `(x, y) = bfly(a, b)` -/
theorem fwdBflyI_eq (r : RedC) (m : StepC) (bs : Nat) (a b po : W) (ha : RedRange r m a) (hb : RedRange r m b)
    (hd : SpmRange m (Ntt120.bfly (redOf r) (stepOf m bs) a.toNat b.toNat).2) :
    ((fwdBflyI r m a b po).1.toNat, (fwdBflyI r m a b po).2.toNat) =
      ((Ntt120.bfly (redOf r) (stepOf m bs) a.toNat b.toNat).1,
       splitPrecompmul (Ntt120.bfly (redOf r) (stepOf m bs) a.toNat b.toNat).2 po.toNat m.halfBs.toNat m.mask.toNat) := by
  have hb0 := bfly0_eq r m bs a b ha hb
  unfold bfly0 at hb0
  have h1 := congrArg Prod.fst hb0
  have h2 := congrArg Prod.snd hb0
  simp only [] at h1 h2
  unfold fwdBflyI
  simp only []
  rw [← h2] at hd
  rw [splitPrecompmul_eq _ po m.halfBs m.mask hd.1 hd.2, h1, h2]

/-- inverse butterfly `i ≥ 1` = one step of `invTail` -/
theorem invBflyI_eq (r : RedC) (m : StepC) (bs : Nat) (a b po : W) (ha : RedRange r m a) (hb : RedRange r m b)
    (hd : SpmRange m (Ntt120.redIf (redOf r) (stepOf m bs) b.toNat)) :
    ((invBflyI r m a b po).1.toNat, (invBflyI r m a b po).2.toNat) =
      (let a' := Ntt120.redIf (redOf r) (stepOf m bs) a.toNat
       let bo := splitPrecompmul (Ntt120.redIf (redOf r) (stepOf m bs) b.toNat) po.toNat m.halfBs.toNat m.mask.toNat
       (wu64 (a' + bo), subU64 (wu64 (a' + m.q2bs.toNat)) bo)) := by
  unfold invBflyI
  simp only []
  rw [← redIf_eq r m bs b hb] at hd
  simp only [toNat_add, toNat_sub, splitPrecompmul_eq _ po m.halfBs m.mask hd.1 hd.2, redIf_eq r m bs a ha, redIf_eq r m bs b hb]

/-- first / last pass -/
theorem iterFirst_eq (r : RedC) (m : StepC) (bs : Nat) (x po : W) (hx : RedRange r m x)
    (hd : SpmRange m (Ntt120.redIf (redOf r) (stepOf m bs) x.toNat)) :
    (iterFirst r m x po).toNat = splitPrecompmul (Ntt120.redIf (redOf r) (stepOf m bs) x.toNat) po.toNat m.halfBs.toNat m.mask.toNat := by
  unfold iterFirst
  rw [← redIf_eq r m bs x hx] at hd
  rw [splitPrecompmul_eq _ po m.halfBs m.mask hd.1 hd.2, redIf_eq r m bs x hx]

/-- the ranges follow from C07's table invariants: `ReducOK` gives the reduction range for every `u64` -/
theorem redRange_of_ok (q : Nat) (r : RedC) (m : StepC) (x : W) (ok : ReducOK q (redOf r)) : RedRange r m x := by
  intro _
  have h33 := ok.h_ge
  have hc := ok.cst_lt
  simp only [redOf] at h33 hc
  refine ⟨?_, by omega⟩
  rw [Nat.shiftRight_eq_div_pow]
  have h1 : 2 ^ 33 ≤ 2 ^ r.h.toNat := Nat.pow_le_pow_right (by decide) h33
  have h2 : x.toNat / 2 ^ r.h.toNat ≤ x.toNat / 2 ^ 33 := Nat.div_le_div_left h1 (by decide)
  have := x.isLt
  omega

/-- … and `SpmOK` (mask `= 2^half_bs − 1`, `half_bs ≤ 32`, operand below `2^(2·half_bs)`) gives the multiplication range -/
theorem spmRange_of_ok (q : Nat) (m : StepC) (bs D v : Nat) (ok : SpmOK q (stepOf m bs) D) (hv : v ≤ D) : SpmRange m v := by
  have hm := ok.mask_eq
  have hb := ok.hb_le
  have hD := ok.inp_lt
  simp only [stepOf] at hm hb hD
  have hpos : 0 < 2 ^ m.halfBs.toNat := Nat.two_pow_pos _
  have hle : 2 ^ m.halfBs.toNat ≤ 2 ^ 32 := Nat.pow_le_pow_right (by decide) hb
  constructor
  · rw [hm, Nat.and_two_pow_sub_one_eq_mod]
    have := Nat.mod_lt v hpos
    omega
  · rw [Nat.shiftRight_eq_div_pow]
    have : v / 2 ^ m.halfBs.toNat < 2 ^ m.halfBs.toNat := by
      rw [Nat.div_lt_iff_lt_mul hpos, ← pow_add]
      have e : m.halfBs.toNat + m.halfBs.toNat = 2 * m.halfBs.toNat := by ring
      rw [e]; omega
    omega

/-! ### `prim.rs`: lazy q120b add / sub / negate -/

/-- `lazy_reduce`: the `xor msb` + signed `cmpgt` + `andnot` + `sub` sequence is one unsigned conditional subtraction,
for ALL 64-bit lanes -/
theorem lazyReduce_bv (x qs : W) : lazyReduce x qs = if qs ≤ x then x - qs else x := by
  simp only [lazyReduce, msbC, xor_si256, cmpgt_epi64, andnot_si256, sub_epi64, allOnes]
  bv_decide

theorem lazyReduce_toNat (q : Nat) (x qs : W) (hq : qs.toNat = qShifted q) :
    (lazyReduce x qs).toNat = lazyReduceAvx q x.toNat := by
  rw [lazyReduce_bv]
  unfold lazyReduceAvx
  rw [← hq]
  by_cases h : qs ≤ x
  · have h' : x.toNat ≥ qs.toNat := by simpa [BitVec.le_def] using h
    rw [if_pos h, if_pos h']
    have := toNat_sub x qs
    unfold sub_epi64 at this
    exact this
  · have h' : ¬ x.toNat ≥ qs.toNat := by simpa [BitVec.le_def] using h
    rw [if_neg h, if_neg h']

/-- the seven lazy kernels, one lane, every `u64` input: AVX intrinsic sequence = C07's arithmetic twin -/
theorem nttAdd_toNat (q : Nat) (qs a b : W) (hq : qs.toNat = qShifted q) :
    (nttAdd qs a b).toNat = addBbbAvxK q a.toNat b.toNat := by
  unfold nttAdd addBbbAvxK
  rw [toNat_add, lazyReduce_toNat q a qs hq, lazyReduce_toNat q b qs hq]
theorem nttSub_toNat (q : Nat) (qs a b : W) (hq : qs.toNat = qShifted q) :
    (nttSub qs a b).toNat = subBbbAvxK q a.toNat b.toNat := by
  unfold nttSub subBbbAvxK
  rw [toNat_add, toNat_sub, lazyReduce_toNat q a qs hq, lazyReduce_toNat q b qs hq, hq]
theorem nttNegate_toNat (q : Nat) (qs a : W) (hq : qs.toNat = qShifted q) :
    (nttNegate qs a).toNat = negBAvxK q a.toNat := by
  unfold nttNegate negBAvxK
  rw [toNat_sub, lazyReduce_toNat q a qs hq, hq]

/-- … hence equal to the reference kernels (`%` by `Q_SHIFTED`) on the documented lazy range `x < 2·Q_SHIFTED` -/
theorem nttAdd_eq_ref (q : Nat) (qs a b : W) (hq : qs.toNat = qShifted q) (hq0 : 0 < q) (hq30 : q < 2 ^ 30)
    (ha : a.toNat < 2 * (q * 2 ^ 33)) (hb : b.toNat < 2 * (q * 2 ^ 33)) : (nttAdd qs a b).toNat = addBbbK q a.toNat b.toNat := by
  rw [nttAdd_toNat q qs a b hq, addBbbAvxK_eq q _ _ hq0 hq30 ha hb]
theorem nttSub_eq_ref (q : Nat) (qs a b : W) (hq : qs.toNat = qShifted q) (hq0 : 0 < q) (hq30 : q < 2 ^ 30)
    (ha : a.toNat < 2 * (q * 2 ^ 33)) (hb : b.toNat < 2 * (q * 2 ^ 33)) : (nttSub qs a b).toNat = subBbbK q a.toNat b.toNat := by
  rw [nttSub_toNat q qs a b hq, subBbbAvxK_eq q _ _ hq0 hq30 ha hb]
theorem nttNegate_eq_ref (q : Nat) (qs a : W) (hq : qs.toNat = qShifted q) (hq0 : 0 < q) (hq30 : q < 2 ^ 30)
    (ha : a.toNat < 2 * (q * 2 ^ 33)) : (nttNegate qs a).toNat = negBK q a.toNat := by
  rw [nttNegate_toNat q qs a hq, negBAvxK_eq q _ hq0 hq30 ha]

/-! ### `arithmetic_avx.rs`: the BitVec lanes equal the `u64`-as-`Nat` lanes of `Model/AvxQ120.lean` for ALL inputs -/

theorem toNat_srli (a : W) (k : Nat) (hk : k < 64) : (srli_epi64 a k).toNat = a.toNat >>> k := by simp [srli_epi64, hk]

theorem toNat_cmpgt (a b : W) : (cmpgt_epi64 a b).toNat = Q120.cmpgt_epi64 a.toNat b.toNat := by
  unfold cmpgt_epi64 Q120.cmpgt_epi64 Q120.sgn Q120.ones allOnes
  have ha : a.toInt = if a.toNat < 2 ^ 63 then (a.toNat : Int) else (a.toNat : Int) - 2 ^ 64 := by
    rw [BitVec.toInt_eq_toNat_cond]; split <;> split <;> simp_all <;> omega
  have hb : b.toInt = if b.toNat < 2 ^ 63 then (b.toNat : Int) else (b.toNat : Int) - 2 ^ 64 := by
    rw [BitVec.toInt_eq_toNat_cond]; split <;> split <;> simp_all <;> omega
  rw [BitVec.slt, ← ha, ← hb]
  by_cases h : b.toInt < a.toInt
  · simp [h]
  · simp [h]

theorem toNat_andnot (a b : W) : (andnot_si256 a b).toNat = Q120.andnot_si256 a.toNat b.toNat := by
  unfold andnot_si256 Q120.andnot_si256 Q120.ones
  rw [BitVec.toNat_and, BitVec.toNat_not]

theorem toNat_sub_q (a b : W) : (sub_epi64 a b).toNat = Q120.sub_epi64 a.toNat b.toNat := by
  unfold Q120.sub_epi64 Q120.wrap
  rw [toNat_sub]; unfold subU64
  rw [Nat.mod_eq_of_lt b.isLt]
  congr 1
  have := b.isLt; omega

theorem toNat_add_q (a b : W) : (add_epi64 a b).toNat = Q120.add_epi64 a.toNat b.toNat := by
  rw [toNat_add]; rfl

theorem toNat_mul_q (a b : W) : (mul_epu32 a b).toNat = Q120.mul_epu32 a.toNat b.toNat := toNat_mul_epu32 a b

theorem toNat_mask32 : mask32.toNat = Q120.mask32 := by decide

theorem condSub_toNat (x q : W) : (condSub x q).toNat = Q120.condSub x.toNat q.toNat := by
  unfold condSub Q120.condSub
  rw [toNat_sub_q, toNat_andnot, toNat_cmpgt]

theorem barrett_toNat (tmp q mu : W) : (barrett tmp q mu).toNat = Q120.barrett tmp.toNat q.toNat mu.toNat := by
  unfold barrett Q120.barrett
  simp only [condSub_toNat, toNat_sub_q, toNat_add_q, toNat_mul_q, toNat_srli _ _ (by decide : 32 < 64),
    toNat_srli _ _ (by decide : 29 < 64), toNat_srli _ _ (by decide : 61 < 64), toNat_and, toNat_mask32]

theorem reduceB_toNat (x q mu pow32 : W) :
    (reduceBToCanonical x q mu pow32).toNat = Q120.reduceBToCanonical x.toNat q.toNat mu.toNat pow32.toNat := by
  unfold reduceBToCanonical Q120.reduceBToCanonical
  simp only [barrett_toNat, condSub_toNat, toNat_add_q, toNat_mul_q, toNat_srli _ _ (by decide : 32 < 64), toNat_and, toNat_mask32]

theorem bFromZnx64_toNat (xv oq : W) : (bFromZnx64 xv oq).toNat = Q120.bFromZnx64Lane xv.toNat oq.toNat := by
  unfold bFromZnx64 Q120.bFromZnx64Lane
  simp only [toNat_add_q, toNat_and, toNat_cmpgt, setzero_si256]
  rfl

/-! ### … and therefore equal the reference functions of `Model/Ntt120.lean` on the documented ranges -/

/-- the hypotheses shared by the Barrett-based lanes: a Primes30-shaped modulus with its derived constants -/
structure ModC (q mu pow32 : W) : Prop where
  q_gt : 2 ^ 29 < q.toNat
  q_lt : q.toNat < 2 ^ 30
  mu_eq : mu.toNat = 2 ^ 61 / q.toNat
  pow_eq : pow32.toNat = 2 ^ 32 % q.toNat

/-- `barrett_reduce` lane = `% q` for `tmp < 2^61` -/
theorem barrett_eq_mod (tmp q mu pow32 : W) (c : ModC q mu pow32) (ht : tmp.toNat < 2 ^ 61) :
    (barrett tmp q mu).toNat = tmp.toNat % q.toNat := by
  rw [barrett_toNat]; exact Q120.barrett_eq _ _ _ c.q_gt c.q_lt c.mu_eq ht

/-- `reduce_b_to_canonical` lane (also the lane of `pack_left_1blk_x2_avx2`) = `x % q`, the reference's `a[idx] % q`,
for `x < q·2^33` -/
theorem reduceB_eq_mod (x q mu pow32 : W) (c : ModC q mu pow32) (hx : x.toNat < q.toNat * 2 ^ 33) :
    (reduceBToCanonical x q mu pow32).toNat = x.toNat % q.toNat := by
  rw [reduceB_toNat]; exact Q120.reduceB_eq _ _ _ _ c.q_gt c.q_lt c.mu_eq c.pow_eq hx

theorem toNat_or_shl32 (r s : W) (hr : r.toNat < 2 ^ 32) (hs : s.toNat < 2 ^ 32) :
    (or_si256 r (slli_epi64 s 32)).toNat = r.toNat + s.toNat * 2 ^ 32 := by
  have hr' : r < 0x100000000#64 := by simpa [BitVec.lt_def] using hr
  have hs' : s < 0x100000000#64 := by simpa [BitVec.lt_def] using hs
  have e : or_si256 r (slli_epi64 s 32) = r + s * 0x100000000#64 := by
    simp only [or_si256, slli_epi64]
    bv_decide
  rw [e, BitVec.toNat_add, BitVec.toNat_mul]
  simp only [BitVec.toNat_ofNat]
  have h1 : s.toNat * 4294967296 < 2 ^ 64 := by omega
  have h2 : (4294967296 : Nat) % 2 ^ 64 = 4294967296 := by decide
  rw [h2, Nat.mod_eq_of_lt h1, Nat.mod_eq_of_lt (by omega)]
  norm_num

/-- `c_from_b_avx2` lane: the stored `u64` is the q120c pair `[r, (r << 32) % q]` of `c_from_b_ref` (`cFromBK`) -/
theorem cFromB_eq_ref (x q mu pow32 : W) (c : ModC q mu pow32) (hx : x.toNat < q.toNat * 2 ^ 33) :
    [(cFromB x q mu pow32).toNat % 2 ^ 32, (cFromB x q mu pow32).toNat / 2 ^ 32] = cFromBK q.toNat x.toNat := by
  have hq0 : 0 < q.toNat := by have := c.q_gt; omega
  have hr := reduceB_eq_mod x q mu pow32 c hx
  have hrl : x.toNat % q.toNat < q.toNat := Nat.mod_lt _ hq0
  have hq30 := c.q_lt
  have hpl : pow32.toNat < q.toNat := by rw [c.pow_eq]; exact Nat.mod_lt _ hq0
  have hprod : (mul_epu32 (reduceBToCanonical x q mu pow32) pow32).toNat = x.toNat % q.toNat * pow32.toNat := by
    rw [toNat_mul_epu32, hr, Nat.mod_eq_of_lt (show x.toNat % q.toNat < 2 ^ 32 by omega),
      Nat.mod_eq_of_lt (show pow32.toNat < 2 ^ 32 by omega)]
  have hp60 : x.toNat % q.toNat * pow32.toNat < 2 ^ 61 := by
    calc x.toNat % q.toNat * pow32.toNat < 2 ^ 30 * 2 ^ 30 := Nat.mul_lt_mul'' (by omega) (by omega)
      _ < 2 ^ 61 := by norm_num
  have hs : (barrett (mul_epu32 (reduceBToCanonical x q mu pow32) pow32) q mu).toNat = (x.toNat % q.toNat * pow32.toNat) % q.toNat := by
    rw [barrett_eq_mod _ q mu pow32 c (by rw [hprod]; exact hp60), hprod]
  have hsl : (x.toNat % q.toNat * pow32.toNat) % q.toNat < q.toNat := Nat.mod_lt _ hq0
  unfold cFromB
  simp only []
  rw [toNat_or_shl32 _ _ (by rw [hr]; omega) (by rw [hs]; omega), hr, hs]
  unfold cFromBK cPair wu32 wu64
  have e1 : (x.toNat % q.toNat + x.toNat % q.toNat * pow32.toNat % q.toNat * 2 ^ 32) % 2 ^ 32 = x.toNat % q.toNat := by
    rw [Nat.add_mul_mod_self_right]; exact Nat.mod_eq_of_lt (by omega)
  have e2 : (x.toNat % q.toNat + x.toNat % q.toNat * pow32.toNat % q.toNat * 2 ^ 32) / 2 ^ 32 = x.toNat % q.toNat * pow32.toNat % q.toNat := by
    rw [Nat.add_mul_div_right _ _ (by positivity), Nat.div_eq_of_lt (by omega), Nat.zero_add]
  rw [e1, e2, Nat.mod_eq_of_lt (show x.toNat % q.toNat < 2 ^ 32 by omega)]
  have e3 : x.toNat % q.toNat * 2 ^ 32 % 2 ^ 64 = x.toNat % q.toNat * 2 ^ 32 := Nat.mod_eq_of_lt (by
    calc x.toNat % q.toNat * 2 ^ 32 < 2 ^ 30 * 2 ^ 32 := Nat.mul_lt_mul_of_pos_right (by omega) (by positivity)
      _ < 2 ^ 64 := by norm_num)
  have e4 : x.toNat % q.toNat * pow32.toNat % q.toNat = x.toNat % q.toNat * 2 ^ 32 % q.toNat := by
    rw [c.pow_eq]; simp [Nat.mul_mod, Nat.mod_mod]
  rw [e3, e4, Nat.mod_eq_of_lt (show x.toNat % q.toNat * 2 ^ 32 % q.toNat < 2 ^ 32 by
    have := Nat.mod_lt (x.toNat % q.toNat * 2 ^ 32) hq0; omega)]

/-- `b_from_znx64[_masked]_avx2` lane = `bFromU64K` (inner statement of `b_from_znx64_ref`) for EVERY `i64` pattern -/
theorem bFromZnx64_eq_ref (xv oqv : W) (q : Nat) (ho : oqv.toNat = oq q) :
    (bFromZnx64 xv oqv).toNat = bFromU64K q xv.toNat := by
  rw [bFromZnx64_toNat, Q120.bFromZnx64_eq _ _ xv.isLt oqv.isLt, ho]
  unfold Q120.bFromZnx64Ref bFromU64K maskLo Q120.wrap wu64
  simp only [decide_eq_true_eq]

end Avx.Ntt
