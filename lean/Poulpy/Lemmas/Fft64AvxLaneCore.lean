import Poulpy.Lemmas.Fft64AvxLane

open Complex

namespace Fft64Avx
open F64 Fft64 NttMath

/-- from an accumulator close to the exact transform of an integer polynomial `c` to `idftOfAvx … = c` -/
theorem idftAvx_of_close (K : Nat) (hK : K ≤ 900) (iomg : Array Nat) (τ : ℝ) (hτ0 : 0 ≤ τ) (hτ1 : τ ≤ 1) (A E : ℝ) (hA1 : 1 ≤ A) (hE0 : 0 ≤ E)
    (hacci : AccI τ (twOf (invIdx K) iomg) K 0 0 (1 / 4))
    (hri : 2 ^ K * (1 + γi τ / 2) ^ K * (A + E) ≤ (2:ℝ) ^ (997:Int)) (hr62 : A ≤ (2:ℝ) ^ (62:Nat))
    (hmain : errB (γi τ) K A E / 2 ^ K * (1 + u) + u * (A + 1) + η < 1 / 2)
    (c : Poly) (lc : c.length = 2 ^ (K + 1)) (acc : List C64)
    (hc : Close E A acc (fwdE K (1 / 4) (packC (2 ^ K) (c.map cc)))) :
    idftOfAvx K iomg acc = c := by
  have lpk := packC_length K (c.map cc) (by simpa using lc)
  have lacc : acc.length = 2 ^ K := by rw [close_len hc, fwdE_length _ _ _ lpk]
  have ci := invAvx_close K iomg τ hτ0 hτ1 _ _ _ _ hA1 hE0 lacc hc hacci hri
  rw [invE_fwdE _ _ _ lpk] at ci
  have hX : (packC (2 ^ K) (c.map cc)).map ((2:ℂ) ^ K * ·) =
      List.zipWith (fun x y => (2:ℂ) ^ K * (cc x + I * cc y)) (c.take (2 ^ K)) (c.drop (2 ^ K)) := by
    unfold packC
    rw [← List.map_take, ← List.map_drop, List.map_zipWith, List.zipWith_map]
  rw [hX] at ci
  have hEI : 0 ≤ errB (γi τ) K A E := errB_nonneg _ (γi_nonneg τ hτ0) _ _ _ (by linarith) hE0
  have hdiv : 2 ^ K * A / 2 ^ K = A := by field_simp
  exact toZnxAvx_spec K hK _ (2 ^ K * A) hEI (by positivity) (by rw [hdiv]; exact hr62) (by rw [hdiv]; exact hmain) c lc _ ci

/-- per-product error of the fused lane in the pipeline -/
noncomputable def EPL (K : Nat) (τ Ma Mb : ℝ) : ℝ := epL (EF K τ Ma) (AF K Ma) (EF K τ Mb) (AF K Mb)
/-- (component error, magnitude) of the fused-lane accumulator after `R` products -/
noncomputable def accRL (K R : Nat) (τ Ma Mb : ℝ) : ℝ × ℝ := accIterN ν2 (EPL K τ Ma Mb) (AP K Ma Mb) R (0, 0)
noncomputable def EaccL (K R : Nat) (τ Ma Mb : ℝ) : ℝ := 3 / 2 * (accRL K R τ Ma Mb).1

/-- **magnitude domain of the fused-lane accumulation on FFT64Avx** (`reim4_vec_mat2cols(_2ndcol)_product_avx`,
`reim4_convolution_{1,2}coeffs_avx`): `R` products accumulated per slot -/
structure LaneDomainAvx (K R : Nat) (τ Ma Mb : ℝ) : Prop where
  τ0 : 0 ≤ τ
  τ1 : τ ≤ 1
  K900 : K ≤ 900
  R1 : 1 ≤ R
  Ma1 : 1 ≤ Ma
  Mb1 : 1 ≤ Mb
  ra : 2 ^ K * (1 + γf τ / 2) ^ K * (A0 Ma + 0) ≤ (2:ℝ) ^ (999:Int)
  rb : 2 ^ K * (1 + γf τ / 2) ^ K * (A0 Mb + 0) ≤ (2:ℝ) ^ (999:Int)
  racc : (accRL K R τ Ma Mb).2 + (accRL K R τ Ma Mb).1 ≤ (2:ℝ) ^ (1000:Int)
  ri : 2 ^ K * (1 + γi τ / 2) ^ K * ((accRL K R τ Ma Mb).2 + EaccL K R τ Ma Mb) ≤ (2:ℝ) ^ (997:Int)
  r62 : (accRL K R τ Ma Mb).2 ≤ (2:ℝ) ^ (62:Nat)
  main : errB (γi τ) K (accRL K R τ Ma Mb).2 (EaccL K R τ Ma Mb) / 2 ^ K * (1 + u) + u * ((accRL K R τ Ma Mb).2 + 1) + η < 1 / 2

/-- the accumulation core of the fused-lane kernels -/
theorem lane_core (K : Nat) (iomg : Array Nat) (τ Ma Mb : ℝ) (rows : List (Poly × Poly)) (rowsC : List (List C64 × List C64))
    (hacci : AccI τ (twOf (invIdx K) iomg) K 0 0 (1 / 4))
    (hlen : ∀ r ∈ rows, r.1.length = 2 ^ (K + 1) ∧ r.2.length = 2 ^ (K + 1))
    (hrel : List.Forall₂ (fun rc (r : Poly × Poly) =>
      Close (EF K τ Ma) (AF K Ma) rc.1 (fwdE K (1 / 4) (packC (2 ^ K) (r.1.map cc))) ∧
      Close (EF K τ Mb) (AF K Mb) rc.2 (fwdE K (1 / 4) (packC (2 ^ K) (r.2.map cc)))) rowsC rows)
    (hdom : LaneDomainAvx K rows.length τ Ma Mb) :
    idftOfAvx K iomg (rowsC.foldl (fun acc r => List.zipWith (fun s uv => caddmulLaneAvx s uv.1 uv.2) acc (r.1.zip r.2))
        (List.replicate (2 ^ K) ((0:Nat), (0:Nat)))) =
      Hal.sumPolys (2 ^ (K + 1)) (rows.map (fun r => Hal.negMul r.1 r.2)) := by
  have hγ := γf_nonneg τ hdom.τ0
  have hAFa : 1 ≤ AF K Ma := by
    unfold AF A0; have : (1:ℝ) ≤ 2 ^ K := one_le_pow₀ (by norm_num); have := hdom.Ma1; nlinarith
  have hAFb : 1 ≤ AF K Mb := by
    unfold AF A0; have : (1:ℝ) ≤ 2 ^ K := one_le_pow₀ (by norm_num); have := hdom.Mb1; nlinarith
  have hEFa : 0 ≤ EF K τ Ma := errB_nonneg _ hγ _ _ _ (by unfold A0; have := hdom.Ma1; linarith) le_rfl
  have hEFb : 0 ≤ EF K τ Mb := errB_nonneg _ hγ _ _ _ (by unfold A0; have := hdom.Mb1; linarith) le_rfl
  set rowsE := rows.map (fun r => (fwdE K (1 / 4) (packC (2 ^ K) (r.1.map cc)), fwdE K (1 / 4) (packC (2 ^ K) (r.2.map cc)))) with hrE
  have hrel' : List.Forall₂ (fun rc re => Close (EF K τ Ma) (AF K Ma) rc.1 re.1 ∧ Close (EF K τ Mb) (AF K Mb) rc.2 re.2) rowsC rowsE := by
    rw [hrE, List.forall₂_map_right_iff]; exact hrel
  have hlenC : rowsC.length = rows.length := List.Forall₂.length_eq hrel
  have hEPeq : epL (EF K τ Ma) (AF K Ma) (EF K τ Mb) (AF K Mb) = EPL K τ Ma Mb := rfl
  have hAPeq : AF K Ma * AF K Mb = AP K Ma Mb := rfl
  have fc := fold_closeL (EF K τ Ma) (AF K Ma) (EF K τ Mb) (AF K Mb) hAFa hAFb hEFa hEFb hrel' 0 0 _ _ le_rfl le_rfl (closeL_zero (2 ^ K))
    (by rw [hlenC, hEPeq, hAPeq]; exact hdom.racc)
  rw [hlenC, hEPeq, hAPeq] at fc
  change CloseL (accRL K rows.length τ Ma Mb).1 (accRL K rows.length τ Ma Mb).2 _ _ at fc
  have hq := epL_nonneg _ _ _ _ hAFa hAFb hEFa hEFb
  rw [hEPeq] at hq
  have hap : 0 ≤ AP K Ma Mb := by unfold AP; positivity
  obtain ⟨hg0, _, _⟩ := accIterN_mono ν2 _ _ ν2_nonneg hq hap rows.length (0, 0) le_rfl le_rfl
  change 0 ≤ (accRL K rows.length τ Ma Mb).1 at hg0
  have ff := closeL_close _ _ hg0 fc
  have hex := exact_fold K rows hlen (Hal.zeroP (2 ^ (K + 1))) (by simp [Hal.zeroP])
  rw [packC_zero, fwdE_zero, ← hrE] at hex
  rw [hex] at ff
  set c := Hal.sumPolys (2 ^ (K + 1)) (rows.map (fun r => Hal.negMul r.1 r.2)) with hc
  have hcdef : c = (rows.map (fun r => Hal.negMul r.1 r.2)).foldl Hal.polyAdd (Hal.zeroP (2 ^ (K + 1))) := rfl
  rw [← hcdef] at ff
  have lc : c.length = 2 ^ (K + 1) := by
    rw [hcdef]; apply foldl_polyAdd_length _ _ _ (by simp [Hal.zeroP])
    intro p hp
    simp only [List.mem_map] at hp
    obtain ⟨r, hr, rfl⟩ := hp
    rw [Hal.negMul_length]; exact (hlen r hr).2
  have hA1 : 1 ≤ (accRL K rows.length τ Ma Mb).2 := by
    unfold accRL; rw [accIterN_snd]; simp only [zero_add]
    have hR : (1:ℝ) ≤ (rows.length : ℝ) := by exact_mod_cast hdom.R1
    have : 1 ≤ AP K Ma Mb := by unfold AP; nlinarith
    nlinarith
  have hE0 : 0 ≤ EaccL K rows.length τ Ma Mb := by unfold EaccL; positivity
  exact idftAvx_of_close K hdom.K900 iomg τ hdom.τ0 hdom.τ1 _ _ hA1 hE0 hacci hdom.ri hdom.r62 hdom.main c lc _ ff

/-- **`fft64avx_vmp2_exact`**: the 2-column kernels of `vmp_apply_dft_to_dft` on FFT64Avx (every output column except the last
one of an odd `ncols`) -/
theorem vmpAvx2_pipeline_exact (K : Nat) (hK2 : 2 ≤ K) (omg iomg : Array Nat) (τ Ma Mb : ℝ) (rows : List (Poly × Poly))
    (hacc : TableAccurate τ K omg iomg)
    (hlen : ∀ r ∈ rows, r.1.length = 2 ^ (K + 1) ∧ r.2.length = 2 ^ (K + 1))
    (hM : ∀ r ∈ rows, (∀ c ∈ r.1, c.natAbs ≤ 2 ^ 50 - 1 ∧ |(c:ℝ)| ≤ Ma) ∧ (∀ c ∈ r.2, c.natAbs ≤ 2 ^ 50 - 1 ∧ |(c:ℝ)| ≤ Mb))
    (hdom : LaneDomainAvx K rows.length τ Ma Mb) :
    vmpPipelineAvx K omg iomg 2 rows = .ok (Hal.sumPolys (2 ^ (K + 1)) (rows.map (fun r => Hal.negMul r.1 r.2))) := by
  have a1 := accF_of_flat τ _ K hacc.1 K 0 0 (by omega) (by norm_num)
  have a2 := accI_of_flat τ _ K hacc.2 K 0 0 (by omega) (by norm_num)
  rw [jval_zero] at a1 a2
  set gU := fun r : Poly × Poly => fwdAvx K omg (halves K (fromZnx r.1)) with hgU
  set gV := fun r : Poly × Poly => fwdAvx K omg (halves K (fromZnx r.2)) with hgV
  have hus : allOk (rows.map (fun r => dftOfAvx K omg r.1)) = .ok (rows.map gU) :=
    allOk_map _ gU rows (fun r hr => dftOfAvx_eq K omg r.1 (fun x hx => ((hM r hr).1 x hx).1))
  have hvs : allOk (rows.map (fun r => dftOfAvx K omg r.2)) = .ok (rows.map gV) :=
    allOk_map _ gV rows (fun r hr => dftOfAvx_eq K omg r.2 (fun x hx => ((hM r hr).2 x hx).1))
  set rowsC := (rows.map gU).zip (rows.map gV) with hrC
  have hrCmap : rowsC = rows.map (fun r => (gU r, gV r)) := by rw [hrC, List.zip_map']
  have hrel : List.Forall₂ (fun rc (r : Poly × Poly) =>
      Close (EF K τ Ma) (AF K Ma) rc.1 (fwdE K (1 / 4) (packC (2 ^ K) (r.1.map cc))) ∧
      Close (EF K τ Mb) (AF K Mb) rc.2 (fwdE K (1 / 4) (packC (2 ^ K) (r.2.map cc)))) rowsC rows := by
    rw [hrCmap, List.forall₂_map_left_iff, List.forall₂_same]
    intro r hr
    obtain ⟨f1, q1, _, c1⟩ := dftAvx_close K omg τ Ma r.1 hdom.τ0 hdom.τ1 hdom.Ma1 a1 (hlen r hr).1 (hM r hr).1 hdom.ra
    obtain ⟨f2, q2, _, c2⟩ := dftAvx_close K omg τ Mb r.2 hdom.τ0 hdom.τ1 hdom.Mb1 a1 (hlen r hr).2 (hM r hr).2 hdom.rb
    rw [dftOfAvx_eq K omg r.1 (fun x hx => ((hM r hr).1 x hx).1)] at q1
    rw [dftOfAvx_eq K omg r.2 (fun x hx => ((hM r hr).2 x hx).1)] at q2
    cases q1; cases q2
    exact ⟨c1, c2⟩
  have h8 : ¬ (2 * 2 ^ K < 8) := by
    have : 2 ^ 2 ≤ 2 ^ K := Nat.pow_le_pow_right (by norm_num) hK2
    omega
  unfold vmpPipelineAvx
  rw [if_neg h8, hus, hvs]; simp only
  unfold vmpAccAvx
  rw [if_pos rfl, ← hrC]
  exact congrArg Outcome.ok (lane_core K iomg τ Ma Mb rows rowsC a2 hlen hrel hdom)

end Fft64Avx
