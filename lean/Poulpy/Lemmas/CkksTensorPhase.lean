import Poulpy.Lemmas.CkksTensor
/-!
# C16, piece 5: from the tensor columns to the product of the phases

`tensor_phase_rel`: if the three columns of a rank-1 tensor satisfy `ColRel` with the exact column products, then the phase of the
tensor under `(1, s₁, s₁²)` is the (scaled) negacyclic product of the two operand phases `p₀ + s₁⋆p₁`, `r₀ + s₁⋆r₁`, within
`U₀ + ‖s₁‖₁·U₁ + ‖s₁‖₁²·U₂` units.  The ring identity is checked in `ℤ[X]/(X^N+1)` and read back by `Ks.ring_to_coeff`.
-/

namespace Ckks.Tensor
open Hal Core Core.Ops C02L KsDec Ks

/-- per-coefficient relation ⇒ one identity in `R N` with an explicit error polynomial -/
theorem rel_to_ring (N : Nat) (hN : 0 < N) (P Z : Poly) (A C M U : Int)
    (h : ∀ t, t < N → ∃ q e : Int, A * P.getD t 0 = C * Z.getD t 0 + e + q * M ∧ |e| ≤ U) (hP : P.length = N) (hZ : Z.length = N) :
    ∃ E Q : Poly, E.length = N ∧ Q.length = N ∧ normInf E ≤ U ∧
      (A : R N) * ι N P = (C : R N) * ι N Z + ι N E + (M : R N) * ι N Q := by
  have hU : 0 ≤ U := by
    obtain ⟨_, e, _, he⟩ := h 0 hN
    exact (abs_nonneg e).trans he
  have h' : ∀ t, ∃ q e : Int, (t < N → A * P.getD t 0 = C * Z.getD t 0 + e + q * M) ∧ |e| ≤ U := by
    intro t
    by_cases c : t < N
    · obtain ⟨q, e, h1, h2⟩ := h t c
      exact ⟨q, e, fun _ => h1, h2⟩
    · exact ⟨0, 0, fun a => absurd a c, by simpa using hU⟩
  choose Qf Ef hQE using h'
  refine ⟨(List.range N).map Ef, (List.range N).map Qf, by simp, by simp, ?_, ?_⟩
  · apply normInf_le_of_forall _ hU
    intro x hx
    obtain ⟨t, _, rfl⟩ := List.mem_map.mp hx
    exact (hQE t).2
  · have hp : polyScale A P = polyAdd (polyAdd (polyScale C Z) ((List.range N).map Ef)) (polyScale M ((List.range N).map Qf)) := by
      apply poly_ext (N := N) (by simp [polyScale, hP]) (by simp [polyAdd, polyScale, hZ])
      intro t ht
      rw [polyScale_getD, getD_polyAdd _ _ _ (by simp [polyAdd, polyScale, hZ]), getD_polyAdd _ _ _ (by simp [polyScale, hZ]),
        polyScale_getD, polyScale_getD]
      have e1 : ((List.range N).map Ef).getD t 0 = Ef t := by simp [List.getD_eq_getElem?_getD, ht]
      have e2 : ((List.range N).map Qf).getD t 0 = Qf t := by simp [List.getD_eq_getElem?_getD, ht]
      rw [e1, e2]
      have := (hQE t).1 ht
      linarith
    have h' := congrArg (ι N) hp
    rw [Ks.ι_polyScale, ι_add N _ _ (by simp [polyAdd, polyScale, hZ]), ι_add N _ _ (by simp [polyScale, hZ]), Ks.ι_polyScale,
      Ks.ι_polyScale] at h'
    exact h'

/-- the phase of a rank-1 tensor under `(1, s₁, s₁²)` -/
def tensorPhase (s1 X0 X1 X2 : Poly) : Poly := polyAdd (polyAdd X0 (Hal.negMul s1 X1)) (Hal.negMul s1 (Hal.negMul s1 X2))

theorem tensorPhase_length {N : Nat} (s1 X0 X1 X2 : Poly) (h0 : X0.length = N) (h1 : X1.length = N) (h2 : X2.length = N) :
    (tensorPhase s1 X0 X1 X2).length = N := by
  simp [tensorPhase, polyAdd, Hal.negMul_length, h0, h1, h2]

theorem ι_tensorPhase (N : Nat) (hN : 0 < N) (s1 X0 X1 X2 : Poly) (h0 : X0.length = N) (h1 : X1.length = N) (h2 : X2.length = N) :
    ι N (tensorPhase s1 X0 X1 X2) = ι N X0 + ι N s1 * ι N X1 + ι N s1 * (ι N s1 * ι N X2) := by
  unfold tensorPhase
  rw [ι_add N _ _ (by simp [polyAdd, Hal.negMul_length, h0, h1, h2]), ι_add N _ _ (by simp [Hal.negMul_length, h0, h1]),
    ι_negMul N s1 X1 h1 hN, ι_negMul N s1 _ (by rw [Hal.negMul_length, h2]) hN, ι_negMul N s1 X2 h2 hN]

/-- **tensor phase = product of the phases** (coefficient form) -/
theorem tensor_phase_rel (N : Nat) (hN : 0 < N) (b ts cnv E : Nat) (s1 : Poly) (T0 T1 T2 : Col) (P0 P1 R0 R1 : Poly)
    (hP0 : P0.length = N) (hP1 : P1.length = N) (hR0 : R0.length = N) (hR1 : R1.length = N) (U0 U1 U2 : Int)
    (h : ∀ t, t < N → ColRel b ts cnv E T0 ((Hal.negMul P0 R0).getD t 0) U0 t ∧
      ColRel b ts cnv E T2 ((Hal.negMul P1 R1).getD t 0) U2 t ∧
      ColRel b ts cnv E T1 ((Hal.negMul P0 R1).getD t 0 + (Hal.negMul P1 R0).getD t 0) U1 t) :
    ∀ t, t < N → ∃ q e : Int,
      2 ^ E * (tensorPhase s1 (valP b N T0) (valP b N T1) (valP b N T2)).getD t 0
        = 2 ^ (cnv + (-(cnvOffsetSplit b cnv).2).toNat) * 2 ^ (b * ts) *
            (Hal.negMul (polyAdd P0 (Hal.negMul s1 P1)) (polyAdd R0 (Hal.negMul s1 R1))).getD t 0
          + e + q * 2 ^ (b * ts + E) ∧
      |e| ≤ (U0 + norm1 s1 * U1 + norm1 s1 * (norm1 s1 * U2)) * 2 ^ E := by
  set A : Int := 2 ^ E with hA
  set C : Int := 2 ^ (cnv + (-(cnvOffsetSplit b cnv).2).toNat) * 2 ^ (b * ts) with hC
  set M : Int := 2 ^ (b * ts + E) with hM
  -- the three columns as ring identities
  obtain ⟨E0, Q0, hE0, hQ0, n0, r0⟩ := rel_to_ring N hN (valP b N T0) (Hal.negMul P0 R0) A C M (U0 * 2 ^ E)
    (fun t ht => by
      obtain ⟨q, e, h1, h2⟩ := (h t ht).1
      exact ⟨q, e, by rw [valP_getD _ _ _ _ ht]; exact h1, h2⟩) (by simp) (by rw [Hal.negMul_length, hR0])
  obtain ⟨E2, Q2, hE2, hQ2, n2, r2⟩ := rel_to_ring N hN (valP b N T2) (Hal.negMul P1 R1) A C M (U2 * 2 ^ E)
    (fun t ht => by
      obtain ⟨q, e, h1, h2⟩ := (h t ht).2.1
      exact ⟨q, e, by rw [valP_getD _ _ _ _ ht]; exact h1, h2⟩) (by simp) (by rw [Hal.negMul_length, hR1])
  obtain ⟨E1, Q1, hE1, hQ1, n1, r1⟩ := rel_to_ring N hN (valP b N T1) (polyAdd (Hal.negMul P0 R1) (Hal.negMul P1 R0)) A C M (U1 * 2 ^ E)
    (fun t ht => by
      obtain ⟨q, e, h1, h2⟩ := (h t ht).2.2
      refine ⟨q, e, ?_, h2⟩
      rw [valP_getD _ _ _ _ ht, getD_polyAdd _ _ _ (by rw [Hal.negMul_length, Hal.negMul_length, hR1, hR0])]
      exact h1) (by simp) (by simp [polyAdd, Hal.negMul_length, hR1, hR0])
  rw [ι_add N _ _ (by rw [Hal.negMul_length, Hal.negMul_length, hR1, hR0]), ι_negMul N P0 R1 hR1 hN, ι_negMul N P1 R0 hR0 hN] at r1
  rw [ι_negMul N P0 R0 hR0 hN] at r0
  rw [ι_negMul N P1 R1 hR1 hN] at r2
  -- the error polynomial and the ring identity
  set Err := tensorPhase s1 E0 E1 E2 with hErr
  have hErrl : Err.length = N := tensorPhase_length s1 E0 E1 E2 hE0 hE1 hE2
  have hZl : (Hal.negMul (polyAdd P0 (Hal.negMul s1 P1)) (polyAdd R0 (Hal.negMul s1 R1))).length = N := by
    rw [Hal.negMul_length]; simp [polyAdd, Hal.negMul_length, hR0, hR1]
  have hmain : (A : R N) * ι N (tensorPhase s1 (valP b N T0) (valP b N T1) (valP b N T2))
      = (C : R N) * ι N (Hal.negMul (polyAdd P0 (Hal.negMul s1 P1)) (polyAdd R0 (Hal.negMul s1 R1))) + ι N Err
        + (M : R N) * (ι N Q0 + ι N s1 * ι N Q1 + ι N s1 * (ι N s1 * ι N Q2)) := by
    rw [ι_tensorPhase N hN s1 _ _ _ (by simp) (by simp) (by simp), hErr, ι_tensorPhase N hN s1 E0 E1 E2 hE0 hE1 hE2,
      ι_negMul N _ _ (by simp [polyAdd, Hal.negMul_length, hR0, hR1]) hN,
      ι_add N _ _ (by rw [Hal.negMul_length, hP0, hP1]), ι_add N _ _ (by rw [Hal.negMul_length, hR0, hR1]),
      ι_negMul N s1 P1 hP1 hN, ι_negMul N s1 R1 hR1 hN]
    linear_combination r0 + (ι N s1) * r1 + (ι N s1 * ι N s1) * r2
  obtain ⟨qq, _, hq⟩ := Ks.ring_to_coeff hN _ _ Err (tensorPhase_length s1 _ _ _ (by simp) (by simp) (by simp)) hZl hErrl A C M _ hmain
  intro t ht
  refine ⟨qq.getD t 0, Err.getD t 0, by rw [hq t]; ring, ?_⟩
  -- the norm of the error
  have hmem : Err.getD t 0 ∈ Err := by
    rw [List.getD_eq_getElem?_getD, List.getElem?_eq_getElem (by rw [hErrl]; exact ht)]
    exact List.getElem_mem _
  refine (abs_le_normInf hmem).trans ?_
  have hn1 : 0 ≤ norm1 s1 := norm1_nonneg s1
  calc normInf Err ≤ normInf (polyAdd E0 (Hal.negMul s1 E1)) + normInf (Hal.negMul s1 (Hal.negMul s1 E2)) := normInf_polyAdd_le _ _
    _ ≤ (normInf E0 + normInf (Hal.negMul s1 E1)) + normInf (Hal.negMul s1 (Hal.negMul s1 E2)) := by
        have := normInf_polyAdd_le E0 (Hal.negMul s1 E1); linarith
    _ ≤ (U0 * 2 ^ E + norm1 s1 * (U1 * 2 ^ E)) + norm1 s1 * (norm1 s1 * (U2 * 2 ^ E)) := by
        have a1 := normInf_negMul_le s1 E1
        have a2 := normInf_negMul_le s1 (Hal.negMul s1 E2)
        have a3 := normInf_negMul_le s1 E2
        have b1 : norm1 s1 * normInf E1 ≤ norm1 s1 * (U1 * 2 ^ E) := mul_le_mul_of_nonneg_left n1 hn1
        have b3 : norm1 s1 * normInf E2 ≤ norm1 s1 * (U2 * 2 ^ E) := mul_le_mul_of_nonneg_left n2 hn1
        have b2 : norm1 s1 * normInf (Hal.negMul s1 E2) ≤ norm1 s1 * (norm1 s1 * (U2 * 2 ^ E)) :=
          mul_le_mul_of_nonneg_left (a3.trans b3) hn1
        linarith
    _ = _ := by ring

end Ckks.Tensor
