import Poulpy.Lemmas.CkksXSpec
import Poulpy.Lemmas.CkksMulSem
import Poulpy.Lemmas.CkksAutBal
import Poulpy.Lemmas.CkksAccSem
/-!
# C16: one call of a program with products, rotations and sums, on tracked states

`TracksB`: every ciphertext of the pool decodes to its plaintext coefficients `M j` within `E j` (modulo its budget) and
`|M j t| ≤ B j`.  Each theorem below is "metadata `Ok` ⟹ data `Ok`, same metadata, balanced digits, `TracksB` advanced by `xspec`".
-/

namespace Ckks
open Hal Core Core.Ops C02L Ckks.Sem Ckks.CoreSem KsDec AutoMul

/-- tracked state -/
structure TS where
  M : Nat → Nat → ℚ
  E : Nat → ℚ
  B : Nat → ℚ

def TracksB (s : List Poly) (N : Nat) (pool : DPool) (τ : TS) : Prop :=
  Tracks s N pool τ.M τ.E ∧ BoundedBy N τ.M τ.B ∧ (∀ j, 0 ≤ τ.E j) ∧ (∀ j, 0 ≤ τ.B j)

/-- metadata of slot `a` (default when absent) -/
def mdAt (P : Pool) (a : Nat) : Meta := (P[a]?.map (·.md)).getD ⟨0, 0⟩

theorem mdAt_some {P : Pool} {a : Nat} {c : Ct} (h : P[a]? = some c) : mdAt P a = c.md := by simp [mdAt, h]

/-! ### products of two ciphertexts, through the (scaled) contract -/

/-- ct × ct composed with the tracking of the operands, contract in its scaled form -/
theorem mul_tracks_z {env : Env} {N : Nat} {dst a b c' : DCt} {q : MulP} (hq : mulCtParams env dst.ct a.ct b.ct = .ok q)
    (hmd : c'.md = ⟨q.delta, q.budget⟩) {s : List Poly} {U εa εb : ℚ} {am bm : GLWE} {z : Nat}
    (ha : MaskedOf s N a am εa) (hb : MaskedOf s N b bm εb)
    (hc : ProdContractZ s N c'.g am (phaseP s N bm) (bm.base2k * bm.size) q.cnv z U)
    {Ma Mb : List ℚ} {Ea Eb Ba Bb : ℚ} (hMa : Ma.length = N) (hMb : Mb.length = N)
    (ta : ∀ t, t < N → Near (decC s a t) (Ma.getD t 0) (wrap a) Ea)
    (tb : ∀ t, t < N → Near (decC s b t) (Mb.getD t 0) (wrap b) Eb)
    (sA : SupLe Ma Ba) (sB : SupLe Mb Bb) (hBa : 0 ≤ Ba) (hBb : 0 ≤ Bb) (hEa : 0 ≤ Ea) (hEb : 0 ≤ Eb)
    (hεa : 0 ≤ εa) (hεb : 0 ≤ εb) :
    ∀ t, t < N → Near (decC s c' t) ((qNegMul Ma Mb).getD t 0) (wrap c')
      (U * ulp c' + N * (Ba * (Eb + εb) + (Ea + εa) * (Bb + (Eb + εb)))) := by
  have hk := mulCt_scale hq
  obtain ⟨g1, g2⟩ := mulCt_grid hq
  have hβ : c'.md.logBudget = q.budget := by rw [hmd]
  intro t ht
  have h0 := prod_near_z hc c'.md.logBudget a.md.logBudget b.md.logBudget
    (by rw [hβ]; simpa [DCt.ct] using hk) t ht
  rw [← decPG_eq] at h0
  have lenA : (decPG s N am a.md.logBudget).length = N := by simp [decPG]
  have lenB : (decPG s N bm b.md.logBudget).length = N := by simp [decPG]
  have hcomp := mul_comp (βa := a.md.logBudget) (βb := b.md.logBudget) (δa := a.md.logDelta) (δb := b.md.logDelta)
    (β' := c'.md.logBudget) (Ea := Ea + εa) (Eb := Eb + εb) lenA lenB hMa hMb
    (fun t ht => by rw [decPG_getD _ _ _ _ _ ht]; exact Near.shift (ta t ht) (ha.near t ht))
    (fun t ht => by rw [decPG_getD _ _ _ _ _ ht]; exact Near.shift (tb t ht) (hb.near t ht))
    (fun t ht => by rw [decPG_getD _ _ _ _ _ ht]; exact ha.grid t ht)
    (fun t ht => by rw [decPG_getD _ _ _ _ _ ht]; exact hb.grid t ht)
    sA sB hBa hBb (by linarith) (by linarith)
    (by rw [hβ]; simpa [DCt.ct] using g1) (by rw [hβ]; simpa [DCt.ct] using g2) t ht
  exact h0.trans hcomp

/-- a well-formed operand of balanced digits whose `effective_k` limbs are present is an admissible operand of a product -/
theorem maskAdm_of_dok {env : Env} (he : EnvOK env) {N r : Nat} {a : DCt} (ha : DOK env N r a)
    (h1 : ¬ effLimbs env a.ct > a.ct.size) (h2 : effLimbs env a.ct ≠ 0) : Mask.MaskAdm N env.base2k r a.md.effK a.g := by
  refine ⟨ha.mono ?_, he.lo, by have := he.hi; omega, ?_, ?_⟩
  · have h1 : (2 : Int) ^ (env.base2k - 1) * 2 = 2 ^ env.base2k := by
      rw [← pow_succ]; congr 1; have := he.lo; omega
    have h2 : (1 : Int) ≤ 2 ^ (env.base2k - 1) := one_le_pow₀ (by norm_num)
    unfold half; linarith
  · unfold effLimbs at h2
    by_contra h
    have : a.md.effK = 0 := by omega
    apply h2
    show divCeil a.ct.md.effK env.base2k = 0
    simp only [DCt.ct, this, divCeil]
    apply Nat.div_eq_of_lt
    have := he.lo; omega
  · unfold effLimbs at h1
    simp only [DCt.ct] at h1
    omega

theorem TracksB.set {s : List Poly} {N : Nat} {pool : DPool} {τ : TS} (h : TracksB s N pool τ) (d : Nat) (c' : DCt)
    (m : Nat → ℚ) (e b : ℚ) (hd : ∀ t, t < N → Near (decC s c' t) (m t) (wrap c') e) (hb : ∀ t, t < N → |m t| ≤ b)
    (he : 0 ≤ e) (hb0 : 0 ≤ b) : TracksB s N (pool.set d c') ⟨upd τ.M d m, upd τ.E d e, upd τ.B d b⟩ :=
  ⟨h.1.set d c' m e hd, boundedBy_upd h.2.1 d m b hb, nonneg_upd h.2.2.1 d he, nonneg_upd h.2.2.2 d hb0⟩

theorem supLe_of_getD {X : List ℚ} {N : Nat} (hl : X.length = N) : SupLe X (supN N (fun t => X.getD t 0)) := by
  intro x hx
  obtain ⟨t, ht, rfl⟩ := List.getElem_of_mem hx
  have : X[t] = X.getD t 0 := by rw [List.getD_eq_getElem?_getD, List.getElem?_eq_getElem ht]; rfl
  rw [this]
  exact le_supN N (fun t => X.getD t 0) (by rw [← hl]; exact ht)

/-! ### plaintext products -/

/-- the tracked state after `ckks_mul_pt_vec_znx_into(d, a, pt)` (`σ = 1 + Σ‖sᵢ‖₁`, `u` = one unit of the result's last limb, `δa` the
operand's `log_delta`) -/
def specMulPt (env : Env) (N : Nat) (σ u : ℚ) (δa : Nat) (τ : TS) (d a : Nat) (pt : Pt) (pg : Col) : TS :=
  let Bp := supN N (fun t => (ptMsg env N pt pg).getD t 0)
  ⟨upd τ.M d (fun t => (qNegMul (polyOf N (τ.M a)) (ptMsg env N pt pg)).getD t 0),
   upd τ.E d (σ * u + N * ((τ.E a + σ / 2 ^ δa) * Bp)),
   upd τ.B d (N * τ.B a * Bp)⟩

/-- the core of the two plaintext-product calls: destination `cd`, operand `ca` (possibly the same ciphertext) -/
theorem mulPt_core {env : Env} (he : EnvOK env) {N r : Nat} (hN : 0 < N) {big : Bool} {cd ca : DCt} {pt : Pt} {pg : Col}
    (hcd : DOK env N r cd) (hca : DOK env N r ca) (hp : PtOK env N pt pg) {m : Ct}
    (hm : withPt env pt cd.ct (mulPtZnxInto env cd.ct ca.ct pt) = .ok m)
    (hhi : ∀ q, mulPtParams env cd.ct ca.ct pt.md pt.maxK = .ok q →
      (cnvOffsetSplit env.base2k q.cnv).1 ≤ divCeil ca.md.effK env.base2k + pt.size - 1)
    (hroom : (pt.size : Int) * (N * 2 ^ env.base2k * 2 ^ env.base2k) + 8 ≤ 2 ^ (bitsOf big - 2)) (s : List Poly) :
    ∃ c', dMulPtInto env N big cd ca pt pg = .ok c' ∧ c'.ct = m ∧ DOK env N r c' ∧
      ∀ (Ma : Nat → ℚ) (Ea Ba : ℚ), (∀ t, t < N → Near (decC s ca t) (Ma t) (wrap ca) Ea) → (∀ t, t < N → |Ma t| ≤ Ba) → 0 ≤ Ea → 0 ≤ Ba →
        (∀ t, t < N → Near (decC s c' t) ((qNegMul (polyOf N Ma) (ptMsg env N pt pg)).getD t 0) (wrap c')
          (sn r s * ulp c' + N * ((Ea + sn r s / 2 ^ ca.md.logDelta) * supN N (fun t => (ptMsg env N pt pg).getD t 0)))) ∧
        (∀ t, t < N → |(qNegMul (polyOf N Ma) (ptMsg env N pt pg)).getD t 0| ≤ N * Ba * supN N (fun t => (ptMsg env N pt pg).getD t 0)) := by
  obtain ⟨_, hal⟩ := withPt_ok2 hm
  obtain ⟨_, q, hq, hchk, _⟩ := mulPtZnx_ok hal
  have hadm : Mask.MaskAdm N env.base2k r ca.md.effK ca.g := by
    unfold plainCheck at hchk
    split at hchk
    · cases hchk
    · next h1 =>
      split at hchk
      · cases hchk
      · split at hchk
        · cases hchk
        · next h3 => exact maskAdm_of_dok he hca h1 h3
  have hsup := supLe_of_getD (ptMsg_length env N pt pg)
  have hsup0 := supN_nonneg N (fun t => (ptMsg env N pt pg).getD t 0)
  -- run once with trivial tracking to get the data result, then reuse it
  obtain ⟨c', hok, hct, hdok, _⟩ := dMulPtInto_sem hN hcd hadm hp hm hhi hroom
  refine ⟨c', hok, hct, hdok, fun Ma Ea Ba ta hB hEa hBa => ⟨?_, ?_⟩⟩
  · obtain ⟨c'', hok', _, _, hv⟩ := dMulPtInto_tracks (s := s) hN hcd hadm hp hm hhi hroom (polyOf_length N Ma)
      (fun t ht => by rw [polyOf_getD N Ma ht]; exact ta t ht) (polyOf_supLe hB) hsup hBa hsup0 hEa
    have : c'' = c' := by
      have := hok'.symm.trans hok
      injection this
    subst this
    exact hv
  · intro t ht
    have := (supLe_qNegMul (polyOf_supLe hB) hsup hBa hsup0).getD (by rw [polyOf_length]; positivity) t
    rw [polyOf_length] at this
    exact this

/-- the common conclusion of one call on tracked states -/
def XGoal (env : Env) (N r : Nat) (mk : MulKey) (ak : AutKeys) (s : List Poly) (pool : DPool) (op : XOp) (mp : Pool) (f : TS → TS) : Prop :=
  ∃ pool', xstep env N mk ak pool op = .ok pool' ∧ DPool.cts pool' = mp ∧ AllOK env N r pool' ∧
    ∀ τ, TracksB s N pool τ → TracksB s N pool' (f τ)

/-- **`ckks_mul_pt_vec_znx_into`** on a pool -/
theorem xstep_mulPt {env : Env} (he : EnvOK env) {N r : Nat} (hN : 0 < N) {mk : MulKey} {ak : AutKeys} {pool : DPool}
    (hp : AllOK env N r pool) {d a : Nat} {pt : Pt} {pg : Col} (hpt : PtOK env N pt pg) {mp : Pool}
    (hm : stepR env (DPool.cts pool) (.mulPtZnx d a pt) = .ok mp)
    (hhi : ∀ cd ca, pool[d]? = some cd → pool[a]? = some ca → ∀ q, mulPtParams env cd.ct ca.ct pt.md pt.maxK = .ok q →
      (cnvOffsetSplit env.base2k q.cnv).1 ≤ divCeil ca.md.effK env.base2k + pt.size - 1)
    (hroom : (pt.size : Int) * (N * 2 ^ env.base2k * 2 ^ env.base2k) + 8 ≤ 2 ^ (bitsOf mk.big - 2)) (s : List Poly) :
    XGoal env N r mk ak s pool (.mulPt d a pt pg) mp
      (fun τ => specMulPt env N (sn r s) (ulpAt env mp d) (mdAt (DPool.cts pool) a).logDelta τ d a pt pg) := by
  obtain ⟨cd, ca, m, hd, ha, hda, hf, rfl⟩ := op2_ok' (show op2 _ d a (fun cd ca => withPt env pt cd (mulPtZnxInto env cd ca pt)) = .ok mp from hm)
  obtain ⟨xd, hxd, rfl⟩ := cts_some hd
  obtain ⟨xa, hxa, rfl⟩ := cts_some ha
  obtain ⟨c', h1, hct, hok, hv⟩ := mulPt_core he hN (big := mk.big) (hp.get hxd) (hp.get hxa) hpt hf (hhi xd xa hxd hxa) hroom s
  refine ⟨pool.set d c', dop2_ok hxd hxa hda h1, by rw [cts_set, hct], hp.set d hok, fun τ hτ => ?_⟩
  simp only [specMulPt]
  rw [ulpAt_set hd, ← hct, ← ulp_eq_ulpM hok, mdAt_some ha]
  obtain ⟨h2, h3⟩ := hv (τ.M a) (τ.E a) (τ.B a) (hτ.1 a xa hxa) (hτ.2.1 a) (hτ.2.2.1 a) (hτ.2.2.2 a)
  have hσ : 0 ≤ sn r s := le_trans zero_le_one (sn_pos r s)
  have hsup0 := supN_nonneg N (fun t => (ptMsg env N pt pg).getD t 0)
  refine hτ.set d c' _ _ _ h2 h3 ?_ ?_
  · have h4 : 0 ≤ sn r s / 2 ^ xa.ct.md.logDelta := div_nonneg hσ (by positivity)
    have h5 := hτ.2.2.1 a
    have h6 := ulp_pos c'
    have : 0 ≤ (N : ℚ) * ((τ.E a + sn r s / 2 ^ xa.ct.md.logDelta) * supN N (fun t => (ptMsg env N pt pg).getD t 0)) := by positivity
    have : 0 ≤ sn r s * ulp c' := mul_nonneg hσ h6.le
    linarith
  · have := hτ.2.2.2 a
    positivity

/-- **`ckks_mul_pt_vec_znx_assign`** on a pool -/
theorem xstep_mulPtAssign {env : Env} (he : EnvOK env) {N r : Nat} (hN : 0 < N) {mk : MulKey} {ak : AutKeys} {pool : DPool}
    (hp : AllOK env N r pool) {d : Nat} {pt : Pt} {pg : Col} (hpt : PtOK env N pt pg) {mp : Pool}
    (hm : stepR env (DPool.cts pool) (.mulPtZnxAssign d pt) = .ok mp)
    (hhi : ∀ cd, pool[d]? = some cd → ∀ q, mulPtParams env cd.ct cd.ct pt.md pt.maxK = .ok q →
      (cnvOffsetSplit env.base2k q.cnv).1 ≤ divCeil cd.md.effK env.base2k + pt.size - 1)
    (hroom : (pt.size : Int) * (N * 2 ^ env.base2k * 2 ^ env.base2k) + 8 ≤ 2 ^ (bitsOf mk.big - 2)) (s : List Poly) :
    XGoal env N r mk ak s pool (.mulPtAssign d pt pg) mp
      (fun τ => specMulPt env N (sn r s) (ulpAt env mp d) (mdAt (DPool.cts pool) d).logDelta τ d d pt pg) := by
  obtain ⟨cd, m, hd, hf, rfl⟩ := op1_ok' (show op1 _ d (fun cd => withPt env pt cd (mulPtZnxInto env cd cd pt)) = .ok mp from hm)
  obtain ⟨xd, hxd, rfl⟩ := cts_some hd
  obtain ⟨c', h1, hct, hok, hv⟩ := mulPt_core he hN (big := mk.big) (hp.get hxd) (hp.get hxd) hpt hf (hhi xd hxd) hroom s
  refine ⟨pool.set d c', dop1_ok hxd h1, by rw [cts_set, hct], hp.set d hok, fun τ hτ => ?_⟩
  simp only [specMulPt]
  rw [ulpAt_set hd, ← hct, ← ulp_eq_ulpM hok, mdAt_some hd]
  obtain ⟨h2, h3⟩ := hv (τ.M d) (τ.E d) (τ.B d) (hτ.1 d xd hxd) (hτ.2.1 d) (hτ.2.2.1 d) (hτ.2.2.2 d)
  have hσ : 0 ≤ sn r s := le_trans zero_le_one (sn_pos r s)
  have hsup0 := supN_nonneg N (fun t => (ptMsg env N pt pg).getD t 0)
  refine hτ.set d c' _ _ _ h2 h3 ?_ ?_
  · have h4 : 0 ≤ sn r s / 2 ^ xd.ct.md.logDelta := div_nonneg hσ (by positivity)
    have h5 := hτ.2.2.1 d
    have h6 := ulp_pos c'
    have : 0 ≤ (N : ℚ) * ((τ.E d + sn r s / 2 ^ xd.ct.md.logDelta) * supN N (fun t => (ptMsg env N pt pg).getD t 0)) := by positivity
    have : 0 ≤ sn r s * ulp c' := mul_nonneg hσ h6.le
    linarith
  · have := hτ.2.2.2 d
    positivity

/-- the linear calls on tracked states -/
theorem xstep_lin {env : Env} (he : EnvOK env) {N r : Nat} {mk : MulKey} {ak : AutKeys} {pool : DPool} (hp : AllOK env N r pool)
    (op : LOp) (hpt : op.PtsOK env N) {mp : Pool} (hm : stepR env (DPool.cts pool) op.toOp = .ok mp) (s : List Poly) :
    XGoal env N r mk ak s pool (.lin op) mp
      (fun τ => ⟨specM τ.M op, specE (sn r s) (ulpAt env mp op.dst) τ.E op, specB N τ.B op⟩) := by
  obtain ⟨pool', e1, c1, ok1, t1⟩ := dstep_sem he hp op hpt hm
  refine ⟨pool', e1, c1, ok1, fun τ hτ => ⟨t1 s τ.M τ.E hτ.1, specB_ok hτ.2.1 op, ?_, specB_nonneg hτ.2.2.2 op⟩⟩
  apply specE_nonneg (le_trans zero_le_one (sn_pos r s)) _ hτ.2.2.1
  unfold ulpAt
  cases mp[op.dst]? with
  | none => simp
  | some c => simp only [Option.map_some, Option.getD_some]; unfold ulpM; positivity

/-! ### ct × ct products, through the contract -/

/-- **what a ct × ct product has to provide** (to be discharged by the tensor + relinearisation value theorems): the data call returns
a well-formed ciphertext of balanced digits with the metadata of the model, and its limbs satisfy the (scaled) product contract for the
masked operands within `Uc` units of the last limb -/
def MulAdm (env : Env) (N r : Nat) (s : List Poly) (Uc : ℚ) (dst a b : DCt) (res : Outcome DCt) (q : MulP) : Prop :=
  ∃ c', res = .ok c' ∧ c'.md = ⟨q.delta, q.budget⟩ ∧ c'.g.size = dst.g.size ∧ DOK env N r c' ∧
    ∃ z, ProdContractZ s N c'.g (Mask.masked N env.base2k a.md.effK a.g)
      (phaseP s N (Mask.masked N env.base2k b.md.effK b.g)) (env.base2k * divCeil b.md.effK env.base2k) q.cnv z Uc

def specMul (N : Nat) (σ Uc u : ℚ) (δa δb : Nat) (τ : TS) (d a b : Nat) : TS :=
  ⟨upd τ.M d (fun t => (qNegMul (polyOf N (τ.M a)) (polyOf N (τ.M b))).getD t 0),
   upd τ.E d (Uc * u + N * (τ.B a * (τ.E b + σ / 2 ^ δb) + (τ.E a + σ / 2 ^ δa) * (τ.B b + (τ.E b + σ / 2 ^ δb)))),
   upd τ.B d (N * τ.B a * τ.B b)⟩

theorem finishMul_ok' {dst : Ct} {p : MulP} {chk : Option Panic} {m : Ct} (h : finishMul dst p chk = .ok m) :
    chk = none ∧ m = { dst with md := ⟨p.delta, p.budget⟩ } := by
  unfold finishMul at h
  split at h
  · cases h
  · injection h with h; exact ⟨rfl, h.symm⟩

/-- the core of the ct × ct calls: parameters `q`, both operands admissible, the contract -/
theorem mul_core {env : Env} (he : EnvOK env) {N r : Nat} {cd ca cb : DCt} (hca : DOK env N r ca) (hcb : DOK env N r cb)
    {q : MulP} (hq : mulCtParams env cd.ct ca.ct cb.ct = .ok q)
    (ha1 : ¬ effLimbs env ca.ct > ca.ct.size) (ha2 : effLimbs env ca.ct ≠ 0)
    (hb1 : ¬ effLimbs env cb.ct > cb.ct.size) (hb2 : effLimbs env cb.ct ≠ 0)
    {s : List Poly} {Uc : ℚ} (hUc : 0 ≤ Uc) {res : Outcome DCt} (hadm : MulAdm env N r s Uc cd ca cb res q) :
    ∃ c', res = .ok c' ∧ c'.ct = { cd.ct with md := ⟨q.delta, q.budget⟩ } ∧ DOK env N r c' ∧
      ∀ (Ma Mb : Nat → ℚ) (Ea Eb Ba Bb : ℚ), (∀ t, t < N → Near (decC s ca t) (Ma t) (wrap ca) Ea) →
        (∀ t, t < N → Near (decC s cb t) (Mb t) (wrap cb) Eb) → (∀ t, t < N → |Ma t| ≤ Ba) → (∀ t, t < N → |Mb t| ≤ Bb) →
        0 ≤ Ea → 0 ≤ Eb → 0 ≤ Ba → 0 ≤ Bb →
        (∀ t, t < N → Near (decC s c' t) ((qNegMul (polyOf N Ma) (polyOf N Mb)).getD t 0) (wrap c')
          (Uc * ulp c' + N * (Ba * (Eb + sn r s / 2 ^ cb.md.logDelta) + (Ea + sn r s / 2 ^ ca.md.logDelta) * (Bb + (Eb + sn r s / 2 ^ cb.md.logDelta))))) ∧
        (∀ t, t < N → |(qNegMul (polyOf N Ma) (polyOf N Mb)).getD t 0| ≤ N * Ba * Bb) := by
  obtain ⟨c', hres, hmd, hsz, hdok, z, hc⟩ := hadm
  have hma := maskAdm_of_dok he hca ha1 ha2
  have hmb := maskAdm_of_dok he hcb hb1 hb2
  have hσ : 0 ≤ sn r s := le_trans zero_le_one (sn_pos r s)
  refine ⟨c', hres, ?_, hdok, fun Ma Mb Ea Eb Ba Bb ta tb hBa hBb hEa hEb hBa0 hBb0 => ⟨?_, ?_⟩⟩
  · simp only [DCt.ct, hmd, hsz]
  · obtain ⟨_, hbsz, _, hbbk⟩ := Mask.masked_wf hmb
    have hc' : ProdContractZ s N c'.g (Mask.masked N env.base2k ca.md.effK ca.g)
        (phaseP s N (Mask.masked N env.base2k cb.md.effK cb.g))
        ((Mask.masked N env.base2k cb.md.effK cb.g).base2k * (Mask.masked N env.base2k cb.md.effK cb.g).size) q.cnv z Uc := by
      rw [hbbk, hbsz]; exact hc
    exact mul_tracks_z hq hmd (Mask.maskedOf_prep hma s) (Mask.maskedOf_prep hmb s) hc' (polyOf_length N Ma) (polyOf_length N Mb)
      (fun t ht => by rw [polyOf_getD N Ma ht]; exact ta t ht) (fun t ht => by rw [polyOf_getD N Mb ht]; exact tb t ht)
      (polyOf_supLe hBa) (polyOf_supLe hBb) hBa0 hBb0 hEa hEb (div_nonneg hσ (by positivity)) (div_nonneg hσ (by positivity))
  · intro t ht
    have := (supLe_qNegMul (polyOf_supLe hBa) (polyOf_supLe hBb) hBa0 hBb0).getD (by rw [polyOf_length]; positivity) t
    rw [polyOf_length] at this
    exact this

theorem specMul_E_nonneg {N : Nat} {σ Uc u : ℚ} (hσ : 0 ≤ σ) (hU : 0 ≤ Uc) (hu : 0 ≤ u) (δa δb : Nat) {Ea Eb Ba Bb : ℚ}
    (hEa : 0 ≤ Ea) (hEb : 0 ≤ Eb) (hBa : 0 ≤ Ba) (hBb : 0 ≤ Bb) :
    0 ≤ Uc * u + N * (Ba * (Eb + σ / 2 ^ δb) + (Ea + σ / 2 ^ δa) * (Bb + (Eb + σ / 2 ^ δb))) := by
  have h1 : 0 ≤ σ / 2 ^ δa := div_nonneg hσ (by positivity)
  have h2 : 0 ≤ σ / 2 ^ δb := div_nonneg hσ (by positivity)
  positivity

/-- **`ckks_mul_into`** on a pool, contract form -/
theorem xstep_mul {env : Env} (he : EnvOK env) {N r : Nat} {mk : MulKey} {ak : AutKeys} {pool : DPool}
    (hp : AllOK env N r pool) {d a b : Nat} {mp : Pool} (hm : stepR env (DPool.cts pool) (.mul d a b) = .ok mp)
    (s : List Poly) {Uc : ℚ} (hUc : 0 ≤ Uc)
    (hadm : ∀ cd ca cb, pool[d]? = some cd → pool[a]? = some ca → pool[b]? = some cb → ∀ m, mulInto env cd.ct ca.ct cb.ct = .ok m →
      ∀ q, mulCtParams env cd.ct ca.ct cb.ct = .ok q → MulAdm env N r s Uc cd ca cb (dMulInto env N mk cd ca cb) q) :
    XGoal env N r mk ak s pool (.mul d a b) mp
      (fun τ => specMul N (sn r s) Uc (ulpAt env mp d) (mdAt (DPool.cts pool) a).logDelta (mdAt (DPool.cts pool) b).logDelta τ d a b) := by
  obtain ⟨cd, ca, cb, m, hd, ha, hb, hda, hdb, hf, rfl⟩ := op3_ok' (show op3 _ d a b (mulInto env) = .ok mp from hm)
  obtain ⟨xd, hxd, rfl⟩ := cts_some hd
  obtain ⟨xa, hxa, rfl⟩ := cts_some ha
  obtain ⟨xb, hxb, rfl⟩ := cts_some hb
  obtain ⟨q, hq, _⟩ := mulInto_params hf
  have hf' := hf
  simp only [mulInto, hq] at hf'
  obtain ⟨hchk, hmq⟩ := finishMul_ok' hf'
  have hlims : (¬ effLimbs env xa.ct > xa.ct.size ∧ effLimbs env xa.ct ≠ 0) ∧ (¬ effLimbs env xb.ct > xb.ct.size ∧ effLimbs env xb.ct ≠ 0) := by
    unfold tensorCheck at hchk
    split at hchk
    · cases hchk
    · next h1 =>
      split at hchk
      · cases hchk
      · next h2 =>
        split at hchk
        · cases hchk
        · next h3 =>
          push Not at h3
          exact ⟨⟨h1, h3.1⟩, ⟨h2, h3.2⟩⟩
  obtain ⟨c', h1, hct, hok, hv⟩ := mul_core he (hp.get hxa) (hp.get hxb) hq hlims.1.1 hlims.1.2 hlims.2.1 hlims.2.2 hUc
    (hadm xd xa xb hxd hxa hxb m hf q hq)
  have hct' : c'.ct = m := by rw [hct, hmq]
  refine ⟨pool.set d c', dop3_ok hxd hxa hxb hda hdb h1, by rw [cts_set, hct'], hp.set d hok, fun τ hτ => ?_⟩
  simp only [specMul]
  rw [ulpAt_set hd, ← hct', ← ulp_eq_ulpM hok, mdAt_some ha, mdAt_some hb]
  obtain ⟨h2, h3⟩ := hv (τ.M a) (τ.M b) (τ.E a) (τ.E b) (τ.B a) (τ.B b) (hτ.1 a xa hxa) (hτ.1 b xb hxb) (hτ.2.1 a) (hτ.2.1 b)
    (hτ.2.2.1 a) (hτ.2.2.1 b) (hτ.2.2.2 a) (hτ.2.2.2 b)
  have hσ : 0 ≤ sn r s := le_trans zero_le_one (sn_pos r s)
  refine hτ.set d c' _ _ _ h2 h3 ?_ ?_
  · exact specMul_E_nonneg hσ hUc (ulp_pos c').le _ _ (hτ.2.2.1 a) (hτ.2.2.1 b) (hτ.2.2.2 a) (hτ.2.2.2 b)
  · have := hτ.2.2.2 a; have := hτ.2.2.2 b; positivity

theorem tensorCheck_none {env : Env} {a b : Ct} {cnv : Nat} (h : tensorCheck env a b cnv = none) :
    (¬ effLimbs env a > a.size ∧ effLimbs env a ≠ 0) ∧ (¬ effLimbs env b > b.size ∧ effLimbs env b ≠ 0) := by
  unfold tensorCheck at h
  split at h
  · cases h
  · next h1 =>
    split at h
    · cases h
    · next h2 =>
      split at h
      · cases h
      · next h3 =>
        push Not at h3
        exact ⟨⟨h1, h3.1⟩, ⟨h2, h3.2⟩⟩

theorem squareCheck_none {env : Env} {a : Ct} {cnv : Nat} (h : squareCheck env a cnv = none) :
    ¬ effLimbs env a > a.size ∧ effLimbs env a ≠ 0 := by
  unfold squareCheck at h
  split at h
  · cases h
  · next h1 =>
    split at h
    · cases h
    · next h2 => exact ⟨h1, h2⟩

theorem squareInto_params {env : Env} {dst a m : Ct} (h : squareInto env dst a = .ok m) :
    ∃ q, mulCtParams env dst a a = .ok q ∧ squareCheck env a q.cnv = none ∧ m = { dst with md := ⟨q.delta, q.budget⟩ } := by
  simp only [squareInto] at h
  split at h
  · cases h
  · next q hq =>
    obtain ⟨h1, h2⟩ := finishMul_ok' h
    exact ⟨q, hq, h1, h2⟩

/-- **`ckks_mul_assign`** on a pool, contract form -/
theorem xstep_mulAssign {env : Env} (he : EnvOK env) {N r : Nat} {mk : MulKey} {ak : AutKeys} {pool : DPool}
    (hp : AllOK env N r pool) {d a : Nat} {mp : Pool} (hm : stepR env (DPool.cts pool) (.mulAssign d a) = .ok mp)
    (s : List Poly) {Uc : ℚ} (hUc : 0 ≤ Uc)
    (hadm : ∀ cd ca, pool[d]? = some cd → pool[a]? = some ca → ∀ m, mulInto env cd.ct cd.ct ca.ct = .ok m →
      ∀ q, mulCtParams env cd.ct cd.ct ca.ct = .ok q → MulAdm env N r s Uc cd cd ca (dMulInto env N mk cd cd ca) q) :
    XGoal env N r mk ak s pool (.mulAssign d a) mp
      (fun τ => specMul N (sn r s) Uc (ulpAt env mp d) (mdAt (DPool.cts pool) d).logDelta (mdAt (DPool.cts pool) a).logDelta τ d d a) := by
  obtain ⟨cd, ca, m, hd, ha, hda, hf, rfl⟩ := op2_ok' (show op2 _ d a (fun cd ca => mulInto env cd cd ca) = .ok mp from hm)
  obtain ⟨xd, hxd, rfl⟩ := cts_some hd
  obtain ⟨xa, hxa, rfl⟩ := cts_some ha
  obtain ⟨q, hq, _⟩ := mulInto_params hf
  have hf' := hf
  simp only [mulInto, hq] at hf'
  obtain ⟨hchk, hmq⟩ := finishMul_ok' hf'
  have hlims := tensorCheck_none hchk
  obtain ⟨c', h1, hct, hok, hv⟩ := mul_core he (hp.get hxd) (hp.get hxa) hq hlims.1.1 hlims.1.2 hlims.2.1 hlims.2.2 hUc
    (hadm xd xa hxd hxa m hf q hq)
  have hct' : c'.ct = m := by rw [hct, hmq]
  refine ⟨pool.set d c', dop2_ok hxd hxa hda h1, by rw [cts_set, hct'], hp.set d hok, fun τ hτ => ?_⟩
  simp only [specMul]
  rw [ulpAt_set hd, ← hct', ← ulp_eq_ulpM hok, mdAt_some hd, mdAt_some ha]
  obtain ⟨h2, h3⟩ := hv (τ.M d) (τ.M a) (τ.E d) (τ.E a) (τ.B d) (τ.B a) (hτ.1 d xd hxd) (hτ.1 a xa hxa) (hτ.2.1 d) (hτ.2.1 a)
    (hτ.2.2.1 d) (hτ.2.2.1 a) (hτ.2.2.2 d) (hτ.2.2.2 a)
  have hσ : 0 ≤ sn r s := le_trans zero_le_one (sn_pos r s)
  refine hτ.set d c' _ _ _ h2 h3 ?_ ?_
  · exact specMul_E_nonneg hσ hUc (ulp_pos c').le _ _ (hτ.2.2.1 d) (hτ.2.2.1 a) (hτ.2.2.2 d) (hτ.2.2.2 a)
  · have := hτ.2.2.2 a; have := hτ.2.2.2 d; positivity

/-- **`ckks_square_into`** on a pool, contract form -/
theorem xstep_square {env : Env} (he : EnvOK env) {N r : Nat} {mk : MulKey} {ak : AutKeys} {pool : DPool}
    (hp : AllOK env N r pool) {d a : Nat} {mp : Pool} (hm : stepR env (DPool.cts pool) (.square d a) = .ok mp)
    (s : List Poly) {Uc : ℚ} (hUc : 0 ≤ Uc)
    (hadm : ∀ cd ca, pool[d]? = some cd → pool[a]? = some ca → ∀ m, squareInto env cd.ct ca.ct = .ok m →
      ∀ q, mulCtParams env cd.ct ca.ct ca.ct = .ok q → MulAdm env N r s Uc cd ca ca (dSquareInto env N mk cd ca) q) :
    XGoal env N r mk ak s pool (.square d a) mp
      (fun τ => specMul N (sn r s) Uc (ulpAt env mp d) (mdAt (DPool.cts pool) a).logDelta (mdAt (DPool.cts pool) a).logDelta τ d a a) := by
  obtain ⟨cd, ca, m, hd, ha, hda, hf, rfl⟩ := op2_ok' (show op2 _ d a (squareInto env) = .ok mp from hm)
  obtain ⟨xd, hxd, rfl⟩ := cts_some hd
  obtain ⟨xa, hxa, rfl⟩ := cts_some ha
  obtain ⟨q, hq, hchk, hmq⟩ := squareInto_params hf
  have hl := squareCheck_none hchk
  obtain ⟨c', h1, hct, hok, hv⟩ := mul_core he (hp.get hxa) (hp.get hxa) hq hl.1 hl.2 hl.1 hl.2 hUc (hadm xd xa hxd hxa m hf q hq)
  have hct' : c'.ct = m := by rw [hct, hmq]
  refine ⟨pool.set d c', dop2_ok hxd hxa hda h1, by rw [cts_set, hct'], hp.set d hok, fun τ hτ => ?_⟩
  simp only [specMul]
  rw [ulpAt_set hd, ← hct', ← ulp_eq_ulpM hok, mdAt_some ha]
  obtain ⟨h2, h3⟩ := hv (τ.M a) (τ.M a) (τ.E a) (τ.E a) (τ.B a) (τ.B a) (hτ.1 a xa hxa) (hτ.1 a xa hxa) (hτ.2.1 a) (hτ.2.1 a)
    (hτ.2.2.1 a) (hτ.2.2.1 a) (hτ.2.2.2 a) (hτ.2.2.2 a)
  have hσ : 0 ≤ sn r s := le_trans zero_le_one (sn_pos r s)
  refine hτ.set d c' _ _ _ h2 h3 ?_ ?_
  · exact specMul_E_nonneg hσ hUc (ulp_pos c').le _ _ (hτ.2.2.1 a) (hτ.2.2.1 a) (hτ.2.2.2 a) (hτ.2.2.2 a)
  · have := hτ.2.2.2 a; positivity

/-- **`ckks_square_assign`** on a pool, contract form -/
theorem xstep_squareAssign {env : Env} (he : EnvOK env) {N r : Nat} {mk : MulKey} {ak : AutKeys} {pool : DPool}
    (hp : AllOK env N r pool) {d : Nat} {mp : Pool} (hm : stepR env (DPool.cts pool) (.squareAssign d) = .ok mp)
    (s : List Poly) {Uc : ℚ} (hUc : 0 ≤ Uc)
    (hadm : ∀ cd, pool[d]? = some cd → ∀ m, squareInto env cd.ct cd.ct = .ok m → ∀ q, mulCtParams env cd.ct cd.ct cd.ct = .ok q →
      MulAdm env N r s Uc cd cd cd (dSquareInto env N mk cd cd) q) :
    XGoal env N r mk ak s pool (.squareAssign d) mp
      (fun τ => specMul N (sn r s) Uc (ulpAt env mp d) (mdAt (DPool.cts pool) d).logDelta (mdAt (DPool.cts pool) d).logDelta τ d d d) := by
  obtain ⟨cd, m, hd, hf, rfl⟩ := op1_ok' (show op1 _ d (fun cd => squareInto env cd cd) = .ok mp from hm)
  obtain ⟨xd, hxd, rfl⟩ := cts_some hd
  obtain ⟨q, hq, hchk, hmq⟩ := squareInto_params hf
  have hl := squareCheck_none hchk
  obtain ⟨c', h1, hct, hok, hv⟩ := mul_core he (hp.get hxd) (hp.get hxd) hq hl.1 hl.2 hl.1 hl.2 hUc (hadm xd hxd m hf q hq)
  have hct' : c'.ct = m := by rw [hct, hmq]
  refine ⟨pool.set d c', dop1_ok hxd h1, by rw [cts_set, hct'], hp.set d hok, fun τ hτ => ?_⟩
  simp only [specMul]
  rw [ulpAt_set hd, ← hct', ← ulp_eq_ulpM hok, mdAt_some hd]
  obtain ⟨h2, h3⟩ := hv (τ.M d) (τ.M d) (τ.E d) (τ.E d) (τ.B d) (τ.B d) (hτ.1 d xd hxd) (hτ.1 d xd hxd) (hτ.2.1 d) (hτ.2.1 d)
    (hτ.2.2.1 d) (hτ.2.2.1 d) (hτ.2.2.2 d) (hτ.2.2.2 d)
  have hσ : 0 ≤ sn r s := le_trans zero_le_one (sn_pos r s)
  refine hτ.set d c' _ _ _ h2 h3 ?_ ?_
  · exact specMul_E_nonneg hσ hUc (ulp_pos c').le _ _ (hτ.2.2.1 d) (hτ.2.2.1 d) (hτ.2.2.2 d) (hτ.2.2.2 d)
  · have := hτ.2.2.2 d; positivity

/-! ### rotations and conjugation -/

/-- admissibility of one executed `dst ← σ_g(a)` (out-of-place form): the key is in the evaluator's radix and both possible core calls
(`glwe_automorphism(dst, a)`, or aligned copy + `glwe_automorphism_assign`) satisfy C03's hypotheses with error constant at most `Ua` -/
def AutIntoAdm (env : Env) (N : Nat) (big : Bool) (s : List Poly) (Ua : ℚ) (key : Ks.Key) (dst a : DCt) : Prop :=
  key.base2k = env.base2k ∧ ∃ (gInv : Int) (EL KL : ℕ → ℕ → Poly) (Hin Hp : Int),
    (offsetUnary env dst.ct a.ct = 0 → AutAdm big N a.g key s gInv EL KL Hin Hp dst.g.rank ∧
      autU N dst.g.base2k dst.g.size dst.g.rank a.g key s gInv EL ≤ Ua) ∧
    (∀ g1, glweLsh N dst.g a.g (unaryShift env dst.ct a.ct 0) = .ok g1 → AutAdm big N g1 key s gInv EL KL Hin Hp g1.rank ∧
      autU N g1.base2k g1.size g1.rank g1 key s gInv EL ≤ Ua)

/-- … in-place form -/
def AutAssignAdm (env : Env) (N : Nat) (big : Bool) (s : List Poly) (Ua : ℚ) (key : Ks.Key) (c : DCt) : Prop :=
  key.base2k = env.base2k ∧ ∃ (gInv : Int) (EL KL : ℕ → ℕ → Poly) (Hin Hp : Int),
    AutAdm big N c.g key s gInv EL KL Hin Hp c.g.rank ∧ autU N c.g.base2k c.g.size c.g.rank c.g key s gInv EL ≤ Ua

def specAut (N : Nat) (p : Int) (e : ℚ) (τ : TS) (d a : Nat) : TS :=
  ⟨upd τ.M d (galApply p N (τ.M a)), upd τ.E d (e + τ.E a), upd τ.B d (τ.B a)⟩

theorem galApply_near {p : Int} {N : Nat} (hN : 0 < N) (hg : GalOk p N) {f M : Nat → ℚ} {β β' : Nat} {E : ℚ} (hβ : β' ≤ β)
    (h : ∀ t, t < N → Near (f t) (M t) (2 ^ β) E) {t : Nat} (ht : t < N) :
    Near (galApply p N f t) (galApply p N M t) (2 ^ β') E := by
  obtain ⟨h1, h2, _⟩ := σ_galIdx p N hN hg t ht
  unfold galApply
  have := h _ h1
  rcases h2 with e | e
  · rw [e]
    have := this.scale (dvd_one hβ)
    simpa using this
  · rw [e]
    have := this.scale (dvd_neg hβ)
    simpa using this

theorem galApply_abs {p : Int} {N : Nat} (hN : 0 < N) (hg : GalOk p N) {M : Nat → ℚ} {B : ℚ} (h : ∀ t, t < N → |M t| ≤ B)
    {t : Nat} (ht : t < N) : |galApply p N M t| ≤ B := by
  obtain ⟨h1, h2, _⟩ := σ_galIdx p N hN hg t ht
  unfold galApply
  rcases h2 with e | e <;> rw [e] <;> simpa using h _ h1

/-- out-of-place core -/
theorem autInto_core {env : Env} (he : EnvOK env) {N r : Nat} (hN : 0 < N) {big : Bool} {dst a : DCt} (hd : DOK env N r dst)
    (ha : DOK env N r a) {m : Ct} (hm : shiftInto env dst.ct a.ct 0 = .ok m) {key : Ks.Key} {s : List Poly} {Ua : ℚ}
    (hadm : AutIntoAdm env N big s Ua key dst a) :
    ∃ g', autData env N big key dst a = .ok g' ∧ (⟨g', m.md⟩ : DCt).ct = m ∧ DOK env N r ⟨g', m.md⟩ ∧ GalOk key.p N ∧
      ∀ (Ma : Nat → ℚ) (Ea : ℚ), (∀ t, t < N → Near (decC s a t) (Ma t) (wrap a) Ea) →
        ∀ t, t < N → Near (decC s ⟨g', m.md⟩ t) (galApply key.p N Ma t) (wrap ⟨g', m.md⟩) ((Ua + sn r s) * ulp ⟨g', m.md⟩ + Ea) := by
  obtain ⟨hkb, gInv, EL, KL, Hin, Hp, h0, h1⟩ := hadm
  obtain ⟨g', U, hok, gw, hb, hs, hr, hU, hv⟩ := autData_semU he hN hd ha hm (fun h => (h0 h).1) (fun g1 h => (h1 g1 h).1)
  have hbal := autData_balanced he hN hd ha hm hkb (fun h => (h0 h).1) (fun g1 h => (h1 g1 h).1) g' hok
  have hUa : U ≤ Ua := hU Ua (fun h => (h0 h).2) (fun g1 h => (h1 g1 h).2)
  have hsz : m.size = dst.g.size := (shiftInto_shape hm).1
  have hgal : GalOk key.p N := by
    by_cases hoff : offsetUnary env dst.ct a.ct = 0
    · exact (h0 hoff).1.hg
    · obtain ⟨g1, e1, _⟩ := lsh_step he.lo he.hi hd ha.full (unaryShift env dst.ct a.ct 0) m.md.logBudget a.md.logBudget 0
        (by simpa [DCt.ct] using unaryShift_spec env dst.ct a.ct m hm 0)
      exact (h1 g1 e1).1.hg
  refine ⟨g', hok, ct_eq (by rw [hs, hsz]), ⟨gw, hb, hr, hbal⟩, hgal, fun Ma Ea ta t ht => ?_⟩
  have hσ : 0 ≤ sn r s := le_trans zero_le_one (sn_pos r s)
  have a1 := hv t ht
  have hβ : m.md.logBudget ≤ a.md.logBudget := by
    have := unaryShift_spec env dst.ct a.ct m hm 0
    simp only [DCt.ct] at this; omega
  have a2 : Near (autDecC s N key.p a t) (galApply key.p N Ma t) (2 ^ m.md.logBudget) Ea := by
    rw [autDecC, autDecG_galIdx s hN hgal a.g a.md.logBudget ht]
    exact galApply_near hN hgal hβ (fun t ht => ta t ht) ht
  have h3 := trl_le_one env.base2k dst.g.size a.g.size (unaryShift env dst.ct a.ct 0)
  have h4 := ulpG_pos g' m.md.logBudget
  have := (a1.trans a2).mono (show (U + sn r s * trl env.base2k dst.g.size a.g.size (unaryShift env dst.ct a.ct 0)) * ulpG g' m.md.logBudget + Ea
      ≤ (Ua + sn r s) * ulpG g' m.md.logBudget + Ea by
    have : sn r s * trl env.base2k dst.g.size a.g.size (unaryShift env dst.ct a.ct 0) ≤ sn r s * 1 := mul_le_mul_of_nonneg_left h3 hσ
    nlinarith)
  simpa [decC, wrap, ulp] using this

/-- in-place core -/
theorem autAssign_core {env : Env} (he : EnvOK env) {N r : Nat} (hN : 0 < N) {big : Bool} {c : DCt} (hc : DOK env N r c)
    {key : Ks.Key} {s : List Poly} {Ua : ℚ} (hadm : AutAssignAdm env N big s Ua key c) :
    ∃ g', Ks.automorphism big c.g.base2k c.g.size c.g.rank c.g key = .ok g' ∧ (⟨g', c.md⟩ : DCt).ct = c.ct ∧ DOK env N r ⟨g', c.md⟩ ∧
      GalOk key.p N ∧
      ∀ (Ma : Nat → ℚ) (Ea : ℚ), (∀ t, t < N → Near (decC s c t) (Ma t) (wrap c) Ea) →
        ∀ t, t < N → Near (decC s ⟨g', c.md⟩ t) (galApply key.p N Ma t) (wrap ⟨g', c.md⟩) (Ua * ulp ⟨g', c.md⟩ + Ea) := by
  obtain ⟨hkb, gInv, EL, KL, Hin, Hp, h0, hU⟩ := hadm
  obtain ⟨g', hok, gw, hb, hs, hr, hv⟩ := aut_assign_sem he hN hc h0
  have hb1 : 1 ≤ c.g.base2k := by rw [hc.bk]; exact he.lo
  have hb62 : c.g.base2k ≤ 62 := by rw [hc.bk]; have := he.hi; omega
  have hbal : GBound (half env.base2k) g' := by
    have e : c.g.base2k = key.base2k := by rw [hc.bk, hkb]
    have hok' := hok
    rw [e] at hok'
    have := automorphism_balanced hN hc.wf hb1 hb62 h0 g' hok'
    rw [hkb] at this
    exact this
  refine ⟨g', hok, by simp only [DCt.ct, hs], ⟨gw, by rw [hb, hc.bk], by rw [hr, hc.rk], hbal⟩, h0.hg, fun Ma Ea ta t ht => ?_⟩
  have a1 := hv t ht
  have a2 : Near (autDecC s N key.p c t) (galApply key.p N Ma t) (2 ^ c.md.logBudget) Ea := by
    rw [autDecC, autDecG_galIdx s hN h0.hg c.g c.md.logBudget ht]
    exact galApply_near hN h0.hg (le_refl _) (fun t ht => ta t ht) ht
  have h4 := ulpG_pos g' c.md.logBudget
  have := (a1.trans a2).mono (show autU N c.g.base2k c.g.size c.g.rank c.g key s gInv EL * ulpG g' c.md.logBudget + Ea
      ≤ Ua * ulpG g' c.md.logBudget + Ea by nlinarith)
  simpa [decC, wrap, ulp] using this

theorem specAut_ok {s : List Poly} {N : Nat} (hN : 0 < N) {pool : DPool} {τ : TS} (hτ : TracksB s N pool τ) {p : Int} (hg : GalOk p N)
    (d a : Nat) (c' : DCt) (e : ℚ) (he : 0 ≤ e)
    (hv : ∀ t, t < N → Near (decC s c' t) (galApply p N (τ.M a) t) (wrap c') (e + τ.E a)) :
    TracksB s N (pool.set d c') (specAut N p e τ d a) :=
  hτ.set d c' _ _ _ hv (fun t ht => galApply_abs hN hg (hτ.2.1 a) ht) (add_nonneg he (hτ.2.2.1 a)) (hτ.2.2.2 a)

/-- **`ckks_rotate_into`** on a pool -/
theorem xstep_rot {env : Env} (he : EnvOK env) {N r : Nat} (hN : 0 < N) {mk : MulKey} {ak : AutKeys} {pool : DPool}
    (hp : AllOK env N r pool) {d a : Nat} {k : Int} {key : Ks.Key} (hk : ak.get k = some key) {mp : Pool}
    (hm : stepR env (DPool.cts pool) (.rot d a k) = .ok mp) (s : List Poly) {Ua : ℚ} (hUa : 0 ≤ Ua)
    (hadm : ∀ cd ca, pool[d]? = some cd → pool[a]? = some ca → AutIntoAdm env N mk.big s Ua key cd ca) :
    XGoal env N r mk ak s pool (.rot d a k) mp (fun τ => specAut N key.p ((Ua + sn r s) * ulpAt env mp d) τ d a) := by
  obtain ⟨cd, ca, m, hd, ha, hda, hf, rfl⟩ := op2_ok' (show op2 _ d a (fun cd ca => rotateInto env cd ca k) = .ok mp from hm)
  obtain ⟨xd, hxd, rfl⟩ := cts_some hd
  obtain ⟨xa, hxa, rfl⟩ := cts_some ha
  have hm' : shiftInto env xd.ct xa.ct 0 = .ok m := by
    simp only [rotateInto] at hf
    split at hf
    · exact hf
    · cases hf
  obtain ⟨g', hok, hct, hdok, hgal, hv⟩ := autInto_core he hN (hp.get hxd) (hp.get hxa) hm' (hadm xd xa hxd hxa)
  have h1 : dRotateInto env N mk.big ak xd xa k = .ok ⟨g', m.md⟩ := by
    simp only [dRotateInto, withMeta_ok _ _ _ hf, hk, hok, Core.Ops.bind]
  refine ⟨pool.set d ⟨g', m.md⟩, dop2_ok hxd hxa hda h1, by rw [cts_set, hct], hp.set d hdok, fun τ hτ => ?_⟩
  rw [ulpAt_set hd]
  have hu : ulpM env m = ulp (⟨g', m.md⟩ : DCt) := by rw [ulp_eq_ulpM hdok, hct]
  rw [hu]
  have hσ : 0 ≤ sn r s := le_trans zero_le_one (sn_pos r s)
  exact specAut_ok hN hτ hgal d a _ _ (mul_nonneg (add_nonneg hUa hσ) (ulp_pos _).le) (hv (τ.M a) (τ.E a) (hτ.1 a xa hxa))

/-- **`ckks_conjugate_into`** on a pool -/
theorem xstep_conj {env : Env} (he : EnvOK env) {N r : Nat} (hN : 0 < N) {mk : MulKey} {ak : AutKeys} {pool : DPool}
    (hp : AllOK env N r pool) {d a : Nat} {key : Ks.Key} (hk : ak.conj = some key) {mp : Pool}
    (hm : stepR env (DPool.cts pool) (.conj d a) = .ok mp) (s : List Poly) {Ua : ℚ} (hUa : 0 ≤ Ua)
    (hadm : ∀ cd ca, pool[d]? = some cd → pool[a]? = some ca → AutIntoAdm env N mk.big s Ua key cd ca) :
    XGoal env N r mk ak s pool (.conj d a) mp (fun τ => specAut N key.p ((Ua + sn r s) * ulpAt env mp d) τ d a) := by
  obtain ⟨cd, ca, m, hd, ha, hda, hf, rfl⟩ := op2_ok' (show op2 _ d a (fun cd ca => mulPow2Into env cd ca 0) = .ok mp from hm)
  obtain ⟨xd, hxd, rfl⟩ := cts_some hd
  obtain ⟨xa, hxa, rfl⟩ := cts_some ha
  have hm' : shiftInto env xd.ct xa.ct 0 = .ok m := hf
  obtain ⟨g', hok, hct, hdok, hgal, hv⟩ := autInto_core he hN (hp.get hxd) (hp.get hxa) hm' (hadm xd xa hxd hxa)
  have h1 : dConjInto env N mk.big ak xd xa = .ok ⟨g', m.md⟩ := by
    simp only [dConjInto, withMeta_ok _ _ _ hf, hk, hok, Core.Ops.bind]
  refine ⟨pool.set d ⟨g', m.md⟩, dop2_ok hxd hxa hda h1, by rw [cts_set, hct], hp.set d hdok, fun τ hτ => ?_⟩
  rw [ulpAt_set hd]
  have hu : ulpM env m = ulp (⟨g', m.md⟩ : DCt) := by rw [ulp_eq_ulpM hdok, hct]
  rw [hu]
  have hσ : 0 ≤ sn r s := le_trans zero_le_one (sn_pos r s)
  exact specAut_ok hN hτ hgal d a _ _ (mul_nonneg (add_nonneg hUa hσ) (ulp_pos _).le) (hv (τ.M a) (τ.E a) (hτ.1 a xa hxa))

/-- **`ckks_rotate_assign`** on a pool -/
theorem xstep_rotAssign {env : Env} (he : EnvOK env) {N r : Nat} (hN : 0 < N) {mk : MulKey} {ak : AutKeys} {pool : DPool}
    (hp : AllOK env N r pool) {d : Nat} {k : Int} {key : Ks.Key} (hk : ak.get k = some key) {mp : Pool}
    (hm : stepR env (DPool.cts pool) (.rotAssign d k) = .ok mp) (s : List Poly) {Ua : ℚ} (hUa : 0 ≤ Ua)
    (hadm : ∀ cd, pool[d]? = some cd → AutAssignAdm env N mk.big s Ua key cd) :
    XGoal env N r mk ak s pool (.rotAssign d k) mp (fun τ => specAut N key.p (Ua * ulpAt env mp d) τ d d) := by
  obtain ⟨cd, m, hd, hf, rfl⟩ := op1_ok' (show op1 _ d (fun cd => rotateAssign env cd k) = .ok mp from hm)
  obtain ⟨xd, hxd, rfl⟩ := cts_some hd
  have hmm : m = xd.ct := by
    simp only [rotateAssign] at hf
    split at hf
    · injection hf with hf; exact hf.symm
    · cases hf
  subst hmm
  obtain ⟨g', hok, hct, hdok, hgal, hv⟩ := autAssign_core he hN (hp.get hxd) (hadm xd hxd)
  have h1 : dRotateAssign env N mk.big ak xd k = .ok ⟨g', xd.md⟩ := by
    simp only [dRotateAssign, withMeta_ok _ _ _ hf, hk, hok, Core.Ops.bind]; rfl
  refine ⟨pool.set d ⟨g', xd.md⟩, dop1_ok hxd h1, by rw [cts_set, hct], hp.set d hdok, fun τ hτ => ?_⟩
  rw [ulpAt_set hd]
  have hu : ulpM env xd.ct = ulp (⟨g', xd.md⟩ : DCt) := by rw [ulp_eq_ulpM hdok, hct]
  rw [hu]
  exact specAut_ok hN hτ hgal d d _ _ (mul_nonneg hUa (ulp_pos _).le) (hv (τ.M d) (τ.E d) (hτ.1 d xd hxd))

/-- **`ckks_conjugate_assign`** on a pool -/
theorem xstep_conjAssign {env : Env} (he : EnvOK env) {N r : Nat} (hN : 0 < N) {mk : MulKey} {ak : AutKeys} {pool : DPool}
    (hp : AllOK env N r pool) {d : Nat} {key : Ks.Key} (hk : ak.conj = some key) {mp : Pool}
    (hm : stepR env (DPool.cts pool) (.conjAssign d) = .ok mp) (s : List Poly) {Ua : ℚ} (hUa : 0 ≤ Ua)
    (hadm : ∀ cd, pool[d]? = some cd → AutAssignAdm env N mk.big s Ua key cd) :
    XGoal env N r mk ak s pool (.conjAssign d) mp (fun τ => specAut N key.p (Ua * ulpAt env mp d) τ d d) := by
  obtain ⟨cd, m, hd, hf, rfl⟩ := op1_ok' (show op1 _ d (fun cd => .ok cd) = .ok mp from hm)
  obtain ⟨xd, hxd, rfl⟩ := cts_some hd
  have hmm : m = xd.ct := by injection hf with hf; exact hf.symm
  subst hmm
  obtain ⟨g', hok, hct, hdok, hgal, hv⟩ := autAssign_core he hN (hp.get hxd) (hadm xd hxd)
  have h1 : dConjAssign env N mk.big ak xd = .ok ⟨g', xd.md⟩ := by
    simp only [dConjAssign, hk, hok, Core.Ops.bind]
  refine ⟨pool.set d ⟨g', xd.md⟩, dop1_ok hxd h1, by rw [cts_set, hct], hp.set d hdok, fun τ hτ => ?_⟩
  rw [ulpAt_set hd]
  have hu : ulpM env xd.ct = ulp (⟨g', xd.md⟩ : DCt) := by rw [ulp_eq_ulpM hdok, hct]
  rw [hu]
  exact specAut_ok hN hτ hgal d d _ _ (mul_nonneg hUa (ulp_pos _).le) (hv (τ.M d) (τ.E d) (hτ.1 d xd hxd))

/-! ### sums of many ciphertexts -/

theorem opN_ok' {P : Pool} {d : Nat} {as : List Nat} {f : Ct → List Ct → Res Ct} {mp : Pool} (h : opN P d as f = .ok mp) :
    ∃ cd cs m, P[d]? = some cd ∧ getAll P d as = some cs ∧ f cd cs = .ok m ∧ mp = P.set d m := by
  unfold opN at h
  cases hd : P[d]? with
  | none => simp [hd] at h
  | some cd =>
    cases hg : getAll P d as with
    | none => simp [hd, hg] at h
    | some cs =>
      simp only [hd, hg] at h
      obtain ⟨m, h1, h2⟩ := putRes_ok' h
      exact ⟨cd, cs, m, rfl, rfl, h1, h2⟩

theorem dgetAll_of_getAll (pool : DPool) (d : Nat) : ∀ (as : List Nat) (cs : List Ct), getAll (DPool.cts pool) d as = some cs →
    ∃ xs, dgetAll pool d as = some xs ∧ xs.map DCt.ct = cs ∧ List.Forall₂ (fun a x => pool[a]? = some x) as xs
  | [], cs, h => by
    simp only [getAll] at h; injection h with h; subst h
    exact ⟨[], rfl, rfl, List.Forall₂.nil⟩
  | a :: as, cs, h => by
    simp only [getAll] at h
    by_cases had : a = d
    · simp [had] at h
    · simp only [had, if_false] at h
      cases ha : (DPool.cts pool)[a]? with
      | none => simp [ha] at h
      | some c =>
        cases hr : getAll (DPool.cts pool) d as with
        | none => simp [ha, hr] at h
        | some cs' =>
          simp only [ha, hr] at h
          injection h with h; subst h
          obtain ⟨x, hx, rfl⟩ := cts_some ha
          obtain ⟨xs, h1, h2, h3⟩ := dgetAll_of_getAll pool d as cs' hr
          refine ⟨x :: xs, ?_, by simp [h2], List.Forall₂.cons hx h3⟩
          simp only [dgetAll, had, if_false, hx, h1]

theorem near_sum {β : Nat} : ∀ (xs ys es : List ℚ), List.Forall₂ (fun x (ye : ℚ × ℚ) => Near x ye.1 (2 ^ β) ye.2) xs (ys.zip es) →
    ys.length = es.length → Near xs.sum ys.sum (2 ^ β) es.sum
  | [], ys, es, h, hl => by
    cases ys with
    | nil => cases es with
      | nil => simpa using Near.refl (0 : ℚ) _
      | cons _ _ => simp at hl
    | cons y ys => cases es with
      | nil => simp at hl
      | cons e es => simp at h
  | x :: xs, ys, es, h, hl => by
    cases ys with
    | nil => simp at h
    | cons y ys => cases es with
      | nil => simp at hl
      | cons e es =>
        simp only [List.zip_cons_cons, List.forall₂_cons] at h
        simp only [List.sum_cons]
        exact h.1.add (near_sum xs ys es h.2 (by simpa using hl))

theorem metaFold_budget (env : Env) (cs : List Ct) {d m : Ct} (h : metaFold env (.ok d) cs = .ok m) :
    m.md.logBudget ≤ d.md.logBudget ∧ ∀ c ∈ cs, m.md.logBudget ≤ c.md.logBudget := by
  induction cs generalizing d with
  | nil => simp only [metaFold, List.foldl_nil] at h; injection h with h; subst h; exact ⟨le_refl _, by simp⟩
  | cons c cs ih =>
    simp only [metaFold, List.foldl_cons] at h
    cases h1 : addCtAssign env d c with
    | ok m1 =>
      simp only [Res.bind, h1] at h
      obtain ⟨i1, i2⟩ := ih h
      obtain ⟨b1, b2⟩ := addCtAssign_budget h1
      refine ⟨le_trans i1 b1, fun x hx => ?_⟩
      rcases List.mem_cons.mp hx with rfl | hx
      · exact le_trans i1 b2
      · exact i2 x hx
    | err e x => simp only [Res.bind, h1] at h; exact absurd h (metaFold_not_ok env _ (r := .err e x) (by simp) m)
    | panic p => simp only [Res.bind, h1] at h; exact absurd h (metaFold_not_ok env _ (r := .panic p) (by simp) m)

theorem addMany_budget {env : Env} {dst : Ct} {ins : List Ct} {m : Ct} (h : addMany env dst ins = .ok m) :
    ∀ c ∈ ins, m.md.logBudget ≤ c.md.logBudget := by
  match ins, h with
  | [], h => simp [addMany] at h
  | [a], h =>
    have h' : shiftInto env dst a 0 = .ok m := by simpa [addMany] using h
    intro c hc
    simp only [List.mem_singleton] at hc; subst hc
    have := unaryShift_spec env dst c m h' 0
    omega
  | a :: b :: rest, h =>
    simp only [addMany] at h
    split at h
    · cases h
    · cases h1 : addCtInto env dst a b with
      | ok m1 =>
        simp only [Res.bind, h1] at h
        obtain ⟨i1, i2⟩ := metaFold_budget env rest (d := m1) h
        obtain ⟨b1, b2⟩ := addCtInto_budget h1
        intro c hc
        simp only [List.mem_cons] at hc
        rcases hc with rfl | rfl | hc
        · exact le_trans i1 b1
        · exact le_trans i1 b2
        · exact i2 c hc
      | err e x => simp only [Res.bind, h1] at h; cases h
      | panic p => simp only [Res.bind, h1] at h; cases h

/-- largest `log_budget` among slots `as` of a metadata pool -/
def maxBudget (P : Pool) (as : List Nat) : Nat := (as.map (fun a => (mdAt P a).logBudget)).foldr max 0

theorem le_maxBudget (P : Pool) (as : List Nat) {a : Nat} (ha : a ∈ as) : (mdAt P a).logBudget ≤ maxBudget P as := by
  unfold maxBudget
  induction as with
  | nil => cases ha
  | cons x xs ih =>
    simp only [List.map_cons, List.foldr_cons]
    rcases List.mem_cons.mp ha with rfl | h
    · exact Nat.le_max_left _ _
    · exact le_trans (ih h) (Nat.le_max_right _ _)

def sizeAt (P : Pool) (d : Nat) : Nat := (P[d]?.map (·.size)).getD 0

def specAddMany (env : Env) (σ : ℚ) (P mp : Pool) (τ : TS) (d : Nat) (as : List Nat) : TS :=
  ⟨upd τ.M d (fun t => (as.map (fun a => τ.M a t)).sum),
   upd τ.E d (as.length * (σ * (2 ^ maxBudget P as / 2 ^ (env.base2k * sizeAt mp d))) + (as.map τ.E).sum),
   upd τ.B d ((as.map τ.B).sum)⟩

theorem list_sum_nonneg {l : List ℚ} (h : ∀ x ∈ l, 0 ≤ x) : 0 ≤ l.sum := by
  induction l with
  | nil => simp
  | cons x xs ih => simp only [List.sum_cons]; exact add_nonneg (h x (by simp)) (ih (fun y hy => h y (by simp [hy])))

theorem abs_list_sum_le : ∀ (xs bs : List ℚ), List.Forall₂ (fun x b => |x| ≤ b) xs bs → |xs.sum| ≤ bs.sum
  | [], [], _ => by simp
  | x :: xs, b :: bs, h => by
    simp only [List.forall₂_cons] at h
    simp only [List.sum_cons]
    exact (abs_add_le _ _).trans (add_le_add h.1 (abs_list_sum_le xs bs h.2))

/-- **`ckks_add_many`** on a pool -/
theorem xstep_addMany {env : Env} (he : EnvOK env) {N r : Nat} {mk : MulKey} {ak : AutKeys} {pool : DPool}
    (hp : AllOK env N r pool) {d : Nat} {as : List Nat} {mp : Pool}
    (hm : stepR env (DPool.cts pool) (.addMany d as) = .ok mp) (s : List Poly) :
    XGoal env N r mk ak s pool (.addMany d as) mp (fun τ => specAddMany env (sn r s) (DPool.cts pool) mp τ d as) := by
  obtain ⟨cd, cs, m, hd, hg, hf, rfl⟩ := opN_ok' (show opN _ d as (addMany env) = .ok mp from hm)
  obtain ⟨xd, hxd, rfl⟩ := cts_some hd
  obtain ⟨xs, hxs, rfl, hall⟩ := dgetAll_of_getAll pool d as cs hg
  have hins : ∀ c ∈ xs, DOK env N r c := by
    intro c hc
    obtain ⟨i, hi, rfl⟩ := List.getElem_of_mem hc
    have hl := hall.length_eq
    have := List.forall₂_iff_get.mp hall |>.2 i (by rw [hl]; exact hi) hi
    exact hp.get this
  have hβ0 : ∀ c ∈ xs, c.md.logBudget ≤ maxBudget (DPool.cts pool) as := by
    intro c hc
    obtain ⟨i, hi, rfl⟩ := List.getElem_of_mem hc
    have hl := hall.length_eq
    have hia : i < as.length := by rw [hl]; exact hi
    have hget := List.forall₂_iff_get.mp hall |>.2 i hia hi
    have hmem : as[i] ∈ as := List.getElem_mem hia
    have := le_maxBudget (DPool.cts pool) as hmem
    have hmd : mdAt (DPool.cts pool) as[i] = xs[i].md := by
      have : (DPool.cts pool)[as[i]]? = some xs[i].ct := by rw [cts_getElem?]; simp only [List.get_eq_getElem] at hget; rw [hget]; rfl
      rw [mdAt_some this]; rfl
    rw [hmd] at this
    exact this
  obtain ⟨c', h1, hct, hok, hv⟩ := dAddMany_sem he (hp.get hxd) hins hf (maxBudget (DPool.cts pool) as) hβ0
  have hbud := addMany_budget hf
  refine ⟨pool.set d c', ?_, by rw [cts_set, hct], hp.set d hok, fun τ hτ => ?_⟩
  · simp only [xstep, dopN, hxd, hxs, dput, h1, Core.Ops.bind]
  · have hσ : 0 ≤ sn r s := le_trans zero_le_one (sn_pos r s)
    have hsz : sizeAt ((DPool.cts pool).set d c'.ct) d = xd.g.size := by
      have hdl : d < (DPool.cts pool).length := by
        rcases Nat.lt_or_ge d (DPool.cts pool).length with h | h
        · exact h
        · rw [List.getElem?_eq_none h] at hd; cases hd
      have hms : c'.ct.size = xd.g.size := by
        rw [hct]
        have : m.size = xd.ct.size := by
          match xs, hf with
          | [], hf => simp [addMany] at hf
          | [a], hf =>
            have h' : shiftInto env xd.ct a.ct 0 = .ok m := by simpa [addMany] using hf
            exact (shiftInto_shape h').1
          | a :: b :: rest, hf =>
            simp only [List.map_cons, addMany] at hf
            split at hf
            · cases hf
            · cases h1' : addCtInto env xd.ct a.ct b.ct with
              | ok m1 =>
                simp only [Res.bind, h1'] at hf
                rw [metaFold_size env _ (d := m1) hf]
                simp only [addCtInto] at h1'; grind
              | err e x => simp only [Res.bind, h1'] at hf; cases hf
              | panic p => simp only [Res.bind, h1'] at hf; cases hf
        exact this
      simp [sizeAt, List.getElem?_set, hdl, hms]
    simp only [specAddMany]
    rw [← hct, hsz]
    refine hτ.set d c' _ _ _ (fun t ht => ?_) (fun t ht => ?_) ?_ ?_
    · have a1 := hv s t ht
      -- the sum of the tracked inputs
      have a2 : Near ((xs.map (fun c => decC s c t)).sum) ((as.map (fun a => τ.M a t)).sum) (wrap c') ((as.map τ.E).sum) := by
        have hl := hall.length_eq
        apply near_sum _ _ _ _ (by simp)
        rw [List.forall₂_iff_get]
        refine ⟨by simp [hl], fun i h1 h2 => ?_⟩
        simp only [List.length_map] at h1
        have hia : i < as.length := by rw [hl]; exact h1
        have hget := List.forall₂_iff_get.mp hall |>.2 i hia h1
        simp only [List.get_eq_getElem] at hget
        simp only [List.get_eq_getElem, List.getElem_map, List.getElem_zip]
        have hn := hτ.1 as[i] xs[i] hget t ht
        have hb : c'.md.logBudget ≤ xs[i].md.logBudget := by
          have := hbud xs[i].ct (List.mem_map.mpr ⟨xs[i], List.getElem_mem h1, rfl⟩)
          have hcm : c'.md = m.md := by have := congrArg Ct.md hct; simpa [DCt.ct] using this
          rw [hcm]; exact this
        have := hn.scale (dvd_one hb)
        simpa [wrap] using this
      have := a1.trans a2
      rw [hall.length_eq]
      exact this
    · apply abs_list_sum_le
      rw [List.forall₂_iff_get]
      refine ⟨by simp, fun i h1 h2 => ?_⟩
      simp only [List.get_eq_getElem, List.getElem_map]
      exact hτ.2.1 _ t ht
    · have h1 : 0 ≤ (as.map τ.E).sum := list_sum_nonneg (by intro x hx; obtain ⟨a, _, rfl⟩ := List.mem_map.mp hx; exact hτ.2.2.1 a)
      have : (0 : ℚ) ≤ as.length * (sn r s * (2 ^ maxBudget (DPool.cts pool) as / 2 ^ (env.base2k * xd.g.size))) := by positivity
      linarith
    · exact list_sum_nonneg (by intro x hx; obtain ⟨a, _, rfl⟩ := List.mem_map.mp hx; exact hτ.2.2.2 a)

end Ckks
