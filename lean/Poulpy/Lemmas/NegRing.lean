import Poulpy.Model.Ring
import Mathlib.RingTheory.AdjoinRoot
import Mathlib.Tactic.Ring
import Mathlib.Tactic.Linarith

/-! Ring laws of the exact negacyclic product `negMul` by transfer from `AdjoinRoot (X^N + 1)`. -/

open Polynomial

noncomputable def toPoly : List Int → ℤ[X]
  | [] => 0
  | c :: rest => C c + X * toPoly rest

theorem toPoly_append (l : List Int) (z : Int) : toPoly (l ++ [z]) = toPoly l + X ^ l.length * C z := by
  induction l with
  | nil => simp [toPoly]
  | cons c rest ih => simp [toPoly, ih, pow_succ]; ring

theorem mulX_length (l : List Int) : (mulX l).length = l.length := by
  unfold mulX
  rcases List.eq_nil_or_concat l with h | ⟨init, z, h⟩
  · subst h; simp
  · subst h; simp [List.concat_eq_append]

theorem addL_length (a b : List Int) (h : a.length = b.length) : (addL a b).length = b.length := by
  simp [addL, h]

theorem smulL_length (c : Int) (l : List Int) : (smulL c l).length = l.length := by simp [smulL]

theorem negMul_length (a b : List Int) : (negMul a b).length = b.length := by
  induction a with
  | nil => simp [negMul]
  | cons a0 as ih => simp [negMul, addL, smulL, mulX_length, ih]

theorem toPoly_addL (a b : List Int) (h : a.length = b.length) : toPoly (addL a b) = toPoly a + toPoly b := by
  induction a generalizing b with
  | nil => cases b with
    | nil => simp [addL, toPoly]
    | cons _ _ => simp at h
  | cons x t ih => cases b with
    | nil => simp at h
    | cons y u =>
      have := ih u (by simpa using h)
      simp only [addL, List.zipWith_cons_cons, toPoly] at this ⊢
      rw [this]; simp; ring

theorem toPoly_smulL (c : Int) (l : List Int) : toPoly (smulL c l) = C c * toPoly l := by
  induction l with
  | nil => simp [smulL, toPoly]
  | cons x t ih =>
    simp only [smulL, List.map_cons, toPoly] at ih ⊢
    rw [ih]; simp; ring

theorem coeff_toPoly (l : List Int) (i : Nat) : (toPoly l).coeff i = l.getD i 0 := by
  induction l generalizing i with
  | nil => simp [toPoly]
  | cons c t ih =>
    cases i with
    | zero => simp [toPoly]
    | succ i => rw [toPoly, coeff_add, coeff_C_succ, coeff_X_mul, ih]; simp

section
variable (N : ℕ)

theorem mk_mulX (l : List Int) (hl : l.length = N) (hN : 0 < N) :
    AdjoinRoot.mk (X ^ N + 1 : ℤ[X]) (toPoly (mulX l)) = AdjoinRoot.root (X ^ N + 1 : ℤ[X]) * AdjoinRoot.mk _ (toPoly l) := by
  rcases List.eq_nil_or_concat l with h | ⟨init, z, h⟩
  · subst h; simp at hl; omega
  · subst h
    rw [List.concat_eq_append] at hl ⊢
    have hlen : init.length + 1 = N := by simpa using hl
    have : mulX (init ++ [z]) = (-z) :: init := by simp [mulX]
    rw [this, toPoly_append]
    simp only [toPoly, map_add, map_mul, AdjoinRoot.mk_X, AdjoinRoot.mk_C, map_pow, map_neg]
    have hroot : (AdjoinRoot.root (X ^ N + 1 : ℤ[X])) ^ N = -1 := by
      have h0 := AdjoinRoot.eval₂_root (X ^ N + 1 : ℤ[X])
      simp [eval₂_add, eval₂_pow] at h0
      linear_combination h0
    have e : (AdjoinRoot.root (X ^ N + 1 : ℤ[X])) * (AdjoinRoot.root (X ^ N + 1 : ℤ[X])) ^ init.length = -1 := by
      rw [← pow_succ', hlen, hroot]
    linear_combination (-(AdjoinRoot.of (X ^ N + 1 : ℤ[X]) z)) * e

/-- `negMul` is multiplication in `ℤ[X]/(X^N+1)` -/
theorem mk_negMul (a b : List Int) (hb : b.length = N) (hN : 0 < N) :
    AdjoinRoot.mk (X ^ N + 1 : ℤ[X]) (toPoly (negMul a b))
      = AdjoinRoot.mk _ (toPoly a) * AdjoinRoot.mk _ (toPoly b) := by
  induction a with
  | nil =>
    have : toPoly (negMul [] b) = 0 := by
      ext i; rw [coeff_toPoly, coeff_zero]
      simp only [negMul, List.getD_eq_getElem?_getD, List.getElem?_map]
      cases b[i]? <;> rfl
    rw [this]; simp [toPoly]
  | cons a0 as ih =>
    simp only [negMul]
    rw [toPoly_addL _ _ (by rw [smulL_length, mulX_length, negMul_length]), map_add, toPoly_smulL,
      mk_mulX N _ (by rw [negMul_length]; exact hb) hN, ih]
    simp only [toPoly, map_add, map_mul, AdjoinRoot.mk_X, AdjoinRoot.mk_C]
    ring

theorem natDegree_XN1 (_hN : 0 < N) : (X ^ N + 1 : ℤ[X]).natDegree = N := by
  have := natDegree_X_pow_add_C (R := ℤ) (n := N) (r := 1)
  simpa using this

theorem monic_XN1 (hN : 0 < N) : (X ^ N + 1 : ℤ[X]).Monic := by
  have := monic_X_pow_add_C (R := ℤ) (n := N) 1 (by omega)
  simpa using this

/-- lists of length `N` are determined by their class in the quotient -/
theorem toPoly_mk_inj (l1 l2 : List Int) (h1 : l1.length = N) (h2 : l2.length = N) (hN : 0 < N)
    (h : AdjoinRoot.mk (X ^ N + 1 : ℤ[X]) (toPoly l1) = AdjoinRoot.mk _ (toPoly l2)) : l1 = l2 := by
  rw [AdjoinRoot.mk_eq_mk] at h
  have hdeg : (toPoly l1 - toPoly l2).degree < (X ^ N + 1 : ℤ[X]).degree := by
    rw [degree_eq_natDegree (monic_XN1 N hN).ne_zero, natDegree_XN1 N hN, degree_lt_iff_coeff_zero]
    intro m hm
    rw [coeff_sub, coeff_toPoly, coeff_toPoly, List.getD_eq_getElem?_getD, List.getD_eq_getElem?_getD,
      List.getElem?_eq_none (by omega), List.getElem?_eq_none (by omega)]
    simp
  have hz : toPoly l1 - toPoly l2 = 0 := eq_zero_of_dvd_of_degree_lt h hdeg
  apply List.ext_getElem (by rw [h1, h2])
  intro i hi1 hi2
  have := congrArg (fun p => p.coeff i) hz
  simp only [coeff_sub, coeff_toPoly, coeff_zero, List.getD_eq_getElem?_getD, List.getElem?_eq_getElem hi1,
    List.getElem?_eq_getElem hi2, Option.getD_some] at this
  linarith

/-- commutativity of the negacyclic product -/
theorem negMul_comm (a b : List Int) (ha : a.length = N) (hb : b.length = N) (hN : 0 < N) : negMul a b = negMul b a := by
  apply toPoly_mk_inj N _ _ (by rw [negMul_length, hb]) (by rw [negMul_length, ha]) hN
  rw [mk_negMul N a b hb hN, mk_negMul N b a ha hN, mul_comm]

/-- associativity -/
theorem negMul_assoc (a b c : List Int) (hb : b.length = N) (hc : c.length = N) (hN : 0 < N) :
    negMul (negMul a b) c = negMul a (negMul b c) := by
  apply toPoly_mk_inj N _ _ (by rw [negMul_length, hc]) (by rw [negMul_length, negMul_length, hc]) hN
  rw [mk_negMul N _ c hc hN, mk_negMul N a b hb hN, mk_negMul N a _ (by rw [negMul_length, hc]) hN,
    mk_negMul N b c hc hN, mul_assoc]

/-- distributivity over the limb-wise exact sum -/
theorem negMul_add (a b c : List Int) (hb : b.length = N) (hc : c.length = N) (hN : 0 < N) :
    negMul a (addL b c) = addL (negMul a b) (negMul a c) := by
  have hbc : (addL b c).length = N := by rw [addL_length b c (by rw [hb, hc]), hc]
  apply toPoly_mk_inj N _ _ (by rw [negMul_length, hbc])
    (by rw [addL_length _ _ (by rw [negMul_length, negMul_length, hb, hc]), negMul_length, hc]) hN
  rw [mk_negMul N a _ hbc hN, toPoly_addL b c (by rw [hb, hc]),
    toPoly_addL _ _ (by rw [negMul_length, negMul_length, hb, hc]), map_add, map_add, mk_negMul N a b hb hN,
    mk_negMul N a c hc hN, mul_add]

/-- `X · a` in the quotient is the rotation by one -/
theorem mulX_eq_rotate (l : List Int) : mulX l = znxRotateW id 1 l := by
  rcases List.eq_nil_or_concat l with h | ⟨init, z, h⟩
  · subst h; simp [mulX, znxRotateW, znxNegateW]
  · subst h
    rw [List.concat_eq_append]
    have hm : mulX (init ++ [z]) = (-z) :: init := by simp [mulX]
    rw [hm]
    unfold znxRotateW
    dsimp only
    have hl : (init ++ [z]).length = init.length + 1 := by simp
    rw [hl]
    have h1 : ((1 : Int) % (2 * ((init.length + 1 : Nat) : Int))).toNat = 1 := by
      rw [Int.emod_eq_of_lt (by omega) (by push_cast; omega)]; rfl
    rw [h1]
    rcases Nat.eq_zero_or_pos init.length with h0 | hp
    · have : init = [] := List.eq_nil_of_length_eq_zero h0
      subst this; simp [znxNegateW]
    · have h2 : 1 % (init.length + 1) = 1 := Nat.mod_eq_of_lt (by omega)
      have h3 : 1 < init.length + 1 := by omega
      simp [h2, h3, znxNegateW]
end
