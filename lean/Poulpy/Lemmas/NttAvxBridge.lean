import Poulpy.Lemmas.AvxNttLoop
import Poulpy.Lemmas.NttProg
import Poulpy.Lemmas.NttMisc
import Poulpy.Lemmas.NttFits

/-!
Bridge between the C07 HAL-level theorems (reference kernels) and the C10 lane theorems (AVX2 kernels = reference kernels).

C10 proves `reduce_b_to_canonical` / `c_from_b_avx2` / `pack_left_1blk_x2_avx2` for q120b residues `x < Q[k]·2^33`.  The
forward transform only guarantees `x < 2·Q[k]·2^33` (`Lemmas/NttRange.lean`, attained: `lazyWitness`).  With the actual
Primes30 constants `2^32 mod Q[k] < 2^28`, so the Barrett input stays below `2^61` for EVERY 64-bit word: the three kernels
agree with the reference on all of `u64` (`…_wide`).
-/

namespace Avx.Q120

/-- `reduce_b_to_canonical` lane = `x % q` for EVERY `u64`, provided `pow32 = 2^32 mod q` is below `2^28` -/
theorem reduceB_eq_wide (x q mu pow32 : Nat) (hq1 : 2 ^ 29 < q) (hq2 : q < 2 ^ 30) (hmu : mu = 2 ^ 61 / q) (hp : pow32 = 2 ^ 32 % q)
    (hp28 : pow32 < 2 ^ 28) (hx : x < 2 ^ 64) : reduceBToCanonical x q mu pow32 = x % q := by
  have hq0 : 0 < q := by omega
  have hhi : x / 2 ^ 32 < 2 ^ 32 := Nat.div_lt_of_lt_mul (by omega)
  have hlo : x % 2 ^ 32 < 2 ^ 32 := Nat.mod_lt _ (by positivity)
  unfold reduceBToCanonical
  simp only [Nat.shiftRight_eq_div_pow, mask32, Nat.and_two_pow_sub_one_eq_mod]
  rw [condSub_eq _ q (by omega) (by omega)]
  generalize hr : (if q ≤ x / 2 ^ 32 then x / 2 ^ 32 - q else x / 2 ^ 32) = xr
  have hxr : xr < 2 ^ 32 ∧ xr % q = (x / 2 ^ 32) % q := by
    rw [← hr]
    by_cases h : q ≤ x / 2 ^ 32
    · rw [if_pos h]
      refine ⟨by omega, ?_⟩
      conv => rhs; rw [show x / 2 ^ 32 = (x / 2 ^ 32 - q) + q by omega, Nat.add_mod_right]
    · rw [if_neg h]; exact ⟨by omega, rfl⟩
  have hm : mul_epu32 xr pow32 = xr * pow32 := by
    unfold mul_epu32
    rw [Nat.mod_eq_of_lt hxr.1, Nat.mod_eq_of_lt (by omega)]
  have hprod : xr * pow32 < 2 ^ 60 := by
    calc xr * pow32 < 2 ^ 32 * 2 ^ 28 := Nat.mul_lt_mul'' hxr.1 hp28
      _ = 2 ^ 60 := by norm_num
  have hadd : add_epi64 (mul_epu32 xr pow32) (x % 2 ^ 32) = xr * pow32 + x % 2 ^ 32 := by
    rw [hm]; unfold add_epi64; exact wrap_of_lt (by omega)
  rw [hadd, barrett_eq _ q mu hq1 hq2 hmu (by omega)]
  have hx' : x / 2 ^ 32 * 2 ^ 32 + x % 2 ^ 32 = x := Nat.div_add_mod' x (2 ^ 32)
  have h1 : xr ≡ x / 2 ^ 32 [MOD q] := hxr.2
  have h2 : pow32 ≡ 2 ^ 32 [MOD q] := by rw [hp]; exact Nat.mod_modEq _ _
  have h3 := (h1.mul h2).add_right (x % 2 ^ 32)
  rw [hx'] at h3
  exact h3

end Avx.Q120

namespace Avx.Ntt
open Ntt120

theorem reduceB_eq_mod_wide (x q mu pow32 : W) (c : ModC q mu pow32) (hp : pow32.toNat < 2 ^ 28) :
    (reduceBToCanonical x q mu pow32).toNat = x.toNat % q.toNat := by
  rw [reduceB_toNat]; exact Q120.reduceB_eq_wide _ _ _ _ c.q_gt c.q_lt c.mu_eq c.pow_eq hp x.isLt

/-- `r | (s << 32)` on two 32-bit values, without SAT (C10's `toNat_or_shl32` is a `bv_decide` lemma) -/
theorem toNat_or_shl32' (r s : W) (hr : r.toNat < 2 ^ 32) (hs : s.toNat < 2 ^ 32) :
    (or_si256 r (slli_epi64 s 32)).toNat = r.toNat + s.toNat * 2 ^ 32 := by
  unfold or_si256 slli_epi64
  rw [BitVec.toNat_or, if_pos (by decide), BitVec.toNat_shiftLeft, Nat.shiftLeft_eq]
  have h1 : s.toNat * 2 ^ 32 < 2 ^ 64 := by omega
  rw [Nat.mod_eq_of_lt h1, Nat.or_comm, ← Nat.shiftLeft_eq, ← Nat.shiftLeft_add_eq_or_of_lt hr, Nat.shiftLeft_eq]
  omega

/-- **`c_from_b_avx2` lane = `c_from_b_ref` for EVERY 64-bit word** (Primes30-shaped constants with `2^32 mod q < 2^28`) -/
theorem cFromB_eq_ref_wide (x q mu pow32 : W) (c : ModC q mu pow32) (hp : pow32.toNat < 2 ^ 28) :
    [(cFromB x q mu pow32).toNat % 2 ^ 32, (cFromB x q mu pow32).toNat / 2 ^ 32] = cFromBK q.toNat x.toNat := by
  have hq0 : 0 < q.toNat := by have := c.q_gt; omega
  have hr := reduceB_eq_mod_wide x q mu pow32 c hp
  have hrl : x.toNat % q.toNat < q.toNat := Nat.mod_lt _ hq0
  have hq30 := c.q_lt
  have hpl : pow32.toNat < q.toNat := by rw [c.pow_eq]; exact Nat.mod_lt _ hq0
  have hprod : (mul_epu32 (reduceBToCanonical x q mu pow32) pow32).toNat = x.toNat % q.toNat * pow32.toNat := by
    rw [toNat_mul_epu32, hr, Nat.mod_eq_of_lt (show x.toNat % q.toNat < 2 ^ 32 by omega),
      Nat.mod_eq_of_lt (show pow32.toNat < 2 ^ 32 by omega)]
  have hp60 : x.toNat % q.toNat * pow32.toNat < 2 ^ 61 := by
    calc x.toNat % q.toNat * pow32.toNat < 2 ^ 30 * 2 ^ 30 := Nat.mul_lt_mul'' (by omega) (by omega)
      _ < 2 ^ 61 := by norm_num
  have hs : (barrett (mul_epu32 (reduceBToCanonical x q mu pow32) pow32) q mu).toNat = (x.toNat % q.toNat * pow32.toNat) % q.toNat := by
    rw [barrett_eq_mod _ q mu pow32 c (by rw [hprod]; exact hp60), hprod]
  have hsl : (x.toNat % q.toNat * pow32.toNat) % q.toNat < q.toNat := Nat.mod_lt _ hq0
  unfold cFromB
  simp only []
  rw [toNat_or_shl32' _ _ (by rw [hr]; omega) (by rw [hs]; omega), hr, hs]
  unfold cFromBK cPair wu32 wu64
  have e1 : (x.toNat % q.toNat + x.toNat % q.toNat * pow32.toNat % q.toNat * 2 ^ 32) % 2 ^ 32 = x.toNat % q.toNat := by
    rw [Nat.add_mul_mod_self_right]; exact Nat.mod_eq_of_lt (by omega)
  have e2 : (x.toNat % q.toNat + x.toNat % q.toNat * pow32.toNat % q.toNat * 2 ^ 32) / 2 ^ 32 = x.toNat % q.toNat * pow32.toNat % q.toNat := by
    rw [Nat.add_mul_div_right _ _ (by positivity), Nat.div_eq_of_lt (by omega), Nat.zero_add]
  rw [e1, e2, Nat.mod_eq_of_lt (show x.toNat % q.toNat < 2 ^ 32 by omega)]
  have e3 : x.toNat % q.toNat * 2 ^ 32 % 2 ^ 64 = x.toNat % q.toNat * 2 ^ 32 := Nat.mod_eq_of_lt (by
    calc x.toNat % q.toNat * 2 ^ 32 < 2 ^ 30 * 2 ^ 32 := Nat.mul_lt_mul_of_pos_right (by omega) (by positivity)
      _ < 2 ^ 64 := by norm_num)
  have e4 : x.toNat % q.toNat * pow32.toNat % q.toNat = x.toNat % q.toNat * 2 ^ 32 % q.toNat := by
    rw [c.pow_eq]; simp [Nat.mul_mod]
  rw [e3, e4, Nat.mod_eq_of_lt (show x.toNat % q.toNat * 2 ^ 32 % q.toNat < 2 ^ 32 by
    have := Nat.mod_lt (x.toNat % q.toNat * 2 ^ 32) hq0; omega)]

/-- **`pack_left_1blk_x2_avx2` lane = the reference's `(a % q, 0)` for EVERY 64-bit word** -/
theorem packLeft_eq_ref_wide (x q mu pow32 : W) (c : ModC q mu pow32) (hp : pow32.toNat < 2 ^ 28) :
    ((reduceBToCanonical x q mu pow32).toNat % 2 ^ 32, (reduceBToCanonical x q mu pow32).toNat / 2 ^ 32) = packLeftK q.toNat x.toNat := by
  rw [reduceB_eq_mod_wide x q mu pow32 c hp]
  have hq := c.q_lt
  have : x.toNat % q.toNat < q.toNat := Nat.mod_lt _ (by have := c.q_gt; omega)
  unfold packLeftK wu32
  rw [Nat.mod_eq_of_lt (by omega), Nat.div_eq_of_lt (by omega)]

/-- **`pairwise_pack_left_1blk_x2_avx2` lane = the reference's `(a%q + b%q) mod q` for EVERY pair of 64-bit words** -/
theorem pairwisePackLeft_eq_ref_wide (a b q mu pow32 : W) (c : ModC q mu pow32) (hp : pow32.toNat < 2 ^ 28) :
    ((pairwisePackLeft a b q mu pow32).toNat, 0) = pairwisePackLeftK q.toNat a.toNat b.toNat := by
  have hq := c.q_lt
  have hq0 : 0 < q.toNat := by have := c.q_gt; omega
  have h1 : a.toNat % q.toNat < q.toNat := Nat.mod_lt _ hq0
  have h2 : b.toNat % q.toNat < q.toNat := Nat.mod_lt _ hq0
  unfold pairwisePackLeft pairwisePackLeftK
  rw [condSub_toNat, toNat_add, reduceB_eq_mod_wide a q mu pow32 c hp, reduceB_eq_mod_wide b q mu pow32 c hp,
    wu64_of_lt _ (by omega), Q120.condSub_eq _ _ (by omega) (by omega)]
  simp only [ge_iff_le]
  split
  · rw [subU64_of_le _ _ (by assumption) (by omega), wu32_of_lt _ (by omega)]
  · rw [wu32_of_lt _ (by omega)]

/-- the four Primes30 constant vectors: `ModC` and the small `pow32` -/
theorem primes30_modC_wide (k : Nat) (hk : k < 4) :
    ModC (BitVec.ofNat 64 (Avx.Q120.Q.getD k 0)) (BitVec.ofNat 64 (Avx.Q120.MU.getD k 0)) (BitVec.ofNat 64 (Avx.Q120.POW32.getD k 0)) ∧
    (BitVec.ofNat 64 (Avx.Q120.POW32.getD k 0)).toNat < 2 ^ 28 ∧
    (BitVec.ofNat 64 (Avx.Q120.Q.getD k 0)).toNat = primes30.qs.getD k 1 := by
  have h : ∀ k, k < 4 → (2 ^ 29 < (BitVec.ofNat 64 (Avx.Q120.Q.getD k 0)).toNat ∧ (BitVec.ofNat 64 (Avx.Q120.Q.getD k 0)).toNat < 2 ^ 30 ∧
      (BitVec.ofNat 64 (Avx.Q120.MU.getD k 0)).toNat = 2 ^ 61 / (BitVec.ofNat 64 (Avx.Q120.Q.getD k 0)).toNat ∧
      (BitVec.ofNat 64 (Avx.Q120.POW32.getD k 0)).toNat = 2 ^ 32 % (BitVec.ofNat 64 (Avx.Q120.Q.getD k 0)).toNat ∧
      (BitVec.ofNat 64 (Avx.Q120.POW32.getD k 0)).toNat < 2 ^ 28 ∧
      (BitVec.ofNat 64 (Avx.Q120.Q.getD k 0)).toNat = primes30.qs.getD k 1) := by decide
  exact ⟨⟨(h k hk).1, (h k hk).2.1, (h k hk).2.2.1, (h k hk).2.2.2.1⟩, (h k hk).2.2.2.2.1, (h k hk).2.2.2.2.2⟩

end Avx.Ntt

/-! ### the HAL steps on the AVX2 lanes -/

namespace Ntt120.AvxBridge
open Avx Avx.Ntt Ntt120

theorem tn_map {α} (f : α → W) (l : List α) : tn (l.map f) = l.map (fun x => (f x).toNat) := by simp [tn]

theorem toNat_ofInt64 (x : Int) : (BitVec.ofInt 64 x).toNat = asU64 x := by
  rw [BitVec.toNat_ofInt]; unfold asU64; norm_num

theorem oq_toNat (q : Nat) : (BitVec.ofNat 64 (oq q)).toNat = oq q := by
  rw [BitVec.toNat_ofNat]; exact Nat.mod_eq_of_lt (by unfold oq subU64; exact Nat.mod_lt _ (by decide))

/-- **`vec_znx_dft_apply` / the transform half of every `prepare`, AVX2 lane = reference lane**: `b_from_znx64_avx2` on every
`i64` coefficient followed by `ntt_avx2` on the real table stores the bits of `b_from_znx64_ref` + `ntt_ref`.
Uses `Avx.Ntt.bFromZnx64_eq_ref` (all inputs) and `Avx.Ntt.nttAvx_real` (all inputs; its hypothesis `fitsTable` — the table entries are
`u64` — is discharged by `nttTable_fits`). -/
theorem avx_dft_lane_eq_ref (k j : Nat) (hk : k < 4) (hj1 : 1 ≤ j) (hj : j ≤ 16) (t : TableK)
    (ht : nttTableK primes30 k (2 ^ j) = .ok t) (split : Nat) (a : Poly) (ha : a.length = 2 ^ j) :
    tn (nttAvx (redCOf t.reduc) (t.levels.map levelCOf) split
        (a.map (fun x => Avx.Ntt.bFromZnx64 (BitVec.ofInt 64 x) (BitVec.ofNat 64 (oq (primes30.qs.getD k 1))))))
      = nttK t (a.map (fun x => bFromU64K (primes30.qs.getD k 1) (asU64 x))) := by
  obtain ⟨f1, f2, f3⟩ := reduc_fits primes30 (by simp) k hk
  have hf := nttTable_fits primes30 k (2 ^ j) t ht f1 f2 f3
  rw [nttAvx_real primes30 k j (primes30_nttGood k hk).1 hj1 hj t ht hf split _ (by simpa using ha), tn_map]
  congr 1
  apply List.map_congr_left
  intro x _
  rw [bFromZnx64_eq_ref _ _ (primes30.qs.getD k 1) (oq_toNat _), toNat_ofInt64]

/-- … and therefore the AVX2 lane represents the coefficient limb, exactly like the reference lane (`rep_dft`) -/
theorem avx_dft_lane_rep (k j : Nat) (hk : k < 4) (hj1 : 1 ≤ j) (hj : j ≤ 16) (t : TableK)
    (ht : nttTableK primes30 k (2 ^ j) = .ok t) (split : Nat) (a : Poly) (ha : PolyOK j a) :
    Rep primes30 k j (tn (nttAvx (redCOf t.reduc) (t.levels.map levelCOf) split
        (a.map (fun x => Avx.Ntt.bFromZnx64 (BitVec.ofInt 64 x) (BitVec.ofNat 64 (oq (primes30.qs.getD k 1))))))) a := by
  rw [avx_dft_lane_eq_ref k j hk hj1 hj t ht split a ha.1]
  exact rep_dft primes30 k j (laneCtx_of primes30 primes30_nttGood k j hk hj1 hj) t ht a ha.1 ha.2

/-- **`c_from_b_avx2` (svp / vmp / cnv-right prepare) on EVERY stored word = `c_from_b_ref`** with the Primes30 constants
(`cFromB_eq_ref_wide`: beyond C10's `x < Q·2^33`, which forward-transform outputs can exceed) -/
theorem avx_c_from_b_lane_eq_ref (k : Nat) (hk : k < 4) (x : W) :
    ((Avx.Ntt.cFromB x (BitVec.ofNat 64 (Avx.Q120.Q.getD k 0)) (BitVec.ofNat 64 (Avx.Q120.MU.getD k 0)) (BitVec.ofNat 64 (Avx.Q120.POW32.getD k 0))).toNat % 2 ^ 32,
     (Avx.Ntt.cFromB x (BitVec.ofNat 64 (Avx.Q120.Q.getD k 0)) (BitVec.ofNat 64 (Avx.Q120.MU.getD k 0)) (BitVec.ofNat 64 (Avx.Q120.POW32.getD k 0))).toNat / 2 ^ 32)
      = cPairK (primes30.qs.getD k 1) x.toNat := by
  obtain ⟨c, hp, hq⟩ := primes30_modC_wide k hk
  have := cFromB_eq_ref_wide x _ _ _ c hp
  rw [hq] at this
  unfold cPairK
  rw [← this]
  rfl

/-- **`pack_left_1blk_x2_avx2` (cnv_apply) on EVERY stored word = the reference's `(a % q, 0)`** -/
theorem avx_pack_left_lane_eq_ref (k : Nat) (hk : k < 4) (x : W) :
    ((reduceBToCanonical x (BitVec.ofNat 64 (Avx.Q120.Q.getD k 0)) (BitVec.ofNat 64 (Avx.Q120.MU.getD k 0)) (BitVec.ofNat 64 (Avx.Q120.POW32.getD k 0))).toNat % 2 ^ 32,
     (reduceBToCanonical x (BitVec.ofNat 64 (Avx.Q120.Q.getD k 0)) (BitVec.ofNat 64 (Avx.Q120.MU.getD k 0)) (BitVec.ofNat 64 (Avx.Q120.POW32.getD k 0))).toNat / 2 ^ 32)
      = packLeftK (primes30.qs.getD k 1) x.toNat := by
  obtain ⟨c, hp, hq⟩ := primes30_modC_wide k hk
  have := packLeft_eq_ref_wide x _ _ _ c hp
  rw [hq] at this
  exact this

/-- **`pairwise_pack_left_1blk_x2_avx2` (cnv_pairwise_apply_dft) on EVERY pair of stored words = the reference's canonical pack** -/
theorem avx_pairwise_pack_left_lane_eq_ref (k : Nat) (hk : k < 4) (a b : W) :
    ((pairwisePackLeft a b (BitVec.ofNat 64 (Avx.Q120.Q.getD k 0)) (BitVec.ofNat 64 (Avx.Q120.MU.getD k 0)) (BitVec.ofNat 64 (Avx.Q120.POW32.getD k 0))).toNat, 0)
      = pairwisePackLeftK (primes30.qs.getD k 1) a.toNat b.toNat := by
  obtain ⟨c, hp, hq⟩ := primes30_modC_wide k hk
  have := pairwisePackLeft_eq_ref_wide a b _ _ _ c hp
  rw [hq] at this
  exact this

/-- the `BbcMeta<Primes30>` constants as the AVX2 kernels read them -/
theorem primes30_bbc_consts : ∀ k, k < 4 →
    (BitVec.ofNat 64 (maskOf (bbcH primes30))).toNat = maskOf (BitVec.ofNat 64 (bbcH primes30)).toNat ∧
    (BitVec.ofNat 64 (bbcH primes30)).toNat = bbcH primes30 ∧ bbcH primes30 = 25 ∧
    (BitVec.ofNat 64 (pow2Mod 32 (primes30.qs.getD k 1))).toNat = pow2Mod 32 (primes30.qs.getD k 1) ∧
    (BitVec.ofNat 64 (pow2Mod (32 + bbcH primes30) (primes30.qs.getD k 1))).toNat = pow2Mod (32 + bbcH primes30) (primes30.qs.getD k 1) ∧
    pow2Mod 32 (primes30.qs.getD k 1) < 2 ^ 32 ∧ pow2Mod (32 + bbcH primes30) (primes30.qs.getD k 1) < 2 ^ 32 := by decide +kernel

/-- **every `bbc` product (svp_apply, vmp_apply 1col/2cols/x2, cnv_apply), AVX2 lane = reference lane**, for up to `2^24 − 1`
rows of ARBITRARY 64-bit words (`Avx.Ntt.bbcLane_eq_ref`) -/
theorem avx_bbc_lane_eq_ref (k : Nat) (hk : k < 4) (rows : List (W × W)) (hell : rows.length < 2 ^ 24) :
    (bbcLane (BitVec.ofNat 64 (maskOf (bbcH primes30))) (BitVec.ofNat 64 (bbcH primes30))
        (BitVec.ofNat 64 (pow2Mod 32 (primes30.qs.getD k 1))) (BitVec.ofNat 64 (pow2Mod (32 + bbcH primes30) (primes30.qs.getD k 1))) rows).toNat
      = bbcK (bbcH primes30) (pow2Mod 32 (primes30.qs.getD k 1)) (pow2Mod (32 + bbcH primes30) (primes30.qs.getD k 1)) (rows.map termOf) := by
  obtain ⟨a1, a2, a3, a4, a5, a6, a7⟩ := primes30_bbc_consts k hk
  have := bbcLane_eq_ref (BitVec.ofNat 64 (maskOf (bbcH primes30))) (BitVec.ofNat 64 (bbcH primes30))
    (BitVec.ofNat 64 (pow2Mod 32 (primes30.qs.getD k 1))) (BitVec.ofNat 64 (pow2Mod (32 + bbcH primes30) (primes30.qs.getD k 1))) rows
    (by rw [a2, a3]; omega) a1 (by rw [a2, a3]; norm_num; omega) (by rw [a4]; exact a6) (by rw [a5]; exact a7)
  rw [a2, a4, a5] at this
  exact this

/-- **the lazy `add / sub / negate` intrinsics on every state the HAL can produce = the reference kernels**: operands taken from
the lanes of any two compositions `e₁`, `e₂` (`DExpr`) — `Avx.Ntt.nttAdd_eq_ref` etc. need `x < 2·Q_SHIFTED`, `dexpr_range` provides it -/
theorem avx_lazy_on_reachable (k j : Nat) (hk : k < 4) (hj1 : 1 ≤ j) (hj : j ≤ 16) (e1 e2 : DExpr) (h1 : e1.WF j) (h2 : e2.WF j)
    (avx : Bool) (a b qs : W) (hqs : qs.toNat = qShifted (primes30.qs.getD k 1))
    (ha : a.toNat ∈ e1.lane primes30 k (2 ^ j) avx) (hb : b.toNat ∈ e2.lane primes30 k (2 ^ j) avx) :
    (nttAdd qs a b).toNat = addBbbK (primes30.qs.getD k 1) a.toNat b.toNat ∧
    (nttSub qs a b).toNat = subBbbK (primes30.qs.getD k 1) a.toNat b.toNat ∧
    (nttNegate qs a).toNat = negBK (primes30.qs.getD k 1) a.toNat := by
  have c := laneCtx_of primes30 primes30_nttGood k j hk hj1 hj
  have f := primes30_reachFacts k j hk hj1 hj
  have ra := dexpr_range primes30 k j c f e1 h1 avx _ ha
  have rb := dexpr_range primes30 k j c f e2 h2 avx _ hb
  have hq0 : 0 < primes30.qs.getD k 1 := by have := f.q_gt; omega
  exact ⟨nttAdd_eq_ref _ qs a b hqs hq0 f.q_lt ra rb, nttSub_eq_ref _ qs a b hqs hq0 f.q_lt ra rb, nttNegate_eq_ref _ qs a hqs hq0 f.q_lt ra⟩

/-- **`vec_znx_idft_apply`, AVX2 = reference, coefficient by coefficient, for EVERY DFT-domain content**: `intt_avx2` is the
reference lane (`Avx.Ntt.inttAvx_real`), its outputs are below `Q[k]·2^33` (`inttK_real_bound`, `primes30_transform_ranges`),
which is the range on which `b_to_znx128_avx2 = b_to_znx128_ref` (`Avx.Ntt.bToZnx128Avx_eq_ref`) -/
theorem avx_idft_coeff_eq_ref (j : Nat) (hj1 : 1 ≤ j) (hj : j ≤ 16) (t : Nat → TableK)
    (ht : ∀ k, k < 4 → inttTableK primes30 k (2 ^ j) = .ok (t k))
    (jj : Nat) (hjj : jj ≤ j) (cs : Nat → List (List W)) (hc : ∀ k, k < 4 → ∀ c ∈ cs k, c.length = 2 ^ jj)
    (hlen : ∀ k, k < 4 → (cs k).flatten.length = 2 ^ j) (i : Nat) (hi : i < 2 ^ j) (x : V4)
    (hx0 : x.l0 = (inttAvx (redCOf (t 0).reduc) ((t 0).levels.map levelCOf) jj (cs 0)).getD i 0#64)
    (hx1 : x.l1 = (inttAvx (redCOf (t 1).reduc) ((t 1).levels.map levelCOf) jj (cs 1)).getD i 0#64)
    (hx2 : x.l2 = (inttAvx (redCOf (t 2).reduc) ((t 2).levels.map levelCOf) jj (cs 2)).getD i 0#64)
    (hx3 : x.l3 = (inttAvx (redCOf (t 3).reduc) ((t 3).levels.map levelCOf) jj (cs 3)).getD i 0#64) :
    bToZnx128AvxCoef x qV muV p32V p16V crtV hiV midV loV (bigQ primes30)
      = bToZnx128Core primes30 ((inttK (t 0) (tn (cs 0).flatten)).getD i 0) ((inttK (t 1) (tn (cs 1).flatten)).getD i 0)
          ((inttK (t 2) (tn (cs 2).flatten)).getD i 0) ((inttK (t 3) (tn (cs 3).flatten)).getD i 0) := by
  have lane : ∀ k, k < 4 → ∀ (w : W), w = (inttAvx (redCOf (t k).reduc) ((t k).levels.map levelCOf) jj (cs k)).getD i 0#64 →
      w.toNat = (inttK (t k) (tn (cs k).flatten)).getD i 0 ∧ w.toNat < Q30 k * 2 ^ 33 := by
    intro k hk w hw
    have g := primes30_nttGood k hk
    obtain ⟨f1, f2, f3⟩ := reduc_fits primes30 (by simp) k hk
    have hf := inttTable_fits primes30 k (2 ^ j) (t k) (ht k hk) f1 f2 f3
    have e := inttAvx_real primes30 k j g.1 g.2 hj1 hj (t k) (ht k hk) hf jj hjj (cs k) (hc k hk) (hlen k hk)
    have hb := inttK_real_bound primes30 k j g.1 g.2 hj1 hj (t k) (ht k hk) (tn (cs k).flatten) (by rw [tn_length]; exact hlen k hk)
      (allLe_u64 _)
    have hlenK : (inttK (t k) (tn (cs k).flatten)).length = 2 ^ j := by
      obtain ⟨ok, hl⟩ := inttTableK_spec primes30 k j g.1 g.2 hj1 hj (t k) (ht k hk)
      have := (inttK_spec (t k) _ _ ok (tn (cs k).flatten) (by rw [hl, tn_length]; simpa using hlen k hk) (allLe_u64 _)).2
      rw [this, tn_length]; exact hlen k hk
    have hv : w.toNat = (inttK (t k) (tn (cs k).flatten)).getD i 0 := by
      rw [← e, hw]
      have hl2 : i < (inttAvx (redCOf (t k).reduc) ((t k).levels.map levelCOf) jj (cs k)).length := by
        have : (tn (inttAvx (redCOf (t k).reduc) ((t k).levels.map levelCOf) jj (cs k))).length = 2 ^ j := by rw [e]; exact hlenK
        rw [tn_length] at this; omega
      unfold tn
      rw [getD_map_lt _ _ i 0#64 0 hl2]
    refine ⟨hv, ?_⟩
    rw [hv]
    have := hb _ (getD_mem _ i 0 (by rw [hlenK]; exact hi))
    have r := (primes30_transform_ranges k hk j (by omega) hj1).2
    show _ < primes30.qs.getD k 1 * 2 ^ 33
    omega
  obtain ⟨v0, r0⟩ := lane 0 (by omega) x.l0 hx0
  obtain ⟨v1, r1⟩ := lane 1 (by omega) x.l1 hx1
  obtain ⟨v2, r2⟩ := lane 2 (by omega) x.l2 hx2
  obtain ⟨v3, r3⟩ := lane 3 (by omega) x.l3 hx3
  rw [bToZnx128Avx_eq_ref x r0 r1 r2 r3, v0, v1, v2, v3]

/-- `vec_znx_idft_apply_consume` (fused scalar CRT) agrees with `vec_znx_idft_apply` on the same range -/
theorem consume_eq_apply (x0 x1 x2 x3 : Nat) (h0 : x0 < primes30.q0 * 2 ^ 33) (h1 : x1 < primes30.q1 * 2 ^ 33)
    (h2 : x2 < primes30.q2 * 2 ^ 33) (h3 : x3 < primes30.q3 * 2 ^ 33) :
    compactCrt primes30 [x0, x1, x2, x3] = bToZnx128 primes30 [x0, x1, x2, x3] :=
  compactCrt_eq_bToZnx128 x0 x1 x2 x3 h0 h1 h2 h3

end Ntt120.AvxBridge
