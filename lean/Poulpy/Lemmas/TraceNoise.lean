import Poulpy.Lemmas.TraceExec
import Poulpy.Lemmas.CkksKsNumeric

/-!
# The noise hypothesis of the executed trace, discharged for `dsize = 1` keys; a closed instance with one executed level

`KsDec.TraceKeyOk` (Lemmas/TraceExec.lean) carries the field `hnoise`: a bound `BA`, uniform in the balanced input, on the noise the fused
automorphism-add of one trace level contributes (gadget error, dropped limbs, final normalisation).  For keys with one limb per gadget digit
(`dsize = 1`) the three terms are numeric (`Ckks.KsNum.gadgetBound_d1`, `dropBound_d1` of Lemmas/CkksKsNumeric.lean):

* `aDft_act_bound`, `gadgetBound_d1_range` — the gadget-noise bound `colsIn·rows·N·A·Emax` from `‖EL i r‖∞ ≤ Emax` for the key's rows and
  columns only (`i < colsIn`, `r < rows`);
* `traceBA` — the closed noise bound of one level; `TraceKeyD1` — what a level needs from a `dsize = 1` key (no `hnoise`);
  **`traceKeyOk_of_d1`** — `TraceKeyD1 → TraceKeyOk … (traceBA …)`;
* **`glwe_trace_loop_decrypts_d1`**, `glwe_trace_assign_decrypts_d1` — the end-to-end theorems with the closed numeric bound;
* a closed instance: `N = 2`, the level `0` (`g = −1`) executed with a real rank-1 key of two rows, radix `2^4`, on a ciphertext with
  non-zero digits — every hypothesis discharged by evaluation, the executed loop evaluated, the conclusion instantiated.
-/

namespace KsDec
open Hal Core Core.Ops C02L AutoMul TraceJump

/-! ### 1. the gadget noise of a `dsize = 1` key, from the bound on the key's own error lists -/

/-- the digits of the `a_dft` buffer are digits of the input -/
theorem aDft_act_bound {N : Nat} {a : Ks.Ct} (ha : GWF N a) {A : Int} (hA : ∀ c ∈ a.cols, ∀ l ∈ c, ∀ x ∈ l, |x| ≤ A) :
    ∀ i, ∀ l ∈ (aDftOf a).act i, ∀ x ∈ l, |x| ≤ A := by
  obtain ⟨hwf, dcols, _, _, dact, _⟩ := aDft_spec a ha
  intro i l hl x hx
  by_cases hi : i < a.rank
  · rw [dact i hi] at hl
    exact hA _ (col_mem _ (by rw [ha.len]; omega)) l hl x hx
  · exfalso
    have : (aDftOf a).act i = [] := by
      unfold Buf.act
      rw [List.getD_eq_getElem?_getD, List.getElem?_eq_none (by rw [hwf.1, dcols]; omega)]
      simp
    rw [this] at hl; cases hl

/-- `Ckks.KsNum.gadgetBound_d1` with the bound on the key's error lists required only for the key's rows and columns -/
theorem gadgetBound_d1_range (N b : Nat) (a : Buf) (key : Ks.Key) (hd : key.dsize = 1) (EL : ℕ → ℕ → Poly) (A Emax : Int) (hA : 0 ≤ A)
    (hlen : ∀ c l, (limbOr0 N (a.act c) l).length = N) (hb : ∀ i, ∀ l ∈ a.act i, ∀ x ∈ l, |x| ≤ A)
    (hE : ∀ i, i < key.mat.colsIn → ∀ r, r < key.mat.rows → normInf (EL i r) ≤ Emax) :
    gadgetBound N b a key EL ≤ key.mat.colsIn * (key.mat.rows * (N * A * Emax)) := by
  unfold gadgetBound
  have := Ckks.KsNum.sum_le_card_mul (Finset.range key.mat.colsIn)
    (fun i => ∑ r ∈ Finset.range key.mat.rows, Hal.norm1 (Ks.digitL N b a key i r) * Hal.normInf (EL i r)) (key.mat.rows * (N * A * Emax))
    (fun i hi => by
      have := Ckks.KsNum.sum_le_card_mul (Finset.range key.mat.rows)
        (fun r => Hal.norm1 (Ks.digitL N b a key i r) * Hal.normInf (EL i r)) (N * A * Emax)
        (fun r hr => by
          have h1 := Ckks.KsNum.digitL_norm1_d1 N b a key hd i r A hA hlen (hb i)
          have h2 := hE i (Finset.mem_range.mp hi) r (Finset.mem_range.mp hr)
          have h4 := Hal.normInf_nonneg (EL i r)
          calc Hal.norm1 (Ks.digitL N b a key i r) * Hal.normInf (EL i r) ≤ (N * A) * Emax := mul_le_mul h1 h2 h4 (by positivity)
            _ = _ := by ring)
      simpa using this)
  simpa using this

/-! ### 2. `TraceKeyOk` for `dsize = 1` keys -/

/-- **the closed noise bound of one trace level, `dsize = 1`** (`b`, `S`: radix and limb count of the running ciphertext, `Sk`, `cin`, `rows`:
limb count, input columns and rows of the key, `sn = 1 + ‖sk‖₁`, `Emax ≥ ‖EL i r‖∞`):
`2^(2bS)·cin·rows·N·2^(b−1)·Emax + 2^(bS)·sn·normTol(bS, b·Sk)`.
Divided by the scale `2^(bS + b·Sk)` of `glwe_trace_loop_decrypts` this is `cin·rows·N·2^(b−1)·Emax·2^(−b(Sk−S))` (the gadget noise, in units of
the key's last limb … of the result's last limb when `Sk = S`) plus at most `sn` units of the result's last limb (none when `Sk = S`). -/
def traceBA (N b S Sk cin rows : ℕ) (sn Emax : ℤ) : ℤ :=
  2 ^ (b * S + b * S) * (cin * (rows * (N * 2 ^ (b - 1) * Emax))) + 2 ^ (b * S) * (sn * C02.normTol (b * S) (b * Sk))

/-- what one trace level needs from a `dsize = 1` automorphism key: the fields of `TraceKeyOk` except the noise bound, `dsize = 1`, and the
bound `Emax` on the key's own error lists (rows and columns of the key only) -/
structure TraceKeyD1 (big128 : Bool) (N b S rk : Nat) (sk : List Poly) (key : Ks.Key) (gInv : Int) (EL KL : ℕ → ℕ → Poly)
    (Dm Emax : Int) : Prop where
  hd : key.dsize = 1
  hinv : ∀ s ∈ sk, σ key.p (σ gInv s) = s
  hrank : rk = key.rankIn
  hrout : rk = key.rankOut
  hc0 : 0 < key.mat.colsOut
  hM : ∀ j q, (key.mat.entry j q).length = N
  hS : key.mat.rows ≤ key.mat.size
  hbk : key.base2k = b
  hDm0 : 0 ≤ Dm
  hm : ∀ j q, normInf (key.mat.entry j q) ≤ Dm
  hAcc : prodBound 1 key.mat.colsIn key.mat.rows N (2 ^ (b - 1) + 2 ^ b) Dm + 2 * (2 ^ (b - 1) + 2 ^ b) + 8
    ≤ 2 ^ (bitsOf big128 - 2)
  hs : key.mat.colsIn ≤ sk.length
  hEL : ∀ i r, (EL i r).length = N
  hKL : ∀ i r, (KL i r).length = N
  hkey : ∀ i, i < key.mat.colsIn → ∀ r, r < key.mat.rows →
    Gadget.val (Ks.radix N key.base2k) key.mat.size (Ks.keyPhase N (sk.map (σ gInv)) key.mat i r) =
      Ks.ι N (sk.getD i []) * Ks.radix N key.base2k ^ (key.mat.size - (r + 1)) + Ks.ι N (EL i r)
        + Ks.radix N key.base2k ^ key.mat.size * Ks.ι N (KL i r)
  hcov1 : S ≤ key.mat.size
  hcov2 : S ≤ key.mat.rows
  hEmax : ∀ i, i < key.mat.colsIn → ∀ r, r < key.mat.rows → normInf (EL i r) ≤ Emax

/-- **`traceKeyOk_of_d1`** — the field `hnoise` of `TraceKeyOk` discharged for `dsize = 1` keys: the gadget noise is within
`colsIn·rows·N·2^(b−1)·Emax` (`gadgetBound_d1`: the input of the fused automorphism is the balanced output of `glwe_rsh`), nothing is dropped
(`dropBound_d1`). -/
theorem traceKeyOk_of_d1 {big128 : Bool} {N b S rk : Nat} {sk : List Poly} {key : Ks.Key} {gInv : Int} {EL KL : ℕ → ℕ → Poly}
    {Dm Emax : Int} (h : TraceKeyD1 big128 N b S rk sk key gInv EL KL Dm Emax) :
    TraceKeyOk big128 N b S rk sk key gInv EL KL Dm
      (traceBA N b S key.mat.size key.mat.colsIn key.mat.rows (1 + snorm (min rk sk.length) sk) Emax) := by
  have hd := h.hd
  refine ⟨h.hinv, h.hrank, h.hrout, h.hc0, by rw [hd], h.hM, by rw [hd, Nat.mul_one]; exact h.hS, h.hbk, h.hDm0, h.hm,
    by rw [hd]; exact h.hAcc, h.hs, h.hEL, h.hKL, ?_, h.hcov1, by rw [hd, Nat.mul_one]; exact h.hcov2, ?_⟩
  · intro i hi r hr
    rw [hd, Nat.mul_one]
    exact h.hkey i hi r hr
  · intro a ha _ _ _ hbd
    obtain ⟨_, _, _, _, _, dA⟩ := aDft_spec a ha
    have hG := gadgetBound_d1_range N b (aDftOf a) key hd EL (2 ^ (b - 1)) Emax (by positivity) dA (aDft_act_bound ha hbd) h.hEmax
    rw [Ckks.KsNum.dropBound_d1 N b _ _ key hd, mul_zero, add_zero]
    unfold traceBA
    have hp : (0 : ℤ) ≤ 2 ^ (b * S + b * S) := by positivity
    have := mul_le_mul_of_nonneg_left hG hp
    linarith

/-! ### 3. the end-to-end theorems with the closed numeric bound -/

theorem traceKeys_of_d1 {big128 : Bool} {N b S rk : Nat} {sk : List Poly} {keys : List Ks.Key} {Sk Rw : ℕ} {Emax : ℕ → ℤ}
    (hkeys : ∀ i p key, Ks.traceGalois N i = .ok p → key ∈ keys → key.p = p →
      key.mat.size = Sk ∧ key.mat.rows = Rw ∧ ∃ gInv EL KL Dm, TraceKeyD1 big128 N b S rk sk key gInv EL KL Dm (Emax i)) :
    ∀ i p key, Ks.traceGalois N i = .ok p → key ∈ keys → key.p = p →
      key.mat.size = Sk ∧ ∃ gInv EL KL Dm, TraceKeyOk big128 N b S rk sk key gInv EL KL Dm
        (traceBA N b S Sk rk Rw (1 + snorm (min rk sk.length) sk) (Emax i)) := by
  intro i p key hp hm hkp
  obtain ⟨h1, h2, gInv, EL, KL, Dm, hk⟩ := hkeys i p key hp hm hkp
  refine ⟨h1, gInv, EL, KL, Dm, ?_⟩
  have := traceKeyOk_of_d1 hk
  have e : key.mat.colsIn = rk := hk.hrank.symm
  rw [h1, h2, e] at this
  exact this

/-- **`glwe_trace_loop_decrypts_d1`** — `glwe_trace_loop_decrypts` for `dsize = 1` keys, with the closed numeric noise bound (no `hnoise`):
every key of the list carrying the Galois element of a level satisfies `TraceKeyD1` (shape, covered regime, derived head-room, key relation
with error lists bounded by `Emax i`), all with `Sk` limbs and `Rw` rows.  With `M = b·S`, `c = 2^(M + b·Sk)`, `sn = 1 + ‖sk‖₁`:
`(c·2^n) • φ(r) = c • traceOp [j, …, K−1] (φ(res)) + ι ErrL + (c·2^n·2^M) • z`,
`‖ErrL‖∞ ≤ 2^n · Σ_{i=j}^{K−1} (c·2·sn + 2^(2M)·rank·Rw·N·2^(b−1)·Emax i + 2^M·sn·normTol(M, b·Sk))`. -/
theorem glwe_trace_loop_decrypts_d1 (big128 : Bool) (K j n : ℕ) (hjn : j + n = K) (hK : K + 1 ≤ 64) (keys : List Ks.Key) (sk : List Poly)
    (res r : Ks.Ct) (Sk Rw : ℕ) (H : ℤ) (Emax : ℕ → ℤ)
    (hsk : Ks.AllLen (2 ^ K) sk) (hr : GWF (2 ^ K) res) (hh : NormL.HeadRoom 64 res.base2k 0 H) (hb62 : res.base2k ≤ 62)
    (hH : 2 ^ res.base2k - 1 ≤ H) (hbd : GBound H res)
    (hkeys : ∀ i p key, Ks.traceGalois (2 ^ K) i = .ok p → key ∈ keys → key.p = p →
      key.mat.size = Sk ∧ key.mat.rows = Rw ∧
        ∃ gInv EL KL Dm, TraceKeyD1 big128 (2 ^ K) res.base2k res.size res.rank sk key gInv EL KL Dm (Emax i))
    (hrun : Ks.traceLoop big128 keys res (List.range' j n) = .ok r) :
    GWF (2 ^ K) r ∧ r.base2k = res.base2k ∧ r.size = res.size ∧ r.rank = res.rank ∧ GBound H r ∧
    ∃ (ErrL : Poly) (z : Ks.R (2 ^ K)), ErrL.length = 2 ^ K ∧
      normInf ErrL ≤ 2 ^ n * ∑ t ∈ Finset.range n,
        (2 ^ (res.base2k * res.size + res.base2k * Sk) * (2 * (1 + snorm (min res.rank sk.length) sk))
          + traceBA (2 ^ K) res.base2k res.size Sk res.rank Rw (1 + snorm (min res.rank sk.length) sk) (Emax (j + t))) ∧
      (2 ^ (res.base2k * res.size + res.base2k * Sk) * 2 ^ n : ℤ) • Ks.ι (2 ^ K) (valP res.base2k (2 ^ K) (phase sk r))
        = (2 ^ (res.base2k * res.size + res.base2k * Sk) : ℤ) •
            traceOp (2 ^ K) (List.range' j n) (Ks.ι (2 ^ K) (valP res.base2k (2 ^ K) (phase sk res)))
          + Ks.ι (2 ^ K) ErrL
          + (2 ^ (res.base2k * res.size + res.base2k * Sk) * 2 ^ n * 2 ^ (res.base2k * res.size) : ℤ) • z :=
  glwe_trace_loop_decrypts big128 K j n hjn hK keys sk res r Sk H
    (fun i => traceBA (2 ^ K) res.base2k res.size Sk res.rank Rw (1 + snorm (min res.rank sk.length) sk) (Emax i))
    hsk hr hh hb62 hH hbd (traceKeys_of_d1 hkeys) hrun

/-- **`glwe_trace_assign_decrypts_d1`** — the executed `Ks.traceAssign` on a ciphertext already in the key radix, `dsize = 1` keys, closed
numeric noise bound -/
theorem glwe_trace_assign_decrypts_d1 (big128 : Bool) (K skip : ℕ) (hK : K + 1 ≤ 64) (keys : List Ks.Key) (sk : List Poly)
    (res r : Ks.Ct) (Sk Rw : ℕ) (H : ℤ) (Emax : ℕ → ℤ)
    (hsk : Ks.AllLen (2 ^ K) sk) (hr : GWF (2 ^ K) res) (hh : NormL.HeadRoom 64 res.base2k 0 H) (hb62 : res.base2k ≤ 62)
    (hH : 2 ^ res.base2k - 1 ≤ H) (hbd : GBound H res)
    (hkeys : ∀ i p key, Ks.traceGalois (2 ^ K) i = .ok p → key ∈ keys → key.p = p →
      key.mat.size = Sk ∧ key.mat.rows = Rw ∧
        ∃ gInv EL KL Dm, TraceKeyD1 big128 (2 ^ K) res.base2k res.size res.rank sk key gInv EL KL Dm (Emax i))
    (hrun : Ks.traceAssign big128 res.base2k keys skip res = .ok r) :
    skip ≤ K ∧ GWF (2 ^ K) r ∧ r.base2k = res.base2k ∧ r.size = res.size ∧ r.rank = res.rank ∧ GBound H r ∧
    ∃ (ErrL : Poly) (z : Ks.R (2 ^ K)), ErrL.length = 2 ^ K ∧
      normInf ErrL ≤ 2 ^ (K - skip) * ∑ t ∈ Finset.range (K - skip),
        (2 ^ (res.base2k * res.size + res.base2k * Sk) * (2 * (1 + snorm (min res.rank sk.length) sk))
          + traceBA (2 ^ K) res.base2k res.size Sk res.rank Rw (1 + snorm (min res.rank sk.length) sk) (Emax (skip + t))) ∧
      (2 ^ (res.base2k * res.size + res.base2k * Sk) * 2 ^ (K - skip) : ℤ) • Ks.ι (2 ^ K) (valP res.base2k (2 ^ K) (phase sk r))
        = (2 ^ (res.base2k * res.size + res.base2k * Sk) : ℤ) •
            traceOp (2 ^ K) ((List.range (K - skip)).map (fun t => skip + t)) (Ks.ι (2 ^ K) (valP res.base2k (2 ^ K) (phase sk res)))
          + Ks.ι (2 ^ K) ErrL
          + (2 ^ (res.base2k * res.size + res.base2k * Sk) * 2 ^ (K - skip) * 2 ^ (res.base2k * res.size) : ℤ) • z :=
  glwe_trace_assign_decrypts big128 K skip hK keys sk res r Sk H
    (fun i => traceBA (2 ^ K) res.base2k res.size Sk res.rank Rw (1 + snorm (min res.rank sk.length) sk) (Emax i))
    hsk hr hh hb62 hH hbd (traceKeys_of_d1 hkeys) hrun

/-! ### 4. a closed instance: `N = 2`, the level `0` (`g = −1`) executed with a real key -/

/-- the secret `1 + X` (`N = 2`) -/
def trSk : List Poly := [[1, 1]]

/-- a rank-1 → rank-1 automorphism key for `g = −1` on `N = 2` (`σ_{−1}(1+X) = 1−X`), `dsize = 1`, radix `2^4`, two rows of two limbs:
row `r` is a gadget encryption under `1−X` of `(1+X)·2^(4·(1−r))`, masks `(1, X)` and `(X, 1+X)`, errors `1` and `−X` in the last limb -/
def trKey : Ks.Key := ⟨4, 1, -1, ⟨2, 2, 1, 2, 2,
  [[[[0, 2], [0, -1]], [[1, 0], [0, 1]]], [[[-1, -1], [-1, 0]], [[0, 1], [1, 1]]]]⟩⟩

/-- the key's error lists, *defined* by the key equation (`Ks.keyErrL_spec`) -/
def trEL : ℕ → ℕ → Poly := Ks.keyErrL 2 4 (trSk.map (σ (-1))) trKey (fun _ => [1, 1])

/-- the input: rank 1, two limbs, radix `2^4`; its phase under `1+X` is `44 + 34·X` (scale `2^8`) -/
def trCt : Ks.Ct := Ks.mkCt 4 2 [[[2, 1], [3, -1]], [[1, 0], [-2, 5]]]

/-- the output of the executed level -/
def trOut : Ks.Ct := Ks.mkCt 4 2 [[[-2, -6], [-3, 3]], [[-2, -7], [-5, -7]]]

example : Ks.traceGalois 2 0 = .ok (-1) := rfl
example : trEL 0 0 = [1, 0] ∧ trEL 0 1 = [0, -1] := by decide +kernel

/-- the executed loop (one level), both accumulator widths -/
theorem trRun (big128 : Bool) : Ks.traceLoop big128 [trKey] trCt (List.range' 0 1) = .ok trOut := by
  cases big128 <;> decide +kernel

theorem trKey_rel (i : Nat) (hi : i < trKey.mat.colsIn) (r : Nat) :
    Gadget.val (Ks.radix 2 trKey.base2k) trKey.mat.size (Ks.keyPhase 2 (trSk.map (σ (-1))) trKey.mat i r) =
      Ks.ι 2 (trSk.getD i []) * Ks.radix 2 trKey.base2k ^ (trKey.mat.size - (r + 1)) + Ks.ι 2 (trEL i r)
        + Ks.radix 2 trKey.base2k ^ trKey.mat.size * Ks.ι 2 ([0, 0] : Poly) := by
  have hM := Ks.entry_length trKey.mat 2 rfl (by decide)
  have hz : Ks.ι 2 [0, 0] = 0 := Ks.ι_zero 2 2
  have hi0 : i = 0 := by have : i < 1 := hi; omega
  subst hi0
  have h := Ks.keyErrL_spec 2 4 (trSk.map (σ (-1))) trKey (fun _ => [1, 1]) 0 r (by decide) hM (fun _ => rfl)
  rw [hz, mul_zero, add_zero]
  rw [show trKey.dsize = 1 from rfl, Nat.mul_one] at h
  exact h

/-- the key satisfies `TraceKeyD1` (key digits `≤ 2`, `‖EL‖∞ ≤ 1`), both accumulator widths: every field by evaluation -/
theorem trKey_d1 (big128 : Bool) : TraceKeyD1 big128 (2 ^ 1) 4 2 1 trSk trKey (-1) trEL (fun _ _ => [0, 0]) 2 1 where
  hd := rfl
  hinv := by intro s hs; simp [trSk] at hs; subst hs; decide
  hrank := rfl
  hrout := rfl
  hc0 := by decide
  hM := Ks.entry_length trKey.mat 2 rfl (by decide)
  hS := by decide
  hbk := rfl
  hDm0 := by norm_num
  hm := entry_normInf trKey.mat 2 (by norm_num) (by decide)
  hAcc := by cases big128 <;> decide
  hs := by decide
  hEL := fun i r => Ks.keyErrL_length 2 4 _ trKey _ i r (by decide) (Ks.entry_length trKey.mat 2 rfl (by decide)) (fun _ => rfl)
  hKL := fun _ _ => rfl
  hkey := fun i hi r _ => trKey_rel i hi r
  hcov1 := by decide
  hcov2 := by decide
  hEmax := by
    intro i hi r hr
    have hi0 : i = 0 := by have : i < 1 := hi; omega
    have hr0 : r = 0 ∨ r = 1 := by have : r < 2 := hr; omega
    subst hi0
    rcases hr0 with rfl | rfl <;> decide +kernel

/-- **closed instance of `glwe_trace_loop_decrypts_d1`**: `N = 2^1`, the single level `0` (`g = −1`), the key `trKey`, the input `trCt`
(phase `44 + 34·X` at scale `2^8`), both accumulator widths.  The executed loop returns `trOut` (phase `47 − 249·X ≡ 47 + 7·X`) and, with
`c = 2^(8+8)`: `(c·2) • (47 − 249·X) = c • (1 + σ_{−1})(44 + 34·X) + ι ErrL + (c·2·2^8) • z`, `‖ErrL‖∞ ≤ 2·c·(2·3 + 32)`:
one rounding unit `2·(1+‖sk‖₁) = 6` of `glwe_rsh` and the gadget noise `rank·rows·N·2^(b−1)·Emax = 32`.
(Indeed `(1+σ_{−1})(44+34X)/2 = 44`, and `47 + 7X − 44 = 3 + 7X`.) -/
theorem trace_closed_instance (big128 : Bool) :
    Ks.traceLoop big128 [trKey] trCt (List.range' 0 1) = .ok trOut ∧
    ∃ (ErrL : Poly) (z : Ks.R (2 ^ 1)), ErrL.length = 2 ^ 1 ∧ normInf ErrL ≤ 2 * (2 ^ 16 * (6 + 32)) ∧
      (2 ^ 16 * 2 ^ 1 : ℤ) • Ks.ι (2 ^ 1) [47, -249]
        = (2 ^ 16 : ℤ) • traceOp (2 ^ 1) [0] (Ks.ι (2 ^ 1) [44, 34]) + Ks.ι (2 ^ 1) ErrL + (2 ^ 16 * 2 ^ 1 * 2 ^ 8 : ℤ) • z := by
  refine ⟨trRun big128, ?_⟩
  obtain ⟨_, _, _, _, _, ErrL, z, h1, h2, h3⟩ := glwe_trace_loop_decrypts_d1 big128 1 0 1 rfl (by norm_num) [trKey] trSk trCt trOut 2 2
    (2 ^ 62) (fun _ => 1) (by intro p hp; simp [trSk] at hp; subst hp; rfl) (by decide) C02.hr4 (by decide)
    (by show (2 : ℤ) ^ 4 - 1 ≤ 2 ^ 62; norm_num)
    (by intro c hc l hl x hx; revert x l c; decide)
    (by
      intro i p key _ hm _
      obtain rfl : key = trKey := by simpa using hm
      exact ⟨rfl, rfl, -1, trEL, fun _ _ => [0, 0], 2, trKey_d1 big128⟩)
    (trRun big128)
  have e1 : valP 4 (2 ^ 1) (phase trSk trCt) = [44, 34] := by decide +kernel
  have e2 : valP 4 (2 ^ 1) (phase trSk trOut) = [47, -249] := by decide +kernel
  have e3 : snorm (min trCt.rank trSk.length) trSk = 2 := by decide +kernel
  have e4 : traceBA (2 ^ 1) 4 2 2 1 2 (1 + 2) 1 = 2 ^ 16 * 32 := by
    unfold traceBA C02.normTol; norm_num
  have e5 : trCt.base2k = 4 := rfl
  have e6 : trCt.size = 2 := rfl
  have e7 : trCt.rank = 1 := rfl
  rw [e3] at h2
  rw [e5, e6] at h2 h3
  rw [e7] at h2
  rw [e1, e2] at h3
  refine ⟨ErrL, z, h1, ?_, h3⟩
  rw [e4] at h2
  simp only [Finset.sum_range_one] at h2
  norm_num at h2 ⊢
  exact h2

end KsDec
