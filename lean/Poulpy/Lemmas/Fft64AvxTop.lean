import Poulpy.Lemmas.Fft64AvxConv
import Poulpy.Lemmas.Fft64Vmp

open Complex

namespace Fft64Avx
open F64 Fft64 NttMath

/-! ## the AVX transforms satisfy the reference error bounds -/

theorem fwdAvx_close (K : Nat) (omg : Array Nat) (τ : ℝ) (hτ0 : 0 ≤ τ) (hτ1 : τ ≤ 1) (A E : ℝ) (zc : List C64) (z : List ℂ)
    (hA : 1 ≤ A) (hE : 0 ≤ E) (hlen : zc.length = 2 ^ K) (hc : Close E A zc z)
    (hacc : AccF τ (twOf (fwdIdx K) omg) K 0 0 (1 / 4))
    (hbig : 2 ^ K * (1 + γf τ / 2) ^ K * (A + E) ≤ (2:ℝ) ^ (999:Int)) :
    Close (errB (γf τ) K A E) (2 ^ K * A) (fwdAvx K omg zc) (fwdE K (1 / 4) z) ∧ (fwdAvx K omg zc).length = 2 ^ K := by
  unfold fwdAvx
  split
  · exact ⟨fwd_err τ hτ0 hτ1 _ K 0 0 (1 / 4) A E zc z hA hE hlen hc hacc hbig, fwd_length _ _ _ _ _ hlen⟩
  · exact ⟨fwdG_err bflyFwdAvx fwdSpec_avx τ hτ0 hτ1 _ K 0 0 (1 / 4) A E zc z hA hE hlen hc hacc hbig, fwdG_length _ _ _ _ _ _ hlen⟩

theorem invAvx_close (K : Nat) (iomg : Array Nat) (τ : ℝ) (hτ0 : 0 ≤ τ) (hτ1 : τ ≤ 1) (A E : ℝ) (zc : List C64) (z : List ℂ)
    (hA : 1 ≤ A) (hE : 0 ≤ E) (hlen : zc.length = 2 ^ K) (hc : Close E A zc z)
    (hacc : AccI τ (twOf (invIdx K) iomg) K 0 0 (1 / 4))
    (hbig : 2 ^ K * (1 + γi τ / 2) ^ K * (A + E) ≤ (2:ℝ) ^ (997:Int)) :
    Close (errB (γi τ) K A E) (2 ^ K * A) (invAvx K iomg zc) (invE K (1 / 4) z) := by
  unfold invAvx
  split
  · exact inv_err τ hτ0 hτ1 _ K 0 0 (1 / 4) A E zc z hA hE hlen hc hacc hbig
  · exact invG_err bflyInvAvx invSpec_avx τ hτ0 hτ1 _ K 0 0 (1 / 4) A E zc z hA hE hlen hc hacc hbig

/-- `reim_from_znx` + `fft_avx2_fma` of a limb inside the asserted input range -/
theorem dftAvx_close (K : Nat) (omg : Array Nat) (τ M : ℝ) (a : List Int) (hτ0 : 0 ≤ τ) (hτ1 : τ ≤ 1) (hM : 1 ≤ M)
    (hacc : AccF τ (twOf (fwdIdx K) omg) K 0 0 (1 / 4)) (ha : a.length = 2 ^ (K + 1))
    (haM : ∀ c ∈ a, c.natAbs ≤ 2 ^ 50 - 1 ∧ |(c:ℝ)| ≤ M)
    (hr : 2 ^ K * (1 + γf τ / 2) ^ K * (A0 M + 0) ≤ (2:ℝ) ^ (999:Int)) :
    ∃ fc, dftOfAvx K omg a = .ok fc ∧ fc.length = 2 ^ K ∧
      Close (EF K τ M) (AF K M) fc (fwdE K (1 / 4) (packC (2 ^ K) (a.map cc))) := by
  obtain ⟨h1, h2⟩ := take_drop_len a K ha
  have hfrom := fromZnxAvx_eq a (fun x hx => (haM x hx).1)
  have hz : halves K (fromZnx a) = ((a.take (2 ^ K)).map ofInt).zip ((a.drop (2 ^ K)).map ofInt) := by
    unfold halves fromZnx; rw [List.map_take, List.map_drop]
  have hpk : packC (2 ^ K) (a.map cc) =
      List.zipWith (fun x y => x + I * y) ((a.take (2 ^ K)).map cc) ((a.drop (2 ^ K)).map cc) := by
    unfold packC; rw [List.map_take, List.map_drop]
  have c0 := close_from M (a.take (2 ^ K)) (a.drop (2 ^ K)) (by rw [h1, h2])
    (fun x hx => ⟨by have := (haM x (List.mem_of_mem_take hx)).1; omega, (haM x (List.mem_of_mem_take hx)).2⟩)
    (fun x hx => ⟨by have := (haM x (List.mem_of_mem_drop hx)).1; omega, (haM x (List.mem_of_mem_drop hx)).2⟩)
  have hlen : (((a.take (2 ^ K)).map ofInt).zip ((a.drop (2 ^ K)).map ofInt)).length = 2 ^ K := by
    rw [List.length_zip, List.length_map, List.length_map, h1, h2, min_self]
  have hA0 : 1 ≤ A0 M := by unfold A0; linarith
  obtain ⟨cl, ln⟩ := fwdAvx_close K omg τ hτ0 hτ1 (A0 M) 0 _ _ hA0 le_rfl hlen c0 hacc hr
  refine ⟨fwdAvx K omg (halves K (fromZnx a)), ?_, ?_, ?_⟩
  · unfold dftOfAvx; rw [hfrom]
  · rw [hz]; exact ln
  · rw [hz, hpk]; exact cl


/-- slot-wise product of FFT64Avx (`reim_mul_assign_avx2_fma`, reference fallback for `m % 4 ≠ 0`): the bound of
`Fft64.close_mul` -/
theorem close_mul_avx (K : Nat) (Ea Aa Eb Ab : ℝ) (hAa : 1 ≤ Aa) (hAb : 1 ≤ Ab) (hEa : 0 ≤ Ea) (hEb : 0 ≤ Eb)
    (hbig : (Aa + Ea) * (Ab + Eb) ≤ (2:ℝ) ^ (1000:Int)) :
    ∀ {xc yc : List C64} {x y : List ℂ}, Close Ea Aa xc x → Close Eb Ab yc y →
    Close (epOf Ea Aa Eb Ab) (Aa * Ab) (List.zipWith (cmulAvx K) xc yc) (List.zipWith (· * ·) x y) := by
  intro xc yc x y h1 h2
  by_cases hK : K < 2
  · have : cmulAvx K = cmul := by funext a b; unfold cmulAvx; rw [if_pos hK]
    rw [this]; exact close_mul Ea Aa Eb Ab hAa hAb hEa hEb hbig h1 h2
  · have : cmulAvx K = cmulLaneAvx := by funext a b; unfold cmulAvx; rw [if_neg hK]
    rw [this]
    refine forall₂_zipWith₂ cmulLaneAvx (· * ·) ?_ h1 h2
    intro a x b y ⟨fa, ea, na⟩ ⟨fb, eb, nb⟩
    have ma : ‖cval a‖ ≤ Aa + Ea := by have := norm_le_insert' (cval a) x; linarith
    have mb : ‖cval b‖ ≤ Ab + Eb := by have := norm_le_insert' (cval b) y; linarith
    have hP1 : (2:ℝ) ^ (-1022:Int) ≤ (Aa + Ea) * (Ab + Eb) := by
      have : (2:ℝ) ^ (-1022:Int) ≤ 1 := zpow_le_one_of_nonpos₀ (by norm_num) (by norm_num)
      nlinarith
    obtain ⟨fc, hp⟩ := prodM_avx a b fa fb _ _ ma mb hP1 hbig
    refine ⟨fc, ?_, ?_⟩
    · show ‖cval (cmulLaneAvx a b) - x * y‖ ≤ epOf Ea Aa Eb Ab
      have e : cval (cmulLaneAvx a b) - x * y = (cval (cmulLaneAvx a b) - cval a * cval b) + cval a * (cval b - y) + (cval a - x) * y := by ring
      rw [e]; unfold epOf
      refine le_trans norm_add₃_le ?_
      rw [Complex.norm_mul, Complex.norm_mul]
      have t1 : ‖cval a‖ * ‖cval b - y‖ ≤ (Aa + Ea) * Eb := mul_le_mul ma eb (norm_nonneg _) (by linarith)
      have t2 : ‖cval a - x‖ * ‖y‖ ≤ Ea * Ab := mul_le_mul ea nb (norm_nonneg _) hEa
      linarith
    · show ‖x * y‖ ≤ Aa * Ab
      rw [Complex.norm_mul]; exact mul_le_mul na nb (norm_nonneg _) (by linarith)

/-- output conversion of one slot through the AVX lane -/
theorem to_slot_avx (K : Nat) (hK : K ≤ 900) (E A : ℝ) (hE : 0 ≤ E)
    (hA62 : A / 2 ^ K ≤ (2:ℝ) ^ (62:Nat))
    (hmain : E / 2 ^ K + u * (A / 2 ^ K + 1) < 1 / 2)
    (w : C64) (x y : Int) (hw : CFin w) (hc : ‖cval w - (2:ℂ) ^ K * (cc x + I * cc y)‖ ≤ E)
    (hn : ‖(2:ℂ) ^ K * (cc x + I * cc y)‖ ≤ A) : toLaneAvx K w.1 = x ∧ toLaneAvx K w.2 = y := by
  set s : ℝ := 2 ^ K with hs
  have hs0 : 0 < s := by positivity
  have hX : (2:ℂ) ^ K * (cc x + I * cc y) = ⟨s * x, s * y⟩ := by
    have : ((2:ℂ) ^ K) = ((s : ℝ) : ℂ) := by rw [hs]; push_cast; ring
    apply Complex.ext <;> (rw [this]; simp [cc])
  rw [hX] at hc hn
  have hu := u_pos
  have comp : ∀ (v : Nat) (z : Int), Fin64 v → |val v - s * z| ≤ E → |s * (z:ℝ)| ≤ A → toLaneAvx K v = z := by
    intro v z fv e1 e2
    have hz : |(z:ℝ)| ≤ A / s := by
      rw [le_div_iff₀ hs0, mul_comm, ← abs_of_pos hs0, ← abs_mul]; simpa [abs_of_pos hs0] using e2
    have hd : |val v / s - (z:ℝ)| ≤ E / s := by
      have : val v / s - (z:ℝ) = (val v - s * z) / s := by field_simp
      rw [this, abs_div, abs_of_pos hs0]; exact div_le_div_of_nonneg_right e1 hs0.le
    have hz62 : |z| ≤ 2 ^ 62 := by
      have : |(z:ℝ)| ≤ (2:ℝ) ^ (62:Nat) := le_trans hz hA62
      have h2 : ((|z| : Int) : ℝ) ≤ (2:ℝ) ^ (62:Nat) := by rw [Int.cast_abs]; exact this
      exact_mod_cast h2
    apply toLaneAvx_spec K hK v fv z hz62 (E / s) hd
    have : u * (|(z:ℝ)| + 1) ≤ u * (A / s + 1) := mul_le_mul_of_nonneg_left (by linarith) hu.le
    linarith
  have hre := le_trans (abs_re_le_norm _) hc
  have him := le_trans (abs_im_le_norm _) hc
  have nre := le_trans (abs_re_le_norm _) hn
  have nim := le_trans (abs_im_le_norm _) hn
  simp only [Complex.sub_re, Complex.sub_im, cval_re, cval_im] at hre him nre nim
  exact ⟨comp w.1 x hw.1 hre nre, comp w.2 y hw.2 him nim⟩

theorem close_to_avx (K : Nat) (hK : K ≤ 900) (E A : ℝ) (hE : 0 ≤ E)
    (hA62 : A / 2 ^ K ≤ (2:ℝ) ^ (62:Nat)) (hmain : E / 2 ^ K + u * (A / 2 ^ K + 1) < 1 / 2) :
    ∀ (l1 l2 : List Int) (W : List C64), l1.length = l2.length →
      Close E A W (List.zipWith (fun x y => (2:ℂ) ^ K * (cc x + I * cc y)) l1 l2) →
      W.map (fun w => toLaneAvx K w.1) = l1 ∧ W.map (fun w => toLaneAvx K w.2) = l2 := by
  intro l1
  induction l1 with
  | nil => intro l2 W hl h; cases l2 <;> simp_all [Close]
  | cons x xs ih =>
    intro l2 W hl h
    cases l2 with
    | nil => simp at hl
    | cons y ys =>
      simp only [List.zipWith_cons_cons] at h
      cases h with
      | cons hw ht =>
        obtain ⟨e1, e2⟩ := to_slot_avx K hK E A hE hA62 hmain _ x y hw.1 hw.2.1 hw.2.2
        obtain ⟨i1, i2⟩ := ih ys _ (by simpa using hl) ht
        simp [e1, e2, i1, i2]

/-- `reim_to_znx_i64_assign_bnd63_avx2_fma` on a whole limb: vector lanes for `n ≥ 4`, the scalar reference for `n = 2` -/
theorem toZnxAvx_spec (K : Nat) (hK : K ≤ 900) (E A : ℝ) (hE : 0 ≤ E) (hA0 : 0 ≤ A)
    (hA62 : A / 2 ^ K ≤ (2:ℝ) ^ (62:Nat))
    (hmain : E / 2 ^ K * (1 + u) + u * (A / 2 ^ K + 1) + η < 1 / 2)
    (c : List Int) (hc : c.length = 2 ^ (K + 1)) (W : List C64)
    (hW : Close E A W (List.zipWith (fun x y => (2:ℂ) ^ K * (cc x + I * cc y)) (c.take (2 ^ K)) (c.drop (2 ^ K)))) :
    toZnxAvx K (flat W) = c := by
  obtain ⟨h1, h2⟩ := take_drop_len c K hc
  have hu := u_pos
  have hη := η_pos
  have hs0 : (0:ℝ) < 2 ^ K := by positivity
  have hAs : 0 ≤ A / 2 ^ K := by positivity
  have hEs : 0 ≤ E / 2 ^ K := by positivity
  have hEu : 0 ≤ E / 2 ^ K * u := by positivity
  have hWlen : W.length = 2 ^ K := by
    rw [close_len hW]; simp [h1, h2]
  have hflen : (flat W).length = 2 * 2 ^ K := by unfold flat; simp [hWlen]; ring
  unfold toZnxAvx
  by_cases hK0 : K = 0
  · subst hK0
    have hsp : (flat W).length / 4 * 4 = 0 := by rw [hflen]; norm_num
    rw [hsp]; simp only [List.take_zero, List.map_nil, List.drop_zero, List.nil_append]
    obtain ⟨r1, r2⟩ := close_to 0 (by norm_num) E A hE hA62 (by nlinarith) _ _ _ (by rw [h1, h2]) hW
    unfold flat
    rw [List.map_append, List.map_map, List.map_map]
    have e1 : (toI64 0 ∘ Prod.fst) = fun w : C64 => toI64 0 w.1 := rfl
    have e2 : (toI64 0 ∘ Prod.snd) = fun w : C64 => toI64 0 w.2 := rfl
    rw [e1, e2, r1, r2, List.take_append_drop]
  · obtain ⟨j, hj⟩ : ∃ j, K = j + 1 := ⟨K - 1, by omega⟩
    have hsp : (flat W).length / 4 * 4 = (flat W).length := by
      rw [hflen, hj, pow_succ]; omega
    rw [hsp]; simp only [List.take_length, List.drop_length, List.map_nil, List.append_nil]
    obtain ⟨r1, r2⟩ := close_to_avx K hK E A hE hA62 (by nlinarith) _ _ _ (by rw [h1, h2]) hW
    unfold flat
    rw [List.map_append, List.map_map, List.map_map]
    have e1 : (toLaneAvx K ∘ Prod.fst) = fun w : C64 => toLaneAvx K w.1 := rfl
    have e2 : (toLaneAvx K ∘ Prod.snd) = fun w : C64 => toLaneAvx K w.2 := rfl
    rw [e1, e2, r1, r2, List.take_append_drop]


/-- the magnitude domain shared by FFT64Ref and FFT64Avx: `SvpDomain` plus the (tiny) extra term the AVX output
conversion needs (`u·1`: the rounding of `a ± m/2`) -/
structure SvpDomainX (K : Nat) (τ Ma Mb : ℝ) : Prop where
  base : SvpDomain K τ Ma Mb
  K900 : K ≤ 900
  mainX : EI K τ Ma Mb / 2 ^ K * (1 + u) + u * (AP K Ma Mb + 1) + η < 1 / 2

/-- **`fft64avx_pipeline_exact`** over the model of `Module<FFT64Avx>` -/
theorem svpAvx_pipeline_exact (K : Nat) (omg iomg : Array Nat) (τ Ma Mb : ℝ) (p x : List Int)
    (hacc : TableAccurate τ K omg iomg)
    (hp : p.length = 2 ^ (K + 1)) (hx : x.length = 2 ^ (K + 1))
    (hpM : ∀ c ∈ p, c.natAbs ≤ 2 ^ 50 - 1 ∧ |(c:ℝ)| ≤ Ma) (hxM : ∀ c ∈ x, c.natAbs ≤ 2 ^ 50 - 1 ∧ |(c:ℝ)| ≤ Mb)
    (hdomX : SvpDomainX K τ Ma Mb) : svpPipelineAvx K omg iomg p x = .ok (Hal.negMul p x) := by
  have hdom := hdomX.base
  have a1 := accF_of_flat τ _ K hacc.1 K 0 0 (by omega) (by norm_num)
  have a2 := accI_of_flat τ _ K hacc.2 K 0 0 (by omega) (by norm_num)
  rw [jval_zero] at a1 a2
  obtain ⟨fp, ep, lp, cp⟩ := dftAvx_close K omg τ Ma p hdom.τ0 hdom.τ1 hdom.Ma1 a1 hp hpM hdom.ra
  obtain ⟨fx, ex, lx, cx⟩ := dftAvx_close K omg τ Mb x hdom.τ0 hdom.τ1 hdom.Mb1 a1 hx hxM hdom.rb
  have hγ := γf_nonneg τ hdom.τ0
  have hAFa : 1 ≤ AF K Ma := by
    unfold AF A0; have : (1:ℝ) ≤ 2 ^ K := one_le_pow₀ (by norm_num); have := hdom.Ma1; nlinarith
  have hAFb : 1 ≤ AF K Mb := by
    unfold AF A0; have : (1:ℝ) ≤ 2 ^ K := one_le_pow₀ (by norm_num); have := hdom.Mb1; nlinarith
  have hEFa : 0 ≤ EF K τ Ma := errB_nonneg _ hγ _ _ _ (by unfold A0; have := hdom.Ma1; linarith) le_rfl
  have hEFb : 0 ≤ EF K τ Mb := errB_nonneg _ hγ _ _ _ (by unfold A0; have := hdom.Mb1; linarith) le_rfl
  have cm := close_mul_avx K (EF K τ Ma) (AF K Ma) (EF K τ Mb) (AF K Mb) hAFa hAFb hEFa hEFb hdom.rp cp cx
  have hEPeq : epOf (EF K τ Ma) (AF K Ma) (EF K τ Mb) (AF K Mb) = EP K τ Ma Mb := rfl
  have hAPeq : AF K Ma * AF K Mb = AP K Ma Mb := rfl
  rw [hEPeq, hAPeq] at cm
  have hAP : 1 ≤ AP K Ma Mb := by unfold AP; nlinarith
  have hEP : 0 ≤ EP K τ Ma Mb := by
    unfold EP; have := κ_nonneg
    have h1 : 0 ≤ AF K Ma + EF K τ Ma := by linarith
    have h2 : 0 ≤ AF K Mb + EF K τ Mb := by linarith
    have h3 : 0 ≤ AF K Mb := by linarith
    positivity
  have lm : (List.zipWith (cmulAvx K) fp fx).length = 2 ^ K := by simp [lp, lx]
  have ci := invAvx_close K iomg τ hdom.τ0 hdom.τ1 (AP K Ma Mb) (EP K τ Ma Mb) _ _ hAP hEP lm cm a2 hdom.ri
  rw [exact_pipeline K p x hp hx] at ci
  set c := Hal.negMul p x with hc
  have lc : c.length = 2 ^ (K + 1) := by rw [hc, Hal.negMul_length]; exact hx
  have hX : (packC (2 ^ K) (c.map cc)).map ((2:ℂ) ^ K * ·) =
      List.zipWith (fun x y => (2:ℂ) ^ K * (cc x + I * cc y)) (c.take (2 ^ K)) (c.drop (2 ^ K)) := by
    unfold packC
    rw [← List.map_take, ← List.map_drop, List.map_zipWith, List.zipWith_map]
  rw [hX] at ci
  have hEI : 0 ≤ EI K τ Ma Mb := errB_nonneg _ (γi_nonneg τ hdom.τ0) _ _ _ (by linarith) hEP
  have hdiv : 2 ^ K * AP K Ma Mb / 2 ^ K = AP K Ma Mb := by field_simp
  have := toZnxAvx_spec K hdomX.K900 (EI K τ Ma Mb) (2 ^ K * AP K Ma Mb) hEI (by positivity)
    (by rw [hdiv]; exact hdom.r62) (by rw [hdiv]; exact hdomX.mainX) c lc _ ci
  unfold svpPipelineAvx
  rw [ep, ex]; simp only
  unfold idftOfAvx
  rw [this]

/-- **`fft64_ref_avx_agree_inside_domain`**: inside the common domain the two back ends return the same integers
(the exact negacyclic product), although their `f64` intermediate values differ -/
theorem svp_ref_avx_agree (K : Nat) (omg iomg : Array Nat) (τ Ma Mb : ℝ) (p x : List Int)
    (hacc : TableAccurate τ K omg iomg)
    (hp : p.length = 2 ^ (K + 1)) (hx : x.length = 2 ^ (K + 1))
    (hpM : ∀ c ∈ p, c.natAbs ≤ 2 ^ 50 - 1 ∧ |(c:ℝ)| ≤ Ma) (hxM : ∀ c ∈ x, c.natAbs ≤ 2 ^ 50 - 1 ∧ |(c:ℝ)| ≤ Mb)
    (hdomX : SvpDomainX K τ Ma Mb) :
    svpPipelineAvx K omg iomg p x = .ok (svpPipeline K omg iomg p x) := by
  rw [svpAvx_pipeline_exact K omg iomg τ Ma Mb p x hacc hp hx hpM hxM hdomX,
    svp_pipeline_exact' K omg iomg τ Ma Mb p x hacc hp hx
      (fun c hc => ⟨by have := (hpM c hc).1; omega, (hpM c hc).2⟩)
      (fun c hc => ⟨by have := (hxM c hc).1; omega, (hxM c hc).2⟩) hdomX.base]

end Fft64Avx
