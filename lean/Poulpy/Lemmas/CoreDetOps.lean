import Poulpy.Lemmas.CoreDet

/-! Determinacy of the overwriting `Core.Ops` operations in the previous content of `res`. -/

namespace C11Core
open Core Core.Ops

theorem rank_succ_ge (g : GLWE) : g.cols.length ≤ g.rank + 1 := by unfold GLWE.rank; omega

theorem glweAddInto_det (N : Nat) (res₁ res₂ a b : GLWE) (h : SameShapeG res₁ res₂) :
    glweAddInto N res₁ a b = glweAddInto N res₂ a b := by
  have hL := rank_succ_ge res₁
  unfold glweAddInto rankRule3
  dsimp only
  rw [h.rank, h.size, ← h.2.2.1, ← h.1]
  refine ORel.close (L := res₁.cols.length) (W := fun j => j < res₁.rank + 1) ?h ?hW
  case h =>
    repeat' apply ORel.check
    apply ORel.bind (forRange_to _ (overwrites_two a b _) 0 _ 0 (min a.rank b.rank + 1) (agree_start0 h) (le_refl _) (by omega))
    intro x y hxy
    by_cases hab : a.rank > b.rank
    · simp only [hab, if_true]
      apply ORel.bind (forRange_to _ (overwrites_fromCol a _) _ _ (min a.rank b.rank + 1) (max a.rank b.rank + 1) hxy (le_refl _) (by omega))
      intro x' y' h'
      exact forRange_to _ (overwrites_selfConst _) _ _ (max a.rank b.rank + 1) (res₁.rank + 1) h' (le_refl _) (by omega)
    · simp only [hab, if_false]
      apply ORel.bind (forRange_to _ (overwrites_fromCol b _) _ _ (min a.rank b.rank + 1) (max a.rank b.rank + 1) hxy (le_refl _) (by omega))
      intro x' y' h'
      exact forRange_to _ (overwrites_selfConst _) _ _ (max a.rank b.rank + 1) (res₁.rank + 1) h' (le_refl _) (by omega)
  case hW => intro i hi; omega

theorem glweSub_det (N : Nat) (res₁ res₂ a b : GLWE) (h : SameShapeG res₁ res₂) :
    glweSub N res₁ a b = glweSub N res₂ a b := by
  have hL := rank_succ_ge res₁
  unfold glweSub rankRule3
  dsimp only
  rw [h.rank, h.size, ← h.2.2.1, ← h.1]
  refine ORel.close (L := res₁.cols.length) (W := fun j => j < res₁.rank + 1) ?h ?hW
  case h =>
    repeat' apply ORel.check
    apply ORel.bind (forRange_to _ (overwrites_two a b _) 0 _ 0 (min a.rank b.rank + 1) (agree_start0 h) (le_refl _) (by omega))
    intro x y hxy
    by_cases hab : a.rank > b.rank
    · simp only [hab, if_true]
      apply ORel.bind (forRange_to _ (overwrites_fromCol a _) _ _ (min a.rank b.rank + 1) (max a.rank b.rank + 1) hxy (le_refl _) (by omega))
      intro x' y' h'
      exact forRange_to _ (overwrites_selfConst _) _ _ (max a.rank b.rank + 1) (res₁.rank + 1) h' (le_refl _) (by omega)
    · simp only [hab, if_false]
      apply ORel.bind (forRange_to _ (overwrites_fromCol b _) _ _ (min a.rank b.rank + 1) (max a.rank b.rank + 1) hxy (le_refl _) (by omega))
      intro x' y' h'
      exact forRange_to _ (overwrites_selfConst _) _ _ (max a.rank b.rank + 1) (res₁.rank + 1) h' (le_refl _) (by omega)
  case hW => intro i hi; omega

theorem glweNegate_det (N : Nat) (res₁ res₂ a : GLWE) (h : SameShapeG res₁ res₂) :
    glweNegate N res₁ a = glweNegate N res₂ a := by
  have hL := rank_succ_ge res₁
  unfold glweNegate
  rw [h.rank, h.size, ← h.2.2.1, ← h.1]
  refine ORel.close (L := res₁.cols.length) (W := fun j => j < res₁.rank + 1) ?h ?hW
  case h =>
    repeat' apply ORel.check
    exact forRange_to _ (overwrites_fromCol a _) 0 _ 0 (res₁.rank + 1) (agree_start0 h) (le_refl _) (by omega)
  case hW => intro i hi; omega

theorem glweMulXpMinusOne_det (N : Nat) (k : Int) (res₁ res₂ a : GLWE) (h : SameShapeG res₁ res₂) :
    glweMulXpMinusOne N k res₁ a = glweMulXpMinusOne N k res₂ a := by
  have hL := rank_succ_ge res₁
  unfold glweMulXpMinusOne
  rw [h.rank, h.size, ← h.2.2.1, ← h.1]
  refine ORel.close (L := res₁.cols.length) (W := fun j => j < res₁.rank + 1) ?h ?hW
  case h =>
    repeat' apply ORel.check
    exact forRange_to _ (overwrites_fromCol a _) 0 _ 0 (res₁.rank + 1) (agree_start0 h) (le_refl _) (by omega)
  case hW => intro i hi; omega

theorem glweCopy_det (N : Nat) (res₁ res₂ a : GLWE) (h : SameShapeG res₁ res₂) :
    glweCopy N res₁ a = glweCopy N res₂ a := by
  have hL := rank_succ_ge res₁
  unfold glweCopy
  dsimp only
  rw [h.rank, h.size, ← h.2.2.1, ← h.1]
  refine ORel.close (L := res₁.cols.length) (W := fun j => j < res₁.rank + 1) ?h ?hW
  case h =>
    repeat' apply ORel.check
    apply ORel.bind (forRange_to _ (overwrites_fromCol a _) 0 _ 0 (min res₁.rank a.rank + 1) (agree_start0 h) (le_refl _) (by omega))
    intro x y hxy
    exact forRange_to _ (overwrites_selfConst _) _ _ (min res₁.rank a.rank + 1) (res₁.rank + 1) hxy (le_refl _) (by omega)
  case hW => intro i hi; omega

theorem glweRotate_det (N : Nat) (k : Int) (res₁ res₂ a : GLWE) (h : SameShapeG res₁ res₂) :
    glweRotate N k res₁ a = glweRotate N k res₂ a := by
  have hL := rank_succ_ge res₁
  unfold glweRotate
  rw [h.rank, h.size, ← h.2.2.1, ← h.1]
  refine ORel.close (L := res₁.cols.length) (W := fun j => j < max (a.rank + 1) (res₁.rank + 1)) ?h ?hW
  case h =>
    repeat' apply ORel.check
    apply ORel.bind (forRange_to _ (overwrites_fromCol a _) 0 _ 0 (a.rank + 1) (agree_start0 h) (le_refl _) (by omega))
    intro x y hxy
    exact forRange_to _ (overwrites_selfConst _) _ _ (a.rank + 1) _ hxy (le_refl _) (le_refl _)
  case hW => intro i hi; omega

/-! `vec_znx_lsh` reads the result column only through its number of limbs -/

theorem zipWith_snd {α β : Type} (l : List α) (ds : List β) : List.zipWith (fun _ d => d) l ds = ds.take l.length := by
  induction l generalizing ds with
  | nil => simp
  | cons x t ih => cases ds with
    | nil => simp
    | cons d u => simp [ih]

theorem lshCoef_overwrite_len (b k : Nat) (a r₁ r₂ : List Int) (h : r₁.length = r₂.length) :
    lshCoef .overwrite b k a r₁ = lshCoef .overwrite b k a r₂ := by
  unfold lshCoef
  simp only [Fuse.apply, if_true, h]
  rw [zipWith_snd, zipWith_snd]
  simp [h]

theorem lshCol_len (b k : Nat) (o₁ o₂ x : Col) (n : Nat) (h : o₁.length = o₂.length) :
    lshCol b k o₁ x n = lshCol b k o₂ x n := by
  unfold lshCol
  rw [h]
  congr 1
  funext i
  exact lshCoef_overwrite_len b k _ _ _ (by simp [coefAt, h])

theorem glweLsh_det (N : Nat) (res₁ res₂ a : GLWE) (k : Nat) (h : SameShapeG res₁ res₂) :
    glweLsh N res₁ a k = glweLsh N res₂ a k := by
  have hL := rank_succ_ge res₁
  unfold glweLsh
  rw [h.rank, h.size, ← h.2.2.1, ← h.1]
  refine ORel.close (L := res₁.cols.length) (W := fun j => j < max (a.rank + 1) (res₁.rank + 1)) ?h ?hW
  case h =>
    repeat' apply ORel.check
    apply ORel.bind (forRange_to _ (overwrites_withCol a _ (fun o₁ o₂ x hl => lshCol_len _ _ o₁ o₂ x N hl)) 0 _ 0 (a.rank + 1)
      (agree_start0 h) (le_refl _) (by omega))
    intro x y hxy
    exact forRange_to _ (overwrites_selfConst _) _ _ (a.rank + 1) _ hxy (le_refl _) (le_refl _)
  case hW => intro i hi; omega

theorem glweNormalize_det (N : Nat) (res₁ res₂ a : GLWE) (h : SameShapeG res₁ res₂) :
    glweNormalize N res₁ a = glweNormalize N res₂ a := by
  have hL := rank_succ_ge res₁
  unfold glweNormalize
  rw [h.rank, h.size, ← h.2.2.1, ← h.1]
  refine ORel.close (L := res₁.cols.length) (W := fun j => j < res₁.rank + 1) ?h ?hW
  case h =>
    repeat' apply ORel.check
    exact forRange_to _ (overwrites_from? a _) 0 _ 0 (res₁.rank + 1) (agree_start0 h) (le_refl _) (by omega)
  case hW => intro i hi; omega

/-! ### GGSW: `ggsw_rotate` entry by entry -/

theorem SameShapeG.refl (g : GLWE) : SameShapeG g g := ⟨rfl, rfl, rfl, rfl, fun _ => rfl⟩

/-- two lists of ciphertexts of length `L`: entry-wise same shape, equal below `m` -/
def LAgree (L m : Nat) (l₁ l₂ : List GLWE) : Prop :=
  l₁.length = L ∧ l₂.length = L ∧ (∀ (i : Nat) x y, l₁[i]? = some x → l₂[i]? = some y → SameShapeG x y) ∧
  ∀ i : Nat, i < m → l₁[i]? = l₂[i]?

theorem forEntries_agree (f : Nat → GLWE → Outcome GLWE) (hf : ∀ idx e₁ e₂, SameShapeG e₁ e₂ → f idx e₁ = f idx e₂) (cnt : Nat) :
    ∀ (L lo : Nat) (l₁ l₂ : List GLWE), LAgree L lo l₁ l₂ →
      ORel (LAgree L (lo + cnt)) (forEntries cnt lo f l₁) (forEntries cnt lo f l₂) := by
  induction cnt with
  | zero => intro L lo l₁ l₂ h; simpa [forEntries, ORel] using h
  | succ cnt ih =>
    intro L lo l₁ l₂ h
    obtain ⟨hl1, hl2, hs, ha⟩ := h
    simp only [forEntries]
    by_cases hlo : lo < l₁.length
    · have hlo2 : lo < l₂.length := by omega
      rw [List.getElem?_eq_getElem hlo, List.getElem?_eq_getElem hlo2]
      simp only
      rw [hf lo _ _ (hs lo _ _ (List.getElem?_eq_getElem hlo) (List.getElem?_eq_getElem hlo2))]
      apply ORel.bind (orel_same _)
      intro e' _ he; subst he
      have := ih L (lo + 1) (l₁.set lo e') (l₂.set lo e') ⟨by simp [hl1], by simp [hl2], ?_, ?_⟩
      · rw [show lo + (cnt + 1) = lo + 1 + cnt by omega]; exact this
      · intro i x y hx hy
        simp only [List.getElem?_set] at hx hy
        by_cases e : lo = i
        · subst e; simp [hlo, hlo2] at hx hy; subst hx hy; exact SameShapeG.refl _
        · simp [e] at hx hy; exact hs i x y hx hy
      · intro i hi
        simp only [List.getElem?_set]
        by_cases e : lo = i
        · subst e; simp [hlo, hlo2]
        · simp only [e, if_false]; exact ha i (by omega)
    · rw [List.getElem?_eq_none (by omega), List.getElem?_eq_none (by omega)]
      simp [ORel]

/-- same shape for GGSW results: same metadata, same number of entries, entry-wise same shape -/
def SameShapeGG (a b : GGSW) : Prop :=
  a.base2k = b.base2k ∧ a.n = b.n ∧ a.rank = b.rank ∧ a.dnum = b.dnum ∧ a.dsize = b.dsize ∧
  LAgree a.cts.length 0 a.cts b.cts

/-- `ggsw_rotate(k, res, a)`: independent of the previous content of `res` when `res` holds exactly the
`dnum·(rank+1)` entries the loop rewrites -/
theorem ggswRotate_det (N : Nat) (k : Int) (res₁ res₂ a : GGSW) (h : SameShapeGG res₁ res₂)
    (hfull : res₁.cts.length = res₁.dnum * (res₁.rank + 1)) : ggswRotate N k res₁ a = ggswRotate N k res₂ a := by
  obtain ⟨h1, h2, h3, h4, h5, h6⟩ := h
  unfold ggswRotate
  rw [← h3, ← h4, ← h5]
  have key := forEntries_agree (fun idx e => match a.cts[idx]? with
      | none => .panic "assert"
      | some ae => glweRotate N k e ae)
    (fun idx e₁ e₂ hs => by cases a.cts[idx]? with
      | none => rfl
      | some ae => exact glweRotate_det N k e₁ e₂ ae hs) (res₁.dnum * (res₁.rank + 1)) res₁.cts.length 0 res₁.cts res₂.cts h6
  refine ORel.eq ?_
  repeat' apply ORel.check
  apply ORel.bind key
  intro x y hxy
  have hxy' : x = y := by
    obtain ⟨hl1, hl2, _, ha⟩ := hxy
    apply List.ext_getElem?
    intro i
    by_cases hi : i < 0 + res₁.dnum * (res₁.rank + 1)
    · exact ha i hi
    · rw [List.getElem?_eq_none (by omega), List.getElem?_eq_none (by omega)]
  subst hxy'
  obtain ⟨b1, n1, r1, d1, s1, c1⟩ := res₁
  obtain ⟨b2, n2, r2, d2, s2, c2⟩ := res₂
  simp only at h1 h2 h3 h4 h5
  subst h1 h2 h3 h4 h5
  simp [ORel]

end C11Core
