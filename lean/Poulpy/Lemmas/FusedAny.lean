import Poulpy.Lemmas.AutoDecrypt
import Poulpy.Lemmas.GadgetAccum
import Poulpy.Lemmas.GadgetPhase
import Poulpy.Lemmas.KsDecrypt

/-!
# The fused automorphisms do not depend on the previous content of their `res_dft` scratch

`glwe_automorphism_{add,sub,sub_negate}{,_assign}` (`Ks.automorphismFused`) take `res_dft` from scratch **without zeroing it**; the model
carries its previous content as the parameter `dft0`.  Since poulpy d3c2e96 `gglwe_product_dft` overwrites (`dsize = 1`: the single
`vmp_apply_dft_to_dft`) or writes-and-zeroes (`dsize ≥ 2`: pass 0) every limb of every column of `res_dft`, so:

* `product_determined_all`   : column by column, the product does not depend on `res`'s previous content (every `dsize ≥ 1`);
* `product_dft0_irrelevant`  : for two buffers of the shape `take_vec_znx_dft(rank_out+1, key.size)` gives (`size = max_size = key.size`)
  the two product **buffers are equal** (a buffer whose `size = max_size` is determined by its shape and its active columns);
* `keyswitchInternal_dft0_irrelevant`, `automorphismFused_dft0_irrelevant` : hence equal outcomes of `glwe_keyswitch_internal` and of the
  fused automorphisms, whatever the scratch held;
* `glwe_automorphism_{fused,add,sub,sub_negate,fused_assign}_decrypts_any` : the end-to-end theorems of Lemmas/AutoDecrypt.lean for an
  ARBITRARY `dft0` of that shape.
-/

namespace KsDec
open Hal Core Core.Ops C02L AutoMul

/-! ### the product -/

/-- the `dsize = 1` branch: the single `vmp_apply_dft_to_dft` overwrites every active limb -/
theorem product_determined_dsize1 (r₁ r₂ a : Buf) (key : Ks.Key) (h1 : key.dsize = 1)
    (hn : r₁.n = r₂.n) (hcols : r₁.cols = r₂.cols) (hsize : r₁.size = r₂.size) (hw1 : r₁.WF) (hw2 : r₂.WF)
    (c : Nat) (hc : c < r₁.cols) :
    (Ks.gglweProductDft r₁ a key).act c = (Ks.gglweProductDft r₂ a key).act c := by
  unfold Ks.gglweProductDft
  rw [if_pos h1, if_pos h1]
  unfold opVmp
  rw [Ks.setFlat_act r₁ hw1 _ c hc, Ks.setFlat_act r₂ hw2 _ c (by rw [← hcols]; exact hc), hn, hcols, hsize]

/-- a column index beyond the columns of a well-formed buffer reads as the empty column -/
theorem act_ge (b : Buf) (hb : b.WF) (c : Nat) (hc : b.cols ≤ c) : b.act c = [] := by
  unfold Buf.act
  rw [List.getD_eq_getElem?_getD, List.getElem?_eq_none (by rw [hb.1]; exact hc)]
  simp

/-- shape of the executed product, including its capacity (every `dsize`) -/
theorem prod_full_shape (res a : Buf) (key : Ks.Key) (hres : res.WF) (hmax : res.maxSize = key.mat.size)
    (hsize : res.size = key.mat.size) (hcols : res.cols = key.mat.colsOut) (hn : res.n = a.n) :
    (Ks.gglweProductDft res a key).WF ∧ (Ks.gglweProductDft res a key).cols = res.cols ∧
    (Ks.gglweProductDft res a key).size = key.mat.size ∧ (Ks.gglweProductDft res a key).maxSize = key.mat.size ∧
    (Ks.gglweProductDft res a key).n = res.n := by
  by_cases h1 : key.dsize = 1
  · have e : Ks.gglweProductDft res a key = opVmp res a key.mat 0 := by
      unfold Ks.gglweProductDft; rw [if_pos h1]
    obtain ⟨s1, s2, s3, s4, s5, _⟩ := Ks.opVmp_spec res a key.mat 0 hres
    rw [e]
    exact ⟨s1, s2, by rw [s3, hsize], by rw [s5, hmax], s4⟩
  · obtain ⟨h, _⟩ := Ks.product_loop res a key _ hcols (Ks.initial_shapes res a key hres hmax hn) key.dsize (Nat.le_refl _)
    unfold Ks.gglweProductDft
    simp only [if_neg h1]
    generalize (List.range key.dsize).foldl (Ks.productStep a key)
      { res := res, ai := Ks.zeroBuf a.n a.cols (min (Ks.divCeil a.size key.dsize) key.mat.rows),
        tmp := Ks.zeroBuf res.n res.cols key.mat.size } = st at h
    exact ⟨⟨h.rwf.1, Nat.le_refl _, h.rwf.2.2⟩, h.rcols, h.rmax, h.rmax, h.rn⟩

/-- **`product_determined_all`** — every digit size `dsize ≥ 1`, **every** column index: `gglwe_product_dft` does not depend on the previous
content of its result buffer (two well-formed buffers of the shape the callers allocate: `size = max_size = key.size`, `rank_out+1` columns,
degree `n`). -/
theorem product_determined_all (r₁ r₂ a : Buf) (key : Ks.Key) (hD : 1 ≤ key.dsize) (h1 : r₁.WF) (h2 : r₂.WF)
    (hs1 : r₁.size = key.mat.size) (hs2 : r₂.size = key.mat.size)
    (hm1 : r₁.maxSize = key.mat.size) (hm2 : r₂.maxSize = key.mat.size)
    (hc1 : r₁.cols = key.mat.colsOut) (hc2 : r₂.cols = key.mat.colsOut)
    (hn1 : r₁.n = a.n) (hn2 : r₂.n = a.n) (c : Nat) :
    (Ks.gglweProductDft r₁ a key).act c = (Ks.gglweProductDft r₂ a key).act c := by
  by_cases hc : c < r₁.cols
  · by_cases h : key.dsize = 1
    · exact product_determined_dsize1 r₁ r₂ a key h (by rw [hn1, hn2]) (by rw [hc1, hc2]) (by rw [hs1, hs2]) h1 h2 c hc
    · exact Ks.product_determined_gt1 r₁ r₂ a key (by omega) h1 h2 hm1 hm2 hc1 hc2 hn1 hn2 c hc
  · obtain ⟨w1, c1, _, _, _⟩ := prod_full_shape r₁ a key h1 hm1 hs1 hc1 hn1
    obtain ⟨w2, c2, _, _, _⟩ := prod_full_shape r₂ a key h2 hm2 hs2 hc2 hn2
    rw [act_ge _ w1 c (by rw [c1]; omega), act_ge _ w2 c (by rw [c2, hc2, ← hc1]; omega)]

/-- a well-formed buffer used at full capacity (`size = max_size`) is determined by its shape and its active columns -/
theorem buf_ext_full (b₁ b₂ : Buf) (h1 : b₁.WF) (h2 : b₂.WF) (hn : b₁.n = b₂.n) (hc : b₁.cols = b₂.cols) (hs : b₁.size = b₂.size)
    (hm1 : b₁.maxSize = b₁.size) (hm2 : b₂.maxSize = b₂.size) (hact : ∀ c, c < b₁.cols → b₁.act c = b₂.act c) : b₁ = b₂ := by
  have col : ∀ (b : Buf), b.WF → b.maxSize = b.size → ∀ c, c < b.cols → b.data.getD c [] = b.act c := by
    intro b hb hm c hcc
    unfold Buf.act
    rw [List.take_of_length_le (by rw [hb.2.2 c hcc, hm])]
  have hdata : b₁.data = b₂.data := by
    apply List.ext_getElem (by rw [h1.1, h2.1, hc])
    intro i hi1 hi2
    have hi : i < b₁.cols := by rw [← h1.1]; exact hi1
    have e1 : b₁.data[i] = b₁.data.getD i [] := by simp [List.getD_eq_getElem?_getD, List.getElem?_eq_getElem hi1]
    have e2 : b₂.data[i] = b₂.data.getD i [] := by simp [List.getD_eq_getElem?_getD, List.getElem?_eq_getElem hi2]
    rw [e1, e2, col b₁ h1 hm1 i hi, col b₂ h2 hm2 i (by rw [← hc]; exact hi), hact i hi]
  cases b₁
  cases b₂
  simp only at hn hc hs hm1 hm2 hdata
  subst hn hc hs hm1 hm2 hdata
  rfl

/-- **`product_dft0_irrelevant`** — the two product buffers are *equal* (not only column-wise): nothing of the previous content of `res`
survives `gglwe_product_dft`. -/
theorem product_dft0_irrelevant (r₁ r₂ a : Buf) (key : Ks.Key) (hD : 1 ≤ key.dsize) (h1 : r₁.WF) (h2 : r₂.WF)
    (hs1 : r₁.size = key.mat.size) (hs2 : r₂.size = key.mat.size)
    (hm1 : r₁.maxSize = key.mat.size) (hm2 : r₂.maxSize = key.mat.size)
    (hc1 : r₁.cols = key.mat.colsOut) (hc2 : r₂.cols = key.mat.colsOut)
    (hn1 : r₁.n = a.n) (hn2 : r₂.n = a.n) :
    Ks.gglweProductDft r₁ a key = Ks.gglweProductDft r₂ a key := by
  obtain ⟨w1, c1, s1, m1, n1⟩ := prod_full_shape r₁ a key h1 hm1 hs1 hc1 hn1
  obtain ⟨w2, c2, s2, m2, n2⟩ := prod_full_shape r₂ a key h2 hm2 hs2 hc2 hn2
  exact buf_ext_full _ _ w1 w2 (by rw [n1, n2, hn1, hn2]) (by rw [c1, c2, hc1, hc2]) (by rw [s1, s2]) (by rw [m1, s1]) (by rw [m2, s2])
    (fun c _ => product_determined_all r₁ r₂ a key hD h1 h2 hs1 hs2 hm1 hm2 hc1 hc2 hn1 hn2 c)

/-! ### `glwe_keyswitch_internal` -/

/-- the `a_dft` loop keeps the degree -/
theorem dftLoop_n (x : Buf) (L : List Nat) (b : Buf) :
    (L.foldl (fun (acc : Buf) ci => opDftApply 1 0 acc ci x (ci + 1)) b).n = b.n := by
  induction L generalizing b with
  | nil => rfl
  | cons c rest ih =>
    rw [List.foldl_cons, ih]
    rfl

/-- **`keyswitchInternal_dft0_irrelevant`** — `glwe_keyswitch_internal(res_dft, a, key)` returns the same outcome (the same big accumulator)
for any two `res_dft` buffers of the shape `take_vec_znx_dft(rank_out+1, key.size)` gives. -/
theorem keyswitchInternal_dft0_irrelevant (big128 : Bool) (d₁ d₂ : Buf) (a : Ks.Ct) (key : Ks.Key) (hD : 1 ≤ key.dsize)
    (h1 : d₁.WF) (h2 : d₂.WF) (hs1 : d₁.size = key.mat.size) (hs2 : d₂.size = key.mat.size)
    (hm1 : d₁.maxSize = key.mat.size) (hm2 : d₂.maxSize = key.mat.size)
    (hc1 : d₁.cols = key.mat.colsOut) (hc2 : d₂.cols = key.mat.colsOut) (hn1 : d₁.n = a.n) (hn2 : d₂.n = a.n) :
    Ks.keyswitchInternal big128 d₁ a key = Ks.keyswitchInternal big128 d₂ a key := by
  unfold Ks.keyswitchInternal
  by_cases hb : a.base2k ≠ key.base2k
  · rw [if_pos hb, if_pos hb]
  · rw [if_neg hb, if_neg hb]
    dsimp only
    have hn := dftLoop_n (Ks.bufOfCols a.n a.size a.cols) (List.range (a.rank + 1 - 1)) (Ks.zeroBuf a.n (a.rank + 1 - 1) a.size)
    rw [product_dft0_irrelevant d₁ d₂ _ key hD h1 h2 hs1 hs2 hm1 hm2 hc1 hc2 (by rw [hn1, hn]; rfl) (by rw [hn2, hn]; rfl)]

/-- column-wise form against the zeroed scratch of `glwe_keyswitch`: same outcome, hence (when it returns) accumulators with equal `n` and equal
active columns for every column index -/
theorem keyswitchInternal_act_any (big128 : Bool) (dft0 : Buf) (a : Ks.Ct) (key : Ks.Key) (hD : 1 ≤ key.dsize)
    (hwf : dft0.WF) (hs : dft0.size = key.mat.size) (hm : dft0.maxSize = key.mat.size) (hc : dft0.cols = key.mat.colsOut)
    (hn : dft0.n = a.n) (r₁ r₂ : Buf) (e1 : Ks.keyswitchInternal big128 dft0 a key = .ok r₁)
    (e2 : Ks.keyswitchInternal big128 (Ks.zeroBuf a.n key.mat.colsOut key.size) a key = .ok r₂) :
    r₁ = r₂ ∧ r₁.n = r₂.n ∧ ∀ c, r₁.act c = r₂.act c := by
  rw [keyswitchInternal_dft0_irrelevant big128 dft0 (Ks.zeroBuf a.n key.mat.colsOut key.size) a key hD hwf (Ks.zeroBuf_WF _ _ _)
    hs rfl hm rfl hc rfl hn rfl] at e1
  rw [e1] at e2
  injection e2 with e
  subst e
  exact ⟨rfl, rfl, fun _ => rfl⟩

/-! ### the fused automorphisms -/

/-- the radix conversion keeps the degree -/
theorem convIn_n (a aConv : Ks.Ct) (key : Ks.Key) (h : Ks.convIn a key = .ok aConv) : aConv.n = a.n := by
  unfold Ks.convIn at h
  by_cases hb : a.base2k ≠ key.base2k
  · rw [if_pos hb] at h
    unfold Ks.glweNormalize at h
    cases ho : Ks.oall (a.cols.map (fun c => Ks.ofOpt (normalizeCol? key.base2k (Ks.divCeil (a.size * a.base2k) key.base2k) 0 c a.base2k a.n) "fuel")) with
    | ok cs =>
      rw [ho] at h
      simp only [Ks.obind] at h
      injection h with h
      rw [← h]
      rfl
    | err e => rw [ho] at h; simp [Ks.obind] at h
    | panic e => rw [ho] at h; simp [Ks.obind] at h
  · rw [if_neg hb] at h
    injection h with h
    rw [h]

/-- **`automorphismFused_dft0_irrelevant`** — `glwe_automorphism_{add,sub,sub_negate}{,_assign}` return the same outcome whatever their
un-zeroed `res_dft` scratch held: for any well-formed `dft0` of the shape `take_vec_znx_dft(res.rank()+1, key.size())` gives (`n = N`,
`rr+1` columns, `size = max_size = key.size`), the call equals the call with the zeroed buffer. -/
theorem automorphismFused_dft0_irrelevant (f : Ks.Fused) (big128 : Bool) (N : Nat) (dft0 : Buf) (rb rs rr : Nat) (a : Ks.Ct) (key : Ks.Key)
    (hD : 1 ≤ key.dsize) (hc0 : 0 < key.mat.colsOut) (han : a.n = N)
    (hwf : dft0.WF) (hn : dft0.n = N) (hc : dft0.cols = rr + 1) (hs : dft0.size = key.mat.size) (hm : dft0.maxSize = key.mat.size) :
    Ks.automorphismFused f big128 dft0 rb rs rr a key = Ks.automorphismFused f big128 (Ks.zeroBuf N (rr + 1) key.size) rb rs rr a key := by
  unfold Ks.automorphismFused
  by_cases hp : a.rank ≠ key.rankIn ∨ rr ≠ key.rankOut ∨ a.rank ≠ rr
  · rw [if_pos hp, if_pos hp]
  · rw [if_neg hp, if_neg hp]
    have hrr : rr + 1 = key.mat.colsOut := by
      have : rr = key.rankOut := by
        by_contra h; exact hp (Or.inr (Or.inl h))
      rw [this]; unfold Ks.Key.rankOut; omega
    cases hcv : Ks.convIn a key with
    | ok aConv =>
      have hcn := convIn_n a aConv key hcv
      simp only [Ks.obind]
      rw [keyswitchInternal_dft0_irrelevant big128 dft0 (Ks.zeroBuf N (rr + 1) key.size) aConv key hD hwf (Ks.zeroBuf_WF _ _ _)
        hs rfl hm rfl (by rw [hc, hrr]) (by rw [← hrr]; rfl) (by rw [hn, hcn, han]) (by rw [hcn, han]; rfl)]
    | err e => rfl
    | panic e => rfl

/-! ### the end-to-end theorems for an arbitrary scratch content -/

/-- **`glwe_automorphism_fused_decrypts_any`** — `KsDec.glwe_automorphism_fused_decrypts` for an ARBITRARY previous content `dft0` of the
un-zeroed `res_dft` scratch (well formed, `n = N`, `rank_out+1` columns, `size = max_size = key.size`: what `take_vec_znx_dft` returns). -/
theorem glwe_automorphism_fused_decrypts_any (f : Ks.Fused) (big128 : Bool) (N bout sout rout : Nat) (a : Ks.Ct) (key : Ks.Key) (dft0 : Buf)
    (sk : List Poly) (gInv : Int) (EL KL : ℕ → ℕ → Poly) (Hin Hp : Int)
    (hN : 0 < N) (hg : GalOk key.p N) (hsk : Ks.AllLen N sk) (hinv : ∀ s ∈ sk, σ key.p (σ gInv s) = s)
    (ha : GWF N a) (hrank : a.rank = key.rankIn) (hrout : rout = key.rankOut) (hra : a.rank = rout) (hc0 : 0 < key.mat.colsOut)
    (hD : 1 ≤ key.dsize) (hM : ∀ j q, (key.mat.entry j q).length = N) (hS : key.mat.rows * key.dsize ≤ key.mat.size)
    (hbi1 : 1 ≤ a.base2k) (hbi : a.base2k ≤ 62) (hbk1 : 1 ≤ key.base2k) (hbk : key.base2k ≤ 62) (hbo1 : 1 ≤ bout) (hbo : bout ≤ 62)
    (hIn0 : 0 ≤ Hin) (hIn : Hin + 8 ≤ 2 ^ 62) (hInB : ∀ c ∈ a.cols, ∀ l ∈ c, ∀ x ∈ l, |x| ≤ Hin)
    (hHp0 : 0 ≤ Hp) (hAcc : Hp + 2 * (Hin + 2 ^ key.base2k) + 8 ≤ 2 ^ (bitsOf big128 - 2))
    (hprod : ∀ aConv, Ks.convIn a key = .ok aConv → ∀ i, i < rout + 1 → ∀ l ∈ (prodOf rout aConv key).act i, ∀ x ∈ l, |x| ≤ Hp)
    (hs : key.mat.colsIn ≤ sk.length)
    (hEL : ∀ i r, (EL i r).length = N) (hKL : ∀ i r, (KL i r).length = N)
    (hkey : ∀ i, i < key.mat.colsIn → ∀ r, r < key.mat.rows →
      Gadget.val (Ks.radix N key.base2k) key.mat.size (Ks.keyPhase N (sk.map (σ gInv)) key.mat i r) =
        Ks.ι N (sk.getD i []) * Ks.radix N key.base2k ^ (key.mat.size - (r + 1) * key.dsize) + Ks.ι N (EL i r)
          + Ks.radix N key.base2k ^ key.mat.size * Ks.ι N (KL i r))
    (hcov1 : convSize a key ≤ key.mat.size) (hcov2 : convSize a key ≤ key.mat.rows * key.dsize)
    (hdwf : dft0.WF) (hdn : dft0.n = N) (hdc : dft0.cols = rout + 1) (hds : dft0.size = key.mat.size) (hdm : dft0.maxSize = key.mat.size) :
    ∃ res aConv, Ks.automorphismFused f big128 dft0 bout sout rout a key = .ok res ∧
      Ks.convIn a key = .ok aConv ∧ GWF N res ∧ res.base2k = bout ∧ res.size = sout ∧ res.rank = rout ∧
      ∃ (E1 E3 : Poly) (Q : Ks.R N), E1.length = N ∧ E3.length = N ∧
        normInf E1 ≤ (1 + snorm (min a.rank sk.length) sk) * C02.normTol (key.base2k * convSize a key) (a.base2k * a.size) ∧
        normInf E3 ≤ (1 + snorm (min rout sk.length) sk) * C02.normTol (bout * sout) (key.base2k * key.mat.size) ∧
        (2 : Ks.R N) ^ (a.base2k * a.size + key.base2k * key.mat.size) * Ks.ι N (valP bout N (phase sk res))
          = (sgA f : Ks.R N) *
              ((2 : Ks.R N) ^ (bout * sout + key.base2k * key.mat.size) * Ks.ι N (σ key.p (valP a.base2k N (phase sk a)))
                + Ks.ι N (σ key.p (ksErr (2 ^ (bout * sout + key.base2k * (key.mat.size - convSize a key)))
                    (2 ^ (a.base2k * a.size + bout * sout)) 0 E1 (Ks.errL N key.base2k (aDftOf aConv) key EL)
                    (Ks.dropL N key.base2k (sk.map (σ gInv)) (aDftOf aConv) key) (zeroP N))))
            + (sgB f : Ks.R N) *
              ((2 : Ks.R N) ^ (bout * sout + key.base2k * key.mat.size) * Ks.ι N (valP a.base2k N (phase sk a))
                + Ks.ι N (polyScale (2 ^ (bout * sout + key.base2k * (key.mat.size - convSize a key))) E1))
            + Ks.ι N (polyScale (2 ^ (a.base2k * a.size)) E3)
            + (2 : Ks.R N) ^ (a.base2k * a.size + bout * sout + key.base2k * key.mat.size) * Q ∧
        normInf (σ key.p (ksErr (2 ^ (bout * sout + key.base2k * (key.mat.size - convSize a key)))
                    (2 ^ (a.base2k * a.size + bout * sout)) 0 E1 (Ks.errL N key.base2k (aDftOf aConv) key EL)
                    (Ks.dropL N key.base2k (sk.map (σ gInv)) (aDftOf aConv) key) (zeroP N)))
          ≤ 2 ^ (bout * sout + key.base2k * (key.mat.size - convSize a key)) *
              ((1 + snorm (min a.rank sk.length) sk) * C02.normTol (key.base2k * convSize a key) (a.base2k * a.size))
            + 2 ^ (a.base2k * a.size + bout * sout) * gadgetBound N key.base2k (aDftOf aConv) key EL
            + 2 ^ (a.base2k * a.size + bout * sout) * dropBound N key.base2k (sk.map (σ gInv)) (aDftOf aConv) key := by
  rw [automorphismFused_dft0_irrelevant f big128 N dft0 bout sout rout a key hD hc0 ha.1 hdwf hdn hdc hds hdm]
  exact glwe_automorphism_fused_decrypts f big128 N bout sout rout a key sk gInv EL KL Hin Hp hN hg hsk hinv ha hrank hrout hra hc0 hD hM hS hbi1 hbi hbk1 hbk hbo1 hbo hIn0 hIn hInB hHp0 hAcc hprod hs hEL hKL hkey hcov1 hcov2

/-- `glwe_automorphism_add`, arbitrary `res_dft` scratch content -/
theorem glwe_automorphism_add_decrypts_any (big128 : Bool) (N bout sout rout : Nat) (a : Ks.Ct) (key : Ks.Key) (dft0 : Buf)
    (sk : List Poly) (gInv : Int) (EL KL : ℕ → ℕ → Poly) (Hin Hp : Int)
    (hN : 0 < N) (hg : GalOk key.p N) (hsk : Ks.AllLen N sk) (hinv : ∀ s ∈ sk, σ key.p (σ gInv s) = s)
    (ha : GWF N a) (hrank : a.rank = key.rankIn) (hrout : rout = key.rankOut) (hra : a.rank = rout) (hc0 : 0 < key.mat.colsOut)
    (hD : 1 ≤ key.dsize) (hM : ∀ j q, (key.mat.entry j q).length = N) (hS : key.mat.rows * key.dsize ≤ key.mat.size)
    (hbi1 : 1 ≤ a.base2k) (hbi : a.base2k ≤ 62) (hbk1 : 1 ≤ key.base2k) (hbk : key.base2k ≤ 62) (hbo1 : 1 ≤ bout) (hbo : bout ≤ 62)
    (hIn0 : 0 ≤ Hin) (hIn : Hin + 8 ≤ 2 ^ 62) (hInB : ∀ c ∈ a.cols, ∀ l ∈ c, ∀ x ∈ l, |x| ≤ Hin)
    (hHp0 : 0 ≤ Hp) (hAcc : Hp + 2 * (Hin + 2 ^ key.base2k) + 8 ≤ 2 ^ (bitsOf big128 - 2))
    (hprod : ∀ aConv, Ks.convIn a key = .ok aConv → ∀ i, i < rout + 1 → ∀ l ∈ (prodOf rout aConv key).act i, ∀ x ∈ l, |x| ≤ Hp)
    (hs : key.mat.colsIn ≤ sk.length)
    (hEL : ∀ i r, (EL i r).length = N) (hKL : ∀ i r, (KL i r).length = N)
    (hkey : ∀ i, i < key.mat.colsIn → ∀ r, r < key.mat.rows →
      Gadget.val (Ks.radix N key.base2k) key.mat.size (Ks.keyPhase N (sk.map (σ gInv)) key.mat i r) =
        Ks.ι N (sk.getD i []) * Ks.radix N key.base2k ^ (key.mat.size - (r + 1) * key.dsize) + Ks.ι N (EL i r)
          + Ks.radix N key.base2k ^ key.mat.size * Ks.ι N (KL i r))
    (hcov1 : convSize a key ≤ key.mat.size) (hcov2 : convSize a key ≤ key.mat.rows * key.dsize)
    (hdwf : dft0.WF) (hdn : dft0.n = N) (hdc : dft0.cols = rout + 1) (hds : dft0.size = key.mat.size) (hdm : dft0.maxSize = key.mat.size) :
    ∃ res aConv, Ks.automorphismFused .add big128 dft0 bout sout rout a key = .ok res ∧
      Ks.convIn a key = .ok aConv ∧ GWF N res ∧ res.base2k = bout ∧ res.size = sout ∧ res.rank = rout ∧
      ∃ (E1 E3 : Poly) (Q : Ks.R N), E1.length = N ∧ E3.length = N ∧
        normInf E1 ≤ (1 + snorm (min a.rank sk.length) sk) * C02.normTol (key.base2k * convSize a key) (a.base2k * a.size) ∧
        normInf E3 ≤ (1 + snorm (min rout sk.length) sk) * C02.normTol (bout * sout) (key.base2k * key.mat.size) ∧
        (2 : Ks.R N) ^ (a.base2k * a.size + key.base2k * key.mat.size) * Ks.ι N (valP bout N (phase sk res))
          = ((sgA .add : ℤ) : Ks.R N) *
              ((2 : Ks.R N) ^ (bout * sout + key.base2k * key.mat.size) * Ks.ι N (σ key.p (valP a.base2k N (phase sk a)))
                + Ks.ι N (σ key.p (ksErr (2 ^ (bout * sout + key.base2k * (key.mat.size - convSize a key)))
                    (2 ^ (a.base2k * a.size + bout * sout)) 0 E1 (Ks.errL N key.base2k (aDftOf aConv) key EL)
                    (Ks.dropL N key.base2k (sk.map (σ gInv)) (aDftOf aConv) key) (zeroP N))))
            + ((sgB .add : ℤ) : Ks.R N) *
              ((2 : Ks.R N) ^ (bout * sout + key.base2k * key.mat.size) * Ks.ι N (valP a.base2k N (phase sk a))
                + Ks.ι N (polyScale (2 ^ (bout * sout + key.base2k * (key.mat.size - convSize a key))) E1))
            + Ks.ι N (polyScale (2 ^ (a.base2k * a.size)) E3)
            + (2 : Ks.R N) ^ (a.base2k * a.size + bout * sout + key.base2k * key.mat.size) * Q ∧
        normInf (σ key.p (ksErr (2 ^ (bout * sout + key.base2k * (key.mat.size - convSize a key)))
                    (2 ^ (a.base2k * a.size + bout * sout)) 0 E1 (Ks.errL N key.base2k (aDftOf aConv) key EL)
                    (Ks.dropL N key.base2k (sk.map (σ gInv)) (aDftOf aConv) key) (zeroP N)))
          ≤ 2 ^ (bout * sout + key.base2k * (key.mat.size - convSize a key)) *
              ((1 + snorm (min a.rank sk.length) sk) * C02.normTol (key.base2k * convSize a key) (a.base2k * a.size))
            + 2 ^ (a.base2k * a.size + bout * sout) * gadgetBound N key.base2k (aDftOf aConv) key EL
            + 2 ^ (a.base2k * a.size + bout * sout) * dropBound N key.base2k (sk.map (σ gInv)) (aDftOf aConv) key := by
  rw [automorphismFused_dft0_irrelevant .add big128 N dft0 bout sout rout a key hD hc0 ha.1 hdwf hdn hdc hds hdm]
  exact glwe_automorphism_add_decrypts big128 N bout sout rout a key sk gInv EL KL Hin Hp hN hg hsk hinv ha hrank hrout hra hc0 hD hM hS hbi1 hbi hbk1 hbk hbo1 hbo hIn0 hIn hInB hHp0 hAcc hprod hs hEL hKL hkey hcov1 hcov2

/-- `glwe_automorphism_sub`, arbitrary `res_dft` scratch content -/
theorem glwe_automorphism_sub_decrypts_any (big128 : Bool) (N bout sout rout : Nat) (a : Ks.Ct) (key : Ks.Key) (dft0 : Buf)
    (sk : List Poly) (gInv : Int) (EL KL : ℕ → ℕ → Poly) (Hin Hp : Int)
    (hN : 0 < N) (hg : GalOk key.p N) (hsk : Ks.AllLen N sk) (hinv : ∀ s ∈ sk, σ key.p (σ gInv s) = s)
    (ha : GWF N a) (hrank : a.rank = key.rankIn) (hrout : rout = key.rankOut) (hra : a.rank = rout) (hc0 : 0 < key.mat.colsOut)
    (hD : 1 ≤ key.dsize) (hM : ∀ j q, (key.mat.entry j q).length = N) (hS : key.mat.rows * key.dsize ≤ key.mat.size)
    (hbi1 : 1 ≤ a.base2k) (hbi : a.base2k ≤ 62) (hbk1 : 1 ≤ key.base2k) (hbk : key.base2k ≤ 62) (hbo1 : 1 ≤ bout) (hbo : bout ≤ 62)
    (hIn0 : 0 ≤ Hin) (hIn : Hin + 8 ≤ 2 ^ 62) (hInB : ∀ c ∈ a.cols, ∀ l ∈ c, ∀ x ∈ l, |x| ≤ Hin)
    (hHp0 : 0 ≤ Hp) (hAcc : Hp + 2 * (Hin + 2 ^ key.base2k) + 8 ≤ 2 ^ (bitsOf big128 - 2))
    (hprod : ∀ aConv, Ks.convIn a key = .ok aConv → ∀ i, i < rout + 1 → ∀ l ∈ (prodOf rout aConv key).act i, ∀ x ∈ l, |x| ≤ Hp)
    (hs : key.mat.colsIn ≤ sk.length)
    (hEL : ∀ i r, (EL i r).length = N) (hKL : ∀ i r, (KL i r).length = N)
    (hkey : ∀ i, i < key.mat.colsIn → ∀ r, r < key.mat.rows →
      Gadget.val (Ks.radix N key.base2k) key.mat.size (Ks.keyPhase N (sk.map (σ gInv)) key.mat i r) =
        Ks.ι N (sk.getD i []) * Ks.radix N key.base2k ^ (key.mat.size - (r + 1) * key.dsize) + Ks.ι N (EL i r)
          + Ks.radix N key.base2k ^ key.mat.size * Ks.ι N (KL i r))
    (hcov1 : convSize a key ≤ key.mat.size) (hcov2 : convSize a key ≤ key.mat.rows * key.dsize)
    (hdwf : dft0.WF) (hdn : dft0.n = N) (hdc : dft0.cols = rout + 1) (hds : dft0.size = key.mat.size) (hdm : dft0.maxSize = key.mat.size) :
    ∃ res aConv, Ks.automorphismFused .sub big128 dft0 bout sout rout a key = .ok res ∧
      Ks.convIn a key = .ok aConv ∧ GWF N res ∧ res.base2k = bout ∧ res.size = sout ∧ res.rank = rout ∧
      ∃ (E1 E3 : Poly) (Q : Ks.R N), E1.length = N ∧ E3.length = N ∧
        normInf E1 ≤ (1 + snorm (min a.rank sk.length) sk) * C02.normTol (key.base2k * convSize a key) (a.base2k * a.size) ∧
        normInf E3 ≤ (1 + snorm (min rout sk.length) sk) * C02.normTol (bout * sout) (key.base2k * key.mat.size) ∧
        (2 : Ks.R N) ^ (a.base2k * a.size + key.base2k * key.mat.size) * Ks.ι N (valP bout N (phase sk res))
          = ((sgA .sub : ℤ) : Ks.R N) *
              ((2 : Ks.R N) ^ (bout * sout + key.base2k * key.mat.size) * Ks.ι N (σ key.p (valP a.base2k N (phase sk a)))
                + Ks.ι N (σ key.p (ksErr (2 ^ (bout * sout + key.base2k * (key.mat.size - convSize a key)))
                    (2 ^ (a.base2k * a.size + bout * sout)) 0 E1 (Ks.errL N key.base2k (aDftOf aConv) key EL)
                    (Ks.dropL N key.base2k (sk.map (σ gInv)) (aDftOf aConv) key) (zeroP N))))
            + ((sgB .sub : ℤ) : Ks.R N) *
              ((2 : Ks.R N) ^ (bout * sout + key.base2k * key.mat.size) * Ks.ι N (valP a.base2k N (phase sk a))
                + Ks.ι N (polyScale (2 ^ (bout * sout + key.base2k * (key.mat.size - convSize a key))) E1))
            + Ks.ι N (polyScale (2 ^ (a.base2k * a.size)) E3)
            + (2 : Ks.R N) ^ (a.base2k * a.size + bout * sout + key.base2k * key.mat.size) * Q ∧
        normInf (σ key.p (ksErr (2 ^ (bout * sout + key.base2k * (key.mat.size - convSize a key)))
                    (2 ^ (a.base2k * a.size + bout * sout)) 0 E1 (Ks.errL N key.base2k (aDftOf aConv) key EL)
                    (Ks.dropL N key.base2k (sk.map (σ gInv)) (aDftOf aConv) key) (zeroP N)))
          ≤ 2 ^ (bout * sout + key.base2k * (key.mat.size - convSize a key)) *
              ((1 + snorm (min a.rank sk.length) sk) * C02.normTol (key.base2k * convSize a key) (a.base2k * a.size))
            + 2 ^ (a.base2k * a.size + bout * sout) * gadgetBound N key.base2k (aDftOf aConv) key EL
            + 2 ^ (a.base2k * a.size + bout * sout) * dropBound N key.base2k (sk.map (σ gInv)) (aDftOf aConv) key := by
  rw [automorphismFused_dft0_irrelevant .sub big128 N dft0 bout sout rout a key hD hc0 ha.1 hdwf hdn hdc hds hdm]
  exact glwe_automorphism_sub_decrypts big128 N bout sout rout a key sk gInv EL KL Hin Hp hN hg hsk hinv ha hrank hrout hra hc0 hD hM hS hbi1 hbi hbk1 hbk hbo1 hbo hIn0 hIn hInB hHp0 hAcc hprod hs hEL hKL hkey hcov1 hcov2

/-- `glwe_automorphism_sub_negate`, arbitrary `res_dft` scratch content -/
theorem glwe_automorphism_sub_negate_decrypts_any (big128 : Bool) (N bout sout rout : Nat) (a : Ks.Ct) (key : Ks.Key) (dft0 : Buf)
    (sk : List Poly) (gInv : Int) (EL KL : ℕ → ℕ → Poly) (Hin Hp : Int)
    (hN : 0 < N) (hg : GalOk key.p N) (hsk : Ks.AllLen N sk) (hinv : ∀ s ∈ sk, σ key.p (σ gInv s) = s)
    (ha : GWF N a) (hrank : a.rank = key.rankIn) (hrout : rout = key.rankOut) (hra : a.rank = rout) (hc0 : 0 < key.mat.colsOut)
    (hD : 1 ≤ key.dsize) (hM : ∀ j q, (key.mat.entry j q).length = N) (hS : key.mat.rows * key.dsize ≤ key.mat.size)
    (hbi1 : 1 ≤ a.base2k) (hbi : a.base2k ≤ 62) (hbk1 : 1 ≤ key.base2k) (hbk : key.base2k ≤ 62) (hbo1 : 1 ≤ bout) (hbo : bout ≤ 62)
    (hIn0 : 0 ≤ Hin) (hIn : Hin + 8 ≤ 2 ^ 62) (hInB : ∀ c ∈ a.cols, ∀ l ∈ c, ∀ x ∈ l, |x| ≤ Hin)
    (hHp0 : 0 ≤ Hp) (hAcc : Hp + 2 * (Hin + 2 ^ key.base2k) + 8 ≤ 2 ^ (bitsOf big128 - 2))
    (hprod : ∀ aConv, Ks.convIn a key = .ok aConv → ∀ i, i < rout + 1 → ∀ l ∈ (prodOf rout aConv key).act i, ∀ x ∈ l, |x| ≤ Hp)
    (hs : key.mat.colsIn ≤ sk.length)
    (hEL : ∀ i r, (EL i r).length = N) (hKL : ∀ i r, (KL i r).length = N)
    (hkey : ∀ i, i < key.mat.colsIn → ∀ r, r < key.mat.rows →
      Gadget.val (Ks.radix N key.base2k) key.mat.size (Ks.keyPhase N (sk.map (σ gInv)) key.mat i r) =
        Ks.ι N (sk.getD i []) * Ks.radix N key.base2k ^ (key.mat.size - (r + 1) * key.dsize) + Ks.ι N (EL i r)
          + Ks.radix N key.base2k ^ key.mat.size * Ks.ι N (KL i r))
    (hcov1 : convSize a key ≤ key.mat.size) (hcov2 : convSize a key ≤ key.mat.rows * key.dsize)
    (hdwf : dft0.WF) (hdn : dft0.n = N) (hdc : dft0.cols = rout + 1) (hds : dft0.size = key.mat.size) (hdm : dft0.maxSize = key.mat.size) :
    ∃ res aConv, Ks.automorphismFused .subNegate big128 dft0 bout sout rout a key = .ok res ∧
      Ks.convIn a key = .ok aConv ∧ GWF N res ∧ res.base2k = bout ∧ res.size = sout ∧ res.rank = rout ∧
      ∃ (E1 E3 : Poly) (Q : Ks.R N), E1.length = N ∧ E3.length = N ∧
        normInf E1 ≤ (1 + snorm (min a.rank sk.length) sk) * C02.normTol (key.base2k * convSize a key) (a.base2k * a.size) ∧
        normInf E3 ≤ (1 + snorm (min rout sk.length) sk) * C02.normTol (bout * sout) (key.base2k * key.mat.size) ∧
        (2 : Ks.R N) ^ (a.base2k * a.size + key.base2k * key.mat.size) * Ks.ι N (valP bout N (phase sk res))
          = ((sgA .subNegate : ℤ) : Ks.R N) *
              ((2 : Ks.R N) ^ (bout * sout + key.base2k * key.mat.size) * Ks.ι N (σ key.p (valP a.base2k N (phase sk a)))
                + Ks.ι N (σ key.p (ksErr (2 ^ (bout * sout + key.base2k * (key.mat.size - convSize a key)))
                    (2 ^ (a.base2k * a.size + bout * sout)) 0 E1 (Ks.errL N key.base2k (aDftOf aConv) key EL)
                    (Ks.dropL N key.base2k (sk.map (σ gInv)) (aDftOf aConv) key) (zeroP N))))
            + ((sgB .subNegate : ℤ) : Ks.R N) *
              ((2 : Ks.R N) ^ (bout * sout + key.base2k * key.mat.size) * Ks.ι N (valP a.base2k N (phase sk a))
                + Ks.ι N (polyScale (2 ^ (bout * sout + key.base2k * (key.mat.size - convSize a key))) E1))
            + Ks.ι N (polyScale (2 ^ (a.base2k * a.size)) E3)
            + (2 : Ks.R N) ^ (a.base2k * a.size + bout * sout + key.base2k * key.mat.size) * Q ∧
        normInf (σ key.p (ksErr (2 ^ (bout * sout + key.base2k * (key.mat.size - convSize a key)))
                    (2 ^ (a.base2k * a.size + bout * sout)) 0 E1 (Ks.errL N key.base2k (aDftOf aConv) key EL)
                    (Ks.dropL N key.base2k (sk.map (σ gInv)) (aDftOf aConv) key) (zeroP N)))
          ≤ 2 ^ (bout * sout + key.base2k * (key.mat.size - convSize a key)) *
              ((1 + snorm (min a.rank sk.length) sk) * C02.normTol (key.base2k * convSize a key) (a.base2k * a.size))
            + 2 ^ (a.base2k * a.size + bout * sout) * gadgetBound N key.base2k (aDftOf aConv) key EL
            + 2 ^ (a.base2k * a.size + bout * sout) * dropBound N key.base2k (sk.map (σ gInv)) (aDftOf aConv) key := by
  rw [automorphismFused_dft0_irrelevant .subNegate big128 N dft0 bout sout rout a key hD hc0 ha.1 hdwf hdn hdc hds hdm]
  exact glwe_automorphism_sub_negate_decrypts big128 N bout sout rout a key sk gInv EL KL Hin Hp hN hg hsk hinv ha hrank hrout hra hc0 hD hM hS hbi1 hbi hbk1 hbk hbo1 hbo hIn0 hIn hInB hHp0 hAcc hprod hs hEL hKL hkey hcov1 hcov2

/-- the in-place fused forms `glwe_automorphism_{add,sub,sub_negate}_assign`, arbitrary `res_dft` scratch content -/
theorem glwe_automorphism_fused_assign_decrypts_any (f : Ks.Fused) (big128 : Bool) (N : Nat) (a : Ks.Ct) (key : Ks.Key) (dft0 : Buf)
    (sk : List Poly) (gInv : Int) (EL KL : ℕ → ℕ → Poly) (Hin Hp : Int)
    (hN : 0 < N) (hg : GalOk key.p N) (hsk : Ks.AllLen N sk) (hinv : ∀ s ∈ sk, σ key.p (σ gInv s) = s)
    (ha : GWF N a) (hrank : a.rank = key.rankIn) (hrout : a.rank = key.rankOut) (hc0 : 0 < key.mat.colsOut)
    (hD : 1 ≤ key.dsize) (hM : ∀ j q, (key.mat.entry j q).length = N) (hS : key.mat.rows * key.dsize ≤ key.mat.size)
    (hbi1 : 1 ≤ a.base2k) (hbi : a.base2k ≤ 62) (hbk1 : 1 ≤ key.base2k) (hbk : key.base2k ≤ 62)
    (hIn0 : 0 ≤ Hin) (hIn : Hin + 8 ≤ 2 ^ 62) (hInB : ∀ c ∈ a.cols, ∀ l ∈ c, ∀ x ∈ l, |x| ≤ Hin)
    (hHp0 : 0 ≤ Hp) (hAcc : Hp + 2 * (Hin + 2 ^ key.base2k) + 8 ≤ 2 ^ (bitsOf big128 - 2))
    (hprod : ∀ aConv, Ks.convIn a key = .ok aConv → ∀ i, i < a.rank + 1 → ∀ l ∈ (prodOf a.rank aConv key).act i, ∀ x ∈ l, |x| ≤ Hp)
    (hs : key.mat.colsIn ≤ sk.length)
    (hEL : ∀ i r, (EL i r).length = N) (hKL : ∀ i r, (KL i r).length = N)
    (hkey : ∀ i, i < key.mat.colsIn → ∀ r, r < key.mat.rows →
      Gadget.val (Ks.radix N key.base2k) key.mat.size (Ks.keyPhase N (sk.map (σ gInv)) key.mat i r) =
        Ks.ι N (sk.getD i []) * Ks.radix N key.base2k ^ (key.mat.size - (r + 1) * key.dsize) + Ks.ι N (EL i r)
          + Ks.radix N key.base2k ^ key.mat.size * Ks.ι N (KL i r))
    (hcov1 : convSize a key ≤ key.mat.size) (hcov2 : convSize a key ≤ key.mat.rows * key.dsize)
    (hdwf : dft0.WF) (hdn : dft0.n = N) (hdc : dft0.cols = a.rank + 1) (hds : dft0.size = key.mat.size) (hdm : dft0.maxSize = key.mat.size) :
    ∃ res aConv, Ks.automorphismFused f big128 dft0 a.base2k a.size a.rank a key = .ok res ∧
      Ks.convIn a key = .ok aConv ∧ GWF N res ∧ res.base2k = a.base2k ∧ res.size = a.size ∧ res.rank = a.rank ∧
      ∃ (E1 E3 : Poly) (Q : Ks.R N), E1.length = N ∧ E3.length = N ∧
        normInf E1 ≤ (1 + snorm (min a.rank sk.length) sk) * C02.normTol (key.base2k * convSize a key) (a.base2k * a.size) ∧
        normInf E3 ≤ (1 + snorm (min a.rank sk.length) sk) * C02.normTol (a.base2k * a.size) (key.base2k * key.mat.size) ∧
        (2 : Ks.R N) ^ (a.base2k * a.size + key.base2k * key.mat.size) * Ks.ι N (valP a.base2k N (phase sk res))
          = (sgA f : Ks.R N) *
              ((2 : Ks.R N) ^ (a.base2k * a.size + key.base2k * key.mat.size) * Ks.ι N (σ key.p (valP a.base2k N (phase sk a)))
                + Ks.ι N (σ key.p (ksErr (2 ^ (a.base2k * a.size + key.base2k * (key.mat.size - convSize a key)))
                    (2 ^ (a.base2k * a.size + a.base2k * a.size)) 0 E1 (Ks.errL N key.base2k (aDftOf aConv) key EL)
                    (Ks.dropL N key.base2k (sk.map (σ gInv)) (aDftOf aConv) key) (zeroP N))))
            + (sgB f : Ks.R N) *
              ((2 : Ks.R N) ^ (a.base2k * a.size + key.base2k * key.mat.size) * Ks.ι N (valP a.base2k N (phase sk a))
                + Ks.ι N (polyScale (2 ^ (a.base2k * a.size + key.base2k * (key.mat.size - convSize a key))) E1))
            + Ks.ι N (polyScale (2 ^ (a.base2k * a.size)) E3)
            + (2 : Ks.R N) ^ (a.base2k * a.size + a.base2k * a.size + key.base2k * key.mat.size) * Q ∧
        normInf (σ key.p (ksErr (2 ^ (a.base2k * a.size + key.base2k * (key.mat.size - convSize a key)))
                    (2 ^ (a.base2k * a.size + a.base2k * a.size)) 0 E1 (Ks.errL N key.base2k (aDftOf aConv) key EL)
                    (Ks.dropL N key.base2k (sk.map (σ gInv)) (aDftOf aConv) key) (zeroP N)))
          ≤ 2 ^ (a.base2k * a.size + key.base2k * (key.mat.size - convSize a key)) *
              ((1 + snorm (min a.rank sk.length) sk) * C02.normTol (key.base2k * convSize a key) (a.base2k * a.size))
            + 2 ^ (a.base2k * a.size + a.base2k * a.size) * gadgetBound N key.base2k (aDftOf aConv) key EL
            + 2 ^ (a.base2k * a.size + a.base2k * a.size) * dropBound N key.base2k (sk.map (σ gInv)) (aDftOf aConv) key := by
  rw [automorphismFused_dft0_irrelevant f big128 N dft0 a.base2k a.size a.rank a key hD hc0 ha.1 hdwf hdn hdc hds hdm]
  exact glwe_automorphism_fused_assign_decrypts f big128 N a key sk gInv EL KL Hin Hp hN hg hsk hinv ha hrank hrout hc0 hD hM hS hbi1 hbi hbk1 hbk hIn0 hIn hInB hHp0 hAcc hprod hs hEL hKL hkey hcov1 hcov2

/-! ### closed instances: the former defect witnesses (garbage in the un-zeroed scratch) -/

/-- a garbage `res_dft` for the `N = 2`, rank-1, `dsize = 1` key `exKeyG3` (2 columns × 2 limbs) -/
def dirtyG3 : Buf := { n := 2, cols := 2, size := 2, maxSize := 2, data := [[[7, -3], [5, 1]], [[9, 9], [-4, 2]]] }

theorem dirtyG3_WF : dirtyG3.WF := by unfold Buf.WF; decide

/-- by the theorem: the three fused forms, both accumulator widths -/
example (f : Ks.Fused) (big128 : Bool) :
    Ks.automorphismFused f big128 dirtyG3 3 2 1 exCtN2 exKeyG3 =
      Ks.automorphismFused f big128 (Ks.zeroBuf 2 (1 + 1) exKeyG3.size) 3 2 1 exCtN2 exKeyG3 :=
  automorphismFused_dft0_irrelevant f big128 2 dirtyG3 3 2 1 exCtN2 exKeyG3 (by decide) (by decide) rfl dirtyG3_WF rfl rfl rfl rfl

/-- and by evaluation of the executable model -/
example : Ks.automorphismFused .add false dirtyG3 3 2 1 exCtN2 exKeyG3 =
    Ks.automorphismFused .add false (Ks.zeroBuf 2 (1 + 1) exKeyG3.size) 3 2 1 exCtN2 exKeyG3 := by decide

/-- a rank-1 → rank-1 key on `N = 1` with `dsize = 3` (one row, 4 limbs): the branch whose first pass skips limbs -/
def exKeyR1 : Ks.Key := ⟨4, 3, 1, ⟨1, 1, 1, 2, 4, [[[[1], [1], [1], [1]], [[0], [1], [0], [1]]]]⟩⟩

/-- garbage in every limb, in particular in limb 3 (the limb pass 0 skips) -/
def dirtyR1 : Buf := { n := 1, cols := 2, size := 4, maxSize := 4, data := [[[0], [0], [0], [5]], [[7], [-7], [7], [9]]] }

theorem dirtyR1_WF : dirtyR1.WF := by unfold Buf.WF; decide

example (f : Ks.Fused) (big128 : Bool) :
    Ks.automorphismFused f big128 dirtyR1 3 2 1 exCt exKeyR1 =
      Ks.automorphismFused f big128 (Ks.zeroBuf 1 (1 + 1) exKeyR1.size) 3 2 1 exCt exKeyR1 :=
  automorphismFused_dft0_irrelevant f big128 1 dirtyR1 3 2 1 exCt exKeyR1 (by decide) (by decide) rfl dirtyR1_WF rfl rfl rfl rfl

/-- and by evaluation of the executable model (kernel reduction), the three forms and both accumulator widths -/
example (f : Ks.Fused) (big128 : Bool) :
    Ks.automorphismFused f big128 dirtyR1 3 2 1 exCt exKeyR1 =
      Ks.automorphismFused f big128 (Ks.zeroBuf 1 (1 + 1) exKeyR1.size) 3 2 1 exCt exKeyR1 := by
  cases f <;> cases big128 <;> decide +kernel

/-- the value both calls return for `glwe_automorphism_add` on FFT64 -/
example : Ks.automorphismFused .add false dirtyR1 3 2 1 exCt exKeyR1 = .ok (Ks.mkCt 3 1 [[[3], [-4]], [[1], [-4]]]) := by
  decide +kernel

/-- the accumulator of `glwe_keyswitch_internal` on the garbage scratch: limb 3 (garbage `5`, `9`) is zeroed -/
example : Ks.keyswitchInternal false dirtyR1 exCt exKeyR1 =
    .ok { n := 1, cols := 2, size := 4, maxSize := 4, data := [[[3], [1], [0], [0]], [[0], [1], [0], [0]]] } := by
  rfl

/-- the product buffers themselves are equal -/
example : Ks.gglweProductDft dirtyR1 (aDftOf exCt) exKeyR1 = Ks.gglweProductDft (Ks.zeroBuf 1 2 4) (aDftOf exCt) exKeyR1 :=
  product_dft0_irrelevant dirtyR1 (Ks.zeroBuf 1 2 4) (aDftOf exCt) exKeyR1 (by decide) dirtyR1_WF (Ks.zeroBuf_WF _ _ _)
    rfl rfl rfl rfl rfl rfl rfl rfl

/-- the end-to-end theorem on a dirty scratch: the three fused forms with `g = 3` on `N = 2`, both accumulator widths -/
example (f : Ks.Fused) (big128 : Bool) :
    ∃ res aConv, Ks.automorphismFused f big128 dirtyG3 3 2 1 exCtN2 exKeyG3 = .ok res ∧
      Ks.convIn exCtN2 exKeyG3 = .ok aConv ∧ GWF 2 res ∧ res.base2k = 3 ∧ res.size = 2 ∧ res.rank = 1 := by
  have hM := Ks.entry_length exKeyG3.mat 2 rfl (by decide)
  obtain ⟨res, aConv, h1, h2, h3, h4, h5, h6, _⟩ :=
    glwe_automorphism_fused_decrypts_any f big128 2 3 2 1 exCtN2 exKeyG3 dirtyG3 exSk2 3 exELG3 (fun _ _ => [0, 0]) 2 2
      (by decide) exG3_ok (by intro p hp; simp [exSk2] at hp; subst hp; rfl) (by intro s hs; simp [exSk2] at hs; subst hs; decide)
      (by decide) rfl rfl rfl (by decide) (by decide) hM (by decide)
      (by decide) (by decide) (by decide) (by decide) (by decide) (by decide)
      (by norm_num) (by norm_num)
      (by intro c hc l hl x hx; revert x l c; decide)
      (by norm_num) (by cases big128 <;> (show (2 : ℤ) + 2 * (2 + 2 ^ 4) + 8 ≤ _; norm_num [bitsOf]))
      exG3_prod (by decide)
      (fun i r => Ks.keyErrL_length 2 4 _ exKeyG3 _ i r (by decide) hM (fun _ => rfl))
      (fun _ _ => rfl)
      (fun i hi r _ => exG3_key i hi r)
      (by decide) (by decide)
      dirtyG3_WF rfl rfl rfl rfl
  exact ⟨res, aConv, h1, h2, h3, h4, h5, h6⟩

end KsDec
