import Poulpy.Model.Core.Mul
import Poulpy.Model.Core.Expand
import Poulpy.Lemmas.ExpandIdx
import Poulpy.Lemmas.MulTensor

/-!
Column-wise closed form of the tensor loops (`glwe_tensor_apply`, `_add_assign`, `_square_apply`) for EVERY rank: the loops are folds of
column updates (`mulUpdCol`), the final content of a column is the fold of the updates that hit it, and the column index
`(i, j) ↦ colIdx cols i 0 + j` is injective on `i ≤ j < cols`.
-/

namespace Core

/-- a column update: target column and function -/
abbrev Upd := Nat × (Col → Col)

def applyU (st : List Col) (u : Upd) : List Col := mulUpdCol st u.1 u.2

theorem mulUpdCol_length (st : List Col) (c : Nat) (f : Col → Col) : (mulUpdCol st c f).length = st.length := by
  simp [mulUpdCol]

theorem mulUpdCol_getD (st : List Col) (c : Nat) (f : Col → Col) (c' : Nat) :
    (mulUpdCol st c f).getD c' [] = if c' = c ∧ c < st.length then f (st.getD c []) else st.getD c' [] := by
  unfold mulUpdCol
  rw [List.getD_eq_getElem?_getD, List.getElem?_set]
  by_cases h : c = c'
  · subst h
    by_cases h2 : c < st.length
    · simp [h2]
    · simp [h2, List.getD_eq_getElem?_getD]
  · have : ¬ (c' = c ∧ c < st.length) := fun hh => h hh.1.symm
    simp [h, this, List.getD_eq_getElem?_getD]

theorem mulUpdCol_id (st : List Col) (c : Nat) : mulUpdCol st c id = st := by
  unfold mulUpdCol
  by_cases h : c < st.length
  · simp [List.getD_eq_getElem?_getD, List.getElem?_eq_getElem h]
  · simp [List.set_eq_of_length_le (by omega : st.length ≤ c)]

theorem mulUpdCol_comp (st : List Col) (c : Nat) (f g : Col → Col) :
    mulUpdCol (mulUpdCol st c f) c g = mulUpdCol st c (g ∘ f) := by
  unfold mulUpdCol
  by_cases h : c < st.length
  · simp [List.getD_eq_getElem?_getD, h]
  · simp [List.set_eq_of_length_le (by omega : st.length ≤ c)]

/-- the content of column `c` after the updates of `L` that hit it -/
def colFold (L : List Upd) (c : Nat) (v : Col) : Col := L.foldl (fun v u => if u.1 = c then u.2 v else v) v

theorem colFold_nil (c : Nat) (v : Col) : colFold [] c v = v := rfl
theorem colFold_cons (u : Upd) (L : List Upd) (c : Nat) (v : Col) :
    colFold (u :: L) c v = colFold L c (if u.1 = c then u.2 v else v) := rfl
theorem colFold_append (L1 L2 : List Upd) (c : Nat) (v : Col) : colFold (L1 ++ L2) c v = colFold L2 c (colFold L1 c v) := by
  unfold colFold; rw [List.foldl_append]

theorem colFold_flatMap {α} (l : List α) (f : α → List Upd) (c : Nat) (v : Col) :
    colFold (l.flatMap f) c v = l.foldl (fun v x => colFold (f x) c v) v := by
  induction l generalizing v with
  | nil => rfl
  | cons x xs ih => rw [List.flatMap_cons, colFold_append, ih]; rfl

theorem foldl_applyU_length (L : List Upd) (st : List Col) : (L.foldl applyU st).length = st.length := by
  induction L generalizing st with
  | nil => rfl
  | cons u us ih => rw [List.foldl_cons, ih]; exact mulUpdCol_length _ _ _

theorem foldl_applyU_getD (L : List Upd) (st : List Col) (c : Nat) (hc : c < st.length) :
    (L.foldl applyU st).getD c [] = colFold L c (st.getD c []) := by
  induction L generalizing st with
  | nil => rfl
  | cons u us ih =>
    rw [List.foldl_cons, ih (applyU st u) (by unfold applyU; rw [mulUpdCol_length]; exact hc), colFold_cons]
    congr 1
    unfold applyU
    rw [mulUpdCol_getD]
    by_cases h : u.1 = c
    · subst h; simp [hc]
    · have : ¬ (c = u.1 ∧ u.1 < st.length) := fun hh => h hh.1.symm
      simp [h, this]

/-! ### folds over `range` where few indices act -/

theorem foldl_range_none (n : Nat) (F : Nat → Col → Col) (h : ∀ k, k < n → F k = id) (v : Col) :
    (List.range n).foldl (fun v k => F k v) v = v := by
  induction n with
  | zero => rfl
  | succ m ih =>
    rw [List.range_succ, List.foldl_append]
    simp only [List.foldl_cons, List.foldl_nil]
    rw [ih (fun k hk => h k (by omega)), h m (by omega)]; rfl

theorem foldl_range_one (n : Nat) (F : Nat → Col → Col) (i : Nat) (hi : i < n) (h : ∀ k, k < n → k ≠ i → F k = id) (v : Col) :
    (List.range n).foldl (fun v k => F k v) v = F i v := by
  induction n with
  | zero => omega
  | succ m ih =>
    rw [List.range_succ, List.foldl_append]
    simp only [List.foldl_cons, List.foldl_nil]
    by_cases him : i = m
    · subst him
      rw [foldl_range_none i F (fun k hk => h k (by omega) (by omega))]
    · rw [ih (by omega) (fun k hk hki => h k (by omega) hki), h m (by omega) (fun e => him e.symm)]; rfl

theorem foldl_range_two (n : Nat) (F : Nat → Col → Col) (i j : Nat) (hij : i < j) (hj : j < n)
    (h : ∀ k, k < n → k ≠ i → k ≠ j → F k = id) (v : Col) :
    (List.range n).foldl (fun v k => F k v) v = F j (F i v) := by
  induction n with
  | zero => omega
  | succ m ih =>
    rw [List.range_succ, List.foldl_append]
    simp only [List.foldl_cons, List.foldl_nil]
    by_cases hjm : j = m
    · subst hjm
      rw [foldl_range_one j F i hij (fun k hk hki => h k (by omega) hki (by omega))]
    · rw [ih (by omega) (fun k hk hki hkj => h k (by omega) hki hkj), h m (by omega) (by omega) (fun e => hjm e.symm)]; rfl

/-- a mapped `range` of updates of which at most the one at `j0` hits column `c` -/
theorem colFold_range_map_one (n : Nat) (g : Nat → Upd) (c j0 : Nat)
    (h : ∀ j, j < n → j ≠ j0 → (g j).1 ≠ c ∨ (g j).2 = id) (v : Col) :
    colFold ((List.range n).map g) c v = if j0 < n ∧ (g j0).1 = c then (g j0).2 v else v := by
  unfold colFold
  rw [List.foldl_map]
  by_cases hj : j0 < n
  · rw [foldl_range_one n (fun j v => if (g j).1 = c then (g j).2 v else v) j0 hj (by
      intro k hk hkj
      funext v
      rcases h k hk hkj with h1 | h1
      · simp [h1]
      · simp [h1])]
    simp [hj]
  · rw [foldl_range_none n (fun j v => if (g j).1 = c then (g j).2 v else v) (by
      intro k hk
      funext v
      rcases h k hk (by omega) with h1 | h1
      · simp [h1]
      · simp [h1])]
    simp [hj]

/-! ### the column index -/

/-- column of the tensor holding the pair `(i, j)`, `i ≤ j` -/
def cix (cols i j : Nat) : Nat := colIdx cols i 0 + j

theorem cix_eq (cols i j : Nat) (h : i ≤ j) (hj : j < cols) : cix cols i j = secretTensorIdx cols i j := by
  rw [secretTensorIdx_le cols i j h]
  unfold cix colIdx
  have h1 := two_mul_tri i
  have h2 : i * (i + 1) ≤ 2 * (i * cols) := by nlinarith
  omega

theorem cix_inj (cols i j i' j' : Nat) (h : i ≤ j) (hj : j < cols) (h' : i' ≤ j') (hj' : j' < cols)
    (e : cix cols i j = cix cols i' j') : i = i' ∧ j = j' := by
  rw [cix_eq cols i j h hj, cix_eq cols i' j' h' hj'] at e
  exact secretTensorIdx_inj' cols i j i' j' h hj h' hj' e

theorem cix_lt (cols i j : Nat) (h : i ≤ j) (hj : j < cols) : cix cols i j < (cols + 1) * cols / 2 := by
  rw [cix_eq cols i j h hj]; exact secretTensorIdx_lt' cols i j h hj

/-! ### `glwe_tensor_apply` / `_add_assign` as a list of updates -/

def headU (acc : Bool) (n cols rs : Nat) (Dv : Nat → Col) (i : Nat) : Upd :=
  (cix cols i i, if acc then (fun r => vecAddAssignW w64 r (Dv i)) else (fun _ => vecCopy n rs (Dv i)))

def diagU (acc : Bool) (n cols rs : Nat) (Dv : Nat → Col) (i j : Nat) : Upd :=
  if j = i then (0, id)
  else if j < i then (cix cols j i, fun r => vecSubAssignW w64 r (Dv i))
  else if acc then (cix cols i j, fun r => vecSubAssignW w64 r (Dv i))
  else (cix cols i j, fun _ => vecNegate n rs (Dv i))

def diagList (acc : Bool) (n cols rs : Nat) (Dv : Nat → Col) (i : Nat) : List Upd :=
  headU acc n cols rs Dv i :: (List.range cols).map (diagU acc n cols rs Dv i)

theorem tensorDiagStep_eq (acc : Bool) (n cols rs : Nat) (Dv : Nat → Col) (st : List Col) (i : Nat) :
    tensorDiagStep acc n cols rs (Dv i) st i = (diagList acc n cols rs Dv i).foldl applyU st := by
  unfold tensorDiagStep diagList
  rw [List.foldl_cons, List.foldl_map]
  have hhead : (if acc then mulUpdCol st (colIdx cols i 0 + i) (fun r => vecAddAssignW w64 r (Dv i))
      else mulUpdCol st (colIdx cols i 0 + i) (fun _ => vecCopy n rs (Dv i))) = applyU st (headU acc n cols rs Dv i) := by
    unfold applyU headU cix
    cases acc <;> rfl
  simp only []
  rw [hhead]
  congr 1
  funext s j
  unfold applyU diagU cix
  by_cases h1 : j = i
  · simp [h1, mulUpdCol_id]
  · by_cases h2 : j < i
    · simp [h1, h2]
    · cases acc <;> simp [h1, h2]

def pairU (cols : Nat) (Pv : Nat → Nat → Col) (i j : Nat) : Upd :=
  if i < j then (cix cols i j, fun r => vecAddAssignW w64 r (Pv i j)) else (0, id)

/-- all updates of `tensorApplyCore`, in execution order -/
def applyList (acc : Bool) (n cols rs : Nat) (Dv : Nat → Col) (Pv : Nat → Nat → Col) : List Upd :=
  (List.range cols).flatMap (diagList acc n cols rs Dv) ++ (List.range cols).flatMap (fun i => (List.range cols).map (pairU cols Pv i))

theorem foldl_flatMap_applyU {α} (l : List α) (f : α → List Upd) (st : List Col) :
    (l.flatMap f).foldl applyU st = l.foldl (fun st x => (f x).foldl applyU st) st := by
  induction l generalizing st with
  | nil => rfl
  | cons x xs ih => rw [List.flatMap_cons, List.foldl_append, ih]; rfl

/-- Option-fold over `range` when every step is defined -/
theorem foldl_bind_some {σ τ} (m : Nat) (D : Nat → Option τ) (Dv : Nat → τ) (G : τ → σ → Nat → σ) (s0 : σ)
    (h : ∀ i, i < m → D i = some (Dv i)) :
    (List.range m).foldl (fun (st : Option σ) i => st.bind (fun s => (D i).map (fun tmp => G tmp s i))) (some s0)
      = some ((List.range m).foldl (fun s i => G (Dv i) s i) s0) := by
  induction m with
  | zero => rfl
  | succ k ih =>
    rw [List.range_succ, List.foldl_append, List.foldl_append, ih (fun i hi => h i (by omega))]
    simp [h k (by omega)]

theorem foldl_cond_bind_some {σ τ} (m : Nat) (C : Nat → Prop) [DecidablePred C] (D : Nat → Option τ) (Dv : Nat → τ) (G : τ → σ → Nat → σ)
    (s0 : σ) (h : ∀ j, j < m → C j → D j = some (Dv j)) :
    (List.range m).foldl (fun (st : Option σ) j => if C j then st.bind (fun s => (D j).map (fun tmp => G tmp s j)) else st) (some s0)
      = some ((List.range m).foldl (fun s j => if C j then G (Dv j) s j else s) s0) := by
  induction m with
  | zero => rfl
  | succ k ih =>
    rw [List.range_succ, List.foldl_append, List.foldl_append, ih (fun i hi => h i (by omega))]
    by_cases hc : C k
    · simp [hc, h k (by omega) hc]
    · simp [hc]

/-- **`tensorApplyCore` is the fold of its update list** when every normalised product is defined -/
theorem tensorApplyCore_some (acc : Bool) (n cols rs : Nat) (D : Nat → Option Col) (P : Nat → Nat → Option Col)
    (Dv : Nat → Col) (Pv : Nat → Nat → Col) (res0 : List Col)
    (hD : ∀ i, i < cols → D i = some (Dv i)) (hP : ∀ i j, i < j → j < cols → P i j = some (Pv i j)) :
    tensorApplyCore acc n cols rs D P res0 = some ((applyList acc n cols rs Dv Pv).foldl applyU res0) := by
  unfold tensorApplyCore applyList
  rw [List.foldl_append, foldl_flatMap_applyU, foldl_flatMap_applyU]
  have h1 := foldl_bind_some cols D Dv (fun tmp st i => tensorDiagStep acc n cols rs tmp st i) res0 hD
  simp only [] at h1 ⊢
  rw [h1]
  have e1 : (List.range cols).foldl (fun s i => tensorDiagStep acc n cols rs (Dv i) s i) res0
      = (List.range cols).foldl (fun st x => (diagList acc n cols rs Dv x).foldl applyU st) res0 := by
    congr 1
    funext s i
    exact tensorDiagStep_eq acc n cols rs Dv s i
  rw [e1]
  generalize (List.range cols).foldl (fun st x => (diagList acc n cols rs Dv x).foldl applyU st) res0 = st1
  -- the pair loops
  have houter : ∀ m, m ≤ cols → ∀ s1 : List Col,
      (List.range m).foldl (fun (st : Option (List Col)) i =>
        (List.range cols).foldl (fun (st : Option (List Col)) j =>
          if i < j then st.bind (fun st => (P i j).map (fun tmp => mulUpdCol st (colIdx cols i 0 + j) (fun r => vecAddAssignW w64 r tmp)))
          else st) st) (some s1)
      = some ((List.range m).foldl (fun st x => ((List.range cols).map (pairU cols Pv x)).foldl applyU st) s1) := by
    intro m
    induction m with
    | zero => intro _ _; rfl
    | succ k ih =>
      intro hk s1
      rw [List.range_succ, List.foldl_append, List.foldl_append, ih (by omega)]
      simp only [List.foldl_cons, List.foldl_nil]
      have h2 := foldl_cond_bind_some cols (fun j => k < j) (P k) (Pv k)
        (fun tmp st j => mulUpdCol st (colIdx cols k 0 + j) (fun r => vecAddAssignW w64 r tmp))
        ((List.range k).foldl (fun st x => ((List.range cols).map (pairU cols Pv x)).foldl applyU st) s1)
        (fun j hj hc => hP k j hc hj)
      rw [h2, List.foldl_map]
      congr 2
      funext s j
      unfold applyU pairU cix
      by_cases hkj : k < j
      · simp [hkj]
      · simp [hkj, mulUpdCol_id]
  exact houter cols (Nat.le_refl _) st1

/-! ### closed form of every column after `tensorApplyCore` -/

theorem diagU_fst_ne (acc : Bool) (n cols rs : Nat) (Dv : Nat → Col) (i' j' c : Nat) (hi' : i' < cols) (hj' : j' < cols)
    (h : ∀ a b, a < b → b < cols → (a = min i' j' ∧ b = max i' j') → c ≠ cix cols a b) :
    (diagU acc n cols rs Dv i' j').1 ≠ c ∨ (diagU acc n cols rs Dv i' j').2 = id := by
  unfold diagU
  by_cases h1 : j' = i'
  · right; simp [h1]
  · by_cases h2 : j' < i'
    · left
      simp only [h1, h2, if_false, if_true]
      exact fun e => h j' i' h2 hi' ⟨by omega, by omega⟩ e.symm
    · left
      have h3 : i' < j' := by omega
      cases acc <;> simp only [h1, h2, if_false, if_true, Bool.false_eq_true] <;>
        exact fun e => h i' j' h3 hj' ⟨by omega, by omega⟩ e.symm

/-- effect of the diagonal step `i'` on column `c` -/
def diagF (acc : Bool) (n cols rs : Nat) (Dv : Nat → Col) (c i' : Nat) (v : Col) : Col := colFold (diagList acc n cols rs Dv i') c v

theorem diagF_id (acc : Bool) (n cols rs : Nat) (Dv : Nat → Col) (c i' : Nat) (hi' : i' < cols)
    (hhead : c ≠ cix cols i' i')
    (h : ∀ a b, a < b → b < cols → (a = i' ∨ b = i') → c ≠ cix cols a b) :
    diagF acc n cols rs Dv c i' = id := by
  funext v
  unfold diagF diagList
  rw [colFold_cons]
  have e : (headU acc n cols rs Dv i').1 = cix cols i' i' := rfl
  rw [e, if_neg (fun e => hhead e.symm)]
  rw [colFold_range_map_one cols _ c cols (fun j hj _ => diagU_fst_ne acc n cols rs Dv i' j c hi' hj (fun a b hab hb hm => by
    apply h a b hab hb
    rcases hm with ⟨h1, h2⟩
    by_cases hx : i' ≤ j
    · left; rw [h1]; exact Nat.min_eq_left hx
    · right; rw [h2]; exact Nat.max_eq_left (by omega))) v]
  simp

theorem applyList_diag (acc : Bool) (n cols rs : Nat) (Dv : Nat → Col) (Pv : Nat → Nat → Col) (i : Nat) (hi : i < cols) (v : Col) :
    colFold (applyList acc n cols rs Dv Pv) (cix cols i i) v = (headU acc n cols rs Dv i).2 v := by
  unfold applyList
  rw [colFold_append, colFold_flatMap, colFold_flatMap]
  have hne : ∀ a b, a < b → b < cols → cix cols i i ≠ cix cols a b := by
    intro a b hab hb e
    have := cix_inj cols i i a b (Nat.le_refl _) hi (by omega) hb e
    omega
  -- diagonal loop: only step `i` acts, through its head update
  have hd : (List.range cols).foldl (fun v x => colFold (diagList acc n cols rs Dv x) (cix cols i i) v) v = (headU acc n cols rs Dv i).2 v := by
    have := foldl_range_one cols (diagF acc n cols rs Dv (cix cols i i)) i hi (by
      intro k hk hki
      apply diagF_id acc n cols rs Dv _ k hk
      · intro e
        have := cix_inj cols i i k k (Nat.le_refl _) hi (Nat.le_refl _) hk e
        omega
      · intro a b hab hb _
        exact hne a b hab hb) v
    unfold diagF at this
    rw [this]
    unfold diagList
    rw [colFold_cons]
    have e : (headU acc n cols rs Dv i).1 = cix cols i i := rfl
    rw [e, if_pos rfl]
    rw [colFold_range_map_one cols _ _ cols (fun j hj _ => diagU_fst_ne acc n cols rs Dv i j _ hi hj (fun a b hab hb _ => hne a b hab hb))]
    simp
  rw [hd]
  -- pair loop: nothing hits a diagonal column
  apply foldl_range_none cols (fun x v => colFold ((List.range cols).map (pairU cols Pv x)) (cix cols i i) v)
  intro k hk
  funext w
  rw [colFold_range_map_one cols _ _ cols (fun j hj _ => by
    unfold pairU
    by_cases hkj : k < j
    · left; simp only [hkj, if_true]; exact fun e => hne k j hkj hj e.symm
    · right; simp [hkj])]
  simp

theorem applyList_off (acc : Bool) (n cols rs : Nat) (Dv : Nat → Col) (Pv : Nat → Nat → Col) (i j : Nat) (hij : i < j) (hj : j < cols) (v : Col) :
    colFold (applyList acc n cols rs Dv Pv) (cix cols i j) v
      = vecAddAssignW w64 (vecSubAssignW w64 (if acc then vecSubAssignW w64 v (Dv i) else vecNegate n rs (Dv i)) (Dv j)) (Pv i j) := by
  have hi : i < cols := by omega
  unfold applyList
  rw [colFold_append, colFold_flatMap, colFold_flatMap]
  have hne : ∀ a b, a < b → b < cols → (a ≠ i ∨ b ≠ j) → cix cols i j ≠ cix cols a b := by
    intro a b hab hb hd e
    have := cix_inj cols i j a b (by omega) hj (by omega) hb e
    omega
  have hned : ∀ k, k < cols → cix cols i j ≠ cix cols k k := by
    intro k hk e
    have := cix_inj cols i j k k (by omega) hj (Nat.le_refl _) hk e
    omega
  have hd : (List.range cols).foldl (fun v x => colFold (diagList acc n cols rs Dv x) (cix cols i j) v) v
      = vecSubAssignW w64 (if acc then vecSubAssignW w64 v (Dv i) else vecNegate n rs (Dv i)) (Dv j) := by
    have := foldl_range_two cols (diagF acc n cols rs Dv (cix cols i j)) i j hij hj (by
      intro k hk hki hkj
      apply diagF_id acc n cols rs Dv _ k hk (hned k hk)
      intro a b hab hb hor
      apply hne a b hab hb
      rcases hor with h | h
      · left; omega
      · right; omega) v
    unfold diagF at this
    rw [this]
    -- step i: the update at j' = j; step j: the update at j' = i
    have hstep_i : colFold (diagList acc n cols rs Dv i) (cix cols i j) v
        = if acc then vecSubAssignW w64 v (Dv i) else vecNegate n rs (Dv i) := by
      unfold diagList
      rw [colFold_cons]
      have e : (headU acc n cols rs Dv i).1 = cix cols i i := rfl
      rw [e, if_neg (fun e => hned i hi e.symm)]
      rw [colFold_range_map_one cols _ _ j (fun j' hj' hjj => diagU_fst_ne acc n cols rs Dv i j' _ hi hj' (fun a b hab hb hm => by
        apply hne a b hab hb
        rcases hm with ⟨h1, h2⟩
        by_cases hx : i ≤ j'
        · right; rw [h2, Nat.max_eq_right hx]; exact hjj
        · left; rw [h1, Nat.min_eq_right (by omega)]; omega))]
      unfold diagU
      have h1 : ¬ j = i := by omega
      have h2 : ¬ j < i := by omega
      cases acc <;> simp [h1, h2, hj]
    have hstep_j : ∀ w, colFold (diagList acc n cols rs Dv j) (cix cols i j) w = vecSubAssignW w64 w (Dv j) := by
      intro w
      unfold diagList
      rw [colFold_cons]
      have e : (headU acc n cols rs Dv j).1 = cix cols j j := rfl
      rw [e, if_neg (fun e => hned j hj e.symm)]
      rw [colFold_range_map_one cols _ _ i (fun j' hj' hjj => diagU_fst_ne acc n cols rs Dv j j' _ hj hj' (fun a b hab hb hm => by
        apply hne a b hab hb
        rcases hm with ⟨h1, h2⟩
        by_cases hx : j ≤ j'
        · left; rw [h1, Nat.min_eq_left hx]; omega
        · left; rw [h1, Nat.min_eq_right (by omega)]; exact hjj))]
      unfold diagU
      have h1 : ¬ i = j := by omega
      simp [h1, hij, hi]
    rw [hstep_i, hstep_j]
  rw [hd]
  -- pair loop: only (i, j)
  have hp := foldl_range_one cols (fun x w => colFold ((List.range cols).map (pairU cols Pv x)) (cix cols i j) w) i hi (by
    intro k hk hki
    funext w
    rw [colFold_range_map_one cols _ _ cols (fun j' hj' _ => by
      unfold pairU
      by_cases hkj : k < j'
      · left; simp only [hkj, if_true]; exact fun e => hne k j' hkj hj' (Or.inl hki) e.symm
      · right; simp [hkj])]
    simp)
  rw [hp]
  rw [colFold_range_map_one cols _ _ j (fun j' hj' hjj => by
    unfold pairU
    by_cases hkj : i < j'
    · left; simp only [hkj, if_true]; exact fun e => hne i j' hkj hj' (Or.inr hjj) e.symm
    · right; simp [hkj])]
  unfold pairU
  simp [hij, hj]

theorem applyList_miss (acc : Bool) (n cols rs : Nat) (Dv : Nat → Col) (Pv : Nat → Nat → Col) (c : Nat)
    (h : ∀ i j, i ≤ j → j < cols → c ≠ cix cols i j) (v : Col) :
    colFold (applyList acc n cols rs Dv Pv) c v = v := by
  unfold applyList
  rw [colFold_append, colFold_flatMap, colFold_flatMap]
  have hd : (List.range cols).foldl (fun v x => colFold (diagList acc n cols rs Dv x) c v) v = v := by
    apply foldl_range_none cols (diagF acc n cols rs Dv c)
    intro k hk
    exact diagF_id acc n cols rs Dv c k hk (h k k (Nat.le_refl _) hk) (fun a b hab hb _ => h a b (by omega) hb)
  rw [hd]
  apply foldl_range_none cols (fun x v => colFold ((List.range cols).map (pairU cols Pv x)) c v)
  intro k hk
  funext w
  rw [colFold_range_map_one cols _ _ cols (fun j hj _ => by
    unfold pairU
    by_cases hkj : k < j
    · left; simp only [hkj, if_true]; exact fun e => h k j (by omega) hj e.symm
    · right; simp [hkj])]
  simp

/-! ### `glwe_tensor_square_apply` as a list of updates -/

def copyU (n cols rs : Nat) (Dv : Nat → Col) (i : Nat) : Upd := (cix cols i i, fun _ => vecCopy n rs (Dv i))

def sqPairU (cols : Nat) (Dv : Nat → Col) (Pv : Nat → Nat → Col) (i j : Nat) : Upd :=
  if i < j then (cix cols i j, fun _ => vecSubAssignW w64 (vecSubAssignW w64 (Pv i j) (Dv i)) (Dv j)) else (0, id)

def squareList (n cols rs : Nat) (Dv : Nat → Col) (Pv : Nat → Nat → Col) : List Upd :=
  (List.range cols).map (copyU n cols rs Dv) ++ (List.range cols).flatMap (fun i => (List.range cols).map (sqPairU cols Dv Pv i))

theorem foldl_congr_mem {α β} (l : List α) (f g : β → α → β) (a : β) (h : ∀ s x, x ∈ l → f s x = g s x) :
    l.foldl f a = l.foldl g a := by
  induction l generalizing a with
  | nil => rfl
  | cons x xs ih =>
    rw [List.foldl_cons, List.foldl_cons, h a x List.mem_cons_self]
    exact ih _ (fun s y hy => h s y (List.mem_cons_of_mem _ hy))

theorem mapM_range_some {τ} (m : Nat) (D : Nat → Option τ) (Dv : Nat → τ) (h : ∀ i, i < m → D i = some (Dv i)) :
    (List.range m).mapM D = some ((List.range m).map Dv) := by
  induction m with
  | zero => rfl
  | succ k ih =>
    rw [List.range_succ, List.mapM_append, ih (fun i hi => h i (by omega))]
    simp [h k (by omega)]

theorem tensorSquareCore_some (n cols rs : Nat) (D : Nat → Option Col) (P : Nat → Nat → Option Col)
    (Dv : Nat → Col) (Pv : Nat → Nat → Col) (res0 : List Col)
    (hD : ∀ i, i < cols → D i = some (Dv i)) (hP : ∀ i j, i < j → j < cols → P i j = some (Pv i j)) :
    tensorSquareCore n cols rs D P res0 = some ((squareList n cols rs Dv Pv).foldl applyU res0) := by
  unfold tensorSquareCore squareList
  rw [mapM_range_some cols D Dv hD]
  simp only [Option.bind_some]
  rw [List.foldl_append, foldl_flatMap_applyU, List.foldl_map]
  have hget : ∀ i, i < cols → ((List.range cols).map Dv).getD i [] = Dv i := by
    intro i hi
    simp [List.getD_eq_getElem?_getD, List.getElem?_map, List.getElem?_range hi]
  have e0 : (List.range cols).foldl (fun st i => mulUpdCol st (colIdx cols i 0 + i) (fun _ => vecCopy n rs (((List.range cols).map Dv).getD i []))) res0
      = (List.range cols).foldl (fun st i => applyU st (copyU n cols rs Dv i)) res0 := by
    apply foldl_congr_mem
    intro st i hi
    rw [hget i (List.mem_range.mp hi)]
    rfl
  rw [e0]
  generalize (List.range cols).foldl (fun st i => applyU st (copyU n cols rs Dv i)) res0 = st0
  have houter : ∀ m, m ≤ cols → ∀ s1 : List Col,
      (List.range m).foldl (fun (st : Option (List Col)) i =>
        (List.range cols).foldl (fun (st : Option (List Col)) j =>
          if i < j then st.bind (fun st => (P i j).map (fun p =>
            mulUpdCol (mulUpdCol (mulUpdCol st (colIdx cols i 0 + j) (fun _ => p)) (colIdx cols i 0 + j)
              (fun r => vecSubAssignW w64 r (((List.range cols).map Dv).getD i []))) (colIdx cols i 0 + j)
              (fun r => vecSubAssignW w64 r (((List.range cols).map Dv).getD j []))))
          else st) st) (some s1)
      = some ((List.range m).foldl (fun st x => ((List.range cols).map (sqPairU cols Dv Pv x)).foldl applyU st) s1) := by
    intro m
    induction m with
    | zero => intro _ _; rfl
    | succ k ih =>
      intro hk s1
      rw [List.range_succ, List.foldl_append, List.foldl_append, ih (by omega)]
      simp only [List.foldl_cons, List.foldl_nil]
      have h2 := foldl_cond_bind_some cols (fun j => k < j) (P k) (Pv k)
        (fun p st j => mulUpdCol (mulUpdCol (mulUpdCol st (colIdx cols k 0 + j) (fun _ => p)) (colIdx cols k 0 + j)
              (fun r => vecSubAssignW w64 r (((List.range cols).map Dv).getD k []))) (colIdx cols k 0 + j)
              (fun r => vecSubAssignW w64 r (((List.range cols).map Dv).getD j [])))
        ((List.range k).foldl (fun st x => ((List.range cols).map (sqPairU cols Dv Pv x)).foldl applyU st) s1)
        (fun j hj hc => hP k j hc hj)
      rw [h2, List.foldl_map]
      congr 1
      apply foldl_congr_mem
      intro s j hjm
      have hj := List.mem_range.mp hjm
      unfold applyU sqPairU cix
      by_cases hkj : k < j
      · simp only [hkj, if_true]
        rw [mulUpdCol_comp, mulUpdCol_comp, hget k (by omega), hget j hj]
        rfl
      · simp [hkj, mulUpdCol_id]
  exact houter cols (Nat.le_refl _) st0

theorem squareList_diag (n cols rs : Nat) (Dv : Nat → Col) (Pv : Nat → Nat → Col) (i : Nat) (hi : i < cols) (v : Col) :
    colFold (squareList n cols rs Dv Pv) (cix cols i i) v = vecCopy n rs (Dv i) := by
  unfold squareList
  rw [colFold_append, colFold_flatMap]
  have hne : ∀ a b, a < b → b < cols → cix cols i i ≠ cix cols a b := by
    intro a b hab hb e
    have := cix_inj cols i i a b (Nat.le_refl _) hi (by omega) hb e
    omega
  rw [colFold_range_map_one cols (copyU n cols rs Dv) _ i (fun k hk hki => by
    left
    intro e
    have := cix_inj cols k k i i (Nat.le_refl _) hk (Nat.le_refl _) hi e
    omega)]
  have e : (copyU n cols rs Dv i).1 = cix cols i i := rfl
  rw [e, if_pos ⟨hi, rfl⟩]
  show (List.range cols).foldl (fun v x => colFold ((List.range cols).map (sqPairU cols Dv Pv x)) (cix cols i i) v) (vecCopy n rs (Dv i)) = _
  apply foldl_range_none cols (fun x v => colFold ((List.range cols).map (sqPairU cols Dv Pv x)) (cix cols i i) v)
  intro k hk
  funext w
  rw [colFold_range_map_one cols _ _ cols (fun j hj _ => by
    unfold sqPairU
    by_cases hkj : k < j
    · left; simp only [hkj, if_true]; exact fun e => hne k j hkj hj e.symm
    · right; simp [hkj])]
  simp

theorem squareList_off (n cols rs : Nat) (Dv : Nat → Col) (Pv : Nat → Nat → Col) (i j : Nat) (hij : i < j) (hj : j < cols) (v : Col) :
    colFold (squareList n cols rs Dv Pv) (cix cols i j) v = vecSubAssignW w64 (vecSubAssignW w64 (Pv i j) (Dv i)) (Dv j) := by
  have hi : i < cols := by omega
  unfold squareList
  rw [colFold_append, colFold_flatMap]
  have hne : ∀ a b, a < b → b < cols → (a ≠ i ∨ b ≠ j) → cix cols i j ≠ cix cols a b := by
    intro a b hab hb hd e
    have := cix_inj cols i j a b (by omega) hj (by omega) hb e
    omega
  rw [colFold_range_map_one cols (copyU n cols rs Dv) _ cols (fun k hk _ => by
    left
    intro e
    have := cix_inj cols k k i j (Nat.le_refl _) hk (by omega) hj e
    omega)]
  simp only [Nat.lt_irrefl, false_and, if_false]
  have hp := foldl_range_one cols (fun x w => colFold ((List.range cols).map (sqPairU cols Dv Pv x)) (cix cols i j) w) i hi (by
    intro k hk hki
    funext w
    rw [colFold_range_map_one cols _ _ cols (fun j' hj' _ => by
      unfold sqPairU
      by_cases hkj : k < j'
      · left; simp only [hkj, if_true]; exact fun e => hne k j' hkj hj' (Or.inl hki) e.symm
      · right; simp [hkj])]
    simp)
  rw [hp]
  rw [colFold_range_map_one cols _ _ j (fun j' hj' hjj => by
    unfold sqPairU
    by_cases hkj : i < j'
    · left; simp only [hkj, if_true]; exact fun e => hne i j' hkj hj' (Or.inr hjj) e.symm
    · right; simp [hkj])]
  unfold sqPairU
  simp [hij, hj]

theorem squareList_miss (n cols rs : Nat) (Dv : Nat → Col) (Pv : Nat → Nat → Col) (c : Nat)
    (h : ∀ i j, i ≤ j → j < cols → c ≠ cix cols i j) (v : Col) :
    colFold (squareList n cols rs Dv Pv) c v = v := by
  unfold squareList
  rw [colFold_append, colFold_flatMap]
  rw [colFold_range_map_one cols (copyU n cols rs Dv) _ cols (fun k hk _ => by
    left
    exact fun e => h k k (Nat.le_refl _) hk e.symm)]
  simp only [Nat.lt_irrefl, false_and, if_false]
  apply foldl_range_none cols (fun x v => colFold ((List.range cols).map (sqPairU cols Dv Pv x)) c v)
  intro k hk
  funext w
  rw [colFold_range_map_one cols _ _ cols (fun j hj _ => by
    unfold sqPairU
    by_cases hkj : k < j
    · left; simp only [hkj, if_true]; exact fun e => h k j (by omega) hj e.symm
    · right; simp [hkj])]
  simp

/-! ### the column index is onto `[0, cols(cols+1)/2)` (every rank) -/

theorem cix_row (r i d : Nat) : cix r i (i + d) = cix r i i + d := by unfold cix; omega

theorem cix_diag_succ (r i : Nat) (hi : i < r) : cix r (i + 1) (i + 1) = cix r i i + (r - i) := by
  unfold cix colIdx
  have h1 := two_mul_tri i
  have h2 := two_mul_tri (i + 1)
  have h3 : (i + 1) * r = i * r + r := Nat.succ_mul i r
  have h4 : (i + 1) * (i + 1 + 1) = i * (i + 1) + 2 * (i + 1) := by ring
  have h5 : i * (i + 1) ≤ 2 * (i * r) := by nlinarith
  have h6 : (i + 1) * (i + 1 + 1) ≤ 2 * ((i + 1) * r) := by nlinarith
  omega

theorem cix_top (r : Nat) : cix r r r = (r + 1) * r / 2 := by
  unfold cix colIdx
  rw [Nat.mul_comm (r + 1) r]
  have h1 := two_mul_tri r
  have h4 : r * (r + 1) = r * r + r := by ring
  have h5 : 2 * r ≤ r * (r + 1) := by
    cases r with
    | zero => simp
    | succ q => nlinarith
  generalize r * (r + 1) = m at h1 h4 h5 ⊢
  generalize r * r = k at h4 ⊢
  omega

theorem cix_surj_below (r : Nat) : ∀ i, i ≤ r → ∀ t, t < cix r i i → ∃ a b, a ≤ b ∧ b < r ∧ t = cix r a b := by
  intro i
  induction i with
  | zero =>
    intro _ t ht
    simp [cix, colIdx] at ht
  | succ k ih =>
    intro hk t ht
    rw [cix_diag_succ r k (by omega)] at ht
    by_cases h : t < cix r k k
    · exact ih (by omega) t h
    · refine ⟨k, k + (t - cix r k k), by omega, by omega, ?_⟩
      rw [cix_row]; omega

/-- **surjectivity for every rank**: every column `t < cols(cols+1)/2` of the tensor holds a pair `(a, b)`, `a ≤ b < cols` -/
theorem cix_surj (r t : Nat) (ht : t < (r + 1) * r / 2) : ∃ a b, a ≤ b ∧ b < r ∧ t = cix r a b :=
  cix_surj_below r r (Nat.le_refl _) t (by rw [cix_top]; exact ht)

/-! ### the two model-level laws, every rank -/

theorem list_ext_getD (x y : List Col) (hlen : x.length = y.length) (h : ∀ c, c < x.length → x.getD c [] = y.getD c []) : x = y := by
  apply List.ext_getElem hlen
  intro i h1 h2
  have := h i h1
  simpa [List.getD_eq_getElem?_getD, h1, h2] using this

/-- **squaring = multiplying by itself, every rank** (every defined normalised product of shape `rs × n`) -/
theorem square_eq_apply_all (n cols rs : Nat) (D : Nat → Option Col) (P : Nat → Nat → Option Col) (res0 : List Col)
    (hDt : ∀ i, i < cols → ∃ d, D i = some d) (hPt : ∀ i j, i < j → j < cols → ∃ p, P i j = some p)
    (hD : ∀ i d, D i = some d → ColShape n rs d) (hP : ∀ i j p, P i j = some p → ColShape n rs p) :
    tensorSquareCore n cols rs D P res0 = tensorApplyCore false n cols rs D P res0 := by
  have hDv : ∀ i, i < cols → D i = some ((D i).getD []) := by
    intro i hi; obtain ⟨d, hd⟩ := hDt i hi; rw [hd]; rfl
  have hPv : ∀ i j, i < j → j < cols → P i j = some ((P i j).getD []) := by
    intro i j hij hj; obtain ⟨p, hp⟩ := hPt i j hij hj; rw [hp]; rfl
  rw [tensorSquareCore_some n cols rs D P (fun i => (D i).getD []) (fun i j => (P i j).getD []) res0 hDv hPv,
    tensorApplyCore_some false n cols rs D P (fun i => (D i).getD []) (fun i j => (P i j).getD []) res0 hDv hPv]
  congr 1
  apply list_ext_getD
  · rw [foldl_applyU_length, foldl_applyU_length]
  · intro c hc
    rw [foldl_applyU_length] at hc
    rw [foldl_applyU_getD _ _ c hc, foldl_applyU_getD _ _ c hc]
    by_cases hdec : ∃ i j, i ≤ j ∧ j < cols ∧ c = cix cols i j
    · obtain ⟨i, j, hij, hj, rfl⟩ := hdec
      by_cases he : i = j
      · subst he
        rw [squareList_diag _ _ _ _ _ i hj, applyList_diag _ _ _ _ _ _ i hj]
        rfl
      · have hlt : i < j := by omega
        rw [squareList_off _ _ _ _ _ i j hlt hj, applyList_off _ _ _ _ _ _ i j hlt hj]
        simp only [Bool.false_eq_true, if_false]
        exact (col_square n rs _ _ _ (hD i _ (hDv i (by omega))) (hD j _ (hDv j hj)) (hP i j _ (hPv i j hlt hj))).symm
    · push_neg at hdec
      rw [squareList_miss _ _ _ _ _ c (fun i j hij hj => hdec i j hij hj), applyList_miss _ _ _ _ _ _ c (fun i j hij hj => hdec i j hij hj)]

/-- **accumulate = previous + product, every rank** -/
theorem acc_eq_add_all (n cols rs : Nat) (D : Nat → Option Col) (P : Nat → Nat → Option Col) (res0 zs : List Col)
    (hr : res0.length = (cols + 1) * cols / 2) (hz : zs.length = (cols + 1) * cols / 2)
    (hshape : ∀ r ∈ res0, ColShape n rs r)
    (hDt : ∀ i, i < cols → ∃ d, D i = some d) (hPt : ∀ i j, i < j → j < cols → ∃ p, P i j = some p)
    (hD : ∀ i d, D i = some d → ColShape n rs d) (hP : ∀ i j p, P i j = some p → ColShape n rs p) :
    tensorApplyCore true n cols rs D P res0
      = (tensorApplyCore false n cols rs D P zs).map (fun pr => List.zipWith (vecAddAssignW w64) res0 pr) := by
  have hDv : ∀ i, i < cols → D i = some ((D i).getD []) := by
    intro i hi; obtain ⟨d, hd⟩ := hDt i hi; rw [hd]; rfl
  have hPv : ∀ i j, i < j → j < cols → P i j = some ((P i j).getD []) := by
    intro i j hij hj; obtain ⟨p, hp⟩ := hPt i j hij hj; rw [hp]; rfl
  rw [tensorApplyCore_some true n cols rs D P (fun i => (D i).getD []) (fun i j => (P i j).getD []) res0 hDv hPv,
    tensorApplyCore_some false n cols rs D P (fun i => (D i).getD []) (fun i j => (P i j).getD []) zs hDv hPv]
  simp only [Option.map_some]
  congr 1
  apply list_ext_getD
  · rw [foldl_applyU_length, List.length_zipWith, foldl_applyU_length, hr, hz]; simp
  · intro c hc
    rw [foldl_applyU_length] at hc
    have hcz : c < zs.length := by rw [hz, ← hr]; exact hc
    have hzw : (List.zipWith (vecAddAssignW w64) res0
        ((applyList false n cols rs (fun i => (D i).getD []) (fun i j => (P i j).getD [])).foldl applyU zs)).getD c []
        = vecAddAssignW w64 (res0.getD c [])
            (((applyList false n cols rs (fun i => (D i).getD []) (fun i j => (P i j).getD [])).foldl applyU zs).getD c []) := by
      have h2 : c < ((applyList false n cols rs (fun i => (D i).getD []) (fun i j => (P i j).getD [])).foldl applyU zs).length := by
        rw [foldl_applyU_length]; exact hcz
      simp [List.getD_eq_getElem?_getD, List.getElem?_zipWith, List.getElem?_eq_getElem hc, List.getElem?_eq_getElem h2]
    rw [hzw, foldl_applyU_getD _ _ c hc, foldl_applyU_getD _ _ c hcz]
    obtain ⟨i, j, hij, hj, rfl⟩ := cix_surj cols c (by rw [← hr]; exact hc)
    have hrc : ColShape n rs (res0.getD (cix cols i j) []) := by
      rw [List.getD_eq_getElem?_getD, List.getElem?_eq_getElem hc]
      exact hshape _ (List.getElem_mem hc)
    by_cases he : i = j
    · subst he
      rw [applyList_diag _ _ _ _ _ _ i hj, applyList_diag _ _ _ _ _ _ i hj]
      show vecAddAssignW w64 _ ((D i).getD []) = vecAddAssignW w64 _ (vecCopy n rs ((D i).getD []))
      exact col_acc_diag n rs _ _ (hD i _ (hDv i hj)).1
    · have hlt : i < j := by omega
      rw [applyList_off _ _ _ _ _ _ i j hlt hj, applyList_off _ _ _ _ _ _ i j hlt hj]
      simp only [Bool.false_eq_true, if_false, if_true]
      exact col_acc n rs _ _ _ _ hrc (hD i _ (hDv i (by omega))) (hD j _ (hDv j hj)) (hP i j _ (hPv i j hlt hj))

end Core
