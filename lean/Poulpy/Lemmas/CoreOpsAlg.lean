import Poulpy.Model.Core.Ops
import Poulpy.Lemmas.NegMul
import Poulpy.Lemmas.RingRotate

/-!
Algebra behind C02: the limb columns of a fixed shape (`rs` limbs of `N` coefficients) form a
module over `Z[X]/(X^N+1)`; `fit` (truncate / zero-extend to `rs` limbs) is linear; every per-column
kernel of the noise-free operations is, under the head-room hypothesis `Small` (no `i64` wrap), a
linear combination of fitted operand columns.
-/

namespace C02L
open Hal

/-! ### shapes and head-room -/

/-- all limbs of a column have `N` coefficients -/
def LimbsN (N : Nat) (c : Col) : Prop := ∀ l ∈ c, l.length = N

/-- a column of exactly `rs` limbs of `N` coefficients -/
def ColWF (N rs : Nat) (c : Col) : Prop := c.length = rs ∧ LimbsN N c

/-- head-room under which no `i64` operation of the linear kernels wraps -/
def PolySmall (l : Poly) : Prop := ∀ x ∈ l, -(2 ^ 62) < x ∧ x < 2 ^ 62
def ColSmall (c : Col) : Prop := ∀ l ∈ c, PolySmall l

/-- truncate / zero-extend a column to `rs` limbs (what every out-of-place `vec_znx_*` does to an
operand); the missing column `[]` fits to the zero column -/
def fit (N rs : Nat) (a : Col) : Col := (List.range rs).map (fun j => a.getD j (zeroP N))

/-- limb-wise sum of two columns (`Core.colAddSame`) -/
abbrev colAdd (a b : Col) : Col := List.zipWith polyAdd a b

/-- multiplication by `X^k` in `Z[X]/(X^N+1)`, exact -/
abbrev rotP (k : Int) (a : Poly) : Poly := znxRotateW id k a
/-- multiplication by `X^k - 1`, exact -/
def mxpP (k : Int) (a : Poly) : Poly := polySub (rotP k a) a

theorem w64_small (x : Int) (h1 : -(2 ^ 63) ≤ x) (h2 : x < 2 ^ 63) : w64 x = x := by
  unfold w64; omega

theorem PolySmall.tail {a : Int} {as : Poly} (h : PolySmall (a :: as)) : PolySmall as :=
  fun z hz => h z (by simp [hz])

theorem znxAddW_small (x y : Poly) (hx : PolySmall x) (hy : PolySmall y) : znxAddW w64 x y = polyAdd x y := by
  unfold znxAddW polyAdd
  induction x generalizing y with
  | nil => simp
  | cons a as ih =>
    cases y with
    | nil => simp
    | cons b bs =>
      have ha := hx a (by simp)
      have hb := hy b (by simp)
      simp only [List.zipWith_cons_cons]
      rw [ih bs hx.tail hy.tail, w64_small _ (by omega) (by omega)]

theorem znxSubW_small (x y : Poly) (hx : PolySmall x) (hy : PolySmall y) : znxSubW w64 x y = polySub x y := by
  unfold znxSubW polySub
  induction x generalizing y with
  | nil => simp
  | cons a as ih =>
    cases y with
    | nil => simp
    | cons b bs =>
      have ha := hx a (by simp)
      have hb := hy b (by simp)
      simp only [List.zipWith_cons_cons]
      rw [ih bs hx.tail hy.tail, w64_small _ (by omega) (by omega)]

theorem znxNegateW_small (x : Poly) (hx : PolySmall x) : znxNegateW w64 x = polyNeg x := by
  unfold znxNegateW polyNeg
  induction x with
  | nil => simp
  | cons a as ih =>
    have ha := hx a (by simp)
    simp only [List.map_cons]
    rw [ih hx.tail, w64_small _ (by omega) (by omega)]

theorem znxNegateW_id (x : Poly) : znxNegateW id x = polyNeg x := by
  simp [znxNegateW, polyNeg]

theorem PolySmall.take {x : Poly} (h : PolySmall x) (k : Nat) : PolySmall (x.take k) :=
  fun z hz => h z (List.mem_of_mem_take hz)
theorem PolySmall.drop {x : Poly} (h : PolySmall x) (k : Nat) : PolySmall (x.drop k) :=
  fun z hz => h z (List.mem_of_mem_drop hz)

/-- under head-room the `i64` rotation is the exact rotation -/
theorem znxRotateW_small (k : Int) (x : Poly) (hx : PolySmall x) : znxRotateW w64 k x = rotP k x := by
  unfold rotP znxRotateW
  simp only [znxNegateW_small _ (hx.take _), znxNegateW_small _ (hx.drop _), znxNegateW_id]

/-! ### the additive group of polynomials of length `N` -/

theorem zeroP_length (N : Nat) : (zeroP N).length = N := by simp [zeroP]

theorem polyAdd_zero_right (a : Poly) (N : Nat) (h : a.length = N) : polyAdd a (zeroP N) = a := by
  subst h
  unfold polyAdd zeroP
  induction a with
  | nil => simp
  | cons x xs ih => simp [List.replicate_succ, ih]

theorem polyAdd_zero_left (a : Poly) (N : Nat) (h : a.length = N) : polyAdd (zeroP N) a = a := by
  rw [polyAdd_comm, polyAdd_zero_right a N h]

theorem polyNeg_zero (N : Nat) : polyNeg (zeroP N) = zeroP N := by simp [polyNeg, zeroP]

theorem polySub_eq (a b : Poly) : polySub a b = polyAdd a (polyNeg b) := by
  unfold polySub polyAdd polyNeg
  rw [List.zipWith_map_right]
  congr 1

theorem polyNeg_eq_scale (a : Poly) : polyNeg a = polyScale (-1) a := by
  simp [polyNeg, polyScale]

theorem polyNeg_add (a b : Poly) : polyNeg (polyAdd a b) = polyAdd (polyNeg a) (polyNeg b) := by
  rw [polyNeg_eq_scale, polyNeg_eq_scale, polyNeg_eq_scale, polyScale_add]

theorem polyScale_zero (c : Int) (N : Nat) : polyScale c (zeroP N) = zeroP N := by simp [polyScale, zeroP]

theorem polyScale_scale (c d : Int) (a : Poly) : polyScale c (polyScale d a) = polyScale d (polyScale c a) := by
  unfold polyScale
  rw [List.map_map, List.map_map]
  congr 1
  funext x
  simp [Function.comp, Int.mul_left_comm]

theorem polyScale_mulX (c : Int) (a : Poly) : polyScale c (Hal.mulX a) = Hal.mulX (polyScale c a) := by
  rcases List.eq_nil_or_concat a with rfl | ⟨a', x, rfl⟩
  · simp [Hal.mulX, polyScale]
  · simp only [List.concat_eq_append]
    have e : polyScale c (a' ++ [x]) = polyScale c a' ++ [c * x] := by simp [polyScale]
    rw [e, mulX_append_one, mulX_append_one]
    simp [polyScale]

/-- the exact product is homogeneous in the right operand -/
theorem negMul_scale_right (p : Poly) (c : Int) (a : Poly) : Hal.negMul p (polyScale c a) = polyScale c (Hal.negMul p a) := by
  induction p with
  | nil => simp [Hal.negMul, polyScale]
  | cons p0 ps ih =>
    simp only [Hal.negMul]
    rw [ih, polyScale_add, polyScale_scale, polyScale_mulX]

theorem negMul_neg_right (p a : Poly) : Hal.negMul p (polyNeg a) = polyNeg (Hal.negMul p a) := by
  rw [polyNeg_eq_scale, polyNeg_eq_scale, negMul_scale_right]

theorem negMul_zero_right' (p : Poly) (N : Nat) : Hal.negMul p (zeroP N) = zeroP N := negMul_zero_right p N

/-! ### rotation as a linear map commuting with the product -/

theorem rotP_length (k : Int) (a : Poly) : (rotP k a).length = a.length := rotate_length id k a

theorem mulX_eq_rot (a : Poly) : Hal.mulX a = rotP 1 a := by
  rcases List.eq_nil_or_concat a with rfl | ⟨a', x, rfl⟩
  · simp [Hal.mulX, rotP, znxRotateW, znxNegateW]
  · simp only [List.concat_eq_append]
    rw [mulX_append_one]
    unfold rotP znxRotateW
    simp only [List.length_append, List.length_cons, List.length_nil]
    by_cases h0 : a'.length = 0
    · have : a' = [] := List.eq_nil_of_length_eq_zero h0
      subst this
      simp [znxNegateW]
    · have h1 : ((1 : Int) % (2 * ((a'.length + 0 + 1 : Nat) : Int))).toNat = 1 := by
        rw [Int.emod_eq_of_lt (by omega) (by omega)]; rfl
      simp only [Nat.add_zero] at h1
      simp only [Nat.zero_add]
      rw [h1]
      have h2 : 1 % (a'.length + 1) = 1 := Nat.mod_eq_of_lt (by omega)
      rw [h2]
      have h3 : (1 : Nat) < a'.length + 1 := by omega
      simp [h3, znxNegateW]

theorem negOnId : NegOn id (fun _ => True) := ⟨fun x _ => by simp, fun _ _ => trivial, trivial, rfl⟩
theorem allPTrue (a : Poly) : AllP (fun _ => True) a := fun _ _ => trivial

theorem rotP_comm (p q : Int) (a : Poly) : rotP p (rotP q a) = rotP q (rotP p a) := by
  unfold rotP
  rw [rotate_add negOnId p q a (allPTrue a), rotate_add negOnId q p a (allPTrue a), Int.add_comm]

theorem polyAdd_append (a b c d : Poly) (h : a.length = c.length) :
    polyAdd (a ++ b) (c ++ d) = polyAdd a c ++ polyAdd b d := by
  unfold polyAdd; exact List.zipWith_append h

theorem polyAdd_take (a b : Poly) (k : Nat) : (polyAdd a b).take k = polyAdd (a.take k) (b.take k) := by
  unfold polyAdd; exact List.take_zipWith
theorem polyAdd_drop (a b : Poly) (k : Nat) : (polyAdd a b).drop k = polyAdd (a.drop k) (b.drop k) := by
  unfold polyAdd; exact List.drop_zipWith

/-- rotation is additive on polynomials of equal length -/
theorem rotP_add (k : Int) (a b : Poly) (h : a.length = b.length) :
    rotP k (polyAdd a b) = polyAdd (rotP k a) (rotP k b) := by
  unfold rotP znxRotateW
  have hl : (polyAdd a b).length = a.length := by simp [h]
  simp only [hl, ← h, znxNegateW_id, polyAdd_take, polyAdd_drop, polyNeg_add]
  split
  · rw [polyAdd_append _ _ _ _ (by simp [h])]
  · rw [polyAdd_append _ _ _ _ (by simp [h])]

theorem polyScale_append (c : Int) (a b : Poly) : polyScale c (a ++ b) = polyScale c a ++ polyScale c b := by
  simp [polyScale]

theorem rotP_scale (k c : Int) (a : Poly) : rotP k (polyScale c a) = polyScale c (rotP k a) := by
  unfold rotP znxRotateW
  simp only [polyScale_length, znxNegateW_id]
  have e1 : ∀ m, (polyScale c a).take m = polyScale c (a.take m) := by intro m; simp [polyScale, List.map_take]
  have e2 : ∀ m, (polyScale c a).drop m = polyScale c (a.drop m) := by intro m; simp [polyScale, List.map_drop]
  have e3 : ∀ x : Poly, polyNeg (polyScale c x) = polyScale c (polyNeg x) := by
    intro x; rw [polyNeg_eq_scale, polyNeg_eq_scale, polyScale_scale]
  simp only [e1, e2, e3]
  split <;> rw [polyScale_append]

theorem rotP_zero (k : Int) (N : Nat) : rotP k (zeroP N) = zeroP N := by
  have h := rotP_scale k 0 (zeroP N)
  have z : ∀ x : Poly, polyScale 0 x = zeroP x.length := by intro x; simp [polyScale, zeroP, List.map_const']
  rw [z, z, rotP_length, zeroP_length] at h
  exact h

/-- multiplication by `X^k` commutes with the exact negacyclic product -/
theorem negMul_rot (p : Poly) (k : Int) (a : Poly) : Hal.negMul p (rotP k a) = rotP k (Hal.negMul p a) := by
  induction p with
  | nil =>
    simp only [Hal.negMul]
    have z : ∀ x : Poly, x.map (fun _ => (0 : Int)) = zeroP x.length := by intro x; simp [zeroP, List.map_const']
    rw [z, z, rotP_length, rotP_zero]
  | cons p0 ps ih =>
    simp only [Hal.negMul]
    rw [ih, mulX_eq_rot, mulX_eq_rot, rotP_comm 1 k, ← rotP_scale,
      ← rotP_add k _ _ (by simp [rotP_length, negMul_length])]

end C02L
