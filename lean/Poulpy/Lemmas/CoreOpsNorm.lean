import Poulpy.Lemmas.CoreOpsVal

/-!
Shifts and re-normalisation (C08 kernels): the phase at the level of integer values.  `valP b N c` is
the polynomial of integer values of a limb column; it is linear and commutes with the exact product,
so a value specification of the per-column kernel (taken as a hypothesis: the `…_modulo_norm`
theorems) carries over to the phase with the explicit error `E₀ + Σ sᵢ ⋆ Eᵢ₊₁`.
-/

namespace C02L
open Hal Core Core.Ops

/-- value polynomial of a limb column at radix `2^b` (last limb weight 1) -/
def valP (b N : Nat) (c : Col) : Poly := (List.range N).map (valCoeff b c)

@[simp] theorem valP_length (b N : Nat) (c : Col) : (valP b N c).length = N := by simp [valP]

theorem poly_ext {N : Nat} {x y : Poly} (hx : x.length = N) (hy : y.length = N)
    (h : ∀ t, t < N → x.getD t 0 = y.getD t 0) : x = y := by
  apply List.ext_getElem (by omega)
  intro t h1 h2
  have := h t (by omega)
  simpa [List.getD_eq_getElem?_getD, List.getElem?_eq_getElem h1, List.getElem?_eq_getElem h2] using this

theorem valP_getD (b N : Nat) (c : Col) (t : Nat) (ht : t < N) : (valP b N c).getD t 0 = valCoeff b c t := by
  simp [valP, List.getD_eq_getElem?_getD, ht]

theorem polyScale_getD (c : Int) (x : Poly) (t : Nat) : (polyScale c x).getD t 0 = c * x.getD t 0 := by
  simp only [polyScale, List.getD_eq_getElem?_getD, List.getElem?_map]
  cases x[t]? <;> simp

theorem valP_colAdd {N rs : Nat} (b : Nat) {x y : Col} (hx : ColWF N rs x) (hy : ColWF N rs y) :
    valP b N (colAdd x y) = polyAdd (valP b N x) (valP b N y) := by
  apply poly_ext (N := N) (by simp) (by simp)
  intro t ht
  rw [valP_getD _ _ _ _ ht, getD_polyAdd _ _ _ (by simp), valP_getD _ _ _ _ ht, valP_getD _ _ _ _ ht, valCoeff_colAdd b hx hy t]

theorem valP_nil (b N : Nat) : valP b N [] = zeroP N := by
  have : valCoeff b [] = fun _ => 0 := by funext t; rfl
  simp [valP, this, zeroP, List.map_const']

theorem valP_snoc (b N : Nat) (x : Col) (l : Poly) (hl : l.length = N) :
    valP b N (x ++ [l]) = polyAdd (polyScale (2 ^ b) (valP b N x)) l := by
  apply poly_ext (N := N) (by simp) (by simp [hl])
  intro t ht
  rw [valP_getD _ _ _ _ ht, getD_polyAdd _ _ _ (by simp [hl]), polyScale_getD, valP_getD _ _ _ _ ht, valCoeff_append]
  simp [valCoeff, Int.mul_comm]

/-- the value polynomial commutes with the exact negacyclic product -/
theorem valP_colMul {N : Nat} (b : Nat) (p : Poly) (x : Col) (hx : LimbsN N x) :
    valP b N (colMulPoly p x) = Hal.negMul p (valP b N x) := by
  induction x using List.reverseRecOn with
  | nil => simp [colMulPoly, valP_nil, negMul_zero_right]
  | append_singleton xs l ih =>
    have hl : l.length = N := hx l (by simp)
    have hxs : LimbsN N xs := fun l' h' => hx l' (by simp [h'])
    have e : colMulPoly p (xs ++ [l]) = colMulPoly p xs ++ [Hal.negMul p l] := by simp [colMulPoly]
    rw [e, valP_snoc _ _ _ _ (by rw [negMul_length]; exact hl), valP_snoc _ _ _ _ hl, ih hxs,
      negMul_add_right _ _ _ (by simp [hl]), negMul_scale_right]

/-- `E 0 + Σ_{i<m} s_i ⋆ E (i+1)` on polynomials -/
def errTo (m : Nat) (s : List Poly) (E : Nat → Poly) : Poly :=
  (List.range m).foldl (fun acc i => polyAdd acc (Hal.negMul (s.getD i []) (E (i + 1)))) (E 0)

theorem errTo_succ (m : Nat) (s : List Poly) (E : Nat → Poly) :
    errTo (m + 1) s E = polyAdd (errTo m s E) (Hal.negMul (s.getD m []) (E (m + 1))) := by
  simp [errTo, List.range_succ, List.foldl_append]

theorem errTo_length {N : Nat} (m : Nat) (s : List Poly) (E : Nat → Poly) (hE : ∀ i, (E i).length = N) :
    (errTo m s E).length = N := by
  induction m with
  | zero => exact hE 0
  | succ m ih => rw [errTo_succ, polyAdd_length, ih, negMul_length, hE]; simp

theorem valP_linTo {N rs : Nat} (b m : Nat) (s : List Poly) (f : Nat → Col) (hf : ∀ i, i ≤ m → ColWF N rs (f i)) :
    valP b N (linTo m s f) = errTo m s (fun i => valP b N (f i)) := by
  induction m with
  | zero => rfl
  | succ m ih =>
    rw [linTo_succ, errTo_succ, valP_colAdd b (linTo_wf m s f (fun i hi => hf i (by omega))) (colMul_wf _ (hf _ (Nat.le_refl _))),
      ih (fun i hi => hf i (by omega)), valP_colMul b _ _ (hf _ (Nat.le_refl _)).2]

theorem errTo_affine {N : Nat} (A B : Int) (m : Nat) (s : List Poly) (X Y E : Nat → Poly)
    (hX : ∀ i, (X i).length = N) (hY : ∀ i, (Y i).length = N) (hE : ∀ i, (E i).length = N)
    (h : ∀ i, i ≤ m → polyScale A (X i) = polyAdd (polyScale B (Y i)) (E i)) :
    polyScale A (errTo m s X) = polyAdd (polyScale B (errTo m s Y)) (errTo m s E) := by
  induction m with
  | zero => exact h 0 (Nat.le_refl 0)
  | succ m ih =>
    rw [errTo_succ, errTo_succ, errTo_succ, polyScale_add, polyScale_add, ih (fun i hi => h i (by omega)),
      ← negMul_scale_right, ← negMul_scale_right, h (m + 1) (Nat.le_refl _),
      negMul_add_right _ _ _ (by simp [hY, hE]), polyAdd_exchange]

/-- **value form of the phase for column-wise kernels** (explicit kernel hypothesis `h`) -/
theorem phase_val_modulo_norm {N : Nat} {r' a : GLWE} (hr : GWF N r') (ha : GWF N a) (hrank : a.rank = r'.rank)
    (A B : Int) (E : Nat → Poly) (hE : ∀ i, (E i).length = N)
    (h : ∀ i, i ≤ r'.rank →
      polyScale A (valP r'.base2k N (col r' i)) = polyAdd (polyScale B (valP a.base2k N (col a i))) (E i))
    (s : List Poly) :
    polyScale A (valP r'.base2k N (phase s r'))
      = polyAdd (polyScale B (valP a.base2k N (phase s a))) (errTo (min r'.rank s.length) s E) := by
  rw [phase_eq_linTo s r', phase_eq_linTo s a, hrank,
    valP_linTo _ _ s _ (fun i hi => hr.col_wf i (by omega)),
    valP_linTo _ _ s _ (fun i hi => ha.col_wf i (by omega))]
  exact errTo_affine A B _ s _ _ E (fun _ => by simp) (fun _ => by simp) hE (fun i hi => h i (by omega))

/-- `glwe_normalize` (same or different radix) under a value specification of `vec_znx_normalize` on
each operand column: `A·val(out) = B·val(in) + E i` -/
theorem normalize_modulo_norm {N : Nat} {res a : GLWE} (hr : GWF N res) (ha : GWF N a) (hrank : res.rank = a.rank)
    (C : Nat → Col) (A B : Int) (E : Nat → Poly) (hE : ∀ i, (E i).length = N)
    (hK : ∀ i, i ≤ res.rank →
      normalizeCol? res.base2k res.size 0 (col a i) a.base2k N = some (C i) ∧ ColWF N res.size (C i) ∧
      polyScale A (valP res.base2k N (C i)) = polyAdd (polyScale B (valP a.base2k N (col a i))) (E i)) :
    ∃ r', glweNormalize N res a = .ok r' ∧ Same res r' ∧ GWF N r' ∧ r'.size = res.size ∧
      ∀ s, polyScale A (valP res.base2k N (phase s r'))
        = polyAdd (polyScale B (valP a.base2k N (phase s a))) (errTo (min res.rank s.length) s E) := by
  unfold glweNormalize
  rw [check_true _ _ (beq_true hr.1), check_true _ _ (beq_true ha.1), check_true _ _ (beq_true hrank)]
  obtain ⟨r1, e1, s1, c1⟩ := forRange_spec (fun i _ => C i)
    (fun i r => Ops.bind (colOf a i) (fun ai => updCol i (fun _ =>
      match normalizeCol? res.base2k res.size 0 ai a.base2k N with
      | some c => .ok c
      | none => .panic "other") r)) 0 (res.rank + 1) res
    (fun i r _ hi hl => by
      show Ops.bind (colOf a i) _ = _
      rw [colOf_ok a i (by rw [ha.len]; omega)]
      exact updCol_ok i _ r _ (by rw [hl, hr.len]; omega) (by rw [(hK i (by omega)).1]))
    (by rw [hr.len])
  have hcol : ∀ i, i ≤ res.rank → col r1 i = C i := by
    intro i hi
    rw [c1 i]
    have h : 0 ≤ i ∧ i < res.rank + 1 := by omega
    simp only [h, and_self, if_true]
  obtain ⟨w, sz⟩ := gwf_of_cols hr s1 (fun i hi => by rw [hcol i hi]; exact (hK i hi).2.1)
  refine ⟨r1, e1, s1, w, sz, fun s => ?_⟩
  have h := phase_val_modulo_norm w ha (by rw [s1.rank]; exact hrank.symm) A B E hE
    (fun i hi => by
      rw [s1.rank] at hi
      rw [hcol i hi, s1.1]
      exact (hK i hi).2.2) s
  rw [s1.1, s1.rank] at h
  exact h

end C02L
