import Poulpy.Model.Core.Blind
import Poulpy.Lemmas.EpBridge
import Poulpy.Lemmas.EpTotal
import Poulpy.Lemmas.PackJump
import Poulpy.Lemmas.CswapTotal

/-!
The executed block of `execute_block_binary` (`Core.Blind.bbBlock`) in terms of the executed external product (`Core.epInternal`):
buffer plumbing of the DFT-domain accumulation, column by column.
-/

namespace BlindExec
open Hal Core Core.Blind Ks

/-- column form of the three HAL calls of `termStep`: `a + X^p·v − w`, limb by limb -/
def termCol (N S p : Nat) (a v w : Col) : Col :=
  assignCol polySub (assignCol polyAdd a (svpApplyCol N S (xPowA N p) v)) w

theorem bufShape_setAct {n cols size : Nat} (b : Buf) (hb : BufShape n cols size b) (c : Nat) (hc : c < cols) (x : Col)
    (hx : x.length = b.size) : BufShape n cols size (b.setAct c x) :=
  ⟨Buf.setAct_WF b hb.1 c (by rw [hb.2.2.1]; exact hc) x hx, hb.2.1, hb.2.2.1, hb.2.2.2⟩

/-- one `termStep`: column `k` of `acc_add_dft` receives `termCol`, the others are untouched, shapes are kept -/
theorem termStep_spec (N S cols p : Nat) (add xai src sub : Buf) (k : Nat) (hk : k < cols)
    (ha : BufShape N cols S add) (has : add.size = S) (hx : BufShape N 1 S xai) (hxs : xai.size = S) :
    BufShape N cols S (termStep N p add xai src sub k).1 ∧ (termStep N p add xai src sub k).1.size = S ∧
    BufShape N 1 S (termStep N p add xai src sub k).2 ∧ (termStep N p add xai src sub k).2.size = S ∧
    (termStep N p add xai src sub k).1.act k = termCol N S p (add.act k) (src.act k) (sub.act k) ∧
    ∀ j, j ≠ k → (termStep N p add xai src sub k).1.act j = add.act j := by
  have hkc : k < add.cols := by rw [ha.2.2.1]; exact hk
  have h0 : 0 < xai.cols := by rw [hx.2.2.1]; omega
  -- vmp_xai after the svp
  have hxl : (svpApplyCol xai.n xai.size (xPowA N p) (src.act k)).length = xai.size := by simp
  have hx' := bufShape_setAct xai hx 0 (by omega) _ hxl
  have hxa : (xai.setAct 0 (svpApplyCol xai.n xai.size (xPowA N p) (src.act k))).act 0
      = svpApplyCol N S (xPowA N p) (src.act k) := by
    rw [Buf.act_setAct_same xai hx.1 0 h0 _ hxl, hx.2.1, hxs]
  -- add after the add-assign
  have hal : (add.act k).length = add.size := Buf.act_length add ha.1 k hkc
  have h1l : (assignCol polyAdd (add.act k) ((xai.setAct 0 (svpApplyCol xai.n xai.size (xPowA N p) (src.act k))).act 0)).length = add.size := by
    rw [Hal.assignCol_length, hal]
  have ha1 := bufShape_setAct add ha k hk _ h1l
  have h1a := Buf.act_setAct_same add ha.1 k hkc _ h1l
  -- add after the sub-assign
  set add1 := add.setAct k (assignCol polyAdd (add.act k) ((xai.setAct 0 (svpApplyCol xai.n xai.size (xPowA N p) (src.act k))).act 0)) with hadd1
  have h2l : (assignCol polySub (add1.act k) (sub.act k)).length = add1.size := by
    rw [Hal.assignCol_length, h1a, h1l]; rfl
  have ha2 := bufShape_setAct add1 ha1 k hk _ h2l
  have h2a := Buf.act_setAct_same add1 ha1.1 k (by rw [ha1.2.2.1]; exact hk) _ h2l
  have e : termStep N p add xai src sub k
      = (add1.setAct k (assignCol polySub (add1.act k) (sub.act k)),
         xai.setAct 0 (svpApplyCol xai.n xai.size (xPowA N p) (src.act k))) := rfl
  rw [e]
  refine ⟨ha2, has, hx', hxs, ?_, ?_⟩
  · show (add1.setAct k (assignCol polySub (add1.act k) (sub.act k))).act k = _
    rw [h2a, h1a, hxa]; rfl
  · intro j hj
    show (add1.setAct k (assignCol polySub (add1.act k) (sub.act k))).act j = _
    rw [Buf.act_setAct_other _ _ _ _ hj, hadd1, Buf.act_setAct_other _ _ _ _ hj]

/-- the column loop of one key bit -/
def colFold (N p : Nat) (src sub : Buf) (k : Nat) (st : Buf × Buf) : Buf × Buf :=
  (List.range k).foldl (fun st i => termStep N p st.1 st.2 src sub i) st

theorem colFold_spec (N S cols p : Nat) (src sub : Buf) (add xai : Buf)
    (ha : BufShape N cols S add) (has : add.size = S) (hx : BufShape N 1 S xai) (hxs : xai.size = S) :
    ∀ k, k ≤ cols →
      BufShape N cols S (colFold N p src sub k (add, xai)).1 ∧ (colFold N p src sub k (add, xai)).1.size = S ∧
      BufShape N 1 S (colFold N p src sub k (add, xai)).2 ∧ (colFold N p src sub k (add, xai)).2.size = S ∧
      ∀ j, (colFold N p src sub k (add, xai)).1.act j
        = if j < k then termCol N S p (add.act j) (src.act j) (sub.act j) else add.act j := by
  intro k
  induction k with
  | zero => intro _; exact ⟨ha, has, hx, hxs, fun j => by simp [colFold]⟩
  | succ k ih =>
    intro hk
    obtain ⟨h1, h2, h3, h4, h5⟩ := ih (by omega)
    have e : colFold N p src sub (k + 1) (add, xai)
        = termStep N p (colFold N p src sub k (add, xai)).1 (colFold N p src sub k (add, xai)).2 src sub k := by
      unfold colFold
      rw [List.range_succ, List.foldl_append]
      rfl
    obtain ⟨g1, g2, g3, g4, g5, g6⟩ := termStep_spec N S cols p _ _ src sub k (by omega) h1 h2 h3 h4
    rw [e]
    refine ⟨g1, g2, g3, g4, ?_⟩
    intro j
    by_cases hj : j = k
    · subst hj
      rw [g5, h5 j]
      simp
    · rw [g6 j hj, h5 j]
      by_cases hlt : j < k
      · simp [hlt, Nat.lt_succ_of_lt hlt]
      · have : ¬ j < k + 1 := by omega
        simp [hlt, this]

/-- `vmp_res` of one key bit -/
def vmpBuf (N cols S : Nat) (accDft : Buf) (g : EpGGSW) : Buf :=
  opVmp (mkBuf N cols S (zeroCols N cols S)) accDft g.toPMat 0

/-- column `j` of `acc_add_dft` through the bits of a block -/
def bitsCol (N S cols : Nat) (accDft : Buf) (j : Nat) (c : Col) (blk : List (Int × EpGGSW)) : Col :=
  blk.foldl (fun c p => termCol N S (Lut.posMod p.1 (2 * N)) c ((vmpBuf N cols S accDft p.2).act j) ((vmpBuf N cols S accDft p.2).act j)) c

theorem bitFold_spec (N S cols : Nat) (accDft : Buf) (blk : List (Int × EpGGSW)) :
    ∀ (add xai : Buf), BufShape N cols S add → add.size = S → BufShape N 1 S xai → xai.size = S →
      BufShape N cols S (blk.foldl (fun st p => bbBit N cols S accDft st p.1 p.2) (add, xai)).1 ∧
      (blk.foldl (fun st p => bbBit N cols S accDft st p.1 p.2) (add, xai)).1.size = S ∧
      ∀ j, j < cols → (blk.foldl (fun st p => bbBit N cols S accDft st p.1 p.2) (add, xai)).1.act j
        = bitsCol N S cols accDft j (add.act j) blk := by
  induction blk with
  | nil => intro add xai ha has _ _; exact ⟨ha, has, fun j _ => rfl⟩
  | cons p rest ih =>
    intro add xai ha has hx hxs
    have e : bbBit N cols S accDft (add, xai) p.1 p.2
        = colFold N (Lut.posMod p.1 (2 * N)) (vmpBuf N cols S accDft p.2) (vmpBuf N cols S accDft p.2) cols (add, xai) := rfl
    obtain ⟨h1, h2, h3, h4, h5⟩ := colFold_spec N S cols (Lut.posMod p.1 (2 * N)) (vmpBuf N cols S accDft p.2)
      (vmpBuf N cols S accDft p.2) add xai ha has hx hxs cols (Nat.le_refl _)
    simp only [List.foldl_cons]
    rw [e]
    obtain ⟨i1, i2, i3⟩ := ih _ _ h1 h2 h3 h4
    refine ⟨i1, i2, ?_⟩
    intro j hj
    rw [i3 j hj, h5 j, if_pos hj]
    rfl

theorem wf_of_shapeOk' (n cols size : Nat) (x : List Col) (h : shapeOk n cols size x = true) (j : Nat) (hj : j < cols) :
    (x.getD j []).length = size := by
  unfold shapeOk at h
  simp only [Bool.and_eq_true, beq_iff_eq, List.all_eq_true] at h
  have hj' : j < x.length := by rw [h.1]; exact hj
  rw [List.getD_eq_getElem?_getD, List.getElem?_eq_getElem hj']
  exact (h.2 _ (List.getElem_mem hj')).1

/-! ### `acc_dft` and `vmp_res`: the executed external product of the accumulator cut / padded to `dnum` limbs -/

theorem dftApplyCol_eq_fit (N dnum : Nat) (a : Col) : dftApplyCol N 1 0 dnum a = C02L.fit N dnum a := by
  unfold dftApplyCol C02L.fit
  apply List.map_congr_left
  intro j hj
  have hj' := List.mem_range.mp hj
  simp only [Nat.add_sub_cancel, Nat.div_one, Nat.mul_one, Nat.zero_add]
  by_cases h : j < a.length
  · rw [if_pos (by omega), if_pos h]
  · rw [List.getD_eq_getElem?_getD, List.getElem?_eq_none (by omega)]
    split <;> simp

/-- the accumulator as the vector-matrix product sees it: every column cut / zero-padded to `dnum` limbs -/
def accT (N cols dnum : Nat) (acc : List Col) : List Col := (List.range cols).map (fun j => C02L.fit N dnum (acc.getD j []))

theorem accT_shape (N cols dnum : Nat) (acc : List Col) (h : ∀ j, j < cols → C02L.LimbsN N (acc.getD j [])) :
    shapeOk N cols dnum (accT N cols dnum acc) = true := by
  unfold shapeOk accT
  simp only [List.length_map, List.length_range, beq_self_eq_true, Bool.true_and, List.all_eq_true, Bool.and_eq_true, beq_iff_eq]
  intro c hc
  obtain ⟨j, hj, rfl⟩ := List.mem_map.mp hc
  have hw := C02L.fit_wf (h j (List.mem_range.mp hj)) dnum
  exact ⟨hw.1, fun l hl => hw.2 l hl⟩

theorem accToDft_flat (N cols dnum rs : Nat) (acc : List Col) (hs : shapeOk N cols rs acc = true) :
    (accToDft N cols dnum rs acc).flat = (mkBuf N cols dnum (accT N cols dnum acc)).flat := by
  have hz : shapeOk N cols dnum (zeroCols N cols dnum) = true := zeroCols_shape _ _ _
  have sz := (mkBuf_shape N cols dnum _ hz).1
  have sa := (mkBuf_shape N cols rs acc hs).1
  have hl : ∀ j, j < cols → C02L.LimbsN N (acc.getD j []) := fun j _ => shapeOk_limbs N cols rs acc hs j
  have st := (mkBuf_shape N cols dnum _ (accT_shape N cols dnum acc hl)).1
  have h := foldl_setActG (fun n' s' c => dftApplyCol n' 1 0 s' ((mkBuf N cols rs acc).act c)) (List.range cols)
    (mkBuf N cols dnum (zeroCols N cols dnum)) sz.1 List.nodup_range (fun c hc => List.mem_range.mp hc) (by intro c; simp)
  simp only at h
  have hfold : accToDft N cols dnum rs acc
      = (List.range cols).foldl (fun (b : Buf) c => b.setAct c (dftApplyCol b.n 1 0 b.size ((mkBuf N cols rs acc).act c)))
          (mkBuf N cols dnum (zeroCols N cols dnum)) := rfl
  rw [hfold]
  unfold Buf.flat
  rw [h.2.1, h.2.2.1, h.2.2.2.1]
  apply List.map_congr_left
  intro r hr
  have hr' : r < dnum * cols := by simpa [mkBuf] using List.mem_range.mp hr
  have hcpos : 0 < cols := by
    rcases Nat.eq_zero_or_pos cols with h0 | h0
    · rw [h0] at hr'; simp at hr'
    · exact h0
  have hc : r % cols < cols := Nat.mod_lt _ hcpos
  have hcol := h.2.2.2.2 (r % cols)
  rw [if_pos (List.mem_range.mpr hc)] at hcol
  -- the source column
  have hsrc : (mkBuf N cols rs acc).act (r % cols) = acc.getD (r % cols) [] := by
    have hlen := Buf.act_length _ sa.1 (r % cols) (by simpa [mkBuf] using hc)
    unfold Buf.act mkBuf at hlen ⊢
    simp only at hlen ⊢
    apply List.take_of_length_le
    have hw := (wf_of_shapeOk' N cols rs acc hs (r % cols) hc)
    omega
  -- the target column
  have htgt : (mkBuf N cols dnum (accT N cols dnum acc)).act (r % cols) = C02L.fit N dnum (acc.getD (r % cols) []) := by
    unfold Buf.act mkBuf accT
    simp only
    rw [List.getD_eq_getElem?_getD, List.getElem?_map, List.getElem?_range hc]
    simp only [Option.map_some, Option.getD_some]
    apply List.take_of_length_le
    simp
  have e1 : (mkBuf N cols dnum (zeroCols N cols dnum)).cols = cols := rfl
  have e2 : (mkBuf N cols dnum (accT N cols dnum acc)).cols = cols := rfl
  have e3 : (mkBuf N cols dnum (zeroCols N cols dnum)).n = N := rfl
  have e4 : (mkBuf N cols dnum (accT N cols dnum acc)).n = N := rfl
  rw [e1, e2, e3, e4, hcol, htgt, hsrc]
  show limbOr0 N (dftApplyCol N 1 0 dnum _) _ = _
  rw [dftApplyCol_eq_fit]

theorem opVmp_flat_congr (d a a' : Buf) (m : PMat) (lo : Nat) (h : a.flat = a'.flat) : opVmp d a m lo = opVmp d a' m lo := by
  unfold opVmp; rw [h]

/-- **`vmp_res` of one key bit is the executed external product** (`dsize = 1`) of the accumulator cut / padded to `dnum` limbs -/
theorem vmpCols_eq (N cols S dnum rs : Nat) (acc : List Col) (g : EpGGSW) (hs : shapeOk N cols rs acc = true)
    (hn : g.n = N) (hr : g.rank + 1 = cols) (hS : g.size = S) (hd : g.dsize = 1) :
    (List.range cols).map (vmpBuf N cols S (accToDft N cols dnum rs acc) g).act
      = epInternal (accT N cols dnum acc) g (zeroCols N cols S) (zeroCols N cols S) := by
  subst hn hr hS
  have hl : ∀ j, j < g.rank + 1 → C02L.LimbsN g.n (acc.getD j []) := fun j _ => shapeOk_limbs g.n (g.rank + 1) rs acc hs j
  have hshape := accT_shape g.n (g.rank + 1) dnum acc hl
  have h0 : ((accT g.n (g.rank + 1) dnum acc).getD 0 []).length = dnum := wf_of_shapeOk' _ _ _ _ hshape 0 (Nat.succ_pos _)
  have hf : (accToDft g.n (g.rank + 1) dnum rs acc).flat
      = (dftApplyAll 1 0 (mkBuf g.n (g.rank + 1) dnum (zeroCols g.n (g.rank + 1) dnum))
          (mkBuf g.n (g.rank + 1) dnum (accT g.n (g.rank + 1) dnum acc))).flat := by
    rw [accToDft_flat _ _ _ _ _ hs, dftApplyAll_id_flat _ _ _ _ hshape]
  unfold epInternal vmpBuf
  simp only [hd, if_true, h0]
  rw [opVmp_flat_congr _ _ _ _ _ hf]

/-! ### the monomials `x_pow_a[k]` -/

open TraceJump in
theorem ι_xPowA (N k : Nat) (hN : 0 < N) (hk : k < 2 * N) : Ks.ι N (xPowA N k) = rt N ^ k := by
  have hraw : xPowA N k = (List.range N).map (fun j => if j = (if k < N then k else (k - N) % N) then (if k < N then (1 : Int) else -1) else 0) := by
    unfold xPowA Lut.setXaiPlusY
    apply List.ext_getElem
    · simp
    · intro j h1 h2
      simp only [List.length_mapIdx, List.length_map, List.length_range] at h1
      simp only [List.getElem_mapIdx, List.getElem_map, List.getElem_range]
      by_cases hj : j = 0
      · rw [if_pos hj, add_zero]
        apply C02L.w64_small <;> (split <;> split <;> norm_num)
      · rw [if_neg hj]
  rw [PackJump.ι_eq_sum, hraw]
  simp only [List.length_map, List.length_range]
  have hget : ∀ t ∈ Finset.range N, (((List.range N).map (fun j => if j = (if k < N then k else (k - N) % N) then (if k < N then (1 : Int) else -1) else 0)).getD t 0) • rt N ^ t
      = if t = (if k < N then k else (k - N) % N) then (if k < N then (1 : Int) else -1) • rt N ^ t else 0 := by
    intro t ht
    have ht' := Finset.mem_range.mp ht
    rw [List.getD_eq_getElem?_getD, List.getElem?_map, List.getElem?_range ht']
    simp only [Option.map_some, Option.getD_some]
    split <;> simp
  rw [Finset.sum_congr rfl hget, Finset.sum_ite_eq']
  by_cases hkN : k < N
  · simp [hkN]
  · have hidx : (k - N) % N = k - N := Nat.mod_eq_of_lt (by omega)
    have hmem : k - N ∈ Finset.range N := Finset.mem_range.mpr (by omega)
    simp only [hkN, if_false, hidx, hmem, if_true]
    have : rt N ^ k = rt N ^ N * rt N ^ (k - N) := by rw [← pow_add]; congr 1; omega
    rw [this, rt_pow_N]; simp

theorem negMul_xPowA (N k : Nat) (hN : 0 < N) (hk : k < 2 * N) (v : Poly) (hv : v.length = N) :
    Hal.negMul (xPowA N k) v = C02L.rotP (k : Int) v := by
  apply KsDec.ι_inj N hN _ _ (by rw [Hal.negMul_length, hv]) (by rw [C02L.rotP_length, hv])
  rw [Ks.ι_negMul N _ _ hv hN, ι_xPowA N k hN hk, PackJump.ι_rotP_nat N hN k v hv]

theorem ι_polySub (N : Nat) (x y : Poly) (h : x.length = y.length) : Ks.ι N (polySub x y) = Ks.ι N x - Ks.ι N y := by
  have e : polySub x y = polyAdd x (polyNeg y) := by
    unfold polySub polyAdd polyNeg
    rw [List.zipWith_map_right]
    apply List.ext_getElem
    · simp
    · intro i h1 h2
      simp only [List.getElem_zipWith]; ring
  rw [e, Ks.ι_add N _ _ (by simp [polyNeg, h]), Core.ι_polyNeg]; ring

/-! ### the accumulation, limb by limb -/

theorem assignCol_limb (N : Nat) (f : Poly → Poly → Poly) (r a : Col) (l : Nat) (hr : l < r.length) (ha : l < a.length) :
    limbOr0 N (Hal.assignCol f r a) l = f (limbOr0 N r l) (limbOr0 N a l) := by
  unfold limbOr0 Hal.assignCol
  rw [List.getD_eq_getElem?_getD, List.getElem?_mapIdx, List.getElem?_eq_getElem hr]
  simp only [Option.map_some, Option.getD_some, if_pos ha]
  rw [List.getD_eq_getElem?_getD, List.getD_eq_getElem?_getD, List.getD_eq_getElem?_getD, List.getElem?_eq_getElem hr,
    List.getElem?_eq_getElem ha]
  rfl

theorem svpApplyCol_limb (N S : Nat) (P : Poly) (b : Col) (l : Nat) (hl : l < S) (hb : l < b.length) :
    limbOr0 N (svpApplyCol N S P b) l = Hal.negMul P (limbOr0 N b l) := by
  unfold svpApplyCol
  show ((List.range S).map _).getD l (zeroP N) = _
  rw [mapRange_getD _ _ _ _ hl, if_pos hb]

theorem termCol_length (N S p : Nat) (a v w : Col) : (termCol N S p a v w).length = a.length := by
  unfold termCol; rw [Hal.assignCol_length, Hal.assignCol_length]

theorem termCol_limb (N S p : Nat) (a v w : Col) (ha : a.length = S) (hv : v.length = S) (hw : w.length = S) (l : Nat) (hl : l < S) :
    limbOr0 N (termCol N S p a v w) l
      = polySub (polyAdd (limbOr0 N a l) (Hal.negMul (xPowA N p) (limbOr0 N v l))) (limbOr0 N w l) := by
  unfold termCol
  rw [assignCol_limb N _ _ _ l (by rw [Hal.assignCol_length, ha]; exact hl) (by rw [hw]; exact hl),
    assignCol_limb N _ _ _ l (by rw [ha]; exact hl) (by simp; exact hl),
    svpApplyCol_limb N S _ _ l hl (by rw [hv]; exact hl)]

theorem limbOr0_length_of_wf {N S : Nat} {c : Col} (h : C02L.ColWF N S c) (l : Nat) : (limbOr0 N c l).length = N := by
  unfold limbOr0
  by_cases hl : l < c.length
  · rw [List.getD_eq_getElem?_getD, List.getElem?_eq_getElem hl]; exact h.2 _ (List.getElem_mem hl)
  · rw [List.getD_eq_getElem?_getD, List.getElem?_eq_none (by omega)]; simp [zeroP]

theorem colWF_of_limbs {N S : Nat} {c : Col} (hlen : c.length = S) (h : ∀ l, l < S → (limbOr0 N c l).length = N) : C02L.ColWF N S c := by
  refine ⟨hlen, ?_⟩
  intro x hx
  obtain ⟨l, hl, rfl⟩ := List.mem_iff_getElem.mp hx
  have := h l (by rw [← hlen]; exact hl)
  unfold limbOr0 at this
  rwa [List.getD_eq_getElem?_getD, List.getElem?_eq_getElem hl] at this

theorem termCol_wf (N S p : Nat) (a v w : Col) (ha : C02L.ColWF N S a) (hv : C02L.ColWF N S v) (hw : C02L.ColWF N S w) :
    C02L.ColWF N S (termCol N S p a v w) := by
  apply colWF_of_limbs (by rw [termCol_length, ha.1])
  intro l hl
  rw [termCol_limb N S p a v w ha.1 hv.1 hw.1 l hl]
  simp [polySub, polyAdd, Hal.negMul_length, limbOr0_length_of_wf ha, limbOr0_length_of_wf hv, limbOr0_length_of_wf hw]

open TraceJump in
/-- one term in `ℤ[X]/(X^N+1)`: `a + (X^p − 1)·v` -/
theorem ι_termCol (N S p : Nat) (hN : 0 < N) (hp : p < 2 * N) (a v : Col) (ha : C02L.ColWF N S a) (hv : C02L.ColWF N S v) (l : Nat) (hl : l < S) :
    Ks.ι N (limbOr0 N (termCol N S p a v v) l) = Ks.ι N (limbOr0 N a l) + (rt N ^ p - 1) * Ks.ι N (limbOr0 N v l) := by
  have h1 := limbOr0_length_of_wf ha l
  have h2 := limbOr0_length_of_wf hv l
  rw [termCol_limb N S p a v v ha.1 hv.1 hv.1 l hl, ι_polySub N _ _ (by simp [polyAdd, Hal.negMul_length, h1, h2]),
    Ks.ι_add N _ _ (by rw [Hal.negMul_length, h1, h2]), Ks.ι_negMul N _ _ h2 hN, ι_xPowA N p hN hp]
  ring

/-- a column through a list of terms `(p, v)`: `c ← c + X^p·v − v` -/
def foldCol (N S : Nat) (c : Col) (ts : List (Nat × Col)) : Col := ts.foldl (fun c t => termCol N S t.1 c t.2 t.2) c

theorem bitsCol_eq_foldCol (N S cols : Nat) (accDft : Buf) (j : Nat) (c : Col) (blk : List (Int × EpGGSW)) :
    bitsCol N S cols accDft j c blk
      = foldCol N S c (blk.map (fun p => (Lut.posMod p.1 (2 * N), (vmpBuf N cols S accDft p.2).act j))) := by
  unfold bitsCol foldCol
  rw [List.foldl_map]

theorem foldCol_wf (N S : Nat) (ts : List (Nat × Col)) (hts : ∀ t ∈ ts, C02L.ColWF N S t.2) :
    ∀ c, C02L.ColWF N S c → C02L.ColWF N S (foldCol N S c ts) := by
  induction ts with
  | nil => intro c hc; exact hc
  | cons t rest ih =>
    intro c hc
    have ht := hts t (by simp)
    exact ih (fun u hu => hts u (by simp [hu])) _ (termCol_wf N S t.1 c t.2 t.2 hc ht ht)

/-- limb bound of a column -/
def ColB (N S : Nat) (c : Col) (B : Int) : Prop := ∀ l, l < S → normInf (limbOr0 N c l) ≤ B

theorem colB_of_forall {N S : Nat} {c : Col} {B : Int} (hB : 0 ≤ B) (h : ∀ l ∈ c, ∀ x ∈ l, |x| ≤ B) : ColB N S c B := by
  intro l _
  apply normInf_le_of_forall _ hB
  intro x hx
  unfold limbOr0 at hx
  by_cases hl : l < c.length
  · rw [List.getD_eq_getElem?_getD, List.getElem?_eq_getElem hl] at hx
    exact h _ (List.getElem_mem hl) x hx
  · rw [List.getD_eq_getElem?_getD, List.getElem?_eq_none (by omega)] at hx
    simp only [Option.getD_none, zeroP, List.mem_replicate] at hx
    rw [hx.2]; simpa using hB

theorem forall_of_colB {N S : Nat} {c : Col} {B : Int} (hlen : c.length = S) (h : ColB N S c B) : ∀ l ∈ c, ∀ x ∈ l, |x| ≤ B := by
  intro l hl x hx
  obtain ⟨i, hi, rfl⟩ := List.mem_iff_getElem.mp hl
  have := h i (by rw [← hlen]; exact hi)
  unfold limbOr0 at this
  rw [List.getD_eq_getElem?_getD, List.getElem?_eq_getElem hi] at this
  exact le_trans (abs_le_normInf hx) this

theorem normInf_polySub_le (a b : Poly) : normInf (polySub a b) ≤ normInf a + normInf b := by
  have e : polySub a b = polyAdd a (polyNeg b) := by
    unfold polySub polyAdd polyNeg
    rw [List.zipWith_map_right]
    apply List.ext_getElem
    · simp
    · intro i h1 h2
      simp only [List.getElem_zipWith]; ring
  rw [e]
  have := normInf_polyAdd_le a (polyNeg b)
  rwa [normInf_polyNeg] at this

theorem termCol_bound (N S p : Nat) (hN : 0 < N) (hp : p < 2 * N) (a v : Col) (ha : C02L.ColWF N S a) (hv : C02L.ColWF N S v)
    (A V : Int) (hA : ColB N S a A) (hV : ColB N S v V) : ColB N S (termCol N S p a v v) (A + 2 * V) := by
  intro l hl
  rw [termCol_limb N S p a v v ha.1 hv.1 hv.1 l hl, negMul_xPowA N p hN hp _ (limbOr0_length_of_wf hv l)]
  have h1 := normInf_polySub_le (polyAdd (limbOr0 N a l) (C02L.rotP (p : Int) (limbOr0 N v l))) (limbOr0 N v l)
  have h2 := normInf_polyAdd_le (limbOr0 N a l) (C02L.rotP (p : Int) (limbOr0 N v l))
  have h3 := PackJump.normInf_rotP_le (p : Int) (limbOr0 N v l)
  have h4 := hA l hl
  have h5 := hV l hl
  linarith

theorem foldCol_bound (N S : Nat) (hN : 0 < N) (V : Int) (ts : List (Nat × Col)) (hts : ∀ t ∈ ts, C02L.ColWF N S t.2)
    (hp : ∀ t ∈ ts, t.1 < 2 * N) (hV : ∀ t ∈ ts, ColB N S t.2 V) :
    ∀ c A, C02L.ColWF N S c → ColB N S c A → ColB N S (foldCol N S c ts) (A + ts.length * (2 * V)) := by
  induction ts with
  | nil => intro c A _ hA; simpa [foldCol] using hA
  | cons t rest ih =>
    intro c A hc hA
    have ht := hts t (by simp)
    have h := ih (fun u hu => hts u (by simp [hu])) (fun u hu => hp u (by simp [hu])) (fun u hu => hV u (by simp [hu]))
      _ (A + 2 * V) (termCol_wf N S t.1 c t.2 t.2 hc ht ht) (termCol_bound N S t.1 hN (hp t (by simp)) c t.2 hc ht A V hA (hV t (by simp)))
    have e : A + 2 * V + (rest.length : Int) * (2 * V) = A + ((t :: rest).length : Int) * (2 * V) := by
      simp only [List.length_cons]; push_cast; ring
    rw [← e]
    exact h

open TraceJump in
theorem ι_foldCol (N S : Nat) (hN : 0 < N) (ts : List (Nat × Col)) (hts : ∀ t ∈ ts, C02L.ColWF N S t.2)
    (hp : ∀ t ∈ ts, t.1 < 2 * N) (l : Nat) (hl : l < S) :
    ∀ c, C02L.ColWF N S c → Ks.ι N (limbOr0 N (foldCol N S c ts) l)
      = Ks.ι N (limbOr0 N c l) + (ts.map (fun t => (rt N ^ t.1 - 1) * Ks.ι N (limbOr0 N t.2 l))).sum := by
  induction ts with
  | nil => intro c _; simp [foldCol]
  | cons t rest ih =>
    intro c hc
    have ht := hts t (by simp)
    have h := ih (fun u hu => hts u (by simp [hu])) (fun u hu => hp u (by simp [hu])) _ (termCol_wf N S t.1 c t.2 t.2 hc ht ht)
    show Ks.ι N (limbOr0 N (foldCol N S (termCol N S t.1 c t.2 t.2) rest) l) = _
    rw [h, ι_termCol N S t.1 hN (hp t (by simp)) c t.2 hc ht l hl, List.map_cons, List.sum_cons]
    ring

/-! ### the end of a block -/

theorem mapM_congr_opt {α β : Type} (f g : α → Option β) : ∀ (l : List α), (∀ x ∈ l, f x = g x) → l.mapM f = l.mapM g := by
  intro l
  induction l with
  | nil => intro _; rfl
  | cons a t ih =>
    intro h
    rw [List.mapM_cons, List.mapM_cons, h a (by simp), ih (fun x hx => h x (by simp [hx]))]

theorem idftCol_self (N S : Nat) (a : Col) (h : a.length = S) : idftCol N S a = a := by
  unfold idftCol
  apply List.ext_getElem
  · simp [h]
  · intro j h1 h2
    simp only [List.getElem_map, List.getElem_range]
    rw [if_pos h2]
    unfold limbOr0
    rw [List.getD_eq_getElem?_getD, List.getElem?_eq_getElem h2]; rfl

theorem zbuf_act (N cols S j : Nat) (hj : j < cols) : (mkBuf N cols S (zeroCols N cols S)).act j = List.replicate S (zeroP N) := by
  unfold Buf.act mkBuf zeroCols
  simp only
  rw [List.getD_eq_getElem?_getD, List.getElem?_replicate, if_pos hj]
  simp

theorem blockFinish_eq (big128 : Bool) (N b rs S cols : Nat) (acc : List Col) (add : Buf) (hadd : BufShape N cols S add)
    (hs : add.size = S) :
    blockFinish big128 N b rs S cols acc add
      = (List.range cols).mapM (fun i => epBigNormalize big128 N b rs (Core.bigAddSmallAssign big128 (add.act i) (acc.getD i [])) b) := by
  unfold blockFinish
  apply mapM_congr_opt
  intro i hi
  have hi' := List.mem_range.mp hi
  unfold blockFinishCol
  have hz := (mkBuf_shape N 1 S _ (zeroCols_shape N 1 S)).1
  have hal : (add.act i).length = S := by rw [Buf.act_length add hadd.1 i (by rw [hadd.2.2.1]; exact hi'), hs]
  have : (opIdft (mkBuf N 1 S (zeroCols N 1 S)) 0 add i).act 0 = add.act i := by
    unfold opIdft
    rw [Buf.act_setAct_same _ hz.1 0 (by show 0 < 1; omega) _ (by simp [mkBuf])]
    show idftCol N S (add.act i) = _
    exact idftCol_self N S _ hal
  simp only [this]

end BlindExec
