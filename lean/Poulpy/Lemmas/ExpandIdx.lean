import Poulpy.Model.Core.Expand
import Mathlib.Tactic.Linarith
import Mathlib.Tactic.Ring

/-! Arithmetic of the packed-triangle index of `GLWESecretTensor::at` (`Core.secretTensorIdx`). -/

namespace Core

theorem two_mul_tri (i : Nat) : 2 * (i * (i + 1) / 2) = i * (i + 1) := by
  have h : 2 ∣ i * (i + 1) := (Nat.even_mul_succ_self i).two_dvd
  exact Nat.mul_div_cancel' h

/-- for `i ≤ j` the index is `i*rank + j − i(i+1)/2` -/
theorem secretTensorIdx_le (r i j : Nat) (h : i ≤ j) : secretTensorIdx r i j = i * r + j - i * (i + 1) / 2 := by
  unfold secretTensorIdx
  have : ¬ i > j := by omega
  simp [this]

/-- the subtraction does not truncate: `i(i+1)/2 ≤ i*rank + j` for `i ≤ j < rank` -/
theorem tri_le (r i j : Nat) (h : i ≤ j) (hj : j < r) : i * (i + 1) / 2 ≤ i * r + j := by
  have h2 := two_mul_tri i
  have : i * (i + 1) ≤ 2 * (i * r) := by nlinarith
  omega

/-- twice the index, without division -/
theorem two_mul_idx (r i j : Nat) (h : i ≤ j) (hj : j < r) :
    2 * secretTensorIdx r i j + i * (i + 1) = 2 * (i * r + j) := by
  rw [secretTensorIdx_le r i j h]
  have h2 := two_mul_tri i
  have h3 := tri_le r i j h hj
  omega

theorem secretTensorIdx_symm' (r i j : Nat) : secretTensorIdx r i j = secretTensorIdx r j i := by
  unfold secretTensorIdx
  by_cases h1 : i > j
  · have h2 : ¬ j > i := by omega
    simp [h1, h2]
  · by_cases h2 : j > i
    · simp [h1, h2]
    · have : i = j := by omega
      subst this; rfl

theorem secretTensorIdx_lt' (r i j : Nat) (h : i ≤ j) (hj : j < r) : secretTensorIdx r i j < (r + 1) * r / 2 := by
  have h1 := two_mul_idx r i j h hj
  have h2 := two_mul_tri r
  have h3 : (r + 1) * r = r * (r + 1) := Nat.mul_comm _ _
  rw [h3]
  -- 2·idx = 2ir + 2j − i(i+1) < r(r+1)
  have key : 2 * (i * r + j) < r * (r + 1) + i * (i + 1) := by nlinarith
  omega

theorem secretTensorIdx_inj' (r i j i' j' : Nat) (h : i ≤ j) (hj : j < r) (h' : i' ≤ j') (hj' : j' < r)
    (e : secretTensorIdx r i j = secretTensorIdx r i' j') : i = i' ∧ j = j' := by
  have h1 := two_mul_idx r i j h hj
  have h2 := two_mul_idx r i' j' h' hj'
  rw [e] at h1
  -- 2(ir + j) − i(i+1) = 2(i'r + j') − i'(i'+1)
  have hi : i = i' := by
    rcases Nat.lt_trichotomy i i' with hlt | heq | hgt
    · exfalso
      -- row i ends before row i' starts
      have : 2 * (i * r + j) + i' * (i' + 1) < 2 * (i' * r + j') + i * (i + 1) := by nlinarith
      omega
    · exact heq
    · exfalso
      have : 2 * (i' * r + j') + i * (i + 1) < 2 * (i * r + j) + i' * (i' + 1) := by nlinarith
      omega
  subst hi
  exact ⟨rfl, by omega⟩

theorem ring_regroup {R : Type*} [CommRing R] (m s u d p h : R) : m * s * u + d - p - h = m * (s * u) + (d - p - h) := by ring

theorem expand_regroup {R : Type*} [CommRing R] (sc u x body : R) : sc * u + x + sc * body = sc * (body + u) + x := by ring

end Core
