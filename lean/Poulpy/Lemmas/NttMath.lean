import Mathlib.Tactic.Ring
import Mathlib.Tactic.Linarith
import Mathlib.Algebra.Ring.Defs
import Mathlib.Algebra.Group.Basic

/-!
The butterfly networks of `ntt_ref` / `intt_ref` as *mathematical* networks over an arbitrary
commutative ring `R` (no lazy representatives, no wraps), for every size `n = 2^k`:

* `dif ρ k` — the decimation-in-frequency (Gentleman–Sande) network of the forward transform:
  a block `lo ++ hi` becomes `dif ρ² (lo + hi) ++ dif ρ² ((lo − hi)·ρ^i)`;
* `dit ρ⁻¹ k` — the decimation-in-time network of the inverse transform;
* `nttM ω k a = dif ω² k (a_i·ω^i)`, `inttM`.

Theorems: `dif ρ k v` is the list of evaluations of the polynomial `v` at the points `pts ρ k`
(the powers of `ρ` in bit-reversed order) whenever `ρ^(2^(k-1)) = −1`; hence `nttM ω k a` evaluates
`a` at the odd powers of `ω` (`ω^(2^k) = −1`), is additive and turns the negacyclic product into the
point-wise product; and `dit ρ⁻¹ k (dif ρ k v) = 2^k · v` for every invertible `ρ`, hence
`inttM (nttM a) = a`.
-/

namespace NttMath

variable {R : Type*} [CommRing R]

/-- polynomial evaluation (Horner), coefficient of degree 0 first -/
def ev : List R → R → R
  | [], _ => 0
  | c :: cs, x => c + x * ev cs x

/-- `v_i ↦ v_i · ρ^i` -/
def scalePow (ρ : R) : List R → List R
  | [] => []
  | c :: cs => c :: (scalePow ρ cs).map (· * ρ)

def addL (a b : List R) : List R := List.zipWith (· + ·) a b
def subL (a b : List R) : List R := List.zipWith (· - ·) a b

@[simp] theorem scalePow_length (ρ : R) (v : List R) : (scalePow ρ v).length = v.length := by
  induction v with
  | nil => rfl
  | cons c cs ih => simp [scalePow, ih]

@[simp] theorem addL_length (a b : List R) : (addL a b).length = min a.length b.length := by simp [addL]
@[simp] theorem subL_length (a b : List R) : (subL a b).length = min a.length b.length := by simp [subL]

theorem ev_map_mul (ρ : R) (v : List R) (x : R) : ev (v.map (· * ρ)) x = ρ * ev v x := by
  induction v with
  | nil => simp [ev]
  | cons c cs ih => simp only [List.map_cons, ev, ih]; ring

/-- evaluating the scaled list at `y` = evaluating the list at `ρ·y` -/
theorem ev_scalePow (ρ : R) (v : List R) (y : R) : ev (scalePow ρ v) y = ev v (ρ * y) := by
  induction v generalizing y with
  | nil => rfl
  | cons c cs ih =>
    simp only [scalePow, ev, ev_map_mul, ih]; ring

theorem ev_append (a b : List R) (x : R) : ev (a ++ b) x = ev a x + x ^ a.length * ev b x := by
  induction a with
  | nil => simp [ev]
  | cons c cs ih => simp only [List.cons_append, ev, ih, List.length_cons, pow_succ]; ring

theorem ev_addL (a b : List R) (h : a.length = b.length) (x : R) : ev (addL a b) x = ev a x + ev b x := by
  induction a generalizing b with
  | nil => cases b <;> simp_all [addL, ev]
  | cons c cs ih =>
    cases b with
    | nil => simp at h
    | cons d ds =>
      have hl : cs.length = ds.length := by simpa using h
      have := ih ds hl
      simp only [addL, List.zipWith_cons_cons, ev] at *
      rw [this]; ring

theorem ev_subL (a b : List R) (h : a.length = b.length) (x : R) : ev (subL a b) x = ev a x - ev b x := by
  induction a generalizing b with
  | nil => cases b <;> simp_all [subL, ev]
  | cons c cs ih =>
    cases b with
    | nil => simp at h
    | cons d ds =>
      have hl : cs.length = ds.length := by simpa using h
      have := ih ds hl
      simp only [subL, List.zipWith_cons_cons, ev] at *
      rw [this]; ring

theorem halves_length {α : Type*} (v : List α) (k : Nat) (hv : v.length = 2 ^ (k + 1)) :
    v.length / 2 = 2 ^ k ∧ (v.take (v.length / 2)).length = 2 ^ k ∧ (v.drop (v.length / 2)).length = 2 ^ k := by
  have e : v.length = 2 ^ k * 2 := by rw [hv, pow_succ]
  generalize 2 ^ k = m at *
  have h2 : v.length / 2 = m := by omega
  refine ⟨h2, ?_, ?_⟩
  · rw [List.length_take, h2]; omega
  · rw [List.length_drop, h2]; omega

/-- `v_i ↦ v_i · σ·ρ^i` (running twiddle, as the tables store them) -/
def scaleFrom (σ ρ : R) : List R → List R
  | [] => []
  | c :: cs => c * σ :: scaleFrom (σ * ρ) ρ cs

theorem scaleFrom_map (σ ρ : R) (v : List R) : (scaleFrom σ ρ v).map (· * ρ) = scaleFrom (σ * ρ) ρ v := by
  induction v generalizing σ with
  | nil => rfl
  | cons c cs ih => simp only [scaleFrom, List.map_cons, ih]; congr 1; ring

theorem scalePow_eq_scaleFrom (ρ : R) (v : List R) : scalePow ρ v = scaleFrom 1 ρ v := by
  induction v with
  | nil => rfl
  | cons c cs ih => simp only [scalePow, scaleFrom, ih, scaleFrom_map, mul_one]

theorem scalePow_cons (ρ c : R) (cs : List R) : scalePow ρ (c :: cs) = c :: scaleFrom ρ ρ cs := by
  rw [scalePow_eq_scaleFrom]; simp [scaleFrom]

theorem scaleFrom_eq_map (σ ρ : R) (v : List R) : scaleFrom σ ρ v = (scalePow ρ v).map (σ * ·) := by
  induction v generalizing σ with
  | nil => rfl
  | cons c cs ih =>
    simp only [scaleFrom, scalePow, List.map_cons, List.map_map, ih]
    congr 1
    · ring
    · apply List.map_congr_left; intro x _; simp only [Function.comp]; ring

@[simp] theorem scaleFrom_length (σ ρ : R) (v : List R) : (scaleFrom σ ρ v).length = v.length := by
  induction v generalizing σ with
  | nil => rfl
  | cons c cs ih => simp [scaleFrom, ih]

/-! ### the forward network -/

/-- decimation-in-frequency network on a block of length `2^k` with primitive `2^k`-th root `ρ` -/
def dif (ρ : R) : Nat → List R → List R
  | 0, v => v
  | k + 1, v =>
    let h := v.length / 2
    dif (ρ * ρ) k (addL (v.take h) (v.drop h)) ++ dif (ρ * ρ) k (scalePow ρ (subL (v.take h) (v.drop h)))

/-- the evaluation points of `dif ρ k`, in output order (bit-reversed powers of `ρ`) -/
def pts (ρ : R) : Nat → List R
  | 0 => [1]
  | k + 1 => pts (ρ * ρ) k ++ (pts (ρ * ρ) k).map (· * ρ)

theorem pts_length (ρ : R) (k : Nat) : (pts ρ k).length = 2 ^ k := by
  induction k generalizing ρ with
  | zero => rfl
  | succ k ih => simp [pts, ih, pow_succ]; ring

theorem dif_length (ρ : R) (k : Nat) (v : List R) (hv : v.length = 2 ^ k) : (dif ρ k v).length = 2 ^ k := by
  induction k generalizing ρ v with
  | zero => simpa [dif] using hv
  | succ k ih =>
    obtain ⟨h2, hlo, hhi⟩ := halves_length v k hv
    simp only [dif, List.length_append]
    rw [ih, ih]
    · rw [pow_succ]; ring
    · simp [hlo, hhi]
    · simp [hlo, hhi]

/-- every evaluation point is a `2^k`-th root of unity when `ρ` is -/
theorem pts_pow (ρ : R) (k : Nat) (hρ : ρ ^ (2 ^ k) = 1) : ∀ y ∈ pts ρ k, y ^ (2 ^ k) = 1 := by
  induction k generalizing ρ with
  | zero => intro y hy; simp [pts] at hy; subst hy; simp
  | succ k ih =>
    intro y hy
    have hρ2 : (ρ * ρ) ^ (2 ^ k) = 1 := by rw [← pow_two, ← pow_mul, ← pow_succ']; exact hρ
    simp only [pts, List.mem_append, List.mem_map] at hy
    rcases hy with hy | ⟨z, hz, rfl⟩
    · have := ih (ρ * ρ) hρ2 y hy
      rw [pow_succ, pow_mul, this]; simp
    · have := ih (ρ * ρ) hρ2 z hz
      rw [mul_pow, hρ, pow_succ, pow_mul, this]; simp

/-- **the forward network evaluates**: for `|v| = 2^k` and `ρ^(2^(k−1)) = −1` (nothing for `k = 0`),
`dif ρ k v` lists the values of the polynomial `v` at `pts ρ k` -/
theorem dif_eval (ρ : R) (k : Nat) (v : List R) (hv : v.length = 2 ^ k) (hρ : k = 0 ∨ ρ ^ (2 ^ (k - 1)) = -1) :
    dif ρ k v = (pts ρ k).map (ev v) := by
  induction k generalizing ρ v with
  | zero =>
    match v, hv with
    | [c], _ => simp [dif, pts, ev]
  | succ k ih =>
    have hρ1 : ρ ^ (2 ^ k) = -1 := by
      rcases hρ with h | h
      · omega
      · simpa using h
    have hρ2 : (ρ * ρ) ^ (2 ^ k) = 1 := by rw [mul_pow, hρ1]; simp
    have hnext : k = 0 ∨ (ρ * ρ) ^ (2 ^ (k - 1)) = -1 := by
      rcases Nat.eq_zero_or_pos k with h | h
      · exact Or.inl h
      · right
        rw [← pow_two, ← pow_mul, ← pow_succ']
        have : k - 1 + 1 = k := by omega
        rw [this]; exact hρ1
    obtain ⟨h2, hlo, hhi⟩ := halves_length v k hv
    simp only [dif, pts, List.map_append, List.map_map]
    rw [ih (ρ * ρ) _ (by simp [hlo, hhi]) hnext, ih (ρ * ρ) _ (by simp [hlo, hhi]) hnext]
    have hsplit : v = v.take (v.length / 2) ++ v.drop (v.length / 2) := (List.take_append_drop _ _).symm
    congr 1
    · apply List.map_congr_left
      intro x hx
      have hx1 := pts_pow (ρ * ρ) k hρ2 x hx
      rw [ev_addL _ _ (by rw [hlo, hhi])]
      conv_rhs => rw [hsplit, ev_append, hlo, hx1]
      ring
    · apply List.map_congr_left
      intro x hx
      have hx1 := pts_pow (ρ * ρ) k hρ2 x hx
      simp only [Function.comp]
      rw [ev_scalePow, ev_subL _ _ (by rw [hlo, hhi])]
      conv_rhs => rw [hsplit, ev_append, hlo, mul_pow, hx1, hρ1]
      rw [mul_comm ρ x]; ring

/-! ### negacyclic product -/

def scaleL (c : R) (a : List R) : List R := a.map (c * ·)

/-- multiplication by `X` in `R[X]/(X^n+1)` -/
def mulXR (l : List R) : List R :=
  match l.getLast? with
  | none => []
  | some z => (-z) :: l.dropLast

/-- the negacyclic product, Horner form (same recursion as `Hal.negMul`) -/
def negMulR : List R → List R → List R
  | [], b => b.map (fun _ => 0)
  | a0 :: as, b => addL (scaleL a0 b) (mulXR (negMulR as b))

theorem mulXR_length (l : List R) : (mulXR l).length = l.length := by
  unfold mulXR
  rcases List.eq_nil_or_concat l with rfl | ⟨l', z, rfl⟩
  · rfl
  · simp [List.concat_eq_append]

theorem negMulR_length (a b : List R) : (negMulR a b).length = b.length := by
  induction a with
  | nil => simp [negMulR]
  | cons a0 as ih => simp [negMulR, scaleL, mulXR_length, ih]

theorem ev_scaleL (c : R) (a : List R) (x : R) : ev (scaleL c a) x = c * ev a x := by
  induction a with
  | nil => simp [scaleL, ev]
  | cons d ds ih => simp only [scaleL, List.map_cons, ev] at *; rw [ih]; ring

theorem ev_zero (b : List R) (x : R) : ev (b.map (fun _ => (0 : R))) x = 0 := by
  induction b with
  | nil => rfl
  | cons d ds ih => simp [ev, ih]

/-- at a point with `x^n = −1`, multiplying by `X` multiplies the value by `x` -/
theorem ev_mulXR (l : List R) (x : R) (hx : x ^ l.length = -1) : ev (mulXR l) x = x * ev l x := by
  rcases List.eq_nil_or_concat l with rfl | ⟨l', z, rfl⟩
  · simp [mulXR, ev]
  · simp only [List.concat_eq_append] at *
    have : mulXR (l' ++ [z]) = (-z) :: l' := by simp [mulXR]
    rw [this, ev_append]
    simp only [ev, mul_zero, add_zero]
    have hx' : x ^ l'.length * x = -1 := by simpa [pow_succ] using hx
    have : x * (ev l' x + x ^ l'.length * z) = x * ev l' x + (x ^ l'.length * x) * z := by ring
    rw [this, hx']; ring

/-- **evaluation at a root of `X^n + 1` is multiplicative on the negacyclic product** -/
theorem ev_negMulR (a b : List R) (x : R) (hx : x ^ b.length = -1) : ev (negMulR a b) x = ev a x * ev b x := by
  induction a with
  | nil => simp [negMulR, ev, ev_zero]
  | cons a0 as ih =>
    simp only [negMulR]
    rw [ev_addL _ _ (by simp [scaleL, mulXR_length, negMulR_length]), ev_scaleL,
      ev_mulXR _ _ (by rw [negMulR_length]; exact hx), ih]
    simp only [ev]; ring

/-! ### the forward transform -/

/-- `ntt_ref` as a mathematical network: first pass `a_i·ω^i`, then `dif` with root `ω²` -/
def nttM (ω : R) (k : Nat) (a : List R) : List R := dif (ω * ω) k (scalePow ω a)

/-- **`nttM` evaluates at the odd powers of `ω`** (`ω·x`, `x` over the `2^k`-th roots `pts ω² k`) -/
theorem nttM_eval (ω : R) (k : Nat) (a : List R) (ha : a.length = 2 ^ k) (hω : ω ^ (2 ^ k) = -1) :
    nttM ω k a = (pts (ω * ω) k).map (fun x => ev a (ω * x)) := by
  unfold nttM
  have hnext : k = 0 ∨ (ω * ω) ^ (2 ^ (k - 1)) = -1 := by
    rcases Nat.eq_zero_or_pos k with h | h
    · exact Or.inl h
    · right
      rw [← pow_two, ← pow_mul, ← pow_succ']
      have : k - 1 + 1 = k := by omega
      rw [this]; exact hω
  rw [dif_eval _ k _ (by simpa using ha) hnext]
  apply List.map_congr_left
  intro x _
  exact ev_scalePow ω a x

/-- each evaluation point is a root of `X^n + 1` -/
theorem nttM_point_pow (ω : R) (k : Nat) (hω : ω ^ (2 ^ k) = -1) : ∀ x ∈ pts (ω * ω) k, (ω * x) ^ (2 ^ k) = -1 := by
  intro x hx
  have h1 : (ω * ω) ^ (2 ^ k) = 1 := by rw [mul_pow, hω]; simp
  rw [mul_pow, pts_pow _ k h1 x hx, hω]; simp

def mulL (a b : List R) : List R := List.zipWith (· * ·) a b

theorem map_zipWith_same {α β : Type*} (l : List α) (f g : α → β) (op : β → β → β) :
    List.zipWith op (l.map f) (l.map g) = l.map (fun x => op (f x) (g x)) := by
  induction l with
  | nil => rfl
  | cons x xs ih => simp [ih]

/-- **(a) the forward transform maps the negacyclic product to the point-wise product** -/
theorem nttM_mul (ω : R) (k : Nat) (a b : List R) (ha : a.length = 2 ^ k) (hb : b.length = 2 ^ k) (hω : ω ^ (2 ^ k) = -1) :
    nttM ω k (negMulR a b) = mulL (nttM ω k a) (nttM ω k b) := by
  rw [nttM_eval ω k _ (by rw [negMulR_length]; exact hb) hω, nttM_eval ω k a ha hω, nttM_eval ω k b hb hω]
  unfold mulL
  rw [map_zipWith_same]
  apply List.map_congr_left
  intro x hx
  exact ev_negMulR a b _ (by rw [hb]; exact nttM_point_pow ω k hω x hx)

/-- **(a) and it is additive** -/
theorem nttM_add (ω : R) (k : Nat) (a b : List R) (ha : a.length = 2 ^ k) (hb : b.length = 2 ^ k) (hω : ω ^ (2 ^ k) = -1) :
    nttM ω k (addL a b) = addL (nttM ω k a) (nttM ω k b) := by
  rw [nttM_eval ω k _ (by simp [ha, hb]) hω, nttM_eval ω k a ha hω, nttM_eval ω k b hb hω]
  unfold addL
  rw [map_zipWith_same]
  apply List.map_congr_left
  intro x _
  exact ev_addL a b (by rw [ha, hb]) _

/-! ### the inverse network -/

/-- decimation-in-time network of `intt_ref`: the two half blocks first, then
`(a, b) ↦ (a + b·ρ'^i, a − b·ρ'^i)` -/
def dit (ρ' : R) : Nat → List R → List R
  | 0, v => v
  | k + 1, v =>
    let h := v.length / 2
    let lo := dit (ρ' * ρ') k (v.take h)
    let bo := scalePow ρ' (dit (ρ' * ρ') k (v.drop h))
    addL lo bo ++ subL lo bo

theorem scalePow_map_mul (ρ c : R) (v : List R) : scalePow ρ (v.map (c * ·)) = (scalePow ρ v).map (c * ·) := by
  induction v with
  | nil => rfl
  | cons d ds ih => simp only [List.map_cons, scalePow, ih, List.map_map]; congr 1; apply List.map_congr_left; intro x _; simp; ring

theorem scalePow_inv (ρ ρ' : R) (h : ρ * ρ' = 1) (v : List R) : scalePow ρ' (scalePow ρ v) = v := by
  induction v with
  | nil => rfl
  | cons d ds ih =>
    simp only [scalePow]
    congr 1
    have : scalePow ρ' ((scalePow ρ ds).map (· * ρ)) = (scalePow ρ' (scalePow ρ ds)).map (· * ρ) := by
      have := scalePow_map_mul ρ' ρ (scalePow ρ ds)
      simpa [mul_comm] using this
    rw [this, ih, List.map_map]
    conv_rhs => rw [← List.map_id ds]
    apply List.map_congr_left
    intro x _
    simp only [Function.comp, id]
    rw [mul_assoc, h, mul_one]

theorem add_sub_halves (lo hi : List R) (c : R) (h : lo.length = hi.length) :
    addL (addL lo hi |>.map (c * ·)) (subL lo hi |>.map (c * ·)) = lo.map ((2 * c) * ·) ∧
    subL (addL lo hi |>.map (c * ·)) (subL lo hi |>.map (c * ·)) = hi.map ((2 * c) * ·) := by
  induction lo generalizing hi with
  | nil => cases hi <;> simp_all [addL, subL]
  | cons x xs ih =>
    cases hi with
    | nil => simp at h
    | cons y ys =>
      have hl : xs.length = ys.length := by simpa using h
      obtain ⟨i1, i2⟩ := ih ys hl
      simp only [addL, subL, List.zipWith_cons_cons, List.map_cons] at *
      refine ⟨?_, ?_⟩
      · rw [i1]; congr 1; ring
      · rw [i2]; congr 1; ring

/-- **the inverse network undoes the forward network up to the factor `2^k`**, for every invertible `ρ` -/
theorem dit_dif (ρ ρ' : R) (h : ρ * ρ' = 1) (k : Nat) (v : List R) (hv : v.length = 2 ^ k) :
    dit ρ' k (dif ρ k v) = v.map ((2 ^ k : R) * ·) := by
  induction k generalizing ρ ρ' v with
  | zero => simp [dit, dif]
  | succ k ih =>
    obtain ⟨h2, hlo, hhi⟩ := halves_length v k hv
    have hsq : (ρ * ρ) * (ρ' * ρ') = 1 := by
      calc (ρ * ρ) * (ρ' * ρ') = (ρ * ρ') * (ρ * ρ') := by ring
        _ = 1 := by rw [h]; ring
    set lo := v.take (v.length / 2) with hlo_def
    set hi := v.drop (v.length / 2) with hhi_def
    have hu : (addL lo hi).length = 2 ^ k := by simp [hlo, hhi]
    have hw : (scalePow ρ (subL lo hi)).length = 2 ^ k := by simp [hlo, hhi]
    have hd1 := dif_length (ρ * ρ) k _ hu
    have hd2 := dif_length (ρ * ρ) k _ hw
    have hlen : (dif ρ (k + 1) v).length / 2 = 2 ^ k := by
      rw [dif_length ρ (k + 1) v hv, pow_succ]; omega
    simp only [dit]
    rw [hlen]
    have e : dif ρ (k + 1) v = dif (ρ * ρ) k (addL lo hi) ++ dif (ρ * ρ) k (scalePow ρ (subL lo hi)) := rfl
    rw [e, List.take_left' hd1, List.drop_left' hd1, ih (ρ * ρ) (ρ' * ρ') hsq _ hu, ih (ρ * ρ) (ρ' * ρ') hsq _ hw]
    rw [scalePow_map_mul, scalePow_inv ρ ρ' h]
    obtain ⟨a1, a2⟩ := add_sub_halves lo hi (2 ^ k : R) (by rw [hlo, hhi])
    rw [a1, a2, ← List.map_append]
    have hv' : lo ++ hi = v := List.take_append_drop _ _
    rw [hv']
    apply List.map_congr_left
    intro x _
    rw [pow_succ]; ring

/-- `intt_ref` as a mathematical network: `dit` with root `ω'² = ω⁻²`, then `·ω'^i·n⁻¹` -/
def inttM (ω' ninv : R) (k : Nat) (v : List R) : List R := (scalePow ω' (dit (ω' * ω') k v)).map (ninv * ·)

/-- **(b) `intt ∘ ntt = id`** for `ω·ω' = 1`, `n⁻¹·2^k = 1` -/
theorem inttM_nttM (ω ω' ninv : R) (k : Nat) (h : ω * ω' = 1) (hn : ninv * 2 ^ k = 1) (a : List R) (ha : a.length = 2 ^ k) :
    inttM ω' ninv k (nttM ω k a) = a := by
  unfold inttM nttM
  have hsq : (ω * ω) * (ω' * ω') = 1 := by
    calc (ω * ω) * (ω' * ω') = (ω * ω') * (ω * ω') := by ring
      _ = 1 := by rw [h]; ring
  rw [dit_dif (ω * ω) (ω' * ω') hsq k _ (by simpa using ha), scalePow_map_mul, scalePow_inv ω ω' h, List.map_map]
  conv_rhs => rw [← List.map_id a]
  apply List.map_congr_left
  intro x _
  simp only [Function.comp, id]
  rw [← mul_assoc, hn, one_mul]

end NttMath
