import Poulpy.Lemmas.EpTotal

/-! Cswap: the two accumulators `res_a + P`, `res_b − P` (`vec_znx_big_add_small_into`, `vec_znx_big_sub_small_a`, i64 accumulator) are exact
under head-room; normalise-a-sum in total form; the phase value of a negated ciphertext. -/

namespace Core
open Hal Core.Ops C02L KsDec Finset

theorem ι_polyNeg (N : Nat) (x : Poly) : Ks.ι N (polyNeg x) = - Ks.ι N x := by
  have e : polyNeg x = polyScale (-1) x := by
    unfold polyNeg polyScale; apply List.map_congr_left; intro a _; ring
  rw [e, ι_polyScale]; simp

theorem small_of_bound (c : Col) (X : Int) (hX : X < 2 ^ 62) (h : ∀ l ∈ c, ∀ x ∈ l, |x| ≤ X) : ColSmall c := by
  intro l hl x hx
  have := abs_le.mp (h l hl x hx)
  constructor <;> linarith

theorem bigAddSmallInto_exact {N : Nat} (S : Nat) (P q : Col) (X Y : Int) (hX : X < 2 ^ 62) (hY : Y < 2 ^ 62)
    (hP : ColWF N S P) (hq : LimbsN N q) (hPb : ∀ l ∈ P, ∀ x ∈ l, |x| ≤ X) (hqb : ∀ l ∈ q, ∀ x ∈ l, |x| ≤ Y) :
    bigAddSmallInto false N S P q = C02L.colAdd P (fit N S q) := by
  unfold bigAddSmallInto
  simp only [Bool.false_eq_true, if_false]
  rw [vecAdd_nf S P q hP.2 hq (small_of_bound P X hX hPb) (small_of_bound q Y hY hqb), fit_self hP.1]

theorem bigSubSmallA_exact {N : Nat} (S : Nat) (q P : Col) (X Y : Int) (hX : X < 2 ^ 62) (hY : Y < 2 ^ 62)
    (hP : ColWF N S P) (hq : LimbsN N q) (hPb : ∀ l ∈ P, ∀ x ∈ l, |x| ≤ X) (hqb : ∀ l ∈ q, ∀ x ∈ l, |x| ≤ Y) :
    bigSubSmallA false N S q P = C02L.colAdd (fit N S q) (P.map polyNeg) := by
  unfold bigSubSmallA
  simp only [Bool.false_eq_true, if_false]
  rw [vecSub_nf S q P hq hP.2 (small_of_bound q Y hY hqb) (small_of_bound P X hX hPb), fit_self hP.1]

theorem neg_col_wf {N S : Nat} {c : Col} (h : ColWF N S c) : ColWF N S (c.map polyNeg) :=
  ⟨by rw [List.length_map]; exact h.1, fun l hl => by
    obtain ⟨x, hx, rfl⟩ := List.mem_map.mp hl
    rw [polyNeg_length]; exact h.2 x hx⟩

theorem neg_col_bound (c : Col) (X : Int) (h : ∀ l ∈ c, ∀ x ∈ l, |x| ≤ X) : ∀ l ∈ c.map polyNeg, ∀ x ∈ l, |x| ≤ X := by
  intro l hl x hx
  obtain ⟨p, hp, rfl⟩ := List.mem_map.mp hl
  unfold polyNeg at hx
  obtain ⟨y, hy, rfl⟩ := List.mem_map.mp hx
  rw [abs_neg]; exact h p hp y hy

/-- the phase value of the column-wise negation -/
theorem ι_valP_phase_neg (N : Nat) (hN : 0 < N) (b S : Nat) (s : List Poly) (n : Nat) (p : Nat → Col)
    (hp : ∀ j, j < n + 1 → ColWF N S (p j)) :
    Ks.ι N (valP b N (phase s (Ks.mkCt b N ((List.range (n + 1)).map (fun j => (p j).map polyNeg)))))
      = - Ks.ι N (valP b N (phase s (Ks.mkCt b N ((List.range (n + 1)).map p)))) := by
  have hget : ∀ (f : Nat → Col) i, i < n + 1 → ((List.range (n + 1)).map f).getD i [] = f i := fun f i hi => getD_range_map (n + 1) i f hi
  have hmem : ∀ (f : Nat → Col), (∀ j, j < n + 1 → ColWF N S (f j)) → ∀ c ∈ (List.range (n + 1)).map f, ColWF N S c := by
    intro f hf c hc
    obtain ⟨j, hj, rfl⟩ := List.mem_map.mp hc
    exact hf j (List.mem_range.mp hj)
  have hne : ∀ (f : Nat → Col), (List.range (n + 1)).map f ≠ [] := by
    intro f h; have := congrArg List.length h; simp at this
  rw [ι_valP_phase_cols N hN b S s _ (hne _) (hmem _ (fun j hj => neg_col_wf (hp j hj))),
    ι_valP_phase_cols N hN b S s _ (hne _) (hmem _ hp)]
  simp only [List.length_map, List.length_range, Nat.add_sub_cancel]
  rw [hget _ 0 (by omega), hget p 0 (by omega), valP_map (linT_neg N) b _ (hp 0 (by omega)).2, ι_polyNeg, neg_add, ← Finset.sum_neg_distrib]
  congr 1
  apply Finset.sum_congr rfl
  intro i hi
  have hi' : i + 1 < n + 1 := by have := mem_range.mp hi; omega
  rw [hget _ _ hi', hget p _ hi', valP_map (linT_neg N) b _ (hp _ hi').2, ι_polyNeg]
  ring

/-- **normalise a column-wise sum `u_j + v_j`, total form** (both widths, any radices, every offset) -/
theorem norm_add_total (big128 : Bool) (N rb rs ab S n : Nat) (off : Int) (X Y : Int) (u v : Nat → Col) (hN : 0 < N)
    (hrb1 : 1 ≤ rb) (hrb : rb ≤ 62) (hab1 : 1 ≤ ab) (hab : ab ≤ 62) (hX0 : 0 ≤ X) (hY0 : 0 ≤ Y)
    (hH : X + Y + 8 ≤ 2 ^ (bitsOf big128 - 2))
    (hu : ∀ j, j < n + 1 → ColWF N S (u j)) (hub : ∀ j, j < n + 1 → ∀ l ∈ u j, ∀ x ∈ l, |x| ≤ X)
    (hv : ∀ j, j < n + 1 → ColWF N S (v j)) (hvb : ∀ j, j < n + 1 → ∀ l ∈ v j, ∀ x ∈ l, |x| ≤ Y) :
    ∃ cs, (List.range (n + 1)).mapM (fun j => bigNormalizeOff big128 N rb rs off (C02L.colAdd (u j) (v j)) ab) = some cs ∧
      cs.length = n + 1 ∧ (∀ c ∈ cs, ColWF N rs c) ∧ (∀ c ∈ cs, ∀ l ∈ c, ∀ x ∈ l, |x| ≤ 2 ^ rb - 1) ∧
      ∀ (s : List Poly), ∃ E Q : Poly, E.length = N ∧ Q.length = N ∧
        normInf E ≤ (1 + snorm (min n s.length) s) * normTolOff (rb * rs) (ab * S) off ∧
        (2 : Ks.R N) ^ (ab * S + (-off).toNat) * Ks.ι N (valP rb N (phase s (Ks.mkCt rb N cs)))
          = (2 : Ks.R N) ^ (rb * rs) * (2 : Ks.R N) ^ off.toNat *
              (Ks.ι N (valP ab N (phase s (Ks.mkCt ab N ((List.range (n + 1)).map u))))
                + Ks.ι N (valP ab N (phase s (Ks.mkCt ab N ((List.range (n + 1)).map v)))))
            + Ks.ι N E + (2 : Ks.R N) ^ (rb * rs + (ab * S + (-off).toNat)) * Ks.ι N Q := by
  have hsumwf : ∀ c ∈ (List.range (n + 1)).map (fun j => C02L.colAdd (u j) (v j)), ColWF N S c := by
    intro c hc
    obtain ⟨j, hj, rfl⟩ := List.mem_map.mp hc
    have hj' := List.mem_range.mp hj
    exact colAdd_wf (hu j hj') (hv j hj')
  have hsumb : ∀ c ∈ (List.range (n + 1)).map (fun j => C02L.colAdd (u j) (v j)), ∀ l ∈ c, ∀ x ∈ l, |x| ≤ X + Y := by
    intro c hc
    obtain ⟨j, hj, rfl⟩ := List.mem_map.mp hc
    have hj' := List.mem_range.mp hj
    exact colAdd_bound _ _ X Y (hub j hj') (hvb j hj')
  have hnes : (List.range (n + 1)).map (fun j => C02L.colAdd (u j) (v j)) ≠ [] := by
    intro h; have := congrArg List.length h; simp at this
  obtain ⟨cs, h1, h2, h3, h4, h5⟩ := norm_stage_ring big128 N rb rs ab S off (X + Y) _ hN hrb1 hrb hab1 hab (by linarith) hH hnes hsumwf hsumb
  refine ⟨cs, ?_, by simpa using h2, h3, h4, ?_⟩
  · rw [mapM_comp (fun j => C02L.colAdd (u j) (v j)) (fun c => bigNormalizeOff big128 N rb rs off c ab)]
    exact h1
  · intro s
    obtain ⟨E, Q, hE, hQ, hn, he⟩ := h5 s
    have e1 : ((List.range (n + 1)).map (fun j => C02L.colAdd (u j) (v j))).length - 1 = n := by simp
    rw [e1] at hn
    refine ⟨E, Q, hE, hQ, hn, ?_⟩
    rw [← ι_valP_phase_add N hN ab S s n u v hu hv]
    have := he
    push_cast at this
    exact this

theorem ntt120BigAddSmall_eq (n S : Nat) (a b : Col) (ha : a.length = S) : ntt120BigAddSmall n S a b = vecAddAssignW w128 a b := by
  subst ha
  unfold ntt120BigAddSmall vecAddAssignW
  have e1 : min (min a.length b.length) a.length = min b.length a.length := by omega
  have e2 : min a.length a.length = a.length := Nat.min_self _
  have e3 : min b.length a.length ≤ a.length := Nat.min_le_right _ _
  simp only [e1, e2]
  rw [List.take_of_length_le (Nat.le_refl a.length)]
  have e4 : (b.take (min b.length a.length)).drop a.length = [] := by
    apply List.drop_eq_nil_of_le; rw [List.length_take]; omega
  have e5 : a.length - max a.length (min b.length a.length) = 0 := by omega
  rw [e4, e5]
  simp

theorem w128_small (x : Int) (h : |x| < 2 ^ 127) : w128 x = x := by
  have := abs_lt.mp h
  unfold w128; omega

theorem znxSubW128_exact (X Y : Int) (hXY : X + Y < 2 ^ 127) (x y : Poly) (hl : x.length = y.length)
    (hx : ∀ v ∈ x, |v| ≤ Y) (hy : ∀ v ∈ y, |v| ≤ X) : znxSubW w128 x y = polyAdd x (polyNeg y) := by
  unfold znxSubW polyAdd polyNeg
  apply List.ext_getElem
  · simp [hl]
  · intro t h1 h2
    simp only [List.getElem_zipWith, List.getElem_map]
    have ht1 : t < x.length := by simp at h1; omega
    have ht2 : t < y.length := by simp at h1; omega
    have a1 := hx _ (List.getElem_mem ht1)
    have a2 := hy _ (List.getElem_mem ht2)
    rw [w128_small _ (by
      have := abs_sub x[t] y[t]
      linarith)]
    ring

theorem znxNegateW128_exact (N : Nat) (X : Int) (hX : X < 2 ^ 127) (y : Poly) (hl : y.length = N) (hy : ∀ v ∈ y, |v| ≤ X) :
    znxNegateW w128 y = polyAdd (zeroP N) (polyNeg y) := by
  unfold znxNegateW polyAdd polyNeg zeroP
  apply List.ext_getElem
  · simp [hl]
  · intro t h1 h2
    simp only [List.getElem_zipWith, List.getElem_map, List.getElem_replicate]
    have ht : t < y.length := by simpa using h1
    have a2 := hy _ (List.getElem_mem ht)
    rw [w128_small _ (by rw [abs_neg]; linarith)]
    ring

theorem ntt120BigSubSmallA_exact {N : Nat} (S : Nat) (q P : Col) (X Y : Int) (hY0 : 0 ≤ Y) (hXY : X + Y < 2 ^ 127)
    (hP : ColWF N S P) (hq : LimbsN N q) (hPb : ∀ l ∈ P, ∀ x ∈ l, |x| ≤ X) (hqb : ∀ l ∈ q, ∀ x ∈ l, |x| ≤ Y) :
    ntt120BigSubSmallA N S q P = C02L.colAdd (fit N S q) (P.map polyNeg) := by
  have hS := hP.1
  unfold ntt120BigSubSmallA
  have e1 : min (min q.length P.length) S = min q.length P.length := by rw [hS]; omega
  have e2 : min q.length S = min q.length P.length := by rw [hS]
  have e3 : min P.length S = P.length := by rw [hS]; exact Nat.min_self _
  simp only [e1, e2, e3]
  have e4 : ((q.take (min q.length P.length)).drop (min q.length P.length)) = [] := by
    apply List.drop_eq_nil_of_le; rw [List.length_take]; omega
  have e5 : max (min q.length P.length) (min q.length P.length) = min q.length P.length := Nat.max_self _
  have e6 : S - max (min q.length P.length) P.length = 0 := by rw [hS]; omega
  rw [e4, e5, e6, List.take_of_length_le (Nat.le_refl P.length)]
  simp only [List.append_nil, List.replicate_zero]
  have hz : List.zipWith (znxSubW w128) (q.take (min q.length P.length)) (P.take (min q.length P.length))
      = List.zipWith (fun r x => znxSubW w128 x r) (P.take (min q.length P.length)) (q.take (min q.length P.length)) := by
    rw [List.zipWith_comm]
  rw [hz]
  apply List.ext_getElem?
  intro j
  rw [assignZip_getElem?]
  simp only [C02L.colAdd, List.getElem?_zipWith, List.getElem?_map, fit_getElem?]
  by_cases hj : j < P.length
  · have hjS : j < S := by rw [← hS]; exact hj
    simp only [hj, hjS, if_true, List.getElem?_eq_getElem hj, Option.map_some]
    have ePj : P.getD j [] = P[j] := by simp [List.getD_eq_getElem?_getD, List.getElem?_eq_getElem hj]
    have hm : P[j] ∈ P := List.getElem_mem hj
    rw [ePj]
    by_cases h1 : j < q.length
    · have eq : q.getD j [] = q[j] := by simp [List.getD_eq_getElem?_getD, List.getElem?_eq_getElem h1]
      have eq' : q.getD j (zeroP N) = q[j] := by simp [List.getD_eq_getElem?_getD, List.getElem?_eq_getElem h1]
      have hmq : q[j] ∈ q := List.getElem_mem h1
      simp only [h1, if_true, eq, eq']
      congr 1
      exact znxSubW128_exact X Y hXY _ _ (by rw [hq _ hmq, hP.2 _ hm]) (hqb _ hmq) (hPb _ hm)
    · have eq' : q.getD j (zeroP N) = zeroP N := by simp [List.getD_eq_getElem?_getD, List.getElem?_eq_none (by omega : q.length ≤ j)]
      simp only [h1, if_false, eq']
      congr 1
      exact znxNegateW128_exact N X (by linarith) _ (hP.2 _ hm) (hPb _ hm)
  · have hjS : ¬ j < S := by rw [← hS]; exact hj
    simp [hj, hjS]

/-- `vec_znx_big_add_small_into`, both accumulator widths -/
theorem bigAddSmallInto_exact_w {N : Nat} (big128 : Bool) (S : Nat) (P q : Col) (X Y : Int) (hX0 : 0 ≤ X) (hY0 : 0 ≤ Y)
    (hH : X + Y + 8 ≤ 2 ^ (bitsOf big128 - 2))
    (hP : ColWF N S P) (hq : LimbsN N q) (hPb : ∀ l ∈ P, ∀ x ∈ l, |x| ≤ X) (hqb : ∀ l ∈ q, ∀ x ∈ l, |x| ≤ Y) :
    bigAddSmallInto big128 N S P q = C02L.colAdd P (fit N S q) := by
  cases big128 with
  | false =>
    have h : X + Y + 8 ≤ 2 ^ 62 := by simpa [bitsOf] using hH
    exact bigAddSmallInto_exact S P q X Y (by linarith) (by linarith) hP hq hPb hqb
  | true =>
    have h : X + Y + 8 ≤ 2 ^ 126 := by simpa [bitsOf] using hH
    unfold bigAddSmallInto
    simp only [if_true]
    rw [ntt120BigAddSmall_eq N S P q hP.1]
    have := KsDec.bigAdd_exact (N := N) true X Y (by simp only [bitsOf, if_true]; norm_num; linarith) P q hP.2 hPb hqb
    rw [hP.1] at this
    exact this

/-- `vec_znx_big_sub_small_a`, both accumulator widths -/
theorem bigSubSmallA_exact_w {N : Nat} (big128 : Bool) (S : Nat) (q P : Col) (X Y : Int) (hX0 : 0 ≤ X) (hY0 : 0 ≤ Y)
    (hH : X + Y + 8 ≤ 2 ^ (bitsOf big128 - 2))
    (hP : ColWF N S P) (hq : LimbsN N q) (hPb : ∀ l ∈ P, ∀ x ∈ l, |x| ≤ X) (hqb : ∀ l ∈ q, ∀ x ∈ l, |x| ≤ Y) :
    bigSubSmallA big128 N S q P = C02L.colAdd (fit N S q) (P.map polyNeg) := by
  cases big128 with
  | false =>
    have h : X + Y + 8 ≤ 2 ^ 62 := by simpa [bitsOf] using hH
    exact bigSubSmallA_exact S q P X Y (by linarith) (by linarith) hP hq hPb hqb
  | true =>
    have h : X + Y + 8 ≤ 2 ^ 126 := by simpa [bitsOf] using hH
    unfold bigSubSmallA
    simp only [if_true]
    exact ntt120BigSubSmallA_exact S q P X Y hY0 (by norm_num; linarith) hP hq hPb hqb

/-- what `Cswap::cswap` guarantees about its two results (`d = res_b − res_a`): `res_a' ≈ res_a + d⊡s`, `res_b' ≈ res_b − d⊡s` -/
def CswapSpec (N rb : Nat) (g : EpGGSW) (sk : List Poly) (m2 : Ks.R N) (σ : ℕ → Ks.R N) (E : ℕ → ℕ → Ks.R N)
    (ra rbb d xa xb : List Col) : Prop :=
  GWF N (Ks.mkCt rb N xa) ∧ GWF N (Ks.mkCt rb N xb) ∧
  (∃ En Q : Poly, En.length = N ∧ Q.length = N ∧
    normInf En ≤ (1 + snorm (min g.rank sk.length) sk) * C02.normTol (rb * (ra.getD 0 []).length) (g.base2k * g.size) ∧
    (2 : Ks.R N) ^ (g.base2k * g.size) * Ks.ι N (valP rb N (phase sk (Ks.mkCt rb N xa)))
      = (2 : Ks.R N) ^ (rb * (ra.getD 0 []).length) * (epValue N sk d g ((2 : Ks.R N) ^ g.base2k) m2 σ E
          + Ks.ι N (valP g.base2k N (phase sk (Ks.mkCt g.base2k N ((List.range (g.rank + 1)).map (fun j => fit N g.size (ra.getD j [])))))))
        + Ks.ι N En + (2 : Ks.R N) ^ (rb * (ra.getD 0 []).length + g.base2k * g.size) * Ks.ι N Q) ∧
  (∃ En Q : Poly, En.length = N ∧ Q.length = N ∧
    normInf En ≤ (1 + snorm (min g.rank sk.length) sk) * C02.normTol (rb * (rbb.getD 0 []).length) (g.base2k * g.size) ∧
    (2 : Ks.R N) ^ (g.base2k * g.size) * Ks.ι N (valP rb N (phase sk (Ks.mkCt rb N xb)))
      = (2 : Ks.R N) ^ (rb * (rbb.getD 0 []).length) *
          (Ks.ι N (valP g.base2k N (phase sk (Ks.mkCt g.base2k N ((List.range (g.rank + 1)).map (fun j => fit N g.size (rbb.getD j []))))))
            - epValue N sk d g ((2 : Ks.R N) ^ g.base2k) m2 σ E)
        + Ks.ι N En + (2 : Ks.R N) ^ (rb * (rbb.getD 0 []).length + g.base2k * g.size) * Ks.ι N Q)

theorem range_map_getD (P : List Col) (n : Nat) (h : P.length = n) : (List.range n).map (fun j => P.getD j []) = P := by
  apply List.ext_getElem
  · simp [h]
  · intro i h1 h2
    simp [List.getD_eq_getElem?_getD, List.getElem?_eq_getElem h2]

/-- **`Cswap::cswap`, both outputs, both accumulator widths, every kernel hypothesis discharged** -/
theorem cswap_total {N : Nat} (big128 : Bool) (rb : Nat) (ra rbb : List Col) (g : EpGGSW) (res0 tmp0 : List Col) (sk : List Poly) (X Y : Int)
    (hg : (g.n == N && g.wf && shapeOk N (g.rank + 1) (ra.getD 0 []).length ra && shapeOk N (g.rank + 1) (rbb.getD 0 []).length rbb) = true)
    (hrb : rb = g.base2k) (hgb1 : 1 ≤ g.base2k) (hgb : g.base2k ≤ 62)
    (hX0 : 0 ≤ X) (hY0 : 0 ≤ Y) (hH : X + Y + 8 ≤ 2 ^ (bitsOf big128 - 2))
    (hPb : ∀ c ∈ epInternal (glweSubSameRank N (max (ra.getD 0 []).length (rbb.getD 0 []).length) rbb ra) g res0 tmp0, ∀ l ∈ c, ∀ x ∈ l, |x| ≤ X)
    (hrab : ∀ c ∈ ra, ∀ l ∈ c, ∀ x ∈ l, |x| ≤ Y) (hrbb : ∀ c ∈ rbb, ∀ l ∈ c, ∀ x ∈ l, |x| ≤ Y)
    (m2 : Ks.R N) (σ : ℕ → Ks.R N) (E : ℕ → ℕ → Ks.R N)
    (hd : 1 ≤ g.dsize) (hN : 0 < N) (hn : g.n = N)
    (haD : shapeOk g.n (g.rank + 1) ((glweSubSameRank N (max (ra.getD 0 []).length (rbb.getD 0 []).length) rbb ra).getD 0 []).length
      (glweSubSameRank N (max (ra.getD 0 []).length (rbb.getD 0 []).length) rbb ra) = true)
    (h0 : shapeOk g.n (g.rank + 1) g.size res0 = true) (ht : shapeOk g.n (g.rank + 1) g.size tmp0 = true)
    (hM : ∀ j q, (g.toPMat.entry j q).length = N) (hS : g.dnum * g.dsize ≤ g.size)
    (hkey : ∀ i, i < g.rank + 1 → ∀ r, r < g.dnum →
      Gadget.val ((2 : Ks.R N) ^ g.base2k) g.size (Ks.keyPhase N sk g.toPMat i r)
        = m2 * σ i * ((2 : Ks.R N) ^ g.base2k) ^ (g.size - (r + 1) * g.dsize) + E i r) :
    ∃ xa xb, cswap big128 N rb ra rbb g res0 tmp0 = .ok (xa, xb) ∧
      CswapSpec N rb g sk m2 σ E ra rbb (glweSubSameRank N (max (ra.getD 0 []).length (rbb.getD 0 []).length) rbb ra) xa xb := by
  have hg' := hg
  simp only [Bool.and_eq_true, beq_iff_eq] at hg'
  obtain ⟨⟨⟨_, _⟩, hras⟩, hrbs⟩ := hg'
  have hwf := epInternal_wf N _ g res0 tmp0 hd hn haD h0 ht hM
  have hlen := epInternal_length (glweSubSameRank N (max (ra.getD 0 []).length (rbb.getD 0 []).length) rbb ra) g res0 tmp0
  have hPget : ∀ j, j < g.rank + 1 →
      ColWF N g.size ((epInternal (glweSubSameRank N (max (ra.getD 0 []).length (rbb.getD 0 []).length) rbb ra) g res0 tmp0).getD j []) ∧
      ∀ l ∈ (epInternal (glweSubSameRank N (max (ra.getD 0 []).length (rbb.getD 0 []).length) rbb ra) g res0 tmp0).getD j [], ∀ x ∈ l, |x| ≤ X := by
    intro j hj
    have hj' : j < (epInternal (glweSubSameRank N (max (ra.getD 0 []).length (rbb.getD 0 []).length) rbb ra) g res0 tmp0).length := by
      rw [hlen]; exact hj
    rw [List.getD_eq_getElem?_getD, List.getElem?_eq_getElem hj']
    exact ⟨hwf _ (List.getElem_mem hj'), hPb _ (List.getElem_mem hj')⟩
  have hr1 : 1 ≤ rb := by rw [hrb]; exact hgb1
  have hr62 : rb ≤ 62 := by rw [hrb]; exact hgb
  have hH' : X + Y + 8 ≤ 2 ^ (bitsOf big128 - 2) := hH
  have hH'' : Y + X + 8 ≤ 2 ^ (bitsOf big128 - 2) := by rw [add_comm Y X]; exact hH'
  -- output A
  obtain ⟨xa, a1, a2, a3, _, a5⟩ := norm_add_total big128 N rb (ra.getD 0 []).length g.base2k g.size g.rank 0 X Y
    (fun j => (epInternal (glweSubSameRank N (max (ra.getD 0 []).length (rbb.getD 0 []).length) rbb ra) g res0 tmp0).getD j [])
    (fun j => fit N g.size (ra.getD j [])) hN hr1 hr62 hgb1 hgb hX0 hY0 hH'
    (fun j hj => (hPget j hj).1) (fun j hj => (hPget j hj).2)
    (fun j _ => fit_wf (shapeOk_limbs N _ _ ra hras j) g.size)
    (fun j _ => fit_bound N g.size _ Y hY0 (getD_bound ra Y hrab j))
  -- output B
  obtain ⟨xb, b1, b2, b3, _, b5⟩ := norm_add_total big128 N rb (rbb.getD 0 []).length g.base2k g.size g.rank 0 Y X
    (fun j => fit N g.size (rbb.getD j []))
    (fun j => ((epInternal (glweSubSameRank N (max (ra.getD 0 []).length (rbb.getD 0 []).length) rbb ra) g res0 tmp0).getD j []).map polyNeg)
    hN hr1 hr62 hgb1 hgb hY0 hX0 hH''
    (fun j _ => fit_wf (shapeOk_limbs N _ _ rbb hrbs j) g.size)
    (fun j _ => fit_bound N g.size _ Y hY0 (getD_bound rbb Y hrbb j))
    (fun j hj => neg_col_wf (hPget j hj).1) (fun j hj => neg_col_bound _ X (hPget j hj).2)
  have hxane : xa ≠ [] := by intro h; rw [h] at a2; simp at a2
  have hxbne : xb ≠ [] := by intro h; rw [h] at b2; simp at b2
  have hval := epInternal_value N sk _ g res0 tmp0 ((2 : Ks.R N) ^ g.base2k) m2 σ E hd hN hn haD h0 ht hM hS hkey
  have hne : epInternal (glweSubSameRank N (max (ra.getD 0 []).length (rbb.getD 0 []).length) rbb ra) g res0 tmp0 ≠ [] := by
    intro h; rw [h] at hlen; simp at hlen
  have hPphase := ι_valP_phase_rows' N hN g.base2k g.size sk _ hne hwf
  rw [hval] at hPphase
  have hPmap := range_map_getD (epInternal (glweSubSameRank N (max (ra.getD 0 []).length (rbb.getD 0 []).length) rbb ra) g res0 tmp0) (g.rank + 1) hlen
  refine ⟨xa, xb, ?_, (gwf_mk (N := N) rb _ xa hxane a3).1, (gwf_mk (N := N) rb _ xb hxbne b3).1, ?_, ?_⟩
  · unfold cswap
    simp only [hg, Bool.not_true, Bool.false_eq_true, if_false, hrb, ne_eq, not_true_eq_false]
    have eA : (List.range (g.rank + 1)).mapM (fun j => epBigNormalize big128 N g.base2k (ra.getD 0 []).length
          (bigAddSmallInto big128 N g.size ((epInternal (glweSubSameRank N (max (ra.getD 0 []).length (rbb.getD 0 []).length) rbb ra) g res0 tmp0).getD j [])
            (ra.getD j [])) g.base2k) = some xa := by
      rw [← a1, hrb]
      rw [mapM_comp (fun j => bigAddSmallInto big128 N g.size ((epInternal (glweSubSameRank N (max (ra.getD 0 []).length (rbb.getD 0 []).length) rbb ra) g res0 tmp0).getD j []) (ra.getD j []))
          (fun c => epBigNormalize big128 N g.base2k (ra.getD 0 []).length c g.base2k),
        mapM_comp (fun j => C02L.colAdd ((epInternal (glweSubSameRank N (max (ra.getD 0 []).length (rbb.getD 0 []).length) rbb ra) g res0 tmp0).getD j []) (fit N g.size (ra.getD j [])))
          (fun c => bigNormalizeOff big128 N g.base2k (ra.getD 0 []).length 0 c g.base2k)]
      congr 1
      apply List.map_congr_left
      intro j hj
      have hj' := List.mem_range.mp hj
      exact bigAddSmallInto_exact_w big128 g.size _ _ X Y hX0 hY0 hH (hPget j hj').1 (shapeOk_limbs N _ _ ra hras j) (hPget j hj').2 (getD_bound ra Y hrab j)
    have eB : (List.range (g.rank + 1)).mapM (fun j => epBigNormalize big128 N g.base2k (rbb.getD 0 []).length
          (bigSubSmallA big128 N g.size (rbb.getD j [])
            ((epInternal (glweSubSameRank N (max (ra.getD 0 []).length (rbb.getD 0 []).length) rbb ra) g res0 tmp0).getD j [])) g.base2k) = some xb := by
      rw [← b1, hrb]
      rw [mapM_comp (fun j => bigSubSmallA big128 N g.size (rbb.getD j []) ((epInternal (glweSubSameRank N (max (ra.getD 0 []).length (rbb.getD 0 []).length) rbb ra) g res0 tmp0).getD j []))
          (fun c => epBigNormalize big128 N g.base2k (rbb.getD 0 []).length c g.base2k),
        mapM_comp (fun j => C02L.colAdd (fit N g.size (rbb.getD j [])) (((epInternal (glweSubSameRank N (max (ra.getD 0 []).length (rbb.getD 0 []).length) rbb ra) g res0 tmp0).getD j []).map polyNeg))
          (fun c => bigNormalizeOff big128 N g.base2k (rbb.getD 0 []).length 0 c g.base2k)]
      congr 1
      apply List.map_congr_left
      intro j hj
      have hj' := List.mem_range.mp hj
      exact bigSubSmallA_exact_w big128 g.size _ _ X Y hX0 hY0 hH (hPget j hj').1 (shapeOk_limbs N _ _ rbb hrbs j) (hPget j hj').2 (getD_bound rbb Y hrbb j)
    rw [eA, eB]
  · obtain ⟨En, Q, hE, hQ, hnm, he⟩ := a5 sk
    rw [normTolOff_zero] at hnm
    refine ⟨En, Q, hE, hQ, hnm, ?_⟩
    rw [hPmap, hPphase] at he
    simpa using he
  · obtain ⟨En, Q, hE, hQ, hnm, he⟩ := b5 sk
    rw [normTolOff_zero] at hnm
    refine ⟨En, Q, hE, hQ, hnm, ?_⟩
    rw [ι_valP_phase_neg N hN g.base2k g.size sk g.rank _ (fun j hj => (hPget j hj).1), hPmap, hPphase] at he
    simpa [sub_eq_add_neg] using he

end Core
