import Mathlib.Algebra.BigOperators.Group.Finset.Basic
import Mathlib.Algebra.Group.Basic
import Mathlib.Algebra.Group.Hom.Defs
import Mathlib.Algebra.Group.Hom.Basic
import Mathlib.Algebra.Group.End
import Mathlib.Algebra.Group.Prod
import Mathlib.Algebra.Group.Commute.Basic
import Mathlib.Algebra.Field.Rat
import Mathlib.Tactic.Abel
import Mathlib.Tactic.Ring
import Mathlib.Tactic.Linarith

/-!
The "slot placement" theorem of ring packing (poulpy `glwe_pack` / `pack_internal`) as pure
algebra over an abstract *automorphism-with-rotation contract*.

`M` is an additive commutative group (phases of ciphertexts: torus polynomials).  A `Contract M`
bundles: multiplication by `X^k` (`rot`), exact halving (`half`), one Galois automorphism per level
(`sig i`) and the rotation amount of each level (`t i`), with exactly the interaction laws used by
the packing recursion:

* `σ_i (X^{t_i} x) = - X^{t_i} σ_i x`   (`g_i * t_i ≡ t_i + N  (mod 2N)`),
* `σ_j (X^{t_i} x) =   X^{t_i} σ_j x` for `i < j`.

Main results:

* `stepBoth_eq_merge`, `stepLo_eq_merge`, `stepHi_eq_merge` : the three branches of `pack_internal`
  are the single formula `merge c i a b = P_i a + X^{t_i} P_i b` with an absent slot read as `0`.
* `after_closed_form` : after `L` levels slot `j` contains
  `∑ m < 2^L, X^{rotOff L m} (P_{L-1} ∘ … ∘ P_0) (f (j + idxOff L m))`.
* `placement_of_constants` : if every input is fixed by every `σ_i` (a constant polynomial), each
  input lands with sign `+` and scale `1`, rotated by the sum of the `t_i` selected by the binary
  digits of its slot offset.
* `rotOff_eq_idxOff` : with poulpy's parameters (index distance `=` rotation amount) the rotation is
  exactly the slot offset, so input slot `J` lands on coefficient `J - j`.
* `model` : a concrete model of the contract on `ℚ × ℚ ≃ ℚ[X]/(X²+1)`, and `model_pack_two`:
  packing the constants `a`, `b` in that model yields `a + b X`.

Every statement at level `L` only uses the contract fields at levels `< L`; a model of a ring of
degree `N = 2^logN` is therefore allowed to be degenerate (`sig i = 0`) at levels `i ≥ logN`.
-/

namespace Pack

open Finset

variable {M : Type*} [AddCommGroup M]

/-- The automorphism-with-rotation contract. -/
structure Contract (M : Type*) [AddCommGroup M] where
  /-- multiplication by `X^k` -/
  rot : ℤ → M →+ M
  /-- exact halving of the representative -/
  half : M →+ M
  /-- the Galois automorphism used at level `i` -/
  sig : ℕ → M →+ M
  /-- the rotation amount of level `i` (poulpy: `t i = N / 2^(i+1)`) -/
  t : ℕ → ℤ
  rot_zero : ∀ x, rot 0 x = x
  rot_add : ∀ a b x, rot (a + b) x = rot a (rot b x)
  half_add_half : ∀ x, half x + half x = x
  half_rot : ∀ k x, half (rot k x) = rot k (half x)
  half_sig : ∀ i x, half (sig i x) = sig i (half x)
  /-- `σ_i(X^{t_i}·x) = −X^{t_i}·σ_i(x)`  (`g_i·t_i ≡ t_i + N mod 2N`) -/
  sig_rot_self : ∀ i x, sig i (rot (t i) x) = - rot (t i) (sig i x)
  /-- later levels fix the earlier rotation amounts:
      `σ_j(X^{t_i}·x) = X^{t_i}·σ_j(x)` for `i < j` -/
  sig_rot_lt : ∀ i j, i < j → ∀ x, sig j (rot (t i) x) = rot (t i) (sig j x)

/-- the projector of level `i`: `P_i x = x/2 + σ_i(x/2)` -/
def P (c : Contract M) (i : ℕ) (x : M) : M := c.half x + c.sig i (c.half x)

/-- what `pack_internal` computes when both slots are present:
    `X^t · ( (X^{-t} a + b)/2 − σ((X^{-t} a − b)/2) )` -/
def stepBoth (c : Contract M) (i : ℕ) (a b : M) : M :=
  c.rot (c.t i) (c.half (c.rot (-(c.t i)) a + b) - c.sig i (c.half (c.rot (-(c.t i)) a - b)))

/-- only the lower slot present: `a/2 + σ(a/2)` -/
def stepLo (c : Contract M) (i : ℕ) (a : M) : M := c.half a + c.sig i (c.half a)

/-- only the upper slot present: `X^t b/2 − σ(X^t b/2)` (`glwe_automorphism_sub_negate`) -/
def stepHi (c : Contract M) (i : ℕ) (b : M) : M :=
  c.half (c.rot (c.t i) b) - c.sig i (c.half (c.rot (c.t i) b))

/-- the uniform formula -/
def merge (c : Contract M) (i : ℕ) (a b : M) : M := P c i a + c.rot (c.t i) (P c i b)

/-! ### Basic consequences of the contract -/

theorem rot_rot_neg (c : Contract M) (k : ℤ) (x : M) : c.rot k (c.rot (-k) x) = x := by
  rw [← c.rot_add, add_neg_cancel, c.rot_zero]

theorem rot_neg_rot (c : Contract M) (k : ℤ) (x : M) : c.rot (-k) (c.rot k x) = x := by
  rw [← c.rot_add, neg_add_cancel, c.rot_zero]

/-- `X^{t_i} σ_i y = − σ_i (X^{t_i} y)` -/
theorem rot_sig_self (c : Contract M) (i : ℕ) (y : M) :
    c.rot (c.t i) (c.sig i y) = - c.sig i (c.rot (c.t i) y) := by
  rw [c.sig_rot_self, neg_neg]

/-! ### 1. The three branches of `pack_internal` are one formula -/

theorem stepBoth_eq_merge (c : Contract M) (i : ℕ) (a b : M) :
    stepBoth c i a b = merge c i a b := by
  unfold stepBoth merge P
  simp only [map_add, map_sub, c.half_rot, rot_sig_self, rot_rot_neg]
  abel

theorem stepLo_eq_merge (c : Contract M) (i : ℕ) (a : M) :
    stepLo c i a = merge c i a 0 := by
  unfold stepLo merge P
  simp only [map_zero, add_zero]

theorem stepHi_eq_merge (c : Contract M) (i : ℕ) (b : M) :
    stepHi c i b = merge c i 0 b := by
  unfold stepHi merge P
  simp only [map_zero, map_add, add_zero, zero_add, c.half_rot, rot_sig_self]
  abel

/-! ### 2. The projector: additivity and commutation with earlier rotations -/

theorem P_add (c : Contract M) (i : ℕ) (x y : M) : P c i (x + y) = P c i x + P c i y := by
  unfold P
  simp only [map_add]
  abel

theorem P_zero (c : Contract M) (i : ℕ) : P c i 0 = 0 := by
  unfold P
  simp only [map_zero, add_zero]

/-- `P c i` as a bundled additive homomorphism -/
def PHom (c : Contract M) (i : ℕ) : M →+ M where
  toFun := P c i
  map_zero' := P_zero c i
  map_add' := P_add c i

@[simp] theorem PHom_apply (c : Contract M) (i : ℕ) (x : M) : PHom c i x = P c i x := rfl

theorem P_neg (c : Contract M) (i : ℕ) (x : M) : P c i (-x) = - P c i x :=
  map_neg (PHom c i) x

theorem P_sub (c : Contract M) (i : ℕ) (x y : M) : P c i (x - y) = P c i x - P c i y :=
  map_sub (PHom c i) x y

theorem P_sum {ι : Type*} (c : Contract M) (i : ℕ) (s : Finset ι) (g : ι → M) :
    P c i (∑ k ∈ s, g k) = ∑ k ∈ s, P c i (g k) :=
  map_sum (PHom c i) g s

theorem P_rot_lt (c : Contract M) {i j : ℕ} (h : i < j) (x : M) :
    P c j (c.rot (c.t i) x) = c.rot (c.t i) (P c j x) := by
  unfold P
  rw [c.half_rot, c.sig_rot_lt i j h, map_add]

/-- `P_j` commutes with `X^{k · t_i}` for `i < j` -/
theorem P_rot_nat_mul (c : Contract M) {i j : ℕ} (h : i < j) (k : ℕ) (x : M) :
    P c j (c.rot ((k : ℤ) * c.t i) x) = c.rot ((k : ℤ) * c.t i) (P c j x) := by
  induction k generalizing x with
  | zero => simp only [Nat.cast_zero, zero_mul, c.rot_zero]
  | succ k ih =>
    have e : ((k + 1 : ℕ) : ℤ) * c.t i = (k : ℤ) * c.t i + c.t i := by
      rw [Nat.cast_succ, add_mul, one_mul]
    rw [e, c.rot_add, ih, P_rot_lt c h, ← c.rot_add]

/-! ### 3. Fixed values pass through a level unchanged -/

theorem P_fixed (c : Contract M) (i : ℕ) (x : M) (h : c.sig i x = x) : P c i x = x := by
  unfold P
  rw [← c.half_sig, h, c.half_add_half]

/-! ### 4. The levels -/

/-- the content of slot `j` after the first `L` levels: level `L` merges slot `j` with slot
`j + s L`, where `s L` is the index distance -/
def after (c : Contract M) (s : ℕ → ℕ) (f : ℕ → M) : ℕ → ℕ → M
  | 0, j => f j
  | L + 1, j => merge c L (after c s f L j) (after c s f L (j + s L))

/-- offset (as an index) accumulated by the binary digits of `m` over the first `L` levels -/
def idxOff (s : ℕ → ℕ) : ℕ → ℕ → ℕ
  | 0, _ => 0
  | L + 1, m => idxOff s L (m % 2 ^ L) + (m / 2 ^ L) * s L

/-- rotation (as a power of `X`) accumulated by the binary digits of `m` over the first `L`
levels -/
def rotOff (c : Contract M) : ℕ → ℕ → ℤ
  | 0, _ => 0
  | L + 1, m => rotOff c L (m % 2 ^ L) + (m / 2 ^ L : ℕ) * c.t L

/-- `Q L = P_{L-1} ∘ … ∘ P_0` -/
def Q (c : Contract M) : ℕ → M → M
  | 0, x => x
  | L + 1, x => P c L (Q c L x)

@[simp] theorem after_zero (c : Contract M) (s : ℕ → ℕ) (f : ℕ → M) (j : ℕ) :
    after c s f 0 j = f j := rfl

theorem after_succ (c : Contract M) (s : ℕ → ℕ) (f : ℕ → M) (L j : ℕ) :
    after c s f (L + 1) j = merge c L (after c s f L j) (after c s f L (j + s L)) := rfl

@[simp] theorem idxOff_zero (s : ℕ → ℕ) (m : ℕ) : idxOff s 0 m = 0 := rfl

theorem idxOff_succ (s : ℕ → ℕ) (L m : ℕ) :
    idxOff s (L + 1) m = idxOff s L (m % 2 ^ L) + (m / 2 ^ L) * s L := rfl

@[simp] theorem rotOff_zero (c : Contract M) (m : ℕ) : rotOff c 0 m = 0 := rfl

theorem rotOff_succ (c : Contract M) (L m : ℕ) :
    rotOff c (L + 1) m = rotOff c L (m % 2 ^ L) + ((m / 2 ^ L : ℕ) : ℤ) * c.t L := rfl

@[simp] theorem Q_zero (c : Contract M) (x : M) : Q c 0 x = x := rfl

theorem Q_succ (c : Contract M) (L : ℕ) (x : M) : Q c (L + 1) x = P c L (Q c L x) := rfl

theorem idxOff_succ_lo (s : ℕ → ℕ) {L m : ℕ} (h : m < 2 ^ L) :
    idxOff s (L + 1) m = idxOff s L m := by
  rw [idxOff_succ, Nat.mod_eq_of_lt h, Nat.div_eq_of_lt h, zero_mul, add_zero]

theorem idxOff_succ_hi (s : ℕ → ℕ) {L m : ℕ} (h : m < 2 ^ L) :
    idxOff s (L + 1) (2 ^ L + m) = idxOff s L m + s L := by
  have hpos : 0 < 2 ^ L := Nat.pos_of_ne_zero (by positivity)
  have h1 : (2 ^ L + m) % 2 ^ L = m := by
    rw [Nat.add_mod_left, Nat.mod_eq_of_lt h]
  have h2 : (2 ^ L + m) / 2 ^ L = 1 := by
    rw [Nat.add_div_left _ hpos, Nat.div_eq_of_lt h]
  rw [idxOff_succ, h1, h2, one_mul]

theorem rotOff_succ_lo (c : Contract M) {L m : ℕ} (h : m < 2 ^ L) :
    rotOff c (L + 1) m = rotOff c L m := by
  rw [rotOff_succ, Nat.mod_eq_of_lt h, Nat.div_eq_of_lt h, Nat.cast_zero, zero_mul, add_zero]

theorem rotOff_succ_hi (c : Contract M) {L m : ℕ} (h : m < 2 ^ L) :
    rotOff c (L + 1) (2 ^ L + m) = rotOff c L m + c.t L := by
  have hpos : 0 < 2 ^ L := Nat.pos_of_ne_zero (by positivity)
  have h1 : (2 ^ L + m) % 2 ^ L = m := by
    rw [Nat.add_mod_left, Nat.mod_eq_of_lt h]
  have h2 : (2 ^ L + m) / 2 ^ L = 1 := by
    rw [Nat.add_div_left _ hpos, Nat.div_eq_of_lt h]
  rw [rotOff_succ, h1, h2, Nat.cast_one, one_mul]

/-- `P_L` commutes with every rotation accumulated over levels `< L` -/
theorem P_rot_rotOff (c : Contract M) {L' L : ℕ} (h : L' ≤ L) (m : ℕ) (y : M) :
    P c L (c.rot (rotOff c L' m) y) = c.rot (rotOff c L' m) (P c L y) := by
  induction L' generalizing m y with
  | zero => simp only [rotOff_zero, c.rot_zero]
  | succ L' ih =>
    have hlt : L' < L := h
    rw [rotOff_succ, c.rot_add, ih (Nat.le_of_lt hlt), P_rot_nat_mul c hlt, ← c.rot_add]

/-- **Slot placement, general form.**  After `L` levels slot `j` is the sum over the `2^L` input
slots `j + idxOff s L m` of the input, projected by all `L` levels and rotated by `rotOff c L m`. -/
theorem after_closed_form (c : Contract M) (s : ℕ → ℕ) (f : ℕ → M) (L j : ℕ) :
    after c s f L j
      = ∑ m ∈ range (2 ^ L), c.rot (rotOff c L m) (Q c L (f (j + idxOff s L m))) := by
  induction L generalizing j with
  | zero =>
    rw [pow_zero, range_one, sum_singleton]
    simp only [after_zero, rotOff_zero, idxOff_zero, Q_zero, c.rot_zero, Nat.add_zero]
  | succ L ih =>
    rw [after_succ, ih j, ih (j + s L), merge, P_sum, P_sum, map_sum, pow_succ, mul_two,
      sum_range_add]
    congr 1
    · refine sum_congr rfl fun m hm => ?_
      have hm' : m < 2 ^ L := mem_range.mp hm
      rw [rotOff_succ_lo c hm', idxOff_succ_lo s hm', Q_succ, P_rot_rotOff c le_rfl]
    · refine sum_congr rfl fun m hm => ?_
      have hm' : m < 2 ^ L := mem_range.mp hm
      rw [rotOff_succ_hi c hm', idxOff_succ_hi s hm', Q_succ, P_rot_rotOff c le_rfl,
        add_comm (rotOff c L m) (c.t L), c.rot_add, Nat.add_right_comm j (s L), Nat.add_assoc j]

/-! ### 5. Constants are placed with sign `+` and scale `1` -/

theorem Q_fixed (c : Contract M) (x : M) (h : ∀ i, c.sig i x = x) (L : ℕ) : Q c L x = x := by
  induction L with
  | zero => rfl
  | succ L ih => rw [Q_succ, ih, P_fixed c L x (h L)]

/-- **Slot placement of constants.**  If every input is fixed by every automorphism, each input
lands with sign `+` and scale `1`, rotated by the sum of the `t i` selected by the binary digits of
its slot offset. -/
theorem placement_of_constants (c : Contract M) (s : ℕ → ℕ) (f : ℕ → M)
    (hf : ∀ i J, c.sig i (f J) = f J) (L j : ℕ) :
    after c s f L j = ∑ m ∈ range (2 ^ L), c.rot (rotOff c L m) (f (j + idxOff s L m)) := by
  rw [after_closed_form]
  refine sum_congr rfl fun m _ => ?_
  rw [Q_fixed c _ (fun i => hf i _)]

/-! ### 6. poulpy's parameters: rotation amount = index distance -/

/-- If the index distance of every level equals its rotation amount (poulpy:
`s i = t i = 2 ^ (logN - 1 - i)`), the accumulated rotation is the accumulated slot offset: input
slot `J = j + idxOff s L m` is multiplied by `X ^ (J - j)`. -/
theorem rotOff_eq_idxOff (c : Contract M) (s : ℕ → ℕ) (hs : ∀ i, (s i : ℤ) = c.t i) (L m : ℕ) :
    rotOff c L m = (idxOff s L m : ℤ) := by
  induction L generalizing m with
  | zero => simp
  | succ L ih =>
    rw [rotOff_succ, idxOff_succ, ih, Nat.cast_add, Nat.cast_mul, hs]

/-- Placement of constants with poulpy's parameters: slot `j` of the output is
`∑ m < 2^L, X^{off m} · f (j + off m)` with one and the same offset `off m = idxOff s L m`. -/
theorem placement_of_constants_poulpy (c : Contract M) (s : ℕ → ℕ) (f : ℕ → M)
    (hs : ∀ i, (s i : ℤ) = c.t i) (hf : ∀ i J, c.sig i (f J) = f J) (L j : ℕ) :
    after c s f L j
      = ∑ m ∈ range (2 ^ L), c.rot (idxOff s L m : ℤ) (f (j + idxOff s L m)) := by
  rw [placement_of_constants c s f hf]
  refine sum_congr rfl fun m _ => ?_
  rw [rotOff_eq_idxOff c s hs]

/-- sanity check of the definitions with poulpy's `s i = 2 ^ (logN - 1 - i)`: at the first level
the upper slot is `N / 2` positions away. -/
example (logN : ℕ) : idxOff (fun i => 2 ^ (logN - 1 - i)) 1 1 = 2 ^ (logN - 1) := by
  simp [idxOff_succ]

/-! ### 7. Non-vacuity: a concrete model on `ℚ × ℚ ≃ ℚ[X]/(X² + 1)`  (`N = 2`)

`(a, b)` stands for `a + b X`.  `rot k` is multiplication by `X^k` (`X (a, b) = (-b, a)`, of
period 4), `half` halves both coefficients, level `0` uses `σ_{-1} : (a, b) ↦ (a, -b)` with
`t 0 = 1 = N / 2`.  The ring has only one level; at levels `i ≥ 1` the contract forces
`sig i = 0` (an additive map that commutes with `X` and anticommutes with `X^{t i}` vanishes), and
that choice satisfies all laws.  Statements about `L ≤ 1` levels never look at those. -/

namespace Model

/-- multiplication by `X` in `ℚ[X]/(X²+1)` -/
def mulX : AddAut (ℚ × ℚ) where
  toFun p := (-p.2, p.1)
  invFun p := (p.2, -p.1)
  left_inv p := by simp
  right_inv p := by simp
  map_add' p q := by
    exact Prod.ext (by simp [add_comm]) (by simp)

/-- halving, as an automorphism -/
def halfAut : AddAut (ℚ × ℚ) where
  toFun p := (p.1 / 2, p.2 / 2)
  invFun p := (p.1 * 2, p.2 * 2)
  left_inv p := by ext <;> simp
  right_inv p := by ext <;> simp
  map_add' p q := by ext <;> simp [add_div]

/-- `σ_{-1}` : `X ↦ X^{-1} = -X` -/
def conj : (ℚ × ℚ) →+ (ℚ × ℚ) where
  toFun p := (p.1, -p.2)
  map_zero' := by simp
  map_add' p q := by
    exact Prod.ext (by simp) (by simp [add_comm])

@[simp] theorem mulX_apply (p : ℚ × ℚ) : mulX p = (-p.2, p.1) := rfl
@[simp] theorem halfAut_apply (p : ℚ × ℚ) : halfAut p = (p.1 / 2, p.2 / 2) := rfl
@[simp] theorem conj_apply (p : ℚ × ℚ) : conj p = (p.1, -p.2) := rfl

theorem half_commute_mulX : AddCommute halfAut mulX := by
  apply AddEquiv.ext
  intro p
  simp [neg_div]

end Model

open Model in
/-- a model of the contract: `ℚ[X]/(X²+1)` with its single packing level -/
def model : Contract (ℚ × ℚ) where
  rot k := (k • mulX : AddAut (ℚ × ℚ)).toAddMonoidHom
  half := halfAut.toAddMonoidHom
  sig i := match i with
    | 0 => conj
    | _ + 1 => 0
  t i := match i with
    | 0 => 1
    | _ + 1 => 0
  rot_zero x := by simp
  rot_add a b x := by simp [add_zsmul]
  half_add_half x := by
    ext <;> simp
  half_rot k x := by
    have h := (half_commute_mulX.zsmul_right k).eq
    exact congrArg (fun e : AddAut (ℚ × ℚ) => e x) h
  half_sig i x := by
    cases i with
    | zero => ext <;> simp [neg_div]
    | succ i => simp
  sig_rot_self i x := by
    cases i with
    | zero => ext <;> simp
    | succ i => simp
  sig_rot_lt i j h x := by
    cases j with
    | zero => exact absurd h (Nat.not_lt_zero i)
    | succ j => simp

/-- In the model, packing the two constants `a` (slot 0) and `b` (slot 1) with one level gives
`a + b X`: both land with sign `+` and scale `1`, on coefficients `0` and `1`. -/
theorem model_pack_two (a b : ℚ) (f : ℕ → ℚ × ℚ) (h0 : f 0 = (a, 0)) (h1 : f 1 = (b, 0)) :
    after model (fun _ => 1) f 1 0 = (a, b) := by
  rw [after_succ, after_zero, after_zero, h0, h1]
  ext <;> simp [merge, P, model]

end Pack
