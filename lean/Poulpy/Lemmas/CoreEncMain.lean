/-
Assembly for C01: phase identity of `glwe_encrypt_sk`, decryption as normalisation of the phase,
noise bound arithmetic, the norm inequality of the negacyclic product.
-/
import Poulpy.Lemmas.CoreEncPhase

namespace CoreEnc
open NormL

/-- message value of coefficient `t` at the ciphertext's size: the plaintext truncated /
zero-extended to `size` limbs, read in the ciphertext's radix -/
def msgCoeff (b n size : Nat) (m : Option Col) (t : Nat) : Int :=
  match m with
  | none => 0
  | some p => Core.valCoeff b (fitCol n size p) t

theorem msgVal_eq (b n size t : Nat) (m : Option Col) :
    msgVal b size t (m.map (fun p => (p, 0))) = msgCoeff b n size m t := by
  cases m with
  | none => rfl
  | some p => simp [msgVal, msgCoeff, valCoeff_eq, coefAt_fitCol]

theorem zeroCol_spec (n size : Nat) : (Core.zeroCol n size).length = size ∧ WF n (Core.zeroCol n size) ∧
    CoefBounded n 0 (Core.zeroCol n size) ∧ ∀ t, valI 2 (coefAt (Core.zeroCol n size) t) = 0 := by
  refine ⟨by simp [Core.zeroCol], ?_, ?_, ?_⟩
  · intro l hl; simp [Core.zeroCol, Poly.zero] at hl; simp [hl.2]
  · intro t _ v hv
    simp only [coefAt, Core.zeroCol, Poly.zero, List.map_replicate, List.mem_replicate] at hv
    rw [hv.2, List.getD_eq_getElem?_getD, List.getElem?_replicate]; split <;> simp
  · intro t
    have : coefAt (Core.zeroCol n size) t = List.replicate size 0 := by
      simp only [coefAt, Core.zeroCol, Poly.zero, List.map_replicate]
      congr 1
      rw [List.getD_eq_getElem?_getD, List.getElem?_replicate]; split <;> rfl
    rw [this, valI_replicate_zero]

theorem coefAt_zeroCol (n size t : Nat) : coefAt (Core.zeroCol n size) t = List.replicate size 0 := by
  simp only [coefAt, Core.zeroCol, Poly.zero, List.map_replicate]
  congr 1
  rw [List.getD_eq_getElem?_getD, List.getElem?_replicate]; split <;> rfl

section main
variable {bits b n size kxe k : Nat} {H E M : Int}

/-- **phase identity of secret-key GLWE encryption** (all ranks, sizes, radices ≤ 2^61, messages of
any size within head-room, any masks / errors / secrets within head-room) -/
theorem encryptSk_phase (hbits : bits = 64 ∨ bits = 128) (hr : HeadRoom bits b 0 H) (hb1 : 1 ≤ b) (hb : b ≤ 61)
    (hk : 1 ≤ kxe) (hlimb : errLimb kxe b < size)
    (masks : List Col) (sk : List Poly) (m : Option Col) (e : Poly)
    (hlen : masks.length = sk.length) (hmasks : ∀ a ∈ masks, a.length = size ∧ WF n a)
    (hprod : ProdBounded H masks sk)
    (ptB : Nat) (hradix : m.isSome → ptB = b)
    (hm : ∀ p, m = some p → WF n p ∧ CoefBounded n M p) (hM0 : 0 ≤ M)
    (he : e.length = n) (hE0 : 0 ≤ E) (heB : ∀ x ∈ e, |x| ≤ E)
    (hsum : (masks.length : Int) * 2 ^ (b - 1) + E + M ≤ 2 ^ 62) :
    ∃ body, Core.glweEncryptSk bits b k n size kxe masks m ptB sk e = some { base2k := b, k := k, n := n, cols := body :: masks } ∧
      body.length = size ∧ WF n body ∧ Bounded (2 ^ (b - 1)) body ∧
      ∀ t, t < n → ∃ K : Int, Core.valCoeff b (Core.phaseBig sk { base2k := b, k := k, n := n, cols := body :: masks }) t =
        msgCoeff b n size m t + e.getD t 0 * 2 ^ (b * (size - 1 - errLimb kxe b)) + K * 2 ^ (b * size) := by
  have hpt : PtCol0 (m.map (fun p => (p, 0))) := by
    intro p col h; cases m <;> simp at h; exact h.2.symm
  have hptwf : ∀ p col, m.map (fun p => (p, 0)) = some (p, col) → WF n p := by
    intro p col h; cases hm' : m with
    | none => simp [hm'] at h
    | some q => simp [hm'] at h; rw [← h.1]; exact (hm q hm').1
  have hptB : ∀ p col, m.map (fun p => (p, 0)) = some (p, col) → CoefBounded n M p := by
    intro p col h; cases hm' : m with
    | none => simp [hm'] at h
    | some q => simp [hm'] at h; rw [← h.1]; exact (hm q hm').2
  obtain ⟨z1, z2, z3, _⟩ := zeroCol_spec n size
  have hP : (0 : Int) ≤ (masks.length : Int) * 2 ^ (b - 1) := by positivity
  obtain ⟨c0, e0, l0, w0, b0, v0⟩ := encSkLoop_spec (n := n) (size := size) hbits hr (by omega) (m.map (fun p => (p, 0))) hpt
    masks sk 1 (Core.zeroCol n size) 0 (le_refl 1) hlen (fun a ha => (hmasks a ha).1) hprod z1 z2 z3
    (by nlinarith [two_pow_pos 62])
  obtain ⟨body, e1, l1, w1, b1, v1⟩ := encSkFinish_spec (n := n) (size := size) hb1 hb hk hlimb (m.map (fun p => (p, 0))) hpt hptwf M hM0 hptB
    e he E hE0 heB c0 l0 w0 (0 + (masks.length : Int) * 2 ^ (b - 1)) b0 (by linarith)
  refine ⟨body, ?_, l1, w1, b1, ?_⟩
  · unfold Core.glweEncryptSk Core.encryptSkBody
    rw [if_neg (by simp [hlen])]
    have hok : Core.ptRadixOk m ptB b = true := by
      unfold Core.ptRadixOk
      by_cases h : m.isSome
      · simp [hradix h]
      · simp only [Bool.not_eq_true, Option.isSome_eq_false_iff] at h
        simp [h]
    simp [hok, e0, e1]
  · intro t ht
    obtain ⟨K0, hK0⟩ := v0 t ht
    obtain ⟨K1, hK1⟩ := v1 t ht
    rw [valCoeff_eq, phaseBig_eq_fold sk b k n body masks hlen]
    rw [(phaseFold_val b n size sk masks body hlen l1 w1 hmasks).2 t ht, hK1, msgVal_eq]
    rw [coefAt_zeroCol, valI_replicate_zero] at hK0
    refine ⟨K0 + K1, ?_⟩
    linear_combination hK0

end main

end CoreEnc
