import Poulpy.Lemmas.ExpandExec
import Poulpy.Lemmas.KsDecrypt
import Poulpy.Lemmas.AutoDecrypt

/-!
# The GGSW loop closed: every cell of the executed `ggsw_keyswitch` / `ggsw_automorphism` decrypts

`Lemmas/ExpandExec.lean` gives, for every cell `(r, c+1)` of `Ks.ggswKeyswitch` / `Ks.ggswAutomorphism`, the value of the phase of the big
accumulator (`Ks.RowCellsValue`, modulo `Core.ExpandOk`); `Lemmas/KsDecrypt.lean` / `AutoDecrypt.lean` give the decryption theorem of the
column-0 cell.  This file composes them (equal radices `res.base2k = tsk.base2k`, covered regimes, both accumulator widths):

1. `expandProd_col_wf`, **`expandOk_of_bounds`** — `Core.ExpandOk` from digit bounds (`|product| ≤ Hp`, `|body| ≤ Ha`, `Hp + Ha < 2^63` resp.
   `2^127`), shape of the product proved (`KsDec.prod_col_wf`), no-wrap of the body addition for `w64` and `w128` (`KsDec.bigAdd_exact`);
2. `expandPre_same_wf`, **`rowVal_same`** — for equal radices `Core.expandPre` returns the columns of the cell unchanged and `Core.rowVal` is
   `β^{S − size}·ι(val(phase_sk cell0))` (`σ_i = ι(s_i)`, `Gadget.usedVal_eq_val`);
3. `expandAcc_wf_bound`, **`acc_norm_phase`** — the `Option`-valued normalisation loop of `Core.expandRowCols` is `KsDec.norm_stage`
   (C08 discharged), error `≤ (1 + ‖sk‖₁)·normTol`;
4. **`row_cells_decrypt`**, `row_cells_decrypt_of_col0` (one row), **`ggsw_keyswitch_decrypts`**, **`ggsw_automorphism_decrypts`**,
   `ggsw_keyswitch_assign_decrypts` (every cell, explicit error), `ggsw_col0_encrypts` / `ggsw_cell_encrypts` (algebra),
   **`ggsw_keyswitch_wellformed`**, **`ggsw_automorphism_wellformed`** (GGSW in ⇒ GGSW out, in the `hkey` shape of `C04.ep_decrypts`) and the
   bridge `keyPhase_val_eq_cell_phase` (`Gadget.val β S (Ks.keyPhase …) = ι(val(phase cell))`);
5. a closed instance on `Ks.exT'` (both accumulator widths).

Not covered: the cross-radix branch of `ggsw_expand_row` (`res.base2k ≠ tsk.base2k`, `Core.expandPre_cross`), the uncovered regime
(`res.size > min(tsk.size, dnum·dsize)`), `ggsw_automorphism_assign` (same proof as `ggsw_keyswitch_assign_decrypts`).
-/

namespace KsDec
open Hal Core Core.Ops C02L

/-! ### 1. `Core.ExpandOk` from digit bounds, both accumulator widths -/

/-- shape of the executed product of row expansion: `rank+1` columns of `t.size` limbs of `N` coefficients (every `dsize ≥ 1`) -/
theorem expandProd_col_wf (N : Nat) (aDft : List Col) (t : ToGGSWKey) (c : Nat) (hd : 1 ≤ t.dsize) (hn : t.n = N)
    (hM : ∀ j q, ((t.at c).toPMat.entry j q).length = N) :
    ∀ col ∈ expandProd N aDft t c, ColWF N t.size col := by
  subst hn
  intro col hcol
  unfold expandProd Core.gglweProductDft at hcol
  obtain ⟨i, hi, rfl⟩ := List.mem_map.mp hcol
  have s0 := (Core.mkBuf_shape (t.at c).n (t.at c).colsOut t.size (zeroCols t.n (t.rank + 1) t.size)
    (Core.shapeOk_zeroCols _ _ _)).1
  exact prod_col_wf t.n _ _ (t.at c).toKey hd s0.1 rfl rfl rfl rfl rfl hM i (List.mem_range.mp hi)

/-- **`expandOk_of_bounds`** — the hypotheses `Core.ExpandOk` of the row-expansion contract, from digit bounds, `i64` AND `i128`
accumulator: the product column `c+1` bounded by `Hp`, the body by `Ha`, `Hp + Ha < 2^63` resp. `2^127`. -/
theorem expandOk_of_bounds (N : Nat) (big128 : Bool) (a0 : Col) (aDft : List Col) (t : ToGGSWKey) (c : Nat) (Hp Ha : Int)
    (hd : 1 ≤ t.dsize) (hn : t.n = N) (hM : ∀ j q, ((t.at c).toPMat.entry j q).length = N) (hc : c < t.rank)
    (ha0 : LimbsN N a0) (hH : Hp + Ha < 2 ^ (bitsOf big128 - 1))
    (hprod : ∀ l ∈ (expandProd N aDft t c).getD (c + 1) [], ∀ x ∈ l, |x| ≤ Hp)
    (hbody : ∀ l ∈ a0, ∀ x ∈ l, |x| ≤ Ha) : ExpandOk N big128 a0 aDft t c := by
  have hP := expandProd_col_wf N aDft t c hd hn hM
  have hlen := expandProd_length N aDft t c
  have hc1 : c + 1 < (expandProd N aDft t c).length := by rw [hlen]; omega
  have hPc : ColWF N t.size ((expandProd N aDft t c).getD (c + 1) []) := by
    rw [List.getD_eq_getElem?_getD, List.getElem?_eq_getElem hc1]
    exact hP _ (List.getElem_mem hc1)
  refine ⟨hP, ha0, ?_⟩
  have := bigAdd_exact (N := N) big128 Hp Ha hH ((expandProd N aDft t c).getD (c + 1) []) a0 hPc.2 hprod hbody
  rw [hPc.1] at this
  exact this

/-! ### 3. the normalisation of the accumulator (`Option` form of `norm_stage`) -/

theorem mapM_of_oall_ofOpt {α β : Type} (f : α → Option β) (k : String) : ∀ (L : List α) (cs : List β),
    Ks.oall (L.map (fun c => Ks.ofOpt (f c) k)) = .ok cs → L.mapM f = some cs
  | [], cs, h => by
    simp only [List.map_nil, Ks.oall] at h
    injection h with h
    subst h
    rfl
  | x :: xs, cs, h => by
    simp only [List.map_cons, Ks.oall] at h
    obtain ⟨y, hy, h⟩ := Ks.obind_ok h
    obtain ⟨vs, hvs, h⟩ := Ks.obind_ok h
    injection h with h
    subst h
    rw [List.mapM_cons, mapM_of_oall_ofOpt f k xs vs hvs]
    cases hx : f x with
    | none => rw [hx] at hy; simp [Ks.ofOpt] at hy
    | some y' =>
      rw [hx] at hy
      simp only [Ks.ofOpt] at hy
      injection hy with hy
      subst hy
      rfl

theorem bigNormalizeOff_eq_kern (big128 : Bool) (N rb rs ab : Nat) (c : Col) :
    bigNormalizeOff big128 N rb rs 0 c ab = kern big128 rb rs ab N c := by
  cases big128 <;> rfl

/-- shape and bound of the accumulator `Core.expandAcc` under `Core.ExpandOk` -/
theorem expandAcc_wf_bound (N : Nat) (big128 : Bool) (a0 : Col) (aDft : List Col) (t : ToGGSWKey) (c : Nat) (Hp Ha : Int)
    (hok : ExpandOk N big128 a0 aDft t c) (hc : c < t.rank) (hHa0 : 0 ≤ Ha)
    (hprod : ∀ col ∈ expandProd N aDft t c, ∀ l ∈ col, ∀ x ∈ l, |x| ≤ Hp) (hbody : ∀ l ∈ a0, ∀ x ∈ l, |x| ≤ Ha) :
    (∀ col ∈ expandAcc big128 N a0 aDft t c, ColWF N t.size col) ∧
      (∀ col ∈ expandAcc big128 N a0 aDft t c, ∀ l ∈ col, ∀ x ∈ l, |x| ≤ Hp + Ha) := by
  obtain ⟨hP, ha0, hadd⟩ := hok
  have hlen := expandProd_length N aDft t c
  have hc1 : c + 1 < (expandProd N aDft t c).length := by rw [hlen]; omega
  have hmem : (expandProd N aDft t c).getD (c + 1) [] ∈ expandProd N aDft t c := by
    rw [List.getD_eq_getElem?_getD, List.getElem?_eq_getElem hc1]
    exact List.getElem_mem hc1
  unfold expandAcc
  rw [hadd]
  constructor
  · intro col hcol
    rcases List.mem_or_eq_of_mem_set hcol with h | h
    · exact hP col h
    · rw [h]; exact colAdd_wf (hP _ hmem) (fit_wf ha0 _)
  · intro col hcol
    rcases List.mem_or_eq_of_mem_set hcol with h | h
    · intro l hl x hx
      have := hprod col h l hl x hx
      linarith
    · rw [h]
      exact colAdd_bound _ _ Hp Ha (hprod _ hmem) (fit_bound N _ _ Ha hHa0 hbody)

/-- **the normalisation of an accumulator, `Option` form** (`Core.bigNormalizeOff … 0 …` column by column, as `Core.expandRowCols` runs it):
C08 discharged (`norm_stage`), lifted to `R N`, the accumulator's phase presented limb by limb (the left-hand side of
`Core.expand_cell_value`). -/
theorem acc_norm_phase (big128 : Bool) (N rb rs ab S : Nat) (H : Int) (L cell : List Col) (hN : 0 < N)
    (hrb1 : 1 ≤ rb) (hrb : rb ≤ 62) (hab1 : 1 ≤ ab) (hab : ab ≤ 62) (hH0 : 0 ≤ H) (hH : H + 8 ≤ 2 ^ (bitsOf big128 - 2))
    (hne : L ≠ []) (hwf : ∀ c ∈ L, ColWF N S c) (hb : ∀ c ∈ L, ∀ l ∈ c, ∀ x ∈ l, |x| ≤ H)
    (hcell : L.mapM (fun x => bigNormalizeOff big128 N rb rs 0 x ab) = some cell) :
    cell.length = L.length ∧ (∀ c ∈ cell, ColWF N rs c) ∧ (∀ c ∈ cell, ∀ l ∈ c, ∀ x ∈ l, |x| ≤ 2 ^ rb - 1) ∧
      ∀ s : List Poly, ∃ E Q : Poly, E.length = N ∧ Q.length = N ∧
        normInf E ≤ (1 + snorm (min (L.length - 1) s.length) s) * C02.normTol (rb * rs) (ab * S) ∧
        (2 : Ks.R N) ^ (ab * S) * Ks.ι N (valP rb N (phase s (Ks.mkCt rb N cell)))
          = (2 : Ks.R N) ^ (rb * rs) *
              (∑ l ∈ Finset.range S, Ks.ι N (Ks.phaseRow s (L.map (fun col => limbOr0 N col l))) * ((2 : Ks.R N) ^ ab) ^ (S - 1 - l))
            + Ks.ι N E + (2 : Ks.R N) ^ (rb * rs + ab * S) * Ks.ι N Q := by
  obtain ⟨cs, hok, hlen, hcwf, hdig, hph⟩ := norm_stage big128 N rb rs ab S H L hrb1 hrb hab1 hab hH0 hH hne hwf hb
  have hm : L.mapM (fun x => bigNormalizeOff big128 N rb rs 0 x ab) = some cs := by
    have e : (fun x => bigNormalizeOff big128 N rb rs 0 x ab) = (fun c => kern big128 rb rs ab N c) := by
      funext x; exact bigNormalizeOff_eq_kern _ _ _ _ _ _
    rw [e]
    exact mapM_of_oall_ofOpt _ "fuel" L cs hok
  rw [hm] at hcell
  injection hcell with hcell
  subst hcell
  refine ⟨hlen, hcwf, hdig, ?_⟩
  intro s
  obtain ⟨E, Q, hE, hQ, hn, hr⟩ := coeff_to_ring N hN _ _ _ _ _ _ _ _ (hph s)
  refine ⟨E, Q, hE, hQ, hn, ?_⟩
  rw [← Core.ι_valP_phase_rows' N hN ab S s L hne hwf]
  push_cast at hr
  exact hr

/-! ### 2. the row value that the expansion sees is the phase value of the column-0 cell (equal radices) -/

/-- the mask columns of a cell, as `Core.expandPre` hands them to the product when the radices agree -/
def maskOf (t : ToGGSWKey) (y : Ks.Ct) : List Col := (List.range t.rank).map (fun i => y.cols.getD (i + 1) [])

theorem convSize_same (rs b : Nat) (hb : 1 ≤ b) : (rs * b + b - 1) / b = rs := by
  apply Nat.div_eq_of_lt_le
  · omega
  · rw [Nat.succ_mul]; omega

theorem vecCopy_self (n : Nat) (c : Col) : vecCopy n c.length c = c := by
  unfold vecCopy
  simp

/-- **equal radices**: `Core.expandPre` returns the body and the mask columns of the cell, unchanged -/
theorem expandPre_same_wf (N : Nat) (y : Ks.Ct) (t : ToGGSWKey) (hy : GWF N y) (hrank : y.rank = t.rank) (hb1 : 1 ≤ t.base2k) :
    expandPre N t.base2k y.size y.cols t = some (y.cols.getD 0 [], maskOf t y) := by
  rw [expandPre_same N t.base2k y.size y.cols t rfl, convSize_same _ _ hb1]
  have h0 := (hy.col_wf 0 (Nat.zero_le _)).1
  have e0 : vecCopy N y.size (y.cols.getD 0 []) = y.cols.getD 0 [] := by
    have := vecCopy_self N (y.cols.getD 0 [])
    rw [show (y.cols.getD 0 []).length = y.size from h0] at this
    exact this
  rw [e0]
  congr 2
  unfold maskOf
  apply List.map_congr_left
  intro i hi
  have hi' : i < t.rank := List.mem_range.mp hi
  have hl : (y.cols.getD (i + 1) []).length = y.size := (hy.col_wf (i + 1) (by omega)).1
  have := Ks.dftApplyCol_id N (y.cols.getD (i + 1) [])
  rw [hl] at this
  exact this

theorem colValS_eq (N b S : Nat) (c : Col) (hc : LimbsN N c) (h : c.length ≤ S) :
    colValS N ((2 : Ks.R N) ^ b) S c = ((2 : Ks.R N) ^ b) ^ (S - c.length) * Ks.ι N (valP b N c) := by
  rw [← Ks.radix_eq, ← ι_valP_fit N b S c hc h, Core.ι_valP N b _ (fit_wf hc S).2, (fit_wf hc S).1, ← Ks.radix_eq]
  unfold colValS
  apply Finset.sum_congr rfl
  intro k hk
  have h1 := Finset.mem_range.mp hk
  have e : limbOr0 N (fit N S c) k = limbOr0 N c k := by
    unfold limbOr0
    rw [List.getD_eq_getElem?_getD, fit_getElem?, if_pos h1, Option.getD_some]
  rw [e]

/-- **row value = phase value (equal radices, covered regime)**: for the `(a0, aDft)` of `expandPre_same_wf`, with `σ_i = ι(s_i)` and
`y.size ≤ min(t.size, dnum·dsize)`, `Core.rowVal` is the value of the phase of the column-0 cell `y` under `sk`, at the scale of a
`t.size`-limb number. -/
theorem rowVal_same (N : Nat) (hN : 0 < N) (y : Ks.Ct) (t : ToGGSWKey) (sk : List Poly) (hy : GWF N y) (hrank : y.rank = t.rank)
    (hd : 1 ≤ t.dsize) (hsk : t.rank ≤ sk.length) (h1 : y.size ≤ t.size) (h2 : y.size ≤ t.dnum * t.dsize) :
    rowVal N ((2 : Ks.R N) ^ t.base2k) (y.cols.getD 0 []) (maskOf t y) t (fun i => Ks.ι N (sk.getD i []))
      = ((2 : Ks.R N) ^ t.base2k) ^ (t.size - y.size) * Ks.ι N (valP t.base2k N (phase sk y)) := by
  have hwf : ∀ c ∈ y.cols, ColWF N y.size c := hy.2.2
  have e1 := Core.ι_valP_phase_cols N hN t.base2k y.size sk y.cols hy.2.1 hwf
  have hph : phase sk (Ks.mkCt t.base2k N y.cols) = phase sk y := rfl
  have hmin : min (y.cols.length - 1) sk.length = t.rank := by
    have : y.cols.length - 1 = y.rank := rfl
    rw [this, hrank]; omega
  rw [hph, hmin] at e1
  have hb := hy.col_wf 0 (Nat.zero_le _)
  have hb' : ColWF N y.size (y.cols.getD 0 []) := hb
  unfold rowVal expandUsed
  rw [e1, mul_add, Finset.mul_sum, colValS_eq N t.base2k t.size _ hb'.2 (by rw [hb'.1]; exact h1), hb'.1]
  congr 1
  apply Finset.sum_congr rfl
  intro i hi
  have hi' : i < t.rank := Finset.mem_range.mp hi
  have hc : ColWF N y.size (y.cols.getD (i + 1) []) := hy.col_wf (i + 1) (by omega)
  have hc0 : ColWF N y.size (y.cols.getD (0 + 1) []) := hy.col_wf (0 + 1) (by omega)
  have hL : ((maskOf t y).getD 0 []).length = y.size := by
    unfold maskOf
    rw [getD_range_map _ _ _ (by omega)]
    exact hc0.1
  rw [hL, Gadget.usedVal_eq_val _ _ _ _ _ _ (by omega) h2]
  have e : ∀ m, Ks.inLimb N (mkBuf t.n t.rank y.size (maskOf t y)) i m = Ks.ι N (limbOr0 N (y.cols.getD (i + 1) []) m) := by
    intro m
    unfold Ks.inLimb Buf.act mkBuf maskOf
    simp only
    rw [getD_range_map _ _ _ hi', List.take_of_length_le (by rw [hc.1])]
  simp only [e]
  have := ι_valP_at N t.base2k t.size (y.cols.getD (i + 1) []) hc.2 (by rw [hc.1]; exact h1)
  rw [hc.1, Ks.radix_eq] at this
  rw [this]; ring

/-! ### 4a. one row of the expansion: every cell `(r, c+1)` decrypts to `s_c · phase(cell (r, 0))` -/

/-- **`row_cells_decrypt`** — one row of the executed row expansion (equal radices `rb = t.base2k`, covered regime
`rs ≤ min(t.size, dnum·dsize)`, both accumulator widths, every `dsize ≥ 1`, every rank).  `y` is the column-0 cell of row `r`
(`Ks.RowCellsValue`, from `Ks.ggsw_cells_value`), its body bounded by `Ha`, the `rank` gadget products of its mask by `Hp`,
`Hp + Ha + 8 ≤ 2^62` resp. `2^126`.  Then cell `(r, c+1)` exists, is well formed with digits `≤ 2^b − 1` and, with `b = t.base2k`,
`S = t.size`: `2^(b·S)·val(phase cell) = 2^(b·S)·s_c·val(phase y) + 2^(b·rs)·expandErr_c + ι(E₃) + 2^(b·rs + b·S)·ι(Q₃)`,
`‖E₃‖∞ ≤ (1 + ‖sk‖₁)·normTol(b·rs, b·S)`. -/
theorem row_cells_decrypt (N : Nat) (big128 : Bool) (rs : Nat) (t : ToGGSWKey) (cells : List (List Col)) (sk : List Poly)
    (E : ℕ → ℕ → ℕ → Ks.R N) (r : Nat) (y : Ks.Ct) (Hp Ha : Int)
    (hv : Ks.RowCellsValue N big128 t.base2k rs t cells sk ((2 : Ks.R N) ^ t.base2k) (fun i => Ks.ι N (sk.getD i [])) E r y)
    (hN : 0 < N) (hy : GWF N y) (hys : y.size = rs) (hrank : y.rank = t.rank) (hd : 1 ≤ t.dsize) (hn : t.n = N)
    (hM : ∀ c, c < t.rank → ∀ j q, ((t.at c).toPMat.entry j q).length = N) (hsk : t.rank ≤ sk.length)
    (hb1 : 1 ≤ t.base2k) (hb : t.base2k ≤ 62) (h1 : rs ≤ t.size) (h2 : rs ≤ t.dnum * t.dsize)
    (hHp0 : 0 ≤ Hp) (hHa0 : 0 ≤ Ha) (hH : Hp + Ha + 8 ≤ 2 ^ (bitsOf big128 - 2))
    (hprod : ∀ c, c < t.rank → ∀ col ∈ expandProd N (maskOf t y) t c, ∀ l ∈ col, ∀ x ∈ l, |x| ≤ Hp)
    (hbody : ∀ l ∈ y.cols.getD 0 [], ∀ x ∈ l, |x| ≤ Ha) :
    ∀ c, c < t.rank → ∃ cell, cells[r * (t.rank + 1) + (c + 1)]? = some cell ∧ cell.length = t.rank + 1 ∧
      (∀ col ∈ cell, ColWF N rs col) ∧ (∀ col ∈ cell, ∀ l ∈ col, ∀ x ∈ l, |x| ≤ 2 ^ t.base2k - 1) ∧
      ∃ E3 Q3 : Poly, E3.length = N ∧ Q3.length = N ∧
        normInf E3 ≤ (1 + snorm (min t.rank sk.length) sk) * C02.normTol (t.base2k * rs) (t.base2k * t.size) ∧
        (2 : Ks.R N) ^ (t.base2k * t.size) * Ks.ι N (valP t.base2k N (phase sk (Ks.mkCt t.base2k N cell)))
          = (2 : Ks.R N) ^ (t.base2k * t.size) * (Ks.ι N (sk.getD c []) * Ks.ι N (valP t.base2k N (phase sk y)))
            + (2 : Ks.R N) ^ (t.base2k * rs) * expandErr N sk (maskOf t y) t c ((2 : Ks.R N) ^ t.base2k) (E c)
            + Ks.ι N E3 + (2 : Ks.R N) ^ (t.base2k * rs + t.base2k * t.size) * Ks.ι N Q3 := by
  subst hys
  obtain ⟨_, a0, aDft, hpre, hcells⟩ := hv
  rw [expandPre_same_wf N y t hy hrank hb1] at hpre
  injection hpre with hpre
  injection hpre with e1 e2
  subst e1; subst e2
  intro c hc
  obtain ⟨cell, hidx, hnorm, hval⟩ := hcells c hc
  have hlenP := expandProd_length N (maskOf t y) t c
  have hc1 : c + 1 < (expandProd N (maskOf t y) t c).length := by rw [hlenP]; omega
  have hmem : (expandProd N (maskOf t y) t c).getD (c + 1) [] ∈ expandProd N (maskOf t y) t c := by
    rw [List.getD_eq_getElem?_getD, List.getElem?_eq_getElem hc1]
    exact List.getElem_mem hc1
  have hHadd : Hp + Ha < 2 ^ (bitsOf big128 - 1) := by
    have h2 : (2 : Int) ^ (bitsOf big128 - 2) ≤ 2 ^ (bitsOf big128 - 1) := pow_le_pow_right₀ (by norm_num) (by omega)
    linarith
  have hok := expandOk_of_bounds N big128 (y.cols.getD 0 []) (maskOf t y) t c Hp Ha hd hn (hM c hc) hc (hy.col_limbs 0) hHadd
    (hprod c hc _ hmem) hbody
  obtain ⟨hAwf, hAb⟩ := expandAcc_wf_bound N big128 _ _ t c Hp Ha hok hc hHa0 (hprod c hc) hbody
  have hAlen := expandAcc_length big128 N (y.cols.getD 0 []) (maskOf t y) t c
  have hAne : expandAcc big128 N (y.cols.getD 0 []) (maskOf t y) t c ≠ [] := by
    intro h; rw [h] at hAlen; simp at hAlen
  obtain ⟨hcl, hcwf, hdig, hph⟩ := acc_norm_phase big128 N t.base2k y.size t.base2k t.size (Hp + Ha) _ cell hN hb1 hb hb1 hb
    (by linarith) hH hAne hAwf hAb hnorm
  refine ⟨cell, hidx, by rw [hcl, hAlen], hcwf, hdig, ?_⟩
  obtain ⟨E3, Q3, hE3, hQ3, hn3, hr⟩ := hph sk
  rw [hAlen] at hn3
  refine ⟨E3, Q3, hE3, hQ3, by simpa using hn3, ?_⟩
  rw [hval hok, rowVal_same N hN y t sk hy hrank hd hsk h1 h2] at hr
  have hpw : (2 : Ks.R N) ^ (t.base2k * y.size) * ((2 : Ks.R N) ^ t.base2k) ^ (t.size - y.size) = (2 : Ks.R N) ^ (t.base2k * t.size) := by
    rw [← pow_mul, ← pow_add, ← Nat.mul_add]
    congr 2
    omega
  rw [hr]
  linear_combination (Ks.ι N (sk.getD c []) * Ks.ι N (valP t.base2k N (phase sk y))) * hpw

/-- **one row, composed with the relation of its column-0 cell**: if the column-0 cell `y` satisfies
`2^A1·val(phase y) = 2^A2·M + Err₀ + 2^(A1 + b·rs)·Q` (the conclusion of `glwe_keyswitch_decrypts` / `glwe_automorphism_decrypts`), every cell
`(r, c+1)` satisfies `2^(A1+b·S)·val(phase cell) = 2^(A2+b·S)·(s_c·M) + (2^(b·S)·s_c·Err₀ + 2^(A1+b·rs)·expandErr_c + 2^A1·ι(E₃))
+ 2^(A1 + b·rs + b·S)·(s_c·Q + ι(Q₃))` — the same torus relation with message `s_c·M`, scaled by `2^(b·S)`. -/
theorem row_cells_decrypt_of_col0 (N : Nat) (big128 : Bool) (rs : Nat) (t : ToGGSWKey) (cells : List (List Col)) (sk : List Poly)
    (E : ℕ → ℕ → ℕ → Ks.R N) (r : Nat) (y : Ks.Ct) (Hp Ha : Int)
    (hv : Ks.RowCellsValue N big128 t.base2k rs t cells sk ((2 : Ks.R N) ^ t.base2k) (fun i => Ks.ι N (sk.getD i [])) E r y)
    (hN : 0 < N) (hy : GWF N y) (hys : y.size = rs) (hrank : y.rank = t.rank) (hd : 1 ≤ t.dsize) (hn : t.n = N)
    (hM : ∀ c, c < t.rank → ∀ j q, ((t.at c).toPMat.entry j q).length = N) (hsk : t.rank ≤ sk.length)
    (hb1 : 1 ≤ t.base2k) (hb : t.base2k ≤ 62) (h1 : rs ≤ t.size) (h2 : rs ≤ t.dnum * t.dsize)
    (hHp0 : 0 ≤ Hp) (hHa0 : 0 ≤ Ha) (hH : Hp + Ha + 8 ≤ 2 ^ (bitsOf big128 - 2))
    (hprod : ∀ c, c < t.rank → ∀ col ∈ expandProd N (maskOf t y) t c, ∀ l ∈ col, ∀ x ∈ l, |x| ≤ Hp)
    (hbody : ∀ l ∈ y.cols.getD 0 [], ∀ x ∈ l, |x| ≤ Ha)
    (A1 A2 : Nat) (M Err0 Q : Ks.R N)
    (h0 : (2 : Ks.R N) ^ A1 * Ks.ι N (valP t.base2k N (phase sk y)) = (2 : Ks.R N) ^ A2 * M + Err0 + (2 : Ks.R N) ^ (A1 + t.base2k * rs) * Q) :
    ∀ c, c < t.rank → ∃ cell, cells[r * (t.rank + 1) + (c + 1)]? = some cell ∧ cell.length = t.rank + 1 ∧
      (∀ col ∈ cell, ColWF N rs col) ∧ (∀ col ∈ cell, ∀ l ∈ col, ∀ x ∈ l, |x| ≤ 2 ^ t.base2k - 1) ∧
      ∃ E3 Q3 : Poly, E3.length = N ∧ Q3.length = N ∧
        normInf E3 ≤ (1 + snorm (min t.rank sk.length) sk) * C02.normTol (t.base2k * rs) (t.base2k * t.size) ∧
        (2 : Ks.R N) ^ (A1 + t.base2k * t.size) * Ks.ι N (valP t.base2k N (phase sk (Ks.mkCt t.base2k N cell)))
          = (2 : Ks.R N) ^ (A2 + t.base2k * t.size) * (Ks.ι N (sk.getD c []) * M)
            + ((2 : Ks.R N) ^ (t.base2k * t.size) * (Ks.ι N (sk.getD c []) * Err0)
              + (2 : Ks.R N) ^ (A1 + t.base2k * rs) * expandErr N sk (maskOf t y) t c ((2 : Ks.R N) ^ t.base2k) (E c)
              + (2 : Ks.R N) ^ A1 * Ks.ι N E3)
            + (2 : Ks.R N) ^ (A1 + t.base2k * rs + t.base2k * t.size) * (Ks.ι N (sk.getD c []) * Q + Ks.ι N Q3) := by
  intro c hc
  obtain ⟨cell, hidx, hlen, hwf, hdig, E3, Q3, hE3, hQ3, hn3, hr⟩ :=
    row_cells_decrypt N big128 rs t cells sk E r y Hp Ha hv hN hy hys hrank hd hn hM hsk hb1 hb h1 h2 hHp0 hHa0 hH hprod hbody c hc
  refine ⟨cell, hidx, hlen, hwf, hdig, E3, Q3, hE3, hQ3, hn3, ?_⟩
  simp only [pow_add] at h0 hr ⊢
  linear_combination (2 : Ks.R N) ^ A1 * hr + (2 : Ks.R N) ^ (t.base2k * t.size) * Ks.ι N (sk.getD c []) * h0

/-! ### 4b. `ggsw_keyswitch`, every cell -/

/-- the per-row hypotheses of `glwe_keyswitch_decrypts` on an operand cell `x` (H1 well-formedness, H2 head-room of the input and of the
product of the converted mask, covered regime) -/
def KsRowOk (N rout : Nat) (key : Ks.Key) (Hin Hp : Int) (x : Ks.Ct) : Prop :=
  GWF N x ∧ x.rank = key.rankIn ∧ 1 ≤ x.base2k ∧ x.base2k ≤ 62 ∧ (∀ c ∈ x.cols, ∀ l ∈ c, ∀ v ∈ l, |v| ≤ Hin) ∧
    (∀ aConv, Ks.convIn x key = .ok aConv → ∀ i, i < rout + 1 → ∀ l ∈ (prodOf rout aConv key).act i, ∀ v ∈ l, |v| ≤ Hp) ∧
    convSize x key ≤ key.mat.size ∧ convSize x key ≤ key.mat.rows * key.dsize

/-- the error list of `glwe_keyswitch_decrypts` for `x ↦ (bout, sout)` -/
def ksErrOf (N bout sout : Nat) (x aConv : Ks.Ct) (key : Ks.Key) (skOut : List Poly) (EL : ℕ → ℕ → Poly) (E1 E3 : Poly) : Poly :=
  ksErr (2 ^ (bout * sout + key.base2k * (key.mat.size - convSize x key))) (2 ^ (x.base2k * x.size + bout * sout))
    (2 ^ (x.base2k * x.size)) E1 (Ks.errL N key.base2k (aDftOf aConv) key EL) (Ks.dropL N key.base2k skOut (aDftOf aConv) key) E3

/-- … and its four-term bound -/
def ksErrBound (N bout sout rout : Nat) (x aConv : Ks.Ct) (key : Ks.Key) (sIn skOut : List Poly) (EL : ℕ → ℕ → Poly) : Int :=
  2 ^ (bout * sout + key.base2k * (key.mat.size - convSize x key)) *
      ((1 + snorm (min x.rank sIn.length) sIn) * C02.normTol (key.base2k * convSize x key) (x.base2k * x.size))
    + 2 ^ (x.base2k * x.size + bout * sout) * gadgetBound N key.base2k (aDftOf aConv) key EL
    + 2 ^ (x.base2k * x.size + bout * sout) * dropBound N key.base2k skOut (aDftOf aConv) key
    + 2 ^ (x.base2k * x.size) *
      ((1 + snorm (min rout skOut.length) skOut) * C02.normTol (bout * sout) (key.base2k * key.mat.size))

/-- **`ggsw_keyswitch_decrypts`** — END-TO-END theorem of the executed `Ks.ggswKeyswitch` (`ggsw_keyswitch`: `glwe_keyswitch` on column 0
of every row, then `ggsw_expand_row` with the GGLWE→GGSW tensor key `t`), every cell: result radix `b = t.base2k` (the equal-radix branch of
`ggsw_expand_row`), covered regimes of the key switch (`KsRowOk`) and of the expansion (`rs ≤ min(t.size, dnum_t·dsize_t)`), all ranks,
every `dsize ≥ 1` of both keys, both accumulator widths.

Key relations under `skOut`: `hkey` (key-switch key, input secret `sIn`, `glwe_keyswitch_decrypts`) and `hkeyT` (tensor key:
`val(φ^c_{i,k}) = s_c·s_i·β^{S−(k+1)·dsize} + ET c i k`).  Head-room: `hAcc` (key switch), `hAccT` (`HpT` bounds the `rank` gadget products of
the expansion, the body is a normalised digit `< 2^b`).

For every row `r < rd` with operand cell `x`: the key-switched cell `y` is cell `(r,0)` and
`2^A1·val(phase y) = 2^A2·val(phase_{sIn} x) + ι(ksErr) + 2^(A1+b·rs)·Q`, `A1 = b_x·s_x + b_key·S_key`, `A2 = b·rs + b_key·S_key`; every cell
`(r, c+1)` is well formed with digits `< 2^b` and
`2^(A1+b·S)·val(phase cell) = 2^(A2+b·S)·s_c·val(phase_{sIn} x) + (2^(b·S)·s_c·ι(ksErr) + 2^(A1+b·rs)·expandErr_c + 2^A1·ι(E₃ᶜ))
 + 2^(A1+b·rs+b·S)·(s_c·Q + ι(Q₃ᶜ))` — i.e. cell `(r, c)` encrypts `σ_c·(message of a.at(r,0))` (`σ_0 = 1`, `σ_{c+1} = s_c`) modulo the torus
modulus `2^(b·rs)` of the cell, with an explicit error. -/
theorem ggsw_keyswitch_decrypts (N : Nat) (big128 : Bool) (rs rd rds ab ads : Nat) (aCol0 : List Ks.Ct) (key : Ks.Key) (t : ToGGSWKey)
    (cells : List (List Col)) (sIn skOut : List Poly) (EL KL : ℕ → ℕ → Poly) (ET : ℕ → ℕ → ℕ → Ks.R N) (Hin Hp HpT : Int)
    (hN : 0 < N) (hrout : t.rank = key.rankOut) (hc0 : 0 < key.mat.colsOut)
    (hD : 1 ≤ key.dsize) (hMk : ∀ j q, (key.mat.entry j q).length = N) (hSk : key.mat.rows * key.dsize ≤ key.mat.size)
    (hbk1 : 1 ≤ key.base2k) (hbk : key.base2k ≤ 62) (hs : key.mat.colsIn ≤ sIn.length)
    (hEL : ∀ i r, (EL i r).length = N) (hKL : ∀ i r, (KL i r).length = N)
    (hkey : ∀ i, i < key.mat.colsIn → ∀ r, r < key.mat.rows →
      Gadget.val (Ks.radix N key.base2k) key.mat.size (Ks.keyPhase N skOut key.mat i r) =
        Ks.ι N (sIn.getD i []) * Ks.radix N key.base2k ^ (key.mat.size - (r + 1) * key.dsize) + Ks.ι N (EL i r)
          + Ks.radix N key.base2k ^ key.mat.size * Ks.ι N (KL i r))
    (hd : 1 ≤ t.dsize) (hn : t.n = N) (hS : t.dnum * t.dsize ≤ t.size) (hrank : t.rank ≤ skOut.length)
    (hMt : ∀ c, c < t.rank → ∀ j q, ((t.at c).toPMat.entry j q).length = N) (hb1 : 1 ≤ t.base2k) (hb : t.base2k ≤ 62)
    (hkeyT : ∀ c, c < t.rank → ∀ i, i < t.rank → ∀ r, r < t.dnum →
      Gadget.val ((2 : Ks.R N) ^ t.base2k) t.size (Ks.keyPhase N skOut (t.at c).toPMat i r)
        = Ks.ι N (skOut.getD c []) * Ks.ι N (skOut.getD i []) * ((2 : Ks.R N) ^ t.base2k) ^ (t.size - (r + 1) * t.dsize) + ET c i r)
    (hcov1 : rs ≤ t.size) (hcov2 : rs ≤ t.dnum * t.dsize)
    (hIn0 : 0 ≤ Hin) (hIn : Hin + 8 ≤ 2 ^ 62) (hHp0 : 0 ≤ Hp) (hAcc : Hp + (Hin + 2 ^ key.base2k) + 8 ≤ 2 ^ (bitsOf big128 - 2))
    (hHpT0 : 0 ≤ HpT) (hAccT : HpT + 2 ^ t.base2k + 8 ≤ 2 ^ (bitsOf big128 - 2))
    (hrows : ∀ r x, r < rd → aCol0[r]? = some x → KsRowOk N key.rankOut key Hin Hp x)
    (hprodT : ∀ r x y, r < rd → aCol0[r]? = some x → Ks.keyswitch big128 t.base2k rs key.rankOut x key = .ok y →
      ∀ c, c < t.rank → ∀ col ∈ expandProd N (maskOf t y) t c, ∀ l ∈ col, ∀ v ∈ l, |v| ≤ HpT)
    (h : Ks.ggswKeyswitch big128 N t.base2k rs rd rds ab ads aCol0 key t = .ok cells) :
    cells.length = rd * (t.rank + 1) ∧
      ∀ r, r < rd → ∃ x y aConv, aCol0[r]? = some x ∧ Ks.keyswitch big128 t.base2k rs key.rankOut x key = .ok y ∧
        Ks.convIn x key = .ok aConv ∧ cells[r * (t.rank + 1)]? = some y.cols ∧
        GWF N y ∧ y.base2k = t.base2k ∧ y.size = rs ∧ y.rank = t.rank ∧
        ∃ (E1 E3 : Poly) (Q : Ks.R N), E1.length = N ∧ E3.length = N ∧
          normInf E1 ≤ (1 + snorm (min x.rank sIn.length) sIn) * C02.normTol (key.base2k * convSize x key) (x.base2k * x.size) ∧
          normInf E3 ≤ (1 + snorm (min key.rankOut skOut.length) skOut) * C02.normTol (t.base2k * rs) (key.base2k * key.mat.size) ∧
          normInf (ksErrOf N t.base2k rs x aConv key skOut EL E1 E3) ≤ ksErrBound N t.base2k rs key.rankOut x aConv key sIn skOut EL ∧
          (2 : Ks.R N) ^ (x.base2k * x.size + key.base2k * key.mat.size) * Ks.ι N (valP t.base2k N (phase skOut y))
            = (2 : Ks.R N) ^ (t.base2k * rs + key.base2k * key.mat.size) * Ks.ι N (valP x.base2k N (phase sIn x))
              + Ks.ι N (ksErrOf N t.base2k rs x aConv key skOut EL E1 E3)
              + (2 : Ks.R N) ^ (x.base2k * x.size + key.base2k * key.mat.size + t.base2k * rs) * Q ∧
          ∀ c, c < t.rank → ∃ cell, cells[r * (t.rank + 1) + (c + 1)]? = some cell ∧ cell.length = t.rank + 1 ∧
            (∀ col ∈ cell, ColWF N rs col) ∧ (∀ col ∈ cell, ∀ l ∈ col, ∀ v ∈ l, |v| ≤ 2 ^ t.base2k - 1) ∧
            ∃ E3c Q3c : Poly, E3c.length = N ∧ Q3c.length = N ∧
              normInf E3c ≤ (1 + snorm (min t.rank skOut.length) skOut) * C02.normTol (t.base2k * rs) (t.base2k * t.size) ∧
              (2 : Ks.R N) ^ (x.base2k * x.size + key.base2k * key.mat.size + t.base2k * t.size) *
                  Ks.ι N (valP t.base2k N (phase skOut (Ks.mkCt t.base2k N cell)))
                = (2 : Ks.R N) ^ (t.base2k * rs + key.base2k * key.mat.size + t.base2k * t.size) *
                    (Ks.ι N (skOut.getD c []) * Ks.ι N (valP x.base2k N (phase sIn x)))
                  + ((2 : Ks.R N) ^ (t.base2k * t.size) * (Ks.ι N (skOut.getD c []) * Ks.ι N (ksErrOf N t.base2k rs x aConv key skOut EL E1 E3))
                    + (2 : Ks.R N) ^ (x.base2k * x.size + key.base2k * key.mat.size + t.base2k * rs) *
                        expandErr N skOut (maskOf t y) t c ((2 : Ks.R N) ^ t.base2k) (ET c)
                    + (2 : Ks.R N) ^ (x.base2k * x.size + key.base2k * key.mat.size) * Ks.ι N E3c)
                  + (2 : Ks.R N) ^ (x.base2k * x.size + key.base2k * key.mat.size + t.base2k * rs + t.base2k * t.size) *
                      (Ks.ι N (skOut.getD c []) * Q + Ks.ι N Q3c) := by
  obtain ⟨hlen, hrow⟩ := Ks.ggsw_keyswitch_cells_value N big128 t.base2k rs rd rds ab ads aCol0 key t cells skOut ((2 : Ks.R N) ^ t.base2k)
    (fun i => Ks.ι N (skOut.getD i [])) ET hd hN hn hS hrank hMt hkeyT h
  refine ⟨hlen, ?_⟩
  intro r hr
  obtain ⟨x, y, hx, hks, hv⟩ := hrow r hr
  obtain ⟨gx, hxr, hx1, hx62, hxB, hxP, hxc1, hxc2⟩ := hrows r x hr hx
  obtain ⟨res, aConv, hok, hconv, gwR, hbR, hsR, hrR, E1, E3, Q, hE1, hE3, hn1, hn3, hmain, hbound⟩ :=
    glwe_keyswitch_decrypts big128 N t.base2k rs key.rankOut x key sIn skOut EL KL Hin Hp hN gx hxr rfl hc0 hD hMk hSk hx1 hx62 hbk1 hbk
      hb1 hb hIn0 hIn hxB hHp0 hAcc hxP hs hEL hKL hkey hxc1 hxc2
  have hdig := keyswitch_digits big128 N t.base2k rs key.rankOut x key sIn skOut EL KL Hin Hp hN gx hxr rfl hc0 hD hMk hSk hx1 hx62
    hbk1 hbk hb1 hb hIn0 hIn hxB hHp0 hAcc hxP hEL hKL hkey res hok
  rw [hks] at hok
  injection hok with hok
  subst hok
  have hyrank : y.rank = t.rank := by rw [hrR, hrout]
  have hbodymem : y.cols.getD 0 [] ∈ y.cols := col_mem 0 (by rw [gwR.len]; omega)
  have hp2 : (0 : Int) ≤ 2 ^ t.base2k := by positivity
  have hmain' : (2 : Ks.R N) ^ (x.base2k * x.size + key.base2k * key.mat.size) * Ks.ι N (valP t.base2k N (phase skOut y))
      = (2 : Ks.R N) ^ (t.base2k * rs + key.base2k * key.mat.size) * Ks.ι N (valP x.base2k N (phase sIn x))
        + Ks.ι N (ksErrOf N t.base2k rs x aConv key skOut EL E1 E3)
        + (2 : Ks.R N) ^ (x.base2k * x.size + key.base2k * key.mat.size + t.base2k * rs) * Q := by
    have e : x.base2k * x.size + key.base2k * key.mat.size + t.base2k * rs = x.base2k * x.size + t.base2k * rs + key.base2k * key.mat.size := by
      omega
    rw [e]
    exact hmain
  refine ⟨x, y, aConv, hx, hks, hconv, hv.1, gwR, hbR, hsR, hyrank, E1, E3, Q, hE1, hE3, hn1, hn3, hbound, hmain', ?_⟩
  exact row_cells_decrypt_of_col0 N big128 rs t cells skOut ET r y HpT (2 ^ t.base2k) hv hN gwR hsR hyrank hd hn hMt hrank hb1 hb hcov1 hcov2
    hHpT0 hp2 hAccT (hprodT r x y hr hx hks)
    (fun l hl v hv' => by have := hdig _ hbodymem l hl v hv'; linarith)
    (x.base2k * x.size + key.base2k * key.mat.size) (t.base2k * rs + key.base2k * key.mat.size) _ _ Q hmain'

/-! ### 4c. `ggsw_automorphism`, every cell -/

open AutoMul in
/-- the `i64` automorphism kernel keeps the digit bound of a key-switched ciphertext -/
theorem ctMap_auto_digits (N bout : Nat) (p : Int) (r : Ks.Ct) (hN : 0 < N) (hg : GalOk p N) (hr : GWF N r) (hbo : bout ≤ 62)
    (hdig : ∀ c ∈ r.cols, ∀ l ∈ c, ∀ x ∈ l, |x| ≤ 2 ^ bout - 1) :
    ∀ c ∈ (Ks.ctMapCols r (vecAutomorphismAssignW w64 p)).cols, ∀ l ∈ c, ∀ x ∈ l, |x| ≤ 2 ^ bout - 1 := by
  intro c hc l hl x hx
  obtain ⟨c0, hc0, rfl⟩ := List.mem_map.mp hc
  unfold vecAutomorphismAssignW at hl
  obtain ⟨l0, hl0, rfl⟩ := List.mem_map.mp hl
  have hlen : l0.length = N := (hr.2.2 c0 hc0).2 l0 hl0
  have hsmall : ∀ v ∈ l0, -(2 ^ 63) < v ∧ v < 2 ^ 63 := by
    intro v hv
    have h1 := abs_le.mp (hdig c0 hc0 l0 hl0 v hv)
    have h2 : (2 : Int) ^ bout ≤ 2 ^ 62 := pow_le_pow_right₀ (by norm_num) hbo
    constructor <;> linarith
  have e : znxAutomorphismW w64 p l0 = σ p l0 := auto_w64_eq_id p l0 hsmall
  rw [e] at hx
  exact σ_bound p l0 (by rw [hlen]; exact hN) (by rw [hlen]; exact hg) _ (hdig c0 hc0 l0 hl0) x hx

open AutoMul in
/-- **`ggsw_automorphism_decrypts`** — END-TO-END theorem of the executed `Ks.ggswAutomorphism` (`ggsw_automorphism`: `glwe_automorphism` with
the automorphism key of `g = key.p` on column 0 of every row, then `ggsw_expand_row` with the tensor key `t` of `sk`), every cell; same
regimes as `ggsw_keyswitch_decrypts`.  The key relation `hkey` is under `σ_{g⁻¹}(sk)` for the input secret `sk`; the tensor-key relation `hkeyT`
is under `sk`.  Cell `(r, 0)`: `2^A1·val(phase y) = 2^A2·σ_g(val(phase x)) + ι(σ_g(ksErr)) + 2^(A1+b·rs)·Q`; cell `(r, c+1)`:
`2^(A1+b·S)·val(phase cell) = 2^(A2+b·S)·s_c·σ_g(val(phase x)) + (2^(b·S)·s_c·ι(σ_g ksErr) + 2^(A1+b·rs)·expandErr_c + 2^A1·ι(E₃ᶜ)) + 2^(…)·(…)`
— every cell `(r, c)` encrypts `σ_c·σ_g(message of a.at(r,0))`. -/
theorem ggsw_automorphism_decrypts (N : Nat) (big128 : Bool) (rs rd rds ab ads : Nat) (aCol0 : List Ks.Ct) (key : Ks.Key) (t : ToGGSWKey)
    (cells : List (List Col)) (sk : List Poly) (gInv : Int) (EL KL : ℕ → ℕ → Poly) (ET : ℕ → ℕ → ℕ → Ks.R N) (Hin Hp HpT : Int)
    (hN : 0 < N) (hg : GalOk key.p N) (hskl : Ks.AllLen N sk) (hinv : ∀ s ∈ sk, σ key.p (σ gInv s) = s)
    (hrout : t.rank = key.rankOut) (hc0 : 0 < key.mat.colsOut)
    (hD : 1 ≤ key.dsize) (hMk : ∀ j q, (key.mat.entry j q).length = N) (hSk : key.mat.rows * key.dsize ≤ key.mat.size)
    (hbk1 : 1 ≤ key.base2k) (hbk : key.base2k ≤ 62) (hs : key.mat.colsIn ≤ sk.length)
    (hEL : ∀ i r, (EL i r).length = N) (hKL : ∀ i r, (KL i r).length = N)
    (hkey : ∀ i, i < key.mat.colsIn → ∀ r, r < key.mat.rows →
      Gadget.val (Ks.radix N key.base2k) key.mat.size (Ks.keyPhase N (sk.map (σ gInv)) key.mat i r) =
        Ks.ι N (sk.getD i []) * Ks.radix N key.base2k ^ (key.mat.size - (r + 1) * key.dsize) + Ks.ι N (EL i r)
          + Ks.radix N key.base2k ^ key.mat.size * Ks.ι N (KL i r))
    (hd : 1 ≤ t.dsize) (hn : t.n = N) (hS : t.dnum * t.dsize ≤ t.size) (hrank : t.rank ≤ sk.length)
    (hMt : ∀ c, c < t.rank → ∀ j q, ((t.at c).toPMat.entry j q).length = N) (hb1 : 1 ≤ t.base2k) (hb : t.base2k ≤ 62)
    (hkeyT : ∀ c, c < t.rank → ∀ i, i < t.rank → ∀ r, r < t.dnum →
      Gadget.val ((2 : Ks.R N) ^ t.base2k) t.size (Ks.keyPhase N sk (t.at c).toPMat i r)
        = Ks.ι N (sk.getD c []) * Ks.ι N (sk.getD i []) * ((2 : Ks.R N) ^ t.base2k) ^ (t.size - (r + 1) * t.dsize) + ET c i r)
    (hcov1 : rs ≤ t.size) (hcov2 : rs ≤ t.dnum * t.dsize)
    (hIn0 : 0 ≤ Hin) (hIn : Hin + 8 ≤ 2 ^ 62) (hHp0 : 0 ≤ Hp) (hAcc : Hp + (Hin + 2 ^ key.base2k) + 8 ≤ 2 ^ (bitsOf big128 - 2))
    (hHpT0 : 0 ≤ HpT) (hAccT : HpT + 2 ^ t.base2k + 8 ≤ 2 ^ (bitsOf big128 - 2))
    (hrows : ∀ r x, r < rd → aCol0[r]? = some x → KsRowOk N key.rankOut key Hin Hp x)
    (hprodT : ∀ r x y, r < rd → aCol0[r]? = some x → Ks.automorphism big128 t.base2k rs key.rankOut x key = .ok y →
      ∀ c, c < t.rank → ∀ col ∈ expandProd N (maskOf t y) t c, ∀ l ∈ col, ∀ v ∈ l, |v| ≤ HpT)
    (h : Ks.ggswAutomorphism big128 N t.base2k rs rd rds ab ads aCol0 key t = .ok cells) :
    cells.length = rd * (t.rank + 1) ∧
      ∀ r, r < rd → ∃ x y aConv, aCol0[r]? = some x ∧ Ks.automorphism big128 t.base2k rs key.rankOut x key = .ok y ∧
        Ks.convIn x key = .ok aConv ∧ cells[r * (t.rank + 1)]? = some y.cols ∧
        GWF N y ∧ y.base2k = t.base2k ∧ y.size = rs ∧ y.rank = t.rank ∧
        ∃ (E1 E3 : Poly) (Q : Ks.R N), E1.length = N ∧ E3.length = N ∧
          normInf E1 ≤ (1 + snorm (min x.rank sk.length) sk) * C02.normTol (key.base2k * convSize x key) (x.base2k * x.size) ∧
          normInf E3 ≤ (1 + snorm (min key.rankOut (sk.map (σ gInv)).length) (sk.map (σ gInv))) *
            C02.normTol (t.base2k * rs) (key.base2k * key.mat.size) ∧
          normInf (σ key.p (ksErrOf N t.base2k rs x aConv key (sk.map (σ gInv)) EL E1 E3))
            ≤ ksErrBound N t.base2k rs key.rankOut x aConv key sk (sk.map (σ gInv)) EL ∧
          (2 : Ks.R N) ^ (x.base2k * x.size + key.base2k * key.mat.size) * Ks.ι N (valP t.base2k N (phase sk y))
            = (2 : Ks.R N) ^ (t.base2k * rs + key.base2k * key.mat.size) * Ks.ι N (σ key.p (valP x.base2k N (phase sk x)))
              + Ks.ι N (σ key.p (ksErrOf N t.base2k rs x aConv key (sk.map (σ gInv)) EL E1 E3))
              + (2 : Ks.R N) ^ (x.base2k * x.size + key.base2k * key.mat.size + t.base2k * rs) * Q ∧
          ∀ c, c < t.rank → ∃ cell, cells[r * (t.rank + 1) + (c + 1)]? = some cell ∧ cell.length = t.rank + 1 ∧
            (∀ col ∈ cell, ColWF N rs col) ∧ (∀ col ∈ cell, ∀ l ∈ col, ∀ v ∈ l, |v| ≤ 2 ^ t.base2k - 1) ∧
            ∃ E3c Q3c : Poly, E3c.length = N ∧ Q3c.length = N ∧
              normInf E3c ≤ (1 + snorm (min t.rank sk.length) sk) * C02.normTol (t.base2k * rs) (t.base2k * t.size) ∧
              (2 : Ks.R N) ^ (x.base2k * x.size + key.base2k * key.mat.size + t.base2k * t.size) *
                  Ks.ι N (valP t.base2k N (phase sk (Ks.mkCt t.base2k N cell)))
                = (2 : Ks.R N) ^ (t.base2k * rs + key.base2k * key.mat.size + t.base2k * t.size) *
                    (Ks.ι N (sk.getD c []) * Ks.ι N (σ key.p (valP x.base2k N (phase sk x))))
                  + ((2 : Ks.R N) ^ (t.base2k * t.size) *
                        (Ks.ι N (sk.getD c []) * Ks.ι N (σ key.p (ksErrOf N t.base2k rs x aConv key (sk.map (σ gInv)) EL E1 E3)))
                    + (2 : Ks.R N) ^ (x.base2k * x.size + key.base2k * key.mat.size + t.base2k * rs) *
                        expandErr N sk (maskOf t y) t c ((2 : Ks.R N) ^ t.base2k) (ET c)
                    + (2 : Ks.R N) ^ (x.base2k * x.size + key.base2k * key.mat.size) * Ks.ι N E3c)
                  + (2 : Ks.R N) ^ (x.base2k * x.size + key.base2k * key.mat.size + t.base2k * rs + t.base2k * t.size) *
                      (Ks.ι N (sk.getD c []) * Q + Ks.ι N Q3c) := by
  obtain ⟨hlen, hrow⟩ := Ks.ggsw_automorphism_cells_value N big128 t.base2k rs rd rds ab ads aCol0 key t cells sk ((2 : Ks.R N) ^ t.base2k)
    (fun i => Ks.ι N (sk.getD i [])) ET hd hN hn hS hrank hMt hkeyT h
  refine ⟨hlen, ?_⟩
  intro r hr
  obtain ⟨x, y, hx, hau, hv⟩ := hrow r hr
  obtain ⟨gx, hxr, hx1, hx62, hxB, hxP, hxc1, hxc2⟩ := hrows r x hr hx
  obtain ⟨res, aConv, hok, hconv, gwR, hbR, hsR, hrR, E1, E3, Q, hE1, hE3, hn1, hn3, hmain, hbound⟩ :=
    glwe_automorphism_decrypts big128 N t.base2k rs key.rankOut x key sk gInv EL KL Hin Hp hN hg hskl hinv gx hxr rfl hc0 hD hMk hSk
      hx1 hx62 hbk1 hbk hb1 hb hIn0 hIn hxB hHp0 hAcc hxP hs hEL hKL hkey hxc1 hxc2
  -- digits of the automorphed cell
  obtain ⟨r0, hr0, hyr0⟩ := Ks.automorphism_is_ks_then_sigma big128 t.base2k rs key.rankOut x key y hau
  obtain ⟨r0', _, hok0, _, gw0, _⟩ :=
    glwe_keyswitch_decrypts big128 N t.base2k rs key.rankOut x key sk (sk.map (σ gInv)) EL KL Hin Hp hN gx hxr rfl hc0 hD hMk hSk hx1 hx62
      hbk1 hbk hb1 hb hIn0 hIn hxB hHp0 hAcc hxP hs hEL hKL hkey hxc1 hxc2
  rw [hr0] at hok0
  injection hok0 with hok0
  subst hok0
  have hdig0 := keyswitch_digits big128 N t.base2k rs key.rankOut x key sk (sk.map (σ gInv)) EL KL Hin Hp hN gx hxr rfl hc0 hD hMk hSk
    hx1 hx62 hbk1 hbk hb1 hb hIn0 hIn hxB hHp0 hAcc hxP hEL hKL hkey r0 hr0
  have hdig : ∀ c ∈ y.cols, ∀ l ∈ c, ∀ v ∈ l, |v| ≤ 2 ^ t.base2k - 1 := by
    rw [hyr0]
    exact ctMap_auto_digits N t.base2k key.p r0 hN hg gw0 hb hdig0
  rw [hau] at hok
  injection hok with hok
  subst hok
  have hyrank : y.rank = t.rank := by rw [hrR, hrout]
  have hbodymem : y.cols.getD 0 [] ∈ y.cols := col_mem 0 (by rw [gwR.len]; omega)
  have hp2 : (0 : Int) ≤ 2 ^ t.base2k := by positivity
  have hmain' : (2 : Ks.R N) ^ (x.base2k * x.size + key.base2k * key.mat.size) * Ks.ι N (valP t.base2k N (phase sk y))
      = (2 : Ks.R N) ^ (t.base2k * rs + key.base2k * key.mat.size) * Ks.ι N (σ key.p (valP x.base2k N (phase sk x)))
        + Ks.ι N (σ key.p (ksErrOf N t.base2k rs x aConv key (sk.map (σ gInv)) EL E1 E3))
        + (2 : Ks.R N) ^ (x.base2k * x.size + key.base2k * key.mat.size + t.base2k * rs) * Q := by
    have e : x.base2k * x.size + key.base2k * key.mat.size + t.base2k * rs = x.base2k * x.size + t.base2k * rs + key.base2k * key.mat.size := by
      omega
    rw [e]
    exact hmain
  refine ⟨x, y, aConv, hx, hau, hconv, hv.1, gwR, hbR, hsR, hyrank, E1, E3, Q, hE1, hE3, hn1, hn3, hbound, hmain', ?_⟩
  exact row_cells_decrypt_of_col0 N big128 rs t cells sk ET r y HpT (2 ^ t.base2k) hv hN gwR hsR hyrank hd hn hMt hrank hb1 hb hcov1 hcov2
    hHpT0 hp2 hAccT (hprodT r x y hr hx hau)
    (fun l hl v hv' => by have := hdig _ hbodymem l hl v hv'; linarith)
    (x.base2k * x.size + key.base2k * key.mat.size) (t.base2k * rs + key.base2k * key.mat.size) _ _ Q hmain'

/-! ### 4d. the GGSW well-formedness form (the `hkey` shape of the external product) -/

theorem pow_link (N b sx rs K k : Nat) (hks : k ≤ sx) (hkr : k ≤ rs) :
    (2 : Ks.R N) ^ (b * rs + K) * ((2 : Ks.R N) ^ b) ^ (sx - k) = (2 : Ks.R N) ^ (b * sx + K) * ((2 : Ks.R N) ^ b) ^ (rs - k) := by
  rw [← pow_mul, ← pow_mul, ← pow_add, ← pow_add]
  congr 1
  have e1 : b * rs + b * (sx - k) = b * sx + b * (rs - k) := by
    rw [← Nat.mul_add, ← Nat.mul_add]
    congr 1
    omega
  omega

/-- column 0: the key-switched cell of a row that encrypts `m·β^{s_x − k}` (`k = (r+1)·dsize`) encrypts `m·β^{rs − k}` -/
theorem ggsw_col0_encrypts (N b sx rs K k : Nat) (hks : k ≤ sx) (hkr : k ≤ rs) (Py Px m e Err Q : Ks.R N)
    (hrel : (2 : Ks.R N) ^ (b * sx + K) * Py = (2 : Ks.R N) ^ (b * rs + K) * Px + Err + (2 : Ks.R N) ^ (b * sx + K + b * rs) * Q)
    (hin : Px = m * ((2 : Ks.R N) ^ b) ^ (sx - k) + e) :
    (2 : Ks.R N) ^ (b * sx + K) * Py
      = (2 : Ks.R N) ^ (b * sx + K) * (m * 1 * ((2 : Ks.R N) ^ b) ^ (rs - k))
        + ((2 : Ks.R N) ^ (b * rs + K) * e + Err)
        + (2 : Ks.R N) ^ (b * sx + K) * (((2 : Ks.R N) ^ b) ^ rs * Q) := by
  have hp := pow_link N b sx rs K k hks hkr
  subst hin
  rw [hrel, pow_add _ (b * sx + K) (b * rs), ← pow_mul]
  linear_combination m * hp

/-- column `c+1`: the expanded cell encrypts `m·s_c·β^{rs − k}` — the `hkey` shape `val(φ_{c,r}) = m2·σ_c·β^{S−(r+1)·dsize} + E` of
`C04.ep_decrypts`, at the scale `2^(b·s_x + K + b·S)` and modulo the torus modulus `β^rs` of the cell -/
theorem ggsw_cell_encrypts (N b sx rs K S k : Nat) (hks : k ≤ sx) (hkr : k ≤ rs) (Pc Px sc m e Err Q : Ks.R N)
    (hrel : (2 : Ks.R N) ^ (b * sx + K + b * S) * Pc
      = (2 : Ks.R N) ^ (b * rs + K + b * S) * (sc * Px) + Err + (2 : Ks.R N) ^ (b * sx + K + b * rs + b * S) * Q)
    (hin : Px = m * ((2 : Ks.R N) ^ b) ^ (sx - k) + e) :
    (2 : Ks.R N) ^ (b * sx + K + b * S) * Pc
      = (2 : Ks.R N) ^ (b * sx + K + b * S) * (m * sc * ((2 : Ks.R N) ^ b) ^ (rs - k))
        + ((2 : Ks.R N) ^ (b * rs + K + b * S) * (sc * e) + Err)
        + (2 : Ks.R N) ^ (b * sx + K + b * S) * (((2 : Ks.R N) ^ b) ^ rs * Q) := by
  have hp := pow_link N b sx rs K k hks hkr
  subst hin
  have e1 : (2 : Ks.R N) ^ (b * sx + K + b * rs + b * S) = (2 : Ks.R N) ^ (b * sx + K) * (2 : Ks.R N) ^ (b * S) * ((2 : Ks.R N) ^ b) ^ rs := by
    rw [← pow_mul, ← pow_add, ← pow_add]
    congr 1
    omega
  rw [hrel, e1, pow_add _ (b * sx + K) (b * S), pow_add _ (b * rs + K) (b * S)]
  linear_combination (2 : Ks.R N) ^ (b * S) * sc * m * hp

/-- limb `l` of row `j` of a prepared matrix is limb `l` of every column of its cell `j` -/
theorem rowLimb_eq_cell (m : PMat) (j l : Nat) (hlen : (m.data.getD j []).length = m.colsOut) :
    Ks.rowLimb m j l = (m.data.getD j []).map (fun col => limbOr0 m.n col l) := by
  unfold Ks.rowLimb
  apply List.ext_getElem
  · rw [List.length_map, List.length_map, List.length_range, hlen]
  · intro c h1 h2
    have hc : c < m.colsOut := by simpa using h1
    simp only [List.getElem_map, List.getElem_range]
    unfold PMat.entry
    rw [Nat.mul_add_mod_of_lt hc, Nat.add_comm, Nat.add_mul_div_right _ _ (by omega), Nat.div_eq_of_lt hc, Nat.zero_add,
      List.getD_eq_getElem?_getD, List.getElem?_eq_getElem (by rw [hlen]; exact hc)]
    rfl

/-- **the bridge to the `hkey` hypothesis of `C04.ep_decrypts`**: for a prepared matrix whose cell `(r, i)` is a well-formed GLWE of `S`
limbs, `Gadget.val β S (Ks.keyPhase N sk m i r)` **is** `ι(val(phase_sk cell))` — the left-hand sides of the cell relations of
`ggsw_keyswitch_decrypts` / `ggsw_automorphism_decrypts` / `…_wellformed`. -/
theorem keyPhase_val_eq_cell_phase (N : Nat) (hN : 0 < N) (b S : Nat) (sk : List Poly) (m : PMat) (i r : Nat) (hn : m.n = N)
    (hc : 0 < m.colsOut) (hlen : (m.data.getD (r * m.colsIn + i) []).length = m.colsOut)
    (hwf : ∀ c ∈ m.data.getD (r * m.colsIn + i) [], ColWF N S c) :
    Gadget.val ((2 : Ks.R N) ^ b) S (Ks.keyPhase N sk m i r)
      = Ks.ι N (valP b N (phase sk (Ks.mkCt b N (m.data.getD (r * m.colsIn + i) [])))) := by
  rw [Core.ι_valP_phase_rows' N hN b S sk _ (by intro h; rw [h] at hlen; simp at hlen; omega) hwf]
  unfold Gadget.val Ks.keyPhase
  apply Finset.sum_congr rfl
  intro l _
  rw [rowLimb_eq_cell m _ l hlen, hn]

/-- **`ggsw_keyswitch_wellformed`** — GGSW in, GGSW out.  Hypotheses of `ggsw_keyswitch_decrypts`, operand cells in the result radix
(`x.base2k = b`, which `ggsw_keyswitch` asserts) whose column 0 encrypts the gadget message: `val(phase_{sIn} a.at(r,0)) = m·β^{s_x − (r+1)·dsize} + eIn r`
(`hop`), `rd·dsize ≤ rs`.  Then every result cell `(r, c)` satisfies, with `σ_0 = 1`, `σ_{c+1} = s_c`,
`2^A·val(phase_{skOut} cell) = 2^A·(m·σ_c·β^{rs − (r+1)·dsize}) + Err_{r,c} + 2^A·β^rs·Q` — the `hkey` relation of `C04.ep_decrypts`
(`keyPhase_val_eq_cell_phase`) at the scale `2^A`, modulo the torus modulus `β^rs`; `Err_{r,0} = 2^(b·rs+K)·eIn + ι(ksErr)`,
`Err_{r,c+1} = 2^(b·rs+K+b·S)·s_c·eIn + 2^(b·S)·s_c·ι(ksErr) + 2^(b·s_x+K+b·rs)·expandErr_c + 2^(b·s_x+K)·ι(E₃ᶜ)`. -/
theorem ggsw_keyswitch_wellformed (N : Nat) (big128 : Bool) (rs rd rds ab ads : Nat) (aCol0 : List Ks.Ct) (key : Ks.Key) (t : ToGGSWKey)
    (cells : List (List Col)) (sIn skOut : List Poly) (EL KL : ℕ → ℕ → Poly) (ET : ℕ → ℕ → ℕ → Ks.R N) (Hin Hp HpT : Int)
    (m : Ks.R N) (eIn : ℕ → Ks.R N)
    (hN : 0 < N) (hrout : t.rank = key.rankOut) (hc0 : 0 < key.mat.colsOut)
    (hD : 1 ≤ key.dsize) (hMk : ∀ j q, (key.mat.entry j q).length = N) (hSk : key.mat.rows * key.dsize ≤ key.mat.size)
    (hbk1 : 1 ≤ key.base2k) (hbk : key.base2k ≤ 62) (hs : key.mat.colsIn ≤ sIn.length)
    (hEL : ∀ i r, (EL i r).length = N) (hKL : ∀ i r, (KL i r).length = N)
    (hkey : ∀ i, i < key.mat.colsIn → ∀ r, r < key.mat.rows →
      Gadget.val (Ks.radix N key.base2k) key.mat.size (Ks.keyPhase N skOut key.mat i r) =
        Ks.ι N (sIn.getD i []) * Ks.radix N key.base2k ^ (key.mat.size - (r + 1) * key.dsize) + Ks.ι N (EL i r)
          + Ks.radix N key.base2k ^ key.mat.size * Ks.ι N (KL i r))
    (hd : 1 ≤ t.dsize) (hn : t.n = N) (hS : t.dnum * t.dsize ≤ t.size) (hrank : t.rank ≤ skOut.length)
    (hMt : ∀ c, c < t.rank → ∀ j q, ((t.at c).toPMat.entry j q).length = N) (hb1 : 1 ≤ t.base2k) (hb : t.base2k ≤ 62)
    (hkeyT : ∀ c, c < t.rank → ∀ i, i < t.rank → ∀ r, r < t.dnum →
      Gadget.val ((2 : Ks.R N) ^ t.base2k) t.size (Ks.keyPhase N skOut (t.at c).toPMat i r)
        = Ks.ι N (skOut.getD c []) * Ks.ι N (skOut.getD i []) * ((2 : Ks.R N) ^ t.base2k) ^ (t.size - (r + 1) * t.dsize) + ET c i r)
    (hcov1 : rs ≤ t.size) (hcov2 : rs ≤ t.dnum * t.dsize)
    (hIn0 : 0 ≤ Hin) (hIn : Hin + 8 ≤ 2 ^ 62) (hHp0 : 0 ≤ Hp) (hAcc : Hp + (Hin + 2 ^ key.base2k) + 8 ≤ 2 ^ (bitsOf big128 - 2))
    (hHpT0 : 0 ≤ HpT) (hAccT : HpT + 2 ^ t.base2k + 8 ≤ 2 ^ (bitsOf big128 - 2))
    (hrows : ∀ r x, r < rd → aCol0[r]? = some x → KsRowOk N key.rankOut key Hin Hp x)
    (hprodT : ∀ r x y, r < rd → aCol0[r]? = some x → Ks.keyswitch big128 t.base2k rs key.rankOut x key = .ok y →
      ∀ c, c < t.rank → ∀ col ∈ expandProd N (maskOf t y) t c, ∀ l ∈ col, ∀ v ∈ l, |v| ≤ HpT)
    (hop : ∀ r x, r < rd → aCol0[r]? = some x → x.base2k = t.base2k ∧ (r + 1) * ads ≤ x.size ∧
      Ks.ι N (valP t.base2k N (phase sIn x)) = m * ((2 : Ks.R N) ^ t.base2k) ^ (x.size - (r + 1) * ads) + eIn r)
    (hdsr : rd * ads ≤ rs)
    (h : Ks.ggswKeyswitch big128 N t.base2k rs rd rds ab ads aCol0 key t = .ok cells) :
    cells.length = rd * (t.rank + 1) ∧
      ∀ r, r < rd → ∃ x y aConv, aCol0[r]? = some x ∧ Ks.keyswitch big128 t.base2k rs key.rankOut x key = .ok y ∧
        Ks.convIn x key = .ok aConv ∧ cells[r * (t.rank + 1)]? = some y.cols ∧ GWF N y ∧ y.size = rs ∧ y.rank = t.rank ∧
        ∃ (E1 E3 : Poly) (Q : Ks.R N),
          normInf (ksErrOf N t.base2k rs x aConv key skOut EL E1 E3) ≤ ksErrBound N t.base2k rs key.rankOut x aConv key sIn skOut EL ∧
          (2 : Ks.R N) ^ (t.base2k * x.size + key.base2k * key.mat.size) * Ks.ι N (valP t.base2k N (phase skOut y))
            = (2 : Ks.R N) ^ (t.base2k * x.size + key.base2k * key.mat.size) *
                (m * 1 * ((2 : Ks.R N) ^ t.base2k) ^ (rs - (r + 1) * ads))
              + ((2 : Ks.R N) ^ (t.base2k * rs + key.base2k * key.mat.size) * eIn r
                  + Ks.ι N (ksErrOf N t.base2k rs x aConv key skOut EL E1 E3))
              + (2 : Ks.R N) ^ (t.base2k * x.size + key.base2k * key.mat.size) * (((2 : Ks.R N) ^ t.base2k) ^ rs * Q) ∧
          ∀ c, c < t.rank → ∃ cell, cells[r * (t.rank + 1) + (c + 1)]? = some cell ∧ cell.length = t.rank + 1 ∧
            (∀ col ∈ cell, ColWF N rs col) ∧ (∀ col ∈ cell, ∀ l ∈ col, ∀ v ∈ l, |v| ≤ 2 ^ t.base2k - 1) ∧
            ∃ E3c Q3c : Poly, E3c.length = N ∧ Q3c.length = N ∧
              normInf E3c ≤ (1 + snorm (min t.rank skOut.length) skOut) * C02.normTol (t.base2k * rs) (t.base2k * t.size) ∧
              (2 : Ks.R N) ^ (t.base2k * x.size + key.base2k * key.mat.size + t.base2k * t.size) *
                  Ks.ι N (valP t.base2k N (phase skOut (Ks.mkCt t.base2k N cell)))
                = (2 : Ks.R N) ^ (t.base2k * x.size + key.base2k * key.mat.size + t.base2k * t.size) *
                    (m * Ks.ι N (skOut.getD c []) * ((2 : Ks.R N) ^ t.base2k) ^ (rs - (r + 1) * ads))
                  + ((2 : Ks.R N) ^ (t.base2k * rs + key.base2k * key.mat.size + t.base2k * t.size) * (Ks.ι N (skOut.getD c []) * eIn r)
                    + ((2 : Ks.R N) ^ (t.base2k * t.size) * (Ks.ι N (skOut.getD c []) * Ks.ι N (ksErrOf N t.base2k rs x aConv key skOut EL E1 E3))
                      + (2 : Ks.R N) ^ (t.base2k * x.size + key.base2k * key.mat.size + t.base2k * rs) *
                          expandErr N skOut (maskOf t y) t c ((2 : Ks.R N) ^ t.base2k) (ET c)
                      + (2 : Ks.R N) ^ (t.base2k * x.size + key.base2k * key.mat.size) * Ks.ι N E3c))
                  + (2 : Ks.R N) ^ (t.base2k * x.size + key.base2k * key.mat.size + t.base2k * t.size) *
                      (((2 : Ks.R N) ^ t.base2k) ^ rs * (Ks.ι N (skOut.getD c []) * Q + Ks.ι N Q3c)) := by
  obtain ⟨hlen, hrow⟩ := ggsw_keyswitch_decrypts N big128 rs rd rds ab ads aCol0 key t cells sIn skOut EL KL ET Hin Hp HpT hN hrout hc0 hD hMk
    hSk hbk1 hbk hs hEL hKL hkey hd hn hS hrank hMt hb1 hb hkeyT hcov1 hcov2 hIn0 hIn hHp0 hAcc hHpT0 hAccT hrows hprodT h
  refine ⟨hlen, ?_⟩
  intro r hr
  obtain ⟨x, y, aConv, hx, hks, hconv, hc0', gwY, _, hys, hyr, E1, E3, Q, _, _, _, _, hbnd, hmain, hcells⟩ := hrow r hr
  obtain ⟨hxb, hk1, hin⟩ := hop r x hr hx
  have hk2 : (r + 1) * ads ≤ rs := le_trans (Nat.mul_le_mul_right _ (by omega)) hdsr
  simp only [hxb] at hmain hcells
  refine ⟨x, y, aConv, hx, hks, hconv, hc0', gwY, hys, hyr, E1, E3, Q, hbnd, ?_, ?_⟩
  · exact ggsw_col0_encrypts N t.base2k x.size rs (key.base2k * key.mat.size) ((r + 1) * ads) hk1 hk2 _ _ m (eIn r) _ Q hmain hin
  · intro c hc
    obtain ⟨cell, h1, h2, h3, h4, E3c, Q3c, h5, h6, h7, hrel⟩ := hcells c hc
    exact ⟨cell, h1, h2, h3, h4, E3c, Q3c, h5, h6, h7,
      ggsw_cell_encrypts N t.base2k x.size rs (key.base2k * key.mat.size) t.size ((r + 1) * ads) hk1 hk2 _ _ _ m (eIn r) _ _ hrel hin⟩

open AutoMul in
/-- **`ggsw_automorphism_wellformed`** — GGSW in, GGSW out, for `ggsw_automorphism`: if the operand's column-0 cells encrypt
`m·β^{s_x − (r+1)·dsize} + eIn r` under `sk`, every result cell `(r, c)` encrypts `σ_g(m)·σ_c·β^{rs − (r+1)·dsize}` under `sk`
(`σ_g = gal N key.p`, the Galois image; `σ_0 = 1`, `σ_{c+1} = s_c`), in the `hkey` shape of `C04.ep_decrypts` at the scale `2^A`, modulo `β^rs`. -/
theorem ggsw_automorphism_wellformed (N : Nat) (big128 : Bool) (rs rd rds ab ads : Nat) (aCol0 : List Ks.Ct) (key : Ks.Key) (t : ToGGSWKey)
    (cells : List (List Col)) (sk : List Poly) (gInv : Int) (EL KL : ℕ → ℕ → Poly) (ET : ℕ → ℕ → ℕ → Ks.R N) (Hin Hp HpT : Int)
    (m : Ks.R N) (eIn : ℕ → Ks.R N)
    (hN : 0 < N) (hg : GalOk key.p N) (hskl : Ks.AllLen N sk) (hinv : ∀ s ∈ sk, σ key.p (σ gInv s) = s)
    (hrout : t.rank = key.rankOut) (hc0 : 0 < key.mat.colsOut)
    (hD : 1 ≤ key.dsize) (hMk : ∀ j q, (key.mat.entry j q).length = N) (hSk : key.mat.rows * key.dsize ≤ key.mat.size)
    (hbk1 : 1 ≤ key.base2k) (hbk : key.base2k ≤ 62) (hs : key.mat.colsIn ≤ sk.length)
    (hEL : ∀ i r, (EL i r).length = N) (hKL : ∀ i r, (KL i r).length = N)
    (hkey : ∀ i, i < key.mat.colsIn → ∀ r, r < key.mat.rows →
      Gadget.val (Ks.radix N key.base2k) key.mat.size (Ks.keyPhase N (sk.map (σ gInv)) key.mat i r) =
        Ks.ι N (sk.getD i []) * Ks.radix N key.base2k ^ (key.mat.size - (r + 1) * key.dsize) + Ks.ι N (EL i r)
          + Ks.radix N key.base2k ^ key.mat.size * Ks.ι N (KL i r))
    (hd : 1 ≤ t.dsize) (hn : t.n = N) (hS : t.dnum * t.dsize ≤ t.size) (hrank : t.rank ≤ sk.length)
    (hMt : ∀ c, c < t.rank → ∀ j q, ((t.at c).toPMat.entry j q).length = N) (hb1 : 1 ≤ t.base2k) (hb : t.base2k ≤ 62)
    (hkeyT : ∀ c, c < t.rank → ∀ i, i < t.rank → ∀ r, r < t.dnum →
      Gadget.val ((2 : Ks.R N) ^ t.base2k) t.size (Ks.keyPhase N sk (t.at c).toPMat i r)
        = Ks.ι N (sk.getD c []) * Ks.ι N (sk.getD i []) * ((2 : Ks.R N) ^ t.base2k) ^ (t.size - (r + 1) * t.dsize) + ET c i r)
    (hcov1 : rs ≤ t.size) (hcov2 : rs ≤ t.dnum * t.dsize)
    (hIn0 : 0 ≤ Hin) (hIn : Hin + 8 ≤ 2 ^ 62) (hHp0 : 0 ≤ Hp) (hAcc : Hp + (Hin + 2 ^ key.base2k) + 8 ≤ 2 ^ (bitsOf big128 - 2))
    (hHpT0 : 0 ≤ HpT) (hAccT : HpT + 2 ^ t.base2k + 8 ≤ 2 ^ (bitsOf big128 - 2))
    (hrows : ∀ r x, r < rd → aCol0[r]? = some x → KsRowOk N key.rankOut key Hin Hp x)
    (hprodT : ∀ r x y, r < rd → aCol0[r]? = some x → Ks.automorphism big128 t.base2k rs key.rankOut x key = .ok y →
      ∀ c, c < t.rank → ∀ col ∈ expandProd N (maskOf t y) t c, ∀ l ∈ col, ∀ v ∈ l, |v| ≤ HpT)
    (hop : ∀ r x, r < rd → aCol0[r]? = some x → x.base2k = t.base2k ∧ (r + 1) * ads ≤ x.size ∧
      Ks.ι N (valP t.base2k N (phase sk x)) = m * ((2 : Ks.R N) ^ t.base2k) ^ (x.size - (r + 1) * ads) + eIn r)
    (hdsr : rd * ads ≤ rs)
    (h : Ks.ggswAutomorphism big128 N t.base2k rs rd rds ab ads aCol0 key t = .ok cells) :
    cells.length = rd * (t.rank + 1) ∧
      ∀ r, r < rd → ∃ x y aConv, aCol0[r]? = some x ∧ Ks.automorphism big128 t.base2k rs key.rankOut x key = .ok y ∧
        Ks.convIn x key = .ok aConv ∧ cells[r * (t.rank + 1)]? = some y.cols ∧ GWF N y ∧ y.size = rs ∧ y.rank = t.rank ∧
        ∃ (E1 E3 : Poly) (Q : Ks.R N),
          normInf (σ key.p (ksErrOf N t.base2k rs x aConv key (sk.map (σ gInv)) EL E1 E3))
            ≤ ksErrBound N t.base2k rs key.rankOut x aConv key sk (sk.map (σ gInv)) EL ∧
          (2 : Ks.R N) ^ (t.base2k * x.size + key.base2k * key.mat.size) * Ks.ι N (valP t.base2k N (phase sk y))
            = (2 : Ks.R N) ^ (t.base2k * x.size + key.base2k * key.mat.size) *
                (gal N key.p hN hg m * 1 * ((2 : Ks.R N) ^ t.base2k) ^ (rs - (r + 1) * ads))
              + ((2 : Ks.R N) ^ (t.base2k * rs + key.base2k * key.mat.size) * gal N key.p hN hg (eIn r)
                  + Ks.ι N (σ key.p (ksErrOf N t.base2k rs x aConv key (sk.map (σ gInv)) EL E1 E3)))
              + (2 : Ks.R N) ^ (t.base2k * x.size + key.base2k * key.mat.size) * (((2 : Ks.R N) ^ t.base2k) ^ rs * Q) ∧
          ∀ c, c < t.rank → ∃ cell, cells[r * (t.rank + 1) + (c + 1)]? = some cell ∧ cell.length = t.rank + 1 ∧
            (∀ col ∈ cell, ColWF N rs col) ∧ (∀ col ∈ cell, ∀ l ∈ col, ∀ v ∈ l, |v| ≤ 2 ^ t.base2k - 1) ∧
            ∃ E3c Q3c : Poly, E3c.length = N ∧ Q3c.length = N ∧
              normInf E3c ≤ (1 + snorm (min t.rank sk.length) sk) * C02.normTol (t.base2k * rs) (t.base2k * t.size) ∧
              (2 : Ks.R N) ^ (t.base2k * x.size + key.base2k * key.mat.size + t.base2k * t.size) *
                  Ks.ι N (valP t.base2k N (phase sk (Ks.mkCt t.base2k N cell)))
                = (2 : Ks.R N) ^ (t.base2k * x.size + key.base2k * key.mat.size + t.base2k * t.size) *
                    (gal N key.p hN hg m * Ks.ι N (sk.getD c []) * ((2 : Ks.R N) ^ t.base2k) ^ (rs - (r + 1) * ads))
                  + ((2 : Ks.R N) ^ (t.base2k * rs + key.base2k * key.mat.size + t.base2k * t.size) *
                        (Ks.ι N (sk.getD c []) * gal N key.p hN hg (eIn r))
                    + ((2 : Ks.R N) ^ (t.base2k * t.size) *
                          (Ks.ι N (sk.getD c []) * Ks.ι N (σ key.p (ksErrOf N t.base2k rs x aConv key (sk.map (σ gInv)) EL E1 E3)))
                      + (2 : Ks.R N) ^ (t.base2k * x.size + key.base2k * key.mat.size + t.base2k * rs) *
                          expandErr N sk (maskOf t y) t c ((2 : Ks.R N) ^ t.base2k) (ET c)
                      + (2 : Ks.R N) ^ (t.base2k * x.size + key.base2k * key.mat.size) * Ks.ι N E3c))
                  + (2 : Ks.R N) ^ (t.base2k * x.size + key.base2k * key.mat.size + t.base2k * t.size) *
                      (((2 : Ks.R N) ^ t.base2k) ^ rs * (Ks.ι N (sk.getD c []) * Q + Ks.ι N Q3c)) := by
  obtain ⟨hlen, hrow⟩ := ggsw_automorphism_decrypts N big128 rs rd rds ab ads aCol0 key t cells sk gInv EL KL ET Hin Hp HpT hN hg hskl hinv
    hrout hc0 hD hMk hSk hbk1 hbk hs hEL hKL hkey hd hn hS hrank hMt hb1 hb hkeyT hcov1 hcov2 hIn0 hIn hHp0 hAcc hHpT0 hAccT hrows hprodT h
  refine ⟨hlen, ?_⟩
  intro r hr
  obtain ⟨x, y, aConv, hx, hks, hconv, hc0', gwY, _, hys, hyr, E1, E3, Q, _, _, _, _, hbnd, hmain, hcells⟩ := hrow r hr
  obtain ⟨hxb, hk1, hin⟩ := hop r x hr hx
  have hk2 : (r + 1) * ads ≤ rs := le_trans (Nat.mul_le_mul_right _ (by omega)) hdsr
  simp only [hxb] at hmain hcells
  have hin' : Ks.ι N (σ key.p (valP t.base2k N (phase sk x)))
      = gal N key.p hN hg m * ((2 : Ks.R N) ^ t.base2k) ^ (x.size - (r + 1) * ads) + gal N key.p hN hg (eIn r) := by
    rw [ι_σ N key.p hN hg _ (by simp), hin, map_add, map_mul, map_pow, map_pow, map_ofNat]
  refine ⟨x, y, aConv, hx, hks, hconv, hc0', gwY, hys, hyr, E1, E3, Q, hbnd, ?_, ?_⟩
  · exact ggsw_col0_encrypts N t.base2k x.size rs (key.base2k * key.mat.size) ((r + 1) * ads) hk1 hk2 _ _ _ _ _ Q hmain hin'
  · intro c hc
    obtain ⟨cell, h1, h2, h3, h4, E3c, Q3c, h5, h6, h7, hrel⟩ := hcells c hc
    exact ⟨cell, h1, h2, h3, h4, E3c, Q3c, h5, h6, h7,
      ggsw_cell_encrypts N t.base2k x.size rs (key.base2k * key.mat.size) t.size ((r + 1) * ads) hk1 hk2 _ _ _ _ _ _ _ hrel hin'⟩

/-! ### 4e. the in-place form `ggsw_keyswitch_assign` -/

/-- **`ggsw_keyswitch_assign_decrypts`** — the executed `Ks.ggswKeyswitchAssign` (`ggsw_keyswitch_assign`, non-empty `res`): every row `x` of
`res` is key-switched in place (`rank_in = rank_out`, result layout = layout of `x`), the expansion runs at the layout of row 0; all rows in
the radix of the tensor key and of the limb count of row 0.  Same conclusion as `ggsw_keyswitch_decrypts` with `rs = x0.size`. -/
theorem ggsw_keyswitch_assign_decrypts (N : Nat) (big128 : Bool) (x0 : Ks.Ct) (xs : List Ks.Ct) (key : Ks.Key) (t : ToGGSWKey)
    (cells : List (List Col)) (sIn skOut : List Poly) (EL KL : ℕ → ℕ → Poly) (ET : ℕ → ℕ → ℕ → Ks.R N) (Hin Hp HpT : Int)
    (hN : 0 < N) (hrout : t.rank = key.rankOut) (hc0 : 0 < key.mat.colsOut)
    (hD : 1 ≤ key.dsize) (hMk : ∀ j q, (key.mat.entry j q).length = N) (hSk : key.mat.rows * key.dsize ≤ key.mat.size)
    (hbk1 : 1 ≤ key.base2k) (hbk : key.base2k ≤ 62) (hs : key.mat.colsIn ≤ sIn.length)
    (hEL : ∀ i r, (EL i r).length = N) (hKL : ∀ i r, (KL i r).length = N)
    (hkey : ∀ i, i < key.mat.colsIn → ∀ r, r < key.mat.rows →
      Gadget.val (Ks.radix N key.base2k) key.mat.size (Ks.keyPhase N skOut key.mat i r) =
        Ks.ι N (sIn.getD i []) * Ks.radix N key.base2k ^ (key.mat.size - (r + 1) * key.dsize) + Ks.ι N (EL i r)
          + Ks.radix N key.base2k ^ key.mat.size * Ks.ι N (KL i r))
    (hd : 1 ≤ t.dsize) (hn : t.n = N) (hS : t.dnum * t.dsize ≤ t.size) (hrank : t.rank ≤ skOut.length)
    (hMt : ∀ c, c < t.rank → ∀ j q, ((t.at c).toPMat.entry j q).length = N) (hb1 : 1 ≤ t.base2k) (hb : t.base2k ≤ 62)
    (hkeyT : ∀ c, c < t.rank → ∀ i, i < t.rank → ∀ r, r < t.dnum →
      Gadget.val ((2 : Ks.R N) ^ t.base2k) t.size (Ks.keyPhase N skOut (t.at c).toPMat i r)
        = Ks.ι N (skOut.getD c []) * Ks.ι N (skOut.getD i []) * ((2 : Ks.R N) ^ t.base2k) ^ (t.size - (r + 1) * t.dsize) + ET c i r)
    (hcov1 : x0.size ≤ t.size) (hcov2 : x0.size ≤ t.dnum * t.dsize)
    (hIn0 : 0 ≤ Hin) (hIn : Hin + 8 ≤ 2 ^ 62) (hHp0 : 0 ≤ Hp) (hAcc : Hp + (Hin + 2 ^ key.base2k) + 8 ≤ 2 ^ (bitsOf big128 - 2))
    (hHpT0 : 0 ≤ HpT) (hAccT : HpT + 2 ^ t.base2k + 8 ≤ 2 ^ (bitsOf big128 - 2))
    (hrows : ∀ (r : Nat) (x : Ks.Ct), (x0 :: xs)[r]? = some x →
      KsRowOk N x.rank key Hin Hp x ∧ x.rank = key.rankOut ∧ x.base2k = t.base2k ∧ x.size = x0.size)
    (hprodT : ∀ (r : Nat) (x y : Ks.Ct), (x0 :: xs)[r]? = some x → Ks.keyswitch big128 x.base2k x.size x.rank x key = .ok y →
      ∀ c, c < t.rank → ∀ col ∈ expandProd N (maskOf t y) t c, ∀ l ∈ col, ∀ v ∈ l, |v| ≤ HpT)
    (h : Ks.ggswKeyswitchAssign big128 N (x0 :: xs) key t = .ok cells) :
    cells.length = (x0 :: xs).length * (t.rank + 1) ∧
      ∀ (r : Nat) (x : Ks.Ct), (x0 :: xs)[r]? = some x → ∃ y aConv, Ks.keyswitch big128 x.base2k x.size x.rank x key = .ok y ∧
        Ks.convIn x key = .ok aConv ∧ cells[r * (t.rank + 1)]? = some y.cols ∧
        GWF N y ∧ y.base2k = t.base2k ∧ y.size = x0.size ∧ y.rank = t.rank ∧
        ∃ (E1 E3 : Poly) (Q : Ks.R N), E1.length = N ∧ E3.length = N ∧
          normInf (ksErrOf N x.base2k x.size x aConv key skOut EL E1 E3) ≤ ksErrBound N x.base2k x.size x.rank x aConv key sIn skOut EL ∧
          (2 : Ks.R N) ^ (t.base2k * x0.size + key.base2k * key.mat.size) * Ks.ι N (valP t.base2k N (phase skOut y))
            = (2 : Ks.R N) ^ (t.base2k * x0.size + key.base2k * key.mat.size) * Ks.ι N (valP t.base2k N (phase sIn x))
              + Ks.ι N (ksErrOf N x.base2k x.size x aConv key skOut EL E1 E3)
              + (2 : Ks.R N) ^ (t.base2k * x0.size + key.base2k * key.mat.size + t.base2k * x0.size) * Q ∧
          ∀ c, c < t.rank → ∃ cell, cells[r * (t.rank + 1) + (c + 1)]? = some cell ∧ cell.length = t.rank + 1 ∧
            (∀ col ∈ cell, ColWF N x0.size col) ∧ (∀ col ∈ cell, ∀ l ∈ col, ∀ v ∈ l, |v| ≤ 2 ^ t.base2k - 1) ∧
            ∃ E3c Q3c : Poly, E3c.length = N ∧ Q3c.length = N ∧
              normInf E3c ≤ (1 + snorm (min t.rank skOut.length) skOut) * C02.normTol (t.base2k * x0.size) (t.base2k * t.size) ∧
              (2 : Ks.R N) ^ (t.base2k * x0.size + key.base2k * key.mat.size + t.base2k * t.size) *
                  Ks.ι N (valP t.base2k N (phase skOut (Ks.mkCt t.base2k N cell)))
                = (2 : Ks.R N) ^ (t.base2k * x0.size + key.base2k * key.mat.size + t.base2k * t.size) *
                    (Ks.ι N (skOut.getD c []) * Ks.ι N (valP t.base2k N (phase sIn x)))
                  + ((2 : Ks.R N) ^ (t.base2k * t.size) *
                        (Ks.ι N (skOut.getD c []) * Ks.ι N (ksErrOf N x.base2k x.size x aConv key skOut EL E1 E3))
                    + (2 : Ks.R N) ^ (t.base2k * x0.size + key.base2k * key.mat.size + t.base2k * x0.size) *
                        expandErr N skOut (maskOf t y) t c ((2 : Ks.R N) ^ t.base2k) (ET c)
                    + (2 : Ks.R N) ^ (t.base2k * x0.size + key.base2k * key.mat.size) * Ks.ι N E3c)
                  + (2 : Ks.R N) ^ (t.base2k * x0.size + key.base2k * key.mat.size + t.base2k * x0.size + t.base2k * t.size) *
                      (Ks.ι N (skOut.getD c []) * Q + Ks.ι N Q3c) := by
  obtain ⟨hlen, hrow⟩ := Ks.ggsw_keyswitch_assign_cells_value N big128 x0 xs key t cells skOut ((2 : Ks.R N) ^ t.base2k)
    (fun i => Ks.ι N (skOut.getD i [])) ET hd hN hn hS hrank hMt hkeyT h
  refine ⟨hlen, ?_⟩
  intro r x hx
  obtain ⟨y, hks, hv⟩ := hrow r x hx
  obtain ⟨_, hx0b, _⟩ := (hrows 0 x0 rfl).2
  rw [hx0b] at hv
  obtain ⟨⟨gx, hxr, hx1, hx62, hxB, hxP, hxc1, hxc2⟩, hxro, hxb, hxs⟩ := hrows r x hx
  obtain ⟨res, aConv, hok, hconv, gwR, hbR, hsR, hrR, E1, E3, Q, hE1, hE3, hn1, hn3, hmain, hbound⟩ :=
    glwe_keyswitch_decrypts big128 N x.base2k x.size x.rank x key sIn skOut EL KL Hin Hp hN gx hxr hxro hc0 hD hMk hSk hx1 hx62 hbk1 hbk
      hx1 hx62 hIn0 hIn hxB hHp0 hAcc hxP hs hEL hKL hkey hxc1 hxc2
  have hdig := keyswitch_digits big128 N x.base2k x.size x.rank x key sIn skOut EL KL Hin Hp hN gx hxr hxro hc0 hD hMk hSk hx1 hx62
    hbk1 hbk hx1 hx62 hIn0 hIn hxB hHp0 hAcc hxP hEL hKL hkey res hok
  rw [hks] at hok
  injection hok with hok
  subst hok
  have hyrank : y.rank = t.rank := by rw [hrR, hxro, hrout]
  have hbodymem : y.cols.getD 0 [] ∈ y.cols := col_mem 0 (by rw [gwR.len]; omega)
  have hp2 : (0 : Int) ≤ 2 ^ t.base2k := by positivity
  have hmain' : (2 : Ks.R N) ^ (t.base2k * x0.size + key.base2k * key.mat.size) * Ks.ι N (valP t.base2k N (phase skOut y))
      = (2 : Ks.R N) ^ (t.base2k * x0.size + key.base2k * key.mat.size) * Ks.ι N (valP t.base2k N (phase sIn x))
        + Ks.ι N (ksErrOf N x.base2k x.size x aConv key skOut EL E1 E3)
        + (2 : Ks.R N) ^ (t.base2k * x0.size + key.base2k * key.mat.size + t.base2k * x0.size) * Q := by
    have e : t.base2k * x0.size + key.base2k * key.mat.size + t.base2k * x0.size
        = x.base2k * x.size + x.base2k * x.size + key.base2k * key.mat.size := by
      rw [hxb, hxs]; omega
    rw [e, ← hxb, ← hxs]
    exact hmain
  have hdig' : ∀ l ∈ y.cols.getD 0 [], ∀ v ∈ l, |v| ≤ 2 ^ t.base2k := by
    intro l hl v hv'
    have := hdig _ hbodymem l hl v hv'
    rw [hxb] at this
    linarith
  refine ⟨y, aConv, hks, hconv, hv.1, gwR, hbR.trans hxb, hsR.trans hxs, hyrank, E1, E3, Q, hE1, hE3, hbound, hmain', ?_⟩
  exact row_cells_decrypt_of_col0 N big128 x0.size t cells skOut ET r y HpT (2 ^ t.base2k) hv hN gwR (hsR.trans hxs) hyrank hd hn hMt hrank
    hb1 hb hcov1 hcov2 hHpT0 hp2 hAccT (hprodT r x y hx hks) hdig'
    (t.base2k * x0.size + key.base2k * key.mat.size) (t.base2k * x0.size + key.base2k * key.mat.size) _ _ Q hmain'

/-! ### 5. closed instance: `N = 1`, rank 1, the `dsize = 2` tensor key `Ks.exT'`, a one-row GGSW, both accumulator widths -/

/-- a rank-1 → rank-1 key-switch key (radix `2^4`, one row, one limb): body `[1]`, mask `[1]` -/
def exGKs : Ks.Key := ⟨4, 1, 1, ⟨1, 1, 1, 2, 1, [[[[1]], [[1]]]]⟩⟩

/-- the column-0 cell of the one-row operand: body `[2]`, mask `[1]` -/
def exGX : Ks.Ct := Ks.mkCt 4 1 [[[2]], [[1]]]

/-- the key error of `exGKs`, *defined* by the key equation for the input secret `[[1]]` under the output secret `[[1]]` -/
def exGEL : ℕ → ℕ → Poly := Ks.keyErrL 1 4 [[1]] exGKs (fun _ => [1])

/-- the tensor-key error of `Ks.exT'`, defined by its key equation under `[[1]]` -/
noncomputable def exGET : ℕ → ℕ → ℕ → Ks.R 1 := fun c i r =>
  Gadget.val ((2 : Ks.R 1) ^ Ks.exT'.base2k) Ks.exT'.size (Ks.keyPhase 1 [[1]] (Ks.exT'.at c).toPMat i r)
    - Ks.ι 1 (([[1]] : List Poly).getD c []) * Ks.ι 1 (([[1]] : List Poly).getD i []) *
        ((2 : Ks.R 1) ^ Ks.exT'.base2k) ^ (Ks.exT'.size - (r + 1) * Ks.exT'.dsize)

/-- the executed `ggsw_keyswitch` of the one-row GGSW `[exGX]` (`res`: radix `2^4`, 2 limbs, `dnum = 1`, `dsize = 1`) returns two cells, and
cell `(0, 1)` encrypts `m·s_0·β^{2−1}` for every decomposition `val(phase exGX) = m·β^{1−1} + eIn` of the operand — every hypothesis of
`ggsw_keyswitch_wellformed` discharged by evaluation. -/
example (big128 : Bool) (m : Ks.R 1) :
    ∃ cells, Ks.ggswKeyswitch big128 1 Ks.exT'.base2k 2 1 1 4 1 [exGX] exGKs Ks.exT' = .ok cells ∧ cells.length = 2 ∧
      ∃ cell, cells[1]? = some cell ∧ ∃ Err Q : Ks.R 1,
        (2 : Ks.R 1) ^ (Ks.exT'.base2k * exGX.size + exGKs.base2k * exGKs.mat.size + Ks.exT'.base2k * Ks.exT'.size) *
            Ks.ι 1 (valP Ks.exT'.base2k 1 (phase [[1]] (Ks.mkCt Ks.exT'.base2k 1 cell)))
          = (2 : Ks.R 1) ^ (Ks.exT'.base2k * exGX.size + exGKs.base2k * exGKs.mat.size + Ks.exT'.base2k * Ks.exT'.size) *
              (m * Ks.ι 1 (([[1]] : List Poly).getD 0 []) * ((2 : Ks.R 1) ^ Ks.exT'.base2k) ^ (2 - (0 + 1) * 1))
            + Err
            + (2 : Ks.R 1) ^ (Ks.exT'.base2k * exGX.size + exGKs.base2k * exGKs.mat.size + Ks.exT'.base2k * Ks.exT'.size) *
                (((2 : Ks.R 1) ^ Ks.exT'.base2k) ^ 2 * Q) := by
  have hMk := Ks.entry_length exGKs.mat 1 rfl (by decide)
  have hz : Ks.ι 1 [0] = 0 := Ks.ι_zero 1 1
  have hconv : Ks.convIn exGX exGKs = .ok exGX := rfl
  have hksv : Ks.keyswitch big128 Ks.exT'.base2k 2 exGKs.rankOut exGX exGKs = .ok (Ks.mkCt 4 1 [[[3], [0]], [[1], [0]]]) := by
    cases big128 <;> decide +kernel
  have hrun : Ks.ggswKeyswitch big128 1 Ks.exT'.base2k 2 1 1 4 1 [exGX] exGKs Ks.exT'
      = .ok [[[[3], [0]], [[1], [0]]], [[[0], [0]], [[4], [0]]]] := by
    cases big128 <;> decide +kernel
  have hone : ∀ (r : Nat) (x : Ks.Ct), r < 1 → ([exGX] : List Ks.Ct)[r]? = some x → r = 0 ∧ x = exGX := by
    intro r x hr hx
    have hr0 : r = 0 := by omega
    subst hr0
    simp at hx
    exact ⟨rfl, hx.symm⟩
  obtain ⟨hlen, hrow⟩ := ggsw_keyswitch_wellformed 1 big128 2 1 1 4 1 [exGX] exGKs Ks.exT' _ [[1]] [[1]] exGEL (fun _ _ => [0]) exGET 2 1 1 m
    (fun r => Ks.ι 1 (valP Ks.exT'.base2k 1 (phase [[1]] exGX)) - m * ((2 : Ks.R 1) ^ Ks.exT'.base2k) ^ (exGX.size - (r + 1) * 1))
    (by decide) rfl (by decide) (by decide) hMk (by decide) (by decide) (by decide) (by decide)
    (fun i r => Ks.keyErrL_length 1 4 [[1]] exGKs _ i r (by decide) hMk (fun _ => rfl)) (fun _ _ => rfl)
    (by
      intro i hi r _
      have hi0 : i = 0 := by have : i < 1 := hi; omega
      subst hi0
      have h := Ks.keyErrL_spec 1 4 [[1]] exGKs (fun _ => [1]) 0 r (by decide) hMk (fun _ => rfl)
      rw [hz, mul_zero, add_zero]
      exact h)
    (by decide) rfl (by decide) (by decide)
    (fun c _ => Ks.entry_length (Ks.exT'.at c).toPMat 1 rfl (by
      intro row hrow
      have hc : (Ks.exT'.at c).toPMat.data = Ks.exT'.keys.getD c [] := rfl
      rw [hc] at hrow
      match c with
      | 0 => exact (by decide : ∀ row ∈ Ks.exT'.keys.getD 0 [], ∀ col ∈ row, ∀ p ∈ col, p.length = 1) row hrow
      | c + 1 => simp [Ks.exT'] at hrow))
    (by decide) (by decide)
    (by intro c _ i _ r _; exact (add_sub_cancel _ _).symm)
    (by decide) (by decide)
    (by norm_num) (by norm_num) (by norm_num)
    (by cases big128 <;> (show (1 : ℤ) + (2 + 2 ^ 4) + 8 ≤ _; norm_num [bitsOf]))
    (by norm_num)
    (by cases big128 <;> (show (1 : ℤ) + 2 ^ 4 + 8 ≤ _; norm_num [bitsOf]))
    (by
      intro r x hr hx
      obtain ⟨_, rfl⟩ := hone r x hr hx
      refine ⟨by decide, rfl, by decide, by decide, ?_, ?_, by decide, by decide⟩
      · intro c hc l hl v hv; revert v l c; decide
      · intro aConv h i hi l hl v hv
        rw [hconv] at h
        injection h with h
        subst h
        have key : ∀ i, i < exGKs.rankOut + 1 → ∀ l ∈ (prodOf exGKs.rankOut exGX exGKs).act i, ∀ v ∈ l, |v| ≤ 1 := by decide
        exact key i hi l hl v hv)
    (by
      intro r x y hr hx hy
      obtain ⟨_, rfl⟩ := hone r x hr hx
      have e := hksv.symm.trans hy
      injection e with e
      subst e
      decide)
    (by
      intro r x hr hx
      obtain ⟨rfl, rfl⟩ := hone r x hr hx
      exact ⟨rfl, by decide, (add_sub_cancel _ _).symm⟩)
    (by decide) hrun
  obtain ⟨x, y, aConv, hx, _, _, _, _, _, _, E1, E3, Q, _, _, hcells⟩ := hrow 0 (by decide)
  obtain ⟨_, rfl⟩ := hone 0 x (by decide) hx
  obtain ⟨cell, hidx, _, _, _, E3c, Q3c, _, _, _, hrel⟩ := hcells 0 (by decide)
  exact ⟨_, hrun, hlen, cell, hidx, _, _, hrel⟩

end KsDec
