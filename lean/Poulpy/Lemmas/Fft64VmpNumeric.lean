import Poulpy.Lemmas.Fft64AvxAgree
import Mathlib.Tactic.IntervalCases

open Complex

namespace Fft64
open F64

theorem errB_mono (γ : ℝ) (hγ : 0 ≤ γ) (k : Nat) (A E E' : ℝ) (h : E ≤ E') : errB γ k A E ≤ errB γ k A E' := by
  unfold errB
  have h1 : (0:ℝ) ≤ (1 + γ / 2) ^ k := by positivity
  have h2 : (0:ℝ) ≤ 2 ^ k := by positivity
  have : (1 + γ / 2) ^ k * (A + E) ≤ (1 + γ / 2) ^ k * (A + E') := mul_le_mul_of_nonneg_left (by linarith) h1
  exact mul_le_mul_of_nonneg_left (by linarith) h2

theorem errB_div (γ : ℝ) (k : Nat) (A E : ℝ) : errB γ k A E / 2 ^ k = (1 + γ / 2) ^ k * (A + E) - A := by
  have h : (2:ℝ) ^ k ≠ 0 := by positivity
  unfold errB; rw [mul_div_cancel_left₀ _ h]

theorem accIter_fst_ge (ep ap : ℝ) (hep : 0 ≤ ep) (hap : 0 ≤ ap) : ∀ (r : Nat) (x : ℝ × ℝ), 0 ≤ x.1 → 0 ≤ x.2 →
    x.1 ≤ (accIter ep ap r x).1 := by
  intro r
  induction r with
  | zero => intro x _ _; exact le_rfl
  | succ r ih =>
    intro x h1 h2
    obtain ⟨s1, s2, _⟩ := accStep_mono ep ap hep hap x h1 h2
    have := ih (accStep ep ap x) s1 s2
    have hst : x.1 ≤ (accStep ep ap x).1 := by
      unfold accStep; simp only
      have hu := u_pos
      have : 0 ≤ u * ((x.2 + x.1) + (ap + ep)) := by positivity
      linarith
    exact le_trans hst this

theorem accIter_ge_ep (ep ap : ℝ) (hep : 0 ≤ ep) (hap : 0 ≤ ap) (R : Nat) (hR : 1 ≤ R) : ep ≤ (accIter ep ap R (0, 0)).1 := by
  obtain ⟨r, rfl⟩ : ∃ r, R = r + 1 := ⟨R - 1, by omega⟩
  have hu := u_pos
  have h0 : ep ≤ (accStep ep ap (0, 0)).1 := by
    unfold accStep; simp only
    have : 0 ≤ u * ((0 + 0) + (ap + ep)) := by positivity
    linarith
  obtain ⟨s1, s2, _⟩ := accStep_mono ep ap hep hap (0, 0) le_rfl le_rfl
  exact le_trans h0 (accIter_fst_ge ep ap hep hap r _ s1 s2)

/-- what the main inequality of a domain predicate already implies about its side conditions -/
theorem side_from_main (K : Nat) (τ A E : ℝ) (hτ0 : 0 ≤ τ) (hA : (4:ℝ) ^ K ≤ A) (hE : 0 ≤ E)
    (hmain : errB (γi τ) K A E / 2 ^ K * (1 + u) + u * A + η < 1 / 2) :
    E < 1 / 2 ∧ A < (2:ℝ) ^ (52:Nat) ∧ 2 ^ K * (1 + γi τ / 2) ^ K * (A + E) ≤ (2:ℝ) ^ (105:Nat) := by
  have hu := u_pos
  have hη := η_pos
  have hγ := γi_nonneg τ hτ0
  set g := (1 + γi τ / 2) ^ K with hg
  have hg1 : 1 ≤ g := one_le_pow₀ (by linarith)
  have hQ1 : (1:ℝ) ≤ 4 ^ K := one_le_pow₀ (by norm_num)
  have hA1 : 1 ≤ A := le_trans hQ1 hA
  rw [errB_div] at hmain
  have hAE : 0 ≤ A + E := by linarith
  have h1 : A + E ≤ g * (A + E) := le_mul_of_one_le_left hAE hg1
  have hd0 : 0 ≤ g * (A + E) - A := by linarith
  have hd : g * (A + E) - A ≤ (g * (A + E) - A) * (1 + u) := le_mul_of_one_le_right hd0 (by linarith)
  have huA : 0 ≤ u * A := by positivity
  have hE12 : E < 1 / 2 := by linarith
  have hA52 : A < (2:ℝ) ^ (52:Nat) := by
    have : u * A < 1 / 2 := by
      have : 0 ≤ (g * (A + E) - A) * (1 + u) := by positivity
      linarith
    have hu53 : u = 1 / (2:ℝ) ^ (53:Nat) := by unfold u; rw [zpow_neg, one_div]; norm_num
    rw [hu53] at this
    have h53 : (0:ℝ) < (2:ℝ) ^ (53:Nat) := by positivity
    have e : 1 / (2:ℝ) ^ (53:Nat) * A = A / (2:ℝ) ^ (53:Nat) := by ring
    rw [e, div_lt_iff₀ h53] at this
    norm_num at this ⊢; linarith
  refine ⟨hE12, hA52, ?_⟩
  have hgA : g * (A + E) ≤ 2 * A := by linarith
  have h2K : (2:ℝ) ^ K ≤ A := le_trans (pow_le_pow_left₀ (by norm_num) (by norm_num) K) hA
  have : 2 ^ K * g * (A + E) = 2 ^ K * (g * (A + E)) := by ring
  rw [this]
  have h3 : 2 ^ K * (g * (A + E)) ≤ A * (2 * A) := mul_le_mul h2K hgA (by positivity) (by linarith)
  have h4 : A * (2 * A) ≤ (2:ℝ) ^ (52:Nat) * (2 * (2:ℝ) ^ (52:Nat)) := mul_le_mul hA52.le (by linarith) (by linarith) (by positivity)
  have e105 : (2:ℝ) ^ (105:Nat) = (2:ℝ) ^ (52:Nat) * (2 * (2:ℝ) ^ (52:Nat)) := by norm_num
  rw [e105]; linarith


theorem big_of_le (x : ℝ) (n : Nat) (e : Int) (h : x ≤ (2:ℝ) ^ n) (he : (n:Int) ≤ e) : x ≤ (2:ℝ) ^ e := by
  refine le_trans h ?_
  rw [← zpow_natCast]; exact two_pow_le _ _ he

/-- facts about the transform growth factor that follow from `EP < 1/2` (or `QP < 1/2`) -/
theorem F_small (K : Nat) (τ Ma Mb : ℝ) (hτ0 : 0 ≤ τ) (hMa : 1 ≤ Ma) (hMb : 1 ≤ Mb)
    (h : 4 ^ K * (9 / 4) * (((1 + γf τ / 2) ^ K) ^ 2 - 1) * (Ma * Mb) < 1 / 2) :
    (1 + γf τ / 2) ^ K ≤ 3 / 2 ∧ ((1 + γf τ / 2) ^ K) ^ 2 ≤ 3 / 2 := by
  have hγ := γf_nonneg τ hτ0
  set F := (1 + γf τ / 2) ^ K
  have hF1 : 1 ≤ F := one_le_pow₀ (by linarith)
  have hQ1 : (1:ℝ) ≤ 4 ^ K := one_le_pow₀ (by norm_num)
  have hP1 : 1 ≤ Ma * Mb := by have := mul_le_mul hMa hMb (by norm_num) (by linarith); linarith
  have hx0 : 0 ≤ F ^ 2 - 1 := by nlinarith
  have hc : (1:ℝ) ≤ 4 ^ K * (9 / 4) * (Ma * Mb) := by
    have : (1:ℝ) ≤ 4 ^ K * (Ma * Mb) := by have := mul_le_mul hQ1 hP1 (by norm_num) (by linarith); linarith
    linarith
  have e : 4 ^ K * (9 / 4) * (F ^ 2 - 1) * (Ma * Mb) = (4 ^ K * (9 / 4) * (Ma * Mb)) * (F ^ 2 - 1) := by ring
  rw [e] at h
  have : F ^ 2 - 1 ≤ (4 ^ K * (9 / 4) * (Ma * Mb)) * (F ^ 2 - 1) := le_mul_of_one_le_left hx0 hc
  have hF2 : F ^ 2 ≤ 3 / 2 := by linarith
  refine ⟨?_, hF2⟩
  have : F ≤ F ^ 2 := by rw [sq]; exact le_mul_of_one_le_left (by linarith) hF1
  linarith

theorem QP_eq (K : Nat) (τ Ma Mb : ℝ) :
    Fft64Avx.QP K τ Ma Mb = 4 ^ K * (9 / 4) * (((1 + γf τ / 2) ^ K) ^ 2 - 1) * (Ma * Mb) := by
  rw [four_pow]; unfold Fft64Avx.QP Fft64Avx.qOf AF EF A0 errB; ring

theorem EP_eq (K : Nat) (τ Ma Mb : ℝ) :
    EP K τ Ma Mb = 4 ^ K * (9 / 4) * (((1 + γf τ / 2) ^ K) ^ 2 * (1 + 3 / 2 * κ) - 1) * (Ma * Mb) := by
  have := APEP_eq K τ Ma Mb
  rw [AP_eq] at this
  linarith

/-- the base range conditions shared by all the pipelines -/
theorem base_conditions (K : Nat) (τ Ma Mb A : ℝ) (hτ0 : 0 ≤ τ) (hMa : 1 ≤ Ma) (hMb : 1 ≤ Mb)
    (hF : (1 + γf τ / 2) ^ K ≤ 3 / 2) (hF2 : ((1 + γf τ / 2) ^ K) ^ 2 ≤ 3 / 2) (hAP : AP K Ma Mb ≤ A) (hA52 : A < (2:ℝ) ^ (52:Nat)) :
    2 ^ K * (1 + γf τ / 2) ^ K * (A0 Ma + 0) ≤ (2:ℝ) ^ (999:Int) ∧
    2 ^ K * (1 + γf τ / 2) ^ K * (A0 Mb + 0) ≤ (2:ℝ) ^ (999:Int) ∧
    (AF K Ma + EF K τ Ma) * (AF K Mb + EF K τ Mb) ≤ (2:ℝ) ^ (1000:Int) := by
  have hγ := γf_nonneg τ hτ0
  set F := (1 + γf τ / 2) ^ K
  have hF1 : 1 ≤ F := one_le_pow₀ (by linarith)
  have h2Q : (2:ℝ) ^ K ≤ 4 ^ K := pow_le_pow_left₀ (by norm_num) (by norm_num) K
  have h2K0 : (0:ℝ) < 2 ^ K := by positivity
  have hMaP : Ma ≤ Ma * Mb := le_mul_of_one_le_right (by linarith) hMb
  have hMbP : Mb ≤ Ma * Mb := le_mul_of_one_le_left (by linarith) hMa
  rw [AP_eq] at hAP
  have aux : ∀ M : ℝ, 0 ≤ M → M ≤ Ma * Mb → 2 ^ K * F * (A0 M + 0) ≤ (2:ℝ) ^ (999:Int) := by
    intro M hM0 hM
    refine big_of_le _ 52 _ ?_ (by norm_num)
    have h1 : 2 ^ K * F * (A0 M + 0) ≤ 4 ^ K * (3 / 2) * (3 / 2 * (Ma * Mb)) := by
      unfold A0
      have : 2 ^ K * F ≤ 4 ^ K * (3 / 2) := mul_le_mul h2Q hF (by linarith) (by positivity)
      exact mul_le_mul this (by linarith) (by linarith) (by positivity)
    have e : (4:ℝ) ^ K * (3 / 2) * (3 / 2 * (Ma * Mb)) = 4 ^ K * (9 / 4) * (Ma * Mb) := by ring
    linarith
  refine ⟨aux Ma (by linarith) hMaP, aux Mb (by linarith) hMbP, ?_⟩
  rw [AFEF_eq, AFEF_eq]
  refine big_of_le _ 53 _ ?_ (by norm_num)
  have e : 2 ^ K * F * (3 / 2 * Ma) * (2 ^ K * F * (3 / 2 * Mb)) = F ^ 2 * (4 ^ K * (9 / 4) * (Ma * Mb)) := by
    rw [four_pow]; ring
  rw [e]
  have hAP0 : 0 ≤ 4 ^ K * (9 / 4) * (Ma * Mb) := by positivity
  have : F ^ 2 * (4 ^ K * (9 / 4) * (Ma * Mb)) ≤ 3 / 2 * (4 ^ K * (9 / 4) * (Ma * Mb)) := mul_le_mul_of_nonneg_right hF2 hAP0
  norm_num at hA52 ⊢; linarith

/-- **`VmpDomain` follows from its main inequality** -/
theorem vmpDomain_of_main (K R : Nat) (τ Ma Mb : ℝ) (hτ0 : 0 ≤ τ) (hτ1 : τ ≤ 1) (hK : K ≤ 1022) (hR : 1 ≤ R)
    (hMa : 1 ≤ Ma) (hMb : 1 ≤ Mb)
    (hmain : errB (γi τ) K (accR K R τ Ma Mb).2 (accR K R τ Ma Mb).1 / 2 ^ K * (1 + u) + u * (accR K R τ Ma Mb).2 + η < 1 / 2) :
    VmpDomain K R τ Ma Mb := by
  have hκ := κ_nonneg
  have hγ := γf_nonneg τ hτ0
  have hP1 : 1 ≤ Ma * Mb := by have := mul_le_mul hMa hMb (by norm_num) (by linarith); linarith
  have hQ1 : (1:ℝ) ≤ 4 ^ K := one_le_pow₀ (by norm_num)
  have hF1 : 1 ≤ (1 + γf τ / 2) ^ K := one_le_pow₀ (by linarith)
  have hap : 0 ≤ AP K Ma Mb := by rw [AP_eq]; positivity
  have hep : 0 ≤ EP K τ Ma Mb := by
    rw [EP_eq]
    have : 1 ≤ ((1 + γf τ / 2) ^ K) ^ 2 * (1 + 3 / 2 * κ) := by
      have h1 : 1 ≤ ((1 + γf τ / 2) ^ K) ^ 2 := one_le_pow₀ hF1
      have h2 : (1:ℝ) ≤ 1 + 3 / 2 * κ := by linarith
      calc (1:ℝ) = 1 * 1 := by ring
        _ ≤ _ := mul_le_mul h1 h2 (by norm_num) (by linarith)
    have : 0 ≤ ((1 + γf τ / 2) ^ K) ^ 2 * (1 + 3 / 2 * κ) - 1 := by linarith
    positivity
  obtain ⟨hE0, hA0', _⟩ := accIter_mono _ _ hep hap R (0, 0) le_rfl le_rfl
  change 0 ≤ (accR K R τ Ma Mb).1 at hE0
  have hA2 : (accR K R τ Ma Mb).2 = R * AP K Ma Mb := by unfold accR; rw [accIter_snd]; simp
  have hR1 : (1:ℝ) ≤ (R:ℝ) := by exact_mod_cast hR
  have hAPA : AP K Ma Mb ≤ (accR K R τ Ma Mb).2 := by rw [hA2]; exact le_mul_of_one_le_left hap hR1
  have hQA : (4:ℝ) ^ K ≤ (accR K R τ Ma Mb).2 := by
    refine le_trans ?_ hAPA
    rw [AP_eq]
    have : (4:ℝ) ^ K * 1 ≤ 4 ^ K * (9 / 4 * (Ma * Mb)) := mul_le_mul_of_nonneg_left (by linarith) (by positivity)
    linarith
  obtain ⟨hE12, hA52, hri⟩ := side_from_main K τ _ _ hτ0 hQA hE0 hmain
  have hEPE : EP K τ Ma Mb ≤ (accR K R τ Ma Mb).1 := accIter_ge_ep _ _ hep hap R hR
  have hsm : 4 ^ K * (9 / 4) * (((1 + γf τ / 2) ^ K) ^ 2 - 1) * (Ma * Mb) < 1 / 2 := by
    have h1 : 4 ^ K * (9 / 4) * (((1 + γf τ / 2) ^ K) ^ 2 - 1) * (Ma * Mb) ≤ EP K τ Ma Mb := by
      rw [EP_eq]
      have hc : (0:ℝ) ≤ 4 ^ K * (9 / 4) := by positivity
      have hF2 : 0 ≤ ((1 + γf τ / 2) ^ K) ^ 2 := by positivity
      have : ((1 + γf τ / 2) ^ K) ^ 2 - 1 ≤ ((1 + γf τ / 2) ^ K) ^ 2 * (1 + 3 / 2 * κ) - 1 := by nlinarith
      exact mul_le_mul_of_nonneg_right (mul_le_mul_of_nonneg_left this hc) (by linarith)
    linarith
  obtain ⟨hF, hF2⟩ := F_small K τ Ma Mb hτ0 hMa hMb hsm
  obtain ⟨ra, rb, rp⟩ := base_conditions K τ Ma Mb _ hτ0 hMa hMb hF hF2 hAPA hA52
  refine ⟨hτ0, hτ1, hK, hR, hMa, hMb, ra, rb, rp, ?_, ?_, ?_, hmain⟩
  · refine big_of_le _ 53 _ ?_ (by norm_num)
    norm_num at hA52 ⊢; linarith
  · exact big_of_le _ 105 _ hri (by norm_num)
  · norm_num at hA52 ⊢; linarith


/-- growth factor of the vmp pipeline with `R` rows -/
noncomputable def Gv (K R : Nat) (τ : ℝ) : ℝ :=
  (1 + γi τ / 2) ^ K * (1 + (1 + u) ^ R * (((1 + γf τ / 2) ^ K) ^ 2 * (1 + 3 / 2 * κ) - 1 + u * R))

/-- the main inequality of `VmpDomain` in closed form -/
theorem vmp_main_closed (K R : Nat) (τ Ma Mb : ℝ) (hτ0 : 0 ≤ τ) (hMa : 1 ≤ Ma) (hMb : 1 ≤ Mb)
    (h : R * (4 ^ K * (9 / 4)) * ((Gv K R τ - 1) * (1 + u) + u) * (Ma * Mb) + η < 1 / 2) :
    errB (γi τ) K (accR K R τ Ma Mb).2 (accR K R τ Ma Mb).1 / 2 ^ K * (1 + u) + u * (accR K R τ Ma Mb).2 + η < 1 / 2 := by
  have hκ := κ_nonneg
  have hu := u_pos
  have hγ := γf_nonneg τ hτ0
  have hγi := γi_nonneg τ hτ0
  have hF1 : 1 ≤ (1 + γf τ / 2) ^ K := one_le_pow₀ (by linarith)
  have hap : 0 ≤ AP K Ma Mb := by rw [AP_eq]; positivity
  have he0 : 0 ≤ ((1 + γf τ / 2) ^ K) ^ 2 * (1 + 3 / 2 * κ) - 1 := by
    have h1 : 1 ≤ ((1 + γf τ / 2) ^ K) ^ 2 := one_le_pow₀ hF1
    have h2 : (1:ℝ) ≤ 1 + 3 / 2 * κ := by linarith
    have : (1:ℝ) * 1 ≤ ((1 + γf τ / 2) ^ K) ^ 2 * (1 + 3 / 2 * κ) := mul_le_mul h1 h2 (by norm_num) (by linarith)
    linarith
  have hep : 0 ≤ EP K τ Ma Mb := by rw [EP_eq]; positivity
  obtain ⟨b1, b2⟩ := accIter_fst_le (EP K τ Ma Mb) (AP K Ma Mb) hep hap R R le_rfl
  change (accR K R τ Ma Mb).1 ≤ _ at b1
  change (accR K R τ Ma Mb).2 = _ at b2
  have hmono := errB_mono (γi τ) hγi K (accR K R τ Ma Mb).2 _ _ b1
  have h2K : (0:ℝ) < 2 ^ K := by positivity
  have hdiv := div_le_div_of_nonneg_right hmono h2K.le
  rw [errB_div (γi τ) K (accR K R τ Ma Mb).2 (R * (1 + u) ^ R * (EP K τ Ma Mb + u * R * AP K Ma Mb))] at hdiv
  have hclosed : (1 + γi τ / 2) ^ K * ((accR K R τ Ma Mb).2 + R * (1 + u) ^ R * (EP K τ Ma Mb + u * R * AP K Ma Mb)) - (accR K R τ Ma Mb).2
      = R * (4 ^ K * (9 / 4)) * (Gv K R τ - 1) * (Ma * Mb) := by
    rw [b2, EP_eq, AP_eq]; unfold Gv; ring
  rw [hclosed] at hdiv
  have h1 : errB (γi τ) K (accR K R τ Ma Mb).2 (accR K R τ Ma Mb).1 / 2 ^ K * (1 + u) ≤
      R * (4 ^ K * (9 / 4)) * (Gv K R τ - 1) * (Ma * Mb) * (1 + u) := mul_le_mul_of_nonneg_right hdiv (by linarith)
  have h2 : u * (accR K R τ Ma Mb).2 = R * (4 ^ K * (9 / 4)) * u * (Ma * Mb) := by rw [b2, AP_eq]; ring
  have e : R * (4 ^ K * (9 / 4)) * ((Gv K R τ - 1) * (1 + u) + u) * (Ma * Mb) =
      R * (4 ^ K * (9 / 4)) * (Gv K R τ - 1) * (Ma * Mb) * (1 + u) + R * (4 ^ K * (9 / 4)) * u * (Ma * Mb) := by ring
  rw [e] at h
  linarith

theorem Gv_mono (K R : Nat) (hR : R ≤ 64) (τ : ℝ) (hτ0 : 0 ≤ τ) : Gv K R τ ≤ Gv K 64 τ := by
  have hκ := κ_nonneg
  have hu := u_pos
  have hγ := γf_nonneg τ hτ0
  have hγi := γi_nonneg τ hτ0
  have hF1 : 1 ≤ (1 + γf τ / 2) ^ K := one_le_pow₀ (by linarith)
  have he0 : 0 ≤ ((1 + γf τ / 2) ^ K) ^ 2 * (1 + 3 / 2 * κ) - 1 := by
    have h1 : 1 ≤ ((1 + γf τ / 2) ^ K) ^ 2 := one_le_pow₀ hF1
    have h2 : (1:ℝ) ≤ 1 + 3 / 2 * κ := by linarith
    have : (1:ℝ) * 1 ≤ ((1 + γf τ / 2) ^ K) ^ 2 * (1 + 3 / 2 * κ) := mul_le_mul h1 h2 (by norm_num) (by linarith)
    linarith
  unfold Gv
  apply mul_le_mul_of_nonneg_left _ (by positivity)
  have hp : (1 + u) ^ R ≤ (1 + u) ^ 64 := pow_le_pow_right₀ (by linarith) hR
  have hR' : u * (R:ℝ) ≤ u * ((64:Nat):ℝ) := mul_le_mul_of_nonneg_left (by exact_mod_cast hR) hu.le
  have : (1 + u) ^ R * (((1 + γf τ / 2) ^ K) ^ 2 * (1 + 3 / 2 * κ) - 1 + u * R) ≤
      (1 + u) ^ 64 * (((1 + γf τ / 2) ^ K) ^ 2 * (1 + 3 / 2 * κ) - 1 + u * ((64:Nat):ℝ)) :=
    mul_le_mul hp (add_le_add_right hR' _) (by positivity) (by positivity)
  linarith

theorem growthV_le (K : Nat) (hK : K ≤ 15) : (Gv K 64 τ51 - 1) * (1 + u) + u ≤ (20 * K + 70) * u := by
  interval_cases K <;> (unfold Gv γi γf κ u τ51; norm_num)

/-- `log2` of the proved bound on `rows·Ma·Mb` for the vmp pipeline, `n = 2·2^K`, up to 64 rows -/
def domBitsV : Nat → Nat
  | 2 => 40 | 3 => 37 | 4 => 35 | 5 => 33 | 6 => 31 | 7 => 29
  | 8 => 26 | 9 => 24 | 10 => 22 | 11 => 20 | 12 => 18 | 13 => 16 | 14 => 14 | 15 => 12
  | _ => 0

theorem domV_numeric (K : Nat) (hK : K ≤ 15) :
    (4:ℝ) ^ K * (9 / 4) * ((20 * K + 70) * u) * (2:ℝ) ^ (domBitsV K) ≤ 1 / 2 - 1 / 1024 := by
  interval_cases K <;> (unfold domBitsV u; norm_num)

/-- **`VmpDomain` in numbers**: `n = 8 … 65536`, up to 64 rows, tables accurate to `2^-51`:
`rows·Ma·Mb ≤ 2^(domBitsV K)`, i.e. `n·rows·Ma·Mb ≤ 2^43, 2^41, 2^40, 2^39, 2^38, 2^37, 2^35, 2^34, 2^33, 2^32, 2^31, 2^30, 2^29, 2^28` -/
theorem vmpDomain_numeric (K : Nat) (hK2 : 2 ≤ K) (hK : K ≤ 15) (R : Nat) (hR1 : 1 ≤ R) (hR : R ≤ 64) (Ma Mb : ℝ)
    (hMa : 1 ≤ Ma) (hMb : 1 ≤ Mb) (h : R * (Ma * Mb) ≤ (2:ℝ) ^ (domBitsV K)) : VmpDomain K R τ51 Ma Mb := by
  have hτ0 : 0 ≤ τ51 := by unfold τ51; positivity
  have hτ1 : τ51 ≤ 1 := by unfold τ51; exact zpow_le_one_of_nonpos₀ (by norm_num) (by norm_num)
  apply vmpDomain_of_main K R τ51 Ma Mb hτ0 hτ1 (by omega) hR1 hMa hMb
  apply vmp_main_closed K R τ51 Ma Mb hτ0 hMa hMb
  have hu := u_pos
  have hη := η_small
  have g1 := Gv_mono K R hR τ51 hτ0
  have g2 := growthV_le K hK
  have g3 := domV_numeric K hK
  have hc : (Gv K R τ51 - 1) * (1 + u) + u ≤ (20 * K + 70) * u := by
    have : (Gv K R τ51 - 1) * (1 + u) ≤ (Gv K 64 τ51 - 1) * (1 + u) := mul_le_mul_of_nonneg_right (by linarith) (by linarith)
    linarith
  have hP0 : 0 ≤ (R:ℝ) * (Ma * Mb) := by positivity
  have h4 : (0:ℝ) ≤ 4 ^ K * (9 / 4) := by positivity
  have e : (R:ℝ) * (4 ^ K * (9 / 4)) * ((Gv K R τ51 - 1) * (1 + u) + u) * (Ma * Mb) =
      4 ^ K * (9 / 4) * ((Gv K R τ51 - 1) * (1 + u) + u) * (R * (Ma * Mb)) := by ring
  rw [e]
  have s1 : 4 ^ K * (9 / 4) * ((Gv K R τ51 - 1) * (1 + u) + u) * (R * (Ma * Mb)) ≤ 4 ^ K * (9 / 4) * ((20 * K + 70) * u) * (R * (Ma * Mb)) :=
    mul_le_mul_of_nonneg_right (mul_le_mul_of_nonneg_left hc h4) hP0
  have s2 : 4 ^ K * (9 / 4) * ((20 * K + 70) * u) * (R * (Ma * Mb)) ≤ 4 ^ K * (9 / 4) * ((20 * K + 70) * u) * (2:ℝ) ^ (domBitsV K) :=
    mul_le_mul_of_nonneg_left h (by positivity)
  linarith

end Fft64
