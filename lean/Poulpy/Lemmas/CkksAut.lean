import Poulpy.Lemmas.AutoDecrypt
import Poulpy.Lemmas.IotaBij
import Poulpy.Lemmas.CkksSemOps
import Poulpy.Model.CkksMulData
/-!
Rotation / conjugation on the data-path model: `AutContract` discharged from C03's end-to-end theorem
`glwe_automorphism_decrypts` (`Lemmas/AutoDecrypt.lean`), read coefficient by coefficient through the bijection
`Ks.ι` (`Lemmas/IotaBij.lean`).

What remains a hypothesis is exactly what C03 asks of the executed call (`AutAdm`): the automorphism key is a gadget
encryption of the secret under `σ_{g⁻¹}(secret)` with explicit error lists `EL` (and whole multiples `KL` of the torus
modulus), `g = key.p` is an admissible Galois element with inverse `gInv` on the secret, the digits of the operand and
the accumulators of the gadget product have head-room (`Hin`, `Hp`), and the shape is in the covered regime.
-/

namespace Ckks
open Hal Core Core.Ops C02L Ckks.Sem Ckks.CoreSem KsDec AutoMul

/-- **the signed coefficient permutation of `σ_g`**: coefficient `j` of `σ_g a` is `ε·a[j']` with `j' < N`, `ε = ±1` depending on
`g`, `N`, `j` only -/
theorem σ_index (g : Int) (N : Nat) (hN : 0 < N) (hg : GalOk g N) (j : Nat) (hj : j < N) :
    ∃ j', j' < N ∧ ∃ ε : Int, (ε = 1 ∨ ε = -1) ∧ ∀ a : Poly, a.length = N → (σ g a).getD j 0 = ε * a.getD j' 0 := by
  obtain ⟨A, B, hAB⟩ := galOk_bezout hN hg
  have hs0 : 0 ≤ ((j : Int) * A) % (2 * (N : Int)) := Int.emod_nonneg _ (by omega)
  have hs1 : ((j : Int) * A) % (2 * (N : Int)) < 2 * (N : Int) := Int.emod_lt_of_pos _ (by omega)
  have key : ∀ a : Poly, a.length = N → (σ g a).getD j 0 = coeffZ id a ((j : Int) * A) := by
    intro a ha
    have hl : (σ g a).length = a.length := σ_length g a
    have hj' : j < (σ g a).length := by rw [hl, ha]; exact hj
    have e : (j : Int) = ((j : Int) * A) * g + 2 * (a.length : Int) * ((j : Int) * B) := by
      have : (j : Int) = (j : Int) * (g * A + 2 * (a.length : Int) * B) := by rw [ha, hAB]; ring
      conv_lhs => rw [this]
      ring
    have h1 : (σ g a).getD j 0 = coeffZ id (σ g a) (j : Int) := by
      rw [coeffZ_of_lt id _ j hj']
    have h2 : coeffZ id (σ g a) (j : Int) = coeffZ id (σ g a) (((j : Int) * A) * g) :=
      coeffZ_congr id _ _ _ (by rw [hl]; conv_lhs => rw [e]; rw [Int.add_mul_emod_self_left])
    rw [h1, h2, σ_coeffZ g a (by rw [ha]; exact hN) (by rw [ha]; exact hg)]
  by_cases hlt : (((j : Int) * A) % (2 * (N : Int))).toNat < N
  · refine ⟨(((j : Int) * A) % (2 * (N : Int))).toNat, hlt, 1, Or.inl rfl, fun a ha => ?_⟩
    rw [key a ha]
    unfold coeffZ
    simp only [id, ha]
    rw [if_pos hlt]; ring
  · refine ⟨(((j : Int) * A) % (2 * (N : Int))).toNat - N, by omega, -1, Or.inr rfl, fun a ha => ?_⟩
    rw [key a ha]
    unfold coeffZ
    simp only [id, ha]
    rw [if_neg hlt]; ring

/-- admissibility of one executed `glwe_automorphism(res, a, key)` under the secret `sk` (the hypotheses of
`glwe_automorphism_decrypts`, radices apart) -/
structure AutAdm (big : Bool) (N : Nat) (a : GLWE) (key : Ks.Key) (sk : List Poly) (gInv : Int)
    (EL KL : ℕ → ℕ → Poly) (Hin Hp : Int) (rout : Nat) : Prop where
  hg : GalOk key.p N
  hsk : Ks.AllLen N sk
  hinv : ∀ s ∈ sk, σ key.p (σ gInv s) = s
  hrank : a.rank = key.rankIn
  hrout : rout = key.rankOut
  hc0 : 0 < key.mat.colsOut
  hD : 1 ≤ key.dsize
  hM : ∀ j q, (key.mat.entry j q).length = N
  hS : key.mat.rows * key.dsize ≤ key.mat.size
  hbk1 : 1 ≤ key.base2k
  hbk : key.base2k ≤ 62
  hIn0 : 0 ≤ Hin
  hIn : Hin + 8 ≤ 2 ^ 62
  hInB : ∀ c ∈ a.cols, ∀ l ∈ c, ∀ x ∈ l, |x| ≤ Hin
  hHp0 : 0 ≤ Hp
  hAcc : Hp + (Hin + 2 ^ key.base2k) + 8 ≤ 2 ^ (bitsOf big - 2)
  hprod : ∀ aConv, Ks.convIn a key = .ok aConv → ∀ i, i < rout + 1 → ∀ l ∈ (prodOf rout aConv key).act i, ∀ x ∈ l, |x| ≤ Hp
  hs : key.mat.colsIn ≤ sk.length
  hEL : ∀ i r, (EL i r).length = N
  hKL : ∀ i r, (KL i r).length = N
  hkey : ∀ i, i < key.mat.colsIn → ∀ r, r < key.mat.rows →
      Gadget.val (Ks.radix N key.base2k) key.mat.size (Ks.keyPhase N (sk.map (σ gInv)) key.mat i r) =
        Ks.ι N (sk.getD i []) * Ks.radix N key.base2k ^ (key.mat.size - (r + 1) * key.dsize) + Ks.ι N (EL i r)
          + Ks.radix N key.base2k ^ key.mat.size * Ks.ι N (KL i r)
  hcov1 : convSize a key ≤ key.mat.size
  hcov2 : convSize a key ≤ key.mat.rows * key.dsize

/-- the four-term error bound of `glwe_keyswitch_decrypts` (conversion rounding, gadget noise, dropped limbs, final rounding),
an integer at the scale `2^(Pa + Pr + Pk)` -/
noncomputable def autBound (N : Nat) (bout sout rout : Nat) (a : GLWE) (key : Ks.Key) (sk : List Poly) (gInv : Int)
    (EL : ℕ → ℕ → Poly) (aConv : GLWE) : Int :=
  2 ^ (bout * sout + key.base2k * (key.mat.size - convSize a key)) *
      ((1 + snorm (min a.rank sk.length) sk) * C02.normTol (key.base2k * convSize a key) (a.base2k * a.size))
    + 2 ^ (a.base2k * a.size + bout * sout) * gadgetBound N key.base2k (aDftOf aConv) key EL
    + 2 ^ (a.base2k * a.size + bout * sout) * dropBound N key.base2k (sk.map (σ gInv)) (aDftOf aConv) key
    + 2 ^ (a.base2k * a.size) *
      ((1 + snorm (min rout (sk.map (σ gInv)).length) (sk.map (σ gInv))) *
        C02.normTol (bout * sout) (key.base2k * key.mat.size))

/-- **`glwe_automorphism` on decoded values.**  The result decodes, coefficient by coefficient, to the Galois image `σ_g` of the
operand's exact phase polynomial, modulo `2^β`, within `autBound / 2^(Pa + Pk)` units of its last limb. -/
theorem aut_step {big : Bool} {N bout sout rout : Nat} {a : GLWE} {key : Ks.Key} {sk : List Poly} {gInv : Int}
    {EL KL : ℕ → ℕ → Poly} {Hin Hp : Int} (hN : 0 < N) (ha : GWF N a) (hbi1 : 1 ≤ a.base2k) (hbi : a.base2k ≤ 62)
    (hbo1 : 1 ≤ bout) (hbo : bout ≤ 62) (h : AutAdm big N a key sk gInv EL KL Hin Hp rout) (β : Nat) :
    ∃ res aConv, Ks.automorphism big bout sout rout a key = .ok res ∧ Ks.convIn a key = .ok aConv ∧
      GWF N res ∧ res.base2k = bout ∧ res.size = sout ∧ res.rank = rout ∧
      ∀ t, t < N → Near (decG sk res β t)
        (dec ((σ key.p (valP a.base2k N (phase sk a))).getD t 0) (a.base2k * a.size) β) (2 ^ β)
        ((autBound N bout sout rout a key sk gInv EL aConv : ℚ) / 2 ^ (a.base2k * a.size + key.base2k * key.mat.size) * ulpG res β) := by
  obtain ⟨res, aConv, hok, hconv, gw, hb, hs, hr, E1, E3, Q, hE1, hE3, _, _, hmain, hbound⟩ :=
    glwe_automorphism_decrypts big N bout sout rout a key sk gInv EL KL Hin Hp hN h.hg h.hsk h.hinv ha h.hrank h.hrout h.hc0 h.hD
      h.hM h.hS hbi1 hbi h.hbk1 h.hbk hbo1 hbo h.hIn0 h.hIn h.hInB h.hHp0 h.hAcc h.hprod h.hs h.hEL h.hKL h.hkey h.hcov1 h.hcov2
  refine ⟨res, aConv, hok, hconv, gw, hb, hs, hr, fun t ht => ?_⟩
  set Pa := a.base2k * a.size
  set Pk := key.base2k * key.mat.size
  set Pr := bout * sout
  set Err := σ key.p (ksErr (2 ^ (Pr + key.base2k * (key.mat.size - convSize a key))) (2 ^ (Pa + Pr)) (2 ^ Pa) E1
    (Ks.errL N key.base2k (aDftOf aConv) key EL) (Ks.dropL N key.base2k (sk.map (σ gInv)) (aDftOf aConv) key) E3) with hErr
  have hErrl : Err.length = N := by
    rw [hErr, σ_length]
    apply ksErr_length N _ _ _ _ _ _ _ hE1 (Ks.errL_length N _ _ _ EL h.hEL) (dropL_length N key.base2k _ _ key h.hc0 h.hM) hE3
  rw [Ks.two_pow_cast, Ks.two_pow_cast, Ks.two_pow_cast] at hmain
  obtain ⟨q, _, hq⟩ := Ks.ring_to_coeff hN (valP bout N (phase sk res)) (σ key.p (valP a.base2k N (phase sk a))) Err
    (by simp) (by rw [σ_length]; simp) hErrl _ _ _ Q hmain
  have hqt := hq t
  have he : |(Err.getD t 0 : Int)| ≤ autBound N bout sout rout a key sk gInv EL aConv := by
    refine le_trans ?_ hbound
    have : Err.getD t 0 ∈ Err := by
      rw [List.getD_eq_getElem?_getD, List.getElem?_eq_getElem (by rw [hErrl]; exact ht)]
      exact List.getElem_mem _
    exact Hal.abs_le_normInf this
  have hX : (valP bout N (phase sk res)).getD t 0 = valCoeff bout (phase sk res) t := valP_getD _ _ _ _ ht
  rw [hX] at hqt
  have hpow : (0 : ℚ) < 2 ^ (Pa + Pk) := by positivity
  have hU : |((Err.getD t 0 : Int) : ℚ)| ≤ ((autBound N bout sout rout a key sk gInv EL aConv : ℚ) / 2 ^ (Pa + Pk)) * 2 ^ (Pa + Pk) := by
    rw [div_mul_cancel₀ _ (ne_of_gt hpow)]
    exact cast_abs_le he
  have := dec_of_lsh (valCoeff bout (phase sk res) t) ((σ key.p (valP a.base2k N (phase sk a))).getD t 0) (Err.getD t 0) (q.getD t 0)
    Pr (Pa + Pk) Pk β (β + Pk) 0 _ (by rw [hqt]; ring) hU (by omega)
  have hdec : dec ((σ key.p (valP a.base2k N (phase sk a))).getD t 0) (Pa + Pk) (β + Pk) * 2 ^ 0
      = dec ((σ key.p (valP a.base2k N (phase sk a))).getD t 0) Pa β := by
    simp only [dec, tor, pow_zero, mul_one, pow_add]
    field_simp
  rw [hdec] at this
  simp only [decG, ulpG, hb, hs]
  rw [show (autBound N bout sout rout a key sk gInv EL aConv : ℚ) / 2 ^ (Pa + Pk) * (2 ^ β / 2 ^ (bout * sout))
      = (autBound N bout sout rout a key sk gInv EL aConv : ℚ) / 2 ^ (Pa + Pk) * 2 ^ β / 2 ^ Pr by ring]
  exact this


/-- the error of one executed automorphism in units of the result's last limb -/
noncomputable def autU (N bout sout rout : Nat) (x : GLWE) (key : Ks.Key) (sk : List Poly) (gInv : Int) (EL : ℕ → ℕ → Poly) : ℚ :=
  match Ks.convIn x key with
  | .ok aConv => (autBound N bout sout rout x key sk gInv EL aConv : ℚ) / 2 ^ (x.base2k * x.size + key.base2k * key.mat.size)
  | _ => 0

/-- coefficient `t` of the Galois image `σ_g` of the decoded polynomial of `g` at budget `β` -/
noncomputable def autDecG (s : List Poly) (N : Nat) (p : Int) (g : GLWE) (β t : Nat) : ℚ :=
  dec ((σ p (valP g.base2k N (phase s g))).getD t 0) (g.base2k * g.size) β

/-- … of a ciphertext -/
noncomputable def autDecC (s : List Poly) (N : Nat) (p : Int) (c : DCt) (t : Nat) : ℚ := autDecG s N p c.g c.md.logBudget t

theorem autDecG_index (s : List Poly) {N : Nat} (hN : 0 < N) {p : Int} (hg : GalOk p N) (g : GLWE) (β : Nat) {t : Nat} (ht : t < N) :
    ∃ t', t' < N ∧ ∃ ε : Int, (ε = 1 ∨ ε = -1) ∧ ∀ g' : GLWE, ∀ β' : Nat, autDecG s N p g' β' t = ε * decG s g' β' t' := by
  obtain ⟨t', ht', ε, hε, h⟩ := σ_index p N hN hg t ht
  refine ⟨t', ht', ε, hε, fun g' β' => ?_⟩
  simp only [autDecG, decG, dec, tor]
  rw [h _ (by simp), valP_getD _ _ _ _ ht']
  push_cast; ring

/-- the Galois image of a `Near` relation between decoded polynomials -/
theorem autDecG_near (s : List Poly) {N : Nat} (hN : 0 < N) {p : Int} (hg : GalOk p N) {g1 g2 : GLWE} {β1 β2 : Nat} {m ε0 : ℚ}
    (h : ∀ t, t < N → Near (decG s g1 β1 t) (decG s g2 β2 t) m ε0) {t : Nat} (ht : t < N) :
    Near (autDecG s N p g1 β1 t) (autDecG s N p g2 β2 t) m ε0 := by
  obtain ⟨t', ht', ε, hε, hx⟩ := autDecG_index s hN hg g1 β1 ht
  rw [hx g1 β1, hx g2 β2]
  obtain ⟨q, e, h1, h2⟩ := h t' ht'
  rcases hε with rfl | rfl
  · exact ⟨q, e, by rw [h1]; push_cast; ring, h2⟩
  · exact ⟨-q, -e, by rw [h1]; push_cast; ring, by rwa [abs_neg]⟩

theorem autU_eq {N bout sout rout : Nat} {x aConv : GLWE} {key : Ks.Key} {sk : List Poly} {gInv : Int} {EL : ℕ → ℕ → Poly}
    (h : Ks.convIn x key = .ok aConv) :
    autU N bout sout rout x key sk gInv EL
      = (autBound N bout sout rout x key sk gInv EL aConv : ℚ) / 2 ^ (x.base2k * x.size + key.base2k * key.mat.size) := by
  simp only [autU, h]

/-- **`ckks_rotate_assign` / `ckks_conjugate_assign` on the data path** (`glwe_automorphism_assign`), no contract -/
theorem aut_assign_sem {env : Env} (he : EnvOK env) {N r : Nat} (hN : 0 < N) {c : DCt} (hc : DOK env N r c) {big : Bool} {key : Ks.Key}
    {s : List Poly} {gInv : Int} {EL KL : ℕ → ℕ → Poly} {Hin Hp : Int} (h : AutAdm big N c.g key s gInv EL KL Hin Hp c.g.rank) :
    ∃ g', Ks.automorphism big c.g.base2k c.g.size c.g.rank c.g key = .ok g' ∧ GWF N g' ∧ g'.base2k = c.g.base2k ∧
      g'.size = c.g.size ∧ g'.rank = c.g.rank ∧
      ∀ t, t < N → Near (decG s g' c.md.logBudget t) (autDecC s N key.p c t) (2 ^ c.md.logBudget)
        (autU N c.g.base2k c.g.size c.g.rank c.g key s gInv EL * ulpG g' c.md.logBudget) := by
  have hb1 : 1 ≤ c.g.base2k := by rw [hc.bk]; exact he.lo
  have hb62 : c.g.base2k ≤ 62 := by rw [hc.bk]; have := he.hi; omega
  obtain ⟨g', aConv, hok, hconv, gw, hb, hs, hr, hv⟩ := aut_step hN hc.wf hb1 hb62 hb1 hb62 h c.md.logBudget
  refine ⟨g', hok, gw, hb, hs, hr, fun t ht => ?_⟩
  rw [autU_eq hconv]
  exact hv t ht


/-- the out-of-place data path, with the error constant exposed: `U` is `autU` of the executed call -/
theorem autData_semU {env : Env} (he : EnvOK env) {N r : Nat} (hN : 0 < N) {dst a : DCt} (hd : DOK env N r dst) (ha : DOK env N r a)
    {m : Ct} (hm : shiftInto env dst.ct a.ct 0 = .ok m) {big : Bool} {key : Ks.Key}
    {s : List Poly} {gInv : Int} {EL KL : ℕ → ℕ → Poly} {Hin Hp : Int}
    (h0 : offsetUnary env dst.ct a.ct = 0 → AutAdm big N a.g key s gInv EL KL Hin Hp dst.g.rank)
    (h1 : ∀ g1, glweLsh N dst.g a.g (unaryShift env dst.ct a.ct 0) = .ok g1 → AutAdm big N g1 key s gInv EL KL Hin Hp g1.rank) :
    ∃ g' U, autData env N big key dst a = .ok g' ∧ GWF N g' ∧ g'.base2k = env.base2k ∧ g'.size = dst.g.size ∧ g'.rank = r ∧
      (∀ Ua : ℚ, (offsetUnary env dst.ct a.ct = 0 → autU N dst.g.base2k dst.g.size dst.g.rank a.g key s gInv EL ≤ Ua) →
        (∀ g1, glweLsh N dst.g a.g (unaryShift env dst.ct a.ct 0) = .ok g1 → autU N g1.base2k g1.size g1.rank g1 key s gInv EL ≤ Ua) → U ≤ Ua) ∧
      ∀ t, t < N → Near (decG s g' m.md.logBudget t) (autDecC s N key.p a t) (2 ^ m.md.logBudget)
        ((U + sn r s * trl env.base2k dst.g.size a.g.size (unaryShift env dst.ct a.ct 0)) * ulpG g' m.md.logBudget) := by
  have hsp := unaryShift_spec env dst.ct a.ct m hm 0
  have hb1 : 1 ≤ env.base2k := he.lo
  have hb62 : env.base2k ≤ 62 := by have := he.hi; omega
  by_cases hoff : offsetUnary env dst.ct a.ct ≠ 0
  · obtain ⟨g1, e1, hg1, sz1, hv1⟩ := lsh_step he.lo he.hi hd ha.full (unaryShift env dst.ct a.ct 0)
      m.md.logBudget a.md.logBudget 0 (by simpa [DCt.ct] using hsp)
    have hadm := h1 g1 e1
    have hb1' : 1 ≤ g1.base2k := by rw [hg1.bk]; exact hb1
    have hb62' : g1.base2k ≤ 62 := by rw [hg1.bk]; exact hb62
    obtain ⟨g', aConv, hok, hconv, gw, hb, hs, hr, hv⟩ := aut_step hN hg1.wf hb1' hb62' hb1' hb62' hadm m.md.logBudget
    refine ⟨g', autU N g1.base2k g1.size g1.rank g1 key s gInv EL, ?_, gw, by rw [hb, hg1.bk], hs.trans sz1, hr.trans hg1.rk,
      fun Ua _ hu => hu g1 e1, fun t ht => ?_⟩
    · simp only [autData, if_pos hoff, e1, Core.Ops.bind]; exact hok
    · have a1 := hv t ht
      rw [← autU_eq hconv] at a1
      have a2 : Near (autDecG s N key.p g1 m.md.logBudget t) (autDecG s N key.p a.g a.md.logBudget t) (2 ^ m.md.logBudget)
          (sn r s * trl env.base2k dst.g.size a.g.size (unaryShift env dst.ct a.ct 0) * ulpG g1 m.md.logBudget) :=
        autDecG_near s hN hadm.hg (fun t ht => by simpa using hv1 s t ht) ht
      have hu : ulpG g1 m.md.logBudget = ulpG g' m.md.logBudget := ulpG_congr hb.symm hs.symm _
      rw [hu] at a2
      have := a1.trans a2
      rw [show autU N g1.base2k g1.size g1.rank g1 key s gInv EL * ulpG g' m.md.logBudget
          + sn r s * trl env.base2k dst.g.size a.g.size (unaryShift env dst.ct a.ct 0) * ulpG g' m.md.logBudget
          = (autU N g1.base2k g1.size g1.rank g1 key s gInv EL
              + sn r s * trl env.base2k dst.g.size a.g.size (unaryShift env dst.ct a.ct 0)) * ulpG g' m.md.logBudget by ring] at this
      exact this
  · have h0' : offsetUnary env dst.ct a.ct = 0 := by simpa using hoff
    have hadm := h0 h0'
    have hb1' : 1 ≤ a.g.base2k := by rw [ha.bk]; exact hb1
    have hb62' : a.g.base2k ≤ 62 := by rw [ha.bk]; exact hb62
    have hbd1 : 1 ≤ dst.g.base2k := by rw [hd.bk]; exact hb1
    have hbd62 : dst.g.base2k ≤ 62 := by rw [hd.bk]; exact hb62
    have hβ : m.md.logBudget = a.md.logBudget := by
      have : unaryShift env dst.ct a.ct 0 = 0 := by simp only [unaryShift, h0']
      rw [this] at hsp
      simp only [DCt.ct] at hsp; omega
    obtain ⟨g', aConv, hok, hconv, gw, hb, hs, hr, hv⟩ := aut_step (sout := dst.g.size) hN ha.wf hb1' hb62' hbd1 hbd62 hadm m.md.logBudget
    refine ⟨g', autU N dst.g.base2k dst.g.size dst.g.rank a.g key s gInv EL, ?_, gw, by rw [hb, hd.bk], hs, by rw [hr, hd.rk],
      fun Ua hu _ => hu h0', fun t ht => ?_⟩
    · simp only [autData, h0', ne_eq, not_true_eq_false, if_false]; exact hok
    · have a1 := hv t ht
      rw [← autU_eq hconv] at a1
      have h3 := sn_pos r s
      have h4 := ulpG_pos g' m.md.logBudget
      have h5 := trl_nonneg env.base2k dst.g.size a.g.size (unaryShift env dst.ct a.ct 0)
      have h6 : 0 ≤ sn r s * trl env.base2k dst.g.size a.g.size (unaryShift env dst.ct a.ct 0) * ulpG g' m.md.logBudget :=
        mul_nonneg (mul_nonneg (le_trans zero_le_one h3) h5) (le_of_lt h4)
      have a2 := a1.mono (show _ ≤ (autU N dst.g.base2k dst.g.size dst.g.rank a.g key s gInv EL
        + sn r s * trl env.base2k dst.g.size a.g.size (unaryShift env dst.ct a.ct 0)) * ulpG g' m.md.logBudget by nlinarith)
      simpa [autDecC, autDecG, hβ] using a2


/-- the out-of-place data path (`glwe_automorphism(dst, a)` when nothing has to be paid, else aligned copy + in-place form) -/
theorem autData_sem {env : Env} (he : EnvOK env) {N r : Nat} (hN : 0 < N) {dst a : DCt} (hd : DOK env N r dst) (ha : DOK env N r a)
    {m : Ct} (hm : shiftInto env dst.ct a.ct 0 = .ok m) {big : Bool} {key : Ks.Key}
    {s : List Poly} {gInv : Int} {EL KL : ℕ → ℕ → Poly} {Hin Hp : Int}
    (h0 : offsetUnary env dst.ct a.ct = 0 → AutAdm big N a.g key s gInv EL KL Hin Hp dst.g.rank)
    (h1 : ∀ g1, glweLsh N dst.g a.g (unaryShift env dst.ct a.ct 0) = .ok g1 → AutAdm big N g1 key s gInv EL KL Hin Hp g1.rank) :
    ∃ g' U, autData env N big key dst a = .ok g' ∧ GWF N g' ∧ g'.base2k = env.base2k ∧ g'.size = dst.g.size ∧ g'.rank = r ∧
      ∀ t, t < N → Near (decG s g' m.md.logBudget t) (autDecC s N key.p a t) (2 ^ m.md.logBudget)
        ((U + sn r s * trl env.base2k dst.g.size a.g.size (unaryShift env dst.ct a.ct 0)) * ulpG g' m.md.logBudget) := by
  obtain ⟨g', U, h1', h2, h3, h4, h5, _, h7⟩ := autData_semU he hN hd ha hm h0 h1
  exact ⟨g', U, h1', h2, h3, h4, h5, h7⟩

/-- **`ckks_rotate_assign`**, no contract (key admissibility `AutAdm` apart) -/
theorem dRotateAssign_sem {env : Env} (he : EnvOK env) {N r : Nat} (hN : 0 < N) {c : DCt} (hc : DOK env N r c) {big : Bool} {ks : AutKeys}
    {k : Int} {key : Ks.Key} {m : Ct} (hm : rotateAssign env c.ct k = .ok m) (hk : ks.get k = some key)
    {s : List Poly} {gInv : Int} {EL KL : ℕ → ℕ → Poly} {Hin Hp : Int} (h : AutAdm big N c.g key s gInv EL KL Hin Hp c.g.rank) :
    ∃ c', dRotateAssign env N big ks c k = .ok c' ∧ c'.md = m.md ∧ GWF N c'.g ∧ c'.g.size = c.g.size ∧
      ∀ t, t < N → Near (decC s c' t) (autDecC s N key.p c t) (wrap c')
        (autU N c.g.base2k c.g.size c.g.rank c.g key s gInv EL * ulp c') := by
  have hmm : m = c.ct := by
    simp only [rotateAssign] at hm
    split at hm
    · injection hm with hm; exact hm.symm
    · cases hm
  subst hmm
  obtain ⟨g', hok, gw, hb, hs, hr, hv⟩ := aut_assign_sem he hN hc h
  refine ⟨⟨g', c.md⟩, ?_, rfl, gw, hs, fun t ht => ?_⟩
  · simp only [dRotateAssign, withMeta_ok _ _ _ hm, hk, hok, Core.Ops.bind]; rfl
  · simpa [decC, wrap, ulp] using hv t ht

/-- **`ckks_conjugate_assign`** -/
theorem dConjAssign_sem {env : Env} (he : EnvOK env) {N r : Nat} (hN : 0 < N) {c : DCt} (hc : DOK env N r c) {big : Bool} {ks : AutKeys}
    {key : Ks.Key} (hk : ks.conj = some key)
    {s : List Poly} {gInv : Int} {EL KL : ℕ → ℕ → Poly} {Hin Hp : Int} (h : AutAdm big N c.g key s gInv EL KL Hin Hp c.g.rank) :
    ∃ c', dConjAssign env N big ks c = .ok c' ∧ c'.md = c.md ∧ GWF N c'.g ∧ c'.g.size = c.g.size ∧
      ∀ t, t < N → Near (decC s c' t) (autDecC s N key.p c t) (wrap c')
        (autU N c.g.base2k c.g.size c.g.rank c.g key s gInv EL * ulp c') := by
  obtain ⟨g', hok, gw, hb, hs, hr, hv⟩ := aut_assign_sem he hN hc h
  refine ⟨⟨g', c.md⟩, ?_, rfl, gw, hs, fun t ht => ?_⟩
  · simp only [dConjAssign, hk, hok, Core.Ops.bind]
  · simpa [decC, wrap, ulp] using hv t ht

/-- **`ckks_rotate_into`**: aligned copy when the destination is narrower, then the automorphism -/
theorem dRotateInto_sem {env : Env} (he : EnvOK env) {N r : Nat} (hN : 0 < N) {dst a : DCt} (hd : DOK env N r dst) (ha : DOK env N r a)
    {big : Bool} {ks : AutKeys} {k : Int} {key : Ks.Key} {m : Ct} (hm : rotateInto env dst.ct a.ct k = .ok m) (hk : ks.get k = some key)
    {s : List Poly} {gInv : Int} {EL KL : ℕ → ℕ → Poly} {Hin Hp : Int}
    (h0 : offsetUnary env dst.ct a.ct = 0 → AutAdm big N a.g key s gInv EL KL Hin Hp dst.g.rank)
    (h1 : ∀ g1, glweLsh N dst.g a.g (unaryShift env dst.ct a.ct 0) = .ok g1 → AutAdm big N g1 key s gInv EL KL Hin Hp g1.rank) :
    ∃ c' U, dRotateInto env N big ks dst a k = .ok c' ∧ c'.md = m.md ∧ GWF N c'.g ∧ c'.g.size = dst.g.size ∧
      ∀ t, t < N → Near (decC s c' t) (autDecC s N key.p a t) (wrap c')
        ((U + sn r s * trl env.base2k dst.g.size a.g.size (unaryShift env dst.ct a.ct 0)) * ulp c') := by
  have hm' : shiftInto env dst.ct a.ct 0 = .ok m := by
    simp only [rotateInto] at hm
    split at hm
    · exact hm
    · cases hm
  obtain ⟨g', U, hok, gw, hb, hs, hr, hv⟩ := autData_sem he hN hd ha hm' h0 h1
  refine ⟨⟨g', m.md⟩, U, ?_, rfl, gw, hs, fun t ht => ?_⟩
  · simp only [dRotateInto, withMeta_ok _ _ _ hm, hk, hok, Core.Ops.bind]
  · simpa [decC, wrap, ulp] using hv t ht

/-- **`ckks_conjugate_into`** -/
theorem dConjInto_sem {env : Env} (he : EnvOK env) {N r : Nat} (hN : 0 < N) {dst a : DCt} (hd : DOK env N r dst) (ha : DOK env N r a)
    {big : Bool} {ks : AutKeys} {key : Ks.Key} {m : Ct} (hm : mulPow2Into env dst.ct a.ct 0 = .ok m) (hk : ks.conj = some key)
    {s : List Poly} {gInv : Int} {EL KL : ℕ → ℕ → Poly} {Hin Hp : Int}
    (h0 : offsetUnary env dst.ct a.ct = 0 → AutAdm big N a.g key s gInv EL KL Hin Hp dst.g.rank)
    (h1 : ∀ g1, glweLsh N dst.g a.g (unaryShift env dst.ct a.ct 0) = .ok g1 → AutAdm big N g1 key s gInv EL KL Hin Hp g1.rank) :
    ∃ c' U, dConjInto env N big ks dst a = .ok c' ∧ c'.md = m.md ∧ GWF N c'.g ∧ c'.g.size = dst.g.size ∧
      ∀ t, t < N → Near (decC s c' t) (autDecC s N key.p a t) (wrap c')
        ((U + sn r s * trl env.base2k dst.g.size a.g.size (unaryShift env dst.ct a.ct 0)) * ulp c') := by
  obtain ⟨g', U, hok, gw, hb, hs, hr, hv⟩ := autData_sem he hN hd ha (show shiftInto env dst.ct a.ct 0 = .ok m from hm) h0 h1
  refine ⟨⟨g', m.md⟩, U, ?_, rfl, gw, hs, fun t ht => ?_⟩
  · simp only [dConjInto, withMeta_ok _ _ _ hm, hk, hok, Core.Ops.bind]
  · simpa [decC, wrap, ulp] using hv t ht

/-- **`AutContract` holds for the executed automorphism** (the `(π, ε)` form: `σ_index`), with `U = autU` -/
theorem autContract_of_adm {env : Env} (he : EnvOK env) {N r : Nat} (hN : 0 < N) {c : DCt} (hc : DOK env N r c) {big : Bool} {key : Ks.Key}
    {s : List Poly} {gInv : Int} {EL KL : ℕ → ℕ → Poly} {Hin Hp : Int} (h : AutAdm big N c.g key s gInv EL KL Hin Hp c.g.rank) :
    ∃ g', Ks.automorphism big c.g.base2k c.g.size c.g.rank c.g key = .ok g' ∧
      ∃ (π : Nat → Nat) (ε : Nat → Int), (∀ t, t < N → π t < N) ∧
        ∀ t, t < N → Near (decG s g' c.md.logBudget t) (ε t * decC s c (π t)) (2 ^ c.md.logBudget)
          (autU N c.g.base2k c.g.size c.g.rank c.g key s gInv EL * ulpG g' c.md.logBudget) := by
  obtain ⟨g', hok, gw, hb, hs, hr, hv⟩ := aut_assign_sem he hN hc h
  have hidx : ∀ t, ∃ t' : Nat, ∃ e : Int, t < N → (t' < N ∧ ∀ g'' : GLWE, ∀ β' : Nat, autDecG s N key.p g'' β' t = e * decG s g'' β' t') := by
    intro t
    by_cases ht : t < N
    · obtain ⟨t', ht', e, _, hx⟩ := autDecG_index s hN h.hg c.g c.md.logBudget ht
      exact ⟨t', e, fun _ => ⟨ht', hx⟩⟩
    · exact ⟨0, 0, fun hh => absurd hh ht⟩
  choose π ε hπ using hidx
  refine ⟨g', hok, π, ε, fun t ht => (hπ t ht).1, fun t ht => ?_⟩
  have := hv t ht
  rw [autDecC, (hπ t ht).2 c.g c.md.logBudget] at this
  exact this

end Ckks
