import Poulpy.Props.C02
import Poulpy.Lemmas.CkksSem
import Poulpy.Lemmas.CkksValue
import Poulpy.Model.CkksData
/-!
Value semantics of the linear CKKS ciphertext operations on the data-path model
(`Model/CkksData.lean`), by composing the phase theorems of C02 with the scale identities of
`Lemmas/CkksValue.lean` through the arithmetic layer `Lemmas/CkksSem.lean`.
-/

namespace Ckks
open Core Core.Ops C02L Ckks.Sem

/-- decoded coefficient `t` of a ciphertext under the secret `s`: phase (big accumulator, exact integers)
read on `base2k·size` bits, times `2^log_budget` -/
def decC (s : List Poly) (c : DCt) (t : Nat) : ℚ :=
  dec (valCoeff c.g.base2k (phase s c.g) t) (c.g.base2k * c.g.size) c.md.logBudget

/-- one unit of the last limb of `c`, at the scale of the decoded value -/
def ulp (c : DCt) : ℚ := 2 ^ c.md.logBudget / 2 ^ (c.g.base2k * c.g.size)

/-- the modulus of the decoded value: it is defined up to multiples of `2^log_budget` -/
def wrap (c : DCt) : ℚ := 2 ^ c.md.logBudget

/-- well-formed ciphertext with the head-room of the C08 kernels -/
structure DWF (N : Nat) (H : Int) (c : DCt) : Prop where
  wf : GWF N c.g
  hr : NormL.HeadRoom 64 c.g.base2k 0 H
  bd : GBound H c.g

theorem withMeta_ok (r : Res Ct) (k : Meta → Outcome DCt) (m : Ct) (h : r = .ok m) : withMeta r k = k m.md := by
  subst h; rfl

/-- `ckks_rescale_assign`: the decoded value is unchanged, exactly -/
theorem dRescaleAssign_sem (env : Env) {N : Nat} {H : Int} (c : DCt) (k : Nat) (hc : DWF N H c)
    (hk : k ≤ c.md.logBudget) :
    ∃ c', dRescaleAssign env N c k = .ok c' ∧ c'.md = ⟨c.md.logDelta, c.md.logBudget - k⟩ ∧
      Same c.g c'.g ∧ GWF N c'.g ∧ c'.g.size = c.g.size ∧
      ∀ s t, t < N → Near (decC s c' t) (decC s c t) (wrap c') 0 := by
  obtain ⟨r', h1, hs, hw, hsz, hp⟩ := C02.lsh_assign_phase hc.wf hc.hr hc.bd k
  have hm : rescaleAssign env c.ct k = .ok ⟨⟨c.md.logDelta, c.md.logBudget - k⟩, c.g.size⟩ := by
    simp only [rescaleAssign, DCt.ct, hk, if_true]
  refine ⟨⟨r', ⟨c.md.logDelta, c.md.logBudget - k⟩⟩, ?_, rfl, hs, hw, hsz, ?_⟩
  · simp only [dRescaleAssign, withMeta_ok _ _ _ hm, h1, Core.Ops.bind]
  · intro s t ht
    obtain ⟨q, hq⟩ := hp s t ht
    have := dec_of_lsh_assign _ _ q (c.g.base2k * c.g.size) k (c.md.logBudget - k) c.md.logBudget 0 hq (by omega)
    simp only [decC, wrap, hs.1, hsz]
    simpa using this

end Ckks
