import Poulpy.Lemmas.CkksCore
import Poulpy.Lemmas.CkksValue
import Poulpy.Model.CkksData
/-!
Value semantics of the linear CKKS ciphertext operations on the data-path model
(`Model/CkksData.lean`): the core step lemmas of `Lemmas/CkksCore.lean` (C02 phase theorems + limb
bounds) composed with the scale identities of `Lemmas/CkksValue.lean`.
-/

namespace Ckks
open Core Core.Ops C02L Ckks.Sem Ckks.CoreSem

/-- decoded coefficient `t` of a ciphertext under the secret `s`: exact phase read on `base2k·size` bits,
times `2^log_budget` -/
def decC (s : List Poly) (c : DCt) (t : Nat) : ℚ := decG s c.g c.md.logBudget t

/-- one unit of the last limb of `c`, at the scale of the decoded value -/
def ulp (c : DCt) : ℚ := ulpG c.g c.md.logBudget

/-- the modulus of the decoded value: it is defined up to multiples of `2^log_budget` -/
def wrap (c : DCt) : ℚ := 2 ^ c.md.logBudget

/-- a ciphertext of the evaluator: degree `N`, the evaluator's radix, rank `r`, balanced digits -/
abbrev DOK (env : Env) (N r : Nat) (c : DCt) : Prop := GB N env.base2k r (half env.base2k) c.g

/-- the radix range covered: `1 ≤ base2k ≤ 61` (head-room of the `i64` kernels for sums of two digits) -/
structure EnvOK (env : Env) : Prop where
  lo : 1 ≤ env.base2k
  hi : env.base2k ≤ 61

theorem ulp_pos (c : DCt) : 0 < ulp c := ulpG_pos _ _

theorem withMeta_ok (r : Res Ct) (k : Meta → Outcome DCt) (m : Ct) (h : r = .ok m) : withMeta r k = k m.md := by
  subst h; rfl

theorem ct_eq {g' : GLWE} {m : Ct} (hsz : m.size = g'.size) : (⟨g', m.md⟩ : DCt).ct = m := by
  cases m; simp_all [DCt.ct]

theorem DOK.full {env : Env} {N r : Nat} {c : DCt} (h : DOK env N r c) : GB N env.base2k r (CoreSem.full env.base2k) c.g :=
  h.mono (half_le_full _)

/-! ### in-place unary operations -/

/-- `ckks_rescale_assign`: the decoded value is unchanged, exactly -/
theorem dRescaleAssign_sem {env : Env} (he : EnvOK env) {N r : Nat} {c : DCt} (hc : DOK env N r c) (k : Nat)
    {m : Ct} (hm : rescaleAssign env c.ct k = .ok m) :
    ∃ c', dRescaleAssign env N c k = .ok c' ∧ c'.ct = m ∧ DOK env N r c' ∧
      ∀ s t, t < N → Near (decC s c' t) (decC s c t) (wrap c') 0 := by
  have hk : k ≤ c.md.logBudget ∧ m = ⟨⟨c.md.logDelta, c.md.logBudget - k⟩, c.g.size⟩ := by
    simp only [rescaleAssign, DCt.ct] at hm; grind
  obtain ⟨hk, rfl⟩ := hk
  obtain ⟨g', h1, hg, sz, hv⟩ := lsh_assign_step he.lo he.hi hc.full k (c.md.logBudget - k) c.md.logBudget 0 (by omega)
  refine ⟨⟨g', ⟨c.md.logDelta, c.md.logBudget - k⟩⟩, ?_, by simp [DCt.ct, sz], hg, fun s t ht => ?_⟩
  · simp only [dRescaleAssign, withMeta_ok _ _ _ hm, h1, Core.Ops.bind]
  · simpa [decC, wrap] using hv s t ht

/-- `ckks_mul_pow2_assign`: the decoded value is multiplied by `2^bits`, exactly -/
theorem dMulPow2Assign_sem {env : Env} (he : EnvOK env) {N r : Nat} {c : DCt} (hc : DOK env N r c) (bits : Nat) :
    ∃ c', dMulPow2Assign env N c bits = .ok c' ∧ c'.ct = c.ct ∧ DOK env N r c' ∧
      ∀ s t, t < N → Near (decC s c' t) (decC s c t * 2 ^ bits) (wrap c') 0 := by
  obtain ⟨g', h1, hg, sz, hv⟩ := lsh_assign_step he.lo he.hi hc.full bits c.md.logBudget c.md.logBudget bits (by omega)
  refine ⟨⟨g', c.md⟩, ?_, by simp [DCt.ct, sz], hg, fun s t ht => ?_⟩
  · simp only [dMulPow2Assign, h1, Core.Ops.bind]
  · simpa [decC, wrap] using hv s t ht

/-- `ckks_div_pow2_assign`: no data is touched; the decoded value is divided by `2^bits`, exactly -/
theorem dDivPow2Assign_sem {env : Env} {N r : Nat} {c : DCt} (hc : DOK env N r c) (bits : Nat)
    {m : Ct} (hm : divPow2Assign env c.ct bits = .ok m) :
    ∃ c', dDivPow2Assign env N c bits = .ok c' ∧ c'.ct = m ∧ DOK env N r c' ∧
      ∀ s t, decC s c' t = decC s c t / 2 ^ bits := by
  have hk : bits ≤ c.md.logBudget ∧ m = ⟨⟨c.md.logDelta, c.md.logBudget - bits⟩, c.g.size⟩ := by
    simp only [divPow2Assign, DCt.ct] at hm; grind
  obtain ⟨hk, rfl⟩ := hk
  refine ⟨⟨c.g, ⟨c.md.logDelta, c.md.logBudget - bits⟩⟩, ?_, by simp [DCt.ct], hc, fun s t => ?_⟩
  · simp only [dDivPow2Assign, withMeta_ok _ _ _ hm]
  · simp only [decC, decG]
    rw [← dec_budget _ _ (c.md.logBudget - bits) c.md.logBudget bits (by omega)]
    field_simp

/-- `ckks_neg_assign`: exact -/
theorem dNegAssign_sem {env : Env} (he : EnvOK env) {N r : Nat} {c : DCt} (hc : DOK env N r c) :
    ∃ c', dNegAssign env N c = .ok c' ∧ c'.ct = c.ct ∧ DOK env N r c' ∧
      ∀ s t, t < N → Near (decC s c' t) (- decC s c t) (wrap c') 0 := by
  obtain ⟨g', h1, hg, sz, hv⟩ := negate_assign_step he.lo he.hi hc c.md.logBudget
  refine ⟨⟨g', c.md⟩, ?_, by simp [DCt.ct, sz], hg, fun s t ht => ?_⟩
  · simp only [dNegAssign, h1, Core.Ops.bind]
  · simpa [decC, wrap] using hv s t ht


/-! ### out-of-place unary operations -/

theorem shiftInto_shape {env : Env} {dst a m : Ct} {extra : Nat} (h : shiftInto env dst a extra = .ok m) :
    m.size = dst.size ∧ m.md.logDelta = a.md.logDelta := by
  simp only [shiftInto] at h; grind

/-- `ckks_rescale_into(dst, k, src)`: the decoded value is the one of `src`, up to one rounding in the last
limb of `dst` when low bits of `src` do not fit -/
theorem dRescaleInto_sem {env : Env} (he : EnvOK env) {N r : Nat} {dst src : DCt} (hd : DOK env N r dst)
    (hs : DOK env N r src) (k : Nat) {m : Ct} (hm : rescaleInto env dst.ct k src.ct = .ok m) :
    ∃ c', dRescaleInto env N dst k src = .ok c' ∧ c'.ct = m ∧ DOK env N r c' ∧
      ∀ s t, t < N → Near (decC s c' t) (decC s src t) (wrap c')
        (sn r s * trl env.base2k dst.g.size src.g.size (rescaleIntoShift env dst.ct k src.ct) * ulp c') := by
  have hsp := rescaleInto_spec env dst.ct src.ct m k hm
  have hsz : m.size = dst.g.size := by simp only [rescaleInto, DCt.ct] at hm; grind
  obtain ⟨g', h1, hg, sz, hv⟩ := lsh_step he.lo he.hi hd hs.full (rescaleIntoShift env dst.ct k src.ct)
    m.md.logBudget src.md.logBudget 0 (by simpa [DCt.ct] using hsp)
  refine ⟨⟨g', m.md⟩, ?_, ct_eq (by rw [sz, hsz] <;> rfl), hg, fun s t ht => ?_⟩
  · simp only [dRescaleInto, withMeta_ok _ _ _ hm, h1, Core.Ops.bind]
  · simpa [decC, wrap, ulp] using hv s t ht

/-- `ckks_mul_pow2_into(dst, src, bits)`: the decoded value is multiplied by `2^bits` -/
theorem dMulPow2Into_sem {env : Env} (he : EnvOK env) {N r : Nat} {dst a : DCt} (hd : DOK env N r dst)
    (ha : DOK env N r a) (bits : Nat) {m : Ct} (hm : mulPow2Into env dst.ct a.ct bits = .ok m) :
    ∃ c', dMulPow2Into env N dst a bits = .ok c' ∧ c'.ct = m ∧ DOK env N r c' ∧
      ∀ s t, t < N → Near (decC s c' t) (decC s a t * 2 ^ bits) (wrap c')
        (sn r s * trl env.base2k dst.g.size a.g.size (unaryShift env dst.ct a.ct bits) * ulp c') := by
  have hsp := unaryShift_spec env dst.ct a.ct m hm bits
  have hsz := (shiftInto_shape hm).1
  obtain ⟨g', h1, hg, sz, hv⟩ := lsh_step he.lo he.hi hd ha.full (unaryShift env dst.ct a.ct bits)
    m.md.logBudget a.md.logBudget bits (by simpa [DCt.ct] using hsp)
  refine ⟨⟨g', m.md⟩, ?_, ct_eq (by rw [sz, hsz] <;> rfl), hg, fun s t ht => ?_⟩
  · simp only [dMulPow2Into, withMeta_ok _ _ _ hm, h1, Core.Ops.bind]
  · simpa [decC, wrap, ulp] using hv s t ht

/-- `ckks_div_pow2_into(dst, src, bits)`: the decoded value is divided by `2^bits` (the limbs are only
aligned to the destination; the scale is re-interpreted) -/
theorem dDivPow2Into_sem {env : Env} (he : EnvOK env) {N r : Nat} {dst a : DCt} (hd : DOK env N r dst)
    (ha : DOK env N r a) (bits : Nat) {m : Ct} (hm : divPow2Into env dst.ct a.ct bits = .ok m) :
    ∃ c', dDivPow2Into env N dst a bits = .ok c' ∧ c'.ct = m ∧ DOK env N r c' ∧
      ∀ s t, t < N → Near (decC s c' t) (decC s a t / 2 ^ bits) (wrap c')
        (sn r s * trl env.base2k dst.g.size a.g.size (unaryShift env dst.ct a.ct 0) * ulp c') := by
  have hsp := divPow2_spec env dst.ct a.ct m bits hm
  have hsz : m.size = dst.g.size := by simp only [divPow2Into, shiftInto, Res.bind, DCt.ct] at hm; grind
  obtain ⟨g', h1, hg, sz, hv⟩ := lsh_step he.lo he.hi hd ha.full (unaryShift env dst.ct a.ct 0)
    (m.md.logBudget + bits) a.md.logBudget 0 (by simp only [DCt.ct] at hsp ⊢; omega)
  refine ⟨⟨g', m.md⟩, ?_, ct_eq (by rw [sz, hsz] <;> rfl), hg, fun s t ht => ?_⟩
  · simp only [dDivPow2Into, withMeta_ok _ _ _ hm, h1, Core.Ops.bind]
  · have := hv s t ht
    apply Near.div_pow
    simp only [decC, wrap, ulp, decG, ulpG] at this ⊢
    rw [dec_budget _ _ m.md.logBudget (m.md.logBudget + bits) bits rfl, ← pow_add]
    simp only [pow_zero, mul_one] at this
    convert this using 1
    rw [pow_add]; ring

/-- `ckks_neg_into(dst, src)` -/
theorem dNegInto_sem {env : Env} (he : EnvOK env) {N r : Nat} {dst a : DCt} (hd : DOK env N r dst)
    (ha : DOK env N r a) {m : Ct} (hm : negInto env dst.ct a.ct = .ok m) :
    ∃ c', dNegInto env N dst a = .ok c' ∧ c'.ct = m ∧ DOK env N r c' ∧
      ∀ s t, t < N → Near (decC s c' t) (- decC s a t) (wrap c')
        (sn r s * trl env.base2k dst.g.size a.g.size (unaryShift env dst.ct a.ct 0) * ulp c') := by
  by_cases hoff : offsetUnary env dst.ct a.ct ≠ 0
  · have hm' : shiftInto env dst.ct a.ct 0 = .ok m := by rw [negInto, if_pos hoff] at hm; exact hm
    have hsp := unaryShift_spec env dst.ct a.ct m hm' 0
    have hsz := (shiftInto_shape hm').1
    obtain ⟨g1, h1, hg1, sz1, hv1⟩ := lsh_step he.lo he.hi hd ha.full (unaryShift env dst.ct a.ct 0)
      m.md.logBudget a.md.logBudget 0 (by simpa [DCt.ct] using hsp)
    obtain ⟨g', h2, hg, sz, hv⟩ := negate_assign_step he.lo he.hi hg1 m.md.logBudget
    refine ⟨⟨g', m.md⟩, ?_, ct_eq (by rw [sz, sz1, hsz] <;> rfl), hg, fun s t ht => ?_⟩
    · simp only [dNegInto, withMeta_ok _ _ _ hm, hoff, if_true, h1, h2, Core.Ops.bind, ne_eq, not_false_eq_true]
    · have a1 := hv s t ht
      have a2 := (hv1 s t ht).neg
      have := a1.trans a2
      simp only [pow_zero, mul_one, zero_add] at this
      simpa [decC, wrap, ulp, ulpG, hg.bk, hg1.bk, sz] using this
  · have h0 : offsetUnary env dst.ct a.ct = 0 := by simpa using hoff
    have hmd : m = ⟨a.md, dst.g.size⟩ := by
      rw [negInto, if_neg hoff] at hm
      injection hm with hm; exact hm.symm
    subst hmd
    obtain ⟨g', h1, hg, sz, hv⟩ := negate_step he.lo he.hi hd ha a.md.logBudget
    refine ⟨⟨g', a.md⟩, ?_, by simp [DCt.ct, sz], hg, fun s t ht => ?_⟩
    · simp only [dNegInto, withMeta_ok _ _ _ hm, h0, h1, Core.Ops.bind, ne_eq, not_true_eq_false, if_false]
    · have := hv s t ht
      have e : trl env.base2k dst.g.size a.g.size (unaryShift env dst.ct a.ct 0) = trq dst.g.size a.g.size := by
        simp only [trl, trq, unaryShift, h0, Nat.add_zero]
        have := he.lo
        by_cases hh : a.g.size ≤ dst.g.size
        · simp [hh, Nat.mul_le_mul_left]
        · have : ¬ env.base2k * a.g.size ≤ env.base2k * dst.g.size := by
            intro hle; exact hh (Nat.le_of_mul_le_mul_left hle (by omega))
          simp [hh, this]
      rw [e]
      simpa [decC, wrap, ulp] using this


/-! ### addition and subtraction of ciphertexts -/

/-- sign of the second operand -/
def sg (sub : Bool) : ℚ := if sub then -1 else 1

theorem ulpG_congr {g g' : GLWE} (h1 : g.base2k = g'.base2k) (h2 : g.size = g'.size) (β : Nat) : ulpG g β = ulpG g' β := by
  simp only [ulpG, h1, h2]

theorem _root_.Ckks.CoreSem.GB.ulp_eq {N b r : Nat} {H H' : Int} {g g' : GLWE} (h : GB N b r H g) (h' : GB N b r H' g') (hs : g.size = g'.size)
    (β : Nat) : ulpG g β = ulpG g' β := ulpG_congr (by rw [h.bk, h'.bk]) hs β

theorem two_units {σ τ u : ℚ} (hσ : 0 ≤ σ) (hu : 0 ≤ u) (hτ : τ ≤ 1) : σ * u + (σ * τ * u + 0) ≤ 2 * σ * u := by
  have : σ * τ * u ≤ σ * 1 * u := by gcongr
  linarith

/-- data path of `ckks_add_into` / `ckks_sub_into` before the final normalisation: the aligned sum, at most
two roundings in the last limb of the destination -/
theorem addIntoData_sem {env : Env} (he : EnvOK env) {N r : Nat} {dst a b : DCt} (hd : DOK env N r dst)
    (ha : DOK env N r a) (hb : DOK env N r b) (sub : Bool) {m : Ct} (hm : addCtInto env dst.ct a.ct b.ct = .ok m) :
    ∃ g1, addIntoData env N sub dst a b = .ok g1 ∧ GB N env.base2k r (CoreSem.full env.base2k) g1 ∧ g1.size = dst.g.size ∧
      ∀ s t, t < N → Near (decG s g1 m.md.logBudget t) (decC s a t + sg sub * decC s b t) (2 ^ m.md.logBudget)
        (2 * sn r s * ulpG g1 m.md.logBudget) := by
  obtain ⟨hs1, hs2⟩ := addShiftAB_spec env dst.ct a.ct b.ct m hm
  simp only [DCt.ct] at hs1 hs2
  by_cases hc : offsetBinary env dst.ct a.ct b.ct = 0 ∧ a.md.logBudget = b.md.logBudget
  · -- equal budgets, nothing to pay: the exact kernels
    have hsh : addShiftAB env dst.ct a.ct b.ct = (0, 0) := by
      simp only [addShiftAB]; rw [if_pos (by simpa [DCt.ct] using hc)]
    have hsh' : addShiftAB env ⟨dst.md, dst.g.size⟩ ⟨a.md, a.g.size⟩ ⟨b.md, b.g.size⟩ = (0, 0) := hsh
    rw [hsh'] at hs1 hs2
    have e1 : m.md.logBudget = a.md.logBudget := by simpa using hs1
    have e2 : m.md.logBudget = b.md.logBudget := by simpa using hs2
    cases sub with
    | false =>
      obtain ⟨g1, h1, hg1, sz1, hv1⟩ := add_into_step he.lo he.hi hd ha hb m.md.logBudget
      refine ⟨g1, by simp only [addIntoData, if_pos hc]; exact h1, hg1, sz1, fun s t ht => ?_⟩
      have := (hv1 s t ht).mono (by
        have h1 := trq_le_one dst.g.size a.g.size
        have h2 := trq_le_one dst.g.size b.g.size
        have h3 := sn_pos r s
        have h4 := ulpG_pos g1 m.md.logBudget
        have : sn r s * (trq dst.g.size a.g.size + trq dst.g.size b.g.size) * ulpG g1 m.md.logBudget
            ≤ sn r s * (1 + 1) * ulpG g1 m.md.logBudget := by gcongr
        linarith : _ ≤ 2 * sn r s * ulpG g1 m.md.logBudget)
      simp only [decC, sg, e1.symm, e2.symm] at this ⊢
      simpa [e1, e2] using this
    | true =>
      obtain ⟨g1, h1, hg1, sz1, hv1⟩ := sub_into_step he.lo he.hi hd ha hb m.md.logBudget
      refine ⟨g1, by simp only [addIntoData, if_pos hc]; exact h1, hg1, sz1, fun s t ht => ?_⟩
      have := (hv1 s t ht).mono (by
        have h1 := trq_le_one dst.g.size a.g.size
        have h2 := trq_le_one dst.g.size b.g.size
        have h3 := sn_pos r s
        have h4 := ulpG_pos g1 m.md.logBudget
        have : sn r s * (trq dst.g.size a.g.size + trq dst.g.size b.g.size) * ulpG g1 m.md.logBudget
            ≤ sn r s * (1 + 1) * ulpG g1 m.md.logBudget := by gcongr
        linarith : _ ≤ 2 * sn r s * ulpG g1 m.md.logBudget)
      simp only [decC, sg] at this ⊢
      rw [← e1, ← e2]
      simpa [sub_eq_add_neg] using this
  · -- shifted copy of one operand, fused shift-accumulate of the other
    cases sub with
    | true =>
      obtain ⟨g1, h1, hg1, sz1, hv1⟩ := lsh_step he.lo he.hi hd ha.full (addShiftAB env dst.ct a.ct b.ct).1
        m.md.logBudget a.md.logBudget 0 (by simpa [DCt.ct] using hs1)
      obtain ⟨g2, h2, hg2, sz2, hv2⟩ := lsh_sub_step he.lo he.hi hg1 hb.full (addShiftAB env dst.ct a.ct b.ct).2
        m.md.logBudget b.md.logBudget (by simpa [DCt.ct] using hs2)
      refine ⟨g2, ?_, hg2, by rw [sz2, sz1], fun s t ht => ?_⟩
      · simp only [addIntoData, if_neg hc, if_true, h1, Core.Ops.bind]; exact h2
      · have a1 := hv1 s t ht
        simp only [pow_zero, mul_one] at a1
        have a2 := hv2 s t ht
        have := a2.trans (a1.sub (Near.refl (decG s b.g b.md.logBudget t) _))
        rw [hg1.ulp_eq hg2 sz2.symm] at this
        have := this.mono (two_units (le_trans zero_le_one (sn_pos r s)) (le_of_lt (ulpG_pos _ _)) (trl_le_one _ _ _ _))
        simpa [decC, sg, sub_eq_add_neg] using this
    | false =>
      by_cases hle : a.md.logBudget ≤ b.md.logBudget
      · obtain ⟨g1, h1, hg1, sz1, hv1⟩ := lsh_step he.lo he.hi hd ha.full (addShiftAB env dst.ct a.ct b.ct).1
          m.md.logBudget a.md.logBudget 0 (by simpa [DCt.ct] using hs1)
        obtain ⟨g2, h2, hg2, sz2, hv2⟩ := lsh_add_step he.lo he.hi hg1 hb.full (addShiftAB env dst.ct a.ct b.ct).2
          m.md.logBudget b.md.logBudget (by simpa [DCt.ct] using hs2)
        refine ⟨g2, ?_, hg2, by rw [sz2, sz1], fun s t ht => ?_⟩
        · simp only [addIntoData, if_neg hc, if_pos hle, Bool.false_eq_true, if_false, h1, Core.Ops.bind]; exact h2
        · have a1 := hv1 s t ht
          simp only [pow_zero, mul_one] at a1
          have a2 := hv2 s t ht
          have := a2.trans (a1.add (Near.refl (decG s b.g b.md.logBudget t) _))
          rw [hg1.ulp_eq hg2 sz2.symm] at this
          have := this.mono (two_units (le_trans zero_le_one (sn_pos r s)) (le_of_lt (ulpG_pos _ _)) (trl_le_one _ _ _ _))
          simpa [decC, sg] using this
      · obtain ⟨g1, h1, hg1, sz1, hv1⟩ := lsh_step he.lo he.hi hd hb.full (addShiftAB env dst.ct a.ct b.ct).2
          m.md.logBudget b.md.logBudget 0 (by simpa [DCt.ct] using hs2)
        obtain ⟨g2, h2, hg2, sz2, hv2⟩ := lsh_add_step he.lo he.hi hg1 ha.full (addShiftAB env dst.ct a.ct b.ct).1
          m.md.logBudget a.md.logBudget (by simpa [DCt.ct] using hs1)
        refine ⟨g2, ?_, hg2, by rw [sz2, sz1], fun s t ht => ?_⟩
        · simp only [addIntoData, if_neg hc, if_neg hle, Bool.false_eq_true, if_false, h1, Core.Ops.bind]; exact h2
        · have a1 := hv1 s t ht
          simp only [pow_zero, mul_one] at a1
          have a2 := hv2 s t ht
          have := a2.trans (a1.add (Near.refl (decG s a.g a.md.logBudget t) _))
          rw [hg1.ulp_eq hg2 sz2.symm] at this
          have := this.mono (two_units (le_trans zero_le_one (sn_pos r s)) (le_of_lt (ulpG_pos _ _)) (trl_le_one _ _ _ _))
          simpa [decC, sg, add_comm] using this

/-- **`ckks_add_into` / `ckks_sub_into`**: whenever the metadata model returns `Ok m`, the data path returns
a ciphertext of metadata `m` whose decoded value is the sum (difference) of the decoded operands, modulo
`2^log_budget`, within two units of its last limb times `1 + Σ‖sᵢ‖₁` -/
theorem dAddInto_sem {env : Env} (he : EnvOK env) {N r : Nat} {dst a b : DCt} (hd : DOK env N r dst)
    (ha : DOK env N r a) (hb : DOK env N r b) (sub : Bool) {m : Ct} (hm : addCtInto env dst.ct a.ct b.ct = .ok m) :
    ∃ c', dAddInto env N sub dst a b = .ok c' ∧ c'.ct = m ∧ DOK env N r c' ∧
      ∀ s t, t < N → Near (decC s c' t) (decC s a t + sg sub * decC s b t) (wrap c') (2 * sn r s * ulp c') := by
  obtain ⟨g1, h1, hg1, sz1, hv1⟩ := addIntoData_sem he hd ha hb sub hm
  obtain ⟨g', h2, hg, sz, hv⟩ := normalize_assign_step he.lo he.hi hg1 m.md.logBudget
  have hsz : m.size = dst.g.size := by simp only [addCtInto, DCt.ct] at hm; grind
  refine ⟨⟨g', m.md⟩, ?_, ct_eq (by rw [sz, sz1, hsz]), hg, fun s t ht => ?_⟩
  · simp only [dAddInto, h1, Core.Ops.bind, withMeta_ok _ _ _ hm, h2]
  · have := (hv s t ht).trans (hv1 s t ht)
    rw [zero_add, hg1.ulp_eq hg sz.symm] at this
    simpa [decC, wrap, ulp] using this


theorem one_unit {σ τ u : ℚ} (hσ : 0 ≤ σ) (hu : 0 ≤ u) (hτ : τ ≤ 1) : σ * τ * u ≤ σ * u := by
  have : σ * τ * u ≤ σ * 1 * u := by gcongr
  linarith

/-- data path of `ckks_add_assign` / `ckks_sub_assign` before the final normalisation -/
theorem addAssignData_sem {env : Env} (he : EnvOK env) {N r : Nat} {dst a : DCt} (hd : DOK env N r dst)
    (ha : DOK env N r a) (sub : Bool) {m : Ct} (hm : addCtAssign env dst.ct a.ct = .ok m) :
    ∃ g1, addAssignData N sub dst a = .ok g1 ∧ GB N env.base2k r (CoreSem.full env.base2k) g1 ∧ g1.size = dst.g.size ∧
      ∀ s t, t < N → Near (decG s g1 m.md.logBudget t) (decC s dst t + sg sub * decC s a t) (2 ^ m.md.logBudget)
        (sn r s * ulpG g1 m.md.logBudget) := by
  obtain ⟨hs1, hs2⟩ := assignShiftDA_spec env dst.ct a.ct m hm
  simp only [DCt.ct] at hs1 hs2
  have hσ : ∀ s, 0 ≤ sn r s := fun s => le_trans zero_le_one (sn_pos r s)
  by_cases hlt : dst.md.logBudget < a.md.logBudget
  · -- the operand is shifted into the accumulator
    have hsh : assignShiftDA dst.ct a.ct = (0, a.md.logBudget - dst.md.logBudget) := by
      unfold assignShiftDA; exact if_pos hlt
    have hsh' : assignShiftDA ⟨dst.md, dst.g.size⟩ ⟨a.md, a.g.size⟩ = (0, a.md.logBudget - dst.md.logBudget) := hsh
    rw [hsh'] at hs1 hs2
    have e1 : m.md.logBudget = dst.md.logBudget := by simpa using hs1
    cases sub with
    | false =>
      obtain ⟨g1, h1, hg1, sz1, hv1⟩ := lsh_add_step he.lo he.hi hd ha.full (a.md.logBudget - dst.md.logBudget)
        m.md.logBudget a.md.logBudget (by simpa using hs2)
      refine ⟨g1, ?_, hg1, sz1, fun s t ht => ?_⟩
      · simp only [addAssignData, if_pos hlt, hsh, Bool.false_eq_true, if_false]; exact h1
      · have := hv1 s t ht
        simpa [decC, sg, e1] using this
    | true =>
      obtain ⟨g1, h1, hg1, sz1, hv1⟩ := lsh_sub_step he.lo he.hi hd ha.full (a.md.logBudget - dst.md.logBudget)
        m.md.logBudget a.md.logBudget (by simpa using hs2)
      refine ⟨g1, ?_, hg1, sz1, fun s t ht => ?_⟩
      · simp only [addAssignData, if_pos hlt, hsh, if_true]; exact h1
      · have := hv1 s t ht
        simpa [decC, sg, e1, sub_eq_add_neg] using this
  · have hsh : assignShiftDA dst.ct a.ct = (dst.md.logBudget - a.md.logBudget, 0) := by
      unfold assignShiftDA; exact if_neg hlt
    have hsh' : assignShiftDA ⟨dst.md, dst.g.size⟩ ⟨a.md, a.g.size⟩ = (dst.md.logBudget - a.md.logBudget, 0) := hsh
    rw [hsh'] at hs1 hs2
    have e2 : m.md.logBudget = a.md.logBudget := by simpa using hs2
    by_cases hgt : dst.md.logBudget > a.md.logBudget
    · -- the accumulator is shifted in place, exactly, then the exact kernels
      obtain ⟨g0, h0, hg0, sz0, hv0⟩ := lsh_assign_step he.lo he.hi hd.full (dst.md.logBudget - a.md.logBudget)
        m.md.logBudget dst.md.logBudget 0 (by omega)
      cases sub with
      | false =>
        obtain ⟨g1, h1, hg1, sz1, hv1⟩ := add_assign_step he.lo he.hi hg0 ha m.md.logBudget
        refine ⟨g1, ?_, hg1, by rw [sz1, sz0], fun s t ht => ?_⟩
        · simp only [addAssignData, if_neg hlt, if_pos hgt, hsh, h0, Core.Ops.bind, Bool.false_eq_true, if_false]; exact h1
        · have a0 := hv0 s t ht
          simp only [pow_zero, mul_one] at a0
          have := ((hv1 s t ht).trans (a0.add (Near.refl (decG s a.g m.md.logBudget t) _))).mono
            (by simpa using one_unit (hσ s) (le_of_lt (ulpG_pos g1 m.md.logBudget)) (trq_le_one g0.size a.g.size))
          simpa [decC, sg, e2] using this
      | true =>
        obtain ⟨g1, h1, hg1, sz1, hv1⟩ := sub_assign_step he.lo he.hi hg0 ha m.md.logBudget
        refine ⟨g1, ?_, hg1, by rw [sz1, sz0], fun s t ht => ?_⟩
        · simp only [addAssignData, if_neg hlt, if_pos hgt, hsh, h0, Core.Ops.bind, if_true]; exact h1
        · have a0 := hv0 s t ht
          simp only [pow_zero, mul_one] at a0
          have := ((hv1 s t ht).trans (a0.sub (Near.refl (decG s a.g m.md.logBudget t) _))).mono
            (by simpa using one_unit (hσ s) (le_of_lt (ulpG_pos g1 m.md.logBudget)) (trq_le_one g0.size a.g.size))
          simpa [decC, sg, e2, sub_eq_add_neg] using this
    · -- equal budgets
      have e1 : m.md.logBudget = dst.md.logBudget := by omega
      cases sub with
      | false =>
        obtain ⟨g1, h1, hg1, sz1, hv1⟩ := add_assign_step he.lo he.hi hd ha m.md.logBudget
        refine ⟨g1, ?_, hg1, sz1, fun s t ht => ?_⟩
        · simp only [addAssignData, if_neg hlt, if_neg hgt, Bool.false_eq_true, if_false]; exact h1
        · have := (hv1 s t ht).mono (one_unit (hσ s) (le_of_lt (ulpG_pos g1 m.md.logBudget)) (trq_le_one dst.g.size a.g.size))
          rw [e1] at this ⊢
          have e3 : dst.md.logBudget = a.md.logBudget := by omega
          simp only [decC, sg]
          rw [← e3]
          simpa using this
      | true =>
        obtain ⟨g1, h1, hg1, sz1, hv1⟩ := sub_assign_step he.lo he.hi hd ha m.md.logBudget
        refine ⟨g1, ?_, hg1, sz1, fun s t ht => ?_⟩
        · simp only [addAssignData, if_neg hlt, if_neg hgt, if_true]; exact h1
        · have := (hv1 s t ht).mono (one_unit (hσ s) (le_of_lt (ulpG_pos g1 m.md.logBudget)) (trq_le_one dst.g.size a.g.size))
          rw [e1] at this ⊢
          have e3 : dst.md.logBudget = a.md.logBudget := by omega
          simp only [decC, sg]
          rw [← e3]
          simpa [sub_eq_add_neg] using this

/-- **`ckks_add_assign` / `ckks_sub_assign`** -/
theorem dAddAssign_sem {env : Env} (he : EnvOK env) {N r : Nat} {dst a : DCt} (hd : DOK env N r dst)
    (ha : DOK env N r a) (sub : Bool) {m : Ct} (hm : addCtAssign env dst.ct a.ct = .ok m) :
    ∃ c', dAddAssign env N sub dst a = .ok c' ∧ c'.ct = m ∧ DOK env N r c' ∧
      ∀ s t, t < N → Near (decC s c' t) (decC s dst t + sg sub * decC s a t) (wrap c') (sn r s * ulp c') := by
  obtain ⟨g1, h1, hg1, sz1, hv1⟩ := addAssignData_sem he hd ha sub hm
  obtain ⟨g', h2, hg, sz, hv⟩ := normalize_assign_step he.lo he.hi hg1 m.md.logBudget
  have hsz : m.size = dst.g.size := by simp only [addCtAssign, DCt.ct] at hm; grind
  refine ⟨⟨g', m.md⟩, ?_, ct_eq (by rw [sz, sz1, hsz]), hg, fun s t ht => ?_⟩
  · simp only [dAddAssign, h1, Core.Ops.bind, withMeta_ok _ _ _ hm, h2]
  · have := (hv s t ht).trans (hv1 s t ht)
    rw [zero_add, hg1.ulp_eq hg sz.symm] at this
    simpa [decC, wrap, ulp] using this

end Ckks
