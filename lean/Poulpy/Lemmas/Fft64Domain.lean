import Poulpy.Lemmas.Fft64Top
open Complex
namespace Fft64
open F64

/-- growth factor of the whole pipeline per unit of magnitude: inverse levels × (forward levels)² × product rounding -/
noncomputable def G (K : Nat) (τ : ℝ) : ℝ := (1 + γi τ / 2) ^ K * ((1 + γf τ / 2) ^ K) ^ 2 * (1 + 3 / 2 * κ)

theorem four_pow (K : Nat) : (4:ℝ) ^ K = (2 ^ K) ^ 2 := by
  rw [← pow_mul, mul_comm, pow_mul]; norm_num

theorem AP_eq (K : Nat) (Ma Mb : ℝ) : AP K Ma Mb = 4 ^ K * (9 / 4) * (Ma * Mb) := by
  rw [four_pow]; unfold AP AF A0; ring

theorem AFEF_eq (K : Nat) (τ M : ℝ) : AF K M + EF K τ M = 2 ^ K * (1 + γf τ / 2) ^ K * (3 / 2 * M) := by
  unfold AF EF A0 errB; ring

theorem APEP_eq (K : Nat) (τ Ma Mb : ℝ) :
    AP K Ma Mb + EP K τ Ma Mb = 4 ^ K * (9 / 4) * (((1 + γf τ / 2) ^ K) ^ 2 * (1 + 3 / 2 * κ)) * (Ma * Mb) := by
  rw [four_pow]; unfold EP AP AF EF A0 errB; ring

theorem EI_div (K : Nat) (τ Ma Mb : ℝ) :
    EI K τ Ma Mb / 2 ^ K = 4 ^ K * (9 / 4) * (G K τ - 1) * (Ma * Mb) := by
  have h : (2:ℝ) ^ K ≠ 0 := by positivity
  unfold EI errB
  rw [mul_div_cancel_left₀ _ h, APEP_eq, AP_eq]; unfold G; ring

theorem G_facts (K : Nat) (τ : ℝ) (hτ0 : 0 ≤ τ) :
    1 ≤ G K τ ∧ (1 + γf τ / 2) ^ K ≤ G K τ ∧ 1 ≤ (1 + γf τ / 2) ^ K ∧ 1 ≤ (1 + γi τ / 2) ^ K := by
  have hκ := κ_nonneg
  have hγf := γf_nonneg τ hτ0
  have hγi := γi_nonneg τ hτ0
  have hF1 : 1 ≤ (1 + γf τ / 2) ^ K := one_le_pow₀ (by linarith)
  have hGi1 : 1 ≤ (1 + γi τ / 2) ^ K := one_le_pow₀ (by linarith)
  have hk1 : (1:ℝ) ≤ 1 + 3 / 2 * κ := by linarith
  unfold G
  set F := (1 + γf τ / 2) ^ K
  set Gi := (1 + γi τ / 2) ^ K
  have a1 : F ≤ F ^ 2 := by rw [sq]; exact le_mul_of_one_le_left (by linarith) hF1
  have a2 : F ^ 2 ≤ Gi * F ^ 2 := le_mul_of_one_le_left (by positivity) hGi1
  have a3 : Gi * F ^ 2 ≤ Gi * F ^ 2 * (1 + 3 / 2 * κ) := le_mul_of_one_le_right (by positivity) hk1
  exact ⟨by linarith, by linarith, hF1, hGi1⟩

theorem rp_aux (F X : ℝ) (hF1 : 1 ≤ F) (hF2 : F < 2) (hX0 : 0 ≤ X) (hX : X < (2:ℝ) ^ (51:Nat)) :
    (9 / 4) * (F * F) * X ≤ (2:ℝ) ^ (56:Nat) := by
  have h1 : F * F ≤ 2 * 2 := mul_le_mul hF2.le hF2.le (by linarith) (by norm_num)
  have h2 : (9 / 4) * (F * F) * X ≤ (9 / 4) * (2 * 2) * X := by
    apply mul_le_mul_of_nonneg_right _ hX0; linarith
  norm_num at hX ⊢; linarith

theorem ri_aux (T Gv X : ℝ) (hT0 : 0 ≤ T) (hTX : T ≤ X) (hG0 : 0 ≤ Gv) (hG : Gv < 2) (hX1 : 1 ≤ X) (hX : X < (2:ℝ) ^ (51:Nat)) :
    (9 / 4) * T * Gv * X ≤ (2:ℝ) ^ (106:Nat) := by
  have h1 : T * Gv ≤ X * 2 := mul_le_mul hTX hG.le hG0 (by linarith)
  have h2 : (9 / 4) * T * Gv * X ≤ (9 / 4) * (X * 2) * X := by
    have : (9 / 4) * T * Gv = (9 / 4) * (T * Gv) := by ring
    rw [this]; apply mul_le_mul_of_nonneg_right _ (by linarith); linarith
  have h3 : X * X ≤ (2:ℝ) ^ (51:Nat) * (2:ℝ) ^ (51:Nat) := mul_le_mul hX.le hX.le (by linarith) (by positivity)
  have e106 : (2:ℝ) ^ (106:Nat) = 16 * ((2:ℝ) ^ (51:Nat) * (2:ℝ) ^ (51:Nat)) := by norm_num
  rw [e106]
  have : (9 / 4) * (X * 2) * X = (9 / 2) * (X * X) := by ring
  rw [this] at h2
  generalize (2:ℝ) ^ (51:Nat) * (2:ℝ) ^ (51:Nat) = Z at *
  linarith

/-- the whole domain predicate follows from its main inequality in closed form:
`n²·(9/16)·Ma·Mb·((G−1)(1+u) + u) + η < 1/2`, `n = 2·2^K` -/
theorem svpDomain_of_main (K : Nat) (τ Ma Mb : ℝ) (hτ0 : 0 ≤ τ) (hτ1 : τ ≤ 1) (hK : K ≤ 1022) (hMa : 1 ≤ Ma) (hMb : 1 ≤ Mb)
    (hmain : 4 ^ K * (9 / 4) * ((G K τ - 1) * (1 + u) + u) * (Ma * Mb) + η < 1 / 2) : SvpDomain K τ Ma Mb := by
  have hu := u_pos
  have hη := η_pos
  have hκ := κ_nonneg
  have hγf := γf_nonneg τ hτ0
  have hγi := γi_nonneg τ hτ0
  set F := (1 + γf τ / 2) ^ K with hF
  set Gi := (1 + γi τ / 2) ^ K with hGi
  have hF1 : 1 ≤ F := one_le_pow₀ (by linarith)
  have hGi1 : 1 ≤ Gi := one_le_pow₀ (by linarith)
  set Q : ℝ := 4 ^ K with hQ
  have hQ1 : 1 ≤ Q := one_le_pow₀ (by norm_num)
  have h2Q : (2:ℝ) ^ K ≤ Q := by
    rw [hQ]; exact pow_le_pow_left₀ (by norm_num) (by norm_num) K
  have h2K1 : (1:ℝ) ≤ 2 ^ K := one_le_pow₀ (by norm_num)
  set P := Ma * Mb with hP
  have hP1 : 1 ≤ P := by rw [hP]; have := mul_le_mul hMa hMb (by norm_num) (by linarith); linarith
  have hMaP : Ma ≤ P := by rw [hP]; exact le_mul_of_one_le_right (by linarith) hMb
  have hMbP : Mb ≤ P := by rw [hP]; exact le_mul_of_one_le_left (by linarith) hMa
  have hGdef : G K τ = Gi * F ^ 2 * (1 + 3 / 2 * κ) := rfl
  obtain ⟨hG1, hFG, _, _⟩ := G_facts K τ hτ0
  set g := G K τ - 1 with hg
  have hg0 : 0 ≤ g := by linarith
  have hQP : 1 ≤ Q * P := by
    have := mul_le_mul hQ1 hP1 (by norm_num) (by linarith)
    linarith
  -- consequences of the main inequality
  have e1 : Q * (9 / 4) * (g * (1 + u) + u) * P = (9 / 4) * (Q * P) * g * (1 + u) + (9 / 4) * u * (Q * P) := by ring
  rw [e1] at hmain
  have t1 : 0 ≤ (9 / 4) * (Q * P) * g * (1 + u) := by positivity
  have t2 : 0 ≤ (9 / 4) * u * (Q * P) := by positivity
  have hQPu : (9 / 4) * u * (Q * P) < 1 / 2 := by linarith
  have hgl : (9 / 4) * (Q * P) * g < 1 / 2 := by
    have : (9 / 4) * (Q * P) * g ≤ (9 / 4) * (Q * P) * g * (1 + u) :=
      le_mul_of_one_le_right (by positivity) (by linarith)
    linarith
  have hg1 : g < 1 := by
    have h1 : (1:ℝ) ≤ 9 / 4 * (Q * P) := by linarith
    have h2 : g ≤ 9 / 4 * (Q * P) * g := le_mul_of_one_le_left hg0 h1
    linarith
  have hG2 : G K τ < 2 := by linarith
  have hu53 : u = 1 / (2:ℝ) ^ (53:Nat) := by unfold u; rw [zpow_neg, one_div]; norm_num
  have hQP51 : Q * P < (2:ℝ) ^ (51:Nat) := by
    rw [hu53] at hQPu
    have : (9 / 4) * (Q * P) < 1 / 2 * (2:ℝ) ^ (53:Nat) := by
      have h53 : (0:ℝ) < (2:ℝ) ^ (53:Nat) := by positivity
      have := (div_lt_iff₀ h53).mp (by
        have e : 9 / 4 * (1 / (2:ℝ) ^ (53:Nat)) * (Q * P) = (9 / 4 * (Q * P)) / (2:ℝ) ^ (53:Nat) := by ring
        rw [e] at hQPu; exact hQPu)
      exact this
    norm_num at this ⊢
    linarith
  have hF2' : F < 2 := lt_of_le_of_lt hFG hG2
  have up : ∀ (X : ℝ) (e : Nat), X ≤ (2:ℝ) ^ e → (e:Int) ≤ 997 → X ≤ (2:ℝ) ^ (997:Int) ∧ X ≤ (2:ℝ) ^ (999:Int) ∧ X ≤ (2:ℝ) ^ (1000:Int) := by
    intro X e hX he
    have h1 : (2:ℝ) ^ e = (2:ℝ) ^ (e:Int) := (zpow_natCast 2 e).symm
    rw [h1] at hX
    exact ⟨le_trans hX (two_pow_le _ _ he), le_trans hX (two_pow_le _ _ (by omega)), le_trans hX (two_pow_le _ _ (by omega))⟩
  have hMa0 : 0 ≤ Ma := by linarith
  have hMb0 : 0 ≤ Mb := by linarith
  have raux : ∀ M : ℝ, 0 ≤ M → M ≤ P → 2 ^ K * F * (A0 M + 0) ≤ (2:ℝ) ^ (999:Int) := by
    intro M hM0 hM
    refine (up _ 54 ?_ (by norm_num)).2.1
    have h1 : 2 ^ K * F * (A0 M + 0) ≤ Q * 2 * (3 / 2 * P) := by
      unfold A0
      have : 2 ^ K * F ≤ Q * 2 := mul_le_mul h2Q hF2'.le (by linarith) (by linarith)
      have h3 : 3 / 2 * M + 0 ≤ 3 / 2 * P := by linarith
      exact mul_le_mul this h3 (by linarith) (by positivity)
    have : Q * 2 * (3 / 2 * P) = 3 * (Q * P) := by ring
    rw [this] at h1
    norm_num at hQP51 ⊢; linarith
  refine ⟨hτ0, hτ1, hK, hMa, hMb, raux Ma hMa0 hMaP, raux Mb hMb0 hMbP, ?_, ?_, ?_, ?_⟩
  · -- rp
    rw [AFEF_eq, AFEF_eq]
    refine (up _ 56 ?_ (by norm_num)).2.2
    have e : 2 ^ K * F * (3 / 2 * Ma) * (2 ^ K * F * (3 / 2 * Mb)) = (9 / 4) * (F * F) * (((2:ℝ) ^ K) ^ 2 * P) := by rw [hP]; ring
    rw [e, ← four_pow, ← hQ]
    exact rp_aux F (Q * P) hF1 hF2' (by linarith) hQP51
  · -- ri
    rw [APEP_eq]
    refine (up _ 106 ?_ (by norm_num)).1
    have e : 2 ^ K * Gi * (Q * (9 / 4) * (F ^ 2 * (1 + 3 / 2 * κ)) * P) = (9 / 4) * (2 ^ K) * (G K τ) * (Q * P) := by
      rw [hGdef]; ring
    rw [e]
    have hT : (2:ℝ) ^ K ≤ Q * P := le_trans h2Q (le_mul_of_one_le_right (by linarith) hP1)
    exact ri_aux (2 ^ K) (G K τ) (Q * P) (by positivity) hT (by linarith) hG2 hQP hQP51
  · -- r62
    rw [AP_eq]
    have : Q * (9 / 4) * P = (9 / 4) * (Q * P) := by ring
    rw [this]; norm_num at hQP51 ⊢; linarith
  · -- main
    rw [EI_div, AP_eq]
    have : Q * (9 / 4) * g * P * (1 + u) + u * (Q * (9 / 4) * P) + η =
        9 / 4 * (Q * P) * g * (1 + u) + 9 / 4 * u * (Q * P) + η := by ring
    rw [this]; exact hmain

end Fft64
