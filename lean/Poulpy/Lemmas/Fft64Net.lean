import Poulpy.Lemmas.Fft64BflyInv
import Mathlib.Analysis.SpecialFunctions.Trigonometric.Basic
import Mathlib.Data.List.Forall2

open Complex

namespace Fft64
open F64

/-- the point of the unit circle at `θ` turns: `e^{2πiθ}` -/
noncomputable def cis (θ : ℝ) : ℂ := Complex.exp (((2 * Real.pi * θ : ℝ) : ℂ) * I)

theorem cis_add (a b : ℝ) : cis (a + b) = cis a * cis b := by
  unfold cis; rw [← Complex.exp_add]; congr 1; push_cast; ring
theorem norm_cis (a : ℝ) : ‖cis a‖ = 1 := by unfold cis; exact Complex.norm_exp_ofReal_mul_I _
theorem cis_quarter : cis (1 / 4) = I := by
  unfold cis
  have : ((2 * Real.pi * (1 / 4) : ℝ) : ℂ) * I = (Real.pi / 2 : ℂ) * I := by push_cast; ring
  rw [this, Complex.exp_pi_div_two_mul_I]
theorem cis_half : cis (1 / 2) = -1 := by
  unfold cis
  have : ((2 * Real.pi * (1 / 2) : ℝ) : ℂ) * I = (Real.pi : ℂ) * I := by push_cast; ring
  rw [this, Complex.exp_pi_mul_I]
theorem cis_zero : cis 0 = 1 := by unfold cis; simp

/-- exact forward network on a block that stands for `ℂ[X]/(X^(2^k) − cis j)` -/
noncomputable def fwdE : (k : Nat) → (j : ℝ) → List ℂ → List ℂ
  | 0, _, z => z
  | k + 1, j, z =>
    fwdE k (j / 2) (List.zipWith (fun a b => a + cis (j / 2) * b) (z.take (2 ^ k)) (z.drop (2 ^ k))) ++
    fwdE k (j / 2 + 1 / 2) (List.zipWith (fun a b => a - cis (j / 2) * b) (z.take (2 ^ k)) (z.drop (2 ^ k)))

/-- exact inverse network (un-normalised: `invE ∘ fwdE = 2^k`) -/
noncomputable def invE : (k : Nat) → (j : ℝ) → List ℂ → List ℂ
  | 0, _, z => z
  | k + 1, j, z =>
    List.zipWith (fun a b => a + b) (invE k (j / 2) (z.take (2 ^ k))) (invE k (j / 2 + 1 / 2) (z.drop (2 ^ k))) ++
    List.zipWith (fun a b => (a - b) * cis (-(j / 2))) (invE k (j / 2) (z.take (2 ^ k))) (invE k (j / 2 + 1 / 2) (z.drop (2 ^ k)))

/-- every twiddle the forward network reads below block `(lvl, blk)` (parameter `j`) is a finite double pair within
`τ` of the exact root `cis (j/2)` -/
def AccF (τ : ℝ) (tw : Nat → Nat → Tw) : (k lvl blk : Nat) → (j : ℝ) → Prop
  | 0, _, _, _ => True
  | k + 1, lvl, blk, j =>
    TwFin (tw lvl blk) ∧ ‖twC (tw lvl blk) - cis (j / 2)‖ ≤ τ ∧
    AccF τ tw k (lvl + 1) (2 * blk) (j / 2) ∧ AccF τ tw k (lvl + 1) (2 * blk + 1) (j / 2 + 1 / 2)

def AccI (τ : ℝ) (tw : Nat → Nat → Tw) : (k lvl blk : Nat) → (j : ℝ) → Prop
  | 0, _, _, _ => True
  | k + 1, lvl, blk, j =>
    TwFin (tw lvl blk) ∧ ‖twCi (tw lvl blk) - cis (-(j / 2))‖ ≤ τ ∧
    AccI τ tw k (lvl + 1) (2 * blk) (j / 2) ∧ AccI τ tw k (lvl + 1) (2 * blk + 1) (j / 2 + 1 / 2)

/-- computed vector `zc` vs exact vector `z`: finite, within `E`, exact values bounded by `A` -/
def Close (E A : ℝ) (zc : List C64) (z : List ℂ) : Prop :=
  List.Forall₂ (fun c x => CFin c ∧ ‖cval c - x‖ ≤ E ∧ ‖x‖ ≤ A) zc z

/-- error after `k` levels started with (magnitude `A`, error `E`): `2^k·((1+γ/2)^k·(A+E) − A)` -/
noncomputable def errB (γ : ℝ) (k : Nat) (A E : ℝ) : ℝ := 2 ^ k * ((1 + γ / 2) ^ k * (A + E) - A)

theorem errB_zero (γ A E : ℝ) : errB γ 0 A E = E := by unfold errB; ring
theorem errB_succ (γ : ℝ) (k : Nat) (A E : ℝ) :
    errB γ (k + 1) A E = errB γ k (2 * A) (2 * E + γ * (A + E)) := by unfold errB; ring

theorem forall₂_zipWith {α β : Type} {R S : α → β → Prop} (f : α → α → α) (g : β → β → β)
    (h : ∀ a x b y, R a x → R b y → S (f a b) (g x y)) :
    ∀ {l1 m1 l2 m2}, List.Forall₂ R l1 m1 → List.Forall₂ R l2 m2 →
      List.Forall₂ S (List.zipWith f l1 l2) (List.zipWith g m1 m2) := by
  intro l1 m1 l2 m2 h1
  induction h1 generalizing l2 m2 with
  | nil => intro _; simp
  | cons hab _ ih =>
    intro h2
    cases h2 with
    | nil => simp
    | cons hcd ht => simp only [List.zipWith_cons_cons]; exact List.Forall₂.cons (h _ _ _ _ hab hcd) (ih ht)

theorem bflyBlock_fst (f : C64 → C64 → C64 × C64) (lo hi : List C64) :
    (bflyBlock f lo hi).1 = List.zipWith (fun a b => (f a b).1) lo hi := by
  unfold bflyBlock; simp [List.map_zipWith]
theorem bflyBlock_snd (f : C64 → C64 → C64 × C64) (lo hi : List C64) :
    (bflyBlock f lo hi).2 = List.zipWith (fun a b => (f a b).2) lo hi := by
  unfold bflyBlock; simp [List.map_zipWith]


theorem γf_nonneg (τ : ℝ) (hτ0 : 0 ≤ τ) : 0 ≤ γf τ := by
  unfold γf; have := u_pos; have := κ_nonneg; positivity

theorem γi_nonneg (τ : ℝ) (hτ0 : 0 ≤ τ) : 0 ≤ γi τ := by
  unfold γi; have := u_pos; have := κ_nonneg; positivity

theorem close_len {E A : ℝ} {zc : List C64} {z : List ℂ} (h : Close E A zc z) : zc.length = z.length :=
  List.Forall₂.length_eq h

/-- one level of butterflies on a block: (magnitude, error) `(A, E) ↦ (2A, 2E + γ(A+E))` -/
theorem level_fwd (τ : ℝ) (hτ0 : 0 ≤ τ) (hτ1 : τ ≤ 1) (t : Tw) (ω : ℂ) (ht : TwFin t) (hω : ‖ω‖ = 1)
    (hτ : ‖twC t - ω‖ ≤ τ) (A E : ℝ) (hA : 1 ≤ A) (hE : 0 ≤ E) (hAE : A + E ≤ (2:ℝ) ^ (999:Int))
    {lc hc : List C64} {l h : List ℂ} (h1 : Close E A lc l) (h2 : Close E A hc h) :
    Close (2 * E + γf τ * (A + E)) (2 * A) (List.zipWith (fun a b => (bflyFwd t a b).1) lc hc)
        (List.zipWith (fun a b => a + ω * b) l h) ∧
    Close (2 * E + γf τ * (A + E)) (2 * A) (List.zipWith (fun a b => (bflyFwd t a b).2) lc hc)
        (List.zipWith (fun a b => a - ω * b) l h) := by
  have core : ∀ (a : C64) (x : ℂ) (b : C64) (y : ℂ),
      (CFin a ∧ ‖cval a - x‖ ≤ E ∧ ‖x‖ ≤ A) → (CFin b ∧ ‖cval b - y‖ ≤ E ∧ ‖y‖ ≤ A) →
      (CFin (bflyFwd t a b).1 ∧ ‖cval (bflyFwd t a b).1 - (x + ω * y)‖ ≤ 2 * E + γf τ * (A + E) ∧ ‖x + ω * y‖ ≤ 2 * A) ∧
      (CFin (bflyFwd t a b).2 ∧ ‖cval (bflyFwd t a b).2 - (x - ω * y)‖ ≤ 2 * E + γf τ * (A + E) ∧ ‖x - ω * y‖ ≤ 2 * A) := by
    intro a x b y ⟨fa, ea, na⟩ ⟨fb, eb, nb⟩
    have ma : ‖cval a‖ ≤ A + E := by have := norm_le_insert' (cval a) x; linarith
    have mb : ‖cval b‖ ≤ A + E := by have := norm_le_insert' (cval b) y; linarith
    obtain ⟨c1, c2, e1, e2⟩ := bflyFwd_err t a b ω τ (A + E) ht fa fb hω hτ hτ1 ma mb (by linarith) hAE
    have hωy : ‖ω * y‖ ≤ A := by rw [Complex.norm_mul, hω, one_mul]; exact nb
    have hωd : ‖ω * (cval b - y)‖ ≤ E := by rw [Complex.norm_mul, hω, one_mul]; exact eb
    refine ⟨⟨c1, ?_, ?_⟩, ⟨c2, ?_, ?_⟩⟩
    · have e : cval (bflyFwd t a b).1 - (x + ω * y) =
          (cval (bflyFwd t a b).1 - (cval a + ω * cval b)) + (cval a - x) + ω * (cval b - y) := by ring
      rw [e]; refine le_trans norm_add₃_le ?_; linarith
    · refine le_trans (norm_add_le _ _) ?_; linarith
    · have e : cval (bflyFwd t a b).2 - (x - ω * y) =
          (cval (bflyFwd t a b).2 - (cval a - ω * cval b)) + (cval a - x) + -(ω * (cval b - y)) := by ring
      rw [e]; refine le_trans norm_add₃_le ?_; rw [norm_neg]; linarith
    · refine le_trans (norm_sub_le _ _) ?_; linarith
  constructor
  · exact forall₂_zipWith _ _ (fun a x b y ha hb => (core a x b y ha hb).1) h1 h2
  · exact forall₂_zipWith _ _ (fun a x b y ha hb => (core a x b y ha hb).2) h1 h2

theorem close_append {E A : ℝ} {a b : List C64} {x y : List ℂ} (h1 : Close E A a x) (h2 : Close E A b y) :
    Close E A (a ++ b) (x ++ y) := List.rel_append h1 h2

theorem one_le_growth (γ : ℝ) (hγ : 0 ≤ γ) (k : Nat) : (1:ℝ) ≤ 2 ^ k * (1 + γ / 2) ^ k := by
  have h1 : (1:ℝ) ≤ 2 ^ k := one_le_pow₀ (by norm_num)
  have h2 : (1:ℝ) ≤ (1 + γ / 2) ^ k := one_le_pow₀ (by linarith)
  calc (1:ℝ) = 1 * 1 := by ring
    _ ≤ 2 ^ k * (1 + γ / 2) ^ k := mul_le_mul h1 h2 (by norm_num) (by positivity)

/-- **a-priori error bound of the forward transform, every `k`** -/
theorem fwd_err (τ : ℝ) (hτ0 : 0 ≤ τ) (hτ1 : τ ≤ 1) (tw : Nat → Nat → Tw) :
    ∀ (k lvl blk : Nat) (j A E : ℝ) (zc : List C64) (z : List ℂ),
      1 ≤ A → 0 ≤ E → zc.length = 2 ^ k → Close E A zc z → AccF τ tw k lvl blk j →
      2 ^ k * (1 + γf τ / 2) ^ k * (A + E) ≤ (2:ℝ) ^ (999:Int) →
      Close (errB (γf τ) k A E) (2 ^ k * A) (fwd tw k lvl blk zc) (fwdE k j z) := by
  intro k
  induction k with
  | zero =>
    intro lvl blk j A E zc z _ _ _ hc _ _
    simpa [fwd, fwdE, errB_zero] using hc
  | succ k ih =>
    intro lvl blk j A E zc z hA hE hlen hc hacc hbig
    have hγ := γf_nonneg τ hτ0
    obtain ⟨htf, htτ, hacc1, hacc2⟩ := hacc
    have hAE : A + E ≤ (2:ℝ) ^ (999:Int) := by
      have := one_le_growth (γf τ) hγ (k + 1)
      have hpos : 0 ≤ A + E := by linarith
      calc A + E = 1 * (A + E) := by ring
        _ ≤ 2 ^ (k + 1) * (1 + γf τ / 2) ^ (k + 1) * (A + E) := mul_le_mul_of_nonneg_right this hpos
        _ ≤ _ := hbig
    have hlz : z.length = 2 ^ (k + 1) := by rw [← close_len hc, hlen]
    have hp : 2 ^ (k + 1) = 2 ^ k + 2 ^ k := by rw [pow_succ]; ring
    have c1 := List.forall₂_take (2 ^ k) hc
    have c2 := List.forall₂_drop (2 ^ k) hc
    obtain ⟨l1, l2⟩ := level_fwd τ hτ0 hτ1 (tw lvl blk) (cis (j / 2)) htf (norm_cis _) htτ A E hA hE hAE c1 c2
    have len1 : (List.zipWith (fun a b => (bflyFwd (tw lvl blk) a b).1) (List.take (2 ^ k) zc) (List.drop (2 ^ k) zc)).length = 2 ^ k := by
      simp [hlen, hp]
    have len2 : (List.zipWith (fun a b => (bflyFwd (tw lvl blk) a b).2) (List.take (2 ^ k) zc) (List.drop (2 ^ k) zc)).length = 2 ^ k := by
      simp [hlen, hp]
    have hbig' : 2 ^ k * (1 + γf τ / 2) ^ k * (2 * A + (2 * E + γf τ * (A + E))) ≤ (2:ℝ) ^ (999:Int) := by
      have : 2 ^ k * (1 + γf τ / 2) ^ k * (2 * A + (2 * E + γf τ * (A + E)))
          = 2 ^ (k + 1) * (1 + γf τ / 2) ^ (k + 1) * (A + E) := by ring
      rw [this]; exact hbig
    have hE' : 0 ≤ 2 * E + γf τ * (A + E) := by
      have : 0 ≤ γf τ * (A + E) := mul_nonneg hγ (by linarith)
      linarith
    have r1 := ih (lvl + 1) (2 * blk) (j / 2) (2 * A) _ _ _ (by linarith) hE' len1 l1 hacc1 hbig'
    have r2 := ih (lvl + 1) (2 * blk + 1) (j / 2 + 1 / 2) (2 * A) _ _ _ (by linarith) hE' len2 l2 hacc2 hbig'
    have := close_append r1 r2
    rw [errB_succ]
    have e2 : (2:ℝ) ^ (k + 1) * A = 2 ^ k * (2 * A) := by ring
    rw [e2]
    simpa [fwd, fwdE, bflyBlock_fst, bflyBlock_snd] using this


theorem level_inv (τ : ℝ) (hτ0 : 0 ≤ τ) (hτ1 : τ ≤ 1) (t : Tw) (ω : ℂ) (ht : TwFin t) (hω : ‖ω‖ = 1)
    (hτ : ‖twCi t - ω‖ ≤ τ) (A E : ℝ) (hA : 1 ≤ A) (hE : 0 ≤ E) (hAE : A + E ≤ (2:ℝ) ^ (997:Int))
    {lc hc : List C64} {l h : List ℂ} (h1 : Close E A lc l) (h2 : Close E A hc h) :
    Close (2 * E + γi τ * (A + E)) (2 * A) (List.zipWith (fun a b => (bflyInv t a b).1) lc hc)
        (List.zipWith (fun a b => a + b) l h) ∧
    Close (2 * E + γi τ * (A + E)) (2 * A) (List.zipWith (fun a b => (bflyInv t a b).2) lc hc)
        (List.zipWith (fun a b => (a - b) * ω) l h) := by
  have core : ∀ (a : C64) (x : ℂ) (b : C64) (y : ℂ),
      (CFin a ∧ ‖cval a - x‖ ≤ E ∧ ‖x‖ ≤ A) → (CFin b ∧ ‖cval b - y‖ ≤ E ∧ ‖y‖ ≤ A) →
      (CFin (bflyInv t a b).1 ∧ ‖cval (bflyInv t a b).1 - (x + y)‖ ≤ 2 * E + γi τ * (A + E) ∧ ‖x + y‖ ≤ 2 * A) ∧
      (CFin (bflyInv t a b).2 ∧ ‖cval (bflyInv t a b).2 - (x - y) * ω‖ ≤ 2 * E + γi τ * (A + E) ∧ ‖(x - y) * ω‖ ≤ 2 * A) := by
    intro a x b y ⟨fa, ea, na⟩ ⟨fb, eb, nb⟩
    have ma : ‖cval a‖ ≤ A + E := by have := norm_le_insert' (cval a) x; linarith
    have mb : ‖cval b‖ ≤ A + E := by have := norm_le_insert' (cval b) y; linarith
    obtain ⟨c1, c2, e1, e2⟩ := bflyInv_err t a b ω τ (A + E) ht fa fb hω hτ hτ1 ma mb (by linarith) hAE
    refine ⟨⟨c1, ?_, ?_⟩, ⟨c2, ?_, ?_⟩⟩
    · have e : cval (bflyInv t a b).1 - (x + y) =
          (cval (bflyInv t a b).1 - (cval a + cval b)) + (cval a - x) + (cval b - y) := by ring
      rw [e]; refine le_trans norm_add₃_le ?_; linarith
    · refine le_trans (norm_add_le _ _) ?_; linarith
    · have e : cval (bflyInv t a b).2 - (x - y) * ω =
          (cval (bflyInv t a b).2 - (cval a - cval b) * ω) + ((cval a - x) - (cval b - y)) * ω := by ring
      rw [e]; refine le_trans (norm_add_le _ _) ?_
      rw [Complex.norm_mul, hω, mul_one]
      have := norm_sub_le (cval a - x) (cval b - y)
      linarith
    · rw [Complex.norm_mul, hω, mul_one]; refine le_trans (norm_sub_le _ _) ?_; linarith
  constructor
  · exact forall₂_zipWith _ _ (fun a x b y ha hb => (core a x b y ha hb).1) h1 h2
  · exact forall₂_zipWith _ _ (fun a x b y ha hb => (core a x b y ha hb).2) h1 h2

theorem errB_nonneg (γ : ℝ) (hγ : 0 ≤ γ) (k : Nat) (A E : ℝ) (hA : 0 ≤ A) (hE : 0 ≤ E) : 0 ≤ errB γ k A E := by
  unfold errB
  have h2 : (1:ℝ) ≤ (1 + γ / 2) ^ k := one_le_pow₀ (by linarith)
  have : A + E ≤ (1 + γ / 2) ^ k * (A + E) := by nlinarith
  have : 0 ≤ (1 + γ / 2) ^ k * (A + E) - A := by linarith
  positivity

theorem fwd_length (tw : Nat → Nat → Tw) : ∀ (k lvl blk : Nat) (z : List C64), z.length = 2 ^ k →
    (fwd tw k lvl blk z).length = 2 ^ k := by
  intro k; induction k with
  | zero => intro _ _ z h; simpa [fwd] using h
  | succ k ih =>
    intro lvl blk z h
    have hp : 2 ^ (k + 1) = 2 ^ k + 2 ^ k := by rw [pow_succ]; ring
    simp only [fwd, List.length_append]
    rw [ih, ih, hp] <;> simp [bflyBlock, h, hp]

theorem inv_length (tw : Nat → Nat → Tw) : ∀ (k lvl blk : Nat) (z : List C64), z.length = 2 ^ k →
    (inv tw k lvl blk z).length = 2 ^ k := by
  intro k; induction k with
  | zero => intro _ _ z h; simpa [inv] using h
  | succ k ih =>
    intro lvl blk z h
    have hp : 2 ^ (k + 1) = 2 ^ k + 2 ^ k := by rw [pow_succ]; ring
    have h1 := ih (lvl + 1) (2 * blk) (z.take (2 ^ k)) (by simp [h, hp])
    have h2 := ih (lvl + 1) (2 * blk + 1) (z.drop (2 ^ k)) (by simp [h, hp])
    simp [inv, bflyBlock, h1, h2, hp]

/-- **a-priori error bound of the inverse transform, every `k`** -/
theorem inv_err (τ : ℝ) (hτ0 : 0 ≤ τ) (hτ1 : τ ≤ 1) (tw : Nat → Nat → Tw) :
    ∀ (k lvl blk : Nat) (j A E : ℝ) (zc : List C64) (z : List ℂ),
      1 ≤ A → 0 ≤ E → zc.length = 2 ^ k → Close E A zc z → AccI τ tw k lvl blk j →
      2 ^ k * (1 + γi τ / 2) ^ k * (A + E) ≤ (2:ℝ) ^ (997:Int) →
      Close (errB (γi τ) k A E) (2 ^ k * A) (inv tw k lvl blk zc) (invE k j z) := by
  intro k
  induction k with
  | zero =>
    intro lvl blk j A E zc z _ _ _ hc _ _
    simpa [inv, invE, errB_zero] using hc
  | succ k ih =>
    intro lvl blk j A E zc z hA hE hlen hc hacc hbig
    have hγ := γi_nonneg τ hτ0
    obtain ⟨htf, htτ, hacc1, hacc2⟩ := hacc
    have hp : 2 ^ (k + 1) = 2 ^ k + 2 ^ k := by rw [pow_succ]; ring
    have hpos : 0 ≤ A + E := by linarith
    have hg : (1:ℝ) ≤ 1 + γi τ / 2 := by linarith
    have hbigk : 2 ^ k * (1 + γi τ / 2) ^ k * (A + E) ≤ (2:ℝ) ^ (997:Int) := by
      refine le_trans ?_ hbig
      apply mul_le_mul_of_nonneg_right _ hpos
      have h1 : (2:ℝ) ^ k ≤ 2 ^ (k + 1) := pow_le_pow_right₀ (by norm_num) (by omega)
      have h2 : (1 + γi τ / 2) ^ k ≤ (1 + γi τ / 2) ^ (k + 1) := pow_le_pow_right₀ hg (by omega)
      exact mul_le_mul h1 h2 (by positivity) (by positivity)
    have c1 := List.forall₂_take (2 ^ k) hc
    have c2 := List.forall₂_drop (2 ^ k) hc
    have r1 := ih (lvl + 1) (2 * blk) (j / 2) A E _ _ hA hE (by simp [hlen, hp]) c1 hacc1 hbigk
    have r2 := ih (lvl + 1) (2 * blk + 1) (j / 2 + 1 / 2) A E _ _ hA hE (by simp [hlen, hp]) c2 hacc2 hbigk
    have hA1 : (1:ℝ) ≤ 2 ^ k * A := by
      have : (1:ℝ) ≤ 2 ^ k := one_le_pow₀ (by norm_num)
      nlinarith
    have hE1 := errB_nonneg (γi τ) hγ k A E (by linarith) hE
    have hsum : 2 ^ k * A + errB (γi τ) k A E = 2 ^ k * (1 + γi τ / 2) ^ k * (A + E) := by unfold errB; ring
    obtain ⟨l1, l2⟩ := level_inv τ hτ0 hτ1 (tw lvl blk) (cis (-(j / 2))) htf (norm_cis _) htτ
      (2 ^ k * A) (errB (γi τ) k A E) hA1 hE1 (by rw [hsum]; exact hbigk) r1 r2
    have := close_append l1 l2
    have e1 : 2 * errB (γi τ) k A E + γi τ * (2 ^ k * A + errB (γi τ) k A E) = errB (γi τ) (k + 1) A E := by
      unfold errB; ring
    have e2 : 2 * ((2:ℝ) ^ k * A) = 2 ^ (k + 1) * A := by ring
    rw [e1, e2] at this
    simpa [inv, invE, bflyBlock_fst, bflyBlock_snd] using this

end Fft64
