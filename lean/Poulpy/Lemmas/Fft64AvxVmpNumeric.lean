import Poulpy.Lemmas.Fft64VmpNumeric

open Complex

namespace Fft64Avx
open F64 Fft64

theorem EaccA_eq (K R : Nat) (τ Ma Mb : ℝ) :
    EaccA K R τ Ma Mb = 3 * (accRA K R τ Ma Mb).1 * (1 + u) + 3 * u * (accRA K R τ Ma Mb).2 := by unfold EaccA; ring

/-- **`VmpDomainAvx` follows from its main inequality** -/
theorem vmpDomainAvx_of_main (K R : Nat) (τ Ma Mb : ℝ) (hτ0 : 0 ≤ τ) (hτ1 : τ ≤ 1) (hK : K ≤ 900) (hR : 1 ≤ R)
    (hMa : 1 ≤ Ma) (hMb : 1 ≤ Mb)
    (hmain : errB (γi τ) K (accRA K R τ Ma Mb).2 (EaccA K R τ Ma Mb) / 2 ^ K * (1 + u) + u * ((accRA K R τ Ma Mb).2 + 1) + η < 1 / 2) :
    VmpDomainAvx K R τ Ma Mb := by
  have hu := u_pos
  have hγ := γf_nonneg τ hτ0
  have hF1 : 1 ≤ (1 + γf τ / 2) ^ K := one_le_pow₀ (by linarith)
  have hap : 0 ≤ AP K Ma Mb := by rw [AP_eq]; positivity
  have hq : 0 ≤ QP K τ Ma Mb := by
    rw [QP_eq]
    have h1 : 1 ≤ ((1 + γf τ / 2) ^ K) ^ 2 := one_le_pow₀ hF1
    have : 0 ≤ ((1 + γf τ / 2) ^ K) ^ 2 - 1 := by linarith
    positivity
  obtain ⟨hg0, hA0', _⟩ := accIter_mono _ _ hq hap R (0, 0) le_rfl le_rfl
  change 0 ≤ (accRA K R τ Ma Mb).1 at hg0
  change 0 ≤ (accRA K R τ Ma Mb).2 at hA0'
  have hA2 : (accRA K R τ Ma Mb).2 = R * AP K Ma Mb := by unfold accRA; rw [accIter_snd]; simp
  have hR1 : (1:ℝ) ≤ (R:ℝ) := by exact_mod_cast hR
  have hAPA : AP K Ma Mb ≤ (accRA K R τ Ma Mb).2 := by rw [hA2]; exact le_mul_of_one_le_left hap hR1
  have hQA : (4:ℝ) ^ K ≤ (accRA K R τ Ma Mb).2 := by
    refine le_trans ?_ hAPA
    rw [AP_eq]
    have hP1 : 1 ≤ Ma * Mb := by have := mul_le_mul hMa hMb (by norm_num) (by linarith); linarith
    have : (4:ℝ) ^ K * 1 ≤ 4 ^ K * (9 / 4 * (Ma * Mb)) := mul_le_mul_of_nonneg_left (by linarith) (by positivity)
    linarith
  have hE0 : 0 ≤ EaccA K R τ Ma Mb := by rw [EaccA_eq]; positivity
  have hmain' : errB (γi τ) K (accRA K R τ Ma Mb).2 (EaccA K R τ Ma Mb) / 2 ^ K * (1 + u) + u * (accRA K R τ Ma Mb).2 + η < 1 / 2 := by
    have : u * (accRA K R τ Ma Mb).2 ≤ u * ((accRA K R τ Ma Mb).2 + 1) := mul_le_mul_of_nonneg_left (by linarith) hu.le
    linarith
  obtain ⟨hE12, hA52, hri⟩ := side_from_main K τ _ _ hτ0 hQA hE0 hmain'
  have hg3 : 3 * (accRA K R τ Ma Mb).1 ≤ EaccA K R τ Ma Mb := by
    rw [EaccA_eq]
    have : 0 ≤ 3 * (accRA K R τ Ma Mb).1 * u := by positivity
    have : 0 ≤ 3 * u * (accRA K R τ Ma Mb).2 := by positivity
    nlinarith
  have hQPg : QP K τ Ma Mb ≤ (accRA K R τ Ma Mb).1 := accIter_ge_ep _ _ hq hap R hR
  have hsm : 4 ^ K * (9 / 4) * (((1 + γf τ / 2) ^ K) ^ 2 - 1) * (Ma * Mb) < 1 / 2 := by rw [← QP_eq]; linarith
  obtain ⟨hF, hF2⟩ := F_small K τ Ma Mb hτ0 hMa hMb hsm
  obtain ⟨ra, rb, _⟩ := base_conditions K τ Ma Mb _ hτ0 hMa hMb hF hF2 hAPA hA52
  refine ⟨hτ0, hτ1, hK, hR, hMa, hMb, ra, rb, ?_, ?_, ?_, hmain⟩
  · refine big_of_le _ 54 _ ?_ (by norm_num)
    norm_num at hA52 ⊢; linarith
  · exact big_of_le _ 105 _ hri (by norm_num)
  · norm_num at hA52 ⊢; linarith

/-- growth factor of the AVX vmp pipeline (mat1col kernel) with `R` rows -/
noncomputable def GvA (K R : Nat) (τ : ℝ) : ℝ :=
  (1 + γi τ / 2) ^ K * (1 + 3 * (1 + u) ^ (R + 1) * (((1 + γf τ / 2) ^ K) ^ 2 - 1 + u * R) + 3 * u)

theorem vmpAvx_main_closed (K R : Nat) (τ Ma Mb : ℝ) (hτ0 : 0 ≤ τ) (hMa : 1 ≤ Ma) (hMb : 1 ≤ Mb)
    (h : R * (4 ^ K * (9 / 4)) * ((GvA K R τ - 1) * (1 + u) + u) * (Ma * Mb) + u + η < 1 / 2) :
    errB (γi τ) K (accRA K R τ Ma Mb).2 (EaccA K R τ Ma Mb) / 2 ^ K * (1 + u) + u * ((accRA K R τ Ma Mb).2 + 1) + η < 1 / 2 := by
  have hu := u_pos
  have hγ := γf_nonneg τ hτ0
  have hγi := γi_nonneg τ hτ0
  have hF1 : 1 ≤ (1 + γf τ / 2) ^ K := one_le_pow₀ (by linarith)
  have hap : 0 ≤ AP K Ma Mb := by rw [AP_eq]; positivity
  have hf0 : 0 ≤ ((1 + γf τ / 2) ^ K) ^ 2 - 1 := by
    have h1 : 1 ≤ ((1 + γf τ / 2) ^ K) ^ 2 := one_le_pow₀ hF1
    linarith
  have hq : 0 ≤ QP K τ Ma Mb := by rw [QP_eq]; positivity
  obtain ⟨b1, b2⟩ := accIter_fst_le (QP K τ Ma Mb) (AP K Ma Mb) hq hap R R le_rfl
  change (accRA K R τ Ma Mb).1 ≤ _ at b1
  change (accRA K R τ Ma Mb).2 = _ at b2
  have hE : EaccA K R τ Ma Mb ≤ 3 * (R * (1 + u) ^ R * (QP K τ Ma Mb + u * R * AP K Ma Mb)) * (1 + u) + 3 * u * (accRA K R τ Ma Mb).2 := by
    rw [EaccA_eq]
    have : 3 * (accRA K R τ Ma Mb).1 * (1 + u) ≤ 3 * (R * (1 + u) ^ R * (QP K τ Ma Mb + u * R * AP K Ma Mb)) * (1 + u) :=
      mul_le_mul_of_nonneg_right (by linarith) (by linarith)
    linarith
  have hmono := errB_mono (γi τ) hγi K (accRA K R τ Ma Mb).2 _ _ hE
  have h2K : (0:ℝ) < 2 ^ K := by positivity
  have hdiv := div_le_div_of_nonneg_right hmono h2K.le
  rw [errB_div (γi τ) K (accRA K R τ Ma Mb).2 (3 * (R * (1 + u) ^ R * (QP K τ Ma Mb + u * R * AP K Ma Mb)) * (1 + u) + 3 * u * (accRA K R τ Ma Mb).2)] at hdiv
  have hclosed : (1 + γi τ / 2) ^ K * ((accRA K R τ Ma Mb).2 + (3 * (R * (1 + u) ^ R * (QP K τ Ma Mb + u * R * AP K Ma Mb)) * (1 + u) + 3 * u * (accRA K R τ Ma Mb).2)) - (accRA K R τ Ma Mb).2
      = R * (4 ^ K * (9 / 4)) * (GvA K R τ - 1) * (Ma * Mb) := by
    rw [b2, QP_eq, AP_eq]; unfold GvA; ring
  rw [hclosed] at hdiv
  have h1 : errB (γi τ) K (accRA K R τ Ma Mb).2 (EaccA K R τ Ma Mb) / 2 ^ K * (1 + u) ≤
      R * (4 ^ K * (9 / 4)) * (GvA K R τ - 1) * (Ma * Mb) * (1 + u) := mul_le_mul_of_nonneg_right hdiv (by linarith)
  have h2 : u * ((accRA K R τ Ma Mb).2 + 1) = R * (4 ^ K * (9 / 4)) * u * (Ma * Mb) + u := by rw [b2, AP_eq]; ring
  have e : R * (4 ^ K * (9 / 4)) * ((GvA K R τ - 1) * (1 + u) + u) * (Ma * Mb) =
      R * (4 ^ K * (9 / 4)) * (GvA K R τ - 1) * (Ma * Mb) * (1 + u) + R * (4 ^ K * (9 / 4)) * u * (Ma * Mb) := by ring
  rw [e] at h
  linarith

theorem GvA_mono (K R : Nat) (hR : R ≤ 64) (τ : ℝ) (hτ0 : 0 ≤ τ) : GvA K R τ ≤ GvA K 64 τ := by
  have hu := u_pos
  have hγ := γf_nonneg τ hτ0
  have hγi := γi_nonneg τ hτ0
  have hF1 : 1 ≤ (1 + γf τ / 2) ^ K := one_le_pow₀ (by linarith)
  have hf0 : 0 ≤ ((1 + γf τ / 2) ^ K) ^ 2 - 1 := by
    have h1 : 1 ≤ ((1 + γf τ / 2) ^ K) ^ 2 := one_le_pow₀ hF1
    linarith
  unfold GvA
  apply mul_le_mul_of_nonneg_left _ (by positivity)
  have hp : (1 + u) ^ (R + 1) ≤ (1 + u) ^ (64 + 1) := pow_le_pow_right₀ (by linarith) (by omega)
  have hR' : u * (R:ℝ) ≤ u * ((64:Nat):ℝ) := mul_le_mul_of_nonneg_left (by exact_mod_cast hR) hu.le
  have : (1 + u) ^ (R + 1) * (((1 + γf τ / 2) ^ K) ^ 2 - 1 + u * R) ≤
      (1 + u) ^ (64 + 1) * (((1 + γf τ / 2) ^ K) ^ 2 - 1 + u * ((64:Nat):ℝ)) :=
    mul_le_mul hp (add_le_add_right hR' _) (by positivity) (by positivity)
  linarith

theorem growthVA_le (K : Nat) (hK : K ≤ 15) : (GvA K 64 τ51 - 1) * (1 + u) + u ≤ (41 * K + 197) * u := by
  interval_cases K <;> (unfold GvA γi γf κ u τ51; norm_num)

def domBitsVA : Nat → Nat
  | 2 => 38 | 3 => 36 | 4 => 34 | 5 => 32 | 6 => 30 | 7 => 27
  | 8 => 25 | 9 => 23 | 10 => 21 | 11 => 19 | 12 => 17 | 13 => 15 | 14 => 13 | 15 => 11
  | _ => 0

theorem domVA_numeric (K : Nat) (hK : K ≤ 15) :
    (4:ℝ) ^ K * (9 / 4) * ((41 * K + 197) * u) * (2:ℝ) ^ (domBitsVA K) ≤ 1 / 2 - 1 / 1024 := by
  interval_cases K <;> (unfold domBitsVA u; norm_num)

/-- **`VmpDomainAvx` in numbers** (mat1col kernel, up to 64 rows): `rows·Ma·Mb ≤ 2^(domBitsVA K)` -/
theorem vmpDomainAvx_numeric (K : Nat) (hK : K ≤ 15) (R : Nat) (hR1 : 1 ≤ R) (hR : R ≤ 64) (Ma Mb : ℝ)
    (hMa : 1 ≤ Ma) (hMb : 1 ≤ Mb) (h : R * (Ma * Mb) ≤ (2:ℝ) ^ (domBitsVA K)) : VmpDomainAvx K R τ51 Ma Mb := by
  have hτ0 : 0 ≤ τ51 := by unfold τ51; positivity
  have hτ1 : τ51 ≤ 1 := by unfold τ51; exact zpow_le_one_of_nonpos₀ (by norm_num) (by norm_num)
  apply vmpDomainAvx_of_main K R τ51 Ma Mb hτ0 hτ1 (by omega) hR1 hMa hMb
  apply vmpAvx_main_closed K R τ51 Ma Mb hτ0 hMa hMb
  have hu := u_pos
  have hη := η_small
  have hu' : u ≤ 1 / 4096 := by
    unfold u
    calc (2:ℝ) ^ (-53:Int) ≤ (2:ℝ) ^ (-12:Int) := two_pow_le _ _ (by norm_num)
      _ = 1 / 4096 := by norm_num
  have g1 := GvA_mono K R hR τ51 hτ0
  have g2 := growthVA_le K hK
  have g3 := domVA_numeric K hK
  have hc : (GvA K R τ51 - 1) * (1 + u) + u ≤ (41 * K + 197) * u := by
    have : (GvA K R τ51 - 1) * (1 + u) ≤ (GvA K 64 τ51 - 1) * (1 + u) := mul_le_mul_of_nonneg_right (by linarith) (by linarith)
    linarith
  have hP0 : 0 ≤ (R:ℝ) * (Ma * Mb) := by positivity
  have h4 : (0:ℝ) ≤ 4 ^ K * (9 / 4) := by positivity
  have e : (R:ℝ) * (4 ^ K * (9 / 4)) * ((GvA K R τ51 - 1) * (1 + u) + u) * (Ma * Mb) =
      4 ^ K * (9 / 4) * ((GvA K R τ51 - 1) * (1 + u) + u) * (R * (Ma * Mb)) := by ring
  rw [e]
  have s1 : 4 ^ K * (9 / 4) * ((GvA K R τ51 - 1) * (1 + u) + u) * (R * (Ma * Mb)) ≤ 4 ^ K * (9 / 4) * ((41 * K + 197) * u) * (R * (Ma * Mb)) :=
    mul_le_mul_of_nonneg_right (mul_le_mul_of_nonneg_left hc h4) hP0
  have s2 : 4 ^ K * (9 / 4) * ((41 * K + 197) * u) * (R * (Ma * Mb)) ≤ 4 ^ K * (9 / 4) * ((41 * K + 197) * u) * (2:ℝ) ^ (domBitsVA K) :=
    mul_le_mul_of_nonneg_left h (by positivity)
  linarith

end Fft64Avx
