import Poulpy.Lemmas.Fft64Net
import Poulpy.Lemmas.NttMath
import Poulpy.Model.HalSpec

open Complex

namespace Fft64
open NttMath

/-- evaluation points of a block: the `2^k` roots of `X^(2^k) = cis j`, in the order of the network's outputs -/
noncomputable def rootsL : (k : Nat) → (j : ℝ) → List ℂ
  | 0, j => [cis j]
  | k + 1, j => rootsL k (j / 2) ++ rootsL k (j / 2 + 1 / 2)

theorem rootsL_length (k : Nat) (j : ℝ) : (rootsL k j).length = 2 ^ k := by
  induction k generalizing j with
  | zero => rfl
  | succ k ih => simp [rootsL, ih, pow_succ]; ring

theorem cis_two_mul (θ : ℝ) : cis θ * cis θ = cis (2 * θ) := by rw [← cis_add]; congr 1; ring

theorem cis_one : cis 1 = 1 := by
  have : (1:ℝ) = 1 / 2 + 1 / 2 := by norm_num
  rw [this, cis_add, cis_half]; ring

theorem rootsL_pow (k : Nat) (j : ℝ) : ∀ r ∈ rootsL k j, r ^ (2 ^ k) = cis j := by
  induction k generalizing j with
  | zero => intro r hr; simp [rootsL] at hr; simp [hr]
  | succ k ih =>
    intro r hr
    simp only [rootsL, List.mem_append] at hr
    rw [pow_succ, pow_mul]
    rcases hr with hr | hr
    · rw [ih _ r hr, sq, cis_two_mul]; congr 1; ring
    · rw [ih _ r hr, sq, cis_two_mul]
      have : 2 * (j / 2 + 1 / 2) = j + 1 := by ring
      rw [this, cis_add, cis_one, mul_one]

theorem ev_zipWith_add (ω : ℂ) (lo hi : List ℂ) (h : lo.length = hi.length) (r : ℂ) :
    ev (List.zipWith (fun a b => a + ω * b) lo hi) r = ev lo r + ω * ev hi r := by
  induction lo generalizing hi with
  | nil => cases hi <;> simp_all [ev]
  | cons c cs ih =>
    cases hi with
    | nil => simp at h
    | cons d ds =>
      have hl : cs.length = ds.length := by simpa using h
      simp only [List.zipWith_cons_cons, ev, ih ds hl]; ring

theorem ev_zipWith_sub (ω : ℂ) (lo hi : List ℂ) (h : lo.length = hi.length) (r : ℂ) :
    ev (List.zipWith (fun a b => a - ω * b) lo hi) r = ev lo r - ω * ev hi r := by
  have := ev_zipWith_add (-ω) lo hi h r
  simp only [neg_mul, ← sub_eq_add_neg] at this
  exact this

theorem take_drop_len {α : Type} (z : List α) (k : Nat) (h : z.length = 2 ^ (k + 1)) :
    (z.take (2 ^ k)).length = 2 ^ k ∧ (z.drop (2 ^ k)).length = 2 ^ k := by
  have hp : 2 ^ (k + 1) = 2 ^ k + 2 ^ k := by rw [pow_succ]; ring
  constructor <;> simp [h, hp]

/-- **the exact forward network evaluates the input polynomial at the roots of `X^(2^k) − cis j`** -/
theorem fwdE_eval (k : Nat) (j : ℝ) (z : List ℂ) (hz : z.length = 2 ^ k) :
    fwdE k j z = (rootsL k j).map (fun r => ev z r) := by
  induction k generalizing j z with
  | zero =>
    match z, hz with
    | [c], _ => simp [fwdE, rootsL, ev]
  | succ k ih =>
    obtain ⟨h1, h2⟩ := take_drop_len z k hz
    have hsplit : z = z.take (2 ^ k) ++ z.drop (2 ^ k) := (List.take_append_drop _ _).symm
    simp only [fwdE, rootsL, List.map_append]
    rw [ih, ih]
    · congr 1
      · apply List.map_congr_left
        intro r hr
        rw [ev_zipWith_add _ _ _ (by rw [h1, h2])]
        conv_rhs => rw [hsplit, ev_append, h1, rootsL_pow k _ r hr]
      · apply List.map_congr_left
        intro r hr
        rw [ev_zipWith_sub _ _ _ (by rw [h1, h2])]
        conv_rhs => rw [hsplit, ev_append, h1, rootsL_pow k _ r hr]
        rw [cis_add, cis_half]; ring
    · simp [h1, h2]
    · simp [h1, h2]

theorem fwdE_length (k : Nat) (j : ℝ) (z : List ℂ) (hz : z.length = 2 ^ k) : (fwdE k j z).length = 2 ^ k := by
  rw [fwdE_eval k j z hz]; simp [rootsL_length]


theorem cis_neg_mul (θ : ℝ) : cis θ * cis (-θ) = 1 := by rw [← cis_add, add_neg_cancel, cis_zero]

theorem zip_add_sub (ω ω' : ℂ) (hω : ω * ω' = 1) (c : ℂ) (lo hi : List ℂ) (h : lo.length = hi.length) :
    List.zipWith (fun a b => a + b)
      ((List.zipWith (fun a b => a + ω * b) lo hi).map (c * ·)) ((List.zipWith (fun a b => a - ω * b) lo hi).map (c * ·))
      = lo.map ((c * 2) * ·) ∧
    List.zipWith (fun a b => (a - b) * ω')
      ((List.zipWith (fun a b => a + ω * b) lo hi).map (c * ·)) ((List.zipWith (fun a b => a - ω * b) lo hi).map (c * ·))
      = hi.map ((c * 2) * ·) := by
  induction lo generalizing hi with
  | nil => cases hi <;> simp_all
  | cons x xs ih =>
    cases hi with
    | nil => simp at h
    | cons y ys =>
      have hl : xs.length = ys.length := by simpa using h
      obtain ⟨i1, i2⟩ := ih ys hl
      constructor
      · simp only [List.zipWith_cons_cons, List.map_cons, i1]; congr 1; ring
      · simp only [List.zipWith_cons_cons, List.map_cons, i2]; congr 1
        have : (c * (x + ω * y) - c * (x - ω * y)) * ω' = c * 2 * y * (ω * ω') := by ring
        rw [this, hω, mul_one]

/-- **the exact inverse network undoes the forward one up to the factor `2^k`** -/
theorem invE_fwdE (k : Nat) (j : ℝ) (z : List ℂ) (hz : z.length = 2 ^ k) :
    invE k j (fwdE k j z) = z.map ((2:ℂ) ^ k * ·) := by
  induction k generalizing j z with
  | zero => simp [invE, fwdE]
  | succ k ih =>
    obtain ⟨h1, h2⟩ := take_drop_len z k hz
    have lu : (List.zipWith (fun a b => a + cis (j / 2) * b) (z.take (2 ^ k)) (z.drop (2 ^ k))).length = 2 ^ k := by simp [h1, h2]
    have lv : (List.zipWith (fun a b => a - cis (j / 2) * b) (z.take (2 ^ k)) (z.drop (2 ^ k))).length = 2 ^ k := by simp [h1, h2]
    have lF := fwdE_length k (j / 2) _ lu
    simp only [invE, fwdE]
    rw [List.take_left' lF, List.drop_left' lF, ih _ _ lu, ih _ _ lv]
    obtain ⟨e1, e2⟩ := zip_add_sub (cis (j / 2)) (cis (-(j / 2))) (cis_neg_mul _) ((2:ℂ) ^ k) _ _ (by rw [h1, h2] : (z.take (2 ^ k)).length = (z.drop (2 ^ k)).length)
    rw [e1, e2, ← List.map_append, List.take_append_drop, pow_succ]


/-! ### the integer negacyclic product read in `ℂ`, and the reim packing -/

/-- an integer coefficient as a complex number -/
abbrev cc (x : Int) : ℂ := (x : ℂ)

theorem mapC_polyAdd (a b : Poly) : (Hal.polyAdd a b).map cc = addL (a.map cc) (b.map cc) := by
  unfold Hal.polyAdd addL
  induction a generalizing b with
  | nil => simp
  | cons x xs ih => cases b with
    | nil => simp
    | cons y ys => simp [ih, cc]

theorem mapC_polyScale (c : Int) (a : Poly) : (Hal.polyScale c a).map cc = scaleL (cc c) (a.map cc) := by
  unfold Hal.polyScale scaleL
  simp [List.map_map, Function.comp, cc]

theorem mapC_mulX (l : Poly) : (Hal.mulX l).map cc = mulXR (l.map cc) := by
  rcases List.eq_nil_or_concat l with rfl | ⟨l', z, rfl⟩
  · rfl
  · simp [List.concat_eq_append, Hal.mulX, mulXR, cc]

/-- the integer product `Hal.negMul`, cast to `ℂ`, is the product of `ℂ[X]/(X^n+1)` -/
theorem mapC_negMul (a b : Poly) : (Hal.negMul a b).map cc = negMulR (a.map cc) (b.map cc) := by
  induction a with
  | nil =>
    simp only [Hal.negMul, negMulR, List.map_nil, List.map_map]
    apply List.map_congr_left
    intro x _
    simp [cc]
  | cons a0 as ih =>
    simp only [Hal.negMul, negMulR, List.map_cons]
    rw [mapC_polyAdd, mapC_polyScale, mapC_mulX, ih]

/-- reim packing: `n = 2m` real coefficients as `m` complex numbers `a_j + i·a_{j+m}` -/
noncomputable def packC (m : Nat) (a : List ℂ) : List ℂ :=
  List.zipWith (fun x y => x + I * y) (a.take m) (a.drop m)

theorem packC_length (k : Nat) (a : List ℂ) (ha : a.length = 2 ^ (k + 1)) : (packC (2 ^ k) a).length = 2 ^ k := by
  obtain ⟨h1, h2⟩ := take_drop_len a k ha
  simp [packC, h1, h2]

/-- at a root of `X^m = i` the packed vector evaluates like the real polynomial of degree `2m` -/
theorem ev_packC (k : Nat) (a : List ℂ) (ha : a.length = 2 ^ (k + 1)) (r : ℂ) (hr : r ^ (2 ^ k) = I) :
    ev (packC (2 ^ k) a) r = ev a r := by
  obtain ⟨h1, h2⟩ := take_drop_len a k ha
  unfold packC
  rw [ev_zipWith_add _ _ _ (by rw [h1, h2])]
  conv_rhs => rw [← List.take_append_drop (2 ^ k) a, ev_append, h1, hr]

theorem zipWith_map_same {α β : Type} (L : List α) (f g : α → β) (op : β → β → β) :
    List.zipWith op (L.map f) (L.map g) = L.map (fun r => op (f r) (g r)) := by
  induction L with
  | nil => rfl
  | cons x xs ih => simp [ih]

/-- **convolution theorem for the exact network**: the transform of the (packed) negacyclic product is the
slot-wise product of the transforms -/
theorem fwdE_mul (k : Nat) (a b : Poly) (ha : a.length = 2 ^ (k + 1)) (hb : b.length = 2 ^ (k + 1)) :
    fwdE k (1 / 4) (packC (2 ^ k) ((Hal.negMul a b).map cc)) =
      List.zipWith (· * ·) (fwdE k (1 / 4) (packC (2 ^ k) (a.map cc))) (fwdE k (1 / 4) (packC (2 ^ k) (b.map cc))) := by
  have la : (a.map cc).length = 2 ^ (k + 1) := by simpa using ha
  have lb : (b.map cc).length = 2 ^ (k + 1) := by simpa using hb
  have lc : ((Hal.negMul a b).map cc).length = 2 ^ (k + 1) := by rw [mapC_negMul, negMulR_length]; exact lb
  rw [fwdE_eval _ _ _ (packC_length k _ la), fwdE_eval _ _ _ (packC_length k _ lb), fwdE_eval _ _ _ (packC_length k _ lc),
    zipWith_map_same]
  apply List.map_congr_left
  intro r hr
  have hr1 : r ^ (2 ^ k) = I := by rw [rootsL_pow k _ r hr, cis_quarter]
  have hr2 : r ^ ((b.map cc).length) = -1 := by
    rw [lb, pow_succ, pow_mul, hr1]; simp
  rw [ev_packC k _ la r hr1, ev_packC k _ lb r hr1, ev_packC k _ lc r hr1, mapC_negMul, ev_negMulR _ _ _ hr2]

/-- the exact pipeline: inverse network of the slot-wise product = `2^k ·` packed negacyclic product -/
theorem exact_pipeline (k : Nat) (a b : Poly) (ha : a.length = 2 ^ (k + 1)) (hb : b.length = 2 ^ (k + 1)) :
    invE k (1 / 4) (List.zipWith (· * ·) (fwdE k (1 / 4) (packC (2 ^ k) (a.map cc))) (fwdE k (1 / 4) (packC (2 ^ k) (b.map cc))))
      = (packC (2 ^ k) ((Hal.negMul a b).map cc)).map ((2:ℂ) ^ k * ·) := by
  have lb : (b.map cc).length = 2 ^ (k + 1) := by simpa using hb
  have lc : ((Hal.negMul a b).map cc).length = 2 ^ (k + 1) := by rw [mapC_negMul, negMulR_length]; exact lb
  rw [← fwdE_mul k a b ha hb, invE_fwdE _ _ _ (packC_length k _ lc)]

end Fft64
