import Poulpy.Model.Core.Ep
import Poulpy.Lemmas.GadgetAccum
import Poulpy.Lemmas.GadgetPhase
import Poulpy.Lemmas.EpAlgebra

/-!
Bridge between the executed `Core.epInternal` (buffers, `set_size`, column loops) and the algebra of
`Hal.vmpFlat`: determinacy for every digit size, and the phase of the `dsize = 1` product.
Reuses the raw-data specifications of the C03 slice (`Lemmas/GadgetAccum.lean`, `GadgetPhase.lean`).
-/

namespace Core
open Hal Ks

/-- a buffer of the shape the external product allocates: `cols × size` with `maxSize = size` -/
def BufShape (n cols size : Nat) (b : Buf) : Prop :=
  b.WF ∧ b.n = n ∧ b.cols = cols ∧ b.maxSize = size

theorem mkBuf_shape (n cols size : Nat) (d : List Col) (h : shapeOk n cols size d = true) :
    BufShape n cols size (mkBuf n cols size d) ∧ (mkBuf n cols size d).size = size := by
  unfold shapeOk at h
  simp only [Bool.and_eq_true, beq_iff_eq, List.all_eq_true] at h
  refine ⟨⟨⟨h.1, Nat.le_refl _, ?_⟩, rfl, rfl, rfl⟩, rfl⟩
  intro c hc
  simp only [mkBuf] at hc ⊢
  have hm : d.getD c [] ∈ d := by
    rw [List.getD_eq_getElem?_getD, List.getElem?_eq_getElem (by rw [h.1]; exact hc)]
    exact List.getElem_mem _
  exact (h.2 _ hm).1

/-- two well-formed buffers with the same shape and the same raw limbs are equal -/
theorem buf_ext_raw (n : Nat) (b b' : Buf) (hb : b.WF) (hb' : b'.WF) (hn : b.n = b'.n) (hc : b.cols = b'.cols)
    (hs : b.size = b'.size) (hm : b.maxSize = b'.maxSize)
    (h : ∀ c l, c < b.cols → rawLimb n b c l = rawLimb n b' c l) : b = b' := by
  have hd : b.data = b'.data := by
    apply List.ext_getElem
    · rw [hb.1, hb'.1, hc]
    · intro c h1 h2
      have hcc : c < b.cols := by rw [← hb.1]; exact h1
      have e1 : b.data[c] = b.data.getD c [] := by simp [List.getD_eq_getElem?_getD, h1]
      have e2 : b'.data[c] = b'.data.getD c [] := by simp [List.getD_eq_getElem?_getD, h2]
      rw [e1, e2]
      apply ext_getD _ _ (zeroP n)
      · rw [hb.2.2 c hcc, hb'.2.2 c (by rw [← hc]; exact hcc), hm]
      · intro l
        exact h c l hcc
  cases b; cases b'
  simp only at hn hc hs hm hd
  subst hn hc hs hm hd
  rfl

/-- my `zeroTail` on the raw data -/
theorem zeroTail_spec (b : Buf) (n w full : Nat) (hb : b.WF) (hn : b.n = n) (hw : w ≤ full) (hf : full ≤ b.maxSize) :
    (zeroTail b w full).WF ∧ (zeroTail b w full).cols = b.cols ∧ (zeroTail b w full).size = full ∧
    (zeroTail b w full).n = b.n ∧ (zeroTail b w full).maxSize = b.maxSize ∧
    ∀ c l, c < b.cols → rawLimb n (zeroTail b w full) c l =
      if l < full then (if l < w then rawLimb n b c l else zeroP n) else rawLimb n b c l := by
  have h := zeroFrom_spec (resize b full) n w (resize_WF b full hb hf) hn hw
  simpa [zeroTail, resize] using h

/-- pass `0` of the `dsize > 1` loop produces a buffer that does not depend on the previous content of `res_dft` -/
theorem pass0_determined (a : Buf) (g : EpGGSW) (aSize : Nat) (r r' t t' : Buf)
    (hr : BufShape g.n (g.rank + 1) g.size r) (hr' : BufShape g.n (g.rank + 1) g.size r') :
    (epDigitPass a g aSize (r, t) 0).1 = (epDigitPass a g aSize (r', t') 0).1 := by
  unfold epDigitPass
  simp only [if_true]
  -- abbreviations
  generalize hai : dftApplyAll g.dsize (g.dsize - 1 - 0)
      { mkBuf g.n (g.rank + 1) ((aSize + g.dsize - 1) / g.dsize)
          (zeroCols g.n (g.rank + 1) ((aSize + g.dsize - 1) / g.dsize)) with size := (aSize + 0) / g.dsize } a = ai
  have hs0 : g.size - (g.dsize - 0 - 2) ≤ g.size := Nat.sub_le _ _
  set s0 := g.size - (g.dsize - 0 - 2) with hs0def
  obtain ⟨hwf, hn, hc, hm⟩ := hr
  obtain ⟨hwf', hn', hc', hm'⟩ := hr'
  have hR : (resize r s0).WF := resize_WF r s0 hwf (by rw [hm]; exact hs0)
  have hR' : (resize r' s0).WF := resize_WF r' s0 hwf' (by rw [hm']; exact hs0)
  have v := opVmp_spec (resize r s0) ai g.toPMat 0 hR
  have v' := opVmp_spec (resize r' s0) ai g.toPMat 0 hR'
  have z := zeroTail_spec (opVmp (resize r s0) ai g.toPMat 0) g.n s0 g.size v.1 (by rw [v.2.2.2.1]; exact hn)
    hs0 (by rw [v.2.2.2.2.1]; simp [hm])
  have z' := zeroTail_spec (opVmp (resize r' s0) ai g.toPMat 0) g.n s0 g.size v'.1 (by rw [v'.2.2.2.1]; exact hn')
    hs0 (by rw [v'.2.2.2.2.1]; simp [hm'])
  apply buf_ext_raw g.n _ _ z.1 z'.1
  · rw [z.2.2.2.1, z'.2.2.2.1, v.2.2.2.1, v'.2.2.2.1]; simp [hn, hn']
  · rw [z.2.1, z'.2.1, v.2.1, v'.2.1]; simp [hc, hc']
  · rw [z.2.2.1, z'.2.2.1]
  · rw [z.2.2.2.2.1, z'.2.2.2.2.1, v.2.2.2.2.1, v'.2.2.2.2.1]; simp [hm, hm']
  · intro c l hcl
    have hcr : c < (resize r s0).cols := by rw [z.2.1, v.2.1] at hcl; exact hcl
    have hcr' : c < (resize r' s0).cols := by simp only [resize_cols] at hcr ⊢; rw [hc'] ; rw [hc] at hcr; exact hcr
    rw [z.2.2.2.2.2 c l (by rw [v.2.1]; exact hcr), z'.2.2.2.2.2 c l (by rw [v'.2.1]; exact hcr')]
    by_cases hl : l < g.size
    · rw [if_pos hl, if_pos hl]
      by_cases hl0 : l < s0
      · rw [if_pos hl0, if_pos hl0]
        have q := v.2.2.2.2.2 c l hcr
        have q' := v'.2.2.2.2.2 c l hcr'
        simp only [resize_n, resize_size, resize_cols] at q q'
        rw [hn] at q; rw [hn'] at q'
        rw [q, q', if_pos hl0, if_pos hl0, hc, hc']
      · rw [if_neg hl0, if_neg hl0]
    · rw [if_neg hl, if_neg hl]
      rw [rawLimb_ge g.n _ v.1 c l (by rw [v.2.1]; exact hcr) (by rw [v.2.2.2.2.1]; simp [hm]; omega),
        rawLimb_ge g.n _ v'.1 c l (by rw [v'.2.1]; exact hcr') (by rw [v'.2.2.2.2.1]; simp [hm']; omega)]

/-- shape of the result of pass `0` -/
theorem pass0_shape (a : Buf) (g : EpGGSW) (aSize : Nat) (r t : Buf) (hr : BufShape g.n (g.rank + 1) g.size r) :
    BufShape g.n (g.rank + 1) g.size (epDigitPass a g aSize (r, t) 0).1 ∧ (epDigitPass a g aSize (r, t) 0).2 = t := by
  unfold epDigitPass
  simp only [if_true]
  generalize dftApplyAll g.dsize (g.dsize - 1 - 0)
      { mkBuf g.n (g.rank + 1) ((aSize + g.dsize - 1) / g.dsize)
          (zeroCols g.n (g.rank + 1) ((aSize + g.dsize - 1) / g.dsize)) with size := (aSize + 0) / g.dsize } a = ai
  have hs0 : g.size - (g.dsize - 0 - 2) ≤ g.size := Nat.sub_le _ _
  obtain ⟨hwf, hn, hc, hm⟩ := hr
  have hR := resize_WF r (g.size - (g.dsize - 0 - 2)) hwf (by rw [hm]; exact hs0)
  have v := opVmp_spec (resize r (g.size - (g.dsize - 0 - 2))) ai g.toPMat 0 hR
  have z := zeroTail_spec (opVmp (resize r (g.size - (g.dsize - 0 - 2))) ai g.toPMat 0) g.n _ g.size v.1
    (by rw [v.2.2.2.1]; exact hn) hs0 (by rw [v.2.2.2.2.1]; simp [hm])
  refine ⟨⟨z.1, ?_, ?_, ?_⟩, by trivial⟩
  · exact (z.2.2.2.1.trans v.2.2.2.1).trans hn
  · exact (z.2.1.trans v.2.1).trans hc
  · exact (z.2.2.2.2.1.trans v.2.2.2.2.1).trans hm

/-- a pass `di ≥ 1` reads the temporary only through the limbs it has just written -/
theorem passPos_determined (a : Buf) (g : EpGGSW) (aSize di : Nat) (hdi : di ≠ 0) (r t t' : Buf)
    (hr : BufShape g.n (g.rank + 1) g.size r) (ht : BufShape g.n (g.rank + 1) g.size t)
    (ht' : BufShape g.n (g.rank + 1) g.size t') :
    (epDigitPass a g aSize (r, t) di).1 = (epDigitPass a g aSize (r, t') di).1 ∧
    BufShape g.n (g.rank + 1) g.size (epDigitPass a g aSize (r, t) di).1 ∧
    BufShape g.n (g.rank + 1) g.size (epDigitPass a g aSize (r, t) di).2 ∧
    BufShape g.n (g.rank + 1) g.size (epDigitPass a g aSize (r, t') di).2 := by
  unfold epDigitPass
  simp only [if_neg hdi]
  generalize dftApplyAll g.dsize (g.dsize - 1 - di)
      { mkBuf g.n (g.rank + 1) ((aSize + g.dsize - 1) / g.dsize)
          (zeroCols g.n (g.rank + 1) ((aSize + g.dsize - 1) / g.dsize)) with size := (aSize + di) / g.dsize } a = ai
  have hs : g.size - (g.dsize - di - 2) ≤ g.size := Nat.sub_le _ _
  generalize g.size - (g.dsize - di - 2) = s at hs
  obtain ⟨hwf, hn, hc, hm⟩ := hr
  obtain ⟨twf, tn, tc, tm⟩ := ht
  obtain ⟨twf', tn', tc', tm'⟩ := ht'
  have hR : (resize r s).WF := resize_WF r s hwf (by rw [hm]; exact hs)
  have hT : (resize t s).WF := resize_WF t s twf (by rw [tm]; exact hs)
  have hT' : (resize t' s).WF := resize_WF t' s twf' (by rw [tm']; exact hs)
  have v := opVmp_spec (resize t s) ai g.toPMat di hT
  have v' := opVmp_spec (resize t' s) ai g.toPMat di hT'
  have w := addAssign_spec (resize r s) (opVmp (resize t s) ai g.toPMat di) g.n hR v.1 (v.2.1.trans (tc.trans hc.symm))
    v.2.2.1
  have w' := addAssign_spec (resize r s) (opVmp (resize t' s) ai g.toPMat di) g.n hR v'.1 (v'.2.1.trans (tc'.trans hc.symm))
    v'.2.2.1
  simp only at w w'
  have hact : ∀ c, c < g.rank + 1 → (opVmp (resize t s) ai g.toPMat di).act c = (opVmp (resize t' s) ai g.toPMat di).act c := by
    intro c hcc
    unfold opVmp
    rw [setFlat_act (resize t s) hT _ c (by simp [tc]; exact hcc), setFlat_act (resize t' s) hT' _ c (by simp [tc']; exact hcc)]
    simp [tn, tn', tc, tc']
  refine ⟨?_, ⟨w.1, ?_, ?_, ?_⟩, ⟨v.1, ?_, ?_, ?_⟩, ⟨v'.1, ?_, ?_, ?_⟩⟩
  · show dftAddAssignAll (resize r s) _ = dftAddAssignAll (resize r s) _
    unfold dftAddAssignAll
    apply buf_ext_raw g.n _ _ w.1 w'.1
    · exact w.2.2.2.1.trans w'.2.2.2.1.symm
    · exact w.2.1.trans w'.2.1.symm
    · exact w.2.2.1.trans w'.2.2.1.symm
    · exact w.2.2.2.2.1.trans w'.2.2.2.2.1.symm
    · intro c l hcl
      have hcr : c < (resize r s).cols := by rw [w.2.1] at hcl; exact hcl
      rw [w.2.2.2.2.2 c l hcr, w'.2.2.2.2.2 c l hcr, hact c (by simpa [hc] using hcr)]
  · exact w.2.2.2.1.trans hn
  · exact w.2.1.trans hc
  · exact w.2.2.2.2.1.trans hm
  · exact v.2.2.2.1.trans tn
  · exact v.2.1.trans tc
  · exact v.2.2.2.2.1.trans tm
  · exact v'.2.2.2.1.trans tn'
  · exact v'.2.1.trans tc'
  · exact v'.2.2.2.2.1.trans tm'

/-- the passes `di ≥ 1` preserve "same `res_dft`, temporaries of the right shape" -/
theorem passes_determined (a : Buf) (g : EpGGSW) (aSize : Nat) (L : List Nat) (hL : ∀ di ∈ L, di ≠ 0) :
    ∀ (r t t' : Buf), BufShape g.n (g.rank + 1) g.size r → BufShape g.n (g.rank + 1) g.size t →
      BufShape g.n (g.rank + 1) g.size t' →
      (L.foldl (epDigitPass a g aSize) (r, t)).1 = (L.foldl (epDigitPass a g aSize) (r, t')).1 := by
  induction L with
  | nil => intro r t t' _ _ _; rfl
  | cons d rest ih =>
    intro r t t' hr ht ht'
    have h := passPos_determined a g aSize d (hL d List.mem_cons_self) r t t' hr ht ht'
    simp only [List.foldl_cons]
    have e : epDigitPass a g aSize (r, t') d = ((epDigitPass a g aSize (r, t) d).1, (epDigitPass a g aSize (r, t') d).2) :=
      Prod.ext h.1.symm rfl
    rw [e]
    have e0 : epDigitPass a g aSize (r, t) d = ((epDigitPass a g aSize (r, t) d).1, (epDigitPass a g aSize (r, t) d).2) := rfl
    rw [e0]
    exact ih (fun di hd => hL di (List.mem_cons_of_mem _ hd)) _ _ _ h.2.1 h.2.2.1 h.2.2.2

/-- **Determinacy of `glwe_external_product_internal`**, every digit size: the big accumulator does not depend
on the previous contents of the two scratch DFT buffers. -/
theorem epInternal_determined (a : List Col) (g : EpGGSW) (res0 res0' tmp0 tmp0' : List Col) (hd : 1 ≤ g.dsize)
    (h0 : shapeOk g.n (g.rank + 1) g.size res0 = true) (h0' : shapeOk g.n (g.rank + 1) g.size res0' = true)
    (ht : shapeOk g.n (g.rank + 1) g.size tmp0 = true) (ht' : shapeOk g.n (g.rank + 1) g.size tmp0' = true) :
    epInternal a g res0 tmp0 = epInternal a g res0' tmp0' := by
  have s0 := (mkBuf_shape g.n (g.rank + 1) g.size res0 h0).1
  have s0' := (mkBuf_shape g.n (g.rank + 1) g.size res0' h0').1
  have st := (mkBuf_shape g.n (g.rank + 1) g.size tmp0 ht).1
  have st' := (mkBuf_shape g.n (g.rank + 1) g.size tmp0' ht').1
  unfold epInternal
  by_cases h1 : g.dsize = 1
  · simp only [h1, if_true]
    apply List.map_congr_left
    intro c hc
    have hcc : c < g.rank + 1 := List.mem_range.mp hc
    unfold opVmp
    rw [setFlat_act _ s0.1 _ c (by rw [s0.2.2.1]; exact hcc), setFlat_act _ s0'.1 _ c (by rw [s0'.2.2.1]; exact hcc)]
    simp [mkBuf]
  · simp only [h1, if_false]
    have hr : List.range g.dsize = 0 :: (List.range (g.dsize - 1)).map (· + 1) := by
      have : g.dsize = (g.dsize - 1) + 1 := by omega
      rw [this, List.range_succ_eq_map]
      simp
    rw [hr]
    simp only [List.foldl_cons]
    have p0 := pass0_determined (mkBuf g.n (g.rank + 1) (a.getD 0 []).length a) g (a.getD 0 []).length
      (mkBuf g.n (g.rank + 1) g.size res0) (mkBuf g.n (g.rank + 1) g.size res0')
      (mkBuf g.n (g.rank + 1) g.size tmp0) (mkBuf g.n (g.rank + 1) g.size tmp0') s0 s0'
    have q0 := pass0_shape (mkBuf g.n (g.rank + 1) (a.getD 0 []).length a) g (a.getD 0 []).length
      (mkBuf g.n (g.rank + 1) g.size res0) (mkBuf g.n (g.rank + 1) g.size tmp0) s0
    have q0' := pass0_shape (mkBuf g.n (g.rank + 1) (a.getD 0 []).length a) g (a.getD 0 []).length
      (mkBuf g.n (g.rank + 1) g.size res0') (mkBuf g.n (g.rank + 1) g.size tmp0') s0'
    have e : epDigitPass (mkBuf g.n (g.rank + 1) (a.getD 0 []).length a) g (a.getD 0 []).length
        (mkBuf g.n (g.rank + 1) g.size res0', mkBuf g.n (g.rank + 1) g.size tmp0') 0
        = ((epDigitPass (mkBuf g.n (g.rank + 1) (a.getD 0 []).length a) g (a.getD 0 []).length
            (mkBuf g.n (g.rank + 1) g.size res0, mkBuf g.n (g.rank + 1) g.size tmp0) 0).1,
           mkBuf g.n (g.rank + 1) g.size tmp0') := Prod.ext p0.symm q0'.2
    have e' : epDigitPass (mkBuf g.n (g.rank + 1) (a.getD 0 []).length a) g (a.getD 0 []).length
        (mkBuf g.n (g.rank + 1) g.size res0, mkBuf g.n (g.rank + 1) g.size tmp0) 0
        = ((epDigitPass (mkBuf g.n (g.rank + 1) (a.getD 0 []).length a) g (a.getD 0 []).length
            (mkBuf g.n (g.rank + 1) g.size res0, mkBuf g.n (g.rank + 1) g.size tmp0) 0).1,
           mkBuf g.n (g.rank + 1) g.size tmp0) := Prod.ext rfl q0.2
    rw [e, e']
    rw [passes_determined _ g _ ((List.range (g.dsize - 1)).map (· + 1)) (by
      intro di hdi
      simp only [List.mem_map, List.mem_range] at hdi
      obtain ⟨x, _, rfl⟩ := hdi
      omega) _ _ _ q0.1 st st']

/-- `for j in 0..cols { vec_znx_dft_apply(1, 0, a_dft, j, a, j) }` into a buffer of the input's size copies the input -/
theorem dftApplyAll_id_flat (n cols size : Nat) (a : List Col) (ha : shapeOk n cols size a = true) :
    (dftApplyAll 1 0 (mkBuf n cols size (zeroCols n cols size)) (mkBuf n cols size a)).flat = (mkBuf n cols size a).flat := by
  have hz : shapeOk n cols size (zeroCols n cols size) = true := by
    unfold shapeOk zeroCols
    simp [Hal.zeroP]
  have sz := (mkBuf_shape n cols size _ hz).1
  have sa := (mkBuf_shape n cols size a ha).1
  have h := foldl_setActG (fun n' s' c => dftApplyCol n' 1 0 s' ((mkBuf n cols size a).act c)) (List.range cols)
    (mkBuf n cols size (zeroCols n cols size)) sz.1 List.nodup_range (fun c hc => List.mem_range.mp hc) (by intro c; simp)
  simp only at h
  have hfold : dftApplyAll 1 0 (mkBuf n cols size (zeroCols n cols size)) (mkBuf n cols size a)
      = (List.range cols).foldl (fun (acc : Buf) c => acc.setAct c (dftApplyCol acc.n 1 0 acc.size ((mkBuf n cols size a).act c)))
          (mkBuf n cols size (zeroCols n cols size)) := rfl
  rw [hfold]
  unfold Buf.flat
  rw [h.2.1, h.2.2.1, h.2.2.2.1]
  apply List.map_congr_left
  intro r hr
  have hr' : r < size * cols := by simpa [mkBuf] using List.mem_range.mp hr
  have hcpos : 0 < cols := by
    rcases Nat.eq_zero_or_pos cols with h0 | h0
    · rw [h0] at hr'; simp at hr'
    · exact h0
  have hc : r % cols < cols := Nat.mod_lt _ hcpos
  have hlen : ((mkBuf n cols size a).act (r % cols)).length = size :=
    Buf.act_length _ sa.1 _ (by simpa [mkBuf] using hc)
  have hid := dftApplyCol_id n ((mkBuf n cols size a).act (r % cols))
  rw [hlen] at hid
  have hcol := h.2.2.2.2 (r % cols)
  rw [if_pos (List.mem_range.mpr hc)] at hcol
  have hcol' : (List.foldl (fun (acc : Buf) c => acc.setAct c (dftApplyCol acc.n 1 0 acc.size ((mkBuf n cols size a).act c)))
      (mkBuf n cols size (zeroCols n cols size)) (List.range cols)).act (r % cols) = (mkBuf n cols size a).act (r % cols) :=
    hcol.trans hid
  show limbOr0 n (_ ) (r / cols) = limbOr0 n (_) (r / cols)
  exact congrArg (fun x => limbOr0 n x (r / cols)) hcol'

/-- **Bridge, `dsize = 1`**: limb `l` of the phase of the executed `epInternal` is the digit-weighted sum of
the phases of limb `l` of the GGSW rows; the digits are the limbs of the input in storage order. -/
theorem epInternal_phase_dsize1 (sk : List Poly) (a : List Col) (g : EpGGSW) (res0 tmp0 : List Col) (l : Nat)
    (h1 : g.dsize = 1) (h0 : shapeOk g.n (g.rank + 1) g.size res0 = true)
    (ha : shapeOk g.n (g.rank + 1) (a.getD 0 []).length a = true) (hl : l < g.size)
    (hM : ∀ j q, (g.toPMat.entry j q).length = g.n) :
    phaseRow sk ((epInternal a g res0 tmp0).map (fun col => limbOr0 g.n col l)) =
      sumR g.n (fun j => Hal.negMul ((mkBuf g.n (g.rank + 1) (a.getD 0 []).length a).flat.getD j (zeroP g.n))
          (phaseRow sk (rowLimb g.toPMat j l)))
        (min ((g.rank + 1) * g.dnum) ((a.getD 0 []).length * (g.rank + 1))) := by
  have s0 := (mkBuf_shape g.n (g.rank + 1) g.size res0 h0).1
  unfold epInternal
  simp only [h1, if_true]
  have v := opVmp_spec (mkBuf g.n (g.rank + 1) g.size res0)
    (dftApplyAll 1 0 (mkBuf g.n (g.rank + 1) (a.getD 0 []).length (zeroCols g.n (g.rank + 1) (a.getD 0 []).length))
      (mkBuf g.n (g.rank + 1) (a.getD 0 []).length a)) g.toPMat 0 s0.1
  have hp := opVmp_phase sk (mkBuf g.n (g.rank + 1) g.size res0)
    (dftApplyAll 1 0 (mkBuf g.n (g.rank + 1) (a.getD 0 []).length (zeroCols g.n (g.rank + 1) (a.getD 0 []).length))
      (mkBuf g.n (g.rank + 1) (a.getD 0 []).length a)) g.toPMat 0 l s0.1 rfl (Nat.succ_pos _) hl hl hM
  rw [dftApplyAll_id_flat g.n (g.rank + 1) _ a ha] at hp
  rw [List.map_map]
  have hb : bufRow (opVmp (mkBuf g.n (g.rank + 1) g.size res0)
      (dftApplyAll 1 0 (mkBuf g.n (g.rank + 1) (a.getD 0 []).length (zeroCols g.n (g.rank + 1) (a.getD 0 []).length))
        (mkBuf g.n (g.rank + 1) (a.getD 0 []).length a)) g.toPMat 0) l
      = (List.range (g.rank + 1)).map ((fun col => limbOr0 g.n col l) ∘
          (opVmp (mkBuf g.n (g.rank + 1) g.size res0)
            (dftApplyAll 1 0 (mkBuf g.n (g.rank + 1) (a.getD 0 []).length (zeroCols g.n (g.rank + 1) (a.getD 0 []).length))
              (mkBuf g.n (g.rank + 1) (a.getD 0 []).length a)) g.toPMat 0).act) := by
    unfold bufRow
    rw [v.2.1, v.2.2.2.1]
    rfl
  rw [← hb, hp]
  simp only [sumR, mkBuf, flat_length, EpGGSW.toPMat]
  rfl

end Core
