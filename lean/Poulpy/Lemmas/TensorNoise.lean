import Poulpy.Lemmas.TensorValue
import Poulpy.Lemmas.HeadRoom

/-!
Noise of the tensor in closed form: the `‖·‖₁`-submultiplicativity of the negacyclic product, the dropped limbs of the truncated convolution
as a coefficient list with a `‖·‖_∞` bound, the per-product noise polynomial, and the weighted sum over the tensor columns.
-/

namespace Core
open Hal Ks Finset C02L Core.Ops KsDec

/-! ### `‖p ⋆ q‖₁ ≤ ‖p‖₁·‖q‖₁` -/

theorem norm1_append (a b : Poly) : norm1 (a ++ b) = norm1 a + norm1 b := by
  induction a with
  | nil => simp
  | cons x xs ih => rw [List.cons_append, norm1_cons, norm1_cons, ih]; ring

theorem norm1_mulX (a : Poly) : norm1 (Hal.mulX a) = norm1 a := by
  rcases List.eq_nil_or_concat a with rfl | ⟨a', x, rfl⟩
  · rfl
  · simp only [List.concat_eq_append]
    rw [mulX_append_one, norm1_append, norm1_cons, norm1_cons, norm1_nil, abs_neg]
    ring

/-- **`‖p ⋆ q‖₁ ≤ ‖p‖₁ · ‖q‖₁`** for the negacyclic product (the 1/1 companion of `normInf_negMul_le`) -/
theorem norm1_negMul_le (p q : Poly) : norm1 (Hal.negMul p q) ≤ norm1 p * norm1 q := by
  induction p with
  | nil => rw [negMul_nil_left, norm1_zeroP]; simp
  | cons p0 ps ih =>
    simp only [Hal.negMul]
    have h1 := norm1_polyAdd_le (Hal.polyScale p0 q) (Hal.mulX (Hal.negMul ps q))
    rw [norm1_polyScale, norm1_mulX] at h1
    rw [norm1_cons, Int.add_mul]
    omega

/-! ### the dropped limbs of the truncated convolution, as a coefficient list -/

/-- `Σ_{m<n} β^m ≤ 2·β^{n−1}` (`β ≥ 2`), `0` for `n = 0` -/
def geo2 (β : Int) (n : Nat) : Int := if n = 0 then 0 else 2 * β ^ (n - 1)

theorem geo_sum_le (β : Int) (hβ : 2 ≤ β) (n : Nat) : ∑ m ∈ range n, β ^ m ≤ geo2 β n := by
  unfold geo2
  induction n with
  | zero => simp
  | succ k ih =>
    rw [Finset.sum_range_succ]
    simp only [Nat.succ_ne_zero, if_false, Nat.add_sub_cancel]
    by_cases hk : k = 0
    · subst hk; simp
    · simp only [hk, if_false] at ih
      have hp : β ^ k = β * β ^ (k - 1) := by
        have : k = (k - 1) + 1 := by omega
        conv_lhs => rw [this, pow_succ]
        ring
      have h0 : (0 : Int) ≤ β ^ (k - 1) := by positivity
      nlinarith

/-- the dropped limbs `S ≤ k < F` of the full convolution, weighted, as a coefficient list -/
def cnvDropP (N b : Nat) (x y : Col) (hi S : Nat) : Poly :=
  sumPolys N ((List.range (x.length + y.length - hi - S)).map (fun m =>
    Hal.polyScale ((2 : Int) ^ (b * (x.length + y.length - hi - 1 - (S + m))))
      (limbOr0 N (Hal.cnvApplyCol N (x.length + y.length - hi) hi x y) (S + m))))

theorem cnvDropP_length (N b : Nat) (x y : Col) (hi S : Nat) (hy : ∀ l ∈ y, l.length = N) : (cnvDropP N b x y hi S).length = N := by
  unfold cnvDropP
  apply sumPolys_range_length
  intro j _
  rw [Hal.polyScale_length]
  exact cnvApplyCol_limb_length N _ hi x y _ hy

theorem ι_cnvDropP (N b : Nat) (x y : Col) (hi S : Nat) (hy : ∀ l ∈ y, l.length = N) (hS : S ≤ x.length + y.length - hi) :
    ι N (cnvDropP N b x y hi S) = cnvDrop N ((2 : R N) ^ b) x y hi S := by
  unfold cnvDropP cnvDrop
  rw [ι_sumPolys_range N _ _ (fun j _ => by rw [Hal.polyScale_length]; exact cnvApplyCol_limb_length N _ hi x y _ hy),
    Finset.sum_Ico_eq_sum_range]
  apply Finset.sum_congr rfl
  intro m _
  rw [ι_polyScale]
  push_cast
  rw [← pow_mul]
  ring

theorem cnvDropP_bound (N b : Nat) (x y : Col) (hi S : Nat) (Hc : Int) (hHc : 0 ≤ Hc) (hb : 1 ≤ b)
    (hacc : ∀ l ∈ Hal.cnvApplyCol N (x.length + y.length - hi) hi x y, ∀ v ∈ l, |v| ≤ Hc) :
    normInf (cnvDropP N b x y hi S) ≤ Hc * geo2 (2 ^ b) (x.length + y.length - hi - S) := by
  unfold cnvDropP
  set n := x.length + y.length - hi - S with hn
  have h1 := normInf_sumPolys_range_le N n
    (fun m => Hal.polyScale ((2 : Int) ^ (b * (x.length + y.length - hi - 1 - (S + m))))
      (limbOr0 N (Hal.cnvApplyCol N (x.length + y.length - hi) hi x y) (S + m)))
    (fun m => Hc * (2 ^ b) ^ (n - 1 - m)) (by
      intro m hm
      rw [normInf_polyScale, abs_of_nonneg (by positivity), ← pow_mul]
      have e : b * (x.length + y.length - hi - 1 - (S + m)) = b * (n - 1 - m) := by congr 1; omega
      rw [e, mul_comm]
      exact mul_le_mul_of_nonneg_right (limb_normInf N _ _ Hc hHc hacc) (by positivity))
  refine h1.trans ?_
  rw [← Finset.mul_sum]
  apply mul_le_mul_of_nonneg_left _ hHc
  have hrefl : ∑ m ∈ range n, ((2 : Int) ^ b) ^ (n - 1 - m) = ∑ m ∈ range n, ((2 : Int) ^ b) ^ m := Finset.sum_range_reflect (fun m => ((2 : Int) ^ b) ^ m) n
  rw [hrefl]
  apply geo_sum_le
  calc (2 : Int) = 2 ^ 1 := by norm_num
    _ ≤ 2 ^ b := pow_le_pow_right₀ (by norm_num) hb

/-! ### the noise polynomial of one normalised product -/

/-- rescaled rounding minus the dropped limbs, as a coefficient list -/
def cnvNoiseP (N b rb rs : Nat) (lo : Int) (x y : Col) (hi S : Nat) (e : Poly) : Poly :=
  Hal.polyAdd (Hal.polyScale ((2 : Int) ^ (b * (x.length + y.length - hi - S))) e)
    (Hal.polyScale (-((2 : Int) ^ (rb * rs + lo.toNat))) (cnvDropP N b x y hi S))

/-- closed-form bound of `cnvNoiseP`: `2^{b(F−S)}·tol + 2^{rb·rs+lo⁺}·Hc·geo2(2^b, F−S)` -/
def cnvNoiseBound (b rb rs : Nat) (lo : Int) (F S : Nat) (tol Hc : Int) : Int :=
  2 ^ (b * (F - S)) * tol + 2 ^ (rb * rs + lo.toNat) * (Hc * geo2 (2 ^ b) (F - S))

theorem cnvNoiseP_length (N b rb rs : Nat) (lo : Int) (x y : Col) (hi S : Nat) (e : Poly) (he : e.length = N) (hy : ∀ l ∈ y, l.length = N) :
    (cnvNoiseP N b rb rs lo x y hi S e).length = N := by
  unfold cnvNoiseP
  rw [Hal.polyAdd_length, Hal.polyScale_length, Hal.polyScale_length, he, cnvDropP_length N b x y hi S hy]; simp

theorem cnvNoiseP_bound (N b rb rs : Nat) (lo : Int) (x y : Col) (hi S : Nat) (e : Poly) (tol Hc : Int) (hHc : 0 ≤ Hc) (hb : 1 ≤ b)
    (he : normInf e ≤ tol)
    (hacc : ∀ l ∈ Hal.cnvApplyCol N (x.length + y.length - hi) hi x y, ∀ v ∈ l, |v| ≤ Hc) :
    normInf (cnvNoiseP N b rb rs lo x y hi S e) ≤ cnvNoiseBound b rb rs lo (x.length + y.length - hi) S tol Hc := by
  unfold cnvNoiseP cnvNoiseBound
  refine (normInf_polyAdd_le _ _).trans ?_
  rw [normInf_polyScale, normInf_polyScale, abs_of_nonneg (by positivity), abs_neg, abs_of_nonneg (by positivity)]
  exact add_le_add (mul_le_mul_of_nonneg_left he (by positivity))
    (mul_le_mul_of_nonneg_left (cnvDropP_bound N b x y hi S Hc hHc hb hacc) (by positivity))

/-- the residual of one product = its noise polynomial + multiples of the two moduli -/
theorem cnvResidual_split (N b rb rs : Nat) (lo : Int) (x y : Col) (hi S : Nat) (e q : Poly) (M : R N)
    (he : e.length = N) (hy : ∀ l ∈ y, l.length = N) (hS : S ≤ x.length + y.length - hi) :
    cnvResidual N ((2 : R N) ^ b) (((2 : R N) ^ b) ^ (x.length + y.length - hi - S)) ((2 : R N) ^ (rb * rs) * (2 : R N) ^ lo.toNat) M x y hi S e q
      = ι N (cnvNoiseP N b rb rs lo x y hi S e)
        + (((2 : R N) ^ b) ^ (x.length + y.length - hi - S) * M * ι N q
          - (2 : R N) ^ (rb * rs) * (2 : R N) ^ lo.toNat * ((2 : R N) ^ b) ^ (x.length + y.length - hi) * plainTop N ((2 : R N) ^ b) x y hi) := by
  unfold cnvResidual cnvNoiseP
  rw [ι_add N _ _ (by rw [Hal.polyScale_length, Hal.polyScale_length, he, cnvDropP_length N b x y hi S hy]),
    ι_polyScale, ι_polyScale, ι_cnvDropP N b x y hi S hy hS]
  push_cast
  rw [← pow_mul, pow_add]
  ring

/-! ### the weighted sum over the tensor columns -/

/-- the residual structure of `tensor_product_identity` is additive -/
theorem residual_sum_add {A : Type*} [CommRing A] (cols : Nat) (σ : ℕ → A) (rD nD mD : ℕ → A) (rP nP mP : ℕ → ℕ → A)
    (hD : ∀ i, i < cols → rD i = nD i + mD i) (hP : ∀ i j, i < j → j < cols → rP i j = nP i j + mP i j) :
    ∑ i ∈ range cols, (σ i * σ i * rD i + ∑ j ∈ Ico (i + 1) cols, σ i * σ j * (rP i j - rD i - rD j))
      = ∑ i ∈ range cols, (σ i * σ i * nD i + ∑ j ∈ Ico (i + 1) cols, σ i * σ j * (nP i j - nD i - nD j))
        + ∑ i ∈ range cols, (σ i * σ i * mD i + ∑ j ∈ Ico (i + 1) cols, σ i * σ j * (mP i j - mD i - mD j)) := by
  rw [← Finset.sum_add_distrib]
  apply Finset.sum_congr rfl
  intro i hi
  have hic := mem_range.mp hi
  rw [hD i hic]
  have : ∑ j ∈ Ico (i + 1) cols, σ i * σ j * (rP i j - (nD i + mD i) - rD j)
      = ∑ j ∈ Ico (i + 1) cols, σ i * σ j * (nP i j - nD i - nD j) + ∑ j ∈ Ico (i + 1) cols, σ i * σ j * (mP i j - mD i - mD j) := by
    rw [← Finset.sum_add_distrib]
    apply Finset.sum_congr rfl
    intro j hj
    have hj' := Finset.mem_Ico.mp hj
    rw [hP i j (by omega) hj'.2, hD j hj'.2]
    ring
  rw [this]
  ring

/-- linear in a scalar pair: `m = c₁·u − c₂·v` -/
theorem residual_sum_lin {A : Type*} [CommRing A] (cols : Nat) (σ : ℕ → A) (c1 c2 : A) (uD vD : ℕ → A) (uP vP : ℕ → ℕ → A) :
    ∑ i ∈ range cols, (σ i * σ i * (c1 * uD i - c2 * vD i)
        + ∑ j ∈ Ico (i + 1) cols, σ i * σ j * ((c1 * uP i j - c2 * vP i j) - (c1 * uD i - c2 * vD i) - (c1 * uD j - c2 * vD j)))
      = c1 * ∑ i ∈ range cols, (σ i * σ i * uD i + ∑ j ∈ Ico (i + 1) cols, σ i * σ j * (uP i j - uD i - uD j))
        - c2 * ∑ i ∈ range cols, (σ i * σ i * vD i + ∑ j ∈ Ico (i + 1) cols, σ i * σ j * (vP i j - vD i - vD j)) := by
  rw [Finset.mul_sum, Finset.mul_sum, ← Finset.sum_sub_distrib]
  apply Finset.sum_congr rfl
  intro i _
  rw [mul_add, mul_add, Finset.mul_sum, Finset.mul_sum]
  have : ∑ j ∈ Ico (i + 1) cols, σ i * σ j * ((c1 * uP i j - c2 * vP i j) - (c1 * uD i - c2 * vD i) - (c1 * uD j - c2 * vD j))
      = ∑ j ∈ Ico (i + 1) cols, c1 * (σ i * σ j * (uP i j - uD i - uD j)) - ∑ j ∈ Ico (i + 1) cols, c2 * (σ i * σ j * (vP i j - vD i - vD j)) := by
    rw [← Finset.sum_sub_distrib]
    apply Finset.sum_congr rfl
    intro j _
    ring
  rw [this]
  ring

/-! ### the noise polynomial of the whole tensor -/

/-- `Σ_i (s_i⋆s_i)⋆nD_i + Σ_{i<j} (s_i⋆s_j)⋆(nP_ij − nD_i − nD_j)` as a coefficient list -/
def tensorErrP (N cols : Nat) (sP : ℕ → Poly) (nD : ℕ → Poly) (nP : ℕ → ℕ → Poly) : Poly :=
  sumPolys N ((List.range cols).map (fun i =>
    Hal.polyAdd (Hal.negMul (Hal.negMul (sP i) (sP i)) (nD i))
      (sumPolys N ((List.range (cols - (i + 1))).map (fun d =>
        Hal.negMul (Hal.negMul (sP i) (sP (i + 1 + d)))
          (Hal.polyAdd (Hal.polyAdd (nP i (i + 1 + d)) (polyNeg (nD i))) (polyNeg (nD (i + 1 + d)))))))))

/-- closed form: `Σ_i (w_i²·nb + Σ_{j>i} w_i·w_j·3·nb)`, `w_i = ‖s_i‖₁` -/
def tensorNoiseBound (cols : Nat) (w : ℕ → Int) (nb : Int) : Int :=
  ∑ i ∈ range cols, (w i * w i * nb + ∑ d ∈ range (cols - (i + 1)), w i * w (i + 1 + d) * (3 * nb))

theorem tensorErrP_spec (N cols : Nat) (hN : 0 < N) (sP : ℕ → Poly) (nD : ℕ → Poly) (nP : ℕ → ℕ → Poly) (nb : Int)
    (hs : ∀ i, (sP i).length = N) (hD : ∀ i, (nD i).length = N) (hP : ∀ i j, (nP i j).length = N)
    (hDb : ∀ i, i < cols → normInf (nD i) ≤ nb) (hPb : ∀ i j, i < j → j < cols → normInf (nP i j) ≤ nb) :
    (tensorErrP N cols sP nD nP).length = N ∧
    ι N (tensorErrP N cols sP nD nP)
      = ∑ i ∈ range cols, (ι N (sP i) * ι N (sP i) * ι N (nD i)
          + ∑ j ∈ Ico (i + 1) cols, ι N (sP i) * ι N (sP j) * (ι N (nP i j) - ι N (nD i) - ι N (nD j))) ∧
    normInf (tensorErrP N cols sP nD nP) ≤ tensorNoiseBound cols (fun i => norm1 (sP i)) nb := by
  have hnb0 : ∀ i, i < cols → 0 ≤ nb := fun i hi => (normInf_nonneg _).trans (hDb i hi)
  have hinner_len : ∀ i d, (Hal.negMul (Hal.negMul (sP i) (sP (i + 1 + d)))
      (Hal.polyAdd (Hal.polyAdd (nP i (i + 1 + d)) (polyNeg (nD i))) (polyNeg (nD (i + 1 + d))))).length = N := by
    intro i d
    rw [Hal.negMul_length, Hal.polyAdd_length, Hal.polyAdd_length, polyNeg_length, polyNeg_length, hP, hD, hD]; simp
  have hsum_len : ∀ i, (sumPolys N ((List.range (cols - (i + 1))).map (fun d =>
      Hal.negMul (Hal.negMul (sP i) (sP (i + 1 + d)))
        (Hal.polyAdd (Hal.polyAdd (nP i (i + 1 + d)) (polyNeg (nD i))) (polyNeg (nD (i + 1 + d))))))).length = N :=
    fun i => sumPolys_range_length N _ _ (fun d _ => hinner_len i d)
  have hterm_len : ∀ i, (Hal.polyAdd (Hal.negMul (Hal.negMul (sP i) (sP i)) (nD i))
      (sumPolys N ((List.range (cols - (i + 1))).map (fun d =>
        Hal.negMul (Hal.negMul (sP i) (sP (i + 1 + d)))
          (Hal.polyAdd (Hal.polyAdd (nP i (i + 1 + d)) (polyNeg (nD i))) (polyNeg (nD (i + 1 + d)))))))).length = N := by
    intro i
    rw [Hal.polyAdd_length, Hal.negMul_length, hD, hsum_len]; simp
  refine ⟨sumPolys_range_length N _ _ (fun i _ => hterm_len i), ?_, ?_⟩
  · unfold tensorErrP
    rw [ι_sumPolys_range N _ _ (fun i _ => hterm_len i)]
    apply Finset.sum_congr rfl
    intro i _
    rw [ι_add N _ _ (by rw [Hal.negMul_length, hD, hsum_len]), ι_negMul N _ _ (hD i) hN, ι_negMul N _ _ (hs i) hN,
      ι_sumPolys_range N _ _ (fun d _ => hinner_len i d), Finset.sum_Ico_eq_sum_range]
    congr 1
    apply Finset.sum_congr rfl
    intro d _
    rw [ι_negMul N _ _ (by rw [Hal.polyAdd_length, Hal.polyAdd_length, polyNeg_length, polyNeg_length, hP, hD, hD]; simp) hN,
      ι_negMul N _ _ (hs _) hN,
      ι_add N _ _ (by rw [Hal.polyAdd_length, polyNeg_length, polyNeg_length, hP, hD, hD]; simp),
      ι_add N _ _ (by rw [polyNeg_length, hP, hD]), ι_polyNeg, ι_polyNeg]
    ring
  · unfold tensorErrP tensorNoiseBound
    refine normInf_sumPolys_range_le N cols _ _ (fun i hi => ?_)
    have hnb := hnb0 i hi
    refine (normInf_polyAdd_le _ _).trans (add_le_add ?_ ?_)
    · calc normInf (Hal.negMul (Hal.negMul (sP i) (sP i)) (nD i))
          ≤ norm1 (Hal.negMul (sP i) (sP i)) * normInf (nD i) := normInf_negMul_le _ _
        _ ≤ (norm1 (sP i) * norm1 (sP i)) * nb :=
            mul_le_mul (norm1_negMul_le _ _) (hDb i hi) (normInf_nonneg _) (mul_nonneg (norm1_nonneg _) (norm1_nonneg _))
    · refine normInf_sumPolys_range_le N _ _ _ (fun d hd => ?_)
      have hj : i + 1 + d < cols := by omega
      have h3 : normInf (Hal.polyAdd (Hal.polyAdd (nP i (i + 1 + d)) (polyNeg (nD i))) (polyNeg (nD (i + 1 + d)))) ≤ 3 * nb := by
        refine (normInf_polyAdd_le _ _).trans ?_
        have a1 := normInf_polyAdd_le (nP i (i + 1 + d)) (polyNeg (nD i))
        rw [normInf_polyNeg] at a1 ⊢
        have a2 := hPb i (i + 1 + d) (by omega) hj
        have a3 := hDb i hi
        have a4 := hDb (i + 1 + d) hj
        linarith
      calc normInf (Hal.negMul (Hal.negMul (sP i) (sP (i + 1 + d))) _)
          ≤ norm1 (Hal.negMul (sP i) (sP (i + 1 + d))) * normInf _ := normInf_negMul_le _ _
        _ ≤ (norm1 (sP i) * norm1 (sP (i + 1 + d))) * (3 * nb) :=
            mul_le_mul (norm1_negMul_le _ _) h3 (normInf_nonneg _) (mul_nonneg (norm1_nonneg _) (norm1_nonneg _))

/-! ### `glwe_tensor_apply`: product + ONE noise polynomial with a closed-form bound + multiples of the moduli -/

/-- **`tensorApply_noise`** — `tensorApply_total` with the residual sum collapsed: the tensor decrypts under the grouped secret to
`K·β·(Σσ_i val(a'_i))·(Σσ_j val(b'_j))` plus `ι(errT)` with `‖errT‖_∞ ≤ tensorNoiseBound cols ‖s_i‖₁ (cnvNoiseBound …)` plus multiples
`A'·M·Qa − K·β^F·Qb` of the two moduli.  `Hc` bounds the coefficients of the FULL convolutions (`mul_plain_headroom`). -/
theorem tensorApply_noise (big128 : Bool) (N rb rs off b : Nat) (a bb : List Col) (aK bK : Nat) (res0 : List Col) (skG : List Poly)
    (sP : ℕ → Poly) (Hc : Int) (sa sb cols : Nat) (hN : 0 < N)
    (hcols : a.length = cols) (hcb : bb.length = cols) (hc1 : 1 ≤ cols)
    (ha : ∀ x ∈ a, x.length = sa ∧ ∀ l ∈ x, l.length = N) (hbb : ∀ x ∈ bb, x.length = sb ∧ ∀ l ∈ x, l.length = N)
    (hsa : 1 ≤ sa) (hsb : 1 ≤ sb) (hhi : (cnvOffsetSplit b off).1 ≤ sa + sb - 1)
    (hr0 : res0.length = (cols + 1) * cols / 2)
    (hrb1 : 1 ≤ rb) (hrb : rb ≤ 61) (hb1 : 1 ≤ b) (hb : b ≤ 62) (hH0 : 0 ≤ Hc) (hH : Hc + 8 ≤ 2 ^ (bitsOf big128 - 2))
    (hfullD : ∀ i, i < cols → ∀ l ∈ Hal.cnvApplyCol N (sa + sb - (cnvOffsetSplit b off).1) (cnvOffsetSplit b off).1
        ((prepAll N (msbMaskBottomLimb b aK) a).getD i []) ((prepAll N (msbMaskBottomLimb b bK) bb).getD i []), ∀ v ∈ l, |v| ≤ Hc)
    (hfullP : ∀ i j, i < j → j < cols → ∀ l ∈ Hal.cnvApplyCol N (sa + sb - (cnvOffsetSplit b off).1) (cnvOffsetSplit b off).1
        (Hal.colAdd N ((prepAll N (msbMaskBottomLimb b aK) a).getD i []) ((prepAll N (msbMaskBottomLimb b aK) a).getD j []))
        (Hal.colAdd N ((prepAll N (msbMaskBottomLimb b bK) bb).getD i []) ((prepAll N (msbMaskBottomLimb b bK) bb).getD j [])),
        ∀ v ∈ l, |v| ≤ Hc)
    (hskl : skG.length = (cols + 1) * cols / 2 - 1) (hsP : ∀ i, (sP i).length = N) (hσ0 : ι N (sP 0) = 1)
    (hτ : ∀ i j, i ≤ j → j < cols → 0 < cix cols i j → ι N (skG.getD (cix cols i j - 1) []) = ι N (sP i) * ι N (sP j)) :
    ∃ T, tensorApply false big128 N rb rs off b a aK bb bK res0 = some T ∧ T.length = (cols + 1) * cols / 2 ∧ (∀ c ∈ T, ColWF N rs c) ∧
      (∀ c ∈ T, ∀ l ∈ c, ∀ v ∈ l, |v| ≤ 3 * (2 ^ rb - 1)) ∧
      ∃ (errT : Poly) (Qa Qb : R N), errT.length = N ∧
        normInf errT ≤ tensorNoiseBound cols (fun i => norm1 (sP i))
          (cnvNoiseBound b rb rs (cnvOffsetSplit b off).2 (sa + sb - (cnvOffsetSplit b off).1)
            (limbBoundWithOffset (sa + sb - (cnvOffsetSplit b off).1) rs rb b (cnvOffsetSplit b off).2)
            (normTolOff (rb * rs) (b * limbBoundWithOffset (sa + sb - (cnvOffsetSplit b off).1) rs rb b (cnvOffsetSplit b off).2) (cnvOffsetSplit b off).2) Hc) ∧
        (((2 : R N) ^ b) ^ (sa + sb - (cnvOffsetSplit b off).1 - limbBoundWithOffset (sa + sb - (cnvOffsetSplit b off).1) rs rb b (cnvOffsetSplit b off).2)
            * (2 : R N) ^ (b * limbBoundWithOffset (sa + sb - (cnvOffsetSplit b off).1) rs rb b (cnvOffsetSplit b off).2 + (-(cnvOffsetSplit b off).2).toNat))
          * ι N (valP rb N (phase skG (Ks.mkCt rb N T)))
          = ((2 : R N) ^ (rb * rs) * (2 : R N) ^ (cnvOffsetSplit b off).2.toNat) * ((2 : R N) ^ b)
              * ((∑ i ∈ range cols, ι N (sP i) * colVal N ((2 : R N) ^ b) ((prepAll N (msbMaskBottomLimb b aK) a).getD i []))
                * (∑ j ∈ range cols, ι N (sP j) * colVal N ((2 : R N) ^ b) ((prepAll N (msbMaskBottomLimb b bK) bb).getD j [])))
            + ι N errT
            + (((2 : R N) ^ b) ^ (sa + sb - (cnvOffsetSplit b off).1 - limbBoundWithOffset (sa + sb - (cnvOffsetSplit b off).1) rs rb b (cnvOffsetSplit b off).2)
                * (2 : R N) ^ (rb * rs + (b * limbBoundWithOffset (sa + sb - (cnvOffsetSplit b off).1) rs rb b (cnvOffsetSplit b off).2 + (-(cnvOffsetSplit b off).2).toNat))) * Qa
            - ((2 : R N) ^ (rb * rs) * (2 : R N) ^ (cnvOffsetSplit b off).2.toNat * ((2 : R N) ^ b) ^ (sa + sb - (cnvOffsetSplit b off).1)) * Qb := by
  set hi := (cnvOffsetSplit b off).1 with hhi_def
  set lo := (cnvOffsetSplit b off).2 with hlo_def
  set S := limbBoundWithOffset (sa + sb - hi) rs rb b lo with hS_def
  set aP := prepAll N (msbMaskBottomLimb b aK) a with haP
  set bP := prepAll N (msbMaskBottomLimb b bK) bb with hbP
  have hSle : S ≤ sa + sb - hi := limbBoundWithOffset_le _ _ _ _ _
  have haPi : ∀ i, i < cols → (aP.getD i []).length = sa ∧ ∀ l ∈ aP.getD i [], l.length = N :=
    fun i hi' => prepAll_getD N _ a sa i (by rw [hcols]; exact hi') ha
  have hbPi : ∀ i, i < cols → (bP.getD i []).length = sb ∧ ∀ l ∈ bP.getD i [], l.length = N :=
    fun i hi' => prepAll_getD N _ bb sb i (by rw [hcb]; exact hi') hbb
  have htrunc : ∀ x y : Col, (∀ l ∈ Hal.cnvApplyCol N (sa + sb - hi) hi x y, ∀ v ∈ l, |v| ≤ Hc) →
      ∀ l ∈ Hal.cnvApplyCol N S hi x y, ∀ v ∈ l, |v| ≤ Hc := by
    intro x y h l hl
    rw [cnvApplyCol_take N S (sa + sb - hi) hi x y hSle] at hl
    exact h l (List.mem_of_mem_take hl)
  obtain ⟨T, hcall, hTlen, hTwf, hTdig, eD, qD, eP, qP, hDe, hPe, heq⟩ := tensorApply_total big128 N rb rs off b a bb aK bK res0 skG
    (fun i => ι N (sP i)) Hc sa sb cols hN hcols hcb hc1 ha hbb hsa hsb hhi hr0 hrb1 hrb hb1 hb hH0 hH
    (fun i hic => htrunc _ _ (hfullD i hic)) (fun i j hij hjc => htrunc _ _ (hfullP i j hij hjc)) hskl hσ0 hτ
  refine ⟨T, hcall, hTlen, hTwf, hTdig, ?_⟩
  -- the noise polynomials, made total
  let nD : ℕ → Poly := fun i => if i < cols then cnvNoiseP N b rb rs lo (aP.getD i []) (bP.getD i []) hi S (eD i) else zeroP N
  let nP : ℕ → ℕ → Poly := fun i j => if i < j ∧ j < cols then
      cnvNoiseP N b rb rs lo (Hal.colAdd N (aP.getD i []) (aP.getD j [])) (Hal.colAdd N (bP.getD i []) (bP.getD j [])) hi S (eP i j) else zeroP N
  have hshapeP : ∀ i j, i < j → j < cols →
      (Hal.colAdd N (aP.getD i []) (aP.getD j [])).length = sa ∧ (Hal.colAdd N (bP.getD i []) (bP.getD j [])).length = sb ∧
      ∀ l ∈ Hal.colAdd N (bP.getD i []) (bP.getD j []), l.length = N := by
    intro i j hij hjc
    have hic : i < cols := by omega
    obtain ⟨a1, a2⟩ := haPi i hic
    obtain ⟨a3, a4⟩ := haPi j hjc
    obtain ⟨b1, b2⟩ := hbPi i hic
    obtain ⟨b3, b4⟩ := hbPi j hjc
    obtain ⟨x1, _⟩ := colAdd_shape N (aP.getD i []) (aP.getD j []) (by rw [a1, a3]) a2 a4
    obtain ⟨y1, y2⟩ := colAdd_shape N (bP.getD i []) (bP.getD j []) (by rw [b1, b3]) b2 b4
    exact ⟨by rw [x1, a1], by rw [y1, b1], y2⟩
  have hnDl : ∀ i, (nD i).length = N := by
    intro i
    simp only [nD]
    split
    · rename_i hic
      exact cnvNoiseP_length N b rb rs lo _ _ hi S _ (hDe i hic).1 (hbPi i hic).2
    · simp [zeroP]
  have hnPl : ∀ i j, (nP i j).length = N := by
    intro i j
    simp only [nP]
    split
    · rename_i hc
      exact cnvNoiseP_length N b rb rs lo _ _ hi S _ (hPe i j hc.1 hc.2).1 (hshapeP i j hc.1 hc.2).2.2
    · simp [zeroP]
  set nb := cnvNoiseBound b rb rs lo (sa + sb - hi) S (normTolOff (rb * rs) (b * S) lo) Hc with hnb
  have hnDb : ∀ i, i < cols → normInf (nD i) ≤ nb := by
    intro i hic
    simp only [nD, hic, if_true]
    have := cnvNoiseP_bound N b rb rs lo (aP.getD i []) (bP.getD i []) hi S (eD i) (normTolOff (rb * rs) (b * S) lo) Hc hH0 hb1
      (hDe i hic).2.2 (by rw [(haPi i hic).1, (hbPi i hic).1]; exact hfullD i hic)
    rw [(haPi i hic).1, (hbPi i hic).1] at this
    exact this
  have hnPb : ∀ i j, i < j → j < cols → normInf (nP i j) ≤ nb := by
    intro i j hij hjc
    simp only [nP, hij, hjc, and_self, if_true]
    obtain ⟨x1, y1, _⟩ := hshapeP i j hij hjc
    have := cnvNoiseP_bound N b rb rs lo (Hal.colAdd N (aP.getD i []) (aP.getD j [])) (Hal.colAdd N (bP.getD i []) (bP.getD j [])) hi S (eP i j)
      (normTolOff (rb * rs) (b * S) lo) Hc hH0 hb1
      (hPe i j hij hjc).2.2 (by rw [x1, y1]; exact hfullP i j hij hjc)
    rw [x1, y1] at this
    exact this
  obtain ⟨hel, heι, heb⟩ := tensorErrP_spec N cols hN sP nD nP nb hsP hnDl hnPl hnDb hnPb
  -- split every residual
  have hsplitD : ∀ i, i < cols →
      cnvResidual N ((2 : R N) ^ b) (((2 : R N) ^ b) ^ (sa + sb - hi - S)) ((2 : R N) ^ (rb * rs) * (2 : R N) ^ lo.toNat)
          ((2 : R N) ^ (rb * rs + (b * S + (-lo).toNat))) (aP.getD i []) (bP.getD i []) hi S (eD i) (qD i)
        = ι N (nD i) + ((((2 : R N) ^ b) ^ (sa + sb - hi - S) * (2 : R N) ^ (rb * rs + (b * S + (-lo).toNat))) * ι N (qD i)
            - ((2 : R N) ^ (rb * rs) * (2 : R N) ^ lo.toNat * ((2 : R N) ^ b) ^ (sa + sb - hi)) * plainTop N ((2 : R N) ^ b) (aP.getD i []) (bP.getD i []) hi) := by
    intro i hic
    have h := cnvResidual_split N b rb rs lo (aP.getD i []) (bP.getD i []) hi S (eD i) (qD i) ((2 : R N) ^ (rb * rs + (b * S + (-lo).toNat)))
      (hDe i hic).1 (hbPi i hic).2 (by rw [(haPi i hic).1, (hbPi i hic).1]; exact hSle)
    rw [(haPi i hic).1, (hbPi i hic).1] at h
    simp only [nD, hic, if_true]
    exact h
  have hsplitP : ∀ i j, i < j → j < cols →
      cnvResidual N ((2 : R N) ^ b) (((2 : R N) ^ b) ^ (sa + sb - hi - S)) ((2 : R N) ^ (rb * rs) * (2 : R N) ^ lo.toNat)
          ((2 : R N) ^ (rb * rs + (b * S + (-lo).toNat))) (Hal.colAdd N (aP.getD i []) (aP.getD j [])) (Hal.colAdd N (bP.getD i []) (bP.getD j []))
          hi S (eP i j) (qP i j)
        = ι N (nP i j) + ((((2 : R N) ^ b) ^ (sa + sb - hi - S) * (2 : R N) ^ (rb * rs + (b * S + (-lo).toNat))) * ι N (qP i j)
            - ((2 : R N) ^ (rb * rs) * (2 : R N) ^ lo.toNat * ((2 : R N) ^ b) ^ (sa + sb - hi)) *
                plainTop N ((2 : R N) ^ b) (Hal.colAdd N (aP.getD i []) (aP.getD j [])) (Hal.colAdd N (bP.getD i []) (bP.getD j [])) hi) := by
    intro i j hij hjc
    obtain ⟨x1, y1, y2⟩ := hshapeP i j hij hjc
    have h := cnvResidual_split N b rb rs lo (Hal.colAdd N (aP.getD i []) (aP.getD j [])) (Hal.colAdd N (bP.getD i []) (bP.getD j [])) hi S
      (eP i j) (qP i j) ((2 : R N) ^ (rb * rs + (b * S + (-lo).toNat)))
      (hPe i j hij hjc).1 y2 (by rw [x1, y1]; exact hSle)
    rw [x1, y1] at h
    simp only [nP, hij, hjc, and_self, if_true]
    exact h
  have hadd := residual_sum_add cols (fun i => ι N (sP i))
    (fun i => cnvResidual N ((2 : R N) ^ b) (((2 : R N) ^ b) ^ (sa + sb - hi - S)) ((2 : R N) ^ (rb * rs) * (2 : R N) ^ lo.toNat)
          ((2 : R N) ^ (rb * rs + (b * S + (-lo).toNat))) (aP.getD i []) (bP.getD i []) hi S (eD i) (qD i))
    (fun i => ι N (nD i))
    (fun i => (((2 : R N) ^ b) ^ (sa + sb - hi - S) * (2 : R N) ^ (rb * rs + (b * S + (-lo).toNat))) * ι N (qD i)
            - ((2 : R N) ^ (rb * rs) * (2 : R N) ^ lo.toNat * ((2 : R N) ^ b) ^ (sa + sb - hi)) * plainTop N ((2 : R N) ^ b) (aP.getD i []) (bP.getD i []) hi)
    (fun i j => cnvResidual N ((2 : R N) ^ b) (((2 : R N) ^ b) ^ (sa + sb - hi - S)) ((2 : R N) ^ (rb * rs) * (2 : R N) ^ lo.toNat)
          ((2 : R N) ^ (rb * rs + (b * S + (-lo).toNat))) (Hal.colAdd N (aP.getD i []) (aP.getD j [])) (Hal.colAdd N (bP.getD i []) (bP.getD j []))
          hi S (eP i j) (qP i j))
    (fun i j => ι N (nP i j))
    (fun i j => (((2 : R N) ^ b) ^ (sa + sb - hi - S) * (2 : R N) ^ (rb * rs + (b * S + (-lo).toNat))) * ι N (qP i j)
            - ((2 : R N) ^ (rb * rs) * (2 : R N) ^ lo.toNat * ((2 : R N) ^ b) ^ (sa + sb - hi)) *
                plainTop N ((2 : R N) ^ b) (Hal.colAdd N (aP.getD i []) (aP.getD j [])) (Hal.colAdd N (bP.getD i []) (bP.getD j [])) hi)
    hsplitD hsplitP
  have hlin := residual_sum_lin cols (fun i => ι N (sP i))
    (((2 : R N) ^ b) ^ (sa + sb - hi - S) * (2 : R N) ^ (rb * rs + (b * S + (-lo).toNat)))
    ((2 : R N) ^ (rb * rs) * (2 : R N) ^ lo.toNat * ((2 : R N) ^ b) ^ (sa + sb - hi))
    (fun i => ι N (qD i)) (fun i => plainTop N ((2 : R N) ^ b) (aP.getD i []) (bP.getD i []) hi)
    (fun i j => ι N (qP i j))
    (fun i j => plainTop N ((2 : R N) ^ b) (Hal.colAdd N (aP.getD i []) (aP.getD j [])) (Hal.colAdd N (bP.getD i []) (bP.getD j [])) hi)
  refine ⟨tensorErrP N cols sP nD nP,
    ∑ i ∈ range cols, (ι N (sP i) * ι N (sP i) * ι N (qD i)
      + ∑ j ∈ Ico (i + 1) cols, ι N (sP i) * ι N (sP j) * (ι N (qP i j) - ι N (qD i) - ι N (qD j))),
    ∑ i ∈ range cols, (ι N (sP i) * ι N (sP i) * plainTop N ((2 : R N) ^ b) (aP.getD i []) (bP.getD i []) hi
      + ∑ j ∈ Ico (i + 1) cols, ι N (sP i) * ι N (sP j) *
          (plainTop N ((2 : R N) ^ b) (Hal.colAdd N (aP.getD i []) (aP.getD j [])) (Hal.colAdd N (bP.getD i []) (bP.getD j [])) hi
            - plainTop N ((2 : R N) ^ b) (aP.getD i []) (bP.getD i []) hi - plainTop N ((2 : R N) ^ b) (aP.getD j []) (bP.getD j []) hi)),
    hel, heb, ?_⟩
  rw [heq, hadd, hlin, heι]
  ring

end Core
