import Poulpy.Lemmas.LutBlind

/-!
`mod_switch_2n` acts coefficient by coefficient: the result at coefficient `c` of a ciphertext with rows of equal
length is the result of the one-coefficient run on column `c`.  Lifts `mod_switch_2n_low` (one coefficient) to whole
ciphertexts.
-/

namespace Lut

/-- column `c` of the limb rows, as one-coefficient rows -/
def colOf (c : Nat) (limbs : List (List Int)) : List (List Int) := limbs.map fun row => [row.getD c 0]

theorem colOf_eq (c : Nat) (limbs : List (List Int)) :
    colOf c limbs = (limbs.map fun row => row.getD c 0).map fun x => [x] := by
  simp [colOf, List.map_map, Function.comp]

theorem getD_of_lt {α : Type} (l : List α) (d : α) (c : Nat) (h : c < l.length) : l.getD c d = l[c] := by
  simp [List.getD_eq_getElem?_getD, List.getElem?_eq_getElem h]

theorem getD_zipWith (f : Int → Int → Int) (l1 l2 : List Int) (c : Nat) (h1 : c < l1.length) (h2 : c < l2.length) :
    (List.zipWith f l1 l2).getD c 0 = f (l1.getD c 0) (l2.getD c 0) := by
  rw [getD_of_lt _ _ _ (by simp [List.length_zipWith]; omega), getD_of_lt _ _ _ h1,
    getD_of_lt _ _ _ h2, List.getElem_zipWith]

theorem msStep_col (b rem size : Nat) (limbs : List (List Int)) (sgn : Int → Int) (L c : Nat) (hc : c < L)
    (hrows : ∀ row ∈ limbs, row.length = L) (y : List Int) (hy : y.length = L) (i' : Nat) (hi : i' + 1 < limbs.length) :
    (msStep b rem size limbs sgn y i').length = L ∧
    msStep b rem size (colOf c limbs) sgn [y.getD c 0] i' = [(msStep b rem size limbs sgn y i').getD c 0] := by
  have hrow : limbs.getD (i' + 1) [] = limbs[i' + 1] := getD_of_lt _ _ _ hi
  have hlen : (limbs[i' + 1]).length = L := hrows _ (List.getElem_mem hi)
  have hcol : (colOf c limbs).getD (i' + 1) [] = [(limbs[i' + 1]).getD c 0] := by
    unfold colOf
    rw [getD_of_lt _ _ _ (by simpa using hi)]
    simp
  have hsg : ((limbs[i' + 1]).map sgn).getD c 0 = sgn ((limbs[i' + 1]).getD c 0) := by
    rw [getD_of_lt _ _ _ (by simp; omega), getD_of_lt _ _ _ (by omega), List.getElem_map]
  unfold msStep
  simp only [hrow, hcol]
  split
  · refine ⟨by simp [List.length_zipWith, hlen, hy], ?_⟩
    rw [getD_zipWith _ _ _ c (by simp; omega) (by omega), hsg]
    simp
  · refine ⟨by simp [List.length_zipWith, hlen, hy], ?_⟩
    rw [getD_zipWith _ _ _ c (by simp; omega) (by omega), hsg]
    simp

theorem msFold_col (b rem size : Nat) (limbs : List (List Int)) (sgn : Int → Int) (L c : Nat) (hc : c < L)
    (hrows : ∀ row ∈ limbs, row.length = L) (y : List Int) (hy : y.length = L) :
    ∀ k, k + 1 ≤ limbs.length →
      ((List.range k).foldl (msStep b rem size limbs sgn) y).length = L ∧
      (List.range k).foldl (msStep b rem size (colOf c limbs) sgn) [y.getD c 0] =
        [((List.range k).foldl (msStep b rem size limbs sgn) y).getD c 0] := by
  intro k
  induction k with
  | zero => intro _; exact ⟨hy, rfl⟩
  | succ k ih =>
    intro hk
    obtain ⟨h1, h2⟩ := ih (by omega)
    rw [List.range_succ, List.foldl_append, List.foldl_append, h2]
    simp only [List.foldl_cons, List.foldl_nil]
    exact msStep_col b rem size limbs sgn L c hc hrows _ h1 k (by omega)

/-- the model on a whole ciphertext vs. on one column -/
theorem modSwitch2n_col (n b : Nat) (limbs : List (List Int)) (left : Bool) (L c : Nat) (hc : c < L)
    (hrows : ∀ row ∈ limbs, row.length = L) :
    match modSwitch2n n b limbs left with
    | .ok ys => ys.length = L ∧ modSwitch2n n b (colOf c limbs) left = .ok [ys.getD c 0]
    | .panic p => modSwitch2n n b (colOf c limbs) left = .panic p
    | .err e => modSwitch2n n b (colOf c limbs) left = .err e := by
  cases limbs with
  | nil => simp [modSwitch2n, colOf]
  | cons l0 rest =>
    have hl0 : l0.length = L := hrows l0 (by simp)
    have hcl : colOf c (l0 :: rest) = [l0.getD c 0] :: colOf c rest := rfl
    have hlen : (colOf c (l0 :: rest)).length = (l0 :: rest).length := by simp [colOf]
    rw [hcl] at hlen ⊢
    unfold modSwitch2n
    simp only
    by_cases hn : n = 0
    · simp [hn]
    · simp only [hn, if_false]
      by_cases hb : b > bitLen (n - 1) + 1 - 1
      · simp only [hb, if_true]
        refine ⟨by simp [hl0], ?_⟩
        congr 1
        have : c < l0.length := by omega
        simp [List.getElem?_eq_getElem this]
      · simp only [hb, if_false]
        by_cases hb0 : b = 0
        · simp [hb0]
        · simp only [hb0, if_false]
          by_cases hs : (bitLen (n - 1) + 1 - 1 + b - 1) / b > (l0 :: rest).length
          · have hs' : (bitLen (n - 1) + 1 - 1 + b - 1) / b > ([l0.getD c 0] :: colOf c rest).length := by
              rw [hlen]; exact hs
            simp only [hs, hs', if_true]
          · have hs' : ¬ (bitLen (n - 1) + 1 - 1 + b - 1) / b > ([l0.getD c 0] :: colOf c rest).length := by
              rw [hlen]; exact hs
            simp only [hs, hs', if_false]
            have hfold := msFold_col b (b - (bitLen (n - 1) + 1 - 1) % b) ((bitLen (n - 1) + 1 - 1 + b - 1) / b)
              (l0 :: rest) (fun x => if left then w64 (-x) else x) L c hc hrows
              (l0.map fun x => if left then w64 (-x) else x) (by simp [hl0])
              ((bitLen (n - 1) + 1 - 1 + b - 1) / b - 1) (by simp only [List.length_cons] at hs ⊢; omega)
            have hget : (l0.map fun x => if left then w64 (-x) else x).getD c 0 =
                (fun x => if left then w64 (-x) else x) (l0.getD c 0) := by
              rw [getD_of_lt _ _ _ (by simp; omega), getD_of_lt _ _ _ (by omega), List.getElem_map]
            rw [hget] at hfold
            refine ⟨hfold.1, ?_⟩
            congr 1
            exact hfold.2

end Lut
