import Mathlib.Tactic.Ring
import Mathlib.Tactic.Linarith
import Mathlib.Tactic.Positivity

/-!
Arithmetic of the Galois elements and rotation amounts of ring packing / trace (`N = 2^logN`,
`t_i = N / 2^{i+1}`, `g_0 = −1`, `g_i = 5^{2^{i−1}}`): the hypotheses `sig_rot_self` / `sig_rot_lt` of
`Pack.Contract` hold for poulpy's parameters, at the level of exponents modulo `2N`
(`σ_g(X^t) = X^{t·g}`, `X^N = −1`).
-/

namespace PackGalois

theorem five_pow_two_pow (k : ℕ) : ∃ m : ℕ, 5 ^ (2 ^ k) = 1 + 2 ^ (k + 2) + 2 ^ (k + 3) * m := by
  induction k with
  | zero => exact ⟨0, by norm_num⟩
  | succ k ih =>
    obtain ⟨m, hm⟩ := ih
    refine ⟨m + 2 ^ k * (1 + 2 * m) ^ 2, ?_⟩
    have : 5 ^ (2 ^ (k + 1)) = (5 ^ (2 ^ k)) ^ 2 := by rw [← pow_mul, pow_succ]
    rw [this, hm]
    ring

/-- level `i ≥ 1`: `σ_{g_i}(X^{t_i}) = −X^{t_i}`, i.e. `t_i·g_i ≡ t_i + N (mod 2N)` -/
theorem rot_self_pos (logN i : ℕ) (h1 : 1 ≤ i) (h2 : i < logN) :
    (2 ^ (logN - 1 - i) * 5 ^ (2 ^ (i - 1))) % 2 ^ (logN + 1) = (2 ^ (logN - 1 - i) + 2 ^ logN) % 2 ^ (logN + 1) := by
  obtain ⟨m, hm⟩ := five_pow_two_pow (i - 1)
  obtain ⟨d, rfl⟩ : ∃ d, logN = i + 1 + d := ⟨logN - i - 1, by omega⟩
  obtain ⟨e, rfl⟩ : ∃ e, i = e + 1 := ⟨i - 1, by omega⟩
  simp only [Nat.add_sub_cancel] at hm ⊢
  have e1 : e + 1 + 1 + d - 1 - (e + 1) = d := by omega
  rw [e1, hm]
  have : 2 ^ d * (1 + 2 ^ (e + 2) + 2 ^ (e + 3) * m) = (2 ^ d + 2 ^ (e + 1 + 1 + d)) + 2 ^ (e + 1 + 1 + d + 1) * m := by ring
  rw [this, Nat.add_mul_mod_self_left]

/-- levels `j > i` fix `X^{t_i}`: `t_i·g_j ≡ t_i (mod 2N)` -/
theorem rot_later (logN i j : ℕ) (h1 : i < j) (h2 : j < logN) :
    (2 ^ (logN - 1 - i) * 5 ^ (2 ^ (j - 1))) % 2 ^ (logN + 1) = (2 ^ (logN - 1 - i)) % 2 ^ (logN + 1) := by
  obtain ⟨m, hm⟩ := five_pow_two_pow (j - 1)
  obtain ⟨a, rfl⟩ : ∃ a, j = i + 1 + a := ⟨j - i - 1, by omega⟩
  obtain ⟨d, rfl⟩ : ∃ d, logN = i + 1 + a + 1 + d := ⟨logN - (i + 1 + a) - 1, by omega⟩
  have e1 : i + 1 + a + 1 + d - 1 - i = a + 1 + d := by omega
  have e2 : i + 1 + a - 1 = i + a := by omega
  rw [e2] at hm
  rw [e1, e2, hm]
  have : 2 ^ (a + 1 + d) * (1 + 2 ^ (i + a + 2) + 2 ^ (i + a + 3) * m) =
      2 ^ (a + 1 + d) + 2 ^ (i + 1 + a + 1 + d + 1) * (2 ^ a + 2 ^ (a + 1) * m) := by ring
  rw [this, Nat.add_mul_mod_self_left]

/-- level `0` (`g = −1`, `t = N/2`): `−N/2 ≡ N/2 + N (mod 2N)` -/
theorem rot_self_zero (logN : ℕ) (h : 1 ≤ logN) :
    ((2 : ℤ) ^ (logN - 1) * (-1)) % 2 ^ (logN + 1) = (2 ^ (logN - 1) + 2 ^ logN) % 2 ^ (logN + 1) := by
  obtain ⟨k, rfl⟩ : ∃ k, logN = k + 1 := ⟨logN - 1, by omega⟩
  simp only [Nat.add_sub_cancel]
  have e : (2 : ℤ) ^ k * (-1) = (2 ^ k + 2 ^ (k + 1)) + 2 ^ (k + 1 + 1) * (-1) := by ring
  rw [e, Int.add_mul_emod_self_left]

end PackGalois
