import Poulpy.Lemmas.Fft64Numeric
import Mathlib.Analysis.SpecialFunctions.Trigonometric.Basic
open Complex
namespace Fft64
open F64

/-! ### the hypothesis `TableAccurate` is satisfiable: the `m = 2` tables of the crate, proved (not just checked) -/

theorem cis_eighth : cis (1 / 8) = ⟨√2 / 2, √2 / 2⟩ := by
  unfold cis
  have : ((2 * Real.pi * (1 / 8) : ℝ) : ℂ) = ((Real.pi / 4 : ℝ) : ℂ) := by congr 1; ring
  rw [this, Complex.exp_mul_I, ← Complex.ofReal_cos, ← Complex.ofReal_sin, Real.cos_pi_div_four, Real.sin_pi_div_four]
  apply Complex.ext <;> simp

theorem cis_neg_eighth : cis (-(1 / 8)) = ⟨√2 / 2, -(√2 / 2)⟩ := by
  unfold cis
  have : ((2 * Real.pi * (-(1 / 8)) : ℝ) : ℂ) = ((-(Real.pi / 4) : ℝ) : ℂ) := by congr 1; ring
  rw [this, Complex.exp_mul_I, ← Complex.ofReal_cos, ← Complex.ofReal_sin, Real.cos_neg, Real.sin_neg,
    Real.cos_pi_div_four, Real.sin_pi_div_four]
  apply Complex.ext <;> simp

theorem sqrt2_half_bounds : (7:ℝ) / 10 ≤ √2 / 2 ∧ (√2 / 2) ^ 2 = 1 / 2 := by
  constructor
  · have : (7:ℝ) / 5 ≤ √2 := Real.le_sqrt' (by norm_num) |>.mpr (by norm_num)
    linarith
  · rw [div_pow, Real.sq_sqrt (by norm_num)]; norm_num

/-- a positive `c` with `c² ≈ 1/2` is that close to `√2/2` -/
theorem near_sqrt2_half (c e : ℝ) (hc : 7 / 10 ≤ c) (h : |c ^ 2 - 1 / 2| ≤ e) : |c - √2 / 2| ≤ e := by
  obtain ⟨h1, h2⟩ := sqrt2_half_bounds
  have hf : c ^ 2 - 1 / 2 = (c - √2 / 2) * (c + √2 / 2) := by rw [← h2]; ring
  rw [hf, abs_mul] at h
  have hs : 1 ≤ |c + √2 / 2| := by rw [abs_of_nonneg (by linarith)]; linarith
  calc |c - √2 / 2| = |c - √2 / 2| * 1 := by ring
    _ ≤ |c - √2 / 2| * |c + √2 / 2| := mul_le_mul_of_nonneg_left hs (abs_nonneg _)
    _ ≤ e := h

def omg2 : Array Nat := #[4604544271217802189, 4604544271217802188, 0, 0, 0, 0, 0, 0]
def iomg2 : Array Nat := #[4604544271217802189, 13827916308072577996, 0, 0, 0, 0, 0, 0]

theorem val_c773 : Fin64 4604544271217802189 ∧ val 4604544271217802189 = 6369051672525773 / 2 ^ 53 := by
  have h : decode 4604544271217802189 = some ⟨false, 6369051672525773, -53⟩ := by decide +kernel
  refine ⟨⟨_, h⟩, ?_⟩
  rw [val_of_decode h]; unfold Dy.val; simp only [Bool.false_eq_true, if_false, one_mul]
  rw [zpow_neg]; norm_num
theorem val_c772 : Fin64 4604544271217802188 ∧ val 4604544271217802188 = 6369051672525772 / 2 ^ 53 := by
  have h : decode 4604544271217802188 = some ⟨false, 6369051672525772, -53⟩ := by decide +kernel
  refine ⟨⟨_, h⟩, ?_⟩
  rw [val_of_decode h]; unfold Dy.val; simp only [Bool.false_eq_true, if_false, one_mul]
  rw [zpow_neg]; norm_num
theorem val_n772 : Fin64 13827916308072577996 ∧ val 13827916308072577996 = -(6369051672525772 / 2 ^ 53) := by
  have h : decode 13827916308072577996 = some ⟨true, 6369051672525772, -53⟩ := by decide +kernel
  refine ⟨⟨_, h⟩, ?_⟩
  rw [val_of_decode h]; unfold Dy.val; simp only [if_true]
  rw [zpow_neg]; norm_num

/-- the tables `ReimFFTTable::new(2)`, `ReimIFFTTable::new(2)` of the pinned crate (as dumped by `pvh fft64 tab k=1`)
are accurate to `2^-51` -/
theorem tableAccurate_m2 : TableAccurate τ51 1 omg2 iomg2 := by
  have e53 : (2:ℝ) ^ (-53:Int) = 1 / 2 ^ 53 := by rw [zpow_neg]; norm_num
  have hτ : (3:ℝ) / 2 * (2:ℝ) ^ (-53:Int) ≤ τ51 := by unfold τ51; rw [e53, zpow_neg]; norm_num
  have k1 : |(6369051672525773:ℝ) / 2 ^ 53 - √2 / 2| ≤ (2:ℝ) ^ (-53:Int) := by
    apply near_sqrt2_half _ _ (by norm_num); rw [e53, abs_le]; constructor <;> norm_num
  have k2 : |(6369051672525772:ℝ) / 2 ^ 53 - √2 / 2| ≤ (2:ℝ) ^ (-53:Int) := by
    apply near_sqrt2_half _ _ (by norm_num); rw [e53, abs_le]; constructor <;> norm_num
  constructor
  · intro lvl hl blk hb
    obtain rfl : lvl = 0 := by omega
    obtain rfl : blk = 0 := by simpa using hb
    have ht : twOf (fwdIdx 1) omg2 0 0 = ⟨4604544271217802189, 4604544271217802188, false⟩ := rfl
    rw [ht]
    refine ⟨⟨val_c773.1, val_c772.1⟩, le_trans ?_ hτ⟩
    rw [jval_zero, show (1:ℝ) / 4 / 2 = 1 / 8 by norm_num, cis_eighth]
    apply norm_le_of_comp_abs _ _ (by positivity)
    · simp [twC, cval, val_c773.2]; exact k1
    · simp [twC, cval, val_c772.2]; exact k2
  · intro lvl hl blk hb
    obtain rfl : lvl = 0 := by omega
    obtain rfl : blk = 0 := by simpa using hb
    have ht : twOf (invIdx 1) iomg2 0 0 = ⟨4604544271217802189, 13827916308072577996, false⟩ := rfl
    rw [ht]
    refine ⟨⟨val_c773.1, val_n772.1⟩, le_trans ?_ hτ⟩
    rw [jval_zero, show (1:ℝ) / 4 / 2 = 1 / 8 by norm_num, cis_neg_eighth]
    apply norm_le_of_comp_abs _ _ (by positivity)
    · simp [twCi, cval, val_c773.2]; exact k1
    · simp [twCi, cval, val_n772.2]
      rw [neg_add_eq_sub, abs_sub_comm]
      exact k2


theorem domBits_le (K : Nat) : domBits K ≤ 48 := by
  unfold domBits; split <;> omega

/-- **`fft64_pipeline_exact` with numbers**: for `n = 2·2^K ≤ 2^16`, tables accurate to `2^-51` (checked numerically
by the gate on every run) and integer operands with `|p_i| ≤ A`, `|x_i| ≤ B`, `A·B ≤ 2^(domBits K)`, the FFT64 svp
pipeline returns exactly the negacyclic product -/
theorem svp_pipeline_exact_numeric (K : Nat) (hK : K ≤ 15) (omg iomg : Array Nat) (hacc : TableAccurate τ51 K omg iomg)
    (p x : List Int) (hp : p.length = 2 ^ (K + 1)) (hx : x.length = 2 ^ (K + 1)) (A B : Nat) (hA : 1 ≤ A) (hB : 1 ≤ B)
    (hpA : ∀ c ∈ p, c.natAbs ≤ A) (hxB : ∀ c ∈ x, c.natAbs ≤ B) (hAB : A * B ≤ 2 ^ domBits K) :
    svpPipeline K omg iomg p x = Hal.negMul p x := by
  have h48 : A * B ≤ 2 ^ 48 := le_trans hAB (Nat.pow_le_pow_right (by norm_num) (domBits_le K))
  have hA48 : A ≤ 2 ^ 48 := le_trans (Nat.le_mul_of_pos_right A (by omega)) h48
  have hB48 : B ≤ 2 ^ 48 := le_trans (Nat.le_mul_of_pos_left B (by omega)) h48
  have conv : ∀ (l : List Int) (M : Nat), M ≤ 2 ^ 48 → (∀ c ∈ l, c.natAbs ≤ M) →
      ∀ c ∈ l, c.natAbs < 2 ^ 53 ∧ |(c:ℝ)| ≤ (M:ℝ) := by
    intro l M hM h c hc
    have h1 := h c hc
    refine ⟨by omega, ?_⟩
    have : |(c:ℝ)| = ((c.natAbs : Nat) : ℝ) := by rw [← Int.cast_abs, Int.abs_eq_natAbs]; simp
    rw [this]; exact_mod_cast h1
  apply svp_pipeline_exact' K omg iomg τ51 (A:ℝ) (B:ℝ) p x hacc hp hx (conv p A hA48 hpA) (conv x B hB48 hxB)
  apply svpDomain_numeric K hK _ _ (by exact_mod_cast hA) (by exact_mod_cast hB)
  exact_mod_cast hAB

end Fft64

