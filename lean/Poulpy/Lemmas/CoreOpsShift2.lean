import Poulpy.Lemmas.CoreOpsShift

/-!
Three-term torus relations on the phase (result, previous content of the result, operand of possibly
smaller rank): the zero-column extension at the level of value polynomials, and the generic column
loops of the `lsh` family and of `glwe_normalize`.
-/

namespace C02L
open Hal Core Core.Ops CoreEnc

/-- terms whose polynomial is zero can be dropped from `errTo` -/
theorem errTo_drop_zero {N : Nat} (r m : Nat) (s : List Poly) (E : Nat → Poly) (hE : ∀ i, (E i).length = N)
    (hz : ∀ i, r < i → E i = zeroP N) : errTo m s E = errTo (min r m) s E := by
  induction m with
  | zero => simp
  | succ m ih =>
    by_cases h : m + 1 ≤ r
    · rw [Nat.min_eq_right h]
    · have e : min r (m + 1) = min r m := by omega
      rw [e, errTo_succ, ih, hz (m + 1) (by omega), negMul_zero_right,
        polyAdd_zero_right _ N (errTo_length _ s E hE)]

theorem valP_col_of_gt {N : Nat} (b : Nat) {g : GLWE} (hg : GWF N g) (i : Nat) (h : g.rank < i) :
    valP b N (col g i) = zeroP N := by
  rw [col_of_gt i (by rw [hg.len]; omega), valP_nil]

/-- value polynomial of the phase as a linear form over `m` secret polynomials, for any `m` between
the number actually used and `s.length`, and any rank bound `R ≥ g.rank` -/
theorem valP_phase {N : Nat} (b : Nat) {g : GLWE} (hg : GWF N g) (s : List Poly) (R : Nat) (hR : g.rank ≤ R) :
    valP b N (phase s g) = errTo (min R s.length) s (fun i => valP b N (col g i)) := by
  rw [phase_eq_linTo, valP_linTo b _ s _ (fun i hi => hg.col_wf i (by omega)),
    errTo_drop_zero (N := N) g.rank (min R s.length) s _ (fun _ => by simp) (fun i hi => valP_col_of_gt b hg i hi)]
  congr 1
  omega

theorem errTo_affine3 {N : Nat} (A C B : Int) (m : Nat) (s : List Poly) (X O Y E : Nat → Poly)
    (hO : ∀ i, (O i).length = N) (hY : ∀ i, (Y i).length = N) (hE : ∀ i, (E i).length = N)
    (h : ∀ i, i ≤ m → polyScale A (X i) = polyAdd (polyAdd (polyScale C (O i)) (polyScale B (Y i))) (E i)) :
    polyScale A (errTo m s X) = polyAdd (polyAdd (polyScale C (errTo m s O)) (polyScale B (errTo m s Y))) (errTo m s E) := by
  induction m with
  | zero => exact h 0 (Nat.le_refl 0)
  | succ m ih =>
    have l1 : (Hal.negMul (s.getD m []) (O (m + 1))).length = N := by rw [negMul_length, hO]
    rw [errTo_succ, errTo_succ, errTo_succ, errTo_succ, polyScale_add, polyScale_add, polyScale_add,
      ih (fun i hi => h i (by omega)), ← negMul_scale_right, ← negMul_scale_right, ← negMul_scale_right,
      h (m + 1) (Nat.le_refl _), negMul_add_right _ _ _ (by simp [hO, hY, hE]), negMul_add_right _ _ _ (by simp [hO, hY]),
      polyAdd_exchange, polyAdd_exchange (polyScale C (errTo m s O))]

/-- **three-term torus relation**: if on every column `i ≤ R` and every coefficient
`A·val(r'ᵢ) = C·val(oᵢ) + B·val(aᵢ) + e + q·M` with `|e| ≤ U`, the phases satisfy the same relation with
tolerance `(1 + Σ‖sᵢ‖₁)·U`.  `a` may have any rank `≤ R` (its missing columns are zero columns). -/
theorem torus_phase3 {N : Nat} {r' o a : GLWE} (hr' : GWF N r') (ho : GWF N o) (ha : GWF N a)
    (hro : o.rank = r'.rank) (har : a.rank ≤ r'.rank) (br bo ba : Nat) (A C B M U : Int)
    (h : ∀ i, i ≤ r'.rank → ∀ t, t < N → ∃ q e : Int,
      A * valCoeff br (col r' i) t = C * valCoeff bo (col o i) t + B * valCoeff ba (col a i) t + e + q * M ∧ |e| ≤ U)
    (s : List Poly) :
    ∀ t, t < N → ∃ q e : Int,
      A * valCoeff br (phase s r') t = C * valCoeff bo (phase s o) t + B * valCoeff ba (phase s a) t + e + q * M ∧
      |e| ≤ (1 + snorm (min r'.rank s.length) s) * U := by
  by_cases hN : 0 < N
  swap
  · intro t ht; omega
  have hU : 0 ≤ U := by
    obtain ⟨_, e, _, he⟩ := h 0 (Nat.zero_le _) 0 hN
    exact (abs_nonneg e).trans he
  have h' : ∀ i t, ∃ q e : Int, (i ≤ r'.rank → t < N →
      A * valCoeff br (col r' i) t = C * valCoeff bo (col o i) t + B * valCoeff ba (col a i) t + e + q * M) ∧ |e| ≤ U := by
    intro i t
    by_cases c : i ≤ r'.rank ∧ t < N
    · obtain ⟨q, e, h1, h2⟩ := h i c.1 t c.2
      exact ⟨q, e, fun _ _ => h1, h2⟩
    · exact ⟨0, 0, fun a b => absurd ⟨a, b⟩ c, by simpa using hU⟩
  choose Q Ee hQE using h'
  let Ep : Nat → Poly := fun i => (List.range N).map (fun t => Ee i t)
  let Qp : Nat → Poly := fun i => (List.range N).map (fun t => Q i t)
  have hEl : ∀ i, (Ep i).length = N := fun i => by simp [Ep]
  have hQl : ∀ i, (Qp i).length = N := fun i => by simp [Qp]
  have key := errTo_affine3 (N := N) A C B (min r'.rank s.length) s
    (fun i => valP br N (col r' i)) (fun i => valP bo N (col o i)) (fun i => valP ba N (col a i))
    (fun i => polyAdd (Ep i) (polyScale M (Qp i))) (fun _ => by simp) (fun _ => by simp) (fun i => by simp [hEl, hQl])
    (fun i hi => by
      apply poly_ext (N := N) (by simp) (by simp [hEl, hQl])
      intro t ht
      rw [polyScale_getD, valP_getD _ _ _ _ ht, getD_polyAdd _ _ _ (by simp [hEl, hQl]), getD_polyAdd _ _ _ (by simp),
        polyScale_getD, polyScale_getD, valP_getD _ _ _ _ ht, valP_getD _ _ _ _ ht,
        getD_polyAdd _ _ _ (by simp [hEl, hQl]), polyScale_getD]
      have e1 : (Ep i).getD t 0 = Ee i t := by simp [Ep, List.getD_eq_getElem?_getD, ht]
      have e2 : (Qp i).getD t 0 = Q i t := by simp [Qp, List.getD_eq_getElem?_getD, ht]
      rw [e1, e2]
      have := (hQE i t).1 (by omega) ht
      linarith)
  rw [← valP_phase br hr' s r'.rank (Nat.le_refl _), ← valP_phase bo ho s r'.rank (by omega),
    ← valP_phase ba ha s r'.rank har, errTo_add_scale _ _ s Ep Qp hEl hQl] at key
  intro t ht
  have l1 := errTo_length (min r'.rank s.length) s Ep hEl
  have l2 := errTo_length (min r'.rank s.length) s Qp hQl
  refine ⟨(errTo (min r'.rank s.length) s Qp).getD t 0, (errTo (min r'.rank s.length) s Ep).getD t 0, ?_, ?_⟩
  · have := congrArg (fun p : Poly => p.getD t 0) key
    beta_reduce at this
    rw [polyScale_getD, valP_getD _ _ _ _ ht, getD_polyAdd _ _ _ (by simp [l1, l2]), getD_polyAdd _ _ _ (by simp),
      polyScale_getD, polyScale_getD, valP_getD _ _ _ _ ht, valP_getD _ _ _ _ ht,
      getD_polyAdd _ _ _ (by simp [l1, l2]), polyScale_getD] at this
    linarith
  · have hb := errTo_bound (B := U) (min r'.rank s.length) s Ep (fun i _ v hv => by
      simp only [Ep, List.mem_map, List.mem_range] at hv
      obtain ⟨t', _, rfl⟩ := hv
      exact (hQE i t').2)
    have : (errTo (min r'.rank s.length) s Ep).getD t 0 ∈ errTo (min r'.rank s.length) s Ep := by
      rw [List.getD_eq_getElem?_getD, List.getElem?_eq_getElem (by omega)]
      exact List.getElem_mem _
    exact hb _ this

/-! ### the column loops of the `lsh` family -/

/-- the binary coefficient-wise column kernel built from `K operand_coefficients result_coefficients` -/
def kcol2 (N : Nat) (K : List Int → List Int → List Int) (ri ai : Col) : Col :=
  mapCoefs N ri.length (fun t => K (coefAt ai t) (coefAt ri t))

theorem withK_loop {N : Nat} {res a : GLWE} (hr : GWF N res) (ha : GWF N a) (hrk : a.rank ≤ res.rank)
    (K : List Int → List Int → List Int) :
    ∃ r', forRange 0 (a.rank + 1) (withCol a (kcol2 N K)) res = .ok r' ∧ Same res r' ∧ GWF N r' ∧ r'.size = res.size ∧
      (∀ i, i ≤ a.rank → col r' i = mapCoefs N res.size (fun t => K (coefAt (col a i) t) (coefAt (col res i) t))) ∧
      (∀ i, a.rank < i → col r' i = col res i) := by
  obtain ⟨r1, e1, s1, c1⟩ := forRange_spec (fun i c => kcol2 N K c (col a i)) (withCol a (kcol2 N K)) 0 (a.rank + 1) res
    (fun i r _ hi hl => withCol_ok a _ i r (by rw [ha.len]; omega) (by rw [hl, hr.len]; omega)) (by rw [hr.len]; omega)
  have h1 : ∀ i, i ≤ a.rank → col r1 i = mapCoefs N res.size (fun t => K (coefAt (col a i) t) (coefAt (col res i) t)) := by
    intro i hi
    rw [c1 i]
    have h : 0 ≤ i ∧ i < a.rank + 1 := by omega
    simp only [h, and_self, if_true, kcol2, (hr.col_wf i (by omega)).1]
  have h2 : ∀ i, a.rank < i → col r1 i = col res i := by
    intro i hi
    rw [c1 i]
    have h : ¬ (0 ≤ i ∧ i < a.rank + 1) := by omega
    simp only [h, if_false]
  obtain ⟨w, sz⟩ := gwf_of_cols hr s1 (fun i hi => by
    by_cases h : i ≤ a.rank
    · rw [h1 i h]; exact ⟨mapCoefs_length _ _ _, mapCoefs_WF _ _ _⟩
    · rw [h2 i (by omega)]; exact hr.col_wf i hi)
  exact ⟨r1, e1, s1, w, sz, h1, h2⟩

theorem valCoeff_vecZero (b N rs t : Nat) : valCoeff b (vecZero N rs) t = 0 := valCoeff_zeros b N rs t

/-- kernel property of a binary coefficient-wise kernel on the coefficient columns of `res` and `a` -/
def KernelOn2 (N : Nat) (res a : GLWE) (K : List Int → List Int → List Int) (b : Nat) (A C B M U : Int) : Prop :=
  ∀ i, i ≤ a.rank → ∀ t, t < N →
    (K (coefAt (col a i) t) (coefAt (col res i) t)).length = res.size ∧
    ∃ q e : Int, A * valI b (K (coefAt (col a i) t) (coefAt (col res i) t))
      = C * valI b (coefAt (col res i) t) + B * valI b (coefAt (col a i) t) + e + q * M ∧ |e| ≤ U

/-- phase statement for a result whose columns `i ≤ a.rank` come from a binary kernel and whose other
columns are either untouched (`C = A`) or zero (`C = 0`) -/
theorem kernel2_phase {N : Nat} {res a r' : GLWE} (hr : GWF N res) (ha : GWF N a) (w : GWF N r') (hs : Same res r')
    (hrk : a.rank ≤ res.rank) (K : List Int → List Int → List Int) (A C B M U : Int) (hU : 0 ≤ U)
    (hK : KernelOn2 N res a K res.base2k A C B M U)
    (h1 : ∀ i, i ≤ a.rank → col r' i = mapCoefs N res.size (fun t => K (coefAt (col a i) t) (coefAt (col res i) t)))
    (h2 : ∀ i, a.rank < i → i ≤ res.rank → ∀ t, A * valCoeff res.base2k (col r' i) t = C * valCoeff res.base2k (col res i) t)
    (s : List Poly) :
    ∀ t, t < N → ∃ q e : Int,
      A * valCoeff res.base2k (phase s r') t
        = C * valCoeff res.base2k (phase s res) t + B * valCoeff res.base2k (phase s a) t + e + q * M ∧
      |e| ≤ (1 + snorm (min res.rank s.length) s) * U := by
  have := torus_phase3 w hr ha hs.rank.symm (by rw [hs.rank]; exact hrk) res.base2k res.base2k res.base2k A C B M U
    (fun i hi t ht => by
      rw [hs.rank] at hi
      by_cases h : i ≤ a.rank
      · obtain ⟨l, q, e, he, hb⟩ := hK i h t ht
        refine ⟨q, e, ?_, hb⟩
        rw [h1 i h, valCoeff_eq, valCoeff_eq, valCoeff_eq, coefAt_mapCoefs _ _ _ t ht l]
        exact he
      · refine ⟨0, 0, ?_, by simpa using hU⟩
        rw [h2 i (by omega) hi t, col_of_gt (g := a) i (by rw [ha.len]; omega), valCoeff_nil]
        ring) s
  rw [hs.rank] at this
  exact this

/-- the two loops of `glwe_lsh`: kernel on the columns of `a`, zero fill of the others -/
theorem withK_zero_loop {N : Nat} {res a : GLWE} (hr : GWF N res) (ha : GWF N a) (hrk : a.rank ≤ res.rank)
    (K : List Int → List Int → List Int) :
    ∃ r', Ops.bind (forRange 0 (a.rank + 1) (withCol a (kcol2 N K)) res)
        (fun r1 => forRange (a.rank + 1) (res.rank + 1) (selfCol (fun _ => vecZero N res.size)) r1) = .ok r' ∧
      Same res r' ∧ GWF N r' ∧ r'.size = res.size ∧
      (∀ i, i ≤ a.rank → col r' i = mapCoefs N res.size (fun t => K (coefAt (col a i) t) (coefAt (col res i) t))) ∧
      (∀ i, a.rank < i → i ≤ res.rank → col r' i = vecZero N res.size) := by
  obtain ⟨r1, e1, s1, _, _, h1, _⟩ := withK_loop hr ha hrk K
  obtain ⟨r2, e2, s2, c2⟩ := forRange_spec (fun _ _ => vecZero N res.size) (selfCol (fun _ => vecZero N res.size))
    (a.rank + 1) (res.rank + 1) r1
    (fun i r _ hi hl => selfCol_ok _ i r (by rw [hl, s1.2.2.2, hr.len]; exact hi)) (by rw [s1.2.2.2, hr.len])
  have hs := s1.trans s2
  have g1 : ∀ i, i ≤ a.rank → col r2 i = mapCoefs N res.size (fun t => K (coefAt (col a i) t) (coefAt (col res i) t)) := by
    intro i hi
    rw [c2 i]
    have h : ¬ (a.rank + 1 ≤ i ∧ i < res.rank + 1) := by omega
    simp only [h, if_false]
    exact h1 i hi
  have g2 : ∀ i, a.rank < i → i ≤ res.rank → col r2 i = vecZero N res.size := by
    intro i hi hi2
    rw [c2 i]
    have h : a.rank + 1 ≤ i ∧ i < res.rank + 1 := by omega
    simp only [h, and_self, if_true]
  obtain ⟨w, sz⟩ := gwf_of_cols hr hs (fun i hi => by
    by_cases h : i ≤ a.rank
    · rw [g1 i h]; exact ⟨mapCoefs_length _ _ _, mapCoefs_WF _ _ _⟩
    · rw [g2 i (by omega) hi, vecZero_nf]; exact fit_nil_wf N _)
  exact ⟨r2, by rw [e1]; exact e2, hs, w, sz, g1, g2⟩

/-! ### `vec_znx_lsh_assign` is `vec_znx_lsh` in place -/

theorem zipWith_snd {α β} (l1 : List α) (l2 : List β) (h : l2.length ≤ l1.length) :
    List.zipWith (fun _ d => d) l1 l2 = l2 := by
  induction l2 generalizing l1 with
  | nil => simp
  | cons y ys ih =>
    cases l1 with
    | nil => simp at h
    | cons x xs => simp [ih xs (by simpa using h)]

open NormL in
theorem lshAssign_eq_lsh {b : Nat} {H : Int} (hr : HeadRoom 64 b 0 H) (k : Nat) (a : List Int) (ha : ∀ x ∈ a, |x| ≤ H) :
    lshAssignCoef b k a = lshCoef .overwrite b k a a := by
  have hb : 1 ≤ b := by have := hr.hlsh; omega
  have hr' : HeadRoom 64 b (k % b) H := ⟨hr.hbits, Nat.mod_lt _ (by omega), hr.hbb, hr.hH0, hr.hH⟩
  unfold lshAssignCoef lshCoef
  simp only [Nat.max_self]
  by_cases h : k / b ≥ a.length
  · simp [h]
  · simp only [h, if_false, if_true]
    have hd : ∀ x ∈ a.drop (k / b), |x| ≤ H := fun x hx => ha x (List.mem_of_mem_drop hx)
    have e1 : min a.length (a.length - k / b) = a.length - k / b := Nat.min_eq_right (Nat.sub_le _ _)
    have e2 : min (k / b + (a.length - k / b)) a.length = a.length := by omega
    rw [e1, e2, List.drop_length, assignRun_eq hr' _ hd]
    have e3 : (a.drop (k / b)).take (a.length - k / b) = a.drop (k / b) := by
      apply List.take_of_length_le; simp
    have h0 : |(0 : Int)| ≤ H + 3 := by have := hr.hH0; simp; linarith
    have hl := (finalTopRun_spec hr' _ hd 0 h0).2.1
    simp only [carryOnlyRun, Option.getD_none, e3]
    have e4 : List.zipWith (fun r d => Fuse.apply .overwrite r d) (a.take (a.length - k / b)) (finalTopRun 64 b (k % b) (a.drop (k / b)) 0)
        = finalTopRun 64 b (k % b) (a.drop (k / b)) 0 := by
      show List.zipWith (fun _ d => d) _ _ = _
      apply zipWith_snd
      rw [hl]; simp
    rw [e4]
    congr 2
    omega

/-! ### the column loop of `glwe_normalize` -/

theorem normalize_loop {N : Nat} {res a : GLWE} (hr : GWF N res) (ha : GWF N a) (hrank : res.rank = a.rank)
    (C : Nat → Col)
    (hC : ∀ i, i ≤ res.rank → normalizeCol? res.base2k res.size 0 (col a i) a.base2k N = some (C i) ∧ ColWF N res.size (C i)) :
    ∃ r', glweNormalize N res a = .ok r' ∧ Same res r' ∧ GWF N r' ∧ r'.size = res.size ∧
      ∀ i, i ≤ res.rank → col r' i = C i := by
  unfold glweNormalize
  rw [check_true _ _ (beq_true hr.1), check_true _ _ (beq_true ha.1), check_true _ _ (beq_true hrank)]
  obtain ⟨r1, e1, s1, c1⟩ := forRange_spec (fun i _ => C i)
    (fun i r => Ops.bind (colOf a i) (fun ai => updCol i (fun _ =>
      match normalizeCol? res.base2k res.size 0 ai a.base2k N with
      | some c => .ok c
      | none => .panic "other") r)) 0 (res.rank + 1) res
    (fun i r _ hi hl => by
      show Ops.bind (colOf a i) _ = _
      rw [colOf_ok a i (by rw [ha.len]; omega)]
      exact updCol_ok i _ r _ (by rw [hl, hr.len]; omega) (by rw [(hC i (by omega)).1]))
    (by rw [hr.len])
  have hcol : ∀ i, i ≤ res.rank → col r1 i = C i := by
    intro i hi
    rw [c1 i]
    have h : 0 ≤ i ∧ i < res.rank + 1 := by omega
    simp only [h, and_self, if_true]
  obtain ⟨w, sz⟩ := gwf_of_cols hr s1 (fun i hi => by rw [hcol i hi]; exact (hC i hi).2)
  exact ⟨r1, e1, s1, w, sz, hcol⟩

/-- same radix: `vec_znx_normalize` is `normalizeInterCoef` on every coefficient -/
theorem normalizeCol_same (b rs N : Nat) (c : Col) :
    normalizeCol? b rs 0 c b N = some (mapCoefs N rs (fun t => normalizeInterCoef 64 b rs 0 (coefAt c t))) := by
  unfold normalizeCol?
  exact mapCoefs?_congr _ _ _ _ (fun t _ => by simp [normalizeCoef])

/-- the in-place loop `for i { res_i = Kc(res_i) }` of a coefficient-wise kernel: closed form of the columns -/
theorem selfmap_cols {N : Nat} {res : GLWE} (hr : GWF N res) (Kc : Col → Col) (K : List Int → List Int)
    (hKc : ∀ c, Kc c = mapCoefs N c.length (fun t => K (coefAt c t))) :
    ∃ r', forRange 0 (res.rank + 1) (selfCol Kc) res = .ok r' ∧ Same res r' ∧ GWF N r' ∧ r'.size = res.size ∧
      ∀ i, i ≤ res.rank → col r' i = mapCoefs N res.size (fun t => K (coefAt (col res i) t)) := by
  obtain ⟨r1, e1, s1, c1⟩ := forRange_spec (fun _ c => Kc c) (selfCol Kc) 0 (res.rank + 1) res
    (fun i r _ hi hl => selfCol_ok Kc i r (by rw [hl, hr.len]; omega)) (by rw [hr.len])
  have hcol : ∀ i, i ≤ res.rank → col r1 i = mapCoefs N res.size (fun t => K (coefAt (col res i) t)) := by
    intro i hi
    rw [c1 i]
    have h : 0 ≤ i ∧ i < res.rank + 1 := by omega
    simp only [h, and_self, if_true, hKc, (hr.col_wf i hi).1]
  obtain ⟨w, sz⟩ := gwf_of_cols hr s1 (fun i hi => by
    rw [hcol i hi]; exact ⟨mapCoefs_length _ _ _, mapCoefs_WF _ _ _⟩)
  exact ⟨r1, e1, s1, w, sz, hcol⟩

end C02L
