import Poulpy.Model.AvxQ120
import Mathlib.Tactic.Linarith
import Mathlib.Tactic.Positivity
import Mathlib.Tactic.Ring
import Mathlib.Tactic.NormNum
import Mathlib.Data.Nat.ModEq
/-
C10: integer kernels of the NTT120 AVX back end = their scalar twins, for all inputs in the documented ranges.
-/
namespace Avx.Q120

theorem wrap_of_lt {x : Nat} (h : x < 2 ^ 64) : wrap x = x := Nat.mod_eq_of_lt h

theorem sgn_small {x : Nat} (h : x < 2 ^ 63) : sgn x = x := by unfold sgn; rw [if_pos h]

/-- `cond_sub` for lanes below `2^63`: one conditional subtraction -/
theorem condSub_eq (x q : Nat) (hx : x < 2 ^ 63) (hq : q < 2 ^ 63) : condSub x q = if q ≤ x then x - q else x := by
  unfold condSub cmpgt_epi64 andnot_si256 sub_epi64 ones
  rw [sgn_small hx, sgn_small hq]
  by_cases h : q ≤ x
  · have : ¬ ((x : Int) < q) := by omega
    simp only [this, if_false, h, if_true, Nat.sub_zero]
    have e : (2 ^ 64 - 1) &&& q = q := by
      rw [Nat.and_comm, Nat.and_two_pow_sub_one_eq_mod]; exact Nat.mod_eq_of_lt (by omega)
    rw [e]
    unfold wrap
    have : x + 2 ^ 64 - q = (x - q) + 2 ^ 64 := by omega
    rw [this, Nat.add_mod_right]; exact Nat.mod_eq_of_lt (by omega)
  · have : (x : Int) < q := by omega
    simp only [this, if_true, h, if_false, Nat.sub_self, Nat.zero_and, Nat.sub_zero]
    unfold wrap
    rw [Nat.add_mod_right]; exact Nat.mod_eq_of_lt (by omega)

/-- the arithmetic core of Barrett: with `mu = ⌊2^61 / q⌋` the approximate quotient is at most 2 short -/
theorem barrett_core (tmp q mu : Nat) (hq0 : 0 < q) (hmu : mu = 2 ^ 61 / q) (ht : tmp ≤ 2 ^ 61) :
    (tmp / 2 ^ 32 * mu / 2 ^ 29 + tmp % 2 ^ 32 * mu / 2 ^ 61) * q ≤ tmp ∧
    tmp < (tmp / 2 ^ 32 * mu / 2 ^ 29 + tmp % 2 ^ 32 * mu / 2 ^ 61 + 3) * q := by
  have hmu1 : mu * q ≤ 2 ^ 61 := by rw [hmu]; exact Nat.div_mul_le_self _ _
  have hmu2 : 2 ^ 61 < (mu + 1) * q := by
    have := Nat.lt_mul_div_succ (2 ^ 61) hq0
    rw [hmu, Nat.mul_comm]; exact this
  generalize hhi : tmp / 2 ^ 32 = hi
  generalize hlo : tmp % 2 ^ 32 = lo
  have htmp : tmp = hi * 2 ^ 32 + lo := by rw [← hhi, ← hlo]; exact (Nat.div_add_mod' tmp (2 ^ 32)).symm
  generalize hqh : hi * mu / 2 ^ 29 = qh
  generalize hql : lo * mu / 2 ^ 61 = ql
  have a1 : qh * 2 ^ 29 ≤ hi * mu := by rw [← hqh]; exact Nat.div_mul_le_self _ _
  have a2 : hi * mu < (qh + 1) * 2 ^ 29 := by
    have := Nat.lt_mul_div_succ (hi * mu) (show 0 < 2 ^ 29 by positivity)
    rw [hqh] at this; linarith
  have b1 : ql * 2 ^ 61 ≤ lo * mu := by rw [← hql]; exact Nat.div_mul_le_self _ _
  have b2 : lo * mu < (ql + 1) * 2 ^ 61 := by
    have := Nat.lt_mul_div_succ (lo * mu) (show 0 < 2 ^ 61 by positivity)
    rw [hql] at this; linarith
  -- (qh + ql)·2^61 ≤ tmp·mu < (qh + ql + 2)·2^61
  have c1 : (qh + ql) * 2 ^ 61 ≤ tmp * mu := by
    have : (qh + ql) * 2 ^ 61 = qh * 2 ^ 29 * 2 ^ 32 + ql * 2 ^ 61 := by ring
    have e : tmp * mu = hi * mu * 2 ^ 32 + lo * mu := by rw [htmp]; ring
    rw [this, e]
    have := Nat.mul_le_mul_right (2 ^ 32) a1
    linarith
  have c2 : tmp * mu < (qh + ql + 2) * 2 ^ 61 := by
    have e : tmp * mu = hi * mu * 2 ^ 32 + lo * mu := by rw [htmp]; ring
    have : (qh + ql + 2) * 2 ^ 61 = (qh + 1) * 2 ^ 29 * 2 ^ 32 + (ql + 1) * 2 ^ 61 := by ring
    rw [e, this]
    have := Nat.mul_lt_mul_of_pos_right a2 (show 0 < 2 ^ 32 by positivity)
    linarith
  constructor
  · -- (qa·q)·2^61 ≤ tmp·mu·q ≤ tmp·2^61
    have h1 : (qh + ql) * q * 2 ^ 61 ≤ tmp * 2 ^ 61 := by
      calc (qh + ql) * q * 2 ^ 61 = (qh + ql) * 2 ^ 61 * q := by ring
        _ ≤ tmp * mu * q := Nat.mul_le_mul_right q c1
        _ = tmp * (mu * q) := by ring
        _ ≤ tmp * 2 ^ 61 := Nat.mul_le_mul_left tmp hmu1
    exact Nat.le_of_mul_le_mul_right h1 (by positivity)
  · have h2 : tmp * 2 ^ 61 < tmp * mu * q + tmp * q + 1 := by
      have : tmp * 2 ^ 61 ≤ tmp * ((mu + 1) * q) := Nat.mul_le_mul_left tmp (Nat.le_of_lt hmu2)
      have e : tmp * ((mu + 1) * q) = tmp * mu * q + tmp * q := by ring
      omega
    have h4 : tmp * mu * q < (qh + ql + 2) * 2 ^ 61 * q := Nat.mul_lt_mul_of_pos_right c2 hq0
    have h6 : tmp * q ≤ 2 ^ 61 * q := Nat.mul_le_mul_right q ht
    have h7 : tmp * 2 ^ 61 < (qh + ql + 3) * q * 2 ^ 61 := by
      have e : (qh + ql + 3) * q * 2 ^ 61 = (qh + ql + 2) * 2 ^ 61 * q + 2 ^ 61 * q := by ring
      rw [e]; omega
    exact Nat.lt_of_mul_lt_mul_right h7

theorem mod_of_decomp (t q k r : Nat) (h : t = k * q + r) (hr : r < q) : t % q = r := by
  rw [h, Nat.mul_comm, Nat.mul_add_mod]; exact Nat.mod_eq_of_lt hr

/-- `barrett_reduce(tmp, q, mu)` is `tmp % q` for every modulus `2^29 < q < 2^30` with `mu = ⌊2^61 / q⌋` and every
`tmp < 2^61` (the documented range) -/
theorem barrett_eq (tmp q mu : Nat) (hq1 : 2 ^ 29 < q) (hq2 : q < 2 ^ 30) (hmu : mu = 2 ^ 61 / q) (ht : tmp < 2 ^ 61) :
    barrett tmp q mu = tmp % q := by
  have hq0 : 0 < q := by omega
  have hmu32 : mu < 2 ^ 32 := by
    rw [hmu]
    apply Nat.div_lt_of_lt_mul
    calc 2 ^ 61 = 2 ^ 29 * 2 ^ 32 := by norm_num
      _ < q * 2 ^ 32 := Nat.mul_lt_mul_of_pos_right hq1 (by positivity)
  obtain ⟨c1, c2⟩ := barrett_core tmp q mu hq0 hmu (by omega)
  generalize hqa : tmp / 2 ^ 32 * mu / 2 ^ 29 + tmp % 2 ^ 32 * mu / 2 ^ 61 = qa at c1 c2
  have hhi : tmp / 2 ^ 32 < 2 ^ 29 := by
    apply Nat.div_lt_of_lt_mul
    calc tmp < 2 ^ 61 := ht
      _ = 2 ^ 32 * 2 ^ 29 := by norm_num
  have hlo : tmp % 2 ^ 32 < 2 ^ 32 := Nat.mod_lt _ (by positivity)
  have hqa32 : qa < 2 ^ 32 := by
    by_contra hc
    have h1 : 2 ^ 32 * q ≤ qa * q := Nat.mul_le_mul_right q (by omega)
    have h2 : 2 ^ 32 * 2 ^ 29 < 2 ^ 32 * q := Nat.mul_lt_mul_of_pos_left hq1 (by positivity)
    have h3 : (2 : Nat) ^ 32 * 2 ^ 29 = 2 ^ 61 := by norm_num
    omega
  unfold barrett
  simp only [Nat.shiftRight_eq_div_pow, mask32, Nat.and_two_pow_sub_one_eq_mod, mul_epu32]
  rw [Nat.mod_eq_of_lt (show tmp / 2 ^ 32 < 2 ^ 32 by omega), Nat.mod_eq_of_lt hmu32, Nat.mod_mod]
  have hsum : add_epi64 (tmp / 2 ^ 32 * mu / 2 ^ 29) (tmp % 2 ^ 32 * mu / 2 ^ 61) = qa := by
    unfold add_epi64; rw [hqa]; exact wrap_of_lt (by omega)
  rw [hsum, Nat.mod_eq_of_lt hqa32, Nat.mod_eq_of_lt (show q < 2 ^ 32 by omega)]
  have hr : sub_epi64 tmp (qa * q) = tmp - qa * q := by
    unfold sub_epi64 wrap
    have : tmp + 2 ^ 64 - qa * q = (tmp - qa * q) + 2 ^ 64 := by omega
    rw [this, Nat.add_mod_right]; exact Nat.mod_eq_of_lt (by omega)
  rw [hr]
  generalize hrr : tmp - qa * q = r
  have hr3 : r < 3 * q := by
    have : (qa + 3) * q = qa * q + 3 * q := by ring
    omega
  have hdec : tmp = qa * q + r := by omega
  rw [condSub_eq r q (by omega) (by omega)]
  by_cases h1 : q ≤ r
  · rw [if_pos h1, condSub_eq (r - q) q (by omega) (by omega)]
    by_cases h2 : q ≤ r - q
    · rw [if_pos h2]
      exact (mod_of_decomp tmp q (qa + 2) (r - q - q) (by
        have : (qa + 2) * q = qa * q + 2 * q := by ring
        omega) (by omega)).symm
    · rw [if_neg h2]
      exact (mod_of_decomp tmp q (qa + 1) (r - q) (by
        have : (qa + 1) * q = qa * q + q := by ring
        omega) (by omega)).symm
  · rw [if_neg h1, condSub_eq r q (by omega) (by omega), if_neg h1]
    exact (mod_of_decomp tmp q qa r hdec (by omega)).symm

/-- `reduce_b_to_canonical`: a q120b lane `x < q·2^33` reduced to `x % q` -/
theorem reduceB_eq (x q mu pow32 : Nat) (hq1 : 2 ^ 29 < q) (hq2 : q < 2 ^ 30) (hmu : mu = 2 ^ 61 / q) (hp : pow32 = 2 ^ 32 % q)
    (hx : x < q * 2 ^ 33) : reduceBToCanonical x q mu pow32 = x % q := by
  have hq0 : 0 < q := by omega
  have hhi : x / 2 ^ 32 < 2 * q := by
    apply Nat.div_lt_of_lt_mul
    calc x < q * 2 ^ 33 := hx
      _ = 2 ^ 32 * (2 * q) := by ring
  have hlo : x % 2 ^ 32 < 2 ^ 32 := Nat.mod_lt _ (by positivity)
  have hp32 : pow32 < q := by rw [hp]; exact Nat.mod_lt _ hq0
  unfold reduceBToCanonical
  simp only [Nat.shiftRight_eq_div_pow, mask32, Nat.and_two_pow_sub_one_eq_mod]
  rw [condSub_eq _ q (by omega) (by omega)]
  generalize hr : (if q ≤ x / 2 ^ 32 then x / 2 ^ 32 - q else x / 2 ^ 32) = xr
  have hxr : xr < q ∧ xr % q = (x / 2 ^ 32) % q := by
    rw [← hr]
    by_cases h : q ≤ x / 2 ^ 32
    · rw [if_pos h]
      refine ⟨by omega, ?_⟩
      conv => rhs; rw [show x / 2 ^ 32 = (x / 2 ^ 32 - q) + q by omega, Nat.add_mod_right]
    · rw [if_neg h]; exact ⟨by omega, rfl⟩
  have hm : mul_epu32 xr pow32 = xr * pow32 := by
    unfold mul_epu32
    rw [Nat.mod_eq_of_lt (by omega), Nat.mod_eq_of_lt (by omega)]
  have hprod : xr * pow32 < 2 ^ 60 := by
    calc xr * pow32 < q * q := Nat.mul_lt_mul'' hxr.1 hp32
      _ ≤ 2 ^ 30 * 2 ^ 30 := Nat.mul_le_mul (by omega) (by omega)
      _ = 2 ^ 60 := by norm_num
  have hadd : add_epi64 (mul_epu32 xr pow32) (x % 2 ^ 32) = xr * pow32 + x % 2 ^ 32 := by
    rw [hm]; unfold add_epi64; exact wrap_of_lt (by omega)
  rw [hadd, barrett_eq _ q mu hq1 hq2 hmu (by omega)]
  -- congruence
  have hx' : x / 2 ^ 32 * 2 ^ 32 + x % 2 ^ 32 = x := Nat.div_add_mod' x (2 ^ 32)
  have h1 : xr ≡ x / 2 ^ 32 [MOD q] := hxr.2
  have h2 : pow32 ≡ 2 ^ 32 [MOD q] := by rw [hp]; exact Nat.mod_modEq _ _
  have h3 := (h1.mul h2).add_right (x % 2 ^ 32)
  rw [hx'] at h3
  exact h3

/-- one lane of `c_from_b_avx2` = one element of `c_from_b_ref` -/
theorem cFromB_eq (x q mu pow32 : Nat) (hq1 : 2 ^ 29 < q) (hq2 : q < 2 ^ 30) (hmu : mu = 2 ^ 61 / q) (hp : pow32 = 2 ^ 32 % q)
    (hx : x < q * 2 ^ 33) : cFromBLane x q mu pow32 = cFromBRef x q := by
  have hq0 : 0 < q := by omega
  simp only [cFromBLane, cFromBRef]
  rw [reduceB_eq x q mu pow32 hq1 hq2 hmu hp hx]
  have hr : x % q < q := Nat.mod_lt _ hq0
  have hp32 : pow32 < q := by rw [hp]; exact Nat.mod_lt _ hq0
  have hm : mul_epu32 (x % q) pow32 = x % q * pow32 := by
    unfold mul_epu32
    rw [Nat.mod_eq_of_lt (show x % q < 2 ^ 32 by omega), Nat.mod_eq_of_lt (show pow32 < 2 ^ 32 by omega)]
  have hprod : x % q * pow32 < 2 ^ 60 := by
    calc x % q * pow32 < q * q := Nat.mul_lt_mul'' hr hp32
      _ ≤ 2 ^ 30 * 2 ^ 30 := Nat.mul_le_mul (by omega) (by omega)
      _ = 2 ^ 60 := by norm_num
  rw [hm, barrett_eq _ q mu hq1 hq2 hmu (by omega)]
  have hsh : wrap ((x % q) <<< 32) = x % q * 2 ^ 32 := by
    rw [Nat.shiftLeft_eq]
    apply wrap_of_lt
    have : x % q * 2 ^ 32 < 2 ^ 30 * 2 ^ 32 := Nat.mul_lt_mul_of_pos_right (by omega) (by positivity)
    have e : (2 : Nat) ^ 30 * 2 ^ 32 = 2 ^ 62 := by norm_num
    have e2 : (2 : Nat) ^ 62 < 2 ^ 64 := by norm_num
    omega
  rw [hsh]
  have h2 : pow32 ≡ 2 ^ 32 [MOD q] := by rw [hp]; exact Nat.mod_modEq _ _
  have h3 : x % q * pow32 ≡ x % q * 2 ^ 32 [MOD q] := Nat.ModEq.mul_left _ h2
  rw [show x % q * pow32 % q = x % q * 2 ^ 32 % q from h3]

/-- `b_from_znx64`: the AVX lane (`and` / `cmpgt` sign mask / `add`) is the reference expression, for every `u64` pattern -/
theorem bFromZnx64_eq (x oq : Nat) (hx : x < 2 ^ 64) (ho : oq < 2 ^ 64) : bFromZnx64Lane x oq = bFromZnx64Ref x oq := by
  unfold bFromZnx64Lane bFromZnx64Ref cmpgt_epi64 add_epi64 ones
  have h0 : sgn 0 = 0 := by unfold sgn; simp
  rw [h0]
  by_cases h : x < 2 ^ 63
  · have : ¬ (sgn x < 0) := by rw [sgn_small h]; omega
    have h2 : ¬ (x > 2 ^ 63 - 1) := by omega
    simp only [this, if_false, h2, Nat.zero_and]
  · have : sgn x < 0 := by unfold sgn; rw [if_neg h]; omega
    have h2 : x > 2 ^ 63 - 1 := by omega
    simp only [this, if_true, h2]
    congr 2
    rw [Nat.and_comm, Nat.and_two_pow_sub_one_eq_mod]; exact Nat.mod_eq_of_lt ho

/-- … and it represents the signed coefficient modulo `q` (no wrap: the lane stays below `2^63 + q`) -/
theorem bFromZnx64_congr (x q : Nat) (hx : x < 2 ^ 64) (hq0 : 0 < q) (hq : q < 2 ^ 63) :
    ((bFromZnx64Ref x (q - 2 ^ 63 % q) : Nat) : Int) % q = (sgn x) % q := by
  unfold bFromZnx64Ref
  have hm : 2 ^ 63 % q < q := Nat.mod_lt _ hq0
  by_cases h : x < 2 ^ 63
  · have h2 : ¬ (x > 2 ^ 63 - 1) := by omega
    have e : x &&& (2 ^ 63 - 1) = x := by rw [Nat.and_two_pow_sub_one_eq_mod]; exact Nat.mod_eq_of_lt h
    simp only [h2, if_false, Nat.add_zero, e]
    rw [wrap_of_lt hx, sgn_small h]
  · have h2 : x > 2 ^ 63 - 1 := by omega
    have e : x &&& (2 ^ 63 - 1) = x - 2 ^ 63 := by
      rw [Nat.and_two_pow_sub_one_eq_mod, Nat.mod_eq_sub_mod (by omega), Nat.mod_eq_of_lt (by omega)]
    simp only [h2, if_true, e]
    rw [wrap_of_lt (by omega)]
    unfold sgn; rw [if_neg h]
    have hdm : q * (2 ^ 63 / q) + 2 ^ 63 % q = 2 ^ 63 := Nat.div_add_mod (2 ^ 63) q
    generalize 2 ^ 63 / q = D at hdm
    generalize 2 ^ 63 % q = M at hdm hm
    have : (((x - 2 ^ 63 + (q - M) : Nat)) : Int) = ((x : Int) - 2 ^ 64) + q * ((D : Int) + 1) := by
      have hP : ((q * D : Nat) : Int) = (q : Int) * D := by push_cast; ring
      generalize q * D = P at hdm hP
      have : (q : Int) * ((D : Int) + 1) = P + q := by rw [hP]; ring
      rw [this]
      omega
    rw [this, Int.add_mul_emod_self_left]

/-! ### q120b × q120c dot product: accumulation bounds -/

def Lanes (l : List (Nat × Nat)) : Prop := ∀ xy ∈ l, xy.1 < 2 ^ 64 ∧ xy.2 < 2 ^ 64

theorem half_bounds (x y : Nat) (hx : x < 2 ^ 64) (hy : y < 2 ^ 64) :
    (x % 2 ^ 32) * (y % 2 ^ 32) < 2 ^ 64 ∧ (x / 2 ^ 32) * (y / 2 ^ 32) < 2 ^ 64 := by
  have h1 : x % 2 ^ 32 < 2 ^ 32 := Nat.mod_lt _ (by positivity)
  have h2 : y % 2 ^ 32 < 2 ^ 32 := Nat.mod_lt _ (by positivity)
  have h3 : x / 2 ^ 32 < 2 ^ 32 := Nat.div_lt_of_lt_mul (by calc x < 2 ^ 64 := hx
                                                               _ = 2 ^ 32 * 2 ^ 32 := by norm_num)
  have h4 : y / 2 ^ 32 < 2 ^ 32 := Nat.div_lt_of_lt_mul (by calc y < 2 ^ 64 := hy
                                                               _ = 2 ^ 32 * 2 ^ 32 := by norm_num)
  have e : (2 : Nat) ^ 32 * 2 ^ 32 = 2 ^ 64 := by norm_num
  constructor
  · calc _ < 2 ^ 32 * 2 ^ 32 := Nat.mul_lt_mul'' h1 h2
      _ = 2 ^ 64 := e
  · calc _ < 2 ^ 32 * 2 ^ 32 := Nat.mul_lt_mul'' h3 h4
      _ = 2 ^ 64 := e

/-- one accumulation step: AVX (`and`/`srli`/`mul_epu32`/two adds per accumulator), reference (`u64 +=`) and the exact
sums coincide while the accumulators are below `2^63`, and each grows by less than `2^33` -/
theorem bbc_step (s : Nat × Nat) (xy : Nat × Nat) (h1 : s.1 < 2 ^ 63) (h2 : s.2 < 2 ^ 63) (hx : xy.1 < 2 ^ 64) (hy : xy.2 < 2 ^ 64) :
    bbcStep s xy = bbcExactStep s xy ∧ bbcRefStep s xy = bbcExactStep s xy ∧
    (bbcExactStep s xy).1 < s.1 + 2 ^ 33 ∧ (bbcExactStep s xy).2 < s.2 + 2 ^ 33 := by
  obtain ⟨ha, hb⟩ := half_bounds xy.1 xy.2 hx hy
  have m1 : ∀ z : Nat, z % 2 ^ 32 < 2 ^ 32 := fun z => Nat.mod_lt _ (by positivity)
  have d1 : ∀ z : Nat, z < 2 ^ 64 → z / 2 ^ 32 < 2 ^ 32 := fun z hz =>
    Nat.div_lt_of_lt_mul (by calc z < 2 ^ 64 := hz
                               _ = 2 ^ 32 * 2 ^ 32 := by norm_num)
  have hx3 := d1 _ hx
  have hy3 := d1 _ hy
  unfold bbcStep bbcRefStep bbcExactStep
  simp only [mask32, Nat.and_two_pow_sub_one_eq_mod, Nat.shiftRight_eq_div_pow, mul_epu32, add_epi64, Nat.mod_mod,
    Nat.mod_eq_of_lt hx3, Nat.mod_eq_of_lt hy3]
  generalize (xy.1 % 2 ^ 32) * (xy.2 % 2 ^ 32) = a at ha
  generalize (xy.1 / 2 ^ 32) * (xy.2 / 2 ^ 32) = b at hb
  have a1 := m1 a
  have b1 := m1 b
  have a2 := d1 a ha
  have b2 := d1 b hb
  refine ⟨?_, ?_, by omega, by omega⟩
  · rw [wrap_of_lt (show s.1 + a % 2 ^ 32 < 2 ^ 64 by omega), wrap_of_lt (show s.1 + a % 2 ^ 32 + b % 2 ^ 32 < 2 ^ 64 by omega),
      wrap_of_lt (show s.2 + a / 2 ^ 32 < 2 ^ 64 by omega), wrap_of_lt (show s.2 + a / 2 ^ 32 + b / 2 ^ 32 < 2 ^ 64 by omega)]
  · rw [wrap_of_lt (show a % 2 ^ 32 + b % 2 ^ 32 < 2 ^ 64 by omega), wrap_of_lt (show a / 2 ^ 32 + b / 2 ^ 32 < 2 ^ 64 by omega),
      wrap_of_lt (show s.1 + (a % 2 ^ 32 + b % 2 ^ 32) < 2 ^ 64 by omega), wrap_of_lt (show s.2 + (a / 2 ^ 32 + b / 2 ^ 32) < 2 ^ 64 by omega)]
    simp only [Nat.add_assoc]

/-- the accumulation loops agree and stay below `ell · 2^33` for every `ell ≤ 2^29` -/
theorem bbc_fold (l : List (Nat × Nat)) (hl : Lanes l) (hlen : l.length ≤ 2 ^ 29) :
    ∀ s : Nat × Nat, s.1 + l.length * 2 ^ 33 < 2 ^ 63 → s.2 + l.length * 2 ^ 33 < 2 ^ 63 →
      l.foldl bbcStep s = l.foldl bbcExactStep s ∧ l.foldl bbcRefStep s = l.foldl bbcExactStep s ∧
      (l.foldl bbcExactStep s).1 ≤ s.1 + l.length * 2 ^ 33 ∧ (l.foldl bbcExactStep s).2 ≤ s.2 + l.length * 2 ^ 33 := by
  induction l with
  | nil => intro s _ _; simp
  | cons xy t ih =>
    intro s h1 h2
    simp only [List.length_cons, Nat.succ_mul] at h1 h2 ⊢
    have hxy := hl xy List.mem_cons_self
    obtain ⟨e1, e2, g1, g2⟩ := bbc_step s xy (by omega) (by omega) hxy.1 hxy.2
    simp only [List.foldl_cons]
    rw [e1, e2]
    obtain ⟨i1, i2, i3, i4⟩ := ih (fun z hz => hl z (List.mem_cons_of_mem _ hz)) (by simp at hlen; omega) (bbcExactStep s xy)
      (by omega) (by omega)
    exact ⟨i1, i2, by omega, by omega⟩

/-- MAIN (mat-vec): for every `ell ≤ 10 000` rows, every `15 ≤ h ≤ 32` and reduction constants below `2^30`, the AVX
dot-product lane (two 64-bit accumulators, `mul_epu32` final reduction that keeps only 32 bits of `s_hi >> h`), the
reference lane and the exact integer expression coincide: no accumulator and no final sum wraps, and the 32-bit
truncation in `mul_epu32` loses nothing -/
theorem bbc_no_overflow (h s2l s2h : Nat) (l : List (Nat × Nat)) (hl : Lanes l) (hlen : l.length ≤ 10000)
    (hh1 : 15 ≤ h) (hh2 : h ≤ 32) (hs1 : s2l < 2 ^ 30) (hs2 : s2h < 2 ^ 30) :
    bbcAvx h s2l s2h l = bbcExact h s2l s2h l ∧ bbcRef h s2l s2h l = bbcExact h s2l s2h l ∧ bbcExact h s2l s2h l < 2 ^ 64 := by
  have hlen29 : l.length ≤ 2 ^ 29 := by norm_num; omega
  have hb : l.length * 2 ^ 33 ≤ 10000 * 2 ^ 33 := Nat.mul_le_mul_right _ hlen
  have hb2 : (10000 : Nat) * 2 ^ 33 < 2 ^ 47 := by norm_num
  obtain ⟨e1, e2, b1, b2⟩ := bbc_fold l hl hlen29 (0, 0) (by norm_num at hb2 ⊢; omega) (by norm_num at hb2 ⊢; omega)
  unfold bbcAvx bbcRef bbcExact
  rw [e1, e2]
  generalize List.foldl bbcExactStep (0, 0) l = s at b1 b2
  simp only [Nat.zero_add] at b1 b2
  have s1b : s.1 < 2 ^ 47 := by omega
  have s2b : s.2 < 2 ^ 47 := by omega
  have hpos : 0 < 2 ^ h := by positivity
  have hlo : s.2 % 2 ^ h < 2 ^ h := Nat.mod_lt _ hpos
  have h32 : 2 ^ h ≤ 2 ^ 32 := Nat.pow_le_pow_right (by decide) hh2
  have h15 : 2 ^ 15 ≤ 2 ^ h := Nat.pow_le_pow_right (by decide) hh1
  have hhi : s.2 / 2 ^ h < 2 ^ 32 := by
    apply Nat.div_lt_of_lt_mul
    calc s.2 < 2 ^ 47 := s2b
      _ = 2 ^ 15 * 2 ^ 32 := by norm_num
      _ ≤ 2 ^ h * 2 ^ 32 := Nat.mul_le_mul_right _ h15
  have p1 : s.2 % 2 ^ h * s2l < 2 ^ 62 := by
    calc s.2 % 2 ^ h * s2l < 2 ^ 32 * 2 ^ 30 := Nat.mul_lt_mul'' (by omega) hs1
      _ = 2 ^ 62 := by norm_num
  have p2 : s.2 / 2 ^ h * s2h < 2 ^ 62 := by
    calc s.2 / 2 ^ h * s2h < 2 ^ 32 * 2 ^ 30 := Nat.mul_lt_mul'' hhi hs2
      _ = 2 ^ 62 := by norm_num
  have e47 : (2 : Nat) ^ 47 + 2 ^ 62 + 2 ^ 62 < 2 ^ 64 := by norm_num
  refine ⟨?_, ?_, by simp only []; omega⟩
  · unfold reduceBbc
    simp only [Nat.and_two_pow_sub_one_eq_mod, Nat.shiftRight_eq_div_pow, mul_epu32, add_epi64]
    rw [Nat.mod_eq_of_lt (show s.2 % 2 ^ h < 2 ^ 32 by omega), Nat.mod_eq_of_lt (show s2l < 2 ^ 32 by omega),
      Nat.mod_eq_of_lt hhi, Nat.mod_eq_of_lt (show s2h < 2 ^ 32 by omega),
      wrap_of_lt (show s.1 + s.2 % 2 ^ h * s2l < 2 ^ 64 by omega), wrap_of_lt (by omega)]
  · simp only [Nat.and_two_pow_sub_one_eq_mod, Nat.shiftRight_eq_div_pow]
    rw [wrap_of_lt (show s.2 % 2 ^ h * s2l < 2 ^ 64 by omega), wrap_of_lt (show s.2 / 2 ^ h * s2h < 2 ^ 64 by omega),
      wrap_of_lt (show s.1 + s.2 % 2 ^ h * s2l < 2 ^ 64 by omega), wrap_of_lt (by omega)]

/-! ### `vec_znx_dft_consume`: in-place compaction indices

Step `(k, c)` (block `k`, coefficient `c < n`) reads the four `u64` at `4nk + 4c …` and then writes one `i128`
(two `u64`) at `2nk + 2c, 2nk + 2c + 1`. -/
theorem consume_no_clobber (n k c k' c' : Nat) (hc : c < n) (hc' : c' < n)
    (later : k < k' ∨ (k = k' ∧ c < c')) : 2 * n * k + 2 * c + 1 < 4 * n * k' + 4 * c' := by
  rcases later with h | ⟨rfl, h⟩
  · have h1 : n * (k + 1) ≤ n * k' := Nat.mul_le_mul_left n h
    have h2 : n * (k + 1) = n * k + n := by ring
    have e1 : 2 * n * k = 2 * (n * k) := by ring
    have e2 : 4 * n * k' = 4 * (n * k') := by ring
    rw [e1, e2]; omega
  · have e1 : 2 * n * k = 2 * (n * k) := by ring
    have e2 : 4 * n * k = 4 * (n * k) := by ring
    rw [e1, e2]; omega

end Avx.Q120
