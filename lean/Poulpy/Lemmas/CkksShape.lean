import Poulpy.Lemmas.CkksXProg
/-!
# C16: the "covered offset regime" is a consequence of the metadata

`cnv_offset_hi ≤ L_a + L_b − 1` for every accepted ct × ct product (`cnv_offset + budget' = β_a + β_b ≤ K_a + K_b ≤ b·(L_a + L_b)`), and
`cnv_offset_hi ≤ L_a + pt.size − 1` for every accepted plaintext product.  No shape hypothesis is left on the offset.
-/

namespace Ckks
open Core

theorem hi_le_of_cnv_le (b cnv L : Nat) (hb : 1 ≤ b) (hL : 1 ≤ L) (h : cnv ≤ b * L) : (cnvOffsetSplit b cnv).1 ≤ L - 1 := by
  unfold cnvOffsetSplit
  by_cases hc : cnv < b
  · rw [if_pos hc]; simp
  · rw [if_neg hc]
    simp only
    have : cnv / b ≤ L := by
      apply Nat.div_le_of_le_mul
      exact h
    omega

/-- every accepted ct × ct product is in the covered offset regime -/
theorem mulCt_hhi {env : Env} (hb : 1 ≤ env.base2k) {dst a b : Ct} {q : MulP} (h : mulCtParams env dst a b = .ok q)
    (ha : 1 ≤ a.md.effK) :
    (cnvOffsetSplit env.base2k q.cnv).1 ≤ divCeil a.md.effK env.base2k + divCeil b.md.effK env.base2k - 1 := by
  have hs := mulCt_scale h
  have h1 := Ckks.le_divCeil_mul a.md.effK env.base2k hb
  have h2 := Ckks.le_divCeil_mul b.md.effK env.base2k hb
  have hLa := Ckks.divCeil_pos a.md.effK env.base2k hb ha
  apply hi_le_of_cnv_le _ _ _ hb (by omega)
  have e1 : a.md.effK = a.md.logDelta + a.md.logBudget := rfl
  have e2 : b.md.effK = b.md.logDelta + b.md.logBudget := rfl
  rw [Nat.mul_add, Nat.mul_comm env.base2k, Nat.mul_comm env.base2k]
  omega

/-- every accepted plaintext product is in the covered offset regime -/
theorem mulPt_hhi {env : Env} (hb : 1 ≤ env.base2k) {dst a : Ct} {pt : Pt} (hbk : env.base2k = pt.base2k) {q : MulP}
    (h : mulPtParams env dst a pt.md pt.maxK = .ok q) (ha : 1 ≤ a.md.effK) :
    (cnvOffsetSplit env.base2k q.cnv).1 ≤ divCeil a.md.effK env.base2k + pt.size - 1 := by
  have hs := mulPt_scale h
  have h1 := Ckks.le_divCeil_mul a.md.effK env.base2k hb
  have hLa := Ckks.divCeil_pos a.md.effK env.base2k hb ha
  apply hi_le_of_cnv_le _ _ _ hb (by omega)
  have e1 : a.md.effK = a.md.logDelta + a.md.logBudget := rfl
  have hmk : pt.maxK = pt.size * env.base2k := by unfold Pt.maxK; rw [hbk]
  rw [Nat.mul_add, Nat.mul_comm env.base2k, Nat.mul_comm env.base2k]
  omega

end Ckks
