import Poulpy.Lemmas.CoreOpsCol

/-!
The phase as a linear form in the columns: `lin s f = f 0 + Σ_i s_i ⋆ f (i+1)`; additivity,
compatibility with limb-wise linear maps that commute with the product (negation, `X^k`, `X^k-1`),
compatibility with `fit`, and the bridge `fit (phase s g) = lin s (fit ∘ columns of g)`.
-/

namespace C02L
open Hal Core

/-- `f 0 + Σ_{i<m} s_i ⋆ f (i+1)` (limb-wise), the shape of `Core.phaseBig` -/
def linTo (m : Nat) (s : List Poly) (f : Nat → Col) : Col :=
  (List.range m).foldl (fun acc i => colAdd acc (colMulPoly (s.getD i []) (f (i + 1)))) (f 0)

def lin (s : List Poly) (f : Nat → Col) : Col := linTo s.length s f

theorem linTo_zero (s : List Poly) (f : Nat → Col) : linTo 0 s f = f 0 := rfl

theorem linTo_succ (m : Nat) (s : List Poly) (f : Nat → Col) :
    linTo (m + 1) s f = colAdd (linTo m s f) (colMulPoly (s.getD m []) (f (m + 1))) := by
  simp [linTo, List.range_succ, List.foldl_append]

theorem phaseBig_eq_lin (s : List Poly) (g : GLWE) : phaseBig s g = lin s (fun i => g.cols.getD i []) := rfl

/-- a limb-wise `Z[X]/(X^N+1)`-linear map on polynomials of length `N` -/
structure LinT (N : Nat) (T : Poly → Poly) : Prop where
  len : ∀ x, x.length = N → (T x).length = N
  add : ∀ x y, x.length = N → y.length = N → T (polyAdd x y) = polyAdd (T x) (T y)
  mul : ∀ p x, x.length = N → T (Hal.negMul p x) = Hal.negMul p (T x)
  zero : T (zeroP N) = zeroP N

theorem linT_id (N : Nat) : LinT N id := ⟨fun _ h => h, fun _ _ _ _ => rfl, fun _ _ _ => rfl, rfl⟩

theorem linT_neg (N : Nat) : LinT N polyNeg :=
  ⟨fun x h => by rw [polyNeg_length]; exact h, fun x y _ _ => polyNeg_add x y,
   fun p x _ => (negMul_neg_right p x).symm, polyNeg_zero N⟩

theorem linT_rot (N : Nat) (k : Int) : LinT N (rotP k) :=
  ⟨fun x h => by rw [rotP_length]; exact h, fun x y hx hy => rotP_add k x y (by omega),
   fun p x _ => (negMul_rot p k x).symm, rotP_zero k N⟩

theorem polySub_length (a b : Poly) : (polySub a b).length = min a.length b.length := by simp [polySub]

theorem linT_mxp (N : Nat) (k : Int) : LinT N (mxpP k) := by
  refine ⟨fun x h => ?_, fun x y hx hy => ?_, fun p x hx => ?_, ?_⟩
  · simp [mxpP, polySub_length, rotP_length, h]
  · simp only [mxpP, polySub_eq]
    rw [rotP_add k x y (by omega), polyNeg_add, polyAdd_exchange]
  · simp only [mxpP, polySub_eq]
    rw [negMul_add_right _ _ _ (by simp [rotP_length]), negMul_rot, negMul_neg_right]
  · simp only [mxpP, polySub_eq]
    rw [rotP_zero, polyNeg_zero, polyAdd_zero_zero]

/-! ### shapes -/

theorem colMul_wf {N rs : Nat} (p : Poly) {a : Col} (h : ColWF N rs a) : ColWF N rs (colMulPoly p a) := by
  refine ⟨by simp [colMulPoly, h.1], ?_⟩
  intro l hl
  simp only [colMulPoly, List.mem_map] at hl
  obtain ⟨x, hx, rfl⟩ := hl
  rw [negMul_length]; exact h.2 x hx

theorem colAdd_wf {N rs : Nat} {a b : Col} (ha : ColWF N rs a) (hb : ColWF N rs b) : ColWF N rs (colAdd a b) := by
  refine ⟨by simp [colAdd, ha.1, hb.1], ?_⟩
  intro l hl
  obtain ⟨j, hj, rfl⟩ := List.getElem_of_mem hl
  simp only [colAdd, List.length_zipWith] at hj
  simp only [colAdd, List.getElem_zipWith, polyAdd_length]
  rw [ha.2 _ (List.getElem_mem _), hb.2 _ (List.getElem_mem _)]
  simp

theorem map_wf {N rs : Nat} {T : Poly → Poly} (hT : LinT N T) {a : Col} (h : ColWF N rs a) : ColWF N rs (a.map T) :=
  ⟨by simp [h.1], h.2.map T hT.len⟩

theorem linTo_wf {N rs : Nat} (m : Nat) (s : List Poly) (f : Nat → Col) (h : ∀ i, i ≤ m → ColWF N rs (f i)) :
    ColWF N rs (linTo m s f) := by
  induction m with
  | zero => exact h 0 (Nat.le_refl 0)
  | succ m ih =>
    rw [linTo_succ]
    exact colAdd_wf (ih (fun i hi => h i (by omega))) (colMul_wf _ (h (m + 1) (Nat.le_refl _)))

theorem linTo_congr (m : Nat) (s : List Poly) (f f' : Nat → Col) (h : ∀ i, i ≤ m → f i = f' i) :
    linTo m s f = linTo m s f' := by
  induction m with
  | zero => exact h 0 (Nat.le_refl 0)
  | succ m ih => rw [linTo_succ, linTo_succ, ih (fun i hi => h i (by omega)), h (m + 1) (Nat.le_refl _)]

/-! ### algebra of columns of one shape -/

theorem wf_getD {N rs : Nat} {a : Col} (h : ColWF N rs a) (j : Nat) : (a.getD j (zeroP N)).length = N :=
  getD_limbsN h.2 j

theorem colAdd_exchange {N rs : Nat} {a b c d : Col} (ha : ColWF N rs a) (hb : ColWF N rs b) (hc : ColWF N rs c)
    (hd : ColWF N rs d) : colAdd (colAdd a b) (colAdd c d) = colAdd (colAdd a c) (colAdd b d) := by
  apply col_ext (N := N)
  · simp [colAdd, ha.1, hb.1, hc.1, hd.1]
  · intro j hj
    have hj' : j < rs := by simpa [colAdd, ha.1, hb.1, hc.1, hd.1] using hj
    rw [colAdd_getD _ _ j (by simp [colAdd, ha.1, hb.1, hj']) (by simp [colAdd, hc.1, hd.1, hj']),
      colAdd_getD _ _ j (by rw [ha.1]; exact hj') (by rw [hb.1]; exact hj'),
      colAdd_getD _ _ j (by rw [hc.1]; exact hj') (by rw [hd.1]; exact hj'),
      colAdd_getD _ _ j (by simp [colAdd, ha.1, hc.1, hj']) (by simp [colAdd, hb.1, hd.1, hj']),
      colAdd_getD _ _ j (by rw [ha.1]; exact hj') (by rw [hc.1]; exact hj'),
      colAdd_getD _ _ j (by rw [hb.1]; exact hj') (by rw [hd.1]; exact hj'), polyAdd_exchange]

theorem map_colAdd {N rs : Nat} {T : Poly → Poly} (hT : LinT N T) {a b : Col} (ha : ColWF N rs a) (hb : ColWF N rs b) :
    (colAdd a b).map T = colAdd (a.map T) (b.map T) := by
  apply col_ext (N := N)
  · simp [colAdd]
  · intro j hj
    have hj' : j < rs := by simpa [colAdd, ha.1, hb.1] using hj
    rw [map_getD T _ j (by simp [colAdd, ha.1, hb.1, hj']),
      colAdd_getD _ _ j (by rw [ha.1]; exact hj') (by rw [hb.1]; exact hj'),
      colAdd_getD _ _ j (by simp [ha.1, hj']) (by simp [hb.1, hj']),
      map_getD T _ j (by rw [ha.1]; exact hj'), map_getD T _ j (by rw [hb.1]; exact hj'),
      hT.add _ _ (wf_getD ha j) (wf_getD hb j)]

theorem colMul_eq_map (p : Poly) (a : Col) : colMulPoly p a = a.map (Hal.negMul p) := rfl

theorem linT_mulBy (N : Nat) (p : Poly) : LinT N (Hal.negMul p) := by
  refine ⟨fun x h => by rw [negMul_length]; exact h, fun x y hx hy => negMul_add_right p x y (by omega), ?_, negMul_zero_right p N⟩
  intro q x hx
  -- products by two fixed polynomials commute: both are Z-linear combinations of rotations
  induction q generalizing x with
  | nil =>
    have z : ∀ y : Poly, y.map (fun _ => (0 : Int)) = zeroP y.length := by intro y; simp [zeroP, List.map_const']
    simp only [Hal.negMul]
    rw [z, z, negMul_length, negMul_zero_right]
  | cons q0 qs ih =>
    simp only [Hal.negMul]
    rw [negMul_add_right _ _ _ (by simp [mulX_length, negMul_length]), negMul_scale_right,
      mulX_eq_rot, mulX_eq_rot, negMul_rot, ih x hx]

theorem colMul_colAdd {N rs : Nat} (p : Poly) {a b : Col} (ha : ColWF N rs a) (hb : ColWF N rs b) :
    colMulPoly p (colAdd a b) = colAdd (colMulPoly p a) (colMulPoly p b) :=
  map_colAdd (linT_mulBy N p) ha hb

theorem map_colMul {N rs : Nat} {T : Poly → Poly} (hT : LinT N T) (p : Poly) {a : Col} (ha : ColWF N rs a) :
    (colMulPoly p a).map T = colMulPoly p (a.map T) := by
  simp only [colMulPoly, List.map_map]
  apply List.map_congr_left
  intro l hl
  exact hT.mul p l (ha.2 l hl)

/-! ### `lin` is additive, commutes with linear maps and with `fit` -/

theorem linTo_add {N rs : Nat} (m : Nat) (s : List Poly) (g h : Nat → Col)
    (hg : ∀ i, i ≤ m → ColWF N rs (g i)) (hh : ∀ i, i ≤ m → ColWF N rs (h i)) :
    linTo m s (fun i => colAdd (g i) (h i)) = colAdd (linTo m s g) (linTo m s h) := by
  induction m with
  | zero => rfl
  | succ m ih =>
    rw [linTo_succ, linTo_succ, linTo_succ, ih (fun i hi => hg i (by omega)) (fun i hi => hh i (by omega)),
      colMul_colAdd _ (hg _ (Nat.le_refl _)) (hh _ (Nat.le_refl _))]
    exact colAdd_exchange (linTo_wf m s g (fun i hi => hg i (by omega))) (linTo_wf m s h (fun i hi => hh i (by omega)))
      (colMul_wf _ (hg _ (Nat.le_refl _))) (colMul_wf _ (hh _ (Nat.le_refl _)))

theorem linTo_map {N rs : Nat} {T : Poly → Poly} (hT : LinT N T) (m : Nat) (s : List Poly) (g : Nat → Col)
    (hg : ∀ i, i ≤ m → ColWF N rs (g i)) :
    linTo m s (fun i => (g i).map T) = (linTo m s g).map T := by
  induction m with
  | zero => rfl
  | succ m ih =>
    rw [linTo_succ, linTo_succ, ih (fun i hi => hg i (by omega)),
      map_colAdd hT (linTo_wf m s g (fun i hi => hg i (by omega))) (colMul_wf _ (hg _ (Nat.le_refl _))),
      map_colMul hT _ (hg _ (Nat.le_refl _))]

theorem fit_colAdd {N L : Nat} (rs : Nat) {a b : Col} (ha : ColWF N L a) (hb : ColWF N L b) :
    fit N rs (colAdd a b) = colAdd (fit N rs a) (fit N rs b) := by
  apply col_ext (N := N)
  · simp [colAdd]
  · intro j hj
    have hj' : j < rs := by simpa using hj
    have e1 : (fit N rs (colAdd a b)).getD j (zeroP N) = (colAdd a b).getD j (zeroP N) := fit_getD _ _ _ _ hj'
    have e2 : (colAdd (fit N rs a) (fit N rs b)).getD j (zeroP N)
        = polyAdd (a.getD j (zeroP N)) (b.getD j (zeroP N)) := by
      rw [colAdd_getD _ _ j (by simpa using hj') (by simpa using hj'), fit_getD _ _ _ _ hj', fit_getD _ _ _ _ hj']
    rw [e1, e2]
    by_cases hL : j < L
    · exact colAdd_getD _ _ j (by rw [ha.1]; exact hL) (by rw [hb.1]; exact hL)
    · rw [getD_of_ge _ j (by simp [colAdd, ha.1, hb.1]; omega), getD_of_ge a j (by rw [ha.1]; omega),
        getD_of_ge b j (by rw [hb.1]; omega), polyAdd_zero_zero]

theorem fit_map {N : Nat} {T : Poly → Poly} (hT : LinT N T) (rs : Nat) (a : Col) :
    fit N rs (a.map T) = (fit N rs a).map T := by
  apply col_ext (N := N)
  · simp
  · intro j hj
    have hj' : j < rs := by simpa using hj
    have e1 : (fit N rs (a.map T)).getD j (zeroP N) = (a.map T).getD j (zeroP N) := fit_getD _ _ _ _ hj'
    have e2 : ((fit N rs a).map T).getD j (zeroP N) = T (a.getD j (zeroP N)) := by
      rw [map_getD T _ j (by simpa using hj'), fit_getD _ _ _ _ hj']
    rw [e1, e2]
    by_cases hL : j < a.length
    · exact map_getD T a j hL
    · rw [getD_of_ge _ j (by simp; omega), getD_of_ge a j (by omega), hT.zero]

theorem fit_colMul (N rs : Nat) (p : Poly) (a : Col) : fit N rs (colMulPoly p a) = colMulPoly p (fit N rs a) :=
  fit_map (linT_mulBy N p) rs a

theorem linTo_fit {N L : Nat} (rs m : Nat) (s : List Poly) (g : Nat → Col) (hg : ∀ i, i ≤ m → ColWF N L (g i)) :
    linTo m s (fun i => fit N rs (g i)) = fit N rs (linTo m s g) := by
  induction m with
  | zero => rfl
  | succ m ih =>
    rw [linTo_succ, linTo_succ, ih (fun i hi => hg i (by omega)),
      fit_colAdd rs (linTo_wf m s g (fun i hi => hg i (by omega))) (colMul_wf _ (hg _ (Nat.le_refl _))), fit_colMul]

/-- terms whose column is the zero column can be dropped -/
theorem linTo_drop_zero {N rs : Nat} (r m : Nat) (s : List Poly) (f : Nat → Col)
    (hf : ∀ i, i ≤ r → ColWF N rs (f i)) (hz : ∀ i, r < i → f i = List.replicate rs (zeroP N)) :
    linTo m s f = linTo (min r m) s f := by
  induction m with
  | zero => simp
  | succ m ih =>
    by_cases h : m + 1 ≤ r
    · rw [Nat.min_eq_right h]
    · have e : min r (m + 1) = min r m := by omega
      rw [e, linTo_succ, ih, hz (m + 1) (by omega)]
      have wf : ColWF N rs (linTo (min r m) s f) := linTo_wf _ s f (fun i hi => hf i (by omega))
      have zc : colMulPoly (s.getD m []) (List.replicate rs (zeroP N)) = List.replicate rs (zeroP N) := by
        simp [colMulPoly, negMul_zero_right]
      rw [zc]
      apply col_ext (N := N)
      · simp [colAdd, wf.1]
      · intro j hj
        have hj' : j < rs := by simpa [colAdd, wf.1] using hj
        rw [colAdd_getD _ _ j (by rw [wf.1]; exact hj') (by simpa using hj')]
        simp only [List.getD_eq_getElem?_getD, List.getElem?_replicate, hj', if_true, Option.getD_some]
        exact polyAdd_zero_right _ N (by simpa [List.getD_eq_getElem?_getD] using wf_getD wf j)

theorem linTo_take (r m : Nat) (s : List Poly) (f : Nat → Col) (h : m ≤ r) : linTo m (s.take r) f = linTo m s f := by
  induction m with
  | zero => rfl
  | succ m ih =>
    rw [linTo_succ, linTo_succ, ih (by omega)]
    have : (s.take r).getD m [] = s.getD m [] := by
      simp [List.getD_eq_getElem?_getD, List.getElem?_take, (by omega : m < r)]
    rw [this]

end C02L
