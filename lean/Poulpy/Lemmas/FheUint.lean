import Poulpy.Model.FheUint
import Mathlib.Tactic.IntervalCases

namespace FheUint

theorem enc_bit (w j : Nat) : (decide ((((w >>> j) % 2 : Nat) : Int) % 4 ≠ 0)) = w.testBit j := by
  rw [Nat.testBit_eq_decide_div_mod_eq, Nat.shiftRight_eq_div_pow]
  have h := Nat.mod_two_eq_zero_or_one (w / 2 ^ j)
  rcases h with h | h <;> simp [h]

theorem fin_bit (b : BitVec 32) (j : Nat) (h : j < 32) : decide (((b.toNat : Int) >>> j) % 2 % 4 = 0) = !b[j] := by
  have e : ((b.toNat : Int) >>> j) % 2 = (((b.toNat >>> j) % 2 : Nat) : Int) := by
    push_cast
    rfl
  rw [e]
  have := enc_bit b.toNat j
  rw [BitVec.getElem_eq_testBit_toNat]
  rw [← this]
  simp

theorem fin_bit0 (b : BitVec 32) : decide ((b.toNat : Int) % 2 % 4 = 0) = !b[0] := by
  have := fin_bit b 0 (by decide)
  simpa using this

/-- slot-level action of `splice_u8` (u32): the slots of byte `dst` (`σ ≡ dst mod 4`) receive the slots
of byte `src` of `b`, every other slot keeps `a` -/
theorem spliceU8_slots (a b : Slots) (dst src s : Nat) (hd : dst < 4) (hs : src < 4) (hs' : s < 32) :
    spliceU8 u32 dst src a b s = if s % 4 = dst then b (s - dst + src) else a s := by
  interval_cases dst <;> interval_cases src <;> interval_cases s <;>
    simp [spliceU8, zeroByte, rot, trace, add, sub, bitIndex, u32]

theorem spliceU16_slots (a b : Slots) (dst src s : Nat) (hd : dst < 2) (hs : src < 2) (hs' : s < 32) :
    spliceU16 u32 dst src a b s = if s % 4 / 2 = dst then b (s - 2 * dst + 2 * src) else a s := by
  unfold spliceU16
  rw [spliceU8_slots _ _ _ _ _ (by omega) (by omega) hs']
  split
  · next h =>
    interval_cases dst <;> interval_cases src <;> interval_cases s <;> simp_all
  · next h =>
    rw [spliceU8_slots _ _ _ _ _ (by omega) (by omega) hs']
    interval_cases dst <;> interval_cases src <;> interval_cases s <;> simp_all

theorem getBit_slots (p : Slots) (i s : Nat) (hi : i < 32) (hs : s < 32) :
    getBit u32 i p s = if s = 0 then p (bitIndex u32 i) else 0 := by
  interval_cases i <;> interval_cases s <;> simp [getBit, rot, trace, bitIndex, u32]

theorem getByte_slots (p : Slots) (byte s : Nat) (hb : byte < 4) (hs : s < 32) :
    getByte u32 byte p s = if s % 4 = 0 then p (s + byte) else 0 := by
  interval_cases byte <;> interval_cases s <;> simp [getByte, rot, trace, bitIndex, u32]

theorem rot_slots (q : Slots) (r s : Nat) (hr : r ≤ 32) (hs : s < 32) :
    rot 32 (r : Int) q s = if r ≤ s then q (s - r) else - q (s + 32 - r) := by
  unfold rot
  by_cases h : r ≤ s
  · have e : ((((s : Int) - (r : Int)) % (2 * ((32 : Nat) : Int))).toNat) = s - r := by omega
    simp only [e, h, if_true]
    rw [if_pos (by omega)]
  · have e : ((((s : Int) - (r : Int)) % (2 * ((32 : Nat) : Int))).toNat) = s + 64 - r := by omega
    simp only [e, h, if_false]
    rw [if_neg (by omega)]
    congr 2
    omega

theorem dbl_slots (q : Slots) (r s : Nat) (hr : r ≤ 32) (hs : s < 32) :
    add q (rot 32 (r : Int) q) s = q s + (if r ≤ s then q (s - r) else - q (s + 32 - r)) := by
  unfold add; rw [rot_slots q r s hr hs]

theorem dbl_stage (q : Slots) (v : Int) (m r : Nat) (hr : r ≤ 16) (hm : m = r) (hr4 : r % 4 = 0)
    (hq : ∀ σ, σ < 32 → q σ = if σ % 4 = 0 ∧ σ < m then v else 0) :
    ∀ σ, σ < 32 → add q (rot 32 (r : Int) q) σ = if σ % 4 = 0 ∧ σ < 2 * m then v else 0 := by
  intro σ hσ
  rw [dbl_slots q r σ (by omega) hσ, hq σ hσ]
  by_cases h : r ≤ σ
  · rw [if_pos h, hq (σ - r) (by omega)]
    by_cases h1 : σ % 4 = 0 ∧ σ < m
    · omega
    · have h2 : ((σ - r) % 4 = 0 ∧ σ - r < m) ↔ (σ % 4 = 0 ∧ σ < 2 * m) := by omega
      simp only [h1, if_false, zero_add]
      by_cases h3 : σ % 4 = 0 ∧ σ < 2 * m
      · rw [if_pos h3, if_pos (h2.2 h3)]
      · rw [if_neg h3, if_neg (fun hh => h3 (h2.1 hh))]
  · rw [if_neg h, hq (σ + 32 - r) (by omega)]
    have h2 : ¬ ((σ + 32 - r) % 4 = 0 ∧ σ + 32 - r < m) := by omega
    rw [if_neg h2]
    have h3 : (σ % 4 = 0 ∧ σ < m) ↔ (σ % 4 = 0 ∧ σ < 2 * m) := by omega
    by_cases h4 : σ % 4 = 0 ∧ σ < m
    · rw [if_pos h4, if_pos (h3.1 h4)]; simp
    · rw [if_neg h4, if_neg (fun hh => h4 (h3.2 hh))]; simp

theorem sextFill_slots (p : Slots) (byte s : Nat) (hb : byte < 4) (hs : s < 32) :
    sextFill u32 byte p s = if s % 4 = 0 then p (28 + byte) else 0 := by
  have e1 : u32.bits = 32 := rfl
  have e2 : u32.logBytes = 2 := rfl
  simp only [sextFill, e1, e2, List.range_succ, List.range_zero, List.foldl_cons, List.foldl_nil, List.nil_append, List.cons_append]
  have c4 : (((1 <<< 2) <<< 0 : Nat) : Int) = ((4 : Nat) : Int) := by decide
  have c8 : (((1 <<< 2) <<< 1 : Nat) : Int) = ((8 : Nat) : Int) := by decide
  have c16 : (((1 <<< 2) <<< 2 : Nat) : Int) = ((16 : Nat) : Int) := by decide
  rw [c4, c8, c16]
  have hbi : bitIndex u32 ((byte <<< 3) + 7) = 28 + byte := by interval_cases byte <;> decide
  have hbyte : (byte <<< 3) + 7 < 32 := by interval_cases byte <;> decide
  have g0 : ∀ σ, σ < 32 → getBit u32 ((byte <<< 3) + 7) p σ = if σ % 4 = 0 ∧ σ < 4 then p (28 + byte) else 0 := by
    intro σ hσ
    rw [getBit_slots p _ σ hbyte hσ, hbi]
    by_cases h : σ = 0
    · subst h; simp
    · have : ¬ (σ % 4 = 0 ∧ σ < 4) := by omega
      rw [if_neg h, if_neg this]
  have g1 := dbl_stage _ _ 4 4 (by decide) rfl (by decide) g0
  have g2 := dbl_stage _ _ 8 8 (by decide) rfl (by decide) g1
  have g3 := dbl_stage _ _ 16 16 (by decide) rfl (by decide) g2
  rw [g3 s hs]
  have : (s % 4 = 0 ∧ s < 2 * 16) ↔ s % 4 = 0 := by omega
  simp only [this]


theorem sext_slots (p : Slots) (byte s : Nat) (hb : byte < 4) (hs : s < 32) :
    sext u32 byte p s = if s % 4 > byte then p (28 + byte) else p s := by
  have e : u32.logBytes = 2 := rfl
  interval_cases byte
  · simp only [sext, e, List.range_succ, List.range_zero, List.foldl_cons, List.foldl_nil, List.nil_append, List.cons_append,
      Nat.reducePow, Nat.reduceSub, Nat.reduceAdd]
    rw [spliceU8_slots _ _ 3 0 s (by decide) (by decide) hs, spliceU8_slots _ _ 2 0 s (by decide) (by decide) hs,
      spliceU8_slots _ _ 1 0 s (by decide) (by decide) hs]
    rw [sextFill_slots p 0 _ (by decide) (show s - 3 + 0 < 32 by omega), sextFill_slots p 0 _ (by decide) (show s - 2 + 0 < 32 by omega),
      sextFill_slots p 0 _ (by decide) (show s - 1 + 0 < 32 by omega)]
    interval_cases s <;> simp
  · simp only [sext, e, List.range_succ, List.range_zero, List.foldl_cons, List.foldl_nil, List.nil_append, List.cons_append,
      Nat.reducePow, Nat.reduceSub, Nat.reduceAdd]
    rw [spliceU8_slots _ _ 3 0 s (by decide) (by decide) hs, spliceU8_slots _ _ 2 0 s (by decide) (by decide) hs]
    rw [sextFill_slots p 1 _ (by decide) (show s - 3 + 0 < 32 by omega), sextFill_slots p 1 _ (by decide) (show s - 2 + 0 < 32 by omega)]
    interval_cases s <;> simp
  · simp only [sext, e, List.range_succ, List.range_zero, List.foldl_cons, List.foldl_nil, List.nil_append, List.cons_append,
      Nat.reducePow, Nat.reduceSub, Nat.reduceAdd]
    rw [spliceU8_slots _ _ 3 0 s (by decide) (by decide) hs]
    rw [sextFill_slots p 2 _ (by decide) (show s - 3 + 0 < 32 by omega)]
    interval_cases s <;> simp
  · simp only [sext, e, List.range_zero, List.foldl_nil, Nat.reducePow, Nat.reduceSub, Nat.reduceAdd]
    have : ¬ (s % 4 > 3) := by omega
    simp [this]


end FheUint
