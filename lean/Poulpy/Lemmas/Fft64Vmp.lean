import Poulpy.Lemmas.Fft64Numeric
open Complex
namespace Fft64
open F64 NttMath

/-- error of one slot-wise product: what `close_mul` proves -/
noncomputable def epOf (Ea Aa Eb Ab : ℝ) : ℝ := 3 / 2 * (κ * ((Aa + Ea) * (Ab + Eb))) + (Aa + Ea) * Eb + Ea * Ab

/-- one `acc += a * b` (`reim4_add_mul`): the product's error, the accumulator's error, and two more roundings -/
theorem close_addmul (Es As Ea Aa Eb Ab : ℝ) (hAa : 1 ≤ Aa) (hAb : 1 ≤ Ab) (hEa : 0 ≤ Ea) (hEb : 0 ≤ Eb)
    (hEs : 0 ≤ Es) (hAs : 0 ≤ As)
    (hbig : (Aa + Ea) * (Ab + Eb) ≤ (2:ℝ) ^ (1000:Int))
    (hS : (As + Es) + (Aa * Ab + epOf Ea Aa Eb Ab) ≤ (2:ℝ) ^ (1001:Int)) :
    ∀ {sc : List C64} {s : List ℂ}, Close Es As sc s → ∀ {ac bc : List C64} {a b : List ℂ}, Close Ea Aa ac a → Close Eb Ab bc b →
    Close (Es + epOf Ea Aa Eb Ab + u * ((As + Es) + (Aa * Ab + epOf Ea Aa Eb Ab))) (As + Aa * Ab)
      (List.zipWith (fun s uv => caddmul s uv.1 uv.2) sc (ac.zip bc))
      (List.zipWith (fun s uv => s + uv.1 * uv.2) s (a.zip b)) := by
  intro sc s hs
  induction hs with
  | nil => intro _ _ _ _ _ _; simp [Close]
  | @cons s0c s0 _ _ hcs _ ih =>
    intro ac bc a b ha hb
    cases ha with
    | nil => simp [Close]
    | @cons a0c a0 _ _ hca hta =>
      cases hb with
      | nil => simp [Close]
      | @cons b0c b0 _ _ hcb htb =>
        simp only [List.zip_cons_cons, List.zipWith_cons_cons]
        refine List.Forall₂.cons ?_ (ih hta htb)
        obtain ⟨fs, es, ns⟩ := hcs
        -- the product slot through close_mul on singleton lists
        have hm := close_mul Ea Aa Eb Ab hAa hAb hEa hEb hbig
          (List.Forall₂.cons hca List.Forall₂.nil : Close Ea Aa [a0c] [a0]) (List.Forall₂.cons hcb List.Forall₂.nil : Close Eb Ab [b0c] [b0])
        simp only [pointwise, List.zipWith_cons_cons, List.zipWith_nil_right] at hm
        cases hm with
        | cons hp _ =>
          obtain ⟨fp, ep, np⟩ := hp
          change ‖cval (cmul a0c b0c) - a0 * b0‖ ≤ epOf Ea Aa Eb Ab at ep
          have msc : ‖cval s0c‖ ≤ As + Es := by have := norm_le_insert' (cval s0c) s0; linarith
          have mpc : ‖cval ((cmul a0c b0c).1, (cmul a0c b0c).2)‖ ≤ Aa * Ab + epOf Ea Aa Eb Ab := by
            show ‖cval (cmul a0c b0c)‖ ≤ _
            have := norm_le_insert' (cval (cmul a0c b0c)) (a0 * b0); linarith
          obtain ⟨⟨c1, e1⟩, _, _, _⟩ := out_stage s0c (cmul a0c b0c).1 (cmul a0c b0c).2 fs fp.1 fp.2 _ (by linarith) hS
          change ‖cval (caddmul s0c a0c b0c) - (cval s0c + cval (cmul a0c b0c))‖ ≤ _ at e1
          refine ⟨c1, ?_, ?_⟩
          · have e : cval (caddmul s0c a0c b0c) - (s0 + a0 * b0) =
                (cval (caddmul s0c a0c b0c) - (cval s0c + cval (cmul a0c b0c))) + (cval s0c - s0) + (cval (cmul a0c b0c) - a0 * b0) := by ring
            rw [e]; refine le_trans norm_add₃_le ?_; linarith
          · refine le_trans (norm_add_le _ _) ?_; linarith


/-! ### exact side: additivity and the accumulated sum -/

theorem fwdE_add (k : Nat) (j : ℝ) (x y : List ℂ) (hx : x.length = 2 ^ k) (hy : y.length = 2 ^ k) :
    fwdE k j (List.zipWith (· + ·) x y) = List.zipWith (· + ·) (fwdE k j x) (fwdE k j y) := by
  rw [fwdE_eval k j x hx, fwdE_eval k j y hy, fwdE_eval k j _ (by simp [hx, hy]), zipWith_map_same]
  apply List.map_congr_left
  intro r _
  exact ev_addL x y (by rw [hx, hy]) r

theorem packC_add (m : Nat) (x y : List ℂ) :
    packC m (List.zipWith (· + ·) x y) = List.zipWith (· + ·) (packC m x) (packC m y) := by
  unfold packC
  rw [List.take_zipWith, List.drop_zipWith]
  generalize List.take m x = a, List.take m y = b, List.drop m x = c, List.drop m y = d
  induction a generalizing b c d with
  | nil => simp
  | cons a0 as ih =>
    cases b with
    | nil => simp
    | cons b0 bs =>
      cases c with
      | nil => simp
      | cons c0 cs =>
        cases d with
        | nil => simp
        | cons d0 ds => simp only [List.zipWith_cons_cons, ih]; congr 1; ring

theorem zipWith_zip_mul (s x y : List ℂ) :
    List.zipWith (fun s uv => s + uv.1 * uv.2) s (x.zip y) = List.zipWith (· + ·) s (List.zipWith (· * ·) x y) := by
  induction s generalizing x y with
  | nil => simp
  | cons s0 ss ih =>
    cases x with
    | nil => simp
    | cons x0 xs =>
      cases y with
      | nil => simp
      | cons y0 ys => simp [ih]

/-- exact accumulation over rows = transform of the packed sum of the negacyclic products -/
theorem exact_fold (k : Nat) (rows : List (Poly × Poly))
    (hlen : ∀ r ∈ rows, r.1.length = 2 ^ (k + 1) ∧ r.2.length = 2 ^ (k + 1)) :
    ∀ (S : Poly), S.length = 2 ^ (k + 1) →
    (rows.map (fun r => (fwdE k (1 / 4) (packC (2 ^ k) (r.1.map cc)), fwdE k (1 / 4) (packC (2 ^ k) (r.2.map cc))))).foldl
        (fun s r => List.zipWith (fun s uv => s + uv.1 * uv.2) s (r.1.zip r.2)) (fwdE k (1 / 4) (packC (2 ^ k) (S.map cc)))
      = fwdE k (1 / 4) (packC (2 ^ k) (((rows.map (fun r => Hal.negMul r.1 r.2)).foldl Hal.polyAdd S).map cc)) := by
  induction rows with
  | nil => intro S _; rfl
  | cons r rs ih =>
    intro S hS
    obtain ⟨h1, h2⟩ := hlen r (by simp)
    simp only [List.map_cons, List.foldl_cons]
    have lc : (Hal.negMul r.1 r.2).length = 2 ^ (k + 1) := by rw [Hal.negMul_length]; exact h2
    have lS' : (Hal.polyAdd S (Hal.negMul r.1 r.2)).length = 2 ^ (k + 1) := by
      unfold Hal.polyAdd; simp [hS, lc]
    rw [← ih (fun r' hr' => hlen r' (by simp [hr'])) _ lS']
    congr 1
    rw [zipWith_zip_mul, ← fwdE_mul k r.1 r.2 h1 h2, mapC_polyAdd]
    unfold addL
    rw [packC_add, fwdE_add]
    · exact packC_length k _ (by simpa using hS)
    · exact packC_length k _ (by simpa using lc)


/-! ### computed side: error of the accumulator after each row -/

/-- (error, magnitude) of the accumulator after one more row of products with error `ep`, magnitude `ap` -/
noncomputable def accStep (ep ap : ℝ) (x : ℝ × ℝ) : ℝ × ℝ := (x.1 + ep + u * ((x.2 + x.1) + (ap + ep)), x.2 + ap)

noncomputable def accIter (ep ap : ℝ) : Nat → ℝ × ℝ → ℝ × ℝ
  | 0, x => x
  | r + 1, x => accIter ep ap r (accStep ep ap x)

theorem accStep_mono (ep ap : ℝ) (hep : 0 ≤ ep) (hap : 0 ≤ ap) (x : ℝ × ℝ) (h1 : 0 ≤ x.1) (h2 : 0 ≤ x.2) :
    0 ≤ (accStep ep ap x).1 ∧ 0 ≤ (accStep ep ap x).2 ∧
    (x.2 + x.1) + (ap + ep) ≤ (accStep ep ap x).2 + (accStep ep ap x).1 := by
  unfold accStep; simp only
  have hu := u_pos
  have : 0 ≤ u * ((x.2 + x.1) + (ap + ep)) := by positivity
  refine ⟨by linarith, by linarith, by linarith⟩

theorem accIter_mono (ep ap : ℝ) (hep : 0 ≤ ep) (hap : 0 ≤ ap) : ∀ (r : Nat) (x : ℝ × ℝ), 0 ≤ x.1 → 0 ≤ x.2 →
    0 ≤ (accIter ep ap r x).1 ∧ 0 ≤ (accIter ep ap r x).2 ∧ x.2 + x.1 ≤ (accIter ep ap r x).2 + (accIter ep ap r x).1 := by
  intro r
  induction r with
  | zero => intro x h1 h2; exact ⟨h1, h2, le_rfl⟩
  | succ r ih =>
    intro x h1 h2
    obtain ⟨s1, s2, s3⟩ := accStep_mono ep ap hep hap x h1 h2
    obtain ⟨i1, i2, i3⟩ := ih (accStep ep ap x) s1 s2
    refine ⟨i1, i2, ?_⟩
    show x.2 + x.1 ≤ (accIter ep ap r (accStep ep ap x)).2 + (accIter ep ap r (accStep ep ap x)).1
    linarith

/-- accumulation over the rows: computed accumulator vs exact accumulator -/
theorem fold_close (Ea Aa Eb Ab : ℝ) (hAa : 1 ≤ Aa) (hAb : 1 ≤ Ab) (hEa : 0 ≤ Ea) (hEb : 0 ≤ Eb)
    (hbig : (Aa + Ea) * (Ab + Eb) ≤ (2:ℝ) ^ (1000:Int)) :
    ∀ {rowsC : List (List C64 × List C64)} {rowsE : List (List ℂ × List ℂ)},
      List.Forall₂ (fun rc re => Close Ea Aa rc.1 re.1 ∧ Close Eb Ab rc.2 re.2) rowsC rowsE →
    ∀ (Es As : ℝ) (sc : List C64) (s : List ℂ), 0 ≤ Es → 0 ≤ As → Close Es As sc s →
      (accIter (epOf Ea Aa Eb Ab) (Aa * Ab) rowsC.length (Es, As)).2 + (accIter (epOf Ea Aa Eb Ab) (Aa * Ab) rowsC.length (Es, As)).1
        ≤ (2:ℝ) ^ (1001:Int) →
      Close (accIter (epOf Ea Aa Eb Ab) (Aa * Ab) rowsC.length (Es, As)).1 (accIter (epOf Ea Aa Eb Ab) (Aa * Ab) rowsC.length (Es, As)).2
        (rowsC.foldl (fun acc r => List.zipWith (fun s uv => caddmul s uv.1 uv.2) acc (r.1.zip r.2)) sc)
        (rowsE.foldl (fun s r => List.zipWith (fun s uv => s + uv.1 * uv.2) s (r.1.zip r.2)) s) := by
  have hep : 0 ≤ epOf Ea Aa Eb Ab := by
    unfold epOf; have := κ_nonneg
    have h1 : 0 ≤ Aa + Ea := by linarith
    have h2 : 0 ≤ Ab + Eb := by linarith
    have h3 : 0 ≤ Ab := by linarith
    positivity
  have hap : 0 ≤ Aa * Ab := by positivity
  intro rowsC rowsE hrows
  induction hrows with
  | nil => intro Es As sc s _ _ hc _; simpa [accIter] using hc
  | @cons rc re _ _ hr _ ih =>
    intro Es As sc s hEs hAs hc hfin
    simp only [List.foldl_cons, List.length_cons, accIter]
    simp only [List.length_cons, accIter] at hfin
    obtain ⟨s1, s2, s3⟩ := accStep_mono _ _ hep hap (Es, As) hEs hAs
    obtain ⟨_, _, i3⟩ := accIter_mono _ _ hep hap _ (accStep (epOf Ea Aa Eb Ab) (Aa * Ab) (Es, As)) s1 s2
    have hS : (As + Es) + (Aa * Ab + epOf Ea Aa Eb Ab) ≤ (2:ℝ) ^ (1001:Int) := by
      simp only at s3; linarith
    have step := close_addmul Es As Ea Aa Eb Ab hAa hAb hEa hEb hEs hAs hbig hS hc hr.1 hr.2
    exact ih _ _ _ _ s1 s2 step hfin


theorem accIter_snd (ep ap : ℝ) : ∀ (r : Nat) (x : ℝ × ℝ), (accIter ep ap r x).2 = x.2 + r * ap := by
  intro r
  induction r with
  | zero => intro x; simp [accIter]
  | succ r ih => intro x; simp only [accIter, ih, accStep]; push_cast; ring

theorem foldl_polyAdd_length (n : Nat) : ∀ (l : List Poly) (S : Poly), S.length = n → (∀ c ∈ l, c.length = n) →
    (l.foldl Hal.polyAdd S).length = n := by
  intro l
  induction l with
  | nil => intro S h _; simpa using h
  | cons c cs ih =>
    intro S hS hl
    simp only [List.foldl_cons]
    apply ih
    · unfold Hal.polyAdd; simp [hS, hl c (by simp)]
    · intro c' hc'; exact hl c' (by simp [hc'])

theorem fwdE_zero (k : Nat) (j : ℝ) : fwdE k j (List.replicate (2 ^ k) 0) = List.replicate (2 ^ k) 0 := by
  rw [fwdE_eval k j _ (by simp)]
  have h : ∀ (n : Nat) (r : ℂ), ev (List.replicate n (0:ℂ)) r = 0 := by
    intro n r; induction n with
    | zero => rfl
    | succ n ih => simp [List.replicate_succ, ev, ih]
  rw [List.map_congr_left (fun r _ => h (2 ^ k) r)]
  rw [List.map_const', rootsL_length]

theorem packC_zero (k : Nat) : packC (2 ^ k) ((Hal.zeroP (2 ^ (k + 1))).map cc) = List.replicate (2 ^ k) 0 := by
  have hp : 2 ^ (k + 1) = 2 ^ k + 2 ^ k := by rw [pow_succ]; ring
  unfold packC Hal.zeroP
  simp [hp, cc, List.take_replicate, List.drop_replicate, List.zipWith_replicate]

/-- the accumulated quantities of the vmp pipeline after `R` rows -/
noncomputable def accR (K R : Nat) (τ Ma Mb : ℝ) : ℝ × ℝ := accIter (EP K τ Ma Mb) (AP K Ma Mb) R (0, 0)

/-- **the magnitude domain of the FFT64 vmp pipeline** (one output column, `R` rows) -/
structure VmpDomain (K R : Nat) (τ Ma Mb : ℝ) : Prop where
  τ0 : 0 ≤ τ
  τ1 : τ ≤ 1
  K1 : K ≤ 1022
  R1 : 1 ≤ R
  Ma1 : 1 ≤ Ma
  Mb1 : 1 ≤ Mb
  ra : 2 ^ K * (1 + γf τ / 2) ^ K * (A0 Ma + 0) ≤ (2:ℝ) ^ (999:Int)
  rb : 2 ^ K * (1 + γf τ / 2) ^ K * (A0 Mb + 0) ≤ (2:ℝ) ^ (999:Int)
  rp : (AF K Ma + EF K τ Ma) * (AF K Mb + EF K τ Mb) ≤ (2:ℝ) ^ (1000:Int)
  racc : (accR K R τ Ma Mb).2 + (accR K R τ Ma Mb).1 ≤ (2:ℝ) ^ (1001:Int)
  ri : 2 ^ K * (1 + γi τ / 2) ^ K * ((accR K R τ Ma Mb).2 + (accR K R τ Ma Mb).1) ≤ (2:ℝ) ^ (997:Int)
  r62 : (accR K R τ Ma Mb).2 ≤ (2:ℝ) ^ (62:Nat)
  main : errB (γi τ) K (accR K R τ Ma Mb).2 (accR K R τ Ma Mb).1 / 2 ^ K * (1 + u) + u * (accR K R τ Ma Mb).2 + η < 1 / 2

/-- **`fft64_vmp_exact`**: `vmp_prepare(rows b_j)`; `vmp_apply_dft(a)`; `idft` on one column = the exact sum of the
negacyclic products, inside the domain -/
theorem vmp_pipeline_exact (K : Nat) (omg iomg : Array Nat) (τ Ma Mb : ℝ) (rows : List (Poly × Poly))
    (hacc : TableAccurate τ K omg iomg)
    (hlen : ∀ r ∈ rows, r.1.length = 2 ^ (K + 1) ∧ r.2.length = 2 ^ (K + 1))
    (hM : ∀ r ∈ rows, (∀ c ∈ r.1, c.natAbs < 2 ^ 53 ∧ |(c:ℝ)| ≤ Ma) ∧ (∀ c ∈ r.2, c.natAbs < 2 ^ 53 ∧ |(c:ℝ)| ≤ Mb))
    (hdom : VmpDomain K rows.length τ Ma Mb) :
    vmpPipeline K omg iomg rows = Hal.sumPolys (2 ^ (K + 1)) (rows.map (fun r => Hal.negMul r.1 r.2)) := by
  have a1 := accF_of_flat τ _ K hacc.1 K 0 0 (by omega) (by norm_num)
  have a2 := accI_of_flat τ _ K hacc.2 K 0 0 (by omega) (by norm_num)
  rw [jval_zero] at a1 a2
  have hγ := γf_nonneg τ hdom.τ0
  have hAFa : 1 ≤ AF K Ma := by
    unfold AF A0; have : (1:ℝ) ≤ 2 ^ K := one_le_pow₀ (by norm_num); have := hdom.Ma1; nlinarith
  have hAFb : 1 ≤ AF K Mb := by
    unfold AF A0; have : (1:ℝ) ≤ 2 ^ K := one_le_pow₀ (by norm_num); have := hdom.Mb1; nlinarith
  have hEFa : 0 ≤ EF K τ Ma := errB_nonneg _ hγ _ _ _ (by unfold A0; have := hdom.Ma1; linarith) le_rfl
  have hEFb : 0 ≤ EF K τ Mb := errB_nonneg _ hγ _ _ _ (by unfold A0; have := hdom.Mb1; linarith) le_rfl
  -- rows
  set rowsC := rows.map (fun r => (dftOf K omg r.1, dftOf K omg r.2)) with hrC
  set rowsE := rows.map (fun r => (fwdE K (1 / 4) (packC (2 ^ K) (r.1.map cc)), fwdE K (1 / 4) (packC (2 ^ K) (r.2.map cc)))) with hrE
  have hrel : List.Forall₂ (fun rc re => Close (EF K τ Ma) (AF K Ma) rc.1 re.1 ∧ Close (EF K τ Mb) (AF K Mb) rc.2 re.2) rowsC rowsE := by
    rw [hrC, hrE, List.forall₂_map_left_iff, List.forall₂_map_right_iff, List.forall₂_same]
    intro r hr
    exact ⟨(dft_close K omg τ Ma r.1 hdom.τ0 hdom.τ1 hdom.Ma1 a1 (hlen r hr).1 (hM r hr).1 hdom.ra).1,
      (dft_close K omg τ Mb r.2 hdom.τ0 hdom.τ1 hdom.Mb1 a1 (hlen r hr).2 (hM r hr).2 hdom.rb).1⟩
  have hz : Close 0 0 (List.replicate (2 ^ K) ((0:Nat), (0:Nat))) (List.replicate (2 ^ K) (0:ℂ)) := by
    have f0 : Fin64 0 := ⟨⟨false, 0, -1074⟩, by decide⟩
    have v0 : val 0 = 0 := by rw [val_of_decode (by decide : decode 0 = some ⟨false, 0, -1074⟩)]; simp [Dy.val]
    have hc : cval (0, 0) = 0 := by apply Complex.ext <;> simp [cval, v0]
    unfold Close
    induction (2 ^ K) with
    | zero => simp
    | succ n ih => rw [List.replicate_succ, List.replicate_succ]; exact List.Forall₂.cons ⟨⟨f0, f0⟩, by simp [hc], by simp⟩ ih
  have hlenC : rowsC.length = rows.length := by simp [hrC]
  have hEPeq : epOf (EF K τ Ma) (AF K Ma) (EF K τ Mb) (AF K Mb) = EP K τ Ma Mb := rfl
  have hAPeq : AF K Ma * AF K Mb = AP K Ma Mb := rfl
  have fc := fold_close (EF K τ Ma) (AF K Ma) (EF K τ Mb) (AF K Mb) hAFa hAFb hEFa hEFb hdom.rp hrel 0 0 _ _ le_rfl le_rfl hz
    (by rw [hlenC, hEPeq, hAPeq]; exact hdom.racc)
  rw [hlenC, hEPeq, hAPeq] at fc
  change Close (accR K rows.length τ Ma Mb).1 (accR K rows.length τ Ma Mb).2 _ _ at fc
  -- exact side
  have hex := exact_fold K rows hlen (Hal.zeroP (2 ^ (K + 1))) (by simp [Hal.zeroP])
  rw [packC_zero, fwdE_zero] at hex
  rw [← hrE] at hex
  rw [hex] at fc
  set c := Hal.sumPolys (2 ^ (K + 1)) (rows.map (fun r => Hal.negMul r.1 r.2)) with hc
  have hcdef : c = (rows.map (fun r => Hal.negMul r.1 r.2)).foldl Hal.polyAdd (Hal.zeroP (2 ^ (K + 1))) := rfl
  rw [← hcdef] at fc
  have lc : c.length = 2 ^ (K + 1) := by
    rw [hcdef]; apply foldl_polyAdd_length _ _ _ (by simp [Hal.zeroP])
    intro p hp
    simp only [List.mem_map] at hp
    obtain ⟨r, hr, rfl⟩ := hp
    rw [Hal.negMul_length]; exact (hlen r hr).2
  have lpk := packC_length K (c.map cc) (by simpa using lc)
  have lacc : (rowsC.foldl (fun acc r => List.zipWith (fun s uv => caddmul s uv.1 uv.2) acc (r.1.zip r.2))
      (List.replicate (2 ^ K) ((0:Nat), (0:Nat)))).length = 2 ^ K := by
    rw [close_len fc, fwdE_length _ _ _ lpk]
  -- inverse transform
  have hep : 0 ≤ EP K τ Ma Mb := by
    unfold EP; have := κ_nonneg
    have h1 : 0 ≤ AF K Ma + EF K τ Ma := by linarith
    have h2 : 0 ≤ AF K Mb + EF K τ Mb := by linarith
    have h3 : 0 ≤ AF K Mb := by linarith
    positivity
  have hap : 0 ≤ AP K Ma Mb := by unfold AP; positivity
  obtain ⟨hE0, _, _⟩ := accIter_mono _ _ hep hap rows.length (0, 0) le_rfl le_rfl
  change 0 ≤ (accR K rows.length τ Ma Mb).1 at hE0
  have hA1 : 1 ≤ (accR K rows.length τ Ma Mb).2 := by
    unfold accR; rw [accIter_snd]; simp only [zero_add]
    have hR : (1:ℝ) ≤ (rows.length : ℝ) := by exact_mod_cast hdom.R1
    have : 1 ≤ AP K Ma Mb := by unfold AP; nlinarith
    nlinarith
  have ci := inv_err τ hdom.τ0 hdom.τ1 (twOf (invIdx K) iomg) K 0 0 (1 / 4) _ _ _ _ hA1 hE0 lacc fc a2 hdom.ri
  rw [invE_fwdE _ _ _ lpk] at ci
  obtain ⟨h1, h2⟩ := take_drop_len c K lc
  have hX : (packC (2 ^ K) (c.map cc)).map ((2:ℂ) ^ K * ·) =
      List.zipWith (fun x y => (2:ℂ) ^ K * (cc x + I * cc y)) (c.take (2 ^ K)) (c.drop (2 ^ K)) := by
    unfold packC
    rw [← List.map_take, ← List.map_drop, List.map_zipWith, List.zipWith_map]
  rw [hX] at ci
  have hEI : 0 ≤ errB (γi τ) K (accR K rows.length τ Ma Mb).2 (accR K rows.length τ Ma Mb).1 :=
    errB_nonneg _ (γi_nonneg τ hdom.τ0) _ _ _ (by linarith) hE0
  have hdiv : 2 ^ K * (accR K rows.length τ Ma Mb).2 / 2 ^ K = (accR K rows.length τ Ma Mb).2 := by field_simp
  obtain ⟨r1, r2⟩ := close_to K hdom.K1 _ (2 ^ K * (accR K rows.length τ Ma Mb).2) hEI (by rw [hdiv]; exact hdom.r62)
    (by rw [hdiv]; exact hdom.main) _ _ _ (by rw [h1, h2]) ci
  have hfold : rows.foldl (fun acc r => List.zipWith (fun s uv => caddmul s uv.1 uv.2) acc ((dftOf K omg r.1).zip (dftOf K omg r.2)))
        (List.replicate (2 ^ K) ((0:Nat), (0:Nat))) =
      rowsC.foldl (fun acc r => List.zipWith (fun s uv => caddmul s uv.1 uv.2) acc (r.1.zip r.2)) (List.replicate (2 ^ K) ((0:Nat), (0:Nat))) := by
    rw [hrC, List.foldl_map]
  unfold vmpPipeline
  simp only []
  rw [hfold]
  unfold idftOf toZnx flat
  rw [List.map_append, List.map_map, List.map_map]
  have e1 : (toI64 K ∘ Prod.fst) = fun w : C64 => toI64 K w.1 := rfl
  have e2 : (toI64 K ∘ Prod.snd) = fun w : C64 => toI64 K w.2 := rfl
  rw [e1, e2, r1, r2, List.take_append_drop]


/-- growth of the accumulator error: after `r ≤ R` rows at most `r·(1+u)^r·(ep + u·R·ap)` -/
theorem accIter_fst_le (ep ap : ℝ) (hep : 0 ≤ ep) (hap : 0 ≤ ap) (R : Nat) :
    ∀ r ≤ R, (accIter ep ap r (0, 0)).1 ≤ r * (1 + u) ^ r * (ep + u * R * ap) ∧ (accIter ep ap r (0, 0)).2 = r * ap := by
  have hu := u_pos
  -- accIter peels from the front; prove the step-at-the-end form first
  have hend : ∀ r (x : ℝ × ℝ), accIter ep ap (r + 1) x = accStep ep ap (accIter ep ap r x) := by
    intro r; induction r with
    | zero => intro x; rfl
    | succ r ih => intro x; rw [accIter, ih (accStep ep ap x)]; rfl
  intro r
  induction r with
  | zero => intro _; simp [accIter]
  | succ r ih =>
    intro hr
    obtain ⟨i1, i2⟩ := ih (by omega)
    rw [hend]
    set x := accIter ep ap r (0, 0)
    have hrR : ((r:ℝ) + 1) ≤ (R:ℝ) := by exact_mod_cast hr
    constructor
    · unfold accStep; simp only
      rw [i2]
      have hc : 0 ≤ ep + u * R * ap := by positivity
      have hp : (1:ℝ) ≤ (1 + u) ^ (r + 1) := one_le_pow₀ (by linarith)
      have h1 : x.1 + ep + u * (r * ap + x.1 + (ap + ep)) = (1 + u) * x.1 + ((1 + u) * ep + u * ((r + 1) * ap)) := by ring
      rw [h1]
      have h2 : (1 + u) * x.1 ≤ r * (1 + u) ^ (r + 1) * (ep + u * R * ap) := by
        have := mul_le_mul_of_nonneg_left i1 (by linarith : (0:ℝ) ≤ 1 + u)
        rw [pow_succ]; nlinarith
      have h3 : (1 + u) * ep + u * ((r + 1) * ap) ≤ (1 + u) * (ep + u * R * ap) := by
        have : u * ((r + 1) * ap) ≤ u * (R * ap) := by
          apply mul_le_mul_of_nonneg_left _ hu.le; exact mul_le_mul_of_nonneg_right hrR hap
        have hnn : 0 ≤ u * (u * R * ap) := by positivity
        have e : (1 + u) * (ep + u * R * ap) = (1 + u) * ep + u * (R * ap) + u * (u * R * ap) := by ring
        rw [e]; linarith
      have h4 : (1 + u) * (ep + u * R * ap) ≤ (1 + u) ^ (r + 1) * (ep + u * R * ap) := by
        apply mul_le_mul_of_nonneg_right _ hc
        calc (1 + u) = (1 + u) ^ 1 := by ring
          _ ≤ (1 + u) ^ (r + 1) := pow_le_pow_right₀ (by linarith) (by omega)
      push_cast; nlinarith
    · unfold accStep; simp only; rw [i2]; push_cast; ring


theorem le_big (x : ℝ) (e : Int) (h : x ≤ (2:ℝ) ^ (200:Nat)) (he : 200 ≤ e) : x ≤ (2:ℝ) ^ e := by
  refine le_trans h ?_
  rw [← zpow_natCast]; exact two_pow_le _ _ (by exact_mod_cast he)

/-- the vmp domain is inhabited and decidable by evaluation: `n = 8`, 3 rows, operands below `2^12` -/
theorem vmpDomain_example : VmpDomain 2 3 τ51 4096 4096 := by
  have hτ0 : 0 ≤ τ51 := by unfold τ51; positivity
  have hτ1 : τ51 ≤ 1 := by unfold τ51; exact zpow_le_one_of_nonpos₀ (by norm_num) (by norm_num)
  have hη : η ≤ 1 / 2048 := η_small
  refine ⟨hτ0, hτ1, by norm_num, by norm_num, by norm_num, by norm_num, le_big _ _ ?_ (by norm_num), le_big _ _ ?_ (by norm_num),
    le_big _ _ ?_ (by norm_num), le_big _ _ ?_ (by norm_num), le_big _ _ ?_ (by norm_num), ?_, ?_⟩
  · simp only [A0, γf, κ, u, τ51]; norm_num
  · simp only [A0, γf, κ, u, τ51]; norm_num
  · simp only [EF, AF, A0, errB, γf, κ, u, τ51]; norm_num
  · simp only [accR, accIter, accStep, EP, AP, EF, AF, A0, errB, γf, κ, u, τ51]; norm_num
  · simp only [accR, accIter, accStep, EP, AP, EF, AF, A0, errB, γf, γi, κ, u, τ51]; norm_num
  · simp only [accR, accIter, accStep, AP, AF, A0]; norm_num
  · have : errB (γi τ51) 2 (accR 2 3 τ51 4096 4096).2 (accR 2 3 τ51 4096 4096).1 / 2 ^ 2 * (1 + u) + u * (accR 2 3 τ51 4096 4096).2 ≤ 1 / 4 := by
      simp only [accR, accIter, accStep, EP, AP, EF, AF, A0, errB, γf, γi, κ, u, τ51]; norm_num
    linarith

end Fft64
