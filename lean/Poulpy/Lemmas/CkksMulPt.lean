import Poulpy.Lemmas.CkksNormOff
import Poulpy.Lemmas.IotaBij
import Poulpy.Lemmas.CnvModel
import Poulpy.Lemmas.ValBridge
import Poulpy.Lemmas.CkksContract
import Poulpy.Lemmas.MulNorm
/-!
`glwe_mul_plain` on coefficients: `ProdContract` discharged for the plaintext product.

`Core.mulPlain` = masked operands (`cnv_prepare_*`), exact convolution accumulators (`cnv_apply_dft`, offset `hi`),
`vec_znx_big_normalize` with the bit offset `lo`.  C05's `mulPlain_phase_value` gives the value of the accumulators'
phase in `ℤ[X]/(X^N+1)`; `Ks.ι_injective` / `ι_surjective` bring it back to coefficients; `NormOff.norm_stage_off`
(C08, every offset) is the normalisation.  Assumed: head-room of the accumulator limbs (`H`, an admissible-shape condition:
`N·min(sa,sb)·2^(2b-2)`-sized sums must fit the accumulator type).
-/

namespace Ckks.MulPt
open Hal Core Core.Ops C02L KsDec Ks Finset

theorem colVal_eq (N b : Nat) (x : Col) (hx : LimbsN N x) : colVal N ((2 : R N) ^ b) x = ι N (valP b N x) := by
  rw [ι_valP N b x hx]; rfl

/-- `ι` of the value of the phase, by columns -/
theorem ι_valP_phase_cols (N : Nat) (hN : 0 < N) (b S : Nat) (s : List Poly) (c0 : Col) (cs : List Col)
    (h0 : ColWF N S c0) (hcs : ∀ c ∈ cs, ColWF N S c) :
    ι N (valP b N (phase s (Ks.mkCt b N (c0 :: cs))))
      = ι N (valP b N c0) + ∑ i ∈ range (min s.length cs.length), ι N (s.getD i []) * ι N (valP b N (cs.getD i [])) := by
  have hcol : ∀ i, i ≤ cs.length → ColWF N S ((c0 :: cs).getD i []) := by
    intro i hi
    have hi' : i < (c0 :: cs).length := by simp only [List.length_cons]; omega
    rw [List.getD_eq_getElem?_getD, List.getElem?_eq_getElem hi']
    simp only [Option.getD_some]
    rcases List.mem_cons.mp (List.getElem_mem hi') with e | e
    · rw [e]; exact h0
    · exact hcs _ e
  have hrank : (Ks.mkCt b N (c0 :: cs)).rank = cs.length := by simp [GLWE.rank, Ks.mkCt]
  rw [phase_eq_linTo, hrank, valP_linTo (N := N) (rs := S) b _ s (fun i => col (Ks.mkCt b N (c0 :: cs)) i)
    (fun i hi => hcol i (by omega)), ι_errTo N hN _ s _ (fun i => by simp), Nat.min_comm]
  rfl

/-- **the accumulators of `glwe_mul_plain` on coefficients**: with `W` the columns `cnv_apply_dft(hi, xᵢ, y)` (`F = sa + sb − hi` limbs),
`val(phase W) + 2^(b·F)·T = 2^b·(val(phase x) ⋆ val(y))` for an integer polynomial `T` (the skipped top limbs; `T = 0` when `hi = 0`) -/
theorem acc_coeff (N : Nat) (hN : 0 < N) (b : Nat) (s : List Poly) (a0 : Col) (as : List Col) (y : Col) (hi sa : Nat)
    (h0 : a0.length = sa) (hall : ∀ x ∈ as, x.length = sa) (hx0 : ∀ l ∈ a0, l.length = N) (hxs : ∀ x ∈ as, ∀ l ∈ x, l.length = N)
    (hy : ∀ l ∈ y, l.length = N) (hsa : 1 ≤ sa) (hsb : 1 ≤ y.length) (hhi : hi ≤ sa + y.length - 1) :
    ∃ T : Poly, T.length = N ∧ (hi = 0 → ∀ t, T.getD t 0 = 0) ∧ ∀ t, t < N →
      valCoeff b (phase s (Ks.mkCt b N ((a0 :: as).map (fun x => Hal.cnvApplyCol N (sa + y.length - hi) hi x y)))) t
        + 2 ^ (b * (sa + y.length - hi)) * T.getD t 0
      = 2 ^ b * (Hal.negMul (valP b N (phase s (Ks.mkCt b N (a0 :: as)))) (valP b N y)).getD t 0 := by
  set F := sa + y.length - hi with hF
  set W := (a0 :: as).map (fun x => Hal.cnvApplyCol N F hi x y) with hW
  have hWwf : ∀ c ∈ W, ColWF N F c := by
    intro c hc
    obtain ⟨x, _, rfl⟩ := List.mem_map.mp hc
    exact cnvApplyCol_wf N F hi x y hy
  have hWne : W ≠ [] := by simp [hW]
  have hval := mulPlain_phase_value N hN s a0 as y hi sa ((2 : R N) ^ b) h0 hall hx0 hxs hy hsa hsb hhi
  rw [← ι_valP_phase_rows' N hN b F s W hWne hWwf] at hval
  have hA0 : ColWF N sa a0 := ⟨h0, hx0⟩
  have hAs : ∀ c ∈ as, ColWF N sa c := fun c hc => ⟨hall c hc, hxs c hc⟩
  have hcols : colVal N ((2 : R N) ^ b) a0 + ∑ i ∈ range (min s.length as.length), ι N (s.getD i []) * colVal N ((2 : R N) ^ b) (as.getD i [])
      = ι N (valP b N (phase s (Ks.mkCt b N (a0 :: as)))) := by
    rw [ι_valP_phase_cols N hN b sa s a0 as hA0 hAs, colVal_eq N b a0 hx0]
    congr 1
    apply Finset.sum_congr rfl
    intro i hi'
    have hi'' : i < as.length := by have := mem_range.mp hi'; omega
    have hm : as.getD i [] ∈ as := by
      rw [List.getD_eq_getElem?_getD, List.getElem?_eq_getElem hi'']; exact List.getElem_mem _
    rw [colVal_eq N b _ (hxs _ hm)]
  rw [hcols, colVal_eq N b y hy] at hval
  -- the skipped top limbs as the class of an integer polynomial
  set Top : R N := plainTop N ((2 : R N) ^ b) a0 y hi
      + ∑ i ∈ range (min s.length as.length), ι N (s.getD i []) * plainTop N ((2 : R N) ^ b) (as.getD i []) y hi with hTop
  have hTop0 : hi = 0 → Top = 0 := by
    intro h
    simp only [hTop, plainTop, h, CnvValue.val, Finset.range_zero, Finset.sum_empty, mul_zero, Finset.sum_const_zero, add_zero]
  obtain ⟨T, hTl, hT⟩ := ι_surjective hN Top
  have hZl : (Hal.negMul (valP b N (phase s (Ks.mkCt b N (a0 :: as)))) (valP b N y)).length = N := by
    rw [Hal.negMul_length]; simp
  have hpow : ((2 : R N) ^ b) ^ F = (((2 : Int) ^ (b * F) : Int) : R N) := by push_cast; rw [pow_mul]
  have hpb : (2 : R N) ^ b = (((2 : Int) ^ b : Int) : R N) := by push_cast; rfl
  have hval' : ι N (valP b N (phase s (Ks.mkCt b N W))) + (((2 : Int) ^ (b * F) : Int) : R N) * ι N T
      = (((2 : Int) ^ b : Int) : R N) * ι N (Hal.negMul (valP b N (phase s (Ks.mkCt b N (a0 :: as)))) (valP b N y)) := by
    rw [ι_negMul N _ _ (by simp) hN, hT, ← hpow, ← hpb, ← mul_assoc]
    exact hval
  have e : ι N (polyAdd (valP b N (phase s (Ks.mkCt b N W))) (polyScale ((2 : Int) ^ (b * F)) T))
      = ι N (polyScale ((2 : Int) ^ b) (Hal.negMul (valP b N (phase s (Ks.mkCt b N (a0 :: as)))) (valP b N y))) := by
    rw [ι_add N _ _ (by simp [polyScale, hTl]), Ks.ι_polyScale, Ks.ι_polyScale]
    exact hval'
  have hlist := ι_injective hN (by simp [polyScale, hTl]) (by simp [polyScale, hZl]) e
  have hT0 : hi = 0 → T = zeroP N := by
    intro h
    apply ι_injective hN hTl (by simp [zeroP])
    rw [hT, hTop0 h, ι_zero]
  refine ⟨T, hTl, fun h t => by rw [hT0 h]; simp [zeroP, List.getD_eq_getElem?_getD, List.getElem?_replicate]; split <;> rfl,
    fun t ht => ?_⟩
  have ht' := congrArg (fun l => l.getD t 0) hlist
  rw [getD_polyAdd' _ _ (by simp [polyScale, hTl]), getD_polyScale', getD_polyScale', valP_getD _ _ _ _ ht] at ht'
  exact ht'

/-- the two regimes of `cnv_offset = (hi+1)·b + lo`: `lo ≥ 0`, or `cnv_offset < b` with `hi = 0` and a negative `lo` -/
theorem split_cases (b cnv : Nat) (hb : 0 < b) :
    ((cnvOffsetSplit b cnv).2.toNat + ((cnvOffsetSplit b cnv).1 + 1) * b = cnv ∧ (-(cnvOffsetSplit b cnv).2).toNat = 0) ∨
    ((cnvOffsetSplit b cnv).1 = 0 ∧ (cnvOffsetSplit b cnv).2.toNat = 0 ∧ cnv + (-(cnvOffsetSplit b cnv).2).toNat = b) := by
  unfold cnvOffsetSplit
  by_cases h : cnv < b
  · right
    rw [if_pos h]
    simp only [Nat.mod_eq_of_lt h]
    refine ⟨trivial, by omega, by omega⟩
  · left
    rw [if_neg h]
    simp only
    have hq : 1 ≤ cnv / b := (Nat.le_div_iff_mul_le hb).mpr (by omega)
    have hdm := Nat.div_add_mod cnv b
    have hmm : b * (cnv / b) = (cnv / b) * b := Nat.mul_comm _ _
    constructor
    · have : cnv / b - 1 + 1 = cnv / b := by omega
      rw [this, Int.toNat_natCast]
      omega
    · omega

/-- **`glwe_mul_plain` on coefficients** (`ProdContract` in its scaled form): the call returns `rs` limbs with digits `≤ 2^b − 1`, and for
every secret `2^(b(sa+sb)+z)·val(phase res) = 2^(cnv+z)·2^(b·rs)·(val(phase a') ⋆ val(pt')) + e + q·2^(…)`, `|e| ≤ (1+Σ‖sᵢ‖₁)·2^(b(sa+sb)+z)`
(`a'`, `pt'` the masked operands, `z = max(0, −lo)`). -/
theorem mulPlain_coeff (N : Nat) (hN : 0 < N) (big : Bool) (b rs cnv : Nat) (hb1 : 1 ≤ b) (hb62 : b ≤ 62)
    (a0 : Col) (as : List Col) (aK : Nat) (pt : Col) (bK : Nat) (sa : Nat)
    (h0 : a0.length = sa) (hall : ∀ x ∈ as, x.length = sa) (hx0 : ∀ l ∈ a0, l.length = N) (hxs : ∀ x ∈ as, ∀ l ∈ x, l.length = N)
    (hpt : ∀ l ∈ pt, l.length = N) (hsa : 1 ≤ sa) (hsb : 1 ≤ pt.length) (hhi : (cnvOffsetSplit b cnv).1 ≤ sa + pt.length - 1)
    (H : Int) (hH0 : 0 ≤ H) (hH : H + 8 ≤ 2 ^ (bitsOf big - 2))
    (hacc : ∀ c ∈ (prepAll N (msbMaskBottomLimb b aK) (a0 :: as)).map (fun x =>
        Hal.cnvApplyCol N (sa + pt.length - (cnvOffsetSplit b cnv).1) (cnvOffsetSplit b cnv).1 x
          (Hal.cnvPrepareCol N pt.length (msbMaskBottomLimb b bK) pt)), ∀ l ∈ c, ∀ x ∈ l, |x| ≤ H) :
    ∃ res, mulPlain big N b rs cnv b (a0 :: as) aK pt bK = some res ∧ res.length = as.length + 1 ∧
      (∀ c ∈ res, ColWF N rs c) ∧ (∀ c ∈ res, ∀ l ∈ c, ∀ x ∈ l, |x| ≤ 2 ^ b - 1) ∧
      ∀ (s : List Poly) t, t < N → ∃ q e : Int,
        2 ^ (b * (sa + pt.length) + (-(cnvOffsetSplit b cnv).2).toNat) * valCoeff b (phase s (Ks.mkCt b N res)) t
          = 2 ^ (cnv + (-(cnvOffsetSplit b cnv).2).toNat) * 2 ^ (b * rs) *
              (Hal.negMul (valP b N (phase s (Ks.mkCt b N (prepAll N (msbMaskBottomLimb b aK) (a0 :: as)))))
                (valP b N (Hal.cnvPrepareCol N pt.length (msbMaskBottomLimb b bK) pt))).getD t 0
            + e + q * 2 ^ (b * rs + (b * (sa + pt.length) + (-(cnvOffsetSplit b cnv).2).toNat)) ∧
        |e| ≤ (1 + snorm (min as.length s.length) s) * 2 ^ (b * (sa + pt.length) + (-(cnvOffsetSplit b cnv).2).toNat) := by
  set hi := (cnvOffsetSplit b cnv).1 with hhidef
  set lo := (cnvOffsetSplit b cnv).2 with hlodef
  set PM := Hal.cnvPrepareCol N pt.length (msbMaskBottomLimb b bK) pt with hPM
  set am0 := Hal.cnvPrepareCol N a0.length (msbMaskBottomLimb b aK) a0 with ham0
  set ams := as.map (fun c => Hal.cnvPrepareCol N c.length (msbMaskBottomLimb b aK) c) with hams
  have hprep : prepAll N (msbMaskBottomLimb b aK) (a0 :: as) = am0 :: ams := rfl
  set F := sa + pt.length - hi with hF
  set W := (am0 :: ams).map (fun x => Hal.cnvApplyCol N F hi x PM) with hW
  have hPMl : ∀ l ∈ PM, l.length = N := cnvPrepareCol_limbs N _ _ pt hpt
  have hPMlen : PM.length = pt.length := by simp [hPM]
  have ham0len : am0.length = sa := by simp [ham0, h0]
  have hamslen : ∀ x ∈ ams, x.length = sa := by
    intro x hx
    obtain ⟨c, hc, rfl⟩ := List.mem_map.mp hx
    simp [hall c hc]
  have ham0l : ∀ l ∈ am0, l.length = N := cnvPrepareCol_limbs N _ _ a0 hx0
  have hamsl : ∀ x ∈ ams, ∀ l ∈ x, l.length = N := by
    intro x hx
    obtain ⟨c, hc, rfl⟩ := List.mem_map.mp hx
    exact cnvPrepareCol_limbs N _ _ c (hxs c hc)
  have hWwf : ∀ c ∈ W, ColWF N F c := by
    intro c hc
    obtain ⟨x, _, rfl⟩ := List.mem_map.mp hc
    exact cnvApplyCol_wf N F hi x PM hPMl
  have hWne : W ≠ [] := by simp [hW]
  rw [hprep] at hacc
  obtain ⟨cs, hok, hlen, hcswf, hdig, hv⟩ := NormOff.norm_stage_off big N b rs b F lo H W hb1 hb62 hb1 hb62 hH0 hH hWne hWwf hacc
  have hmul : mulPlain big N b rs cnv b (a0 :: as) aK pt bK = some cs := by
    unfold mulPlain
    simp only [List.getD_cons_zero, h0]
    show (prepAll N (msbMaskBottomLimb b aK) (a0 :: as)).mapM (fun x => cnvNorm big N b rs b (sa + pt.length - hi) hi lo x PM) = some cs
    rw [hprep]
    unfold cnvNorm
    rw [mapM_comp (fun x => Hal.cnvApplyCol N (sa + pt.length - hi) hi x PM) (fun c => Core.bigNormalizeOff big N b rs lo c b)]
    exact hok
  refine ⟨cs, hmul, by rw [hlen]; simp [hW, hams], hcswf, hdig, fun s t ht => ?_⟩
  obtain ⟨q, e, hrel, he⟩ := hv s t ht
  obtain ⟨T, _, hT0, hacc'⟩ := acc_coeff N hN b s am0 ams PM hi sa ham0len hamslen ham0l hamsl hPMl hsa (by rw [hPMlen]; exact hsb)
    (by rw [hPMlen]; exact hhi)
  have hXW := hacc' t ht
  rw [hPMlen] at hXW
  have hWlen : W.length - 1 = as.length := by simp [hW, hams]
  rw [hWlen] at he
  rw [hprep]
  set X' := valCoeff b (phase s (Ks.mkCt b N cs)) t
  set XW := valCoeff b (phase s (Ks.mkCt b N W)) t
  set Z := (Hal.negMul (valP b N (phase s (Ks.mkCt b N (am0 :: ams)))) (valP b N PM)).getD t 0
  have hFhi : F + hi = sa + pt.length := by omega
  rcases split_cases b cnv (by omega) with ⟨hc1, hz⟩ | ⟨hh0, hp0, hc2⟩
  · -- `lo ≥ 0`
    rw [← hlodef] at hz hc1
    rw [hz] at hrel he ⊢
    simp only [Nat.add_zero] at hrel he ⊢
    refine ⟨q - 2 ^ lo.toNat * T.getD t 0, e * 2 ^ (b * hi), ?_, ?_⟩
    · have e1 : (2 : Int) ^ (b * (sa + pt.length)) = 2 ^ (b * F) * 2 ^ (b * hi) := by rw [← pow_add, ← Nat.mul_add, hFhi]
      have e2 : (2 : Int) ^ cnv = 2 ^ lo.toNat * 2 ^ (b * hi) * 2 ^ b := by
        rw [← pow_add, ← pow_add]; congr 1; rw [← hc1, ← hhidef]; ring
      have e3 : (2 : Int) ^ (b * rs + b * (sa + pt.length)) = 2 ^ (b * rs) * (2 ^ (b * F) * 2 ^ (b * hi)) := by rw [pow_add, e1]
      have e4 : (2 : Int) ^ (b * rs + b * F) = 2 ^ (b * rs) * 2 ^ (b * F) := pow_add _ _ _
      rw [e1, e2, e3]
      rw [e4] at hrel
      linear_combination (2 ^ (b * hi)) * hrel + (2 ^ lo.toNat * 2 ^ (b * rs) * 2 ^ (b * hi)) * hXW
    · rw [abs_mul, abs_of_pos (by positivity : (0 : Int) < 2 ^ (b * hi))]
      have e1 : (2 : Int) ^ (b * (sa + pt.length)) = 2 ^ (b * F) * 2 ^ (b * hi) := by rw [← pow_add, ← Nat.mul_add, hFhi]
      rw [e1]
      calc |e| * 2 ^ (b * hi) ≤ (1 + snorm (min as.length s.length) s) * 2 ^ (b * F) * 2 ^ (b * hi) := by gcongr
        _ = _ := by ring
  · -- `cnv_offset < b`: `hi = 0`, nothing is skipped
    rw [← hhidef] at hh0
    rw [← hlodef] at hp0 hc2
    have hFe : F = sa + pt.length := by omega
    have hT := hT0 hh0 t
    rw [hT, mul_zero, add_zero] at hXW
    rw [hp0, hFe] at hrel
    rw [hFe] at he
    refine ⟨q, e, ?_, he⟩
    have e2 : (2 : Int) ^ (cnv + (-lo).toNat) = 2 ^ b := by rw [hc2]
    rw [e2]
    simp only [pow_zero, one_mul] at hrel
    linear_combination hrel + (2 ^ (b * rs)) * hXW

end Ckks.MulPt
