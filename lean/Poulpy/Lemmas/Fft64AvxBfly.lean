import Poulpy.Lemmas.F64Fma
import Poulpy.Lemmas.Fft64BflyInv
import Poulpy.Model.Fft64Avx

open Complex

namespace Fft64Avx
open F64 Fft64

theorem fmsub_spec_val (a b c : Nat) (hc : Fin64 c) : Fin64 (neg c) ∧ val (neg c) = -val c := neg_spec c hc

/-- `fl(x₁y₁ − fl(x₂y₂))` with the first product fused: two roundings (bound stated with the reference's constant) -/
theorem dot2_sub_avx (x1 y1 x2 y2 : Nat) (P : ℝ) (h1 : Fin64 x1) (h2 : Fin64 y1) (h3 : Fin64 x2) (h4 : Fin64 y2)
    (hp1 : |val x1 * val y1| ≤ P) (hp2 : |val x2 * val y2| ≤ P) (hp : |val x1 * val y1 - val x2 * val y2| ≤ P)
    (hP1 : (2:ℝ) ^ (-1022:Int) ≤ P) (hP2 : P ≤ (2:ℝ) ^ (1000:Int)) :
    Fin64 (fmsub x1 y1 (mul x2 y2)) ∧
      |val (fmsub x1 y1 (mul x2 y2)) - (val x1 * val y1 - val x2 * val y2)| ≤ u * P * (3 + 2 * u) := by
  have hPlt : P < (2:ℝ) ^ (1023:Int) := lt_of_le_of_lt hP2 (two_pow_lt _ _ (by norm_num))
  have hP0 : 0 ≤ P := le_trans (abs_nonneg _) hp1
  have hu := u_pos
  have hu1 := u_le_one
  obtain ⟨f2, e2⟩ := mul_err x2 y2 P h3 h4 hp2 hP1 hPlt
  obtain ⟨fn, vn⟩ := neg_spec _ f2
  have hb : |val x1 * val y1 + val (neg (mul x2 y2))| ≤ P * (1 + u) := by
    rw [vn]
    have e : val x1 * val y1 + -val (mul x2 y2) = (val x1 * val y1 - val x2 * val y2) - (val (mul x2 y2) - val x2 * val y2) := by ring
    rw [e]
    have := abs_sub (val x1 * val y1 - val x2 * val y2) (val (mul x2 y2) - val x2 * val y2)
    nlinarith
  have hlt : P * (1 + u) < (2:ℝ) ^ (1023:Int) := by
    have : P * (1 + u) ≤ (2:ℝ) ^ (1000:Int) * 2 := mul_le_mul hP2 (by linarith) (by positivity) (by positivity)
    have h3 : (2:ℝ) ^ (1000:Int) * 2 < (2:ℝ) ^ (1023:Int) := by
      have : (2:ℝ) ^ (1023:Int) = (2:ℝ) ^ (1000:Int) * (2:ℝ) ^ (23:Int) := by
        rw [← zpow_add₀ (by norm_num : (2:ℝ) ≠ 0)]; norm_num
      rw [this]; apply mul_lt_mul_of_pos_left (by norm_num) (by positivity)
    exact lt_of_le_of_lt this h3
  have hlo : (2:ℝ) ^ (-1022:Int) ≤ P * (1 + u) := by nlinarith
  obtain ⟨f3, e3⟩ := fma_err x1 y1 (neg (mul x2 y2)) _ h1 h2 fn hb hlo hlt
  refine ⟨f3, ?_⟩
  unfold fmsub
  rw [vn] at e3
  have e : val (fma x1 y1 (neg (mul x2 y2))) - (val x1 * val y1 - val x2 * val y2) =
      (val (fma x1 y1 (neg (mul x2 y2))) - (val x1 * val y1 + -val (mul x2 y2))) - (val (mul x2 y2) - val x2 * val y2) := by ring
  rw [e]
  have := abs_sub (val (fma x1 y1 (neg (mul x2 y2))) - (val x1 * val y1 + -val (mul x2 y2))) (val (mul x2 y2) - val x2 * val y2)
  have key : u * (P * (1 + u)) + u * P ≤ u * P * (3 + 2 * u) := by
    have k1 := mul_nonneg hu.le hP0
    have k2 := mul_nonneg hu.le k1
    clear hP2 hPlt hlt hlo hP1
    nlinarith
  clear hP2 hPlt hlt hlo hP1
  linarith

theorem dot2_add_avx (x1 y1 x2 y2 : Nat) (P : ℝ) (h1 : Fin64 x1) (h2 : Fin64 y1) (h3 : Fin64 x2) (h4 : Fin64 y2)
    (hp1 : |val x1 * val y1| ≤ P) (hp2 : |val x2 * val y2| ≤ P) (hp : |val x1 * val y1 + val x2 * val y2| ≤ P)
    (hP1 : (2:ℝ) ^ (-1022:Int) ≤ P) (hP2 : P ≤ (2:ℝ) ^ (1000:Int)) :
    Fin64 (fma x1 y1 (mul x2 y2)) ∧
      |val (fma x1 y1 (mul x2 y2)) - (val x1 * val y1 + val x2 * val y2)| ≤ u * P * (3 + 2 * u) := by
  have hPlt : P < (2:ℝ) ^ (1023:Int) := lt_of_le_of_lt hP2 (two_pow_lt _ _ (by norm_num))
  have hP0 : 0 ≤ P := le_trans (abs_nonneg _) hp1
  have hu := u_pos
  have hu1 := u_le_one
  obtain ⟨f2, e2⟩ := mul_err x2 y2 P h3 h4 hp2 hP1 hPlt
  have hb : |val x1 * val y1 + val (mul x2 y2)| ≤ P * (1 + u) := by
    have e : val x1 * val y1 + val (mul x2 y2) = (val x1 * val y1 + val x2 * val y2) + (val (mul x2 y2) - val x2 * val y2) := by ring
    rw [e]
    have := abs_add_le (val x1 * val y1 + val x2 * val y2) (val (mul x2 y2) - val x2 * val y2)
    nlinarith
  have hlt : P * (1 + u) < (2:ℝ) ^ (1023:Int) := by
    have : P * (1 + u) ≤ (2:ℝ) ^ (1000:Int) * 2 := mul_le_mul hP2 (by linarith) (by positivity) (by positivity)
    have h3 : (2:ℝ) ^ (1000:Int) * 2 < (2:ℝ) ^ (1023:Int) := by
      have : (2:ℝ) ^ (1023:Int) = (2:ℝ) ^ (1000:Int) * (2:ℝ) ^ (23:Int) := by
        rw [← zpow_add₀ (by norm_num : (2:ℝ) ≠ 0)]; norm_num
      rw [this]; apply mul_lt_mul_of_pos_left (by norm_num) (by positivity)
    exact lt_of_le_of_lt this h3
  have hlo : (2:ℝ) ^ (-1022:Int) ≤ P * (1 + u) := by nlinarith
  obtain ⟨f3, e3⟩ := fma_err x1 y1 (mul x2 y2) _ h1 h2 f2 hb hlo hlt
  refine ⟨f3, ?_⟩
  have e : val (fma x1 y1 (mul x2 y2)) - (val x1 * val y1 + val x2 * val y2) =
      (val (fma x1 y1 (mul x2 y2)) - (val x1 * val y1 + val (mul x2 y2))) + (val (mul x2 y2) - val x2 * val y2) := by ring
  rw [e]
  have := abs_add_le (val (fma x1 y1 (mul x2 y2)) - (val x1 * val y1 + val (mul x2 y2))) (val (mul x2 y2) - val x2 * val y2)
  have key : u * (P * (1 + u)) + u * P ≤ u * P * (3 + 2 * u) := by
    have k1 := mul_nonneg hu.le hP0
    have k2 := mul_nonneg hu.le k1
    clear hP2 hPlt hlt hlo hP1
    nlinarith
  clear hP2 hPlt hlt hlo hP1
  linarith


theorem cprod_close (re im : Nat) (z : ℂ) (e : ℝ) (he : 0 ≤ e) (h1 : |val re - z.re| ≤ e) (h2 : |val im - z.im| ≤ e) :
    ‖cval (re, im) - z‖ ≤ 3 / 2 * e :=
  norm_le_of_comp_abs _ _ he (by simpa [cval] using h1) (by simpa [cval] using h2)

/-- bounds on the four real products and on the two components of a complex product -/
theorem prod_bounds (b w : ℂ) (M W : ℝ) (hM : ‖b‖ ≤ M) (hW : ‖w‖ ≤ W) :
    |b.re * w.re| ≤ M * W ∧ |b.im * w.im| ≤ M * W ∧ |b.re * w.im| ≤ M * W ∧ |b.im * w.re| ≤ M * W ∧
    |b.re * w.re - b.im * w.im| ≤ M * W ∧ |b.re * w.im + b.im * w.re| ≤ M * W := by
  have hM0 : 0 ≤ M := le_trans (norm_nonneg _) hM
  have b1 := le_trans (abs_re_le_norm b) hM
  have b2 := le_trans (abs_im_le_norm b) hM
  have w1 := le_trans (abs_re_le_norm w) hW
  have w2 := le_trans (abs_im_le_norm w) hW
  have pr : ∀ x y : ℝ, |x| ≤ M → |y| ≤ W → |x * y| ≤ M * W := by
    intro x y hx hy; rw [abs_mul]; exact mul_le_mul hx hy (abs_nonneg _) hM0
  have hn : ‖b * w‖ ≤ M * W := by rw [Complex.norm_mul]; exact mul_le_mul hM hW (norm_nonneg _) hM0
  have hre := le_trans (abs_re_le_norm _) hn
  have him := le_trans (abs_im_le_norm _) hn
  rw [Complex.mul_re] at hre; rw [Complex.mul_im] at him
  exact ⟨pr _ _ b1 w1, pr _ _ b2 w2, pr _ _ b1 w2, pr _ _ b2 w1, hre, him⟩

/-- `tra = fmsub(omr, ur1, omi·ui1)`, `tia = fmadd(omr, ui1, omi·ur1)`: the twiddle product `b·w` -/
theorem prodN_avx (b : C64) (wr wi : Nat) (hb : CFin b) (hwr : Fin64 wr) (hwi : Fin64 wi) (M W : ℝ)
    (hM : ‖cval b‖ ≤ M) (hW : ‖cval (wr, wi)‖ ≤ W) (hP1 : (2:ℝ) ^ (-1022:Int) ≤ M * W) (hP2 : M * W ≤ (2:ℝ) ^ (1000:Int)) :
    Fin64 (fmsub wr b.1 (mul wi b.2)) ∧ Fin64 (fma wr b.2 (mul wi b.1)) ∧
    ‖cval (fmsub wr b.1 (mul wi b.2), fma wr b.2 (mul wi b.1)) - cval b * cval (wr, wi)‖ ≤ 3 / 2 * (κ * (M * W)) := by
  obtain ⟨p1, p2, p3, p4, p5, p6⟩ := prod_bounds (cval b) (cval (wr, wi)) M W hM hW
  simp only [cval_re, cval_im] at p1 p2 p3 p4 p5 p6
  have hM0 : 0 ≤ M := le_trans (norm_nonneg _) hM
  have hW0 : 0 ≤ W := le_trans (norm_nonneg _) hW
  obtain ⟨f1, e1⟩ := dot2_sub_avx wr b.1 wi b.2 (M * W) hwr hb.1 hwi hb.2 (by rwa [mul_comm]) (by rwa [mul_comm])
    (by rw [mul_comm (val wr), mul_comm (val wi)]; exact p5) hP1 hP2
  obtain ⟨f2, e2⟩ := dot2_add_avx wr b.2 wi b.1 (M * W) hwr hb.2 hwi hb.1 (by rwa [mul_comm]) (by rwa [mul_comm])
    (by rw [mul_comm (val wr), mul_comm (val wi), add_comm]; exact p6) hP1 hP2
  refine ⟨f1, f2, cprod_close _ _ _ _ (mul_nonneg κ_nonneg (mul_nonneg hM0 hW0)) ?_ ?_⟩
  · rw [Complex.mul_re]; simp only [cval_re, cval_im]
    unfold κ; convert e1 using 1 <;> ring
  · rw [Complex.mul_im]; simp only [cval_re, cval_im]
    unfold κ; convert e2 using 1 <;> ring

/-- the `i`-variant lanes: `trb = fmadd(ombi, ur3, ombr·ui3)`, `tib = fmsub(ombi, ui3, ombr·ur3)`: `b·(−i·w)` -/
theorem prodI_avx (b : C64) (wr wi : Nat) (hb : CFin b) (hwr : Fin64 wr) (hwi : Fin64 wi) (M W : ℝ)
    (hM : ‖cval b‖ ≤ M) (hW : ‖cval (wr, wi)‖ ≤ W) (hP1 : (2:ℝ) ^ (-1022:Int) ≤ M * W) (hP2 : M * W ≤ (2:ℝ) ^ (1000:Int)) :
    Fin64 (fma wi b.1 (mul wr b.2)) ∧ Fin64 (fmsub wi b.2 (mul wr b.1)) ∧
    ‖cval (fma wi b.1 (mul wr b.2), fmsub wi b.2 (mul wr b.1)) - cval b * (-I * cval (wr, wi))‖ ≤ 3 / 2 * (κ * (M * W)) := by
  obtain ⟨p1, p2, p3, p4, p5, p6⟩ := prod_bounds (cval b) (cval (wr, wi)) M W hM hW
  simp only [cval_re, cval_im] at p1 p2 p3 p4 p5 p6
  have hM0 : 0 ≤ M := le_trans (norm_nonneg _) hM
  have hW0 : 0 ≤ W := le_trans (norm_nonneg _) hW
  obtain ⟨f1, e1⟩ := dot2_add_avx wi b.1 wr b.2 (M * W) hwi hb.1 hwr hb.2 (by rwa [mul_comm]) (by rwa [mul_comm])
    (by rw [mul_comm (val wr), mul_comm (val wi)]; exact p6) hP1 hP2
  obtain ⟨f2, e2⟩ := dot2_sub_avx wi b.2 wr b.1 (M * W) hwi hb.2 hwr hb.1 (by rwa [mul_comm]) (by rwa [mul_comm])
    (by rw [mul_comm (val wr), mul_comm (val wi), abs_sub_comm]; exact p5) hP1 hP2
  have ere : (cval b * (-I * cval (wr, wi))).re = val wi * val b.1 + val wr * val b.2 := by simp [cval]; ring
  have eim : (cval b * (-I * cval (wr, wi))).im = val wi * val b.2 - val wr * val b.1 := by simp [cval]; ring
  refine ⟨f1, f2, cprod_close _ _ _ _ (mul_nonneg κ_nonneg (mul_nonneg hM0 hW0)) ?_ ?_⟩
  · rw [ere]; unfold κ; convert e1 using 1; ring
  · rw [eim]; unfold κ; convert e2 using 1; ring

/-- `reim_mul_avx2_fma`: `rr = fmsub(ar, br, ai·bi)`, `ri = fmadd(ai, br, ar·bi)` -/
theorem prodM_avx (a b : C64) (ha : CFin a) (hb : CFin b) (M W : ℝ)
    (hM : ‖cval a‖ ≤ M) (hW : ‖cval b‖ ≤ W) (hP1 : (2:ℝ) ^ (-1022:Int) ≤ M * W) (hP2 : M * W ≤ (2:ℝ) ^ (1000:Int)) :
    CFin (cmulLaneAvx a b) ∧ ‖cval (cmulLaneAvx a b) - cval a * cval b‖ ≤ 3 / 2 * (κ * (M * W)) := by
  obtain ⟨p1, p2, p3, p4, p5, p6⟩ := prod_bounds (cval a) (cval b) M W hM hW
  simp only [cval_re, cval_im] at p1 p2 p3 p4 p5 p6
  have hM0 : 0 ≤ M := le_trans (norm_nonneg _) hM
  have hW0 : 0 ≤ W := le_trans (norm_nonneg _) hW
  obtain ⟨f1, e1⟩ := dot2_sub_avx a.1 b.1 a.2 b.2 (M * W) ha.1 hb.1 ha.2 hb.2 p1 p2 p5 hP1 hP2
  obtain ⟨f2, e2⟩ := dot2_add_avx a.2 b.1 a.1 b.2 (M * W) ha.2 hb.1 ha.1 hb.2 p4 p3 (by rw [add_comm]; exact p6) hP1 hP2
  refine ⟨⟨f1, f2⟩, cprod_close _ _ _ _ (mul_nonneg κ_nonneg (mul_nonneg hM0 hW0)) ?_ ?_⟩
  · rw [Complex.mul_re]; simp only [cval_re, cval_im]
    unfold κ; convert e1 using 1; ring
  · rw [Complex.mul_im]; simp only [cval_re, cval_im]
    unfold κ; convert e2 using 1 <;> ring


/-- **one AVX2/FMA forward butterfly**: same statement and constant as the reference butterfly (`Fft64.bflyFwd_err`);
the fused product saves one rounding, which the bound does not need -/
theorem bflyFwdAvx_err (t : Tw) (a b : C64) (ω : ℂ) (τ M : ℝ) (ht : TwFin t) (ha : CFin a) (hb : CFin b)
    (hω : ‖ω‖ = 1) (hτ : ‖twC t - ω‖ ≤ τ) (hτ1 : τ ≤ 1) (hMa : ‖cval a‖ ≤ M) (hMb : ‖cval b‖ ≤ M)
    (hM1 : 1 ≤ M) (hM2 : M ≤ (2:ℝ) ^ (999:Int)) :
    CFin (bflyFwdAvx t a b).1 ∧ CFin (bflyFwdAvx t a b).2 ∧
    ‖cval (bflyFwdAvx t a b).1 - (cval a + ω * cval b)‖ ≤ γf τ * M ∧
    ‖cval (bflyFwdAvx t a b).2 - (cval a - ω * cval b)‖ ≤ γf τ * M := by
  have hτ0 : 0 ≤ τ := le_trans (norm_nonneg _) hτ
  have hM0 : (0:ℝ) ≤ M := by linarith
  set w : ℂ := cval (t.re, t.im) with hw
  have hW : ‖w‖ ≤ 1 + τ := by
    rw [hw, ← norm_twC]
    have := norm_sub_norm_le (twC t) ω
    rw [hω] at this; linarith
  have hP1 : (2:ℝ) ^ (-1022:Int) ≤ M * (1 + τ) := by
    have : (2:ℝ) ^ (-1022:Int) ≤ 1 := zpow_le_one_of_nonpos₀ (by norm_num) (by norm_num)
    nlinarith
  have hP2 : M * (1 + τ) ≤ (2:ℝ) ^ (1000:Int) := by
    have e : (2:ℝ) ^ (1000:Int) = (2:ℝ) ^ (999:Int) * 2 := by
      rw [show (1000:Int) = 999 + 1 by norm_num, zpow_add₀ (by norm_num : (2:ℝ) ≠ 0)]; norm_num
    rw [e]; exact mul_le_mul hM2 (by linarith) (by linarith) (by positivity)
  set ε := 3 / 2 * (κ * (M * (1 + τ))) with hε
  have hκ := κ_nonneg
  have hκ8 := κ_le
  have hε0 : 0 ≤ ε := by rw [hε]; positivity
  set S := M + (M * (1 + τ) + ε) with hS
  have hSle : S ≤ (2:ℝ) ^ (1001:Int) := by
    have e : (2:ℝ) ^ (1001:Int) = (2:ℝ) ^ (999:Int) * 4 := by
      rw [show (1001:Int) = 999 + 2 by norm_num, zpow_add₀ (by norm_num : (2:ℝ) ≠ 0)]; norm_num
    have hεle : ε ≤ 3 / 8 * M := by
      have h1 : M * (1 + τ) ≤ M * 2 := mul_le_mul_of_nonneg_left (by linarith) hM0
      have h2 : κ * (M * (1 + τ)) ≤ 1 / 8 * (M * 2) := mul_le_mul hκ8 h1 (by positivity) (by norm_num)
      rw [hε]; linarith
    have : S ≤ M * 4 := by rw [hS]; nlinarith
    rw [e]; exact le_trans this (mul_le_mul_of_nonneg_right hM2 (by norm_num))
  have hγ : u * S + ε + M * τ = γf τ * M := by rw [hS, hε]; unfold γf; ring
  have hu := u_pos.le
  unfold bflyFwdAvx
  split
  · rename_i him
    have hωw : ‖I * w - ω‖ ≤ τ := by simpa [twC, him, hw] using hτ
    obtain ⟨fr, fi, hprod⟩ := prodI_avx b t.re t.im hb ht.1 ht.2 M (1 + τ) hMb hW hP1 hP2
    set trb := fma t.im b.1 (mul t.re b.2)
    set tib := fmsub t.im b.2 (mul t.re b.1)
    have hbw : ‖cval b * (-I * w)‖ ≤ M * (1 + τ) := by
      rw [Complex.norm_mul, Complex.norm_mul, norm_neg, Complex.norm_I, one_mul]
      exact mul_le_mul hMb hW (norm_nonneg _) hM0
    have hd : ‖cval (trb, tib)‖ ≤ M * (1 + τ) + ε := by
      have := norm_le_insert' (cval (trb, tib)) (cval b * (-I * w)); linarith
    obtain ⟨⟨c1, e1⟩, ⟨c2, e2⟩, _, _⟩ := out_stage a trb tib ha fr fi S (by linarith) hSle
    have key : ‖-cval (trb, tib) - ω * cval b‖ ≤ ε + M * τ := by
      have e' : -cval (trb, tib) - ω * cval b = -(cval (trb, tib) - cval b * (-I * w)) + (I * w - ω) * cval b := by ring
      rw [e']
      refine le_trans (norm_add_le _ _) ?_
      rw [norm_neg, Complex.norm_mul]
      have : ‖I * w - ω‖ * ‖cval b‖ ≤ τ * M := mul_le_mul hωw hMb (norm_nonneg _) hτ0
      linarith
    refine ⟨c2, c1, ?_, ?_⟩
    · have e' : cval (sub a.1 trb, sub a.2 tib) - (cval a + ω * cval b) =
          (cval (sub a.1 trb, sub a.2 tib) - (cval a - cval (trb, tib))) + (-cval (trb, tib) - ω * cval b) := by ring
      rw [← hγ, e']
      refine le_trans (norm_add_le _ _) ?_; linarith
    · have e' : cval (add a.1 trb, add a.2 tib) - (cval a - ω * cval b) =
          (cval (add a.1 trb, add a.2 tib) - (cval a + cval (trb, tib))) - (-cval (trb, tib) - ω * cval b) := by ring
      rw [← hγ, e']
      refine le_trans (norm_sub_le _ _) ?_; linarith
  · rename_i him
    have hωw : ‖w - ω‖ ≤ τ := by simpa [twC, him, hw] using hτ
    obtain ⟨fr, fi, hprod⟩ := prodN_avx b t.re t.im hb ht.1 ht.2 M (1 + τ) hMb hW hP1 hP2
    set dr := fmsub t.re b.1 (mul t.im b.2)
    set di := fma t.re b.2 (mul t.im b.1)
    have hbw : ‖cval b * w‖ ≤ M * (1 + τ) := by
      rw [Complex.norm_mul]; exact mul_le_mul hMb hW (norm_nonneg _) hM0
    have hd : ‖cval (dr, di)‖ ≤ M * (1 + τ) + ε := by
      have := norm_le_insert' (cval (dr, di)) (cval b * w); linarith
    obtain ⟨⟨c1, e1⟩, ⟨c2, e2⟩, _, _⟩ := out_stage a dr di ha fr fi S (by linarith) hSle
    have key : ‖cval (dr, di) - ω * cval b‖ ≤ ε + M * τ := by
      have e' : cval (dr, di) - ω * cval b = (cval (dr, di) - cval b * w) + (w - ω) * cval b := by ring
      rw [e']
      refine le_trans (norm_add_le _ _) ?_
      rw [Complex.norm_mul]
      have : ‖w - ω‖ * ‖cval b‖ ≤ τ * M := mul_le_mul hωw hMb (norm_nonneg _) hτ0
      linarith
    refine ⟨c1, c2, ?_, ?_⟩
    · have e1' : cval (add a.1 dr, add a.2 di) - (cval a + ω * cval b) =
          (cval (add a.1 dr, add a.2 di) - (cval a + cval (dr, di))) + (cval (dr, di) - ω * cval b) := by ring
      rw [← hγ, e1']
      refine le_trans (norm_add_le _ _) ?_; linarith
    · have e1' : cval (sub a.1 dr, sub a.2 di) - (cval a - ω * cval b) =
          (cval (sub a.1 dr, sub a.2 di) - (cval a - cval (dr, di))) - (cval (dr, di) - ω * cval b) := by ring
      rw [← hγ, e1']
      refine le_trans (norm_sub_le _ _) ?_; linarith

/-- **one AVX2/FMA inverse butterfly**: same statement and constant as `Fft64.bflyInv_err` -/
theorem bflyInvAvx_err (t : Tw) (a b : C64) (ω : ℂ) (τ M : ℝ) (ht : TwFin t) (ha : CFin a) (hb : CFin b)
    (hω : ‖ω‖ = 1) (hτ : ‖twCi t - ω‖ ≤ τ) (hτ1 : τ ≤ 1) (hMa : ‖cval a‖ ≤ M) (hMb : ‖cval b‖ ≤ M)
    (hM1 : 1 ≤ M) (hM2 : M ≤ (2:ℝ) ^ (997:Int)) :
    CFin (bflyInvAvx t a b).1 ∧ CFin (bflyInvAvx t a b).2 ∧
    ‖cval (bflyInvAvx t a b).1 - (cval a + cval b)‖ ≤ γi τ * M ∧
    ‖cval (bflyInvAvx t a b).2 - (cval a - cval b) * ω‖ ≤ γi τ * M := by
  have hτ0 : 0 ≤ τ := le_trans (norm_nonneg _) hτ
  have hM0 : (0:ℝ) ≤ M := by linarith
  have hu := u_pos
  have hu1 := u_le_one
  have hκ := κ_nonneg
  have hκ8 := κ_le
  set w : ℂ := cval (t.re, t.im) with hw
  have hW : ‖w‖ ≤ 1 + τ := by
    rw [hw, ← norm_twCi]
    have := norm_sub_norm_le (twCi t) ω
    rw [hω] at this; linarith
  have hS : ‖cval a‖ + ‖cval (b.1, b.2)‖ ≤ 2 * M := by
    show ‖cval a‖ + ‖cval b‖ ≤ 2 * M; linarith
  have hS2 : 2 * M ≤ (2:ℝ) ^ (1001:Int) := by
    have e : (2:ℝ) ^ (1001:Int) = 16 * (2:ℝ) ^ (997:Int) := by
      rw [show (1001:Int) = 4 + 997 by norm_num, zpow_add₀ (by norm_num : (2:ℝ) ≠ 0)]; norm_num
    rw [e]
    have hT : (0:ℝ) < (2:ℝ) ^ (997:Int) := by positivity
    generalize (2:ℝ) ^ (997:Int) = T at *
    clear e
    linarith
  obtain ⟨⟨cs, es⟩, ⟨cd, ed⟩, _, _⟩ := out_stage a b.1 b.2 ha hb.1 hb.2 (2 * M) hS hS2
  change ‖cval (add a.1 b.1, add a.2 b.2) - (cval a + cval b)‖ ≤ u * (2 * M) at es
  change ‖cval (sub a.1 b.1, sub a.2 b.2) - (cval a - cval b)‖ ≤ u * (2 * M) at ed
  set dc : C64 := (sub a.1 b.1, sub a.2 b.2) with hdc
  set M' := 2 * M * (1 + u) with hM'
  have hdn : ‖cval dc‖ ≤ M' := by
    have h1 := norm_le_insert' (cval dc) (cval a - cval b)
    have h2 := norm_sub_le (cval a) (cval b)
    rw [hM']; nlinarith
  have hP1 : (2:ℝ) ^ (-1022:Int) ≤ M' * (1 + τ) := by
    have : (2:ℝ) ^ (-1022:Int) ≤ 1 := zpow_le_one_of_nonpos₀ (by norm_num) (by norm_num)
    have : 1 ≤ M' := by rw [hM']; nlinarith
    nlinarith
  have hP2 : M' * (1 + τ) ≤ (2:ℝ) ^ (1000:Int) := by
    have e : (2:ℝ) ^ (1000:Int) = (2:ℝ) ^ (997:Int) * 8 := by
      rw [show (1000:Int) = 997 + 3 by norm_num, zpow_add₀ (by norm_num : (2:ℝ) ≠ 0)]; norm_num
    have h1 : M' ≤ (2:ℝ) ^ (997:Int) * 4 := by
      rw [hM']
      have hT : (0:ℝ) < (2:ℝ) ^ (997:Int) := by positivity
      generalize (2:ℝ) ^ (997:Int) = T at *
      clear e
      nlinarith
    rw [e]
    calc M' * (1 + τ) ≤ ((2:ℝ) ^ (997:Int) * 4) * 2 := mul_le_mul h1 (by linarith) (by linarith) (by positivity)
      _ = (2:ℝ) ^ (997:Int) * 8 := by ring
  set ε := 3 / 2 * (κ * (M' * (1 + τ))) with hε
  have hγ : ε + M' * τ + u * (2 * M) = γi τ * M := by rw [hε, hM']; unfold γi; ring
  have hγ2 : u * (2 * M) ≤ γi τ * M := by
    rw [← hγ]; have : 0 ≤ ε := by rw [hε, hM']; positivity
    have : 0 ≤ M' * τ := by rw [hM']; positivity
    linarith
  have tail : ∀ p : C64, ∀ weff : ℂ, ‖weff - ω‖ ≤ τ → ‖cval p - cval dc * weff‖ ≤ ε →
      ‖cval p - (cval a - cval b) * ω‖ ≤ γi τ * M := by
    intro p weff hwe hp
    have e1 : cval p - (cval a - cval b) * ω =
        (cval p - cval dc * weff) + cval dc * (weff - ω) + (cval dc - (cval a - cval b)) * ω := by ring
    rw [e1, ← hγ]
    refine le_trans (norm_add₃_le) ?_
    rw [Complex.norm_mul, Complex.norm_mul, hω, mul_one]
    have : ‖cval dc‖ * ‖weff - ω‖ ≤ M' * τ := mul_le_mul hdn hwe (norm_nonneg _) (by rw [hM']; positivity)
    linarith
  unfold bflyInvAvx
  simp only
  split
  · rename_i him
    have hωw : ‖-I * w - ω‖ ≤ τ := by simpa [twCi, him, hw] using hτ
    obtain ⟨f1, f2, hp⟩ := prodI_avx dc t.re t.im cd ht.1 ht.2 M' (1 + τ) hdn hW hP1 hP2
    exact ⟨cs, ⟨f1, f2⟩, le_trans es hγ2, tail _ _ hωw hp⟩
  · rename_i him
    have hωw : ‖w - ω‖ ≤ τ := by simpa [twCi, him, hw] using hτ
    obtain ⟨f1, f2, hp⟩ := prodN_avx dc t.re t.im cd ht.1 ht.2 M' (1 + τ) hdn hW hP1 hP2
    exact ⟨cs, ⟨f1, f2⟩, le_trans es hγ2, tail _ _ hωw hp⟩


end Fft64Avx
